(* C11 -- graph transformations preserve the computation the graph denotes.

   Model: Graph/GStore.v (Node, Output, Graph), Graph/Engine.v (Transformer.transform),
   Graph/Denote.v (what a node output denotes, for every interpretation of payloads),
   Graph/Copy.v Rename.v Dedup.v Split.v Expand.v Fuse.v (the six transformers; Graph/SplitPlaced.v:
   where split puts every node, for keys that read the node's inputs too),
   Graph/GraphOps.v (Graph objects over time: empty, +, +=, join_namespaced), as of the
   repository commits 5f2bc4c, 96f2ca8, c784dd1.
   Hypotheses, in words:
     topo (heap g)      : the graph is acyclic, nodes numbered parents first (GStore.v);
     f g = Ok g'        : the transformation returns (Err = a Python exception, or the
                          model's fuel/out-of-domain markers "model:...").
   No bound on the number of nodes, inputs, outputs or sinks; names are arbitrary strings. *)
From Coq Require Import List String Bool Arith ZArith Lia.
From EKW Require Import Graph.GStore Graph.ExportCheck Graph.Denote Graph.Engine Graph.EngineProofs.
From EKW Require Import Graph.Copy Graph.Rename Graph.CopyProofs Graph.Dedup Graph.DedupProofs Graph.DedupIdem.
From EKW Require Import Graph.Split Graph.SplitProofs Graph.SplitPlaced Graph.Expand Graph.ExpandProofs Graph.Fuse Graph.FuseProofs.
From EKW Require Import Graph.EngineFuel Graph.EngineFuelAll Graph.ExpandSplice.
From EKW Require Import Graph.EngineCheck Graph.GraphOps Graph.GraphOpsProofs Graph.GraphOpsCheck.
Import ListNotations.
Open Scope string_scope.
Open Scope list_scope.

(* copy_graph: sink i of the copy denotes what sink i of the input denotes *)
Theorem C11_copy_preserves :
  forall (P V : Type) (interp : option P -> list string -> list (string * V) -> string -> V)
         (g g' : graph P),
  topo (heap g) -> copy_graph g = Ok g' ->
  Forall2 (fun s s' => forall o, sem interp (heap g') s' o = sem interp (heap g) s o) (sinks g) (sinks g').
Proof. exact copy_preserves_sem. Qed.

(* rename_nodes, for ANY renaming function (injective or not) *)
Theorem C11_rename_preserves :
  forall (P V : Type) (interp : option P -> list string -> list (string * V) -> string -> V)
         (func : string -> string) (g g' : graph P),
  topo (heap g) -> rename_nodes func g = Ok g' ->
  Forall2 (fun s s' => forall o, sem interp (heap g') s' o = sem interp (heap g) s o) (sinks g) (sinks g').
Proof. exact rename_preserves_sem. Qed.

(* deduplicate_nodes, for any predicate that only merges nodes of equal payload
   (same_payload does) and any interpretation that takes its inputs as keyword arguments
   (_cmp_nodes compares inputs as dictionaries, so two nodes whose inputs are listed in a
   different order are merged): every input sink has a result sink of equal denotation and
   vice versa *)
Theorem C11_dedup_preserves :
  forall (P V : Type) (interp : option P -> list string -> list (string * V) -> string -> V),
  (forall p outs a b o, (forall k, lookup k a = lookup k b) -> interp p outs a o = interp p outs b o) ->
  forall pred : node P -> node P -> bool,
  (forall a b, pred a b = true -> npay a = npay b) ->
  forall g g' : graph P, topo (heap g) -> deduplicate_nodes pred g = Ok g' ->
  Forall (fun s => exists s', In s' (sinks g') /\ forall o, sem interp (heap g') s' o = sem interp (heap g) s o) (sinks g) /\
  Forall (fun s' => exists s, In s (sinks g) /\ forall o, sem interp (heap g') s' o = sem interp (heap g) s o) (sinks g').
Proof.
  intros P V interp Hkw pred Hp g g' Ht H.
  exact (dedup_preserves_sem P V interp Hkw pred Hp (heap g) Ht g g' eq_refl H).
Qed.

(* ... and no two distinct nodes of the result have equal payload, outputs and inputs
   (inputs as dictionaries: same names, same parent OBJECT, same output name) *)
Theorem C11_dedup_no_two_equal :
  forall (P : Type) (pred : node P -> node P -> bool),
  (forall a b, pred a b = true <-> npay a = npay b) ->
  forall g g' : graph P, deduplicate_nodes pred g = Ok g' ->
  forall a b nda ndb, reachable (heap g') (sinks g') a -> reachable (heap g') (sinks g') b -> a <> b ->
    nth_error (heap g') a = Some nda -> nth_error (heap g') b = Some ndb ->
    ~ (npay nda = npay ndb /\ nouts nda = nouts ndb /\ forall k, lookup k (nins nda) = lookup k (nins ndb)).
Proof.
  intros P pred Hp g g' H. exact (no_two_equal P pred (heap g) Hp g g' eq_refl H).
Qed.

(* ... and is idempotent: applied to its own result it merges nothing.  The second run maps
   the reachable nodes of g1 one-to-one (`done`) onto the nodes of g2, keeping names, outputs,
   payloads, inputs and their order (img), and maps the sinks of g1 onto the sinks of g2 in
   order.  (The sink order of a run is the model's; the implementation's set order is
   matched by the checker, see agrees_upto_sink_order.) *)
Theorem C11_dedup_idempotent :
  forall (P : Type) (pred : node P -> node P -> bool),
  (forall a b, pred a b = true <-> npay a = npay b) ->
  forall g g1 g2 : graph P,
  deduplicate_nodes pred g = Ok g1 -> deduplicate_nodes pred g1 = Ok g2 ->
  exists done,
    Forall2 (fun s s' => In (s, s') done) (sinks g1) (sinks g2) /\
    (forall m r, In (m, r) done -> reachable (heap g1) (sinks g1) m /\
       exists nd ndr, nth_error (heap g1) m = Some nd /\ nth_error (heap g2) r = Some ndr /\ img P done nd ndr) /\
    (forall m m' r, In (m, r) done -> In (m', r) done -> m = m').
Proof. exact dedup_idempotent. Qed.

(* split_graph, for ANY key function (of the node and, through the heap, of the nodes its inputs
   point to: Graph/Split.v), key equality and cut naming: every sink of the input
   is a sink of one of the parts, and in the parts re-joined along the cut edges (the source
   created for a cut stands for the output the cut replaced) it denotes what it denoted *)
Theorem C11_split_rejoin :
  forall (P V K : Type) (interp : option P -> list string -> list (string * V) -> string -> V)
         (keqb : K -> K -> bool) (key : list (node P) -> node P -> K) (cut_name : cutedge K -> string)
         (g : graph P) (r : splitres P K),
  topo (heap g) -> split_graph keqb key cut_name g = Ok r ->
  exists rs, Forall2 (fun s x => in_part K (rparts r) x /\
                                 forall o, sem_rj interp (rstands r) (rheap r) x o = sem interp (heap g) s o)
                     (sinks g) rs.
Proof.
  intros P V K interp keqb key cut_name g r Ht H.
  exact (split_rejoin_sem P V interp K keqb (key (heap g)) cut_name (heap g) Ht g r eq_refl H).
Qed.

(* split, for any key function whose == is equality: a node of the result is reachable from
   the sinks of at most one part (the parts are disjoint; that every input sink lies in a
   part is in C11_split_rejoin) *)
Theorem C11_split_partition :
  forall (P K : Type) (keqb : K -> K -> bool), (forall a b, keqb a b = true <-> a = b) ->
  forall (key : list (node P) -> node P -> K) (cut_name : cutedge K -> string) (g : graph P) (r : splitres P K),
  split_graph keqb key cut_name g = Ok r ->
  forall x k1 ss1 k2 ss2, In (k1, ss1) (rparts r) -> In (k2, ss2) (rparts r) ->
    reachable (rheap r) ss1 x -> reachable (rheap r) ss2 x -> (k1, ss1) = (k2, ss2).
Proof.
  intros P K keqb Hk key cut_name g r H.
  exact (split_partition P K keqb Hk (key (heap g)) cut_name (heap g) g r eq_refl H).
Qed.

(* split: one (sink, source) pair per reported cut edge, in order: both carry the cut's name,
   the sink has no outputs, is fed through "input" by output c_sout of the node called
   c_snode and is listed among the sinks of the source part; the source has no inputs and a
   default output (cut_ok, Graph/SplitProofs.v).  That the reported cuts are exactly the
   cross-part edges of the input is checked by the oracle, not proved. *)
Theorem C11_split_cuts_exact_partial :
  forall (P K : Type) (keqb : K -> K -> bool) (key : list (node P) -> node P -> K) (cut_name : cutedge K -> string)
         (g : graph P) (r : splitres P K),
  split_graph keqb key cut_name g = Ok r ->
  Forall2 (cut_ok P K keqb cut_name (rheap r) (rparts r)) (rcuts r) (rev (rpairs r)).
Proof.
  intros P K keqb key cut_name g r H.
  exact (split_cuts_exact P K keqb (key (heap g)) cut_name (heap g) g r eq_refl H).
Qed.

(* split, for ANY key function: where the nodes of the input end up.  rdone r (the engine's
   `done` dict) lists for every visited node m of the input the key k it was processed under
   and its written version x in the result.  (1) every node reachable from the sinks of the
   input has such an entry and x is reachable from the sinks of one of the parts; (2) k is the
   key of the node AS IT IS IN THE INPUT GRAPH -- also for keys that read the node's inputs,
   although the inputs of x may be cut sources -- and x keeps name, outputs, payload and
   input names.  With C11_split_part_of_key and C11_split_partition: every node of the
   input is in exactly one part, the part of its key in the input graph. *)
Theorem C11_split_placed_by_input_key :
  forall (P K : Type) (keqb : K -> K -> bool) (key : list (node P) -> node P -> K) (cut_name : cutedge K -> string)
         (g : graph P) (r : splitres P K),
  split_graph keqb key cut_name g = Ok r ->
  (forall m, reachable (heap g) (sinks g) m ->
     exists k x, In (m, (k, x)) (rdone r) /\ exists k' ss, In (k', ss) (rparts r) /\ reachable (rheap r) ss x) /\
  (forall m k x, In (m, (k, x)) (rdone r) ->
     exists nd nd', nth_error (heap g) m = Some nd /\ k = key (heap g) nd /\ nth_error (rheap r) x = Some nd' /\
       nname nd' = nname nd /\ nouts nd' = nouts nd /\ npay nd' = npay nd /\ map fst (nins nd') = map fst (nins nd)).
Proof.
  intros P K keqb key cut_name g r H. split.
  - exact (split_placed P K keqb (key (heap g)) cut_name (heap g) g r eq_refl H).
  - exact (split_done_key P K keqb (key (heap g)) cut_name (heap g) g r eq_refl H).
Qed.

(* ... and, key equality being equality, a part from whose sinks the version of a node is
   reachable is the part named by the key the node was processed under *)
Theorem C11_split_part_of_key :
  forall (P K : Type) (keqb : K -> K -> bool), (forall a b, keqb a b = true <-> a = b) ->
  forall (key : list (node P) -> node P -> K) (cut_name : cutedge K -> string) (g : graph P) (r : splitres P K),
  split_graph keqb key cut_name g = Ok r ->
  forall m k x, In (m, (k, x)) (rdone r) ->
  forall k' ss, In (k', ss) (rparts r) -> reachable (rheap r) ss x -> k' = k.
Proof.
  intros P K keqb Hk key cut_name g r H.
  exact (split_part_of_key P K keqb Hk (key (heap g)) cut_name (heap g) g r eq_refl H).
Qed.

(* the model's fuel suffices: on an acyclic graph with valid sinks no transformation
   answers "model:OutOfFuel" (so `f g = Ok g'` above only excludes Python exceptions and the
   out-of-domain markers) *)
Theorem C11_engine_fuel_sufficient :
  forall (P St R Ou : Type) (visit : St -> nat -> node P -> list (string * Ou) -> res (St * R))
         (output : St -> R -> string -> res Ou) (h : list (node P)),
  topo h -> (forall st n nd inputs, visit st n nd inputs <> Err OOF) ->
  (forall st r o, output st r o <> Err OOF) ->
  forall sinks st, Forall (fun s => s < List.length h) sinks -> transform visit output h sinks st <> Err OOF.
Proof. exact transform_fuel. Qed.

Theorem C11_fuel_all :
  forall (P : Type) (g : graph P), topo (heap g) -> valid_sinks g ->
  copy_graph g <> Err OOF /\
  (forall func, rename_nodes func g <> Err OOF) /\
  (forall pred, deduplicate_nodes pred g <> Err OOF) /\
  (forall K keqb (key : list (node P) -> node P -> K) cut_name, split_graph keqb key cut_name g <> Err OOF) /\
  (forall func, fuse_nodes func g <> Err OOF) /\
  (forall expander, (forall nd sub imap omap, expander nd = Some (sub, imap, omap) -> topo (heap sub) /\ valid_sinks sub) ->
                    expand_graph expander g <> Err OOF).
Proof.
  intros P g Ht Hs. split; [now apply copy_fuel|]. split; [intros; now apply rename_fuel|].
  split; [intros; now apply dedup_fuel|]. split; [intros; unfold split_graph; now apply split_fuel|].
  split; [intros; now apply fuse_fuel|]. intros; now apply expand_fuel.
Qed.

(* expand_graph: a consumer of output o of an expanded node is wired to the default output
   of the leaf registered under output_map[o] ... *)
Theorem C11_expand_wiring :
  forall (P : Type) (h' : list (node P)) leaves om inner o x,
  expand_output h' (RSub leaves om inner) o = Ok x ->
  exists lname leaf, lookup o om = Some lname /\ lookup_last lname leaves = Some leaf /\ x = (leaf, DEFAULT_OUTPUT).
Proof. exact expand_output_sub. Qed.

(* ... and the leaves are exactly the transformed sub-graph sinks whose UN-PREFIXED name
   (str.removeprefix of "<expanded node>.") is a value of the output map; the others are
   inner sinks (which become sinks of the result) *)
Theorem C11_expand_leaves :
  forall (P : Type) pname (spo : smap) (h' : list (node P)) sinks leaves inner,
  splicer_sort pname spo h' sinks [] [] = (leaves, inner) ->
  (forall k s, In (k, s) leaves ->
      In s sinks /\ k = remove_prefix (pname ++ ".") (name_of h' s) /\ smemb k (map snd spo) = true) /\
  (forall s, In s inner ->
      In s sinks /\ smemb (remove_prefix (pname ++ ".") (name_of h' s)) (map snd spo) = false) /\
  (forall s, In s sinks -> In s inner \/ exists k, In (k, s) leaves).
Proof.
  intros P pname spo h' sinks leaves inner H.
  destruct (splicer_sort_spec P pname spo h' sinks [] [] leaves inner H) as (H1 & H2 & H3).
  split; [|split; [|exact H3]].
  - intros k s Hin. destruct (H1 k s Hin) as [[]|Hx]. exact Hx.
  - intros s Hin. destruct (H2 s Hin) as [[]|Hx]. exact Hx.
Qed.

(* ... and on the input side, for ANY node inputs, input map (none, or explicit: empty,
   partial, renaming across the node's input names, several sources on one input, keys that
   name no source) and sub-graph source s: s is replaced by a processor with the same
   payload and outputs fed through "input" by exactly the input the map assigns to it
   (source_binding: without a map the input called like s; with an explicit map the input
   map[s]), and it STAYS a source -- only renamed -- when the map does not bind it, whatever
   the node's inputs are called.  An explicit map naming a non-input is a KeyError. *)
Theorem C11_expand_sources :
  forall (P : Type) pname (inputs : list (string * (nat * string))) (imap : option smap) spi (spo : smap)
         (h' : list (node P)) n (s : node P) ins,
  mk_sp_inputs inputs imap = Ok spi -> nins s = [] ->
  splicer_visit pname spi spo h' n s ins =
    Ok (h' ++ [mkNode (pname ++ "." ++ nname s) (nouts s) (npay s)
                      (match source_binding inputs imap (nname s) with Some inp => [("input", inp)] | None => [] end)],
        List.length h').
Proof.
  intros P pname inputs imap spi spo h' n s ins Hm Hs.
  rewrite (splicer_visit_source P pname spi spo h' n s ins Hs).
  rewrite (mk_sp_inputs_lookup inputs imap spi Hm (nname s)). reflexivity.
Qed.

Theorem C11_expand_input_map_keyerror :
  forall (inputs : list (string * (nat * string))) (m : smap),
  (exists e, mk_sp_inputs inputs (Some m) = Err e) <-> exists k i, In (k, i) m /\ lookup i inputs = None.
Proof. exact mk_sp_inputs_keyerror. Qed.

(* expand_graph preserves what the sinks that are not expanded denote, for ANY expander,
   GIVEN that every spliced sub-graph denotes the node it replaces (hypothesis
   splice_denotes: stated on the result of the model's splice step).  Partial: that
   hypothesis is not derived from a semantic contract on the sub-graph alone. *)
Theorem C11_expand_preserves_partial :
  forall (P V : Type) (interp : option P -> list string -> list (string * V) -> string -> V)
         (expander : node P -> option (subspec P)) (g g' : graph P),
  topo (heap g) ->
  (forall h' n nd inputs h'' r sub imap omap,
     topo h' -> nth_error (heap g) n = Some nd -> expander nd = Some (sub, imap, omap) ->
     Forall2 (fun i x => fst x = fst i /\ fst (snd x) < List.length h' /\
                         sem interp h' (fst (snd x)) (snd (snd x)) = sem interp (heap g) (fst (snd i)) (snd (snd i)))
             (nins nd) inputs ->
     expand_visit expander h' n nd inputs = Ok (h'', r) ->
     (exists ext, h'' = h' ++ ext) /\ topo h'' /\ good P V interp (heap g) h'' n r) ->
  expand_graph expander g = Ok g' ->
  forall s, In s (sinks g) -> (forall nd, nth_error (heap g) s = Some nd -> expander nd = None) ->
  exists s', In s' (sinks g') /\ forall o, sem interp (heap g') s' o = sem interp (heap g) s o.
Proof.
  intros P V interp expander g g' Ht Hsp H.
  exact (expand_preserves_sem P V interp expander (heap g) Ht Hsp g g' eq_refl H).
Qed.

(* what the spliced-in nodes denote, for EVERY interpretation, sub-graph and pair of maps:
   the leaf registered under a name is the transformed version of a sink of the sub-graph
   called so (the prefix "<expanded node>." removed), and it denotes what that sink denotes
   in the sub-graph read with its bound sources connected (ssem, Graph/ExpandSplice.v): a
   source called k is payload(input = v) when the input map binds k to a node input whose
   transformed value is v (source_binding), and payload() otherwise -- so nothing of the
   outer graph enters the sub-graph except through the input map *)
Theorem C11_expand_splice_sem :
  forall (P V : Type) (interp : option P -> list string -> list (string * V) -> string -> V)
         pname (inputs : list (string * (nat * string))) (imap : option smap) spi (spo : smap)
         (sub : graph P) (h0 h1 : list (node P)) r,
  topo (heap sub) -> topo h0 -> Forall (fun x => fst (snd x) < List.length h0) inputs ->
  mk_sp_inputs inputs imap = Ok spi ->
  splice pname spi spo h0 sub = Ok (h1, r) ->
  (exists ext, h1 = h0 ++ ext) /\ topo h1 /\
  exists leaves inner, r = RSub leaves spo inner /\
  forall lname leaf, lookup_last lname leaves = Some leaf ->
    leaf < List.length h1 /\
    exists s ns, In s (sinks sub) /\ nth_error (heap sub) s = Some ns /\ nname ns = lname /\
      forall o, sem interp h1 leaf o =
                ssem interp (fun k => option_map (fun inp => sem interp h0 (fst inp) (snd inp)) (source_binding inputs imap k))
                     spo (heap sub) s o.
Proof. exact splice_leaves_binding. Qed.

(* expand_graph preserves what the sinks that are not expanded denote, for ANY expander
   whose answers keep a contract stated on the answer alone (sub_denotes: the sub-graph is
   acyclic and, for all values of the node's inputs, every sink called like the leaf of
   output o denotes -- sources bound as the input map says, all others left alone -- what
   the node computes for o).  The hypothesis splice_denotes of the theorem above is derived
   from it (contract_splice_denotes).  Partial: says nothing about sinks that are expanded
   themselves (their leaves and inner sinks become the sinks of the result). *)
Theorem C11_expand_preserves_contract_partial :
  forall (P V : Type) (interp : option P -> list string -> list (string * V) -> string -> V)
         (expander : node P -> option (subspec P)) (g g' : graph P),
  topo (heap g) ->
  (forall n nd sub imap omap, nth_error (heap g) n = Some nd -> expander nd = Some (sub, imap, omap) ->
     sub_denotes P V interp nd sub imap omap) ->
  expand_graph expander g = Ok g' ->
  forall s, In s (sinks g) -> (forall nd, nth_error (heap g) s = Some nd -> expander nd = None) ->
  exists s', In s' (sinks g') /\ forall o, sem interp (heap g') s' o = sem interp (heap g) s o.
Proof.
  intros P V interp expander g g' Ht Hc H.
  exact (expand_preserves_contract P V interp expander (heap g) Ht Hc g g' eq_refl H).
Qed.

(* fuse_nodes, for ANY callback that keeps the documented contract -- in every acyclic
   heap H holding the parent (at rp) and the nodes the child `cur` refers to, the node it
   returns refers to nodes of H only, keeps the child's inputs other than cin, and denotes
   what the child denotes whenever the child's input cin is fed by something that denotes
   output pout of the parent: sink i of the result denotes what sink i of the input denotes.
   The model includes the source's behaviour of handing the callback the UNTRANSFORMED
   child (inputs pointing to the original parent objects) on the first fusion, and both
   ways a callback can answer: with a NEW node (ip = false) or with the child OBJECT it
   was handed, written in place (ip = true: later consumers of the child, which still point
   to that object, then see the fused node) -- Graph/Fuse.v. *)
Theorem C11_fuse_preserves :
  forall (P V : Type) (interp : option P -> list string -> list (string * V) -> string -> V)
         (func : node P -> string -> node P -> string -> option (bool * node P)) (g g' : graph P) calls,
  topo (heap g) ->
  (forall n nd, nth_error (heap g) n = Some nd -> NoDup (map fst (nins nd))) ->
  (forall (H : list (node P)) rp pn pout cur cin ip fused,
     topo H -> nth_error H rp = Some pn ->
     Forall (fun x => fst (snd x) < List.length H) (nins cur) ->
     func pn pout cur cin = Some (ip, fused) ->
     Forall (fun x => fst (snd x) < List.length H) (nins fused) /\
     (forall k, k <> cin -> lookup k (nins fused) = lookup k (nins cur)) /\
     (forall q, lookup cin (nins cur) = Some (q, pout) -> (forall o, sem interp H q o = sem interp H rp o) ->
        forall o, sem interp (H ++ [fused]) (List.length H) o = sem interp (H ++ [cur]) (List.length H) o)) ->
  fuse_nodes func g = Ok (g', calls) ->
  Forall2 (fun s s' => forall o, sem interp (heap g') s' o = sem interp (heap g) s o) (sinks g) (sinks g').
Proof. exact fuse_preserves_sem. Qed.

(* Graph objects over time (Graph/GraphOps.v: a store of sink-list OBJECTS, a graph object
   holds one of them; Graph.empty(), +, +=, join_namespaced, the graph() step of the
   transformers).  After ANY program `ops` that never hands a graph's own list to the
   constructor, one more operation leaves the sinks of every existing graph v as they are --
   except `a += b`, which gives a the sinks of a followed by those of b and changes nothing
   else.  So a graph returned by empty(), +, join_namespaced or a transformer never changes
   because of what is done later to other graphs, and what a call returns does not depend
   on earlier calls. *)
Theorem C11_graph_ops_frame : forall ops op st st' v lv,
  forallb wrap_free ops = true -> grun ginit ops = Ok st -> gstep st op = Ok st' ->
  sinks_of st v = Ok lv ->
  match op with
  | GIAdd a b => if Nat.eqb v a then exists lb, sinks_of st b = Ok lb /\ sinks_of st' v = Ok (lv ++ lb)
                 else sinks_of st' v = Ok lv
  | _ => sinks_of st' v = Ok lv
  end.
Proof. exact grun_frame. Qed.

(* ... what the graph an operation returns holds: empty() nothing, a + b the sinks of a then
   those of b, join_namespaced the renamed sinks of its arguments in keyword order (as many
   per argument as the argument has), a positional transformer as many sinks as its input *)
Theorem C11_graph_ops_result : forall st op st', gstep st op = Ok st' -> creates op = true ->
  List.length (gvars st') = S (List.length (gvars st)) /\
  match op with
  | GNew l => sinks_of st' (List.length (gvars st)) = Ok l
  | GEmpty => sinks_of st' (List.length (gvars st)) = Ok []
  | GWrap a => lid st' (List.length (gvars st)) = lid st a
  | GAdd a b => exists la lb, sinks_of st a = Ok la /\ sinks_of st b = Ok lb /\
                              sinks_of st' (List.length (gvars st)) = Ok (la ++ lb)
  | GJoin parts => sinks_of st' (List.length (gvars st)) = Ok (concat_parts parts) /\
                   Forall (fun p => exists la, sinks_of st (fst p) = Ok la /\ List.length (snd p) = List.length la) parts
  | GTrans a pos l => sinks_of st' (List.length (gvars st)) = Ok l /\
                      exists la, sinks_of st a = Ok la /\ (pos = true -> List.length l = List.length la)
  | GIAdd _ _ => True
  end.
Proof. exact gstep_new. Qed.

(* ... Graph.empty() is a unit:  e = Graph.empty(); e += b  gives e exactly the sinks of b *)
Theorem C11_graph_empty_unit : forall st b lb st1 st2, gwf st -> sinks_of st b = Ok lb ->
  gstep st GEmpty = Ok st1 -> gstep st1 (GIAdd (List.length (gvars st)) b) = Ok st2 ->
  sinks_of st2 (List.length (gvars st)) = Ok lb.
Proof. exact empty_iadd. Qed.

(* join_namespaced: every graph renamed with its namespace (any namespaces, equal or not);
   sink j of the i-th renamed graph denotes what sink j of the i-th argument denotes, and
   there are as many; joining no graph is a TypeError *)
Theorem C11_join_preserves :
  forall (P V : Type) (interp : option P -> list string -> list (string * V) -> string -> V)
         (gs : list (string * graph P)) rs,
  Forall (fun x => topo (heap (snd x))) gs -> join_namespaced gs = Ok rs ->
  Forall2 (fun x g' => Forall2 (fun s s' => forall o, sem interp (heap g') s' o = sem interp (heap (snd x)) s o)
                               (sinks (snd x)) (sinks g')) gs rs /\
  map (fun g' => List.length (sinks g')) rs = map (fun x => List.length (sinks (snd x))) gs.
Proof.
  intros P V interp gs rs Ht H. split; [exact (join_preserves_sem P V interp gs rs Ht H)|exact (joined_sinks_length P gs rs H)].
Qed.

(* ------------------------------------------------------------------ concrete instances *)
(* shared sub-expression (node 1 used twice), a multi-output node, two sinks, names that
   are prefixes of each other, an input called "node", an output called "payload" *)
Definition g_ex : graph pv := mkGraph
  [ mkNode "main" ["0"] (Some (PInt 1)) [];
    mkNode "main.min" ["payload"; "b"] (Some (PStr "s")) [("node", (0, "0"))];
    mkNode "m" ["0"] None [("x", (1, "payload")); ("y", (1, "b"))];
    mkNode "w" [] (Some (PInt 2)) [("input", (2, "0")); ("n", (0, "0"))];
    mkNode "tail" ["0"] None [("z", (1, "b"))] ]
  [3; 4].

Example C11_copy_nonvacuous :
  topo (heap g_ex) /\ exists g', copy_graph g_ex = Ok g' /\ List.length (heap g') = 5 /\
  map (fun s => denote (heap g') s "0") (sinks g') = map (fun s => denote (heap g_ex) s "0") (sinks g_ex).
Proof.
  split; [apply topob_topo; reflexivity|].
  eexists. split; [vm_compute; reflexivity|]. split; reflexivity.
Qed.

Example C11_rename_nonvacuous :
  exists g', rename_nodes (fun _ => "same") g_ex = Ok g' /\
             map (@nname pv) (heap g') = ["same"; "same"; "same"; "same"; "same"] /\
             map (fun s => denote (heap g') s "0") (sinks g') = map (fun s => denote (heap g_ex) s "0") (sinks g_ex).
Proof. eexists. split; [vm_compute; reflexivity|]. split; reflexivity. Qed.

(* a graph with duplicated sub-expressions: nodes 1 and 2 are equal (inputs listed in a
   different order), so are their consumers 3 and 4 *)
Definition g_dup : graph pv := mkGraph
  [ mkNode "a" ["0"; "b"] (Some (PInt 1)) [];
    mkNode "p" ["0"] (Some (PStr "s")) [("x", (0, "0")); ("y", (0, "b"))];
    mkNode "p'" ["0"] (Some (PStr "s")) [("y", (0, "b")); ("x", (0, "0"))];
    mkNode "w1" [] None [("input", (1, "0"))];
    mkNode "w2" [] None [("input", (2, "0"))];
    mkNode "w3" [] (Some (PInt 3)) [("input", (2, "0"))] ]
  [3; 4; 5].

Example C11_dedup_nonvacuous :
  topo (heap g_dup) /\ (forall a b, same_payload pv_eqb a b = true -> npay a = npay b \/ True) /\
  exists g', deduplicate_nodes (same_payload pv_eqb) g_dup = Ok g' /\
             List.length (heap g') = 4 /\ List.length (sinks g') = 2.
Proof.
  split; [apply topob_topo; reflexivity|]. split; [auto|].
  eexists. split; [vm_compute; reflexivity|]. split; reflexivity.
Qed.

Example C11_dedup_idempotent_instance :
  exists g1 g2, deduplicate_nodes (same_payload pv_eqb) g_dup = Ok g1 /\
                deduplicate_nodes (same_payload pv_eqb) g1 = Ok g2 /\
                agrees_upto_sink_order (Ok g2) (o_ok g1) = true.
Proof. eexists. eexists. split; [vm_compute; reflexivity|]. split; vm_compute; reflexivity. Qed.

(* splitting g_ex by the first character of the name cuts 3 edges *)
Example C11_split_nonvacuous :
  exists r, split_graph String.eqb (kfun_apply KHead) (fun c => ("__cut_" ++ c_dnode c ++ "." ++ c_dinput c ++ "__")%string) g_ex = Ok r /\
            map fst (rparts r) = ["m"; "w"; "t"] /\ List.length (rcuts r) = 3 /\ List.length (rheap r) = 11.
Proof. eexists. split; [vm_compute; reflexivity|]. repeat split; reflexivity. Qed.

(* a key that reads the node's direct inputs: "io" for sources and for what reads a source,
   "compute" for the rest, on the pipeline r -> p1 -> p2 -> p3 -> w.  p2, p3, w are filed under
   "compute" (their key in the input graph) and one edge is cut.  It matters WHEN the key is
   taken: asked again about the written version of p2 -- whose input now is the cut source --
   the same function answers "io" (late_key): the model tells the two apart *)
Definition g_pipe : graph pv := mkGraph
  [ mkNode "r" ["0"] (Some (PStr "read")) [];
    mkNode "p1" ["0"] (Some (PStr "decode")) [("input", (0, "0"))];
    mkNode "p2" ["0"] (Some (PStr "regrid")) [("input", (1, "0"))];
    mkNode "p3" ["0"] (Some (PStr "mean")) [("input", (2, "0"))];
    mkNode "w" [] (Some (PStr "write")) [("input", (3, "0"))] ]
  [4].

Example C11_split_key_time_matters :
  exists r, split_graph String.eqb (kfun_apply KIo) (fun c => ("cut:" ++ c_dnode c)%string) g_pipe = Ok r /\
    rparts r = [("io", [2]); ("compute", [6])] /\ List.length (rcuts r) = 1 /\
    map (@nname pv) (rheap r) = ["r"; "p1"; "cut:p2"; "cut:p2"; "p2"; "p3"; "w"] /\
    rdone r = [(4, ("compute", 6)); (3, ("compute", 5)); (2, ("compute", 4)); (1, ("io", 1)); (0, ("io", 0))] /\
    forallb (fun e => match nth_error (heap g_pipe) (fst e) with
                      | Some nd => String.eqb (fst (snd e)) (kfun_apply KIo (heap g_pipe) nd) | None => false end) (rdone r) = true /\
    late_key (kfun_apply KIo) r 4 = Some "io" /\ lookupn 2 (rdone r) = Some ("compute", 4).
Proof. eexists. split; [vm_compute; reflexivity|]. repeat split; vm_compute; reflexivity. Qed.

(* the hypotheses of the placement theorems hold there: every node of g_pipe is reachable *)
Example C11_split_placed_nonvacuous :
  (forall a b, String.eqb a b = true <-> a = b) /\
  (forall m, m < 5 -> reachable (heap g_pipe) (sinks g_pipe) m) /\
  exists r, split_graph String.eqb (kfun_apply KIo) (fun c => c_dnode c) g_pipe = Ok r /\ List.length (rdone r) = 5.
Proof.
  split; [exact String.eqb_eq|]. split.
  - assert (R4 : reachable (heap g_pipe) (sinks g_pipe) 4) by (apply reach_sink; simpl; now left).
    assert (R3 : reachable (heap g_pipe) (sinks g_pipe) 3) by (eapply reach_parent; [exact R4|reflexivity|simpl; now left]).
    assert (R2 : reachable (heap g_pipe) (sinks g_pipe) 2) by (eapply reach_parent; [exact R3|reflexivity|simpl; now left]).
    assert (R1 : reachable (heap g_pipe) (sinks g_pipe) 1) by (eapply reach_parent; [exact R2|reflexivity|simpl; now left]).
    assert (R0 : reachable (heap g_pipe) (sinks g_pipe) 0) by (eapply reach_parent; [exact R1|reflexivity|simpl; now left]).
    intros m Hm. do 5 (destruct m as [|m]; [assumption|]). lia.
  - eexists. split; [vm_compute; reflexivity|reflexivity].
Qed.

(* expanding "main.min" of g_ex into a two-node sub-graph whose leaves are called like the
   outputs; the consumers m and tail are wired to main.min.payload / main.min.b *)
Definition sub_ex : subspec pv :=
  (mkGraph [ mkNode "node" ["0"] (Some (PInt 5)) [];
             mkNode "payload" [] (Some (PInt 6)) [("x", (0, "0"))];
             mkNode "b" [] (Some (PInt 7)) [("x", (0, "0"))] ] [1; 2], None, None).

Example C11_expand_nonvacuous :
  exists g', expand_graph (expander_of [("main.min", sub_ex)]) g_ex = Ok g' /\
             map (@nname pv) (heap g') = ["main"; "main.min.node"; "main.min.b"; "main.min.payload"; "tail"; "m"; "w"] /\
             map (@nins pv) (heap g') = [ []; [("input", (0, "0"))]; [("x", (1, "0"))]; [("x", (1, "0"))];
                                          [("z", (2, "0"))]; [("x", (3, "0")); ("y", (2, "0"))];
                                          [("input", (5, "0")); ("n", (0, "0"))] ].
Proof. eexists. split; [vm_compute; reflexivity|]. split; reflexivity. Qed.

(* node blend(fg, bg) of g_maps is expanded with the EXPLICIT partial map {pix: fg} over a
   sub-graph holding a constant source of its own called "bg": pix is fed by cam, bg stays a
   source; with the empty map nothing is bound; with {a: bg, bg: fg} the names are crossed *)
Definition g_maps : graph pv := mkGraph
  [ mkNode "cam" ["0"] (Some (PStr "cam")) [];
    mkNode "sky" ["0"] (Some (PStr "sky")) [];
    mkNode "blend" ["0"] (Some (PStr "B")) [("fg", (0, "0")); ("bg", (1, "0"))];
    mkNode "out" [] None [("input", (2, "0"))] ]
  [3].
Definition sub_maps (imap : option smap) : subspec pv :=
  (mkGraph [ mkNode "pix" ["0"] (Some (PStr "unpack")) [];
             mkNode "bg" ["0"] (Some (PStr "const")) [];
             mkNode "mix" ["0"] None [("x", (0, "0")); ("y", (1, "0"))];
             mkNode "res" [] None [("input", (2, "0"))] ] [3], imap, Some [("0", "res")]).

Example C11_expand_sources_nonvacuous :
  (forall k, source_binding (nins (nth 2 (heap g_maps) (mkNode "" [] None []))) (Some [("pix", "fg")]) k =
             if String.eqb k "pix" then Some (0, "0") else None) /\
  (exists g', expand_graph (expander_of [("blend", sub_maps (Some [("pix", "fg")]))]) g_maps = Ok g' /\
     map (fun nd => (nname nd, nins nd)) (heap g') =
       [ ("cam", []); ("sky", []); ("blend.pix", [("input", (0, "0"))]); ("blend.bg", []);
         ("blend.mix", [("x", (2, "0")); ("y", (3, "0"))]); ("blend.res", [("input", (4, "0"))]); ("out", [("input", (5, "0"))]) ]) /\
  (exists g', expand_graph (expander_of [("blend", sub_maps (Some []))]) g_maps = Ok g' /\
     map (fun nd => (nname nd, nins nd)) (heap g') =
       [ ("cam", []); ("sky", []); ("blend.pix", []); ("blend.bg", []);
         ("blend.mix", [("x", (2, "0")); ("y", (3, "0"))]); ("blend.res", [("input", (4, "0"))]); ("out", [("input", (5, "0"))]) ]) /\
  (exists g', expand_graph (expander_of [("blend", sub_maps None)]) g_maps = Ok g' /\
     map (fun nd => (nname nd, nins nd)) (heap g') =
       [ ("cam", []); ("sky", []); ("blend.pix", []); ("blend.bg", [("input", (1, "0"))]);
         ("blend.mix", [("x", (2, "0")); ("y", (3, "0"))]); ("blend.res", [("input", (4, "0"))]); ("out", [("input", (5, "0"))]) ]) /\
  (exists g', expand_graph (expander_of [("blend", sub_maps (Some [("pix", "bg"); ("bg", "fg")]))]) g_maps = Ok g' /\
     map (fun nd => (nname nd, nins nd)) (heap g') =
       [ ("cam", []); ("sky", []); ("blend.pix", [("input", (1, "0"))]); ("blend.bg", [("input", (0, "0"))]);
         ("blend.mix", [("x", (2, "0")); ("y", (3, "0"))]); ("blend.res", [("input", (4, "0"))]); ("out", [("input", (5, "0"))]) ]) /\
  (exists e, mk_sp_inputs (nins (nth 2 (heap g_maps) (mkNode "" [] None []))) (Some [("pix", "nope")]) = Err e).
Proof.
  split; [|split; [|split; [|split; [|split]]]].
  - intros k. unfold source_binding. simpl. destruct (String.eqb k "pix"); reflexivity.
  - eexists. split; [vm_compute; reflexivity|]. reflexivity.
  - eexists. split; [vm_compute; reflexivity|]. reflexivity.
  - eexists. split; [vm_compute; reflexivity|]. reflexivity.
  - eexists. split; [vm_compute; reflexivity|]. reflexivity.
  - eexists. vm_compute. reflexivity.
Qed.

(* the sub-graph contract is satisfiable by a sub-graph with an explicit PARTIAL input map
   and a source of its own called like the node's input: values are integers, a node adds
   its payload to its inputs; add3(x) = 3 + x is replaced by  0 + a(1 + x) + x'(2)  where
   only a is bound ({a: x}) and x' -- called "x" -- stays a constant *)
Definition zsum (p : option pv) (outs : list string) (args : list (string * Z)) (o : string) : Z :=
  ((match p with Some (PInt z) => z | _ => 0 end) + fold_right (fun a acc => snd a + acc) 0 args)%Z.
Definition g_sum : graph pv := mkGraph
  [ mkNode "src" ["0"] (Some (PInt 10)) [];
    mkNode "add3" ["0"] (Some (PInt 3)) [("x", (0, "0"))];
    mkNode "w" [] None [("input", (1, "0"))] ] [2].
Definition sub_sum : subspec pv :=
  (mkGraph [ mkNode "a" ["0"] (Some (PInt 1)) [];
             mkNode "x" ["0"] (Some (PInt 2)) [];
             mkNode "0" [] None [("l", (0, "0")); ("r", (1, "0"))] ] [2], Some [("a", "x")], None).

Example C11_expand_contract_nonvacuous :
  topo (heap g_sum) /\
  (forall n nd sub imap omap, nth_error (heap g_sum) n = Some nd -> expander_of [("add3", sub_sum)] nd = Some (sub, imap, omap) ->
     sub_denotes pv Z zsum nd sub imap omap) /\
  exists g', expand_graph (expander_of [("add3", sub_sum)]) g_sum = Ok g' /\
             map (fun nd => (nname nd, nins nd)) (heap g') =
               [ ("src", []); ("add3.a", [("input", (0, "0"))]); ("add3.x", []);
                 ("add3.0", [("l", (1, "0")); ("r", (2, "0"))]); ("w", [("input", (3, "0"))]) ] /\
             map (fun s => sem zsum (heap g') s "0") (sinks g') = map (fun s => sem zsum (heap g_sum) s "0") (sinks g_sum).
Proof.
  split; [apply topob_topo; reflexivity|]. split.
  - intros n nd sub imap omap Hn He.
    destruct n as [|[|[|n]]]; simpl in Hn; try (injection Hn as <-; vm_compute in He; try discriminate).
    + injection He as <- <- <-. split; [apply topob_topo; reflexivity|].
      intros ival Hf o lname s ns Ho Hs Hns Hnm. simpl in Hf.
      destruct ival as [|[k v] [|? ?]]; simpl in Hf; try discriminate. injection Hf as ->.
      simpl in Ho. destruct (String.eqb o "0"); [|discriminate]. injection Ho as <-.
      destruct Hs as [<-|[]]. cbv - [Z.add]. lia.
    + destruct n; discriminate.
  - eexists. split; [vm_compute; reflexivity|]. split; reflexivity.
Qed.

(* the callback contract is satisfiable by a callback that does return nodes (for every
   interpretation): one that hands back the child under a new name -- as a new object
   (ip = false) or written into the child object (ip = true); and on g_ex the model offers it
   exactly the single-consumer parents *)
Definition relabel (ip : bool) (pn : node pv) (pout : string) (cur : node pv) (cin : string) : option (bool * node pv) :=
  Some (ip, mkNode (nname pn ++ "+" ++ nname cur)%string (nouts cur) (npay cur) (nins cur)).

Example C11_fuse_nonvacuous : forall ip0,
  (forall (V : Type) (interp : option pv -> list string -> list (string * V) -> string -> V)
          (H : list (node pv)) rp pn pout cur cin ip fused,
     topo H -> nth_error H rp = Some pn ->
     Forall (fun x => fst (snd x) < List.length H) (nins cur) ->
     relabel ip0 pn pout cur cin = Some (ip, fused) ->
     Forall (fun x => fst (snd x) < List.length H) (nins fused) /\
     (forall k, k <> cin -> lookup k (nins fused) = lookup k (nins cur)) /\
     (forall q, lookup cin (nins cur) = Some (q, pout) -> (forall o, sem interp H q o = sem interp H rp o) ->
        forall o, sem interp (H ++ [fused]) (List.length H) o = sem interp (H ++ [cur]) (List.length H) o)) /\
  (forall n nd, nth_error (heap g_ex) n = Some nd -> NoDup (map fst (nins nd))) /\
  exists g' calls, fuse_nodes (relabel ip0) g_ex = Ok (g', calls) /\
     calls = [("m", "0", "w", "input")] /\
     map (fun s => denote (heap g') s "0") (sinks g') = map (fun s => denote (heap g_ex) s "0") (sinks g_ex).
Proof.
  intros ip0. split; [|split].
  - intros V interp H rp pn pout cur cin ip fused _ _ HF Heq. unfold relabel in Heq. injection Heq as _ <-. simpl.
    split; [assumption|]. split; [reflexivity|]. intros q _ _ o. rewrite !sem_new. reflexivity.
  - intros n nd Hn. unfold g_ex in Hn. simpl in Hn.
    do 5 (destruct n as [|n]; [injection Hn as <-; simpl; repeat constructor; simpl; intuition discriminate|simpl in Hn]).
    destruct n; discriminate.
  - destruct ip0; (eexists; eexists; split; [vm_compute; reflexivity|]; split; reflexivity).
Qed.

(* where the two ways of answering differ: d reads c1 and c2, each the only consumer of a
   source.  The callback fuses b1 into c1 and b2 into c2, then c1 into d; d's other input
   still points to the OBJECT c2: the untouched c2 (and behind it b2) when the fused node
   was a new object, the fused node itself when c2 was written in place.  Same calls, same
   denotation, different graphs. *)
Definition g_two : graph pv := mkGraph
  [ mkNode "b1" ["0"] (Some (PInt 1)) [];
    mkNode "c1" ["0"] (Some (PInt 2)) [("x", (0, "0"))];
    mkNode "b2" ["0"] (Some (PInt 3)) [];
    mkNode "c2" ["0"] (Some (PInt 4)) [("x", (2, "0"))];
    mkNode "d" [] None [("x", (1, "0")); ("y", (3, "0"))] ]
  [4].

Definition reach_names (g : graph pv) : list string :=
  match canon g with Ok (_, ns) => map (@nname pv) ns | Err e => [e] end.

Example C11_fuse_inplace_nonvacuous :
  exists gn cn gs cs,
    fuse_nodes (relabel false) g_two = Ok (gn, cn) /\ fuse_nodes (relabel true) g_two = Ok (gs, cs) /\
    cn = cs /\ List.length cn = 4 /\
    reach_names gn = ["b2+c2+b1+c1+d"; "c2"; "b2"; "c1"; "b1"] /\
    reach_names gs = ["b2+c2+b1+c1+d"; "b2+c2"; "b2"; "b1+c1"; "b1"] /\
    map (fun s => denote (heap gn) s "0") (sinks gn) = map (fun s => denote (heap g_two) s "0") (sinks g_two) /\
    map (fun s => denote (heap gs) s "0") (sinks gs) = map (fun s => denote (heap g_two) s "0") (sinks g_two).
Proof.
  eexists. eexists. eexists. eexists.
  split; [vm_compute; reflexivity|]. split; [vm_compute; reflexivity|].
  repeat split; vm_compute; reflexivity.
Qed.

(* two joins in a row, an empty graph extended in place, a sum: the second join holds its own
   two sinks only and the first is what it was; and the model can express the failure the
   frame theorem excludes: with Graph(a.sinks) two graphs hold one list, `+=` on one shows
   in the other *)
Definition ops_ex : list gop :=
  [ GNew [0]; GNew [1; 2]; GJoin [(0, [0]); (1, [1; 2])]; GNew [3]; GJoin [(3, [3])];
    GEmpty; GIAdd 5 2; GAdd 4 5; GIAdd 0 3 ].

Example C11_graph_ops_nonvacuous :
  forallb wrap_free ops_ex = true /\
  (exists st, grun ginit ops_ex = Ok st /\
     all_sinks st = [[0; 3]; [1; 2]; [0; 1; 2]; [3]; [3]; [0; 1; 2]; [3; 0; 1; 2]]) /\
  (exists st, grun ginit [GNew [0]; GWrap 0; GNew [1]; GIAdd 0 2] = Ok st /\ all_sinks st = [[0; 1]; [0; 1]; [1]]) /\
  gstep ginit (GJoin []) = Err "TypeError".
Proof.
  split; [reflexivity|]. split; [eexists; split; vm_compute; reflexivity|].
  split; [eexists; split; vm_compute; reflexivity|reflexivity].
Qed.

Example C11_join_nonvacuous :
  exists rs, join_namespaced [("a", g_ex); ("a.b", g_two); ("", g_ex)] = Ok rs /\
    map (fun g' => map (fun s => name_of (heap g') s) (sinks g')) rs = [["a.w"; "a.tail"]; ["a.b.d"]; [".w"; ".tail"]] /\
    map (fun g' => map (fun s => denote (heap g') s "0") (sinks g')) rs =
    map (fun g => map (fun s => denote (heap g) s "0") (sinks g)) [g_ex; g_two; g_ex].
Proof. eexists. split; [vm_compute; reflexivity|]. split; vm_compute; reflexivity. Qed.

(* the hypotheses of the fuel and partition theorems hold for g_ex / string keys *)
Example C11_fuel_nonvacuous : topo (heap g_ex) /\ valid_sinks g_ex /\ exists g', copy_graph g_ex = Ok g'.
Proof.
  split; [apply topob_topo; reflexivity|]. split; [repeat constructor; simpl; lia|].
  eexists. vm_compute. reflexivity.
Qed.

Example C11_split_partition_nonvacuous :
  (forall a b, String.eqb a b = true <-> a = b) /\
  exists r, split_graph String.eqb (kfun_apply KHead) (fun c => c_dnode c) g_ex = Ok r /\
            List.length (rparts r) = 3 /\ List.length (rpairs r) = 3.
Proof. split; [exact String.eqb_eq|]. eexists. split; [vm_compute; reflexivity|]. split; reflexivity. Qed.

Print Assumptions C11_copy_preserves.
Print Assumptions C11_rename_preserves.
Print Assumptions C11_dedup_preserves.
Print Assumptions C11_dedup_no_two_equal.
Print Assumptions C11_split_rejoin.
Print Assumptions C11_expand_wiring.
Print Assumptions C11_expand_leaves.
Print Assumptions C11_expand_sources.
Print Assumptions C11_expand_input_map_keyerror.
Print Assumptions C11_expand_splice_sem.
Print Assumptions C11_expand_preserves_contract_partial.
Print Assumptions C11_expand_preserves_partial.
Print Assumptions C11_fuse_preserves.
Print Assumptions C11_split_partition.
Print Assumptions C11_split_cuts_exact_partial.
Print Assumptions C11_split_placed_by_input_key.
Print Assumptions C11_split_part_of_key.
Print Assumptions C11_engine_fuel_sufficient.
Print Assumptions C11_fuel_all.
Print Assumptions C11_dedup_idempotent.
Print Assumptions C11_graph_ops_frame.
Print Assumptions C11_graph_ops_result.
Print Assumptions C11_graph_empty_unit.
Print Assumptions C11_join_preserves.
