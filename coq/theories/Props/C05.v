(* C05 -- a failing task or a dying worker-side process fails the run, never hangs it; the
   teardown covers every child.

   Logic part (this file): the report chain  task raises -> TaskFailure -> executor forwards ->
   controller shuts down and raises;  the healthcheck over child exit codes;  terminate covers
   every child and is idempotent;  the controller never returns a value it did not receive.
   Model: Net/Executor.v (the code of the worktree WITH the three `fix:` commits of C05).
   Runtime part (process table, /dev/shm, signals): bounded fault enumeration on real processes,
   harness/c05_faults.py, compared with this model by ExecutorCheck.check_scenario. *)
From Coq Require Import List ZArith Bool Arith.
From EKW Require Import Net.Executor Net.ExecutorProofs Net.Teardown Net.TeardownProofs.
From EKW Require Net.ExecutorCheck.
Import ListNotations.

(* (b) a child (worker, shm server, data server) whose exit code is set -- any code, 0 included -- while
   the executor is not terminating is detected by the very next loop iteration, whatever that
   iteration receives: the executor reports to the controller, terminates, and has no live child *)
Theorem C05_child_death_detected : forall e ms hb, terminating e = false -> child_dead e = true ->
  let '(e', a) := iter e ms hb in
  terminating e' = true /\ no_live_child e' = true /\ existsb terminal a = true.
Proof. exact child_death_detected. Qed.

Example C05_child_death_detected_nonvacuous :
  let e := fst (apply_ev (init 2) (EvWorkerDies 1 0)) in      (* sys.exit(0) in a task *)
  terminating e = false /\ child_dead e = true /\
  snd (iter e [MPublished 3] false) =
    [ToWorker 0 (WPublished 3); ToWorker 1 (WPublished 3); ToCtl (CPublished 3); ToCtl CFailure;
     ToWorker 0 WShutdown; ToWorker 1 WShutdown; ShmShutdown; KillDs].
Proof. vm_compute. repeat split. Qed.

(* (a) whatever failure the executor learns of in an iteration (dead child, TaskFailure from a
   worker, transmit failure from the data server, shutdown request), the messages it sends to the
   controller in that iteration contain one that makes the controller shut down *)
Theorem C05_failure_is_reported : forall e ms hb h, terminating e = false ->
  (child_dead e = true \/ (exists w t, In (MTaskFailure w t) ms) \/ In MTransmitFailure ms \/ In MShutdown ms) ->
  existsb is_shutdown_reason (ctl_msgs h (snd (iter e ms hb))) = true.
Proof. exact failure_is_reported. Qed.

Example C05_failure_is_reported_nonvacuous :
  ctl_msgs 4 (snd (iter (init 2) [MAck 0; MTaskFailure 1 7; MPublished 2] true))
  = [BTaskFailure 4; BPublished 2; BRegistration 4].
Proof. vm_compute. reflexivity. Qed.

(* worker side of (a): a task that does not complete is never silent -- an Exception becomes a
   TaskFailure naming the task, anything else (SystemExit, os._exit, kill) ends the process with an
   exit code, and no later task of the sequence is touched *)
Theorem C05_task_failure_not_silent : forall pre t b post,
  forallb (fun p => is_ok (snd p)) pre = true -> is_ok b = false ->
  let '(a, x) := execute_sequence (pre ++ (t, b) :: post) in
  a = flat_map (fun p => map WHandled (outs_of (snd p))) pre ++ map WHandled (outs_of b)
        ++ match b with BRaise _ => [WTaskFailure t] | _ => [] end
  /\ match b with BRaise _ => x = None | BExit _ z => x = Some z | BOk _ => False end.
Proof. exact execute_sequence_no_silent_failure. Qed.

Example C05_task_failure_not_silent_nonvacuous :
  execute_sequence [(0, BOk [1; 2]); (1, BRaise [5]); (2, BOk [9])] = ([WHandled 1; WHandled 2; WHandled 5; WTaskFailure 1], None)
  /\ execute_sequence [(0, BOk [1]); (1, BExit [] 0); (2, BOk [9])] = ([WHandled 1], Some 0%Z).
Proof. vm_compute. split; reflexivity. Qed.

(* end to end: a failure at a live executor makes controller.run raise with the very next batch the
   controller reads, provided that batch contains what the executor sent (delivery is C06's
   property), whatever else it contains and however many outputs are still missing *)
Theorem C05_failure_ends_run : forall e ms hb h fuel need vals hosts batch r,
  terminating e = false ->
  (child_dead e = true \/ (exists w t, In (MTaskFailure w t) ms) \/ In MTransmitFailure ms) ->
  complete need vals = false ->
  incl (ctl_msgs h (snd (iter e ms hb))) batch ->
  exists s, run (S fuel) need vals hosts (batch :: r) = Failed s.
Proof. exact failure_ends_run. Qed.

Example C05_failure_ends_run_nonvacuous :
  let e := fst (apply_ev (init 2) (EvDsDies (-9))) in
  run 5 [1; 2] [(1, 10%Z)] [0; 1]
      [BAck 3 :: ctl_msgs 0 (snd (iter e [] false)) ++ [BPayload 2 20%Z]; [BExecExit 1]]
  = Failed [1].
Proof. vm_compute. reflexivity. Qed.

(* the controller never waits once a failure report or an event is in its input, and its shutdown
   wait ends with nobody left as soon as every registered host said Exit or Failure (and in any
   case after the grace period: shutdown_wait is structurally recursive on the batches) *)
Theorem C05_controller_never_waits_with_input : forall bs hosts,
  Exists (fun b => existsb is_shutdown_reason b = true \/ existsb is_event b = true) bs ->
  forall hs, recv_events hosts bs <> RWaiting hs.
Proof. exact recv_events_never_waits_with_input. Qed.

Theorem C05_shutdown_wait_completes : forall hosts b r,
  (forall h, In h hosts -> In (BExecExit h) b \/ In (BExecFailure h) b) ->
  fst (shutdown_wait hosts (b :: r)) = [].
Proof. exact shutdown_wait_empties. Qed.

Example C05_controller_nonvacuous :
  recv_events [0; 1] [[BAck 1]; [BRegistration 0]; [BPublished 4; BExecFailure 1]; [BAck 2]; [BExecExit 0]]
  = RRaise [0] [] [].
Proof. vm_compute. reflexivity. Qed.

(* never a wrong value: run returns only when every requested output has a value, and every value
   it returns arrived in a payload of its input (payload integrity is C07's property) *)
Theorem C05_run_never_invents : forall fuel need vals hosts bs vals' s,
  run fuel need vals hosts bs = Returned vals' s ->
  forall d, In d need -> exists v, getv d vals' = Some v /\
    (getv d vals = Some v \/ exists b, In b bs /\ In (BPayload d v) b).
Proof. exact run_never_invents. Qed.

Example C05_run_never_invents_nonvacuous :
  run 5 [1; 2] [] [0] [[BPublished 1]; [BPayload 1 10%Z]; [BAck 0]; [BPublished 2; BPayload 2 20%Z]]
  = Returned [(2, 20%Z); (1, 10%Z)] [0].
Proof. vm_compute. reflexivity. Qed.

(* (c) terminate covers every child: every started worker is asked to shut down, the stuck ones are
   killed after the grace period, a live shm server is shut down (which unlinks its segments), a
   live data server is killed; afterwards no child is alive; a second call does nothing *)
Theorem C05_terminate_covers_children : forall e, terminating e = false ->
  (forall w c, In (w, c) (workers e) -> started c = true -> In (ToWorker w WShutdown) (snd (terminate e))) /\
  (forall w, In (w, Stuck) (workers e) -> In (KillWorker w) (snd (terminate e))) /\
  (is_alive (shm e) = true -> In ShmShutdown (snd (terminate e))) /\
  (is_alive (ds e) = true -> In KillDs (snd (terminate e))).
Proof. exact terminate_covers_children. Qed.

Theorem C05_terminate_no_live_child : forall e,
  terminating e = false -> no_live_child (fst (terminate e)) = true.
Proof. exact terminate_no_live_child. Qed.

Theorem C05_terminate_idempotent : forall e,
  terminate (fst (terminate e)) = (fst (terminate e), []).
Proof. exact terminate_idempotent. Qed.

Example C05_terminate_nonvacuous :
  let e := fst (run_evs (init 3) [EvWorkerStuck 1; EvWorkerDies 2 1]) in
  snd (terminate e) = [ToWorker 0 WShutdown; ToWorker 1 WShutdown; ToWorker 2 WShutdown; KillWorker 1; ShmShutdown; KillDs]
  /\ no_live_child e = false /\ no_live_child (fst (terminate e)) = true.
Proof. vm_compute. repeat split. Qed.

(* (c), timed (model Net/Teardown.v: clock readings, the timeout arithmetic of the code, and what
   Process.join does with the timeout it is given -- None waits for ever, more than INT_MAX ms raises
   OverflowError which the teardown swallows together with the kill).
   Whatever the epoch of the monotonic clock and whatever the workers are doing (idle, busy for any
   time, never coming back, already dead): every join gets a timeout between 0 and the grace period,
   the worker phase ends at most one grace period after its deadline was taken, and no worker is alive *)
Theorem C05_teardown_within_grace : forall mono0 now0 ws,
  let '(ws', a, x) := reap_t mono0 now0 ws in
  no_live_worker ws' = true /\ (exists e, x = Some e /\ (now0 <= e <= now0 + grace)%Z) /\ Forall join_in_grace a.
Proof. exact reap_t_within_grace. Qed.

(* the same for ANY way of deriving the timeouts, provided it always yields a number poll(2) accepts:
   the teardown ends and kills whoever has not left *)
Theorem C05_teardown_any_usable_policy : forall policy, usable policy -> forall ws now,
  let '(ws', a, x) := reap_with policy now ws in
  no_live_worker ws' = true /\ (exists e, x = Some e /\ (now <= e)%Z) /\ Forall join_ok a.
Proof. exact reap_with_usable. Qed.

(* the timed teardown IS Executor.terminate of Net/Executor.v: same workers killed (a worker that
   needs longer than the grace period is that model's `Stuck`), same states afterwards -- so the
   theorems above about terminate hold of the timed code, and its time is bounded *)
Theorem C05_terminate_is_timed : forall mono0 e tws, terminating e = false -> workers e = abs_workers tws ->
  let '(ws', a, x) := reap_t mono0 0 tws in
  workers (fst (terminate e)) = abs_workers ws'
  /\ snd (terminate e) = shutdown_msgs (workers e) ++ kills a
       ++ (if is_alive (shm e) then [ShmShutdown] else []) ++ (if is_alive (ds e) then [KillDs] else [])
  /\ (exists end_, x = Some end_ /\ (0 <= end_ <= grace)%Z).
Proof. exact terminate_is_timed. Qed.

Example C05_teardown_nonvacuous :
  reap_t 1234500 0 [(0, TLeaves 2000); (1, TNever); (2, TLeaves 4000); (3, TLeaves 6000); (4, TExited 1)]
  = ([(0, TExited 0); (1, TExited (-9)); (2, TExited 0); (3, TExited (-9)); (4, TExited 1)],
     [TJoin 0 (Some 5000%Z); TJoin 1 (Some 3000%Z); TKill 1; TJoinDead 1; TJoin 2 (Some 0%Z); TJoin 3 (Some 0%Z); TKill 3; TJoinDead 3;
      TJoinDead 4],
     Some 5000%Z)
  /\ abs_workers [(0, TLeaves 2000); (1, TNever); (2, TLeaves 4000); (3, TLeaves 6000); (4, TExited 1)]
     = [(0, Alive); (1, Stuck); (2, Alive); (3, Stuck); (4, Exited 1)].
Proof. vm_compute. split; reflexivity. Qed.

(* the hypotheses are needed: a deadline read from the wall clock with the remaining time computed
   against the monotonic clock is not usable -- join raises, nobody is killed, the stuck worker stays;
   and with no timeout at all the teardown never ends *)
Example C05_teardown_unusable_policies :
  ~ usable (mixed_policy 1234500 1790000000000 0)
  /\ (let '(ws', a, x) := reap_with (mixed_policy 1234500 1790000000000 0) 0 [(0, TLeaves 0); (1, TNever)] in
      no_live_worker ws' = false /\ kills a = [])
  /\ snd (reap_with (fun _ => None) 0 [(0, TLeaves 100); (1, TNever)]) = None.
Proof.
  split; [|split; [vm_compute; split; reflexivity|vm_compute; reflexivity]].
  intros U. destruct (U 0%Z) as [t [E L]]. vm_compute in E. injection E as <-. vm_compute in L. apply L. reflexivity.
Qed.

(* (c), the WHOLE teardown timed (round 5; model Net/Teardown.v `teardown_with`): asking a worker whose process
   is gone costs the linger of the socket, the worker phase takes its deadline AFTER the asking, and the shm
   server -- which acknowledges the ShutdownCommand first and unlinks its segments afterwards -- is joined
   without a timeout.  Whatever the workers are doing, however many of them are dead, whatever the server
   holds and however long its sweep takes: no worker is alive afterwards, NO SEGMENT IS LEFT, the server is
   never killed, and everything ends within (linger per dead worker) + grace + sweep.
   (Hypothesis: the server gets through its sweep; one that does not has not died, it is outside the property.) *)
Theorem C05_teardown_leaves_no_segment : forall mono0 ws s, wedged s = false ->
  let '(ws', a, t_ask, (lft, sa, x)) := teardown_t mono0 ws s in
  no_live_worker ws' = true /\ lft = false /\ Forall join_in_grace a
  /\ t_ask = (linger * exited_workers ws)%Z
  /\ (forall t, In (SJoin (Some t)) sa -> False) /\ ~ In SKill sa
  /\ exists e, x = Some e /\ (t_ask <= e <= t_ask + grace + sweep_of s)%Z.
Proof. exact teardown_t_clean. Qed.

(* the shm phase under ANY join timeout poll(2) accepts: segments stay behind exactly when the server holds
   some and is given less time than its sweep needs *)
Theorem C05_shm_phase_left_iff : forall policy now segs sweep t, policy now = Some t -> (t <= max_timeout)%Z ->
  fst (fst (shm_with policy now (SHolds segs sweep))) = true <-> ((0 < segs)%nat /\ (Z.max 0 t < Z.max 0 sweep)%Z).
Proof. exact shm_with_left_iff. Qed.

(* the whole timed teardown IS Executor.terminate of Net/Executor.v (its `Stuck` = leaves after the deadline,
   which lies one linger per dead worker plus the grace period after the start), including that model's
   claim that a live shm server's segments are gone afterwards *)
Theorem C05_teardown_is_terminate : forall mono0 e tws s, terminating e = false -> wedged s = false ->
  let '(ws', a, t_ask, (lft, sa, x)) := teardown_t mono0 tws s in
  workers e = abs_workers_at (t_ask + grace) (fst (ask 0 tws)) -> is_alive (shm e) = abs_shm s ->
  workers (fst (terminate e)) = abs_workers_at (t_ask + grace) ws'
  /\ snd (terminate e) = shutdown_msgs (workers e) ++ kills a
       ++ (if is_alive (shm e) then [ShmShutdown] else []) ++ (if is_alive (ds e) then [KillDs] else [])
  /\ (sa = if is_alive (shm e) then [SJoin None] else [])
  /\ lft = false /\ (is_alive (shm e) = true -> segs (fst (terminate e)) = []).
Proof. exact teardown_is_terminate. Qed.

(* non-vacuous, and the hypotheses matter: with ONE deadline for the whole teardown, taken before the workers
   are asked, (1) five dead workers of six, or (2) one worker that does not leave, use the deadline up and the
   server is killed 0 ms after it acknowledged -- segments stay; the code leaves none on the same inputs *)
Example C05_teardown_whole_nonvacuous :
  let dead5 := [(0, TLeaves 0); (1, TExited (-9)); (2, TExited (-9)); (3, TExited (-9)); (4, TExited (-9)); (5, TExited (-9))] in
  let busy1 := [(0, TLeaves 0); (1, TNever)] in
  teardown_t 1234500 dead5 (SHolds 3 2)
  = ([(0, TExited 0); (1, TExited (-9)); (2, TExited (-9)); (3, TExited (-9)); (4, TExited (-9)); (5, TExited (-9))],
     [TJoin 0 (Some 5000%Z); TJoinDead 1; TJoinDead 2; TJoinDead 3; TJoinDead 4; TJoinDead 5], 5000%Z,
     (false, [SJoin None], Some 5002%Z))
  /\ snd (teardown_one_deadline 1234500 dead5 (SHolds 3 2)) = (true, [SJoin (Some 0%Z); SKill], Some 5000%Z)
  /\ snd (teardown_t 1234500 busy1 (SHolds 3 2)) = (false, [SJoin None], Some 5002%Z)
  /\ snd (teardown_one_deadline 1234500 busy1 (SHolds 3 2)) = (true, [SJoin (Some 0%Z); SKill], Some 5000%Z)
  /\ wedged (SHolds 3 2) = false.
Proof. vm_compute. repeat split. Qed.

(* over EVERY history of loop iterations and faults (any order, any number): the executor has
   terminated exactly when it has sent its one Exit/Failure report, and then no child is alive *)
Theorem C05_history_invariant : forall xs e e' a, terminating e = false -> run_evs e xs = (e', a) ->
  count_terminal a = (if terminating e' then 1 else 0) /\ (terminating e' = true -> no_live_child e' = true).
Proof. exact history_invariant. Qed.

Example C05_history_invariant_nonvacuous :
  let '(e', a) := run_evs (init 2) [EvBatch [MTaskSeq 0] false; EvSegment 5; EvShmDies Term; EvBatch [MTaskSeq 1] true;
                                    EvBatch [MShutdown] false; EvDsDies 1] in
  terminating e' = true /\ count_terminal a = 1 /\ segs e' = [].
Proof. vm_compute. repeat split. Qed.

(* shared-memory segments.  Full statement: an executor that has terminated left no segment. *)
Definition C05_no_segments_left_statement : Prop :=
  forall n xs e' a, run_evs (init n) xs = (e', a) -> terminating e' = true -> segs e' = [].

(* false of the faithful model: a SIGKILLed shm server cannot run Manager.atexit and nobody else
   unlinks its segments (open finding `shm-server-sigkill-leaks-segments`, replayed on real
   processes by the kill_shm scenarios) *)
Theorem C05_no_segments_left_refuted : ~ C05_no_segments_left_statement.
Proof.
  intros H. specialize (H 1 [EvSegment 3; EvShmDies Kill; EvBatch [] false]).
  vm_compute in H. specialize (H _ _ eq_refl eq_refl). discriminate.
Qed.

(* proved under exactly the excluding side condition: the shm server is never SIGKILLed *)
Theorem C05_no_segments_left_partial : forall n xs e' a,
  existsb is_shm_kill xs = false -> run_evs (init n) xs = (e', a) -> terminating e' = true -> segs e' = [].
Proof.
  intros n xs e' a NK H T.
  destruct (no_segments_left_partial xs (init n) e' a eq_refl (or_introl eq_refl) NK H) as [_ K]. exact (K T).
Qed.

Example C05_no_segments_left_partial_nonvacuous :
  let xs := [EvSegment 3; EvSegment 4; EvShmDies Term; EvBatch [] false] in
  existsb is_shm_kill xs = false /\ terminating (fst (run_evs (init 2) xs)) = true /\ segs (fst (run_evs (init 2) xs)) = [].
Proof. vm_compute. repeat split. Qed.

Print Assumptions C05_child_death_detected.
Print Assumptions C05_failure_is_reported.
Print Assumptions C05_task_failure_not_silent.
Print Assumptions C05_failure_ends_run.
Print Assumptions C05_controller_never_waits_with_input.
Print Assumptions C05_shutdown_wait_completes.
Print Assumptions C05_run_never_invents.
Print Assumptions C05_terminate_covers_children.
Print Assumptions C05_terminate_no_live_child.
Print Assumptions C05_terminate_idempotent.
Print Assumptions C05_teardown_within_grace.
Print Assumptions C05_teardown_any_usable_policy.
Print Assumptions C05_terminate_is_timed.
Print Assumptions C05_teardown_leaves_no_segment.
Print Assumptions C05_shm_phase_left_iff.
Print Assumptions C05_teardown_is_terminate.
Print Assumptions C05_history_invariant.
Print Assumptions C05_no_segments_left_refuted.
Print Assumptions C05_no_segments_left_partial.
