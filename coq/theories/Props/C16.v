(* C16 -- the preschedule is a faithful structural summary of the job DAG.
   Model: Sched/Presched.v (transcription of cascade/scheduler/graph.py and the two helpers of
   cascade/low/views.py).  All statements are about `precompute j` for EVERY well formed acyclic job j
   (wf_job, acyclic: Sched/PreschedMain.v) and speak about the job's edge list only. *)
From Coq Require Import List NArith ZArith Bool Permutation Sorted.
From EKW Require Import Sched.Presched Sched.PreschedCheck Sched.PreschedJob Sched.PreschedMain Sched.PreschedTotal.
Import ListNotations.

(* every task is in exactly one component *)
Theorem C16_components_partition : forall j p, wf_job j -> acyclic j -> precompute j = Ok p ->
  Permutation (concat (map c_nodes (p_comps p))) (tasks_of j).
Proof. intros j p Hwf Hac Hp. exact (components_partition j Hwf Hac p Hp). Qed.

(* no edge between two components *)
Theorem C16_components_closed : forall j p c a b, wf_job j -> acyclic j -> precompute j = Ok p ->
  In c (p_comps p) -> edge_tt j a b -> (In a (c_nodes c) <-> In b (c_nodes c)).
Proof. intros j p c a b Hwf Hac Hp. exact (components_closed j Hwf Hac p Hp c a b). Qed.

(* a component is weakly connected and not empty: with the two above, the components are exactly
   the weakly connected components of the job *)
Theorem C16_components_connected : forall j p c, wf_job j -> acyclic j -> precompute j = Ok p ->
  In c (p_comps p) -> c_nodes c <> [] /\ forall a b, In a (c_nodes c) -> In b (c_nodes c) -> wconn j a b.
Proof.
  intros j p c Hwf Hac Hp Hc. split; [exact (components_nonempty j Hwf Hac p Hp c Hc)|].
  intros a b. exact (components_connected j Hwf Hac p Hp c a b Hc).
Qed.

(* heaviest component first *)
Theorem C16_components_sorted : forall j p, wf_job j -> precompute j = Ok p ->
  StronglySorted (fun c1 c2 => (List.length (c_nodes c2) <= List.length (c_nodes c1))%nat) (p_comps p).
Proof. intros j p Hwf Hp. exact (components_sorted j Hwf p Hp). Qed.

(* sources = exactly the tasks of the component without inputs *)
Theorem C16_sources_exact : forall j p c t, wf_job j -> acyclic j -> precompute j = Ok p -> In c (p_comps p) ->
  (In t (c_sources c) <-> In t (c_nodes c) /\ forall a, ~ edge_tt j a t).
Proof. intros j p c t Hwf Hac Hp. exact (sources_exact j Hwf Hac p Hp c t). Qed.

(* consumers, inputs and outputs exactly as the edges state *)
Theorem C16_edge_maps_exact : forall j p, wf_job j -> precompute j = Ok p ->
  (forall d t, In t (getd ds_eqb (p_edge_o p) d) <-> exists e, In e (j_edges j) /\ e_ds e = d /\ e_snk e = t) /\
  (forall t d, In d (getd N.eqb (p_edge_i p) t) <-> exists e, In e (j_edges j) /\ e_snk e = t /\ e_ds e = d) /\
  map fst (p_task_o p) = tasks_of j /\
  (forall t outs, In (t, outs) (j_tasks j) -> lookup N.eqb t (p_task_o p) = Some (map (fun o => (t, o)) outs)).
Proof.
  intros j p Hwf Hp. split; [exact (edge_o_exact j Hwf p Hp)|]. split; [exact (edge_i_exact j Hwf p Hp)|].
  exact (task_o_exact j Hwf p Hp).
Qed.

(* value = component depth - distance to the nearest sink *)
Theorem C16_value_spec : forall j p c t, wf_job j -> acyclic j -> precompute j = Ok p ->
  In c (p_comps p) -> In t (c_nodes c) ->
  exists d, nearest_sink j t d /\ lookup N.eqb t (c_value c) = Some (c_depth c - d)%Z.
Proof. intros j p c t Hwf Hac Hp. exact (value_spec j Hwf Hac p Hp c t). Qed.

(* the component depth is the number of tasks on its longest chain: no chain starting in the component has
   more than depth - 1 edges, and one has exactly that many *)
Theorem C16_depth_spec : forall j p c, wf_job j -> acyclic j -> precompute j = Ok p -> In c (p_comps p) ->
  (forall a x d, In a (c_nodes c) -> jpath j a x d -> (d <= c_depth c - 1)%Z) /\
  (exists a x, In a (c_nodes c) /\ jpath j a x (c_depth c - 1)%Z).
Proof.
  intros j p c Hwf Hac Hp Hc. split; [|exact (depth_attained j Hwf Hac p Hp c Hc)].
  intros a x d. exact (depth_bounds_paths j Hwf Hac p Hp c a x d Hc).
Qed.

(* distance (PreschedMain.distance_full): the recorded distance of a and b is the smallest d such that some task
   is reachable from both within d steps, and the depth if there is no such task *)
Theorem C16_distance_spec : forall j p c a b, wf_job j -> acyclic j -> precompute j = Ok p ->
  In c (p_comps p) -> In a (c_nodes c) -> In b (c_nodes c) ->
  exists row r, lookup N.eqb a (c_dist c) = Some row /\ lookup N.eqb b row = Some r /\ distance_full j (c_depth c) a b r.
Proof. intros j p c a b Hwf Hac Hp. exact (distance_full_spec j Hwf Hac p Hp c a b). Qed.

(* precompute returns a preschedule on EVERY well formed acyclic job: the flood fill pops each task at most once, every
   iteration of the `while remaining` loop places at least one task (the counters are exactly the numbers of children
   not yet processed), no dictionary lookup fails -- so neither OutOfFuel nor KeyError/TypeError is possible with the
   fuel the model uses, and the theorems above, stated under `precompute j = Ok p`, apply to every such job *)
Theorem C16_total : forall j, wf_job j -> acyclic j -> exists p, precompute j = Ok p.
Proof. exact precompute_total. Qed.

(* ------------------------------------------------------------------ non-vacuity *)
(* two components: a diamond 0 -> {1,2} -> 3 with a multi-edge 1 => 3 and a two-output task, and the isolated task 4 *)
Definition demo_job : job :=
  mkJ [(0, [0]); (1, [0; 1]); (2, [0]); (3, [0]); (4, [0])]%N
      [mkE 0 0 1 (Some 0) None; mkE 0 0 2 None (Some 0); mkE 1 1 3 None (Some 0); mkE 2 0 3 None (Some 1); mkE 1 0 3 (Some 5) None]%N.

Example C16_hypotheses_nonvacuous :
  wf_job demo_job /\ acyclic demo_job /\
  exists p, precompute demo_job = Ok p /\ map (fun c => List.length (c_nodes c)) (p_comps p) = [4; 1]%nat.
Proof.
  split; [|split].
  - constructor.
    + vm_compute. repeat constructor; simpl; intuition discriminate.
    + intros e He. simpl in He. repeat (destruct He as [He|He]; [subst e; vm_compute; intuition|]). destruct He.
    + intros e He. simpl in He. repeat (destruct He as [He|He]; [subst e; reflexivity|]). destruct He.
    + vm_compute. repeat constructor; simpl; intuition discriminate.
  - exists N.to_nat. intros e He. simpl in He. repeat (destruct He as [He|He]; [subst e; vm_compute; repeat constructor|]). destruct He.
  - eexists. split; vm_compute; reflexivity.
Qed.

(* the value theorem's premises are met by a task two steps above the sink: value 1 = depth 3 - 2 *)
Example C16_value_spec_nonvacuous :
  exists p c, precompute demo_job = Ok p /\ In c (p_comps p) /\ In 0%N (c_nodes c) /\
              lookup N.eqb 0%N (c_value c) = Some 1%Z /\ c_depth c = 3%Z.
Proof. eexists. eexists. split; [vm_compute; reflexivity|]. split; [left; reflexivity|]. vm_compute. intuition. Qed.

(* tasks 1 and 2 of the diamond meet in task 3 after one step each; 0 and 3 are at distance 2 *)
Example C16_distance_spec_nonvacuous :
  exists p c row, precompute demo_job = Ok p /\ In c (p_comps p) /\ In 1%N (c_nodes c) /\ In 2%N (c_nodes c) /\
                  lookup N.eqb 1%N (c_dist c) = Some row /\ lookup N.eqb 2%N row = Some 1%Z.
Proof. eexists. eexists. eexists. split; [vm_compute; reflexivity|]. split; [left; reflexivity|]. vm_compute. intuition. Qed.

(* the hypothesis "no input slot is fed twice" cannot be dropped: two edges into slot 0 of task 2 (param_source keeps
   the last one, dependants keeps both) make the `while remaining` loop of enrich spin for ever *)
Definition dup_slot_job : job :=
  mkJ [(0, [0]); (1, [0]); (2, [0])]%N [mkE 0 0 2 None (Some 0); mkE 1 0 2 None (Some 0)]%N.
Example C16_unique_slots_needed :
  NoDup (tasks_of dup_slot_job) /\ acyclic dup_slot_job /\
  (forall e, In e (j_edges dup_slot_job) -> In (e_src e) (tasks_of dup_slot_job) /\ In (e_snk e) (tasks_of dup_slot_job)) /\
  precompute dup_slot_job = Err OutOfFuel.
Proof.
  split; [vm_compute; repeat constructor; simpl; intuition discriminate|]. split.
  - exists N.to_nat. intros e He. simpl in He. repeat (destruct He as [He|He]; [subst e; vm_compute; repeat constructor|]). destruct He.
  - split; [|vm_compute; reflexivity].
    intros e He. simpl in He. repeat (destruct He as [He|He]; [subst e; vm_compute; intuition|]). destruct He.
Qed.

Print Assumptions C16_components_partition.
Print Assumptions C16_components_closed.
Print Assumptions C16_components_connected.
Print Assumptions C16_components_sorted.
Print Assumptions C16_sources_exact.
Print Assumptions C16_edge_maps_exact.
Print Assumptions C16_value_spec.
Print Assumptions C16_depth_spec.
Print Assumptions C16_distance_spec.
Print Assumptions C16_total.
