(* C16 -- the preschedule is a faithful structural summary of the job DAG (work in progress) *)
From Coq Require Import List NArith ZArith Bool.
From EKW Require Import Sched.Presched Sched.PreschedCheck.
Import ListNotations.

Definition demo_job : job :=
  mkJ [(0, [0]); (1, [0; 1]); (2, [0]); (3, [0]); (4, [0])]%N
      [mkE 0 0 1 (Some 0) None; mkE 0 0 2 None (Some 0); mkE 1 1 3 None (Some 0); mkE 2 0 3 None (Some 1); mkE 1 0 3 (Some 5) None]%N.
Eval vm_compute in precompute demo_job.
