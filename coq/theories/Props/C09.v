(* C09 -- shared-memory datasets keep their bytes, are protected in use, stay reachable.
   Model: Shm/Manager.v + Shm/Lottery.v (see Props/C08.v for the reading of histories, `exec`, `race_free`).
   Bytes live in the modelled world: `segs` (named shared-memory segments) and `files` (page-out directory);
   the ghost field d_written of a dataset is the content of its segment at the moment the writer's
   close_callback was accepted, d_closed records that this happened.
   Side conditions used below (each is a decidable predicate on the history, evaluated step by step):
     race_free    no successful page-out callback for a Dataset object purged meanwhile   (C08, finding readd-during-pageout)
     clean        additionally: no page-out job issued for a purged Dataset object finds a segment under its name
                  (the same finding, seen at the attach+write or at the unlink step of the job), and writers close segments of
                  the granted size
     unhurried    no writer is slower than STALE_CREATE while an eviction round runs       (finding stale-writer-readable) *)
From Coq Require Import List NArith ZArith String Bool Sorted Permutation.
From EKW Require Import Shm.Lottery Shm.LotteryProofs Shm.Manager Shm.ManagerProofs Shm.ManagerLive Shm.ManagerBytes.
From EKW Require Import Shm.ManagerReaders Shm.ManagerLocks Shm.ManagerLocksProofs Shm.ManagerStuck.
From EKW Require Import Shm.PageInChunks Shm.PageInChunksProofs.
From EKW Require Import Shm.ClientRpc Shm.ClientRpcProofs.
From EKW Require Shm.ManagerCheck.   (* not used here: keeps the correspondence checker's .vo in step with the model *)
Import ListNotations.
Open Scope string_scope.
Open Scope list_scope.
Open Scope Z_scope.

(* ------------------------------------------------------------------ (1) bytes *)
(* After every clean history, whenever a dataset is readable (in_memory) its segment holds exactly the bytes
   the writer left at its close -- through any number of page-out / page-in cycles, failed jobs, purges and
   interleavings; and a granted get returns that dataset's own segment name and size.
   FULL statement: without `clean`; false, C09_bytes_preserved_refuted. *)
Theorem C09_bytes_preserved_partial : forall cap ops k now u shmid l rd,
  0 <= cap -> clean (init cap) ops = true ->
  let s := exec (init cap) ops in
  snd (step s (Get k now u)) = RGot shmid l rd ->
  shmid = k /\
  exists ds, lookup k (dsets s) = Some ds /\ d_status ds = InMemory /\ l = d_size ds /\
    forall bs, d_written ds = Some bs -> lookup k (segs s) = Some bs /\ N.of_nat (List.length bs) = l.
Proof. exact get_returns_written_bytes. Qed.

Theorem C09_bytes_preserved_refuted :
  exists cap ops k now u bs,
    0 <= cap /\
    let s := exec (init cap) ops in
    snd (step s (Get k now u)) = RGot k 6 1 /\
    (exists ds, lookup k (dsets s) = Some ds /\ d_written ds = Some bs) /\ lookup k (segs s) = None.
Proof. exact bytes_refuted. Qed.

(* ------------------------------------------------------------------ (2) not readable before the writer has finished *)
Theorem C09_no_read_before_close_partial : forall cap ops k now u shmid l rd,
  0 <= cap -> race_free (init cap) ops = true -> unhurried (init cap) ops = true ->
  let s := exec (init cap) ops in
  snd (step s (Get k now u)) = RGot shmid l rd ->
  exists ds, lookup k (dsets s) = Some ds /\ d_status ds = InMemory /\ d_closed ds = true.
Proof. exact get_granted_closed. Qed.

(* while the writer is at work (status created) every get answers wait *)
Theorem C09_created_answers_wait : forall s k ds now u,
  lookup k (dsets s) = Some ds -> d_status ds = Created -> step s (Get k now u) = (s, RErr "wait").
Proof. exact created_answers_wait. Qed.

Theorem C09_no_read_before_close_refuted :
  exists cap ops k now u,
    0 <= cap /\ race_free (init cap) ops = true /\
    let s := exec (init cap) ops in
    snd (step s (Get k now u)) = RGot k 3 1 /\
    exists ds, lookup k (dsets s) = Some ds /\ d_closed ds = false.
Proof. exact read_before_close_refuted. Qed.

(* ------------------------------------------------------------------ (3) protected in use *)
(* every page-out job ever issued is for a dataset that, at that moment, was in memory with every reader older
   than the staleness window (or was abandoned by its writer for longer than STALE_CREATE), and was drawn by
   the lottery *)
Theorem C09_no_evict_under_fresh_reader : forall fixed amount now s j,
  In j (jobs (page_out_at_least_gen fixed amount now s)) -> ~ In j (jobs s) ->
  j_kind j = PageOut /\ In (j_key j) (lottery (candidates now (dsets s)) amount) /\
  exists ds, In (j_key j, ds) (dsets s) /\
    ((d_status ds = Created /\ now - d_created ds > STALE_CREATE) \/
     (d_status ds = InMemory /\ forall r t, In (r, t) (d_readers ds) -> now - t > STALE_READ)).
Proof.
  intros fixed amount now s j H1 H2. destruct (evicts_only_idle fixed amount now s j H1 H2) as [A [B [ds [C D]]]].
  split; [exact A|]. split; [exact B|]. exists ds. split; [exact C|]. exact (pageoutable_idle now ds D).
Qed.

(* a purge while readers hold the dataset removes nothing: segment, files, free space and jobs are untouched, the
   dataset stays registered as it was, only the delayed flag is set ... *)
Theorem C09_purge_delayed_under_reader : forall s k ds,
  lookup k (dsets s) = Some ds -> d_readers ds <> [] ->
  let s' := purge k s in
  segs s' = segs s /\ files s' = files s /\ free s' = free s /\ jobs s' = jobs s /\
  map fst (dsets s') = map fst (dsets s) /\
  exists ds', lookup k (dsets s') = Some ds' /\ d_delayed ds' = true /\ d_readers ds' = d_readers ds /\
              d_status ds' = d_status ds /\ d_size ds' = d_size ds.
Proof. exact purge_under_reader. Qed.

(* ... a close that leaves another reader keeps everything, and the close of the LAST reader executes the purge:
   dataset and segment are gone and the space is returned *)
Theorem C09_purge_takes_effect_at_last_close : forall s k ds rd,
  lookup k (dsets s) = Some ds -> d_status ds = InMemory ->
  ((exists rd' t', rd' <> rd /\ lookup rd' (d_readers ds) = Some t') ->
   let s' := fst (close k (Some rd) s) in
   segs s' = segs s /\ free s' = free s /\ exists ds', lookup k (dsets s') = Some ds' /\ d_status ds' = InMemory) /\
  (forall t b, NoDup (map fst (dsets s)) -> NoDup (map fst (segs s)) ->
   d_readers ds = [(rd, t)] -> d_delayed ds = true -> lookup k (segs s) = Some b ->
   let s' := fst (close k (Some rd) s) in
   snd (close k (Some rd) s) = ROk /\ lookup k (dsets s') = None /\ lookup k (segs s') = None /\
   free s' = free s + Z.of_N (d_size ds)).
Proof.
  intros s k ds rd Hl Hs. split.
  - intro H. exact (earlier_close_keeps s k ds rd Hl Hs H).
  - intros t b Hn Hg Hr Hd Hb. exact (last_close_purges s k ds rd t b Hn Hg Hl Hs Hr Hd Hb).
Qed.

(* the three statements above speak of Dataset.ongoing_reads; they are about the clients that hold the dataset because
   that table is an exact account of them, after EVERY history (no side condition): a step changes the table of k exactly
   as `table_after` says -- a granted get appends ONE id, the accepted close of a reader removes THAT id, nothing else
   touches it (a dataset leaves the registry only with an empty table) --, the ids of ongoing reads are pairwise
   distinct, the id handed out by a granted get is carried by no ongoing read, and the close of one reader leaves the
   entry of every other one.  (A store that hands a new reader the id of a reader that is still open breaks this.) *)
Theorem C09_reader_table_exact : forall cap ops o k,
  let s := exec (init cap) ops in
  readers_of k (fst (step s o)) = table_after k o (snd (step s o)) (readers_of k s) /\
  NoDup (readers_of k s) /\
  (forall now u shmid l rd, o = Get k now u -> snd (step s o) = RGot shmid l rd -> ~ In rd (readers_of k s)) /\
  (forall rd a, o = Close k (Some rd) -> a <> rd -> In a (readers_of k s) -> snd (step s o) = ROk ->
     In a (readers_of k (fst (step s o)))).
Proof. exact reader_table_exact. Qed.

(* ------------------------------------------------------------------ (4) eviction order *)
(* the victims are the shortest prefix, reaching the amount (or everything), of: once-read datasets by creation
   time ascending, then many-read by last access ascending, then never-read by creation time descending *)
Theorem C09_lottery_order : forall es amount,
  (exists n, (n <= List.length (pool es))%nat /\
     lottery es amount = map e_key (firstn n (pool es)) /\
     (n = List.length (pool es) \/ (total (firstn n (pool es)) >= amount)%Z) /\
     (forall m, (m < n)%nat -> (1 <= m)%nat -> (total (firstn m (pool es)) < amount)%Z)) /\
  pool es = ssort e_created (filter is_once es) ++ ssort e_last (filter is_mult es)
            ++ ssort (fun e => (- e_created e)%Z) (filter is_never es) /\
  Sorted (le_f e_created) (ssort e_created (filter is_once es)) /\
  Sorted (le_f e_last) (ssort e_last (filter is_mult es)) /\
  Sorted (le_f (fun e => (- e_created e)%Z)) (ssort (fun e => (- e_created e)%Z) (filter is_never es)) /\
  Permutation (ssort e_created (filter is_once es)) (filter is_once es) /\
  Permutation (ssort e_last (filter is_mult es)) (filter is_mult es) /\
  Permutation (ssort (fun e => (- e_created e)%Z) (filter is_never es)) (filter is_never es).
Proof. intros es amount. split; [exact (lottery_minimal_prefix es amount)|exact (pool_order es)]. Qed.

(* ------------------------------------------------------------------ (5) reachability *)
(* after EVERY history (no side condition) the pageout lock is held exactly while a page-out job is pending, whose
   callback counts down and releases it: the lock cannot leak *)
Theorem C09_lock_only_while_evicting : forall cap ops,
  let s := exec (init cap) ops in
  count s = po_pending s /\ (lock s = true <-> exists j, In j (jobs s) /\ j_kind j = PageOut).
Proof. exact lock_iff_pageout_pending. Qed.

(* a request that has to wait for space while no eviction is running and something is evictable starts one *)
Theorem C09_waiting_request_starts_eviction : forall s k size now k' ds',
  LInv s -> NoDup (map fst (dsets s)) -> lock s = false ->
  In (k', ds') (dsets s) -> is_pageoutable now ds' = true ->
  (lookup k (dsets s) = None -> Z.of_N size <= capacity s -> free s < Z.of_N size ->
   let s' := fst (step s (Add k size now)) in
   snd (step s (Add k size now)) = RErr "wait" /\ lock s' = true /\
   exists j, In j (jobs s') /\ j_kind j = PageOut /\ j_phase j = IoPending /\ ~ In j (jobs s)) /\
  (forall ds u, lookup k (dsets s) = Some ds -> d_status ds = OnDisk -> free s < Z.of_N (d_size ds) ->
   let s' := fst (step s (Get k now u)) in
   snd (step s (Get k now u)) = RErr "wait" /\ lock s' = true /\
   exists j, In j (jobs s') /\ j_kind j = PageOut /\ j_phase j = IoPending /\ ~ In j (jobs s)).
Proof. exact waiting_request_starts_eviction. Qed.

(* and a successful page-out returns the space of its dataset (C08_every_other_step_keeps_accounting), so a retry
   after the jobs have completed finds it.  The code before the fix: commit did leak the lock: *)
Theorem C09_lock_leak_before_fix_refuted :
  exists cap ops amount now,
    let s := exec (init cap) ops in
    let s' := page_out_at_least_gen false amount now s in
    lock s = false /\ lock s' = true /\ jobs s' = [] /\
    (forall amount2 now2, page_out_at_least_gen false amount2 now2 s' = s') /\
    lock (page_out_at_least_gen true amount now s) = false.
Proof. exact lock_leak_before_fix. Qed.

(* no request handler and no disk-job callback blocks: pageout_one (a plain, non re-entrant lock, the only blocking
   primitive of the store -- Shm/ManagerLocks.v) is never taken by a thread that holds it, in any state, for any op; so
   every callback runs to its end, counts down and releases the pageout lock (C09_lock_only_while_evicting) *)
Theorem C09_handlers_never_block : forall s o, play false (step_events s o) = Some false.
Proof. exact handlers_never_block. Qed.

(* the section inside Manager.purge is entered exactly when purge gives space back, and purge called from INSIDE a
   section under pageout_one would block for ever exactly then -- a case the callback of a failed page-out whose segment
   still exists (page file not writable) reaches: that callback has to call purge before its own section, as it does *)
Theorem C09_purge_only_outside_sections :
  (forall k s, free (purge k s) = if purge_credits k s
                                  then free s + match lookup k (dsets s) with Some ds => Z.of_N (d_size ds) | None => 0 end
                                  else free s) /\
  (forall k s, play false (purge_inside_section_events k s) = None <-> purge_credits k s = true) /\
  (let s := exec (init 4) failed_pageout_witness in
   exists jb, find_job 0%N (jobs s) = Some jb /\ j_kind jb = PageOut /\ j_phase jb = CbPending false /\
     let s0 := with_jobs (drop_job 0%N (jobs s)) s in
     purge_credits (j_key jb) s0 = true /\
     play false (job_cb_events 0%N s) = Some false /\
     play false (purge_inside_section_events (j_key jb) s0) = None).
Proof.
  split; [exact purge_section_iff_credit|]. split; [exact purge_inside_section_blocks|exact failed_pageout_reaches_purge_section].
Qed.

(* FULL statement of the last clause ("a request that can be satisfied by evicting idle datasets is eventually granted
   instead of answering wait for ever", for every completion of the disk jobs INCLUDING FAILED ONES) is not proved by
   any theorem above -- none of them is a `_partial` of it; it was checked by the patient-client epilogue only -- and
   it is FALSE (open finding failed-pageout-under-stale-reader-stuck): a dataset whose only reader is stale is
   selected for eviction; its page file cannot be written; the callback's purge is delayed by that reader; the lock
   is released and no job is left, but the dataset stays in paging_out however the history continues (`more`: any
   requests, the reader's late close, purges, every job half): get answers wait, the reader's close is refused,
   the key cannot be allocated again, it is never an eviction candidate, its 3 of 4 bytes are never returned. *)
Theorem C09_failed_pageout_under_stale_reader_refuted :
  exists cap ops k,
    (let s := exec (init cap) ops in
     lock s = false /\ count s = 0 /\ jobs s = [] /\ free s = 1 /\ lookup k (segs s) = Some [1;2;3]%N /\
     exists ds, lookup k (dsets s) = Some ds /\ d_status ds = PagingOut /\ d_delayed ds = true /\
                d_readers ds = [(7%N, 2)] /\ no_fresh_read 900000000010 ds = true) /\
    forall more,
      let s := exec (init cap) (ops ++ more) in
      (exists ds, lookup k (dsets s) = Some ds /\ d_status ds = PagingOut) /\
      (forall now u, step s (Get k now u) = (s, RErr "wait")) /\
      (forall r, step s (Close k r) = (s, RErr "ValueError")) /\
      (forall size now, step s (Add k size now) = (s, RErr "conflict")) /\
      (forall now ds, lookup k (dsets s) = Some ds -> is_pageoutable now ds = false).
Proof.
  exists 4, stuck_witness, 1%N. split; [exact (proj2 stuck_reached)|exact failed_pageout_under_stale_reader_stuck].
Qed.

(* ------------------------------------------------------------------ non-vacuity *)
(* capacity 4: a and b written and closed, b read once and closed; a reader holds a; c does not fit: b (idle) is evicted,
   a (held) is not; b is purged while... ; then b is read back through a page-in *)
Definition ex9 : list op := [
  Add 1%N 2%N 1; Write 1%N [10;11]%N; Close 1%N None; Add 2%N 2%N 2; Write 2%N [20;21]%N; Close 2%N None;
  Get 1%N 3 [1%N]; Get 2%N 4 [2%N]; Close 2%N (Some 2%N);
  Add 3%N 2%N 5; JobIo 0%N false; JobUnlink 0%N; JobCb 0%N; Add 3%N 2%N 6; Write 3%N [30;31]%N; Close 3%N None;
  Purge 1%N; Close 1%N (Some 1%N);
  Get 2%N 7 [3%N]; JobIo 1%N false; JobCb 1%N; Get 2%N 8 [3%N] ].

Example C09_bytes_preserved_partial_nonvacuous :
  clean (init 4) ex9 = true /\
  (let s := exec (init 4) ex9 in
   snd (step s (Get 2%N 9 [4%N])) = RGot 2%N 2 4 /\ lookup 2%N (segs s) = Some [20;21]%N /\
   (exists ds, lookup 2%N (dsets s) = Some ds /\ d_written ds = Some [20;21]%N) /\
   lookup 2%N (files s) = Some [20;21]%N /\ lookup 1%N (dsets s) = None).
Proof. vm_compute. repeat split; try reflexivity. eexists. split; reflexivity. Qed.

Example C09_bytes_preserved_refuted_witness :
  clean (init 10) bytes_witness = false /\ race_free (init 10) bytes_witness = false.
Proof. vm_compute. split; reflexivity. Qed.

Example C09_no_read_before_close_partial_nonvacuous :
  race_free (init 4) ex9 = true /\ unhurried (init 4) ex9 = true /\
  snd (step (exec (init 4) (firstn 2 ex9)) (Get 1%N 2 [1%N])) = RErr "wait" /\
  snd (step (exec (init 4) (firstn 3 ex9)) (Get 1%N 3 [1%N])) = RGot 1%N 2 1.
Proof. vm_compute. repeat split; reflexivity. Qed.

Example C09_no_read_before_close_refuted_witness : unhurried (init 4) stale_writer_witness = false.
Proof. vm_compute. reflexivity. Qed.

Example C09_no_evict_under_fresh_reader_nonvacuous :
  map fst (fst (run (init 4) (firstn 10 ex9))) =
    [(RGranted 1%N, 2); (RWrote true, 2); (ROk, 2); (RGranted 2%N, 0); (RWrote true, 0); (ROk, 0);
     (RGot 1%N 2 1, 0); (RGot 2%N 2 2, 0); (ROk, 0); (RErr "wait", 0)] /\
  nth_error (fst (run (init 4) ex9)) 9 = Some (RErr "wait", 0, [(PageOut, 2%N, 0%N)]) /\
  (* with both idle and amount 4 the lottery takes the once-read one first, then the never-read one *)
  lottery [mkEntity 1%N 1 0 0 2; mkEntity 2%N 2 4 4 2; mkEntity 3%N 3 5 9 2] 6 = [2%N; 3%N; 1%N].
Proof. vm_compute. repeat split; reflexivity. Qed.

Example C09_purge_nonvacuous :
  (let s := exec (init 4) (firstn 16 ex9) in
   exists ds, lookup 1%N (dsets s) = Some ds /\ d_readers ds = [(1%N, 3)] /\ d_status ds = InMemory) /\
  (let s := exec (init 4) (firstn 17 ex9) in
   lookup 1%N (segs s) = Some [10;11]%N /\ exists ds, lookup 1%N (dsets s) = Some ds /\ d_delayed ds = true) /\
  (let s := exec (init 4) (firstn 18 ex9) in lookup 1%N (segs s) = None /\ lookup 1%N (dsets s) = None /\ free s = 2).
Proof. vm_compute. repeat split; try reflexivity; eexists; repeat split; reflexivity. Qed.

Example C09_reachability_nonvacuous :
  (let s := exec (init 4) (firstn 10 ex9) in lock s = true /\ po_pending s = 1) /\
  (let s := exec (init 4) (firstn 13 ex9) in lock s = false /\ po_pending s = 0 /\ free s = 2) /\
  (let s := exec (init 4) (firstn 9 ex9) in
   LInv s /\ lock s = false /\ exists ds, lookup 2%N (dsets s) = Some ds /\ is_pageoutable 5 ds = true).
Proof.
  split; [vm_compute; split; reflexivity|]. split; [vm_compute; repeat split; reflexivity|].
  split; [apply run_linv; apply linv_init|]. split; [vm_compute; reflexivity|].
  eexists. split; [vm_compute; reflexivity|]. vm_compute. reflexivity.
Qed.

(* three overlapping reads of one key closed out of order: A (id 1), B (id 2), A closes, C (id 3), B closes: C is still in
   the table, so the purge is delayed and the pressure evicts nothing; the model refuses to hand C the id of B *)
Definition ex9_readers : list op := [
  Add 1%N 2%N 1; Write 1%N [10;11]%N; Close 1%N None;
  Get 1%N 2 [1%N]; Get 1%N 3 [2%N]; Close 1%N (Some 1%N); Get 1%N 4 [3%N]; Close 1%N (Some 2%N) ].

Example C09_reader_table_exact_nonvacuous :
  readers_of 1%N (exec (init 4) (firstn 5 ex9_readers)) = [1%N; 2%N] /\
  readers_of 1%N (exec (init 4) ex9_readers) = [3%N] /\
  snd (step (exec (init 4) (firstn 6 ex9_readers)) (Get 1%N 4 [2%N])) = RErr "RuntimeError" /\
  (let s := exec (init 4) (ex9_readers ++ [Purge 1%N; Add 2%N 4%N 5]) in
   lookup 1%N (segs s) = Some [10;11]%N /\ jobs s = [] /\
   exists ds, lookup 1%N (dsets s) = Some ds /\ d_delayed ds = true /\ d_status ds = InMemory) /\
  (let s := exec (init 4) (ex9_readers ++ [Purge 1%N; Add 2%N 4%N 5; Close 1%N (Some 3%N)]) in
   lookup 1%N (segs s) = None /\ lookup 1%N (dsets s) = None /\ free s = 4).
Proof. vm_compute. repeat split; try reflexivity. eexists. repeat split; reflexivity. Qed.

Example C09_handlers_never_block_nonvacuous :
  (* a purge that returns space, the last close executing a delayed purge, both page-out callbacks *)
  step_events (exec (init 4) (firstn 3 ex9)) (Purge 1%N) = [AcqOne; RelOne] /\
  step_events (exec (init 4) (firstn 17 ex9)) (Close 1%N (Some 1%N)) = [AcqOne; RelOne] /\
  step_events (exec (init 4) (firstn 12 ex9)) (JobCb 0%N) = [AcqOne; RelOne] /\
  step_events (exec (init 4) failed_pageout_witness) (JobCb 0%N) = [AcqOne; RelOne; AcqOne; RelOne] /\
  play false [AcqOne; AcqOne; RelOne; RelOne] = None.
Proof. vm_compute. repeat split; reflexivity. Qed.

(* ------------------------------------------------------------------ (9) several page-ins at the same time *)
(* The body of a page-in job is ONE step of the model above (JobIo).  Really it is a loop over chunks of the page file (read a chunk,
   copy it into the segment) on one of the 4 threads of Disk.readers, and the bodies of the jobs of different keys interleave between
   any two of these operations (gets of on-disk keys arriving back to back: every get launches its job and answers `wait`).
   Shm/PageInChunks.v: a schedule is ANY list of job numbers, each entry = the next operation of that job; chunk size `ch` > 0.
   With a chunk buffer of its own per job (the code: `b = f.read(chunk_size)`), whatever the schedule, a body that has finished has
   filled its segment with exactly its page file -- which is what JobIo does in one step. *)
Theorem C09_concurrent_page_ins_restore_the_bytes : forall ch files sched i j,
  (0 < ch)%nat ->
  nth_error (w_jobs (wrun ch false sched (wstart ch files))) i = Some j -> p_done j = true -> p_seg j = p_file j.
Proof. intros ch files sched i j H. now apply concurrent_page_ins_restore_the_bytes. Qed.

(* the page files are the ones the jobs were started with, in every variant *)
Theorem C09_page_in_reads_its_own_file : forall ch sh sched w,
  map p_file (w_jobs (wrun ch sh sched w)) = map p_file (w_jobs w).
Proof. exact page_in_files_fixed. Qed.

(* a body that reads into ONE scratch buffer shared by the pool (`shared = true`) is expressible in the model and wrong: two jobs,
   each has read its chunk before the other copies: the first comes back with the bytes of the second *)
Theorem C09_shared_page_in_buffer_is_wrong :
  exists ch files sched i j, (0 < ch)%nat /\
    nth_error (w_jobs (wrun ch true sched (wstart ch files))) i = Some j /\ p_done j = true /\ p_seg j <> p_file j.
Proof.
  exists 4%nat, [[10; 11; 12]; [241; 242; 243]]%N, [0; 1; 0; 1; 0; 1]%nat, 0%nat.
  eexists. split; [repeat constructor|]. split; [vm_compute; reflexivity|]. split; [reflexivity|]. cbn. discriminate.
Qed.

Example C09_concurrent_page_ins_nonvacuous :
  (* the same two jobs and the same schedule with private buffers; and a multi-chunk interleaving (chunk size 2) *)
  map (fun j => (p_done j, p_seg j)) (w_jobs (wrun 4 false [0; 1; 0; 1; 0; 1]%nat (wstart 4 [[10; 11; 12]; [241; 242; 243]]%N))) =
    [(true, [10; 11; 12]%N); (true, [241; 242; 243]%N)] /\
  map (fun j => (p_done j, p_seg j)) (w_jobs (wrun 2 false [0; 1; 1; 0; 0; 1; 1; 0; 0; 0; 1; 1; 1; 0]%nat (wstart 2 [[1; 2; 3; 4; 5]; [9; 8; 7]]%N))) =
    [(true, [1; 2; 3; 4; 5]%N); (true, [9; 8; 7]%N)] /\
  map (fun j => (p_done j, p_seg j)) (w_jobs (wrun 4 true [0; 1; 0; 1; 0; 1]%nat (wstart 4 [[10; 11; 12]; [241; 242; 243]]%N))) =
    [(true, [241; 242; 243]%N); (true, [241; 242; 243]%N)].
Proof. vm_compute. repeat split; reflexivity. Qed.

(* ------------------------------------------------------------------ (10) the answer a client call acts on is its own *)
(* Everything above speaks of requests and THEIR answers.  The clients are the threads of a process (the pool of the data server runs
   get / allocate / purge side by side) and a call is: send a datagram, receive one.  Shm/ClientRpc.v: any number of threads and
   sockets, any interleaving with the server; an answer goes to the socket its request came from, a recv takes the oldest datagram of
   its socket.  Discipline (n_bad = false): a request is sent on a socket with no unanswered request by a thread with none, a socket
   is read by the thread whose request is outstanding on it, and is not closed meanwhile -- one socket per command (client.py), one
   per thread, one under a lock from send to recv.  Then whatever a thread receives is the answer to the request it sent last: the
   bytes, the reader id, the `wait` it acts upon are its own. *)
Theorem C09_client_call_gets_its_own_answer : forall log1 t s q log2 st,
  crun net0 (log1 ++ CRecv t s q :: log2) = Some st -> n_bad st = false ->
  exists st1, crun net0 log1 = Some st1 /\ n_last st1 t = Some q /\ n_out st1 s = Some (t, q) /\ n_busy st1 t = Some s /\
              n_rx st1 s = [q] /\ n_pend st1 s = [].
Proof. exact received_answer_is_own. Qed.

Theorem C09_disciplined_clients_never_mispaired : forall log st,
  crun net0 log = Some st -> n_bad st = false -> n_mis st = false.
Proof. exact disciplined_never_mispaired. Qed.

(* a socket kept open and used by the threads of a process at the same time is expressible in the model and wrong: both send before
   either receives, thread 2 is handed the answer to the request of thread 1 (its segment, its reader id) *)
Theorem C09_socket_shared_by_threads_is_wrong :
  exists st, crun net0 shared_socket_log = Some st /\ n_bad st = true /\ n_mis st = true /\
             n_last st 2%N = Some 1%N /\ In (CRecv 2 7 0)%N shared_socket_log.
Proof. exact shared_socket_mispairs. Qed.

Example C09_client_call_gets_its_own_answer_nonvacuous :
  check_client_log private_sockets_log = true /\ check_client_log shared_socket_log = false /\
  (exists st, crun net0 private_sockets_log = Some st /\ n_bad st = false /\ n_last st 2%N = Some 1%N /\ n_closed st 8%N = true) /\
  (* a socket per thread, kept open over two calls each, the calls of the two threads interleaved *)
  check_client_log [CSend 1 7 0; CSend 2 8 1; CHandle 1 8; CRecv 2 8 1; CSend 2 8 2; CHandle 0 7; CHandle 2 8; CRecv 1 7 0;
                    CSend 1 7 3; CRecv 2 8 2; CHandle 3 7; CRecv 1 7 3]%N = true /\
  (* an answer that arrives after its socket was closed is lost; the log is a run, the discipline is broken *)
  (exists st, crun net0 [CSend 1 7 0; CClose 7; CHandle 0 7]%N = Some st /\ n_bad st = true /\ n_rx st 7%N = []).
Proof.
  split; [vm_compute; reflexivity|]. split; [vm_compute; reflexivity|].
  split; [eexists; split; [vm_compute; reflexivity|]; cbn; repeat split; reflexivity|].
  split; [vm_compute; reflexivity|]. eexists. split; [vm_compute; reflexivity|]. cbn. split; reflexivity.
Qed.

Print Assumptions C09_bytes_preserved_partial.
Print Assumptions C09_bytes_preserved_refuted.
Print Assumptions C09_no_read_before_close_partial.
Print Assumptions C09_created_answers_wait.
Print Assumptions C09_no_read_before_close_refuted.
Print Assumptions C09_no_evict_under_fresh_reader.
Print Assumptions C09_purge_delayed_under_reader.
Print Assumptions C09_purge_takes_effect_at_last_close.
Print Assumptions C09_lottery_order.
Print Assumptions C09_lock_only_while_evicting.
Print Assumptions C09_waiting_request_starts_eviction.
Print Assumptions C09_lock_leak_before_fix_refuted.
Print Assumptions C09_reader_table_exact.
Print Assumptions C09_handlers_never_block.
Print Assumptions C09_purge_only_outside_sections.
Print Assumptions C09_failed_pageout_under_stale_reader_refuted.
Print Assumptions C09_concurrent_page_ins_restore_the_bytes.
Print Assumptions C09_page_in_reads_its_own_file.
Print Assumptions C09_shared_page_in_buffer_is_wrong.
Print Assumptions C09_client_call_gets_its_own_answer.
Print Assumptions C09_disciplined_clients_never_mispaired.
Print Assumptions C09_socket_shared_by_threads_is_wrong.
