(* C14 -- fluent node names identify computations; operations leave operands intact.

   Model: Fluent/Names.v (Payload.__str__, callable_id, Node.__init__, from_source naming;
   Action objects as a heap of arrays with the in-place primitives _add_dimension /
   _squeeze_dimension and the operations join, two-argument arithmetic, stack/concatenate,
   select, transform/expand, and the array-building operations) as of the repository
   commits  fix: join(match_coord_values=True)..., fix: stack/concatenate..., fix: transform...,
   fix: node names hash an identity of the callable..., fix: node names also hash the number of
   outputs..., fix: Cascade.from_actions merges nodes by name..., fix: callable_id hashes the
   repr of every callable that is not a Python function...
   Fluent/Callable.v (callable_id: what of a callable enters the digest that stands for it in
   the node name -- module, qualified name, code with nested code constants, defaults, closure
   contents, repr of the receiver of a bound method / of a callable that is not a function).
   Fluent/NamesHeap.v (names while a program runs: Payload.args as a reference to a list object,
   Payload.copy, the placeholders appended in place by Node.__init__, Payload objects of the
   caller re-used for nodes with different numbers of inputs and in a second build).
   Proofs: Fluent/NamesProofs.v, Fluent/CallableProofs.v, Fluent/NamesHeapProofs.v.
   Checkers for the correspondence: Fluent/NamesCheck.v, Fluent/CallableCheck.v, Fluent/NamesHeapCheck.v.

   Hypotheses, in words:
     H injective, hex output : custom_hash = SHA-256 hexdigest is treated as collision free;
     callable  : in the theorems on names a callable is its callable_id digest (64 characters);
                 C14_callable_id_identifies_callable / C14_same_name_same_callable open the
                 digest: equal digests only for equal module, qualified name, code, defaults,
                 closure contents and receiver / repr;
     R injective : repr of the list `parts` (str, None, tuples, lists, dicts of those) is
                 CPython's and treated as injective; reprs of objects are taken as they are
                 (the address of an object without __repr__ is its identity while it lives);
     wf_callable, dig64 : a repr is not itself 64 hex digits nor one of the markers
                 "<recursive>", "<empty>"; function digests are 64 characters;
     wf_node   : strings (callable names, keyword names, str arguments) contain no quote and
                 no backslash (their repr is the plain quoted form), other static values print
                 as one token (ints, floats, bools, None ...: no quote , ] }), output names
                 contain no '.' and ':' (they are str(int)).
   No bound on the number of nodes, inputs, arguments or operations. *)
From Coq Require Import List String Ascii Bool Arith.
From EKW Require Import Fluent.Names Fluent.NamesProofs Fluent.Callable Fluent.CallableProofs.
From EKW Require Fluent.NamesCheck Fluent.CallableCheck.
From EKW Require Fluent.NamesHeap Fluent.NamesHeapProofs Fluent.NamesHeapCheck.
Import ListNotations.
Open Scope string_scope.
Open Scope list_scope.

(* two nodes with the same name denote the same computation: same callable, same static
   arguments, same keywords, and input by input the same computation and output *)
Theorem C14_same_name_same_computation :
  forall (H : string -> string) (cname : string -> string),
  (forall a b, H a = H b -> a = b) -> (forall a, allc hexchar (H a) = true) ->
  forall a b : fnode, wf_node cname a = true -> wf_node cname b = true ->
  nname H cname a = nname H cname b -> comp_of a = comp_of b.
Proof. exact name_injective. Qed.

(* building the same program twice gives the same names: the name depends on the
   computation and on the labels from_source gave, on nothing else (no hypothesis on H) *)
Theorem C14_same_program_same_names :
  forall (H : string -> string) (cname : string -> string) (a b : fnode),
  comp_of a = comp_of b -> labels_of a = labels_of b -> nname H cname a = nname H cname b.
Proof. exact name_function_of_computation. Qed.

(* lowering keyed by name is unambiguous: nodes of one name give the same payload and the
   same (parent name, output) edges *)
Theorem C14_lowering_by_name_unambiguous :
  forall (H : string -> string) (cname : string -> string),
  (forall a b, H a = H b -> a = b) -> (forall a, allc hexchar (H a) = true) ->
  forall a b : fnode, wf_node cname a = true -> wf_node cname b = true ->
  nname H cname a = nname H cname b -> lowered H cname a = lowered H cname b.
Proof. exact lowering_unambiguous. Qed.

(* nodes of one name have the same number of outputs: with equal inputs they are merged by
   Cascade.from_actions (deduplicate_nodes compares outputs, inputs and, here, names) *)
Theorem C14_same_name_same_outputs :
  forall (H : string -> string) (cname : string -> string),
  (forall a b, H a = H b -> a = b) -> (forall a, allc hexchar (H a) = true) ->
  forall a b : fnode, wf_node cname a = true -> wf_node cname b = true ->
  nname H cname a = nname H cname b -> nout_of a = nout_of b.
Proof. exact same_name_same_outputs. Qed.

(* no sequence of operations, whatever the operands, changes the array (dimensions,
   coordinates, cells) of an action that already existed *)
Theorem C14_operands_intact :
  forall (ops : list op) (h h' : heap), run h ops = Ok h' ->
  forall i a, nth_error h i = Some a -> nth_error h' i = Some a.
Proof. exact operands_intact. Qed.

(* the digest that stands for the callable inside a node name identifies the callable:
   functions by module, qualified name, code (constants and nested code included), defaults,
   keyword defaults and closure contents; methods also by their receiver; callable objects,
   wrappers, builtins and classes by their repr.  No bound on the nesting. *)
Theorem C14_callable_id_identifies_callable :
  forall (H : string -> string) (R : pv -> string),
  (forall a b, H a = H b -> a = b) -> (forall a, allc hexchar (H a) = true) -> (forall a b, R a = R b -> a = b) ->
  forall a b : dv, wf_callable a = true -> wf_callable b = true -> dig64 H R a = true -> dig64 H R b = true ->
  cid H R a = cid H R b -> a = b.
Proof. exact callable_id_injective. Qed.

(* two nodes with the same name run the same callable: same function AND same receiver *)
Theorem C14_same_name_same_callable :
  forall (H : string -> string) (R : pv -> string),
  (forall a b, H a = H b -> a = b) -> (forall a, allc hexchar (H a) = true) -> (forall a b, R a = R b -> a = b) ->
  forall (cname : string -> string) (ca cb : dv) ovr args kw ins nout ovr' args' kw' ins' nout',
  wf_callable ca = true -> wf_callable cb = true -> dig64 H R ca = true -> dig64 H R cb = true ->
  wf_node cname (FN ovr (cid H R ca) args kw ins nout) = true ->
  wf_node cname (FN ovr' (cid H R cb) args' kw' ins' nout') = true ->
  nname H cname (FN ovr (cid H R ca) args kw ins nout) = nname H cname (FN ovr' (cid H R cb) args' kw' ins' nout') ->
  ca = cb.
Proof. exact same_name_same_callable. Qed.

(* ---- names while a program runs: Fluent/NamesHeap.v, the machine with list OBJECTS (Payload.args
   is a reference; Node.__init__ copies the Payload it is given, appends the placeholders of its
   inputs to the copy in place and hashes the list as it is then).  A program = any sequence of
   Payload(...) and Node(...) constructions; a Payload object may be given to any number of nodes
   with any numbers of inputs (map: 1, reduce: the length of a dimension, batches of different
   length), in the first build of the program and again in the second. *)

(* the machine computes the names Names.v gives to what the program DECLARES, and when the
   program is over every node object holds the payload of its declaration (callable, declared
   arguments + one placeholder per input of its own, keywords) and every Payload object of the
   caller holds what it was declared with: no hypothesis on H *)
Theorem C14_built_names_are_declared_names :
  forall (H cname : string -> string) (ops : list NamesHeap.bop) (st : NamesHeap.state),
  NamesHeap.run H cname ops NamesHeap.init = Ok st ->
  exists sp, NamesHeap.spec_run ops NamesHeap.spec_init = Some sp /\
    map NamesHeap.n_name (NamesHeap.s_nodes st) = map (nname H cname) (NamesHeap.sp_trees sp) /\
    map (NamesHeap.node_view (NamesHeap.s_heap st)) (NamesHeap.s_nodes st) = map NamesHeap.declared_view (NamesHeap.sp_trees sp) /\
    map (NamesHeap.payload_view (NamesHeap.s_heap st)) (NamesHeap.s_payloads st) = NamesHeap.sp_decls sp.
Proof. exact NamesHeapProofs.built_names_are_declared_names. Qed.

(* two node OBJECTS a program built carry the same name only if, when the program is over, they
   hold the same payload and were declared as the same computation *)
Theorem C14_built_same_name_same_payload :
  forall (H cname : string -> string),
  (forall a b, H a = H b -> a = b) -> (forall a, allc hexchar (H a) = true) ->
  forall ops st sp, NamesHeap.run H cname ops NamesHeap.init = Ok st -> NamesHeap.spec_run ops NamesHeap.spec_init = Some sp ->
  forallb (wf_node cname) (NamesHeap.sp_trees sp) = true ->
  forall i j a b, nth_error (NamesHeap.s_nodes st) i = Some a -> nth_error (NamesHeap.s_nodes st) j = Some b ->
  NamesHeap.n_name a = NamesHeap.n_name b ->
  NamesHeap.node_view (NamesHeap.s_heap st) a = NamesHeap.node_view (NamesHeap.s_heap st) b /\
  exists ta tb, nth_error (NamesHeap.sp_trees sp) i = Some ta /\ nth_error (NamesHeap.sp_trees sp) j = Some tb /\
                comp_of ta = comp_of tb /\ lowered H cname ta = lowered H cname tb.
Proof. exact NamesHeapProofs.built_same_name_same_payload. Qed.

(* building the same thing again (later in the program, or in a second build of the program that
   re-uses the caller's Payload objects) gives the same name, whatever the Payload objects were
   used for in between *)
Theorem C14_rebuilt_same_names :
  forall (H cname : string -> string) ops st sp,
  NamesHeap.run H cname ops NamesHeap.init = Ok st -> NamesHeap.spec_run ops NamesHeap.spec_init = Some sp ->
  forall i j a b ta tb, nth_error (NamesHeap.s_nodes st) i = Some a -> nth_error (NamesHeap.s_nodes st) j = Some b ->
  nth_error (NamesHeap.sp_trees sp) i = Some ta -> nth_error (NamesHeap.sp_trees sp) j = Some tb ->
  comp_of ta = comp_of tb -> labels_of ta = labels_of tb -> NamesHeap.n_name a = NamesHeap.n_name b.
Proof. exact NamesHeapProofs.rebuilt_same_names. Qed.

(* a Payload.copy that shares the list object (copy.copy) breaks all three: in the program
   P = Payload(combine, kwargs=...); src.map(P); src.reduce(P, dim); src.map(P) again (second build)
   the two map nodes are declared alike but get different names, the first map node ends up
   holding three placeholders for its one input (its name was hashed from another payload),
   and P itself is changed *)
Theorem C14_sharing_copy_refuted :
  exists st sp a b t,
    NamesHeap.run_with NamesCheck.hexenc NamesHeapCheck.ex_cn NamesHeap.pcopy_shallow NamesHeapCheck.ex_prog NamesHeap.init = Ok st /\
    NamesHeap.spec_run NamesHeapCheck.ex_prog NamesHeap.spec_init = Some sp /\
    nth_error (NamesHeap.s_nodes st) 3 = Some a /\ nth_error (NamesHeap.s_nodes st) 5 = Some b /\
    nth_error (NamesHeap.sp_trees sp) 3 = Some t /\ nth_error (NamesHeap.sp_trees sp) 5 = Some t /\
    NamesHeap.n_name a <> NamesHeap.n_name b /\
    NamesHeap.node_view (NamesHeap.s_heap st) a <> NamesHeap.declared_view t /\
    map (NamesHeap.payload_view (NamesHeap.s_heap st)) (NamesHeap.s_payloads st) <> NamesHeap.sp_decls sp.
Proof.
  do 5 eexists. split; [vm_compute; reflexivity|]. split; [vm_compute; reflexivity|].
  split; [reflexivity|]. split; [reflexivity|]. split; [reflexivity|]. split; [reflexivity|].
  split; [vm_compute; discriminate|]. split; vm_compute; discriminate.
Qed.

(* ------------------------------------------------------------------ non-vacuity *)
Definition ex_cname (f : string) : string :=
  if String.eqb f "00000000000000000000000000000000000000000000000000000000000000f1" then "f" else "<lambda>".
Definition id_f := "00000000000000000000000000000000000000000000000000000000000000f1".
Definition id_l1 := "00000000000000000000000000000000000000000000000000000000000000a1".
Definition id_l2 := "00000000000000000000000000000000000000000000000000000000000000a2".
Definition ex_src := FN (Some "f(1,)") id_f [VAtom "2"; VStr "x"] [("k", VAtom "1.5")] [] "2".
Definition ex_a := FN None id_l1 [VAtom "3"; VStr "input0"] [] [(ex_src, Some "1")] "1".
(* the same node as map(Payload(f, (3,))) hands it over: Node.__init__ appends the placeholder *)
Definition ex_a' := FN None id_l1 [VAtom "3"] [] [(ex_src, Some "1")] "1".
Definition ex_b := FN None id_l2 [VAtom "3"; VStr "input0"] [] [(ex_src, Some "1")] "1".

(* the hypotheses on H are met by a concrete function; two nodes built from different
   argument lists share a name; two lambdas with equal __name__, equal
   statics and equal inputs get different names *)
Example C14_same_name_same_computation_nonvacuous :
  (forall a b, NamesCheck.hexenc a = NamesCheck.hexenc b -> a = b) /\
  (forall a, allc hexchar (NamesCheck.hexenc a) = true) /\
  wf_node ex_cname ex_a = true /\ wf_node ex_cname ex_a' = true /\ wf_node ex_cname ex_b = true /\
  ex_a <> ex_a' /\ nname NamesCheck.hexenc ex_cname ex_a = nname NamesCheck.hexenc ex_cname ex_a' /\
  ex_cname id_l1 = ex_cname id_l2 /\ nname NamesCheck.hexenc ex_cname ex_a <> nname NamesCheck.hexenc ex_cname ex_b.
Proof.
  split; [exact hexenc_inj|]. split; [exact hexenc_hex|].
  repeat split; try (vm_compute; reflexivity); try discriminate.
Qed.

(* callables: one method `apply` (code "97") bound to two objects that print S(1) and S(2);
   a closure over 1 and over 2 with defaults, keyword defaults, an empty cell and a reference to
   itself; a function with nested code and a closure over another function; a numpy ufunc *)
Definition ex_code := DCode "97" [] [] [].
Definition ex_meth (self : string) := DFunc None None ex_code [] [] [] [] self.
Definition ex_clo (k : string) :=
  DFunc (Some "m") (Some "mk.<locals>.f") (DCode "9701" ["k"] ["x"] [DRepr "None"]) [DRepr "0"] ["p"] [DRepr k]
        [DRepr k; DEmpty; DRec] "None".
Definition ex_deep :=
  DFunc (Some "m") (Some "g") (DCode "64" [] [] [DCode "65" [] [] [DRepr "1"]]) [] [] [] [DRepr "<m.S object at 0x7f01>"] "None".
Definition ex_ufunc (r : string) := DOther None None r.

(* the hypotheses are met by concrete functions (hexenc, ser); descriptions of every shape are
   in the domain; different receivers, closure contents, reprs give different digests, and
   the digests are 64 characters where a node name needs that *)
Example C14_callable_id_identifies_callable_nonvacuous :
  (forall a b, NamesCheck.hexenc a = NamesCheck.hexenc b -> a = b) /\
  (forall a, allc hexchar (NamesCheck.hexenc a) = true) /\
  (forall a b, CallableCheck.ser a = CallableCheck.ser b -> a = b) /\
  wf_callable (ex_meth "S(1)") = true /\ dig64 NamesCheck.hexenc CallableCheck.ser (ex_meth "S(1)") = true /\
  dig64 NamesCheck.hexenc CallableCheck.ser (ex_meth "S(2)") = true /\
  cid NamesCheck.hexenc CallableCheck.ser (ex_meth "S(1)") <> cid NamesCheck.hexenc CallableCheck.ser (ex_meth "S(2)") /\
  wf_callable (ex_clo "1") = true /\ wf_callable ex_deep = true /\
  wf_callable (ex_ufunc "<ufunc 'add'>") = true /\
  String.length (cid NamesCheck.hexenc CallableCheck.ser (ex_ufunc "<ufunc 'add'>")) = 64 /\
  cid NamesCheck.hexenc CallableCheck.ser (ex_clo "1") <> cid NamesCheck.hexenc CallableCheck.ser (ex_clo "2").
Proof.
  split; [exact hexenc_inj|]. split; [exact hexenc_hex|]. split; [exact ser_inj|].
  repeat split; try (vm_compute; reflexivity); vm_compute; discriminate.
Qed.

Example C14_same_name_same_callable_nonvacuous :
  let H := NamesCheck.hexenc in let R := CallableCheck.ser in
  let a := FN None (cid H R (ex_meth "S(1)")) [VAtom "3"] [] [(ex_src, Some "1")] "1" in
  let b := FN None (cid H R (ex_meth "S(2)")) [VAtom "3"] [] [(ex_src, Some "1")] "1" in
  wf_node (fun _ => "apply") a = true /\ wf_node (fun _ => "apply") b = true /\
  comp_of a <> comp_of b /\ nname H (fun _ => "apply") a <> nname H (fun _ => "apply") b.
Proof. repeat split; try (vm_compute; reflexivity); vm_compute; discriminate. Qed.

(* variants of the code.  Before the fix: commit a callable that is not a function, has a
   __qualname__ and no __self__ (functools.lru_cache wrapper, update_wrapper'ed object)
   contributed its names only: the wrappers of two different closures shared a digest.  A
   callable_id that prints the receiver of a method by its class only gives two receivers
   one digest: the receiver's identity would no longer enter the node name. *)
Example C14_before_fix_wrappers_shared_a_digest :
  forall H R, CallableCheck.cid_other_legacy H R (Some "m") (Some "mk.<locals>.f") false "<functools._lru_cache_wrapper object at 0x7f01>"
            = CallableCheck.cid_other_legacy H R (Some "m") (Some "mk.<locals>.f") false "<functools._lru_cache_wrapper object at 0x7f02>".
Proof. reflexivity. Qed.

Example C14_receiver_by_class_only_collides :
  forall H R, ex_meth "<m.Scaler object at 0x7f01>" <> ex_meth "<m.Scaler object at 0x7f02>" /\
  CallableCheck.cid_method_by_class H R (fun _ => "<m.Scaler object>") (ex_meth "<m.Scaler object at 0x7f01>")
  = CallableCheck.cid_method_by_class H R (fun _ => "<m.Scaler object>") (ex_meth "<m.Scaler object at 0x7f02>").
Proof. intros H R. split; [discriminate | reflexivity]. Qed.

(* same computation, same labels, built differently *)
Example C14_same_program_same_names_nonvacuous :
  comp_of ex_a = comp_of ex_a' /\ labels_of ex_a = labels_of ex_a' /\ ex_a <> ex_a'.
Proof. repeat split; try reflexivity. discriminate. Qed.

(* a generator mapped with yields (2 outputs) and without: different names *)
Example C14_same_name_same_outputs_nonvacuous :
  let g2 := FN None id_f [] [] [(ex_src, None)] "2" in
  let g1 := FN None id_f [] [] [(ex_src, None)] "1" in
  wf_node ex_cname g2 = true /\ comp_of g1 = comp_of g2 /\
  nname NamesCheck.hexenc ex_cname g1 <> nname NamesCheck.hexenc ex_cname g2.
Proof. repeat split; try (vm_compute; reflexivity). vm_compute. discriminate. Qed.

Example C14_lowering_by_name_unambiguous_nonvacuous :
  lowered NamesCheck.hexenc ex_cname ex_a = lowered NamesCheck.hexenc ex_cname ex_a' /\
  snd (lowered NamesCheck.hexenc ex_cname ex_a) <> [].
Proof. split; [vm_compute; reflexivity | vm_compute; discriminate]. Qed.

(* a program that uses every operation, with aliasing (select without criteria, transform
   with a function that returns the action it was given, stack over a dimension of size
   one), runs and produces new actions *)
Definition ex_h : heap :=
  [mkArr [("x", ["0"; "1"]); ("y", ["5"])] [] 0; mkArr [("x", ["7"; "8"]); ("y", ["5"])] [] 1].
Definition ex_ops : list op :=
  [OBinary 0 1 (mkArr [("x", ["0"; "1"]); ("y", ["5"])] [] 2);
   OJoin 0 1 "x" false 3;
   OCombine 0 "y" false (mkArr [] [] 0);
   OSelect 1 true (mkArr [] [] 0);
   OTransform 0 [(TFSelf, "a", 0); (TFSelect true (mkArr [] [] 0), "b", 4)] "t" 0;
   OTransform 1 [(TFSelf, "a", 0)] "y" 0;
   OAtomic 2 [0] (mkArr [("y", ["5"])] [] 5)].

Example C14_operands_intact_nonvacuous :
  exists h', run ex_h ex_ops = Ok h' /\ List.length h' = 8 /\
             nth_error h' 4 = Some (mkArr [("x", ["0"; "1"])] [("y", "5")] 0).
Proof. eexists. split; [vm_compute; reflexivity | split; reflexivity]. Qed.

(* the code as it was before the fix: commits did write to its operands: join with
   match_coord_values replaced the other action's coordinates, stack/concatenate over a
   dimension of size one squeezed the operand *)
Example C14_before_fix_join_rewrote_operand :
  exists h', NamesCheck.join_legacy ex_h (Existing 0) (Existing 1) "**datatype**" true 0 = Ok (h', Temp (mkArr [("**datatype**", ["0"; "1"]); ("x", ["0"; "1"]); ("y", ["5"])] [] 0))
             /\ nth_error h' 1 <> nth_error ex_h 1.
Proof. eexists. split; [vm_compute; reflexivity | vm_compute; discriminate]. Qed.

Example C14_before_fix_stack_squeezed_operand :
  exists h', NamesCheck.combine_legacy ex_h (Existing 0) "y" false (mkArr [] [] 0) = Ok (h', Existing 0)
             /\ nth_error h' 0 <> nth_error ex_h 0.
Proof. eexists. split; [vm_compute; reflexivity | vm_compute; discriminate]. Qed.

(* the same program on the real machine: it runs, the declared trees are in the domain, the two
   map nodes (first and second build) share a name, map and reduce do not, the first map node
   holds one placeholder at the end *)
Example C14_built_names_nonvacuous :
  exists st sp a b c,
    NamesHeap.run NamesCheck.hexenc NamesHeapCheck.ex_cn NamesHeapCheck.ex_prog NamesHeap.init = Ok st /\
    NamesHeap.spec_run NamesHeapCheck.ex_prog NamesHeap.spec_init = Some sp /\
    forallb (wf_node NamesHeapCheck.ex_cn) (NamesHeap.sp_trees sp) = true /\
    nth_error (NamesHeap.s_nodes st) 3 = Some a /\ nth_error (NamesHeap.s_nodes st) 5 = Some b /\
    nth_error (NamesHeap.s_nodes st) 4 = Some c /\
    NamesHeap.n_name a = NamesHeap.n_name b /\ NamesHeap.n_name a <> NamesHeap.n_name c /\
    NamesHeap.node_view (NamesHeap.s_heap st) a = (NamesHeapCheck.ex_f, [VStr "input0"], [("scale", VAtom "2.0")]) /\
    NamesHeap.node_view (NamesHeap.s_heap st) c = (NamesHeapCheck.ex_f, [VStr "input0"; VStr "input1"; VStr "input2"], [("scale", VAtom "2.0")]).
Proof.
  do 5 eexists. split; [vm_compute; reflexivity|]. split; [vm_compute; reflexivity|].
  split; [vm_compute; reflexivity|]. split; [reflexivity|]. split; [reflexivity|]. split; [reflexivity|].
  split; [vm_compute; reflexivity|]. split; [vm_compute; discriminate|]. split; vm_compute; reflexivity.
Qed.

Print Assumptions C14_same_name_same_computation.
Print Assumptions C14_same_program_same_names.
Print Assumptions C14_lowering_by_name_unambiguous.
Print Assumptions C14_same_name_same_outputs.
Print Assumptions C14_operands_intact.
Print Assumptions C14_callable_id_identifies_callable.
Print Assumptions C14_same_name_same_callable.
Print Assumptions C14_built_names_are_declared_names.
Print Assumptions C14_built_same_name_same_payload.
Print Assumptions C14_rebuilt_same_names.
Print Assumptions C14_sharing_copy_refuted.
