(* C08 -- the shared-memory store never hands out more memory than its capacity.
   Model: Shm/Manager.v (dataset.Manager + the two halves of every Disk job + the serve loop's error
   mapping, with the `fix:` commit that releases the pageout lock when nothing is evictable).
   A history is ANY list of ops: allocate / client write / finish-write / get / finish-read / purge from
   any number of clients, interleaved in any way with the steps of every page-out job (attach+write the file, unlink the name,
   callback) and page-in job (create+read back, callback), successful or failed (`JobIo j fault`).
   `exec (init cap) ops` is the state reached;  `resident (dsets s)` is the total size of the datasets whose
   status is created / in_memory / paging_out / paged_in ("being written, readable, being paged out, being
   paged in");  `free s` is Manager.free_space.
   `race_free (init cap) ops` excludes exactly one kind of step: the callback of a page-out job that
   SUCCEEDED although the Dataset object it was issued for had been purged meanwhile (possible only when
   the key was allocated again and its new segment created before the job's io half ran).  That step is
   the open finding `readd-during-pageout`; C08_accounting_refuted is its witness. *)
From Coq Require Import List NArith ZArith String Bool.
From EKW Require Import Shm.Lottery Shm.Manager Shm.ManagerProofs.
From EKW Require Shm.ManagerCheck.   (* not used here: keeps the correspondence checker's .vo in step with the model *)
Import ListNotations.
Open Scope string_scope.
Open Scope list_scope.
Open Scope Z_scope.

(* (1) At every instant (= after every history) the reported free space is capacity minus the resident
   total, it is not negative, and so the resident total never exceeds the capacity.
   FULL statement: without the hypothesis race_free.  It is false (C08_accounting_refuted). *)
Theorem C08_accounting_partial : forall cap ops,
  0 <= cap -> race_free (init cap) ops = true ->
  let s := exec (init cap) ops in
  capacity s = cap /\ free s = cap - resident (dsets s) /\ 0 <= free s /\
  0 <= resident (dsets s) /\ resident (dsets s) <= cap.
Proof. exact accounting. Qed.

(* (1') every single step keeps the accounting invariant (Inv: the equation above plus the bookkeeping
   that ties each pending disk job to the dataset it was issued for) -- except the racing callback. *)
Theorem C08_every_other_step_keeps_accounting : forall s o,
  Inv s -> races s o = false -> Inv (fst (step s o)) /\ capacity (fst (step s o)) = capacity s.
Proof. exact step_inv. Qed.

(* (1'') the FreeSpaceResponse sent after op number |pre| of a history is the free space of the state
   reached, and the response and the jobs handed to the disk pools are those of that step *)
Theorem C08_free_space_reported : forall pre s o post,
  nth_error (fst (run s (pre ++ o :: post))) (List.length pre) =
  Some (snd (step (exec s pre) o), free (exec s (pre ++ [o])),
        map seen_job (filter (fun j => (next_jid (exec s pre) <=? j_id j)%N) (jobs (exec s (pre ++ [o]))))).
Proof. exact output_at. Qed.

(* (2) After every (race-free) history an allocation request is
   - refused outright, changing nothing, when larger than the capacity;
   - answered `wait` (or `conflict` if the key exists) when it does not fit next to what is resident:
     no dataset appears, the resident total and the free space stay as they were;
   - granted only if it fits, and then the new dataset is resident with exactly the requested size. *)
Theorem C08_never_granted_early_partial : forall cap ops k size now,
  0 <= cap -> race_free (init cap) ops = true ->
  let s := exec (init cap) ops in
  let s' := fst (step s (Add k size now)) in
  let r := snd (step s (Add k size now)) in
  (cap < Z.of_N size -> (r = RErr "capacity exceeded" \/ r = RErr "conflict") /\ s' = s) /\
  (Z.of_N size <= cap -> cap - resident (dsets s) < Z.of_N size ->
     (r = RErr "wait" \/ r = RErr "conflict") /\ map fst (dsets s') = map fst (dsets s) /\
     resident (dsets s') = resident (dsets s) /\ free s' = free s) /\
  (forall k', r = RGranted k' ->
     k' = k /\ lookup k (dsets s) = None /\ resident (dsets s) + Z.of_N size <= cap /\
     resident (dsets s') = resident (dsets s) + Z.of_N size /\
     exists ds, lookup k (dsets s') = Some ds /\ d_size ds = size /\ d_status ds = Created).
Proof. exact add_never_early. Qed.

(* (3) The full statements are false of the code: there is a history after which free space is not
   capacity - resident, and after which an allocation that does not fit is granted, taking the resident
   total above the capacity. *)
Theorem C08_accounting_refuted :
  exists cap ops, 0 <= cap /\
    let s := exec (init cap) ops in
    free s <> cap - resident (dsets s) /\
    exists k size now, snd (step s (Add k size now)) = RGranted k /\ cap - resident (dsets s) < Z.of_N size /\
                       cap < resident (dsets (fst (step s (Add k size now)))).
Proof. exact accounting_refuted. Qed.

(* ------------------------------------------------------------------ non-vacuity *)
(* capacity 4, three keys: two datasets fill the store, a third allocation waits and triggers a page-out,
   is retried between the halves of the job (still wait) and after it (granted); a get of the paged-out
   dataset first evicts another one, then reserves its space and pages it in (wait twice), then is
   granted; an allocation of 5 is refused, one of 4 waits *)
Definition ex_ops : list op := [
  Add 1%N 2%N 1; Write 1%N [1;2]%N; Close 1%N None; Add 2%N 2%N 2; Write 2%N [3;4]%N; Close 2%N None;
  Add 3%N 2%N 3; JobIo 0%N false; Add 3%N 2%N 4; JobUnlink 0%N; JobCb 0%N; Add 3%N 2%N 5;
  Get 2%N 6 [1%N]; JobIo 1%N false; JobUnlink 1%N; JobCb 1%N; Get 2%N 7 [1%N]; JobIo 2%N false; Get 2%N 8 [1%N]; JobCb 2%N;
  Get 2%N 9 [1%N]; ReadSeg 2%N; Add 4%N 5%N 10; Add 5%N 4%N 11 ].

Example C08_accounting_partial_nonvacuous :
  race_free (init 4) ex_ops = true /\
  (let s := exec (init 4) (firstn 18 ex_ops) in
   free s = 0 /\ resident (dsets s) = 4 /\ List.length (jobs s) = 1%nat /\
   map (fun kd => (fst kd, d_status (snd kd))) (dsets s) = [(1%N, OnDisk); (2%N, PagedIn); (3%N, Created)]) /\
  map fst (fst (run (init 4) ex_ops)) =
    [(RGranted 1%N, 2); (RWrote true, 2); (ROk, 2); (RGranted 2%N, 0); (RWrote true, 0); (ROk, 0);
     (RErr "wait", 0); (RJob true, 0); (RErr "wait", 0); (RJob true, 0); (RJob true, 2); (RGranted 3%N, 0);
     (RErr "wait", 0); (RJob true, 0); (RJob true, 0); (RJob true, 2); (RErr "wait", 0); (RJob true, 0); (RErr "wait", 0);
     (RJob true, 0); (RGot 2%N 2 1, 0); (RBytes (Some [3%N; 4%N]), 0); (RErr "capacity exceeded", 0); (RErr "wait", 0)].
Proof. vm_compute. repeat split; reflexivity. Qed.

Example C08_every_other_step_keeps_accounting_nonvacuous :
  Inv (exec (init 4) (firstn 18 ex_ops)) /\ races (exec (init 4) (firstn 19 ex_ops)) (JobCb 2%N) = false /\
  snd (step (exec (init 4) (firstn 19 ex_ops)) (JobCb 2%N)) = RJob true.
Proof.
  split; [|split; vm_compute; reflexivity].
  apply run_inv; [apply inv_init; discriminate|vm_compute; reflexivity].
Qed.

Example C08_free_space_reported_nonvacuous :
  nth_error (fst (run (init 4) ex_ops)) 16 = Some (RErr "wait", 0, [(PageIn, 2%N, 2%N)]) /\
  nth_error (fst (run (init 4) ex_ops)) 6 = Some (RErr "wait", 0, [(PageOut, 2%N, 0%N)]).
Proof. split; vm_compute; reflexivity. Qed.

Example C08_never_granted_early_partial_nonvacuous :
  race_free (init 4) (firstn 8 ex_ops) = true /\
  (let s := exec (init 4) (firstn 8 ex_ops) in
   resident (dsets s) = 4 /\ snd (step s (Add 3%N 2%N 4)) = RErr "wait" /\ snd (step s (Add 4%N 5%N 4)) = RErr "capacity exceeded") /\
  (let s := exec (init 4) (firstn 11 ex_ops) in
   resident (dsets s) = 2 /\ snd (step s (Add 3%N 2%N 5)) = RGranted 3%N /\ snd (step s (Add 3%N 3%N 5)) = RErr "wait").
Proof. vm_compute. repeat split; reflexivity. Qed.

(* the witness is the history of the finding, and it is exactly the excluded race *)
Example C08_accounting_refuted_witness :
  race_free (init 10) readd_witness = false /\ race_free (init 10) (firstn 9 readd_witness) = true /\
  races (exec (init 10) (firstn 9 readd_witness)) (JobCb 0%N) = true /\
  (let s := exec (init 10) readd_witness in free s = 10 /\ resident (dsets s) = 6).
Proof. vm_compute. repeat split; reflexivity. Qed.

Print Assumptions C08_accounting_partial.
Print Assumptions C08_every_other_step_keeps_accounting.
Print Assumptions C08_free_space_reported.
Print Assumptions C08_never_granted_early_partial.
Print Assumptions C08_accounting_refuted.
