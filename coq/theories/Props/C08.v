(* C08 -- the shared-memory store never hands out more memory than its capacity.
   Model: Shm/Manager.v (dataset.Manager + the two halves of every Disk job + the serve loop's error
   mapping, with the `fix:` commit that releases the pageout lock when nothing is evictable).
   A history is ANY list of ops: allocate / client write / finish-write / get / finish-read / purge from
   any number of clients, interleaved in any way with the steps of every page-out job (attach+write the file, unlink the name,
   callback) and page-in job (create+read back, callback), successful or failed (`JobIo j fault`).
   `exec (init cap) ops` is the state reached;  `resident (dsets s)` is the total size of the datasets whose
   status is created / in_memory / paging_out / paged_in ("being written, readable, being paged out, being
   paged in");  `free s` is Manager.free_space.
   `race_free (init cap) ops` excludes exactly one kind of step: the callback of a page-out job that
   SUCCEEDED although the Dataset object it was issued for had been purged meanwhile (possible only when
   the key was allocated again and its new segment created before the job's io half ran).  That step is
   the open finding `readd-during-pageout`; C08_accounting_refuted is its witness. *)
From Coq Require Import List NArith ZArith String Bool.
From EKW Require Import Shm.Lottery Shm.Manager Shm.ManagerProofs Shm.ManagerConc Shm.ManagerConcProofs.
From EKW Require Shm.ManagerCheck.   (* not used here: keeps the correspondence checker's .vo in step with the model *)
Import ListNotations.
Open Scope string_scope.
Open Scope list_scope.
Open Scope Z_scope.

(* (1) At every instant (= after every history) the reported free space is capacity minus the resident
   total, it is not negative, and so the resident total never exceeds the capacity.
   FULL statement: without the hypothesis race_free.  It is false (C08_accounting_refuted). *)
Theorem C08_accounting_partial : forall cap ops,
  0 <= cap -> race_free (init cap) ops = true ->
  let s := exec (init cap) ops in
  capacity s = cap /\ free s = cap - resident (dsets s) /\ 0 <= free s /\
  0 <= resident (dsets s) /\ resident (dsets s) <= cap.
Proof. exact accounting. Qed.

(* (1') every single step keeps the accounting invariant (Inv: the equation above plus the bookkeeping
   that ties each pending disk job to the dataset it was issued for) -- except the racing callback. *)
Theorem C08_every_other_step_keeps_accounting : forall s o,
  Inv s -> races s o = false -> Inv (fst (step s o)) /\ capacity (fst (step s o)) = capacity s.
Proof. exact step_inv. Qed.

(* (1'') the FreeSpaceResponse sent after op number |pre| of a history is the free space of the state
   reached, and the response and the jobs handed to the disk pools are those of that step *)
Theorem C08_free_space_reported : forall pre s o post,
  nth_error (fst (run s (pre ++ o :: post))) (List.length pre) =
  Some (snd (step (exec s pre) o), free (exec s (pre ++ [o])),
        map seen_job (filter (fun j => (next_jid (exec s pre) <=? j_id j)%N) (jobs (exec s (pre ++ [o]))))).
Proof. exact output_at. Qed.

(* (2) After every (race-free) history an allocation request is
   - refused outright, changing nothing, when larger than the capacity;
   - answered `wait` (or `conflict` if the key exists) when it does not fit next to what is resident:
     no dataset appears, the resident total and the free space stay as they were;
   - granted only if it fits, and then the new dataset is resident with exactly the requested size. *)
Theorem C08_never_granted_early_partial : forall cap ops k size now,
  0 <= cap -> race_free (init cap) ops = true ->
  let s := exec (init cap) ops in
  let s' := fst (step s (Add k size now)) in
  let r := snd (step s (Add k size now)) in
  (cap < Z.of_N size -> (r = RErr "capacity exceeded" \/ r = RErr "conflict") /\ s' = s) /\
  (Z.of_N size <= cap -> cap - resident (dsets s) < Z.of_N size ->
     (r = RErr "wait" \/ r = RErr "conflict") /\ map fst (dsets s') = map fst (dsets s) /\
     resident (dsets s') = resident (dsets s) /\ free s' = free s) /\
  (forall k', r = RGranted k' ->
     k' = k /\ lookup k (dsets s) = None /\ resident (dsets s) + Z.of_N size <= cap /\
     resident (dsets s') = resident (dsets s) + Z.of_N size /\
     exists ds, lookup k (dsets s') = Some ds /\ d_size ds = size /\ d_status ds = Created).
Proof. exact add_never_early. Qed.

(* (3) The full statements are false of the code: there is a history after which free space is not
   capacity - resident, and after which an allocation that does not fit is granted, taking the resident
   total above the capacity. *)
Theorem C08_accounting_refuted :
  exists cap ops, 0 <= cap /\
    let s := exec (init cap) ops in
    free s <> cap - resident (dsets s) /\
    exists k size now, snd (step s (Add k size now)) = RGranted k /\ cap - resident (dsets s) < Z.of_N size /\
                       cap < resident (dsets (fst (step s (Add k size now)))).
Proof. exact accounting_refuted. Qed.

(* (4) How the store comes by its capacity.  `start configured avail` is Manager.__init__ for a server started with
   `configured` (None / 0: not configured) on a /dev/shm that offers `avail`: a setting larger than what is available is trimmed,
   and capacity and free space BOTH start at the trimmed value, so that everything above holds with capacity <= avail. *)
Theorem C08_configured_capacity : forall configured avail ops,
  0 <= avail -> (forall c, configured = Some c -> 0 <= c) -> race_free (start configured avail) ops = true ->
  let s := exec (start configured avail) ops in
  capacity s = configure configured avail /\ capacity s <= avail /\
  free s = capacity s - resident (dsets s) /\ 0 <= free s /\ resident (dsets s) <= avail /\
  free (start configured avail) = capacity (start configured avail).
Proof. exact configured_accounting. Qed.

Theorem C08_configure_trims : forall configured avail,
  0 <= avail -> (forall c, configured = Some c -> 0 <= c) ->
  0 <= configure configured avail <= avail /\
  (forall c, configured = Some c -> c <> 0 -> configure configured avail <= c) /\
  (forall c, configured = Some c -> c <> 0 -> c <= avail -> configure configured avail = c) /\
  (configured = None \/ configured = Some 0 -> configure configured avail = avail).
Proof. exact configure_bounds. Qed.

(* (5) Finer than `step` (Shm/ManagerConc.v): the completion callbacks run on the Disk threads and can be delayed at each
   acquisition of pageout_one while the main thread serves requests and other callbacks run.  A callback is a sequence of
   parts (`FCbPart j` = the code up to the next `with self.pageout_one:`); `FA o` is a whole step of the model above.
   (5a) run one after the other, the parts of a callback ARE the callback of `step` ... *)
Theorem C08_callback_parts_compose : forall fs j jb ok,
  lookup j (mid fs) = None -> find_job j (jobs (base fs)) = Some jb -> j_phase jb = CbPending ok ->
  cb_finish 3 j (fst (cb_part j fs)) = mkF (fst (job_cb j (base fs))) (mid fs) /\
  snd (cb_part j fs) = snd (job_cb j (base fs)).
Proof. exact cb_parts_compose. Qed.

(* ... and a history of whole steps is the same history in both models *)
Theorem C08_whole_step_histories_agree : forall ops s,
  frun (mkF s []) (map FA ops) = (fst (run s ops), mkF (snd (run s ops)) []).
Proof. intros ops s. apply frun_atomic. reflexivity. Qed.

(* (5b) the accounting with completions in flight.  `pending (mid fs)` = the sizes of the datasets whose successful page-out has
   set the status to on_disk but has not yet returned the space (the callback waits for the lock).  At every instant
       free = capacity - resident - pending,
   so the reported free space never exceeds capacity - resident, resident + pending fits the capacity, and when no callback is
   in flight the equation of (1) is exact.  `fsafe_run` = no step is the race of (3), and the callbacks that are split are
   those of successful page-outs (the others run in one piece: FA (JobCb j)).
   FULL statement: every callback split at every lock acquisition; the failure paths go through Manager.purge, whose unlink
   and whose credit are tied together by the segment being gone, not by a lock -- compared with the implementation on every
   fine-grained history of the harness (check_fcase), not proved. *)
Theorem C08_accounting_with_completions_in_flight_partial : forall cap ops,
  0 <= cap -> fsafe_run (finit cap) ops = true ->
  let fs := fexec (finit cap) ops in
  let s := base fs in
  capacity s = cap /\
  free s = cap - resident (dsets s) - pending (mid fs) /\ 0 <= free s /\ 0 <= pending (mid fs) /\
  resident (dsets s) + pending (mid fs) <= cap /\
  free s <= cap - resident (dsets s) /\
  (mid fs = [] -> free s = cap - resident (dsets s)).
Proof. exact fine_accounting. Qed.

(* (5c) never granted early, whatever is in flight *)
Theorem C08_never_granted_early_in_flight_partial : forall cap ops k size now,
  0 <= cap -> fsafe_run (finit cap) ops = true ->
  let fs := fexec (finit cap) ops in
  forall k', snd (fstep fs (FA (Add k size now))) = RGranted k' ->
    resident (dsets (base fs)) + pending (mid fs) + Z.of_N size <= cap.
Proof. exact fine_add_never_early. Qed.

(* (5d) every step of such a history keeps the invariant (Inv of the store whose capacity is reduced by what is pending) *)
Theorem C08_every_fine_step_keeps_accounting : forall fs o,
  FInv fs -> fsafe fs o = true -> FInv (fst (fstep fs o)) /\ capacity (base (fst (fstep fs o))) = capacity (base fs).
Proof. exact fstep_inv. Qed.

(* ------------------------------------------------------------------ non-vacuity *)
(* capacity 4, three keys: two datasets fill the store, a third allocation waits and triggers a page-out,
   is retried between the halves of the job (still wait) and after it (granted); a get of the paged-out
   dataset first evicts another one, then reserves its space and pages it in (wait twice), then is
   granted; an allocation of 5 is refused, one of 4 waits *)
Definition ex_ops : list op := [
  Add 1%N 2%N 1; Write 1%N [1;2]%N; Close 1%N None; Add 2%N 2%N 2; Write 2%N [3;4]%N; Close 2%N None;
  Add 3%N 2%N 3; JobIo 0%N false; Add 3%N 2%N 4; JobUnlink 0%N; JobCb 0%N; Add 3%N 2%N 5;
  Get 2%N 6 [1%N]; JobIo 1%N false; JobUnlink 1%N; JobCb 1%N; Get 2%N 7 [1%N]; JobIo 2%N false; Get 2%N 8 [1%N]; JobCb 2%N;
  Get 2%N 9 [1%N]; ReadSeg 2%N; Add 4%N 5%N 10; Add 5%N 4%N 11 ].

Example C08_accounting_partial_nonvacuous :
  race_free (init 4) ex_ops = true /\
  (let s := exec (init 4) (firstn 18 ex_ops) in
   free s = 0 /\ resident (dsets s) = 4 /\ List.length (jobs s) = 1%nat /\
   map (fun kd => (fst kd, d_status (snd kd))) (dsets s) = [(1%N, OnDisk); (2%N, PagedIn); (3%N, Created)]) /\
  map fst (fst (run (init 4) ex_ops)) =
    [(RGranted 1%N, 2); (RWrote true, 2); (ROk, 2); (RGranted 2%N, 0); (RWrote true, 0); (ROk, 0);
     (RErr "wait", 0); (RJob true, 0); (RErr "wait", 0); (RJob true, 0); (RJob true, 2); (RGranted 3%N, 0);
     (RErr "wait", 0); (RJob true, 0); (RJob true, 0); (RJob true, 2); (RErr "wait", 0); (RJob true, 0); (RErr "wait", 0);
     (RJob true, 0); (RGot 2%N 2 1, 0); (RBytes (Some [3%N; 4%N]), 0); (RErr "capacity exceeded", 0); (RErr "wait", 0)].
Proof. vm_compute. repeat split; reflexivity. Qed.

Example C08_every_other_step_keeps_accounting_nonvacuous :
  Inv (exec (init 4) (firstn 18 ex_ops)) /\ races (exec (init 4) (firstn 19 ex_ops)) (JobCb 2%N) = false /\
  snd (step (exec (init 4) (firstn 19 ex_ops)) (JobCb 2%N)) = RJob true.
Proof.
  split; [|split; vm_compute; reflexivity].
  apply run_inv; [apply inv_init; discriminate|vm_compute; reflexivity].
Qed.

Example C08_free_space_reported_nonvacuous :
  nth_error (fst (run (init 4) ex_ops)) 16 = Some (RErr "wait", 0, [(PageIn, 2%N, 2%N)]) /\
  nth_error (fst (run (init 4) ex_ops)) 6 = Some (RErr "wait", 0, [(PageOut, 2%N, 0%N)]).
Proof. split; vm_compute; reflexivity. Qed.

Example C08_never_granted_early_partial_nonvacuous :
  race_free (init 4) (firstn 8 ex_ops) = true /\
  (let s := exec (init 4) (firstn 8 ex_ops) in
   resident (dsets s) = 4 /\ snd (step s (Add 3%N 2%N 4)) = RErr "wait" /\ snd (step s (Add 4%N 5%N 4)) = RErr "capacity exceeded") /\
  (let s := exec (init 4) (firstn 11 ex_ops) in
   resident (dsets s) = 2 /\ snd (step s (Add 3%N 2%N 5)) = RGranted 3%N /\ snd (step s (Add 3%N 3%N 5)) = RErr "wait").
Proof. vm_compute. repeat split; reflexivity. Qed.

(* the witness is the history of the finding, and it is exactly the excluded race *)
Example C08_accounting_refuted_witness :
  race_free (init 10) readd_witness = false /\ race_free (init 10) (firstn 9 readd_witness) = true /\
  races (exec (init 10) (firstn 9 readd_witness)) (JobCb 0%N) = true /\
  (let s := exec (init 10) readd_witness in free s = 10 /\ resident (dsets s) = 6).
Proof. vm_compute. repeat split; reflexivity. Qed.

(* configured with 16 on a /dev/shm that offers 10: an allocation of 11 is refused, 8 is granted, another 8 waits *)
Example C08_configured_capacity_nonvacuous :
  configure (Some 16) 10 = 10 /\ configure None 10 = 10 /\ configure (Some 4) 10 = 4 /\
  race_free (start (Some 16) 10) [Add 0%N 11%N 1; Add 1%N 8%N 2; Add 2%N 8%N 3] = true /\
  map fst (fst (run (start (Some 16) 10) [Add 0%N 11%N 1; Add 1%N 8%N 2; Add 2%N 8%N 3])) =
    [(RErr "capacity exceeded", 10); (RGranted 1%N, 2); (RErr "wait", 2)].
Proof. vm_compute. repeat split; reflexivity. Qed.

(* capacity 10: k1 (6) is paged out to make room for k2 (8); its completion callback has set the status and waits for the lock
   (pending 6, free 4) when an allocation of exactly the 4 free bytes is granted; the callback then returns the 6 bytes: free 6.
   Two callbacks of one round in flight together: both credits arrive. *)
Definition ex_fine : list fop := [
  FA (Add 1%N 6%N 1); FA (Write 1%N [1;2;3;4;5;6]%N); FA (Close 1%N None); FA (Add 2%N 8%N 2);
  FA (JobIo 0%N false); FA (JobUnlink 0%N); FCbPart 0%N; FA (Add 3%N 4%N 3); FCbPart 0%N; FA (Add 2%N 8%N 4) ].
Definition ex_fine2 : list fop := [
  FA (Add 1%N 3%N 1); FA (Write 1%N [1;2;3]%N); FA (Close 1%N None); FA (Add 2%N 3%N 2); FA (Write 2%N [4;5;6]%N); FA (Close 2%N None);
  FA (Add 3%N 10%N 3); FA (JobIo 0%N false); FA (JobIo 1%N false); FA (JobUnlink 1%N); FA (JobUnlink 0%N);
  FCbPart 0%N; FCbPart 1%N; FCbPart 0%N; FCbPart 1%N; FA (Add 3%N 10%N 4) ].

Example C08_accounting_with_completions_in_flight_nonvacuous :
  fsafe_run (finit 10) ex_fine = true /\ fsafe_run (finit 10) ex_fine2 = true /\
  (let fs := fexec (finit 10) (firstn 7 ex_fine) in
   pending (mid fs) = 6 /\ free (base fs) = 4 /\ resident (dsets (base fs)) = 0 /\
   snd (fstep fs (FA (Add 3%N 4%N 3))) = RGranted 3%N /\ snd (fstep fs (FA (Add 3%N 5%N 3))) = RErr "wait") /\
  (let fs := fexec (finit 10) (firstn 9 ex_fine) in mid fs = [] /\ free (base fs) = 6 /\ resident (dsets (base fs)) = 4) /\
  map fst (fst (frun (finit 10) ex_fine)) =
    [(RGranted 1%N, 4); (RWrote true, 4); (ROk, 4); (RErr "wait", 4); (RJob true, 4); (RJob true, 4); (RJob true, 4);
     (RGranted 3%N, 0); (RJob true, 6); (RErr "wait", 6)] /\
  (let fs := fexec (finit 10) (firstn 13 ex_fine2) in pending (mid fs) = 6 /\ free (base fs) = 4) /\
  (let fs := fexec (finit 10) ex_fine2 in mid fs = [] /\ free (base fs) = 0 /\ resident (dsets (base fs)) = 10).
Proof. vm_compute. repeat split; reflexivity. Qed.

Example C08_callback_parts_compose_nonvacuous :
  let fs := fexec (finit 10) (firstn 6 ex_fine) in
  lookup 0%N (mid fs) = None /\ (exists jb, find_job 0%N (jobs (base fs)) = Some jb /\ j_phase jb = CbPending true) /\
  cb_finish 3 0%N (fst (cb_part 0%N fs)) = mkF (fst (job_cb 0%N (base fs))) [].
Proof. vm_compute. split; [reflexivity|]. split; [eexists; split; reflexivity|reflexivity]. Qed.

(* the model tells the code from a completion that computes the new free space BEFORE it takes the lock and stores it under the
   lock: the allocation granted in between is forgotten, free space over-reports by its size *)
Definition stale_credit (snapshot : Z) (sz : N) (s : state) : state := count_down (with_free (snapshot + Z.of_N sz) s).
Example C08_credit_is_computed_under_the_lock :
  let fs := fexec (finit 10) (firstn 7 ex_fine) in
  let snapshot := free (base fs) in
  let fs' := fst (fstep fs (FA (Add 3%N 4%N 3))) in
  (let s := base (fst (fstep fs' (FCbPart 0%N))) in free s = 10 - resident (dsets s)) /\
  (let s := stale_credit snapshot 6%N (base fs') in free s = 10 /\ resident (dsets s) = 4).
Proof. vm_compute. repeat split; reflexivity. Qed.

Print Assumptions C08_accounting_partial.
Print Assumptions C08_every_other_step_keeps_accounting.
Print Assumptions C08_free_space_reported.
Print Assumptions C08_never_granted_early_partial.
Print Assumptions C08_accounting_refuted.
Print Assumptions C08_configured_capacity.
Print Assumptions C08_configure_trims.
Print Assumptions C08_callback_parts_compose.
Print Assumptions C08_whole_step_histories_agree.
Print Assumptions C08_accounting_with_completions_in_flight_partial.
Print Assumptions C08_never_granted_early_in_flight_partial.
Print Assumptions C08_every_fine_step_keeps_accounting.
