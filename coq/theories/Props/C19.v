From Coq Require Import List String.
From EKW Require Import Low.Builders Low.BuildersCheck.
