(* C19 -- a job accepted by the builder is well formed and carries the values given.
   Model: Low/Builders.v (TaskBuilder.from_callable / with_values, JobBuilder.with_node /
   with_edge / build of src/cascade/low/builders.py, fix-carrying worktree).
   Every theorem holds for ALL interpretations PyT / evalty / isinst / issub of Python's
   eval, isinstance and issubclass, all node and edge lists, all signatures and values. *)
From Coq Require Import List String Bool ZArith NArith.
From EKW Require Import Low.Builders Low.BuildersProofs Low.BuildersCheck Low.BuilderValues Low.BuilderValuesProofs.
Import ListNotations.
Open Scope string_scope.
Open Scope list_scope.

(* (1) When build accepts, the job is exactly the nodes and edges given, every edge starts
   at an existing output of an existing task and ends at an existing task and, for keyword
   edges, an existing parameter of compatible declared type (edge_wf); every static keyword
   value sits on an existing parameter whose declared type it fits (statics_wf). *)
Theorem C19_accepted_job_wellformed :
  forall PyT evalty isinst issub (b : builder) (j : job),
    build PyT evalty isinst issub b = Ok (inr j) ->
    jtasks j = nodes b /\ jedges j = edges b /\
    Forall (edge_wf PyT evalty issub (jtasks j)) (jedges j) /\
    statics_wf PyT evalty isinst (jtasks j).
Proof. exact build_ok_wellformed. Qed.

(* (2) Otherwise the problems are returned: whenever build returns, it returns a job exactly
   when every static value and every edge is well formed, and a returned list of problems is
   never empty. *)
Theorem C19_problems_returned_otherwise :
  forall PyT evalty isinst issub (b : builder) r,
    build PyT evalty isinst issub b = Ok r ->
    ((exists j, r = inr j) <->
       (statics_wf PyT evalty isinst (nodes b) /\ Forall (edge_wf PyT evalty issub (nodes b)) (edges b))) /\
    (forall errs, r = inl errs -> errs <> []).
Proof. exact build_rejects_iff. Qed.

(* (3) build never raises -- dangling sources, outputs, sinks, parameters, unknown static
   names included -- as long as every declared type is "Any" or resolvable by eval (the
   property's domain: builtin or absent annotations). *)
Theorem C19_build_never_raises :
  forall PyT evalty isinst issub (b : builder),
    types_known PyT evalty (nodes b) -> exists r, build PyT evalty isinst issub b = Ok r.
Proof. exact build_total. Qed.

(* (4) with_values: positional value i is stored under str(i), keyword value under its name,
   every other position / name and the definition are untouched. *)
Theorem C19_values_at_given_positions_and_names :
  forall (t : task) (args : list value) (kwargs : list (string * value)),
    NoDup (map fst kwargs) ->
    let t' := with_values t args kwargs in
    tdf t' = tdf t /\
    (forall i v, nth_error args i = Some v -> lookup (str_of_nat i) (sps t') = Some v) /\
    (forall s, (forall i, i < List.length args -> s <> str_of_nat i) -> lookup s (sps t') = lookup s (sps t)) /\
    (forall k v, In (k, v) kwargs -> lookup k (skw t') = Some v) /\
    (forall k, ~ In k (map fst kwargs) -> lookup k (skw t') = lookup k (skw t)).
Proof. exact with_values_spec. Qed.

(* (5) the job carries the task bound under a name (hence, by (4), its values) whatever
   further operations follow that do not re-bind the name, and every edge ever added. *)
Theorem C19_job_carries_bound_task :
  forall PyT evalty isinst issub (b : builder) n t ops j,
    forallb (fun o => negb (sets_name n o)) ops = true ->
    build PyT evalty isinst issub (fold_left apply_op ops (with_node b n t)) = Ok (inr j) ->
    lookup n (jtasks j) = Some t.
Proof. exact job_carries_node. Qed.

Theorem C19_job_carries_edge :
  forall PyT evalty isinst issub (b : builder) s k i f ops j,
    build PyT evalty isinst issub (fold_left apply_op ops (with_edge b s k i f)) = Ok (inr j) ->
    In (E s f k i) (jedges j).
Proof. exact job_carries_edge. Qed.

(* (6) from_callable: the parameters of the task are exactly the parameters of the signature
   that can be passed by keyword, with their declared types; one output "0". *)
Theorem C19_signature_to_schema :
  forall ps ret t,
    NoDup (map pname ps) -> from_callable ps ret = Ok t ->
    (forall n ty, lookup n (ischema (tdf t)) = Some ty <->
       exists p, In p ps /\ kwable (pkd p) = true /\ pname p = n /\ type2str (pann p) = Ok ty) /\
    (exists rt, type2str ret = Ok rt /\ oschema (tdf t) = [(DEFAULT_OUTPUT, rt)]) /\
    sps t = [].
Proof. exact from_callable_schema. Qed.

(* (7) persistence in the model: deriving further builders never changes one that exists.
   (Builders are values here, so this is structural; for the Python objects it is observed
   by the harness on every generated tree, see ASSUMPTIONS in harness/c19.py.) *)
Theorem C19_earlier_builders_unchanged :
  forall s1 s2 bs bs',
    run_tree bs (s1 ++ s2) = Some bs' ->
    exists bs1, run_tree bs s1 = Some bs1 /\
      forall i, i < List.length bs1 -> nth_error bs' i = nth_error bs1 i.
Proof. exact tree_prefix_stable. Qed.

(* (8) "The value given" is the WHOLE value.  A value is an atom (class, identity) or has parts
   (sequence / mapping / instance with attributes: class and parts); the equalities of (4) and
   (5) are equalities of such values, and the comparison the harness runs on every static it
   observes in a task or a job is that equality. *)
Theorem C19_value_comparison_is_equality : forall a b : value, value_eqb a b = true <-> a = b.
Proof. exact value_eqb_eq. Qed.

(* (9) Values given in one with_values call are still there -- the same values -- after any
   number of further with_values calls on the derived builders, as long as those do not give
   the same keyword / reach the same position again. *)
Theorem C19_values_survive_later_calls :
  forall (t : task) args kwargs (calls : list (list value * list (string * value))),
    NoDup (map fst kwargs) ->
    let t' := fold_left (fun t c => with_values t (fst c) (snd c)) calls (with_values t args kwargs) in
    (forall k v, In (k, v) kwargs -> Forall (fun c => ~ In k (map fst (snd c))) calls -> lookup k (skw t') = Some v) /\
    (forall i v, nth_error args i = Some v -> Forall (fun c => List.length (fst c) <= i) calls ->
                 lookup (str_of_nat i) (sps t') = Some v).
Proof.
  intros t args kwargs calls Hnd t'. unfold t'. rewrite <- chain_id. split.
  - intros k v Hin Hc. now apply chain_keeps_keyword.
  - intros i v Hn Hc. now apply chain_keeps_position.
Qed.

(* (10) with_values derives the new builder by a shallow copy: it is the rebuild that hands every
   value already held on unchanged.  A rebuild that converts the values it holds (a round trip
   through a serialised form, a normalising deep copy) still stores the values of the current
   call as given, but carries the EARLIER values exactly when the conversion leaves each of
   them alone. *)
Theorem C19_with_values_is_shallow_rebuild :
  forall t args kwargs, with_values_via (fun v => v) t args kwargs = with_values t args kwargs.
Proof. exact with_values_via_id. Qed.

Theorem C19_rebuild_carries_earlier_values_iff :
  forall conv (t : task) args kwargs,
    let t' := with_values_via conv t args kwargs in
    ((forall k, ~ In k (map fst kwargs) -> lookup k (skw t') = lookup k (skw t)) <->
     (forall k v, ~ In k (map fst kwargs) -> lookup k (skw t) = Some v -> conv v = v)) /\
    ((forall s, (forall i, i < List.length args -> s <> str_of_nat i) -> lookup s (sps t') = lookup s (sps t)) <->
     (forall s v, (forall i, i < List.length args -> s <> str_of_nat i) -> lookup s (sps t) = Some v -> conv v = v)).
Proof. intros. split; [apply via_carries_keywords_iff|apply via_carries_positions_iff]. Qed.

(* one such conversion: instances with attributes become plain dicts of their attributes; it
   leaves a value alone exactly when no such instance occurs anywhere inside it *)
Theorem C19_flatten_fixes_iff : forall key v, flatten key v = v <-> obj_free v = true.
Proof. exact flatten_fixes_iff. Qed.

(* ------------------------------------------------------------------ non-vacuity *)
Definition ex_src : task := T (TD [] [("0", "bool"); ("1", "str")]) [] [].
Definition ex_snk : task :=
  with_values (T (TD [("x", "int"); ("y", "str")] [("0", "Any")]) [("y", V "str" 6)] [])
              [V "float" 9; V "int" 1] [("y", V "str" 7)].
Definition ex_good : builder :=
  with_edge (with_edge (with_node (with_node empty_builder "a" ex_src) "b" ex_snk) "a" "b" (IntoKw "x") "0")
            "a" "b" (IntoPs 0) "1".
Definition ex_bad : builder :=
  with_edge (with_edge ex_good "a" "ghost" (IntoKw "x") "0") "a" "b" (IntoKw "y") "0".

(* (1): an accepted job with a keyword edge whose compatibility needs issubclass(bool, int),
   a positional edge from a second output, and static values *)
Example C19_accepted_job_wellformed_nonvacuous :
  exists j, c_build ex_good = Ok (inr j) /\ List.length (jedges j) = 2 /\ List.length (jtasks j) = 2.
Proof. eexists. split; [vm_compute; reflexivity|split; reflexivity]. Qed.

(* (2): a description with a dangling sink and a type clash returns two problems *)
Example C19_problems_returned_otherwise_nonvacuous :
  c_build ex_bad = Ok (inl [PSinkTask "ghost"; PIncompat (E "a" "0" "b" (IntoKw "y"))]).
Proof. vm_compute. reflexivity. Qed.

(* (3): the hypothesis holds for that ill-formed description *)
Example C19_build_never_raises_nonvacuous : types_known string c_evalty (nodes ex_bad).
Proof.
  intros n t Hin. cbn in Hin.
  destruct Hin as [E|[E|[]]]; injection E as <- <-; split; intros k ty Hk; cbn in Hk;
    repeat (destruct Hk as [E|Hk]; [injection E as <- <-; first [left; reflexivity|right; eexists; vm_compute; reflexivity]|]);
    destruct Hk.
Qed.

(* (4): positions 0 and 1, a keyword overriding an earlier static *)
Example C19_values_at_given_positions_and_names_nonvacuous :
  NoDup (map fst [("y", V "str" 7)]) /\
  lookup "0" (sps ex_snk) = Some (V "float" 9) /\ lookup "1" (sps ex_snk) = Some (V "int" 1) /\
  lookup "y" (skw ex_snk) = Some (V "str" 7).
Proof. split; [repeat constructor; cbn; tauto|vm_compute; auto]. Qed.

(* (5): the accepted job above was built after two further operations *)
Example C19_job_carries_bound_task_nonvacuous :
  exists j, c_build (fold_left apply_op [OpEdge "a" "b" (IntoKw "x") "0"; OpEdge "a" "b" (IntoPs 0) "1"]
                               (with_node (with_node empty_builder "a" ex_src) "b" ex_snk)) = Ok (inr j) /\
            lookup "b" (jtasks j) = Some ex_snk /\ In (E "a" "0" "b" (IntoKw "x")) (jedges j).
Proof. eexists. split; [vm_compute; reflexivity|split; [reflexivity|left; reflexivity]]. Qed.

(* (6): def f(a, /, x: int, y="s", *args, z: "str" = 1, **kw) -> bool *)
Example C19_signature_to_schema_nonvacuous :
  from_callable [P "a" PosOnly AEmpty None; P "x" PosOrKw (AType "int") None; P "y" PosOrKw AEmpty (Some (V "str" 6));
                 P "args" VarPos AEmpty None; P "z" KwOnly (AStr "str") (Some (V "int" 1)); P "kw" VarKw AEmpty None]
                (AType "bool")
  = Ok (T (TD [("x", "int"); ("y", "Any"); ("z", "str")] [("0", "bool")]) [("y", V "str" 6); ("z", V "int" 1)] []).
Proof. vm_compute. reflexivity. Qed.

(* (7): a tree with a branch *)
Example C19_earlier_builders_unchanged_nonvacuous :
  exists bs, run_tree [empty_builder] ([(0, OpNode "a" ex_src); (1, OpNode "b" ex_snk)] ++
                                       [(1, OpEdge "a" "a" (IntoPs 0) "0"); (2, OpEdge "a" "b" (IntoKw "x") "0")]) = Some bs /\
             List.length bs = 5.
Proof. eexists. split; [vm_compute; reflexivity|reflexivity]. Qed.

(* (8): two values of the same class with different parts; a dict is not the instance it was made from *)
Definition ex_area : value := VObj ODataclass "Area" [("north", V "float" 20); ("south", V "float" 21)].
Definition ex_key (s : string) : value := V s 0.
Example C19_value_comparison_is_equality_nonvacuous :
  value_eqb ex_area ex_area = true /\
  value_eqb ex_area (VObj ODataclass "Area" [("north", V "float" 20); ("south", V "float" 22)]) = false /\
  value_eqb ex_area (flatten ex_key ex_area) = false /\
  value_eqb (VSeq "list" [ex_area]) (VSeq "MyList" [ex_area]) = false.
Proof. vm_compute. auto. Qed.

(* (9): request and area given first, two further calls (a keyword, then a position) *)
Definition ex_retrieve : task := T (TD [("request", "Any"); ("area", "Any"); ("grid", "Any")] [("0", "Any")]) [("grid", V "tuple" 13)] [].
Example C19_values_survive_later_calls_nonvacuous :
  let t' := fold_left (fun t c => with_values t (fst c) (snd c))
                      [([], [("grid", V "tuple" 14)]); ([V "int" 1], [])]
                      (with_values ex_retrieve [] [("request", VObj OPydantic "Req" [("param", V "str" 6)]); ("area", ex_area)]) in
  lookup "area" (skw t') = Some ex_area /\ lookup "grid" (skw t') = Some (V "tuple" 14) /\ lookup "0" (sps t') = Some (V "int" 1).
Proof. vm_compute. auto. Qed.

(* (10): the flattening rebuild stores the new value but hands back the area given earlier as a dict
   (the right-hand side of the equivalence fails for it), while it leaves a list of numbers alone *)
Example C19_rebuild_carries_earlier_values_iff_nonvacuous :
  let t := with_values ex_retrieve [] [("area", ex_area); ("request", VSeq "list" [V "int" 1])] in
  let t' := with_values_via (flatten ex_key) t [] [("grid", V "tuple" 14)] in
  lookup "grid" (skw t') = Some (V "tuple" 14) /\
  lookup "request" (skw t') = lookup "request" (skw t) /\
  lookup "area" (skw t') = Some (VMap "dict" [(V "north" 0, V "float" 20); (V "south" 0, V "float" 21)]) /\
  lookup "area" (skw t) = Some ex_area /\ flatten ex_key ex_area <> ex_area.
Proof. vm_compute. repeat split; auto. discriminate. Qed.

Example C19_flatten_fixes_iff_nonvacuous :
  obj_free (VMap "dict" [(V "str" 1, VSeq "tuple" [V "int" 1; V "ndarray" 2])]) = true /\
  obj_free (VSeq "list" [VMap "dict" [(V "str" 1, ex_area)]]) = false.
Proof. vm_compute. auto. Qed.

Print Assumptions C19_accepted_job_wellformed.
Print Assumptions C19_problems_returned_otherwise.
Print Assumptions C19_build_never_raises.
Print Assumptions C19_values_at_given_positions_and_names.
Print Assumptions C19_job_carries_bound_task.
Print Assumptions C19_job_carries_edge.
Print Assumptions C19_signature_to_schema.
Print Assumptions C19_earlier_builders_unchanged.
Print Assumptions C19_value_comparison_is_equality.
Print Assumptions C19_values_survive_later_calls.
Print Assumptions C19_with_values_is_shallow_rebuild.
Print Assumptions C19_rebuild_carries_earlier_values_iff.
Print Assumptions C19_flatten_fixes_iff.
