From Coq Require Import List NArith ZArith String Bool.
From EKW Require Import Gateway.Router.
Import ListNotations.
Theorem C18_placeholder : True. Proof. exact I. Qed.
Print Assumptions C18_placeholder.
