(* C18 -- the gateway attributes progress/results to the right job and keeps the newest.
   Model: Gateway/Router.v (JobRouter + handle_fe/handle_controller + the dispatch of
   serve, with the `fix:` commit that records last_seen).  A history is any list of events:
   frontend requests and controller reports read from the per-job sockets.
   `run [] pre = (opre, Ok st)` reads: the gateway processed `pre` from its initial state,
   produced the outputs `opre`, and no exception left the loop.
   `handled pre opre` are the reports handle_controller actually received (read from a
   socket that was still registered); `progress_reports j`, `uploads j d` select from them
   by the job id / dataset id *carried by the report*. *)
From Coq Require Import List NArith ZArith String Bool.
From EKW Require Import Gateway.Router Gateway.RouterProofs Gateway.IdSource Gateway.IdSourceProofs.
From EKW Require Import Gateway.Reporter Gateway.ReporterProofs.
From EKW Require Gateway.RouterCheck.   (* not used here: keeps the correspondence checker's .vo in step with the model *)
From EKW Require Gateway.ReporterCheck.
Import ListNotations.
Open Scope string_scope.
Open Scope list_scope.

(* (1) After every history, a JobProgressResponse lists exactly the jobs asked for (all
   tracked jobs for the empty list) and shows for each the status of the FIRST received
   progress report among those with the GREATEST timestamp -- "0.00" if none with a
   timestamp >= 0 was received.  Reports whose status is None or "Shutdown" are not
   progress reports, so a late older report or the shutdown notice never changes it. *)
Theorem C18_progress_is_newest : forall pre opre st ids st' ps,
  run [] pre = (opre, Ok st) ->
  handle_fe st (JobProgressRequest ids) = (st', JobProgressResponse ps None) ->
  st' = st /\
  (forall j, In j (map fst ps) <-> In j (asked st ids)) /\
  forall j p, In (j, p) ps ->
    (p = JobProgressStarted /\ forall x, In x (progress_reports j pre opre) -> (fst x <= -1)%Z) \/
    (exists t l1 l2, progress_reports j pre opre = l1 ++ (t, p) :: l2 /\ (-1 < t)%Z /\
       (forall x, In x l1 -> (fst x < t)%Z) /\ (forall x, In x l2 -> (fst x <= t)%Z)).
Proof. exact progress_response_newest. Qed.

(* (1b) the shutdown notice leaves every job's progress as it was *)
Theorem C18_shutdown_keeps_progress : forall st r st',
  handle_controller st r = Ok st' -> is_shutdown r = true ->
  forall j, option_map progress (jlookup j st') = option_map progress (jlookup j st).
Proof. exact shutdown_keeps_progress. Qed.

(* (1c) a job's socket is read exactly until the first shutdown report naming the job *)
Theorem C18_socket_read_until_shutdown : forall j evs outs st,
  run [] evs = (outs, Ok st) ->
  polled st j = true <-> (jlookup j st <> None /\ shutdowns j evs outs = []).
Proof. exact polled_until_shutdown. Qed.

(* (2) After every history, the answer to a ResultRetrievalRequest for (j, d) is the payload
   of the last upload received for exactly that job and that dataset, byte for byte, and an
   error when there was none (in particular for uploads made for another job or dataset). *)
Theorem C18_results_exact : forall pre opre st j d,
  run [] pre = (opre, Ok st) ->
  handle_fe st (ResultRetrievalRequest j d) =
    (st, match rev (uploads j d pre opre) with
         | b :: _ => ResultRetrievalResponse (Some b) None
         | [] => ResultRetrievalResponse None (Some "KeyError")
         end).
Proof. exact result_response_exact. Qed.

(* (3) Job ids handed out are pairwise distinct over the whole life of the gateway, whatever
   candidates uuid4 produces; each is untracked before and tracked after its submit. *)
Theorem C18_ids_never_reused : forall evs outs fin,
  run [] evs = (outs, fin) -> NoDup (submitted outs).
Proof. intros evs outs fin H. exact (proj1 (run_submitted evs [] outs fin H)). Qed.

Theorem C18_submitted_id_is_fresh : forall pre opre st cands ok st' id err,
  run [] pre = (opre, Ok st) ->
  handle_fe st (SubmitJobRequest cands ok) = (st', SubmitJobResponse (Some id) err) ->
  jlookup id st = None /\ jlookup id st' <> None /\ ~ In id (submitted opre) /\ In id cands.
Proof. exact submit_response_fresh. Qed.

(* (3') Round 5.  What uuid4 yields is a DRAW (a 128-bit value); the id is a rendering of it
   (str(u), u.hex, a prefix ...).  `run_p ch` is the serve loop with the way spawn_job obtains
   the id as a parameter.  Ids are never reused for EVERY policy that hands out the value it
   tested against the table (`sound`) ... *)
Theorem C18_ids_never_reused_any_policy : forall ch, sound ch -> forall evs outs fin,
  run_p ch [] evs = (outs, fin) -> NoDup (submitted outs).
Proof. intros ch Hs evs outs fin H. exact (proj1 (run_p_submitted ch Hs evs [] outs fin H)). Qed.

(* ... in particular for the code as it is (the generator passed to next_uuid renders), with
   ANY rendering, injective or not, and whatever the id source yields ... *)
Theorem C18_ids_never_reused_any_rendering : forall render evs outs fin,
  run_p (choose_rendered render) [] evs = (outs, fin) -> NoDup (submitted outs).
Proof. exact ids_never_reused_any_rendering. Qed.

(* ... which is Router.run on the rendered history: every theorem above applies to it, and
   it is what the correspondence checker (RouterCheck.check_case_r) evaluates ... *)
Theorem C18_rendered_run_is_run : forall render evs st,
  run_p (choose_rendered render) st evs = run st (map (render_event render) evs).
Proof. exact run_p_rendered. Qed.

(* ... and it FAILS for the policy "test the full value, shorten the value next_uuid returned":
   one repeated draw gives the same id twice, the first job's progress and result are gone. *)
Theorem C18_id_rendered_after_the_test_refuted :
  exists evs outs st,
    run_p (choose_post (fun d => d) trunc48) [] evs = (outs, Ok st) /\
    ~ NoDup (submitted outs) /\
    nth_error outs 2 = Some (Resp (JobProgressResponse [(5%N, "40.00")] None)) /\
    nth_error outs 4 = Some (Resp (JobProgressResponse [(5%N, "0.00")] None)) /\
    nth_error outs 5 = Some (Resp (ResultRetrievalResponse None (Some "KeyError"))).
Proof. exact test_then_truncate_refuted. Qed.

(* (4) A request naming an unknown job or dataset gets an error response, the state is
   untouched ... *)
Theorem C18_unknown_is_local_error : forall st,
  (forall ids j, In j ids -> jlookup j st = None ->
     handle_fe st (JobProgressRequest ids) = (st, JobProgressResponse [] (Some "KeyError"))) /\
  (forall j d, (jlookup j st = None \/ exists jb, jlookup j st = Some jb /\ lookup ds_eqb d (results jb) = None) ->
     handle_fe st (ResultRetrievalRequest j d) = (st, ResultRetrievalResponse None (Some "KeyError"))).
Proof. intro st. split; [exact (unknown_job_progress_error st)|exact (unknown_result_error st)]. Qed.

(* ... requests naming only tracked jobs are answered without error ... *)
Theorem C18_known_jobs_answered : forall st ids,
  (forall i, In i (asked st ids) -> jlookup i st <> None) ->
  exists ps, handle_fe st (JobProgressRequest ids) = (st, JobProgressResponse ps None).
Proof. exact known_jobs_answered. Qed.

(* ... and every other event of the history is served exactly as if the (possibly failing)
   query had never been made. *)
Theorem C18_query_is_local : forall pre q post st opre st1 opost fin,
  is_query q = true ->
  run st pre = (opre, Ok st1) -> run st1 post = (opost, fin) ->
  run st (pre ++ post) = (opre ++ opost, fin) /\
  run st (pre ++ Fe q :: post) = (opre ++ Resp (snd (handle_fe st1 q)) :: opost, fin).
Proof. exact query_is_local. Qed.

(* (5) The gateway keeps serving: whatever the interleaving, duplication and reordering of
   requests and of reports arriving on the socket of the job they name (duplicated shutdown
   notices included), no exception leaves the loop and every event gets its output. *)
Theorem C18_never_leaves_loop : forall evs,
  Forall own_socket evs ->
  exists outs st, run [] evs = (outs, Ok st) /\ List.length outs = List.length evs.
Proof. intros evs H. exact (run_own_ok evs [] H). Qed.

(* ------------------------------------------------------------------ non-vacuity *)
(* two jobs (the second id obtained after two uuid collisions), a late older report, a tie,
   a duplicated shutdown, uploads of the same dataset name for both jobs, unknown-id queries *)
Definition d0 : dsid := (7, 8)%N.
Definition ex_pre : list event := [
  Fe (SubmitJobRequest [1%N] true);
  Fe (SubmitJobRequest [1%N; 1%N; 2%N] true);
  Ctl 1%N (mkReport 1%N (Some "50.00") 200 []);
  Ctl 2%N (mkReport 2%N None 5 [(d0, [2%N])]);
  Ctl 1%N (mkReport 1%N (Some "10.00") 100 [(d0, [1%N; 255%N])]);
  Ctl 1%N (mkReport 1%N (Some "51.00") 200 []);
  Ctl 1%N (mkReport 1%N (Some "Shutdown") 300 []);
  Ctl 1%N (mkReport 1%N (Some "Shutdown") 300 []);
  Ctl 1%N (mkReport 1%N (Some "99.00") 400 []);
  Fe (JobProgressRequest [1%N; 3%N])
].
Definition ex_run := run [] ex_pre.

Example C18_progress_is_newest_nonvacuous :
  exists opre st ps,
    ex_run = (opre, Ok st) /\
    handle_fe st (JobProgressRequest []) = (st, JobProgressResponse ps None) /\
    In (1%N, "50.00") ps /\ In (2%N, "0.00") ps /\
    progress_reports 1%N ex_pre opre = [(200%Z, "50.00"); (100%Z, "10.00"); (200%Z, "51.00")].
Proof.
  eexists _, _, _. split; [vm_compute; reflexivity|]. split; [vm_compute; reflexivity|].
  split; [left; reflexivity|]. split; [right; left; reflexivity|]. vm_compute. reflexivity.
Qed.

Example C18_shutdown_keeps_progress_nonvacuous :
  exists st r st', handle_controller st r = Ok st' /\ is_shutdown r = true /\
                   option_map progress (jlookup 1%N st) = Some "50.00".
Proof.
  exists [(1%N, mkJob "50.00" 200 [] true)], (mkReport 1%N (Some "Shutdown") 300 []). eexists.
  split; [vm_compute; reflexivity|]. split; reflexivity.
Qed.

Example C18_socket_read_until_shutdown_nonvacuous :
  exists opre st, ex_run = (opre, Ok st) /\ polled st 1%N = false /\ polled st 2%N = true /\
                  shutdowns 1%N ex_pre opre = [tt] /\ nth_error opre 7 = Some Dropped.
Proof. eexists _, _. repeat split; vm_compute; reflexivity. Qed.

Example C18_results_exact_nonvacuous :
  exists opre st, ex_run = (opre, Ok st) /\
    uploads 1%N d0 ex_pre opre = [[1%N; 255%N]] /\ uploads 2%N d0 ex_pre opre = [[2%N]] /\
    uploads 1%N (8, 7)%N ex_pre opre = [] /\
    handle_fe st (ResultRetrievalRequest 1%N d0) = (st, ResultRetrievalResponse (Some [1%N; 255%N]) None).
Proof. eexists _, _. repeat split; vm_compute; reflexivity. Qed.

Example C18_ids_never_reused_nonvacuous :
  exists opre fin, ex_run = (opre, fin) /\ submitted opre = [1%N; 2%N].
Proof. eexists _, _. split; vm_compute; reflexivity. Qed.

Example C18_ids_never_reused_any_policy_nonvacuous :
  sound (choose_rendered trunc48) /\ sound (choose_post trunc48 (fun c => c)) /\
  exists outs st, run_p (choose_rendered trunc48) [] ex_reuse = (outs, Ok st) /\ submitted outs = [5%N].
Proof.
  split; [exact (rendered_sound trunc48)|]. split; [exact (post_id_sound trunc48)|].
  eexists _, _. split; vm_compute; reflexivity.
Qed.

(* a non-injective rendering, a source that repeats itself and yields look-alikes *)
Example C18_ids_never_reused_any_rendering_nonvacuous :
  exists outs st,
    run_p (choose_rendered trunc48) []
      [Fe (SubmitJobRequest [ex_draw_a] true); Fe (SubmitJobRequest [ex_draw_a; ex_draw_b; 6%N] true);
       Fe (SubmitJobRequest [ex_draw_b; 6%N] true)] = (outs, Ok st) /\
    submitted outs = [5%N; 6%N] /\ trunc48 ex_draw_a = trunc48 ex_draw_b /\ ex_draw_a <> ex_draw_b.
Proof. eexists _, _. repeat split; try (vm_compute; reflexivity). vm_compute. discriminate. Qed.

Example C18_rendered_run_is_run_nonvacuous :
  map (render_event (render_of [(70%N, 1%N); (71%N, 2%N)]))
      [Fe (SubmitJobRequest [70%N; 70%N; 71%N] true); Ctl 1%N (mkReport 1%N None 0 [])]
  = [Fe (SubmitJobRequest [1%N; 1%N; 2%N] true); Ctl 1%N (mkReport 1%N None 0 [])].
Proof. reflexivity. Qed.

Example C18_submitted_id_is_fresh_nonvacuous :
  exists st', handle_fe [(1%N, new_job)] (SubmitJobRequest [1%N; 1%N; 2%N] true) = (st', SubmitJobResponse (Some 2%N) None).
Proof. eexists. vm_compute. reflexivity. Qed.

Example C18_unknown_is_local_error_nonvacuous :
  exists opre st, ex_run = (opre, Ok st) /\ jlookup 3%N st = None /\ jlookup 1%N st <> None /\
    nth_error opre 9 = Some (Resp (JobProgressResponse [] (Some "KeyError"))) /\
    (exists jb, jlookup 2%N st = Some jb /\ lookup ds_eqb (8, 7)%N (results jb) = None).
Proof.
  eexists _, _. split; [vm_compute; reflexivity|]. split; [vm_compute; reflexivity|].
  split; [vm_compute; discriminate|]. split; [vm_compute; reflexivity|].
  eexists. split; vm_compute; reflexivity.
Qed.

Example C18_known_jobs_answered_nonvacuous :
  exists opre st, ex_run = (opre, Ok st) /\ forall i, In i (asked st [2%N; 1%N; 2%N]) -> jlookup i st <> None.
Proof.
  eexists _, _. split; [vm_compute; reflexivity|].
  intros i [H|[H|[H|[]]]]; subst i; vm_compute; discriminate.
Qed.

Example C18_query_is_local_nonvacuous :
  is_query (JobProgressRequest [3%N]) = true /\ is_query (ResultRetrievalRequest 3%N d0) = true /\
  exists opre st1, run [] (firstn 5 ex_pre) = (opre, Ok st1) /\ exists opost fin, run st1 (skipn 5 ex_pre) = (opost, fin).
Proof. split; [reflexivity|]. split; [reflexivity|]. eexists _, _. split; [vm_compute; reflexivity|]. eexists _, _. vm_compute. reflexivity. Qed.

Example C18_never_leaves_loop_nonvacuous : Forall own_socket ex_pre /\ List.length ex_pre = 10%nat.
Proof. split; [|reflexivity]. repeat constructor. Qed.

(* (1') Round 6.  The producer of the reports is the controller's Reporter (Gateway/Reporter.v).  A send_progress call of
   the code as it is puts one progress item on the wire: the status, stamped with the reading of the controller's clock AT
   THE CALL and with the job the Reporter was made for ... *)
Theorem C18_reporter_stamps_at_the_call : forall j now p,
  p <> JobProgressShutdown ->
  prog_of (emit j now (SendProgress p)) = [(now, p)] /\ r_job (emit j now (SendProgress p)) = j /\
  forall calls r, In r (reporter j calls) -> r_job r = j.
Proof.
  intros j now p Hp. split; [exact (reporter_progress_item j now p Hp)|]. split; [reflexivity|].
  intros calls r H. exact (reporter_with_job _ j calls r H).
Qed.

(* ... so that, whatever the network did (order, repeats, omissions), the gateway shows a RECEIVED report than which no
   received one was sent later ... *)
Theorem C18_shown_is_a_newest_received : forall j evs outs st jb,
  run [] evs = (outs, Ok st) -> jlookup j st = Some jb ->
  progress_reports j evs outs <> [] ->
  (forall x, In x (progress_reports j evs outs) -> (-1 < fst x)%Z) ->
  In (last_seen jb, progress jb) (progress_reports j evs outs) /\
  forall x, In x (progress_reports j evs outs) -> (fst x <= last_seen jb)%Z.
Proof. exact shown_is_a_newest_received. Qed.

(* ... and, when the clock moved between the calls, exactly the one sent last among the received *)
Theorem C18_shown_is_the_last_sent : forall j evs outs st jb,
  run [] evs = (outs, Ok st) -> jlookup j st = Some jb ->
  progress_reports j evs outs <> [] ->
  (forall x, In x (progress_reports j evs outs) -> (-1 < fst x)%Z) ->
  (forall x y, In x (progress_reports j evs outs) -> In y (progress_reports j evs outs) -> fst x = fst y -> x = y) ->
  In (last_seen jb, progress jb) (progress_reports j evs outs) /\
  forall x, In x (progress_reports j evs outs) -> x <> (last_seen jb, progress jb) -> (fst x < last_seen jb)%Z.
Proof. exact shown_is_the_last_sent. Qed.

(* A Reporter whose timestamp is evaluated once (a default argument, a value kept from construction) breaks the property
   although the gateway is unchanged: every report carries the same stamp (frozen_items_same_stamp), the gateway shows the
   first progress report it received for ever. *)
Theorem C18_stamp_evaluated_once_refuted : exists t0 calls picks,
  shows "100.00" (demo (reporter 7%N calls) picks) = true /\
  shows "25.00" (demo (reporter_frozen t0 7%N calls) picks) = true /\
  forall r x, In r (reporter_frozen t0 7%N calls) -> In x (prog_of r) -> fst x = t0.
Proof.
  destruct frozen_stamp_refuted as (t0 & calls & picks & H1 & H2). exists t0, calls, picks.
  split; [exact H1|]. split; [exact H2|]. intros r x. exact (frozen_items_same_stamp t0 7%N calls r x).
Qed.

Definition ex_rep_evs : list event :=
  Fe (SubmitJobRequest [7%N] true) :: deliveries 7%N (reporter 7%N demo_calls) [3; 0; 1; 0]%nat.

Example C18_shown_is_the_last_sent_nonvacuous :
  exists outs st jb,
    run [] ex_rep_evs = (outs, Ok st) /\ jlookup 7%N st = Some jb /\
    progress_reports 7%N ex_rep_evs outs = [(3000%Z, "100.00"); (1000%Z, "25.00"); (2000%Z, "50.00"); (1000%Z, "25.00")] /\
    (last_seen jb, progress jb) = (3000%Z, "100.00").
Proof.
  eexists _, _, _. split; [vm_compute; reflexivity|]. split; [vm_compute; reflexivity|]. split; vm_compute; reflexivity.
Qed.

Example C18_reporter_stamps_at_the_call_nonvacuous :
  map prog_of (reporter 7%N demo_calls) = [[(1000%Z, "25.00")]; [(2000%Z, "50.00")]; []; [(3000%Z, "100.00")]; []].
Proof. vm_compute. reflexivity. Qed.


Print Assumptions C18_progress_is_newest.
Print Assumptions C18_shutdown_keeps_progress.
Print Assumptions C18_socket_read_until_shutdown.
Print Assumptions C18_results_exact.
Print Assumptions C18_ids_never_reused.
Print Assumptions C18_submitted_id_is_fresh.
Print Assumptions C18_ids_never_reused_any_policy.
Print Assumptions C18_ids_never_reused_any_rendering.
Print Assumptions C18_rendered_run_is_run.
Print Assumptions C18_id_rendered_after_the_test_refuted.
Print Assumptions C18_unknown_is_local_error.
Print Assumptions C18_known_jobs_answered.
Print Assumptions C18_query_is_local.
Print Assumptions C18_never_leaves_loop.
Print Assumptions C18_reporter_stamps_at_the_call.
Print Assumptions C18_shown_is_a_newest_received.
Print Assumptions C18_shown_is_the_last_sent.
Print Assumptions C18_stamp_evaluated_once_refuted.
