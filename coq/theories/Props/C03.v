(* C03 -- a feasible job always completes: no deadlock, livelock or scheduler crash.
   Model and invariant: Sched/Model.v, Sched/Inv*.v (as C02/C04); progress: Sched/Progress.v,
   Sched/Rounds.v; the assignment heuristic (scheduler.api.assign, assign_within_component,
   _assignment_heuristic, migration of hosts between components): Sched/Heur.v, proved in
   Sched/HeurProofs.v / HeurEnabled.v / ProgressFull.v.
   Proved at full strength: the controller never raises (for any schedule and event order, also when
   its assignments are the ones the heuristic computes, the heuristic's own lookups included);
   deadlock freedom (whenever the heuristic-driven controller is about to wait, something is
   outstanding) for every reachable state, every tie-break/distance oracle; "a round with a true guard
   waits" and completeness at exit when each task's publications are delivered in order; the number of
   events, hence of waiting rounds, is bounded.  Hypotheses are about the INPUT only: the job is a DAG
   over its own tasks (wf_job, wf_dag), the preschedule's components partition it and are closed under
   its edges (wf_comps: decidable, checked on every recorded run; C16 proves it of precompute), the
   cluster is feasible (a worker exists; a GPU worker if a task needs one).  The two theorems named
   _partial are the older statements relative to the observable predicate [assign_progress]; they are
   kept because the trace replay validates that predicate on every recorded round as well.
   Two genuine defects of the unchanged code are recorded as _refuted (out-of-order delivery of one
   task's publications; a requested output whose value is None). *)
From stdpp Require Import gmap.
From Coq Require Import NArith String.
From EKW Require Import Sched.Model Sched.Inv Sched.InvInit Sched.Safety Sched.Progress Sched.Rounds Sched.Bound Sched.Example Sched.WfDec.
From EKW Require Import Sched.Heur Sched.HeurProofs Sched.HeurEnabled Sched.ProgressFull.
From EKW Require Sched.Replay.
Local Open Scope N_scope.

(* the controller never raises from its own bookkeeping (KeyError, "not found in any host",
   "double add", "removal from ongoing impossible", malformed event), nor asks the cluster for
   anything impossible -- for every job, cluster, schedule and event interleaving *)
Theorem C03_never_raises : ∀ J E ls, wf_job J →
  (∀ e, run J E (init J E) ls ≠ Crash e) ∧ (∀ e, run J E (init J E) ls ≠ Fail e).
Proof. intros J E ls Hwf. exact (never_crash_never_fail J E Hwf ls). Qed.

(* deadlock freedom: when the controller is about to wait (queues flushed), something is
   outstanding: an undelivered event, an unanswered transfer or fetch, or a worker able to run *)
Theorem C03_wait_implies_outstanding_partial : ∀ J E rank ls s css,
  wf_job J → wf_dag J rank → (∀ d, d ∈ j_ext J → d ∉ j_none J) →
  run J E (init J E) ls = Next (s, css) →
  fqueue (ctl s) = ∅ → assign_progress (ctl s) → has_awaitable J (ctl s) = true →
  outstanding J E s.
Proof.
  intros J E rank ls s css Hwf Hdag Hnone Hr.
  exact (wait_implies_outstanding J E Hwf rank s Hdag Hnone (reachable_inv J E Hwf ls s css Hr)).
Qed.

(* no spin: a loop iteration entered with a true guard (something computable or awaitable)
   reaches the wait after  assign* ; plan ; flush *)
Theorem C03_round_waits_partial : ∀ J E s asg s2, wf_job J →
  has_computable (ctl s) || has_awaitable J (ctl s) = true →
  ctl_phase J E s asg = Next s2 → assign_progress (ctl s2) → has_awaitable J (ctl s2) = true.
Proof. intros J E s asg s2 Hwf. exact (round_waits J E Hwf s asg s2). Qed.

(* when the loop guard turns false (the controller exits and shuts the executors down), every
   task has completed, was dispatched, and every requested output holds its value -- provided each
   task's publications reached the controller in the order they were made *)
Theorem C03_exit_complete : ∀ J E rank ls s,
  wf_job J → wf_dag J rank → run_io J E (init J E) ls = Next s →
  has_computable (ctl s) = false → has_awaitable J (ctl s) = false →
  (∀ t, is_task J t → t ∈ completed (ctl s) ∧ t ∈ finished s ∧ t ∈ (dispatched s).*2) ∧
  (∀ d, d ∈ j_ext J → ∃ v, outputs (ctl s) !! d = Some (Some v) ∧ Some v = payload_of J d).
Proof.
  intros J E rank ls s Hwf Hdag Hr.
  destruct (run_io_inv_inorder J E Hwf ls _ _ (inv_init J E) (inorder_init J E Hwf) Hr) as [Hinv Hio].
  exact (exit_complete J E Hwf rank s Hdag Hinv Hio).
Qed.

(* ---- the same with the assignment heuristic modelled instead of assumed ---------------------- *)

(* the heuristic-driven controller x cluster system never raises: neither the bookkeeping of Model.v
   nor the heuristic's own lookups (host2component, components, ts2component) *)
Theorem C03_never_raises_heuristic : ∀ J E K hls, wf_job J → wf_comps J K →
  (∀ e, hrun J E (init J E, hinit J E K) hls ≠ Crash e) ∧ (∀ e, hrun J E (init J E, hinit J E K) hls ≠ Fail e).
Proof. intros J E K hls Hwf Hwk. exact (never_raises_full J E K Hwf Hwk hls). Qed.

(* deadlock freedom, no hypothesis on the heuristic: in ANY reachable state, for ANY oracle (set/dict
   iteration orders, distance and overhead tables, tie-breaks), after  assign* ; plan ; flush  a
   controller that waits has something to wait for *)
Theorem C03_wait_implies_outstanding : ∀ J E K rank hls s hs o srcs s1 hs1 s2 cs,
  wf_job J → wf_comps J K → feasible J E → wf_dag J rank → (∀ d, d ∈ j_ext J → d ∉ j_none J) →
  hrun J E (init J E, hinit J E K) hls = Next (s, hs) →
  hexec J E (s, hs) (HAssign o srcs) = Next (s1, hs1) →
  exec J E s1 LFlush = Next (s2, cs) →
  has_awaitable J (ctl s2) = true → outstanding J E s2.
Proof.
  intros J E K rank hls s hs o srcs s1 hs1 s2 cs Hwf Hwk Hfe.
  exact (wait_implies_outstanding_full J E K Hwf Hwk Hfe rank hls s hs o srcs s1 hs1 s2 cs).
Qed.

(* and that round can always be taken: the pairs the heuristic computes are admissible when their
   turn comes, so the hypotheses above are never vacuous *)
Theorem C03_round_exists : ∀ J E K hls s hs o, wf_job J → wf_comps J K →
  hrun J E (init J E, hinit J E K) hls = Next (s, hs) →
  ∃ srcs s1 hs1 s2 cs, hexec J E (s, hs) (HAssign o srcs) = Next (s1, hs1) ∧ exec J E s1 LFlush = Next (s2, cs).
Proof. intros J E K hls s hs o Hwf Hwk. exact (round_exists J E K Hwf Hwk hls s hs o). Qed.

(* no spin (publications of a task delivered in order): a loop iteration entered with a true guard
   ends up waiting *)
Theorem C03_round_waits : ∀ J E K rank hls s hs o srcs s1 hs1 s2 cs,
  wf_job J → wf_comps J K → feasible J E → wf_dag J rank →
  hrun_io J E (init J E, hinit J E K) hls = Next (s, hs) →
  has_computable (ctl s) || has_awaitable J (ctl s) = true →
  hexec J E (s, hs) (HAssign o srcs) = Next (s1, hs1) → exec J E s1 LFlush = Next (s2, cs) →
  has_awaitable J (ctl s2) = true.
Proof.
  intros J E K rank hls s hs o srcs s1 hs1 s2 cs Hwf Hwk Hfe.
  exact (round_waits_full J E K Hwf Hwk Hfe rank hls s hs o srcs s1 hs1 s2 cs).
Qed.

(* the observable predicate of the two _partial theorems is a theorem of the modelled heuristic *)
Theorem C03_assign_progress : ∀ J E K rank hls s hs o srcs s1 hs1,
  wf_job J → wf_comps J K → feasible J E → wf_dag J rank →
  hrun_io J E (init J E, hinit J E K) hls = Next (s, hs) →
  hexec J E (s, hs) (HAssign o srcs) = Next (s1, hs1) → assign_progress (ctl s1).
Proof.
  intros J E K rank hls s hs o srcs s1 hs1 Hwf Hwk Hfe.
  exact (assign_progress_full J E K Hwf Hwk Hfe rank hls s hs o srcs s1 hs1).
Qed.

(* bounded: over any run, under any schedule and event order, the controller is handed at most
   |outputs of the job| + |consumed datasets| x |hosts| + |requested outputs| events; every
   waiting round consumes at least one, so the number of waiting rounds has the same bound
   (and by C03_round_waits_partial every round with a true guard waits) *)
Theorem C03_events_bounded : ∀ J E ls s css,
  wf_job J → run J E (init J E) ls = Next (s, css) → (deliveries ls ≤ event_bound J E)%nat.
Proof. intros J E ls s css Hwf. exact (deliveries_bounded J E Hwf ls s css). Qed.

(* --- genuine defects of the unchanged code (open findings) ------------------------------- *)

(* task 0 has two outputs, task 1 consumes the first; the completion-carrying publication (0,1)
   overtakes (0,0): the guard turns false with task 1 never dispatched and an event undelivered *)
Definition roJ : job := {| j_ins := list_to_map [(0, ∅); (1, {[(0, 0)]})]; j_nout := list_to_map [(0, 2); (1, 1)];
                           j_gpu := ∅; j_ext := ∅; j_none := ∅ |}.
Definition roE : env := {| e_host := list_to_map [(0, 0)]; e_gpu := ∅ |}.
Definition ro_labels : list label := [LAssign 0 0 ∅; LFlush; LPublish 0 0; LPublish 0 1; LDeliver (EPub 0 (0, 1))].

Theorem C03_reordered_publications_refuted :
  wf_job roJ ∧ wf_dag roJ (λ t, N.to_nat t) ∧
  match run roJ roE (init roJ roE) ro_labels with
  | Next (s, _) => negb (has_computable (ctl s)) && negb (has_awaitable roJ (ctl s))
                   && bool_decide (1 ∉ (dispatched s).*2) && bool_decide (pool s = [EPub 0 (0, 0)])
  | _ => false
  end = true.
Proof.
  split; [apply wf_job_dec_sound; vm_compute; reflexivity|]. split; [|vm_compute; reflexivity].
  apply wf_dag_dec_sound. vm_compute. reflexivity.
Qed.

(* a requested output whose value is Python's None: fetched, delivered, and the controller
   still waits, with nothing outstanding anywhere *)
Definition noJ : job := {| j_ins := list_to_map [(0, ∅)]; j_nout := list_to_map [(0, 1)];
                           j_gpu := ∅; j_ext := {[(0, 0)]}; j_none := {[(0, 0)]} |}.
Definition no_labels : list label :=
  [LAssign 0 0 ∅; LFlush; LPublish 0 0; LDeliver (EPub 0 (0, 0)); LFlush; LFetch ((0, 0), 0); LDeliver (EPay (0, 0) None); LFlush].

Theorem C03_none_valued_output_refuted :
  match run noJ roE (init noJ roE) no_labels with
  | Next (s, _) => has_awaitable noJ (ctl s) && bool_decide (pool s = []) && bool_decide (xfers s = [])
                   && bool_decide (fetches s = []) && bool_decide (wq s = ∅) && bool_decide (fqueue (ctl s) = ∅)
  | _ => false
  end = true.
Proof. vm_compute. reflexivity. Qed.

(* non-vacuity: the example run of C02 ends with the guard still true (output (2,0) being
   fetched), in a state where the wait is justified by an outstanding fetch; continuing it
   in order reaches the exit with everything completed *)
Example C03_nonvacuous :
  match run_io exJ exE (init exJ exE) (ex_labels ++ [LFetch ((2, 0), 0); LDeliver (EPay (2, 0) (Some (2, 0)));
                                                     LPurge (0, (0, 0)); LFlush]) with
  | Next s => negb (has_computable (ctl s)) && negb (has_awaitable exJ (ctl s))
              && bool_decide (completed (ctl s) = {[0; 1; 2]})
  | _ => false
  end = true.
Proof. vm_compute. reflexivity. Qed.

(* non-vacuity of the heuristic-driven statements: Sched/ProgressFull.v progress_full_nonvacuous *)
Example C03_heuristic_nonvacuous := progress_full_nonvacuous.

Print Assumptions C03_never_raises.
Print Assumptions C03_never_raises_heuristic.
Print Assumptions C03_wait_implies_outstanding.
Print Assumptions C03_round_exists.
Print Assumptions C03_round_waits.
Print Assumptions C03_assign_progress.
Print Assumptions C03_wait_implies_outstanding_partial.
Print Assumptions C03_round_waits_partial.
Print Assumptions C03_exit_complete.
Print Assumptions C03_events_bounded.
Print Assumptions C03_reordered_publications_refuted.
Print Assumptions C03_none_valued_output_refuted.
