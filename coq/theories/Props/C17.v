(* C17 -- every wire and file encoding round-trips over its whole value domain.
   Part (a): the shared-memory protocol.  The class layouts and the tag table are
   regenerated from /repo/src/cascade/shm/api.py on every run (EKWgen.ShmLayouts);
   the generic theorems of Shm.CodecProofs are instantiated on that table here. *)
From Coq Require Import List NArith ZArith String Bool.
From EKW Require Import Shm.Codec Shm.CodecProofs.
From EKWgen Require Import ShmLayouts.
Import ListNotations.
Open Scope string_scope.

(* fields that carry a byte count: dataset List.length and free space *)
Definition size_field_names : list string := ["l"; "free_space"].

(* the regenerated table is well formed: ser and deser agree field by field, tags and
   names are distinct, every message class of the module has a tag, and every size
   field is at least 8 bytes wide *)
Definition generated_table_ok : bool :=
  wf_table shm_table
  && forallb (fun c => existsb (fun p => String.eqb (cname (snd p)) (cname c)) shm_table) shm_message_classes
  && forallb (fun p => size_fields_wide size_field_names (snd p)) shm_table.

Theorem C17_generated_table_ok : generated_table_ok = true.
Proof. vm_compute. reflexivity. Qed.

(* every shm message, for every field value in its domain (all ASCII strings shorter
   than 2^32, all integers below 256^width, all enum members), decodes to itself, even
   when followed by junk (UDP buffer) *)
Theorem C17_shm_roundtrip : forall t c m,
  In (t, c) shm_table -> shaped (cser c) m = true ->
  exists bs, ser shm_table c m = Ok bs /\ forall junk, deser shm_table (bs ++ junk) = Ok (cname c, m).
Proof.
  intros t c m Hin Hs. apply message_roundtrip with (t := t); [|exact Hin|exact Hs].
  pose proof C17_generated_table_ok as H. unfold generated_table_ok in H.
  apply andb_prop in H as [H _]. apply andb_prop in H as [H _]. exact H.
Qed.

(* sizes: every size field admits every value below 2^64 *)
Theorem C17_sizes_up_to_2_64 : forall t c f k z,
  In (t, c) shm_table -> In (f, k) (cser c) -> In f size_field_names ->
  (0 <= z < 2 ^ 64)%Z -> in_domain k (VInt z) = true.
Proof.
  intros t c f k z Hin Hf Hsz Hz.
  pose proof C17_generated_table_ok as H. unfold generated_table_ok in H.
  apply andb_prop in H as [_ H]. rewrite forallb_forall in H. specialize (H _ Hin).
  exact (size_fields_wide_spec _ _ _ _ _ H Hf Hsz Hz).
Qed.

(* a value outside the admitted domain is rejected when encoding, never truncated *)
Theorem C17_out_of_domain_rejected : forall t c m,
  In (t, c) shm_table -> map fst m = map fst (cser c) -> shaped (cser c) m = false ->
  exists e, ser shm_table c m = Err e.
Proof.
  intros t c m Hin Hn Hs. apply message_out_of_domain_rejected; [|exact Hn|exact Hs].
  pose proof C17_generated_table_ok as H. unfold generated_table_ok in H.
  apply andb_prop in H as [H _]. apply andb_prop in H as [H _]. unfold wf_table in H.
  apply andb_prop in H as [H _]. apply andb_prop in H as [H _].
  rewrite forallb_forall in H. specialize (H _ Hin). simpl in H. apply andb_prop in H as [H _]. exact H.
Qed.

(* non-vacuity: a concrete in-domain message of the widest class with a 5 GiB size *)
Example C17_nonvacuous :
  exists t c, In (t, c) shm_table /\
    shaped (cser c) [("l", VInt 5368709120%Z); ("deser_fun", VStr [102; 111; 111]%N); ("key", VStr [107]%N)] = true.
Proof. exists 3%N, c_AllocateRequest. split; [vm_compute; tauto | vm_compute; reflexivity]. Qed.

Print Assumptions C17_generated_table_ok.
Print Assumptions C17_shm_roundtrip.
Print Assumptions C17_sizes_up_to_2_64.
Print Assumptions C17_out_of_domain_rejected.
