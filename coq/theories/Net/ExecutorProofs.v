(* C05 -- proofs over Net/Executor.v.  All statements are for every state / message list /
   event history; no size bounds. *)
From Coq Require Import List ZArith Bool Arith Lia.
From EKW Require Import Net.Executor.
Import ListNotations.

(* ------------------------------------------------------------------ small facts *)
Lemma reap_not_alive : forall c, is_alive (reap c) = false.
Proof. destruct c; reflexivity. Qed.

Lemma forallb_map_reap : forall ws : list (nat * cstat),
  forallb (fun p => negb (is_alive (snd p))) (map (fun p => (fst p, reap (snd p))) ws) = true.
Proof.
  induction ws as [|[w c] r IH]; [reflexivity|]. cbn [map forallb fst snd]. rewrite reap_not_alive. exact IH.
Qed.

Lemma existsb_app_l {A} (f : A -> bool) l1 l2 : existsb f l1 = true -> existsb f (l1 ++ l2) = true.
Proof. rewrite existsb_app. intros ->. reflexivity. Qed.

Lemma existsb_app_r {A} (f : A -> bool) l1 l2 : existsb f l2 = true -> existsb f (l1 ++ l2) = true.
Proof. rewrite existsb_app. intros ->. apply orb_true_r. Qed.

(* ------------------------------------------------------------------ terminate *)
Lemma terminate_terminating : forall e, terminating (fst (terminate e)) = true.
Proof. intros e. unfold terminate. destruct (terminating e) eqn:T; [exact T | reflexivity]. Qed.

Theorem terminate_no_live_child : forall e,
  terminating e = false -> no_live_child (fst (terminate e)) = true.
Proof.
  intros e T. unfold terminate. rewrite T. unfold no_live_child. cbn [fst workers shm ds].
  rewrite forallb_map_reap.
  destruct (is_alive (shm e)) eqn:S, (is_alive (ds e)) eqn:D; cbn; rewrite ?S, ?D; reflexivity.
Qed.

Theorem terminate_idempotent : forall e,
  terminate (fst (terminate e)) = (fst (terminate e), []).
Proof.
  intros e. pose proof (terminate_terminating e) as H. unfold terminate at 1. rewrite H. reflexivity.
Qed.

Theorem terminate_covers_children : forall e, terminating e = false ->
  (forall w c, In (w, c) (workers e) -> started c = true -> In (ToWorker w WShutdown) (snd (terminate e))) /\
  (forall w, In (w, Stuck) (workers e) -> In (KillWorker w) (snd (terminate e))) /\
  (is_alive (shm e) = true -> In ShmShutdown (snd (terminate e))) /\
  (is_alive (ds e) = true -> In KillDs (snd (terminate e))).
Proof.
  intros e T. unfold terminate. rewrite T. cbn [snd]. repeat split.
  - intros w c Hin Hs. apply in_or_app. left. unfold shutdown_msgs. apply in_flat_map.
    exists (w, c). split; [exact Hin|]. cbn [fst snd]. rewrite Hs. left. reflexivity.
  - intros w Hin. apply in_or_app. right. apply in_or_app. left. unfold kill_acts. apply in_flat_map.
    exists (w, Stuck). split; [exact Hin|]. left. reflexivity.
  - intros H. rewrite H. apply in_or_app. right. apply in_or_app. right. apply in_or_app. left. left. reflexivity.
  - intros H. rewrite H. apply in_or_app. right. apply in_or_app. right. apply in_or_app. right. left. reflexivity.
Qed.

(* the terminate actions never contain a report to the controller *)
Lemma terminate_no_toctl : forall e, existsb terminal (snd (terminate e)) = false.
Proof.
  intros e. unfold terminate. destruct (terminating e); [reflexivity|]. cbn [snd].
  rewrite !existsb_app.
  assert (A : existsb terminal (shutdown_msgs (workers e)) = false).
  { unfold shutdown_msgs. generalize (workers e). intros ws. induction ws as [|[w c] r IH]; [reflexivity|].
    cbn [flat_map fst snd]. rewrite existsb_app, IH. destruct (started c); reflexivity. }
  assert (B : existsb terminal (kill_acts (workers e)) = false).
  { unfold kill_acts. generalize (workers e). intros ws. induction ws as [|[w c] r IH]; [reflexivity|].
    cbn [flat_map fst snd]. rewrite existsb_app, IH. destruct c; reflexivity. }
  rewrite A, B. destruct (is_alive (shm e)), (is_alive (ds e)); reflexivity.
Qed.

Lemma terminate_segs : forall e, terminating e = false ->
  is_alive (shm e) = true \/ segs e = [] -> segs (fst (terminate e)) = [].
Proof.
  intros e T H. unfold terminate. rewrite T. cbn [fst segs].
  destruct (is_alive (shm e)); [reflexivity|]. destruct H as [H|H]; [discriminate|exact H].
Qed.

(* ------------------------------------------------------------------ the loop body *)
Definition same_children (e e' : exec) : Prop :=
  workers e' = workers e /\ shm e' = shm e /\ ds e' = ds e /\ terminating e' = terminating e /\ segs e' = segs e.

Lemma same_children_refl e : same_children e e.
Proof. repeat split. Qed.

Lemma same_children_set_datasets d e : same_children e (set_datasets d e).
Proof. repeat split. Qed.

Lemma same_children_trans a b c : same_children a b -> same_children b c -> same_children a c.
Proof. unfold same_children. intros (A1&A2&A3&A4&A5) (B1&B2&B3&B4&B5). repeat split; congruence. Qed.

(* what `handle` can do: either it left the children alone, or it met ExecutorShutdown and tore down *)
Lemma handle_spec : forall ms e e1 a1 o, terminating e = false -> handle e ms = (e1, a1, o) ->
  match o with
  | Broke => terminating e1 = true /\ no_live_child e1 = true /\ In (ToCtl CExit) a1 /\ In MShutdown ms
             /\ (is_alive (shm e) = true \/ segs e = [] -> segs e1 = [])
  | _ => same_children e e1
  end.
Proof.
  induction ms as [|m r IH]; intros e e1 a1 o T H.
  - cbn in H. inversion H; subst. apply same_children_refl.
  - cbn [handle] in H.
    assert (K : forall e' a, same_children e e' -> (let '(e2, a2, o0) := handle e' r in (e2, a ++ a2, o0)) = (e1, a1, o) ->
              match o with
              | Broke => terminating e1 = true /\ no_live_child e1 = true /\ In (ToCtl CExit) a1 /\ In MShutdown (m :: r)
                         /\ (is_alive (shm e) = true \/ segs e = [] -> segs e1 = [])
              | _ => same_children e e1 end).
    { intros e' a S H'. destruct (handle e' r) as [[e2 a2] o0] eqn:Hh. inversion H'; subst.
      assert (T' : terminating e' = false) by (destruct S as (_&_&_&S4&_); congruence).
      specialize (IH _ _ _ _ T' Hh). destruct o.
      - eapply same_children_trans; eauto.
      - destruct IH as (I1&I2&I3&I4&I5). repeat split; auto.
        + apply in_or_app. right. exact I3.
        + right. exact I4.
        + intros Hs. apply I5. destruct S as (_&S2&_&_&S5). rewrite S2, S5. exact Hs.
      - eapply same_children_trans; eauto. }
    destruct m.
    + destruct (lookup w (workers e)) as [[| | |z]|].
      * inversion H; subst. apply same_children_refl.
      * apply (K e _ (same_children_refl e) H).
      * apply (K e _ (same_children_refl e) H).
      * inversion H; subst. apply same_children_refl.
      * inversion H; subst. apply same_children_refl.
    + apply (K e _ (same_children_refl e) H).
    + destruct (mem d (datasets e)).
      * apply (K _ _ (same_children_set_datasets _ e) H).
      * apply (K e _ (same_children_refl e) H).
    + destruct (terminate e) as [e' a] eqn:Ht. inversion H; subst.
      pose proof (terminate_terminating e) as A. pose proof (terminate_no_live_child e T) as B.
      pose proof (terminate_segs e T) as C. rewrite Ht in A, B, C. cbn [fst] in A, B, C.
      repeat split; auto. left. reflexivity. left. reflexivity.
    + apply (K e _ (same_children_refl e) H).
    + apply (K _ _ (same_children_set_datasets _ e) H).
    + apply (K e _ (same_children_refl e) H).
    + inversion H; subst. apply same_children_refl.
Qed.

Lemma child_dead_healthcheck : forall e, terminating e = false -> child_dead e = true ->
  exists f, healthcheck e = Some f.
Proof.
  intros e T D. unfold healthcheck. rewrite T. unfold child_dead in D.
  destruct (first_bad_worker (workers e)) eqn:F; [eauto|].
  assert (W : existsb (fun p => match snd p with NotStarted | Exited _ => true | _ => false end) (workers e) = false).
  { clear D. induction (workers e) as [|[w c] r IH]; [reflexivity|]. cbn [existsb snd].
    destruct c; cbn in F; try discriminate; cbn; apply IH; exact F. }
  rewrite W in D. cbn in D.
  destruct (shm e) eqn:S; cbn in *; eauto; destruct (ds e) eqn:Dd; cbn in *; eauto; discriminate.
Qed.

Lemma healthcheck_child_dead : forall e f, healthcheck e = Some f -> terminating e = false /\ child_dead e = true.
Proof.
  intros e f H. unfold healthcheck in H. destruct (terminating e) eqn:T; [discriminate|]. split; [reflexivity|].
  unfold child_dead. destruct (first_bad_worker (workers e)) eqn:F.
  - assert (W : existsb (fun p => match snd p with NotStarted | Exited _ => true | _ => false end) (workers e) = true).
    { clear H. induction (workers e) as [|[w c] r IH]; [discriminate|]. cbn [existsb snd].
      destruct c; cbn in F; cbn; auto. }
    rewrite W. reflexivity.
  - destruct (shm e); cbn in *; try discriminate; rewrite ?orb_true_r; auto;
      destruct (ds e); cbn in *; try discriminate; rewrite ?orb_true_r; auto.
Qed.

Lemma same_children_child_dead e e1 : same_children e e1 -> child_dead e1 = child_dead e.
Proof. intros (A&B&C&_). unfold child_dead. rewrite A, B, C. reflexivity. Qed.

(* shape of one iteration, used by everything below *)
Lemma iter_spec : forall e ms hb e' a, terminating e = false -> iter e ms hb = (e', a) ->
  (terminating e' = true /\ no_live_child e' = true /\ existsb terminal a = true
     /\ (is_alive (shm e) = true \/ segs e = [] -> segs e' = []))
  \/ (same_children e e' /\ child_dead e = false /\ existsb terminal a = false /\ ~ In MShutdown ms
      /\ (forall w t, In (MTaskFailure w t) ms -> In (ToCtl (CTaskFailure w t)) a)
      /\ (In MTransmitFailure ms -> In (ToCtl CTransmitFailure) a)).
Proof.
  intros e ms hb e' a T H. unfold iter in H. rewrite T in H.
  destruct (handle e ms) as [[e1 a1] o] eqn:Hh.
  pose proof (handle_spec _ _ _ _ _ T Hh) as S.
  assert (REP : same_children e e1 -> (let '(e2, a2) := terminate e1 in (e2, a1 ++ ToCtl CFailure :: a2)) = (e', a) ->
     terminating e' = true /\ no_live_child e' = true /\ existsb terminal a = true
     /\ (is_alive (shm e) = true \/ segs e = [] -> segs e' = [])).
  { intros SC H'. destruct (terminate e1) as [e2 a2] eqn:Ht. inversion H'; subst.
    assert (T1 : terminating e1 = false) by (destruct SC as (_&_&_&S4&_); congruence).
    pose proof (terminate_terminating e1) as A. pose proof (terminate_no_live_child e1 T1) as B.
    pose proof (terminate_segs e1 T1) as C. rewrite Ht in A, B, C. cbn [fst] in A, B, C.
    repeat split; auto.
    - apply existsb_app_r. reflexivity.
    - intros Hs. apply C. destruct SC as (_&S2&_&_&S5). rewrite S2, S5. exact Hs. }
  destruct o.
  - (* Done *)
    destruct (healthcheck e1) eqn:HC.
    + left. apply (REP S H).
    + right. inversion H; subst. clear H.
      assert (CD : child_dead e = false).
      { destruct (child_dead e) eqn:CD; [|reflexivity]. exfalso.
        assert (T1 : terminating e' = false) by (destruct S as (_&_&_&S4&_); congruence).
        destruct (child_dead_healthcheck e' T1) as [f Hf]; [rewrite (same_children_child_dead _ _ S); exact CD|congruence]. }
      (* facts about a1 when handle ended with Done *)
      assert (G : forall ms e e1 a1, handle e ms = (e1, a1, Done) ->
                 existsb terminal a1 = false /\ ~ In MShutdown ms
                 /\ (forall w t, In (MTaskFailure w t) ms -> In (ToCtl (CTaskFailure w t)) a1)
                 /\ (In MTransmitFailure ms -> In (ToCtl CTransmitFailure) a1)).
      { clear. induction ms as [|m r IH]; intros e e1 a1 H.
        - cbn in H. inversion H; subst. repeat split; auto; intros; contradiction.
        - cbn [handle] in H.
          assert (K : forall e' a, existsb terminal a = false ->
                    (forall w t, m = MTaskFailure w t -> In (ToCtl (CTaskFailure w t)) a) ->
                    (m = MTransmitFailure -> In (ToCtl CTransmitFailure) a) -> m <> MShutdown ->
                    (let '(e2, a2, o0) := handle e' r in (e2, a ++ a2, o0)) = (e1, a1, Done) ->
                    existsb terminal a1 = false /\ ~ In MShutdown (m :: r)
                    /\ (forall w t, In (MTaskFailure w t) (m :: r) -> In (ToCtl (CTaskFailure w t)) a1)
                    /\ (In MTransmitFailure (m :: r) -> In (ToCtl CTransmitFailure) a1)).
          { intros e' a Ha Htf Htr Hns H'. destruct (handle e' r) as [[e2 a2] o0] eqn:Hh. inversion H'; subst.
            destruct (IH _ _ _ Hh) as (I1&I2&I3&I4). repeat split.
            - rewrite existsb_app, Ha, I1. reflexivity.
            - intros [E|E]; [exact (Hns E)|exact (I2 E)].
            - intros w t [E|E]; apply in_or_app; [left; apply Htf; exact E|right; apply I3; exact E].
            - intros [E|E]; apply in_or_app; [left; apply Htr; exact E|right; apply I4; exact E]. }
          assert (NT : forall e m, existsb terminal (to_all e m) = false).
          { intros e0 m0. unfold to_all. induction (workers e0); [reflexivity|]. cbn. exact IHl. }
          destruct m.
          + destruct (lookup w (workers e)) as [[| | |z]|]; try discriminate;
              (eapply K; [| | | |exact H]; [reflexivity|discriminate|discriminate|discriminate]).
          + eapply K; [| | | |exact H]; [reflexivity|discriminate|discriminate|discriminate].
          + destruct (mem d (datasets e)).
            * eapply K; [| | | |exact H]; [|discriminate|discriminate|discriminate].
              rewrite existsb_app, NT. reflexivity.
            * eapply K; [| | | |exact H]; [reflexivity|discriminate|discriminate|discriminate].
          + destruct (terminate e); discriminate.
          + eapply K; [| | | |exact H]; [reflexivity| |discriminate|discriminate].
            intros w0 t0 E. inversion E; subst. left. reflexivity.
          + eapply K; [| | | |exact H]; [|discriminate|discriminate|discriminate].
            rewrite existsb_app, NT. reflexivity.
          + eapply K; [| | | |exact H]; [reflexivity|discriminate| |discriminate].
            intros _. left. reflexivity.
          + discriminate. }
      destruct (G _ _ _ _ Hh) as (G1&G2&G3&G4).
      split; [exact S|]. split; [exact CD|]. split; [|split; [exact G2|split]].
      * rewrite existsb_app, G1. destruct (hb && negb (terminating e')); reflexivity.
      * intros w t Hin. apply in_or_app. left. apply G3. exact Hin.
      * intros Hin. apply in_or_app. left. apply G4. exact Hin.
  - (* Broke: ExecutorShutdown was handled; healthcheck is skipped while terminating *)
    destruct S as (S1&S2&S3&S4&S5). left.
    assert (HC : healthcheck e1 = None) by (unfold healthcheck; rewrite S1; reflexivity).
    rewrite HC in H. inversion H; subst. repeat split; auto.
    apply existsb_app_l. apply existsb_exists. exists (ToCtl CExit). split; [exact S3|reflexivity].
  - left. apply (REP S H).
Qed.

(* (b) a child that died is detected by the very next iteration, whatever it receives *)
Theorem child_death_detected : forall e ms hb, terminating e = false -> child_dead e = true ->
  let '(e', a) := iter e ms hb in
  terminating e' = true /\ no_live_child e' = true /\ existsb terminal a = true.
Proof.
  intros e ms hb T D. destruct (iter e ms hb) as [e' a] eqn:H.
  destruct (iter_spec _ _ _ _ _ T H) as [(A&B&C&_)|(_&CD&_)]; [auto|congruence].
Qed.

(* (a) a TaskFailure (or transmit failure, or shutdown request) handed to the executor reaches the
   controller as a message that makes it shut down: either itself, or the executor's own
   Exit/Failure report if the loop body stopped before reaching it *)
Theorem failure_is_reported : forall e ms hb h, terminating e = false ->
  (child_dead e = true \/ (exists w t, In (MTaskFailure w t) ms) \/ In MTransmitFailure ms \/ In MShutdown ms) ->
  existsb is_shutdown_reason (ctl_msgs h (snd (iter e ms hb))) = true.
Proof.
  intros e ms hb h T C. destruct (iter e ms hb) as [e' a] eqn:H. cbn [snd].
  assert (TERM : existsb terminal a = true -> existsb is_shutdown_reason (ctl_msgs h a) = true).
  { clear. induction a as [|x r IH]; [discriminate|]. cbn [existsb ctl_msgs flat_map]. intros Hx.
    rewrite existsb_app. destruct x as [m| | | | | |]; cbn in Hx |- *; auto.
    destruct m; cbn in Hx |- *; auto. }
  assert (INC : forall m, In (ToCtl m) a -> is_shutdown_reason (to_bmsg h m) = true ->
                existsb is_shutdown_reason (ctl_msgs h a) = true).
  { intros m Hin Hr. apply existsb_exists. exists (to_bmsg h m). split; [|exact Hr].
    unfold ctl_msgs. apply in_flat_map. exists (ToCtl m). split; [exact Hin|left; reflexivity]. }
  destruct (iter_spec _ _ _ _ _ T H) as [(_&_&A&_)|(_&CD&_&NS&TF&TR)]; [auto|].
  destruct C as [C|[(w&t&C)|[C|C]]].
  - congruence.
  - apply (INC _ (TF _ _ C)). reflexivity.
  - apply (INC _ (TR C)). reflexivity.
  - contradiction.
Qed.

(* ------------------------------------------------------------------ histories of events *)
Lemma die_keeps_dead c z : is_alive c = false -> die c z = c.
Proof. unfold die. intros ->. reflexivity. Qed.

Lemma set_worker_dead_id : forall ws w f,
  (forall c, is_alive c = false -> f c = c) ->
  forallb (fun p => negb (is_alive (snd p))) ws = true -> set_worker w f ws = ws.
Proof.
  induction ws as [|[k c] r IH]; intros w f Hf H; [reflexivity|]. cbn [forallb snd] in H.
  apply andb_prop in H as [H1 H2]. apply negb_true_iff in H1. cbn [set_worker].
  destruct (Nat.eqb k w); [rewrite (Hf _ H1); reflexivity|]. rewrite (IH _ _ Hf H2). reflexivity.
Qed.

(* once terminated nothing changes any more and nothing is said *)
Lemma apply_ev_after_termination : forall e x, terminating e = true -> no_live_child e = true ->
  apply_ev e x = (e, []).
Proof.
  intros e x T N. unfold no_live_child in N. apply andb_prop in N as [N N3]. apply andb_prop in N as [N1 N2].
  apply negb_true_iff in N2, N3. destruct e as [ws s d t dd sg]. cbn in *. subst t. destruct x; cbn.
  - reflexivity.
  - unfold set_workers. cbn. rewrite set_worker_dead_id; auto. intros c Hc. apply die_keeps_dead. exact Hc.
  - unfold set_workers. cbn. rewrite set_worker_dead_id; auto. intros c Hc. rewrite Hc. reflexivity.
  - rewrite N2. reflexivity.
  - rewrite die_keeps_dead; auto.
  - rewrite N2. reflexivity.
Qed.

Lemma run_evs_after_termination : forall xs e, terminating e = true -> no_live_child e = true ->
  run_evs e xs = (e, []).
Proof.
  induction xs as [|x r IH]; intros e T N; [reflexivity|]. cbn [run_evs].
  rewrite (apply_ev_after_termination _ _ T N), (IH _ T N). reflexivity.
Qed.

Fixpoint count_terminal (a : list act) : nat :=
  match a with [] => 0 | x :: r => (if terminal x then 1 else 0) + count_terminal r end.

Lemma count_terminal_app a b : count_terminal (a ++ b) = count_terminal a + count_terminal b.
Proof. induction a; cbn; [reflexivity|]. rewrite IHa. lia. Qed.

Lemma count_terminal_zero a : existsb terminal a = false -> count_terminal a = 0.
Proof. induction a; cbn; [reflexivity|]. intros H. apply orb_false_iff in H as [-> H]. rewrite (IHa H). reflexivity. Qed.

(* exactly one terminal report per iteration that terminates *)
Lemma iter_count : forall e ms hb e' a, terminating e = false -> iter e ms hb = (e', a) ->
  count_terminal a = if terminating e' then 1 else 0.
Proof.
  intros e ms hb e' a T H. unfold iter in H. rewrite T in H.
  destruct (handle e ms) as [[e1 a1] o] eqn:Hh.
  assert (G : forall ms e e1 a1 o, handle e ms = (e1, a1, o) ->
            count_terminal a1 = match o with Broke => 1 | _ => 0 end).
  { clear. induction ms as [|m r IH]; intros e e1 a1 o H.
    - cbn in H. inversion H; subst. reflexivity.
    - cbn [handle] in H.
      assert (K : forall e' a, count_terminal a = 0 ->
                (let '(e2, a2, o0) := handle e' r in (e2, a ++ a2, o0)) = (e1, a1, o) ->
                count_terminal a1 = match o with Broke => 1 | _ => 0 end).
      { intros e' a Ha H'. destruct (handle e' r) as [[e2 a2] o0] eqn:Hh. inversion H'; subst.
        rewrite count_terminal_app, Ha. apply (IH _ _ _ _ Hh). }
      assert (NT : forall e m, count_terminal (to_all e m) = 0).
      { intros e0 m0. unfold to_all. induction (workers e0); [reflexivity|]. cbn. exact IHl. }
      destruct m.
      + destruct (lookup w (workers e)) as [[| | |z]|]; try (inversion H; subst; reflexivity);
          (eapply K; [|exact H]; reflexivity).
      + eapply K; [|exact H]; reflexivity.
      + destruct (mem d (datasets e)); (eapply K; [|exact H]); [rewrite count_terminal_app, NT|]; reflexivity.
      + destruct (terminate e) as [e' a] eqn:Ht. inversion H; subst. cbn.
        pose proof (terminate_no_toctl e) as N. rewrite Ht in N. cbn in N. rewrite (count_terminal_zero _ N). reflexivity.
      + eapply K; [|exact H]; reflexivity.
      + eapply K; [|exact H]. rewrite count_terminal_app, NT. reflexivity.
      + eapply K; [|exact H]; reflexivity.
      + inversion H; subst. reflexivity. }
  pose proof (G _ _ _ _ _ Hh) as C1. pose proof (handle_spec _ _ _ _ _ T Hh) as S.
  assert (REP : same_children e e1 -> count_terminal a1 = 0 ->
     (let '(e2, a2) := terminate e1 in (e2, a1 ++ ToCtl CFailure :: a2)) = (e', a) ->
     count_terminal a = if terminating e' then 1 else 0).
  { intros SC C0 H'. destruct (terminate e1) as [e2 a2] eqn:Ht. inversion H'; subst.
    pose proof (terminate_terminating e1) as A. rewrite Ht in A. cbn in A. rewrite A.
    pose proof (terminate_no_toctl e1) as N. rewrite Ht in N. cbn in N.
    rewrite count_terminal_app, C0. cbn. rewrite (count_terminal_zero _ N). reflexivity. }
  destruct o.
  - destruct (healthcheck e1) eqn:HC.
    + apply (REP S C1 H).
    + inversion H; subst. assert (T1 : terminating e' = false) by (destruct S as (_&_&_&S4&_); congruence).
      rewrite T1, count_terminal_app, C1. rewrite andb_false_r || destruct hb; reflexivity.
  - destruct S as (S1&_). assert (HC : healthcheck e1 = None) by (unfold healthcheck; rewrite S1; reflexivity).
    rewrite HC in H. inversion H; subst. rewrite count_terminal_app, C1, S1. cbn. rewrite andb_false_r. reflexivity.
  - apply (REP S C1 H).
Qed.

Definition good (e : exec) : Prop := terminating e = true -> no_live_child e = true.

Lemma apply_ev_fault_keeps : forall e x, terminating e = false ->
  match x with EvBatch _ _ => False | _ => True end ->
  terminating (fst (apply_ev e x)) = false /\ snd (apply_ev e x) = [].
Proof.
  intros e x T Hx. destruct x; cbn; try contradiction; try (split; [exact T|reflexivity]).
  - destruct (is_alive (shm e)); split; auto.
  - destruct (is_alive (shm e)); split; auto.
Qed.

(* over EVERY history of batches and faults: the executor terminates exactly when it has told the
   controller (once), and whenever it has terminated no child is alive *)
Theorem history_invariant : forall xs e e' a, terminating e = false -> run_evs e xs = (e', a) ->
  count_terminal a = (if terminating e' then 1 else 0) /\ good e'.
Proof.
  induction xs as [|x r IH]; intros e e' a T H.
  - cbn in H. inversion H; subst. rewrite T. split; [reflexivity|]. intros C. congruence.
  - cbn [run_evs] in H. destruct (apply_ev e x) as [e1 a1] eqn:Hx. destruct (run_evs e1 r) as [e2 a2] eqn:Hr.
    inversion H; subst. rewrite count_terminal_app.
    destruct x as [ms hb| | | | |].
    + cbn [apply_ev] in Hx. pose proof (iter_count _ _ _ _ _ T Hx) as C.
      destruct (terminating e1) eqn:T1.
      * destruct (iter_spec _ _ _ _ _ T Hx) as [(_&N&_)|(SC&_)].
        -- rewrite (run_evs_after_termination _ _ T1 N) in Hr. inversion Hr; subst.
           rewrite T1, C. cbn. split; [reflexivity|]. intros _. exact N.
        -- destruct SC as (_&_&_&S4&_). congruence.
      * destruct (IH _ _ _ T1 Hr) as [I1 I2]. rewrite C, I1. split; [reflexivity|exact I2].
    + pose proof (apply_ev_fault_keeps e (EvWorkerDies w z) T I) as [K1 K2]. rewrite Hx in K1, K2. cbn in K1, K2. subst a1.
      apply (IH _ _ _ K1 Hr).
    + pose proof (apply_ev_fault_keeps e (EvWorkerStuck w) T I) as [K1 K2]. rewrite Hx in K1, K2. cbn in K1, K2. subst a1.
      apply (IH _ _ _ K1 Hr).
    + pose proof (apply_ev_fault_keeps e (EvShmDies h) T I) as [K1 K2]. rewrite Hx in K1, K2. cbn in K1, K2. subst a1.
      apply (IH _ _ _ K1 Hr).
    + pose proof (apply_ev_fault_keeps e (EvDsDies z) T I) as [K1 K2]. rewrite Hx in K1, K2. cbn in K1, K2. subst a1.
      apply (IH _ _ _ K1 Hr).
    + pose proof (apply_ev_fault_keeps e (EvSegment d) T I) as [K1 K2]. rewrite Hx in K1, K2. cbn in K1, K2. subst a1.
      apply (IH _ _ _ K1 Hr).
Qed.

(* ------------------------------------------------------------------ shared-memory segments *)
Definition is_shm_kill (x : ev) : bool := match x with EvShmDies Kill => true | _ => false end.

Definition seg_inv (e : exec) : Prop := is_alive (shm e) = true \/ segs e = [].

(* if the shm server is never SIGKILLed, an executor that has terminated left no segment *)
Theorem no_segments_left_partial : forall xs e e' a, terminating e = false -> seg_inv e ->
  existsb is_shm_kill xs = false -> run_evs e xs = (e', a) ->
  seg_inv e' /\ (terminating e' = true -> segs e' = []).
Proof.
  induction xs as [|x r IH]; intros e e' a T SI NK H.
  - cbn in H. inversion H; subst. split; [exact SI|]. congruence.
  - cbn [existsb] in NK. apply orb_false_iff in NK as [NK1 NK2].
    cbn [run_evs] in H. destruct (apply_ev e x) as [e1 a1] eqn:Hx. destruct (run_evs e1 r) as [e2 a2] eqn:Hr.
    inversion H; subst. clear H.
    destruct x as [ms hb|w z|w|h|z|d].
    + cbn [apply_ev] in Hx. destruct (iter_spec _ _ _ _ _ T Hx) as [(T1&N&_&SG)|(SC&_)].
      * rewrite (run_evs_after_termination _ _ T1 N) in Hr. inversion Hr; subst.
        split; [right; apply SG; exact SI|intros _; apply SG; exact SI].
      * destruct SC as (_&S2&_&S4&S5). apply (IH e1 e' a2); auto; [congruence|].
        unfold seg_inv. rewrite S2, S5. exact SI.
    + cbn in Hx. inversion Hx; subst. apply (fun t s => IH _ _ _ t s NK2 Hr); [exact T|exact SI].
    + cbn in Hx. inversion Hx; subst. apply (fun t s => IH _ _ _ t s NK2 Hr); [exact T|exact SI].
    + cbn in Hx. destruct (is_alive (shm e)) eqn:AL.
      * inversion Hx; subst. eapply IH; [| |exact NK2|exact Hr]; [exact T|].
        right. cbn. destruct h; [reflexivity|discriminate|reflexivity].
      * inversion Hx; subst. eapply IH; [| |exact NK2|exact Hr]; [exact T|exact SI].
    + cbn in Hx. inversion Hx; subst. eapply IH; [| |exact NK2|exact Hr]; [exact T|exact SI].
    + cbn in Hx. destruct (is_alive (shm e)) eqn:AL; inversion Hx; subst.
      * eapply IH; [| |exact NK2|exact Hr]; [exact T|]. left. exact AL.
      * eapply IH; [| |exact NK2|exact Hr]; [exact T|exact SI].
Qed.

(* ------------------------------------------------------------------ worker side *)
Definition is_ok (b : tbeh) : bool := match b with BOk _ => true | _ => false end.

Theorem execute_sequence_all_ok : forall ts, forallb (fun p => is_ok (snd p)) ts = true ->
  execute_sequence ts = (flat_map (fun p => map WHandled (outs_of (snd p))) ts ++ [WFlush], None).
Proof.
  induction ts as [|[t b] r IH]; intros H; [reflexivity|]. cbn [forallb snd] in H. apply andb_prop in H as [H1 H2].
  destruct b; try discriminate. cbn [execute_sequence flat_map snd outs_of]. rewrite (IH H2), app_assoc. reflexivity.
Qed.

(* no silent failure: a task that does not complete either yields a TaskFailure naming it, or ends the
   worker process (which the executor's healthcheck sees as an exit code) -- and nothing of the later
   tasks is handled *)
Theorem execute_sequence_no_silent_failure : forall pre t b post,
  forallb (fun p => is_ok (snd p)) pre = true -> is_ok b = false ->
  let '(a, x) := execute_sequence (pre ++ (t, b) :: post) in
  a = flat_map (fun p => map WHandled (outs_of (snd p))) pre ++ map WHandled (outs_of b)
        ++ match b with BRaise _ => [WTaskFailure t] | _ => [] end
  /\ match b with BRaise _ => x = None | BExit _ z => x = Some z | BOk _ => False end.
Proof.
  induction pre as [|[t0 b0] r IH]; intros t b post H Hb.
  - cbn [app execute_sequence flat_map]. destruct b; try discriminate; cbn; rewrite ?app_nil_r; split; reflexivity.
  - cbn [forallb snd] in H. apply andb_prop in H as [H1 H2]. destruct b0; try discriminate.
    cbn [app execute_sequence flat_map snd outs_of]. specialize (IH t b post H2 Hb).
    destruct (execute_sequence (r ++ (t, b) :: post)) as [a x]. destruct IH as [I1 I2]. subst a.
    rewrite <- app_assoc. split; [reflexivity|exact I2].
Qed.

(* ------------------------------------------------------------------ controller side *)
Lemma scan_reason : forall ms hosts, snd (fst (scan ms hosts)) = existsb is_shutdown_reason ms.
Proof.
  induction ms as [|m r IH]; intros hosts; [reflexivity|]. cbn [scan existsb].
  specialize (IH (pop_host m hosts)). destruct (scan r (pop_host m hosts)) as [[evs sd] hs]. cbn in *. rewrite IH. reflexivity.
Qed.

Lemma scan_events : forall ms hosts, fst (fst (scan ms hosts)) = filter is_event ms.
Proof.
  induction ms as [|m r IH]; intros hosts; [reflexivity|]. cbn [scan filter].
  specialize (IH (pop_host m hosts)). destruct (scan r (pop_host m hosts)) as [[evs sd] hs]. cbn in *. rewrite IH.
  destruct (is_event m); reflexivity.
Qed.

Theorem recv_events_raises_on_reason : forall hosts b r, existsb is_shutdown_reason b = true ->
  exists s hs r', recv_events hosts (b :: r) = RRaise s hs r'.
Proof.
  intros hosts b r H. cbn [recv_events]. pose proof (scan_reason b hosts) as S.
  destruct (scan b hosts) as [[evs sd] hs]. cbn in S. rewrite S, H.
  destruct (shutdown_wait hs r) as [hs' r']. eauto.
Qed.

Theorem recv_events_never_waits_with_input : forall bs hosts,
  Exists (fun b => existsb is_shutdown_reason b = true \/ existsb is_event b = true) bs ->
  forall hs, recv_events hosts bs <> RWaiting hs.
Proof.
  induction bs as [|b r IH]; intros hosts H hs0; [inversion H|]. cbn [recv_events].
  pose proof (scan_reason b hosts) as S. pose proof (scan_events b hosts) as E.
  destruct (scan b hosts) as [[evs sd] hs]. cbn in S, E. destruct sd.
  - destruct (shutdown_wait hs r). discriminate.
  - destruct evs as [|x evs'] eqn:EV; [|discriminate].
    apply IH. inversion H as [? ? [Hb|Hb]|]; subst; [congruence| |assumption].
    exfalso. apply existsb_exists in Hb as (m&Hin&Hm).
    assert (In m (filter is_event b)) by (apply filter_In; auto). rewrite <- E in H0. contradiction.
Qed.

(* Bridge.shutdown ends after at most `length bs` batches (the grace period), and ends with no host
   left as soon as every registered host has reported Exit or Failure *)
Lemma shutdown_wait_empties : forall hosts b r,
  (forall h, In h hosts -> In (BExecExit h) b \/ In (BExecFailure h) b) ->
  fst (shutdown_wait hosts (b :: r)) = [].
Proof.
  intros hosts b r H. destruct hosts as [|h0 hr] eqn:E; [reflexivity|]. rewrite <- E in *. clear E h0 hr.
  assert (G : forall b' hs, (forall h, In h hs -> In (BExecExit h) b' \/ In (BExecFailure h) b') ->
              fold_left (fun hs m => pop_host m hs) b' hs = []).
  { clear. induction b' as [|m r IH]; intros hs H.
    - destruct hs as [|h t]; [reflexivity|]. destruct (H h (or_introl eq_refl)) as [[]|[]].
    - cbn [fold_left]. apply IH. intros h Hin.
      assert (Hh : In h hs /\ (forall k, m = BExecExit k \/ m = BExecFailure k -> k <> h)).
      { destruct m; cbn [pop_host] in Hin; try (split; [exact Hin|intros k [E|E]; discriminate]);
          unfold remove in Hin; apply filter_In in Hin as [Hi Hn]; apply negb_true_iff, Nat.eqb_neq in Hn;
          (split; [exact Hi|intros k [E|E]; inversion E; subst; exact Hn]). }
      destruct Hh as [Hi Hk]. destruct (H h Hi) as [[E|E]|[E|E]]; auto.
      + exfalso. apply (Hk h); auto.
      + exfalso. apply (Hk h); auto. }
  destruct hosts as [|h0 hr]; [reflexivity|]. cbn [shutdown_wait]. rewrite G; [destruct r; reflexivity|exact H].
Qed.

(* run returns only values that arrived in a payload (or were there before), one for every requested output *)
Lemma fold_store_getv : forall evs vals d v, getv d (fold_left store evs vals) = Some v ->
  getv d vals = Some v \/ In (BPayload d v) evs.
Proof.
  induction evs as [|m r IH]; intros vals d v H; [left; exact H|]. cbn [fold_left] in H.
  destruct (IH _ _ _ H) as [G|G]; [|right; right; exact G].
  destruct m; cbn [store] in G; try (left; exact G).
  cbn [getv] in G. destruct (Nat.eqb d0 d) eqn:E; [|left; exact G].
  apply Nat.eqb_eq in E. subst. inversion G; subst. right. left. reflexivity.
Qed.

Lemma recv_events_events_from_input : forall bs hosts evs hs r, recv_events hosts bs = REvents evs hs r ->
  forall m, In m evs -> exists b, In b bs /\ In m b.
Proof.
  induction bs as [|b r0 IH]; intros hosts evs hs r H m Hm; [discriminate|]. cbn [recv_events] in H.
  pose proof (scan_events b hosts) as E. destruct (scan b hosts) as [[evs0 sd] hs0]. cbn in E. destruct sd.
  - destruct (shutdown_wait hs0 r0). discriminate.
  - destruct evs0 as [|x t].
    + destruct (IH _ _ _ _ H m Hm) as (b'&B1&B2). exists b'. split; [right; exact B1|exact B2].
    + inversion H; subst. exists b. split; [left; reflexivity|]. rewrite E in Hm. apply filter_In in Hm. tauto.
Qed.

Lemma recv_events_rest_suffix : forall bs hosts evs hs r, recv_events hosts bs = REvents evs hs r ->
  forall b, In b r -> In b bs.
Proof.
  induction bs as [|b0 r0 IH]; intros hosts evs hs r H b Hb; [discriminate|]. cbn [recv_events] in H.
  destruct (scan b0 hosts) as [[evs0 sd] hs0]. destruct sd.
  - destruct (shutdown_wait hs0 r0). discriminate.
  - destruct evs0 as [|x t].
    + right. apply (IH _ _ _ _ H b Hb).
    + inversion H; subst. right. exact Hb.
Qed.

Theorem run_never_invents : forall fuel need vals hosts bs vals' s,
  run fuel need vals hosts bs = Returned vals' s ->
  forall d, In d need -> exists v, getv d vals' = Some v /\
    (getv d vals = Some v \/ exists b, In b bs /\ In (BPayload d v) b).
Proof.
  induction fuel as [|fuel IH]; intros need vals hosts bs vals' s H d Hd.
  - cbn [run] in H. destruct (complete need vals) eqn:C; [|discriminate]. inversion H; subst.
    unfold complete in C. rewrite forallb_forall in C. specialize (C d Hd).
    destruct (getv d vals') eqn:G; [|discriminate]. eauto.
  - cbn [run] in H. destruct (complete need vals) eqn:C.
    + inversion H; subst. unfold complete in C. rewrite forallb_forall in C. specialize (C d Hd).
      destruct (getv d vals') eqn:G; [|discriminate]. eauto.
    + destruct (recv_events hosts bs) as [evs hs r|? ? ?|?] eqn:R; try discriminate.
      destruct (IH _ _ _ _ _ _ H d Hd) as (v&V1&[V2|(b&B1&B2)]).
      * exists v. split; [exact V1|]. destruct (fold_store_getv _ _ _ _ V2) as [G|G]; [left; exact G|].
        right. apply (recv_events_events_from_input _ _ _ _ _ R _ G).
      * exists v. split; [exact V1|]. right. exists b. split; [|exact B2].
        apply (recv_events_rest_suffix _ _ _ _ _ R _ B1).
Qed.

Theorem run_fails_on_reason : forall fuel need vals hosts b r,
  complete need vals = false -> existsb is_shutdown_reason b = true ->
  exists s, run (S fuel) need vals hosts (b :: r) = Failed s.
Proof.
  intros fuel need vals hosts b r C H. cbn [run]. rewrite C.
  destruct (recv_events_raises_on_reason hosts b r H) as (s&hs&r'&E). rewrite E. eauto.
Qed.

(* ------------------------------------------------------------------ end to end *)
Lemma existsb_incl {A} (f : A -> bool) l1 l2 : incl l1 l2 -> existsb f l1 = true -> existsb f l2 = true.
Proof. intros I H. apply existsb_exists in H as (x&X1&X2). apply existsb_exists. exists x. split; [apply I; exact X1|exact X2]. Qed.

(* a failure at a live executor fails the run with the controller's very next batch, provided that
   batch contains what the executor sent (delivery: C06), whatever else it contains *)
Theorem failure_ends_run : forall e ms hb h fuel need vals hosts batch r,
  terminating e = false ->
  (child_dead e = true \/ (exists w t, In (MTaskFailure w t) ms) \/ In MTransmitFailure ms) ->
  complete need vals = false ->
  incl (ctl_msgs h (snd (iter e ms hb))) batch ->
  exists s, run (S fuel) need vals hosts (batch :: r) = Failed s.
Proof.
  intros e ms hb h fuel need vals hosts batch r T C NC I.
  apply run_fails_on_reason; [exact NC|]. eapply existsb_incl; [exact I|].
  apply failure_is_reported; [exact T|]. destruct C as [C|[C|C]]; auto.
Qed.
