(* Executable checker used by harness/c07.py: the trace check of Net/DataServerCheck.v (when the trace is one the
   atomic-job model is asked about), the log of all frame sends run through Net/Multipart.v, and the log of ALL
   datagram events between the real cascade.shm.client and the (fake, slow) shm server of every host run through
   Net/ShmRpc.v: the server of the model must give the answers that were seen, every datagram a client received must
   be the one the model delivers to that socket, and every socket must keep to the discipline under which an shm call
   is one atomic look at the store (ShmRpcProofs.disciplined_client_exactly_once): one request, one answer awaited
   however late it comes, no request given up or asked again. *)
From Coq Require Import List NArith Bool.
From EKW Require Import Net.DataServer Net.DataServerCheck Net.Multipart Net.MultipartCheck Net.ShmRpc.
Import ListNotations.

(* the harness writes the most frequent run of events -- a request sent, taken by the server, its answer received, the socket
   closed, nothing else in between -- as one item *)
Inductive mev : Type := MOne (e : lev) | MCall (s : N) (seg : bool) (r : req) (p : resp).

Definition expand (l : list mev) : list lev :=
  flat_map (fun m => match m with MOne e => [e] | MCall s seg r p => [LSend s r; LHandle seg p; LRecv s p; LClose s] end) l.

Definition check_rpc (logs : list (list mev)) : bool := forallb (fun l => disciplined (expand l)) logs.

Definition check_case_r (c : option (list op * list hobs * list (N * frame)) * list fsend * list (list mev)) : bool :=
  let '(o, w, r) := c in
  match o with Some t => check_case t | None => true end && wire_ok w && check_rpc r.

(* for debugging a disagreement from the harness: how far each log runs *)
Fixpoint srun_upto (st : sstate) (log : list lev) (n : nat) : nat * option bool :=
  match log with
  | [] => (n, Some (ss_bad st))
  | e :: r => match sstep st e with Ok st' => srun_upto st' r (S n) | Err _ => (n, None) end
  end.
Definition explain_rpc (logs : list (list mev)) := map (fun l => srun_upto ss0 (expand l) 0) logs.
