(* Multipart framing of the cascade backbone (self-contained; also used by C17 part b).
     src/cascade/executor/comms.py : callback, send_data, ReliableSender.send (what is put on
                                     the wire) and Listener._recv_one (how a multipart message is
                                     taken apart: Syn / payload header / plain, 1-3 frames)
   A frame is a byte string; the code only ever looks at `des_message(frame)` (= pickle.loads) of
   frame 0 and frame 1 and at the raw bytes of a value frame.  A frame is therefore modelled by
   what pickle.loads makes of it:
     FSyn idx addr   unpickles to Syn(idx, addr)
     FHdr h          unpickles to a DatasetTransmitPayloadHeader (h names the header)
     FMsg m          unpickles to any other message
     FJunk b         pickle.loads raises (b names the bytes)
   A value frame (the dataset bytes) is never unpickled by this layer: the frame itself is the value.
   No proofs in this file. *)
From Coq Require Import List NArith String Bool.
Import ListNotations.
Open Scope string_scope.

Inductive res (A : Type) : Type := Ok (a : A) | Err (e : string).
Arguments Ok {A} a.
Arguments Err {A} e.

Definition bind {A B} (r : res A) (f : A -> res B) : res B :=
  match r with Ok a => f a | Err e => Err e end.

Definition addr := N.

(* messages other than Syn and payload header: Ack(idx) is interpreted by the receive loops,
   everything else is an opaque application message (numbered by the harness) *)
Inductive msg : Type := MAck (idx : N) | MApp (k : N).

Inductive frame : Type :=
  | FSyn (idx : N) (a : addr)
  | FHdr (h : N)
  | FMsg (m : msg)
  | FJunk (b : N).

(* des_message *)
Inductive dec : Type := DSyn (idx : N) (a : addr) | DHdr (h : N) | DMsg (m : msg).

Definition des (f : frame) : res dec :=
  match f with
  | FSyn i a => Ok (DSyn i a)
  | FHdr h => Ok (DHdr h)
  | FMsg m => Ok (DMsg m)
  | FJunk _ => Err "unpickle"
  end.

(* what _recv_one returns to its caller *)
Inductive parsed : Type :=
  | PMsg (m : msg)
  | PPayload (h : N) (value : frame).     (* DatasetTransmitPayload(header, value) *)

(* first part of _recv_one: look at frame 0 *)
Inductive head : Type :=
  | HPlain (p : parsed)                          (* no Syn: nothing is acknowledged *)
  | HSyn (idx : N) (a : addr) (tl : list frame). (* Syn first: data[1:] still to be looked at *)

Definition parse_head (data : list frame) : res head :=
  match data with
  | [] => Err "empty"
  | f0 :: tl =>
      bind (des f0) (fun d =>
      match d with
      | DSyn i a => Ok (HSyn i a tl)
      | DHdr h => match tl with [v] => Ok (HPlain (PPayload h v)) | _ => Err "hdr-len2" end
      | DMsg m => match tl with [] => Ok (HPlain (PMsg m)) | _ => Err "plain-len1" end
      end)
  end.

(* second part, after a Syn that was not seen before: data[1:] *)
Definition parse_tail (tl : list frame) : res parsed :=
  match tl with
  | [] => Err "syn-only"
  | f1 :: tl2 =>
      bind (des f1) (fun d =>
      match d with
      | DSyn _ _ => Err "double-syn"
      | DHdr h => match tl2 with [v] => Ok (PPayload h v) | _ => Err "hdr-len3" end
      | DMsg m => match tl2 with [] => Ok (PMsg m) | _ => Err "plain-len2" end
      end)
  end.

(* what a listener that has not seen the Syn before hands to its caller *)
Definition parse_full (data : list frame) : res (option (N * addr) * parsed) :=
  bind (parse_head data) (fun h =>
  match h with
  | HPlain p => Ok (None, p)
  | HSyn i a tl => bind (parse_tail tl) (fun p => Ok (Some (i, a), p))
  end).

(* ------------------------------------------------------------------ the sending side *)
(* comms.callback(address, m): one frame, no Syn *)
Definition frames_callback (m : msg) : list frame := [FMsg m].
(* ReliableSender.send: (ser(Syn(idx, own address)), ser(m)) *)
Definition frames_send (idx : N) (a : addr) (m : msg) : list frame := [FSyn idx a; FMsg m].
(* comms.send_data(address, payload, syn): (ser(syn), pickle(header), value) *)
Definition frames_send_data (idx : N) (a : addr) (h : N) (v : frame) : list frame := [FSyn idx a; FHdr h; v].
(* a payload sent without Syn (header, value): accepted by _recv_one, used by nobody today *)
Definition frames_payload (h : N) (v : frame) : list frame := [FHdr h; v].

(* the legal multipart shapes and what each of them means *)
Inductive legal : list frame -> option (N * addr) * parsed -> Prop :=
  | LPlain m : legal [FMsg m] (None, PMsg m)
  | LPayload h v : legal [FHdr h; v] (None, PPayload h v)
  | LSynMsg i a m : legal [FSyn i a; FMsg m] (Some (i, a), PMsg m)
  | LSynPayload i a h v : legal [FSyn i a; FHdr h; v] (Some (i, a), PPayload h v).
