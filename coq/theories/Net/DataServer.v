(* Executable model of the transfer machinery of cascade:
     src/cascade/executor/data_server.py  DataServer.{maybe_clean, store_payload, send_payload, recv_loop}
     src/cascade/executor/comms.py        Listener._recv_one / recv_messages (Syn => Ack + de-duplication),
                                          send_data, callback
     src/cascade/shm/client.py            allocate (ConflictError on an existing key) / get / purge,
                                          as far as the data server uses them
   The system is a set of endpoints addressed by numbers (0 = the controller's listener, the
   others = data servers), a lossy / duplicating / reordering network (a bag of frames), and a
   clock.  The model is a small-step machine over ATOMIC ACTIONS: one clean pass of
   maybe_clean, one frame read by the Listener, one message processed by recv_loop, the retry
   scan, one retry decision, one thread-pool job run to completion, one network event.  One
   iteration of recv_loop is a particular sequence of these actions (`iter` below, a
   transcription of the loop body); theorems are proved for ALL action sequences, so they
   cover every thread timing the code could see.
   Dataset ids, host names/addresses and deser_fun strings are numbers (the harness maps the
   strings injectively; ds2shmid is assumed injective).  Every Python `raise` out of
   recv_loop is the `crashed` flag of the host (the process dies; its queued pool jobs still
   run at interpreter exit, as ThreadPoolExecutor does).  `Err` = the action is not enabled
   in this state (a trace the system cannot produce).
   No proofs in this file. *)
From Coq Require Import List NArith ZArith String Bool Arith.
Import ListNotations.
Open Scope string_scope.

Inductive res (A : Type) : Type := Ok (a : A) | Err (e : string).
Arguments Ok {A} a.
Arguments Err {A} e.

(* ------------------------------------------------------------------ messages *)
Definition bytes := list N.

(* msg.DatasetTransmitCommand *)
Record cmd : Type := mkCmd { c_src : N; c_tgt : N; c_daddr : N; c_ds : N; c_idx : N }.
(* msg.DatasetTransmitPayload: header (confirm_address, confirm_idx, ds, deser_fun) + value *)
Record payload : Type := mkPay { p_from : N; p_idx : N; p_ds : N; p_deser : N; p_val : bytes }.

(* what travels on a socket: [Syn; header; value] | [Syn; command] | [Ack] | [DatasetPurge] *)
Inductive frame : Type :=
| FData (sidx saddr : N) (p : payload)
| FCmd (sidx saddr : N) (c : cmd)
| FAck (i : N)
| FPurge (d : N).

(* what Listener.recv_messages returns *)
Inductive msg : Type := MCmd (c : cmd) | MPay (p : payload) | MAck (i : N) | MPurge (d : N).

(* keys of futs_in_progress *)
Inductive jobkey : Type := JCmd (c : cmd) | JPay (p : payload).

(* a job handed to ds_proc_tp; j_done = the value returned by the finished future *)
Record job : Type := mkJob { j_key : jobkey; j_done : option Z }.

(* callback(self.maddress, ...) *)
Inductive event : Type := EPublished (d idx : N) | EFailure.

Definition cmd_eq_dec : forall a b : cmd, {a = b} + {a <> b}.
Proof. decide equality; apply N.eq_dec. Defined.
Definition pay_eq_dec : forall a b : payload, {a = b} + {a <> b}.
Proof. decide equality; try apply N.eq_dec. apply (list_eq_dec N.eq_dec). Defined.
Definition key_eq_dec : forall a b : jobkey, {a = b} + {a <> b}.
Proof. decide equality; [apply cmd_eq_dec | apply pay_eq_dec]. Defined.
Definition frame_eq_dec : forall a b : frame, {a = b} + {a <> b}.
Proof. decide equality; try apply N.eq_dec; [apply pay_eq_dec | apply cmd_eq_dec]. Defined.
Definition syn_eq_dec : forall a b : N * N, {a = b} + {a <> b}.
Proof. decide equality; apply N.eq_dec. Defined.
Definition aframe_eq_dec : forall a b : N * frame, {a = b} + {a <> b}.
Proof. decide equality; [apply frame_eq_dec | apply N.eq_dec]. Defined.

(* ------------------------------------------------------------------ Python dict / set *)
Section Dict.
  Context {K V : Type} (eqd : forall a b : K, {a = b} + {a <> b}).

  Fixpoint lookup (k : K) (d : list (K * V)) : option V :=
    match d with
    | [] => None
    | (k', v) :: r => if eqd k k' then Some v else lookup k r
    end.

  (* d[k] = v : overwrite in place or append *)
  Fixpoint upd (k : K) (v : V) (d : list (K * V)) : list (K * V) :=
    match d with
    | [] => [(k, v)]
    | (k', v') :: r => if eqd k k' then (k', v) :: r else (k', v') :: upd k v r
    end.

  (* d.pop(k) *)
  Fixpoint del (k : K) (d : list (K * V)) : list (K * V) :=
    match d with
    | [] => []
    | (k', v') :: r => if eqd k k' then del k r else (k', v') :: del k r
    end.
End Dict.

Section SetL.
  Context {K : Type} (eqd : forall a b : K, {a = b} + {a <> b}).
  Definition mem (k : K) (s : list K) : bool := if in_dec eqd k s then true else false.
  Definition add (k : K) (s : list K) : list K := if in_dec eqd k s then s else s ++ [k].
End SetL.

(* remove one occurrence (a bag) *)
Fixpoint remove1 {A} (eqd : forall a b : A, {a = b} + {a <> b}) (x : A) (l : list A) : option (list A) :=
  match l with
  | [] => None
  | y :: r => if eqd x y then Some r else match remove1 eqd x r with Some r' => Some (y :: r') | None => None end
  end.

(* ------------------------------------------------------------------ one endpoint *)
Record hstate : Type := mkH {
  h_futs : list (jobkey * nat);      (* futs_in_progress: key -> index into h_pool, in dict order *)
  h_pool : list job;                 (* every job ever submitted to ds_proc_tp, in submission order *)
  h_await : list (N * (cmd * Z));    (* awaiting_confirmation: idx -> (command, at) *)
  h_invalid : list N;                (* invalid *)
  h_acks : list N;                   (* acks *)
  h_lacked : list (N * N);           (* dlistener.acked : set[Syn] *)
  h_sockq : list frame;              (* frames delivered to the PULL socket, not yet read *)
  h_inbox : list msg;                (* returned by recv_messages, not yet processed by the for loop *)
  h_rq : list N;                     (* the local `queue` of the retry scan *)
  h_store : list (N * (bytes * N));  (* the host's shared-memory store: ds -> (bytes, deser_fun) *)
  h_crashed : option string;         (* an exception left recv_loop *)
  h_out : list event                 (* callback(self.maddress, ...) in order *)
}.

Definition h0 : hstate := mkH [] [] [] [] [] [] [] [] [] [] None [].

Definition set_futs f (h : hstate) := mkH f (h_pool h) (h_await h) (h_invalid h) (h_acks h) (h_lacked h) (h_sockq h) (h_inbox h) (h_rq h) (h_store h) (h_crashed h) (h_out h).
Definition set_pool f (h : hstate) := mkH (h_futs h) f (h_await h) (h_invalid h) (h_acks h) (h_lacked h) (h_sockq h) (h_inbox h) (h_rq h) (h_store h) (h_crashed h) (h_out h).
Definition set_await f (h : hstate) := mkH (h_futs h) (h_pool h) f (h_invalid h) (h_acks h) (h_lacked h) (h_sockq h) (h_inbox h) (h_rq h) (h_store h) (h_crashed h) (h_out h).
Definition set_invalid f (h : hstate) := mkH (h_futs h) (h_pool h) (h_await h) f (h_acks h) (h_lacked h) (h_sockq h) (h_inbox h) (h_rq h) (h_store h) (h_crashed h) (h_out h).
Definition set_acks f (h : hstate) := mkH (h_futs h) (h_pool h) (h_await h) (h_invalid h) f (h_lacked h) (h_sockq h) (h_inbox h) (h_rq h) (h_store h) (h_crashed h) (h_out h).
Definition set_lacked f (h : hstate) := mkH (h_futs h) (h_pool h) (h_await h) (h_invalid h) (h_acks h) f (h_sockq h) (h_inbox h) (h_rq h) (h_store h) (h_crashed h) (h_out h).
Definition set_sockq f (h : hstate) := mkH (h_futs h) (h_pool h) (h_await h) (h_invalid h) (h_acks h) (h_lacked h) f (h_inbox h) (h_rq h) (h_store h) (h_crashed h) (h_out h).
Definition set_inbox f (h : hstate) := mkH (h_futs h) (h_pool h) (h_await h) (h_invalid h) (h_acks h) (h_lacked h) (h_sockq h) f (h_rq h) (h_store h) (h_crashed h) (h_out h).
Definition set_rq f (h : hstate) := mkH (h_futs h) (h_pool h) (h_await h) (h_invalid h) (h_acks h) (h_lacked h) (h_sockq h) (h_inbox h) f (h_store h) (h_crashed h) (h_out h).
Definition set_store f (h : hstate) := mkH (h_futs h) (h_pool h) (h_await h) (h_invalid h) (h_acks h) (h_lacked h) (h_sockq h) (h_inbox h) (h_rq h) f (h_crashed h) (h_out h).
Definition set_crashed f (h : hstate) := mkH (h_futs h) (h_pool h) (h_await h) (h_invalid h) (h_acks h) (h_lacked h) (h_sockq h) (h_inbox h) (h_rq h) (h_store h) f (h_out h).
Definition set_out f (h : hstate) := mkH (h_futs h) (h_pool h) (h_await h) (h_invalid h) (h_acks h) (h_lacked h) (h_sockq h) (h_inbox h) (h_rq h) (h_store h) (h_crashed h) f.

Definition resend_grace_ns : Z := 4000000000.   (* resend_grace_ms = 4_000 *)
Definition cap : nat := 2.                      (* self.cap *)

(* actions of one endpoint *)
Inductive hact : Type :=
| HClean                         (* one pass of the for loop in maybe_clean *)
| HListen                        (* Listener._recv_one on the next frame of the socket *)
| HProcess                       (* body of `for m in recv_messages(...)` for the next message *)
| HRetryScan                     (* watermark + building `queue` *)
| HRetryOne                      (* body of `for e in queue` after its maybe_clean *)
| HRunJob (k : nat)              (* pool job k runs to completion *)
| HPublish (d : N) (b : bytes) (z : N).  (* a local worker publishes d into the host's shm *)

Definition job_pending (pool : list job) (i : nat) : bool :=
  match nth_error pool i with Some j => match j_done j with None => true | Some _ => false end | None => false end.

(* maybe_clean, one pass: keys = list(futs.keys()); for key in keys: fut = futs[key]; if fut.done():
   (record the result of a command), futs.pop(key) *)
Definition job_done (pool : list job) (i : nat) : option Z :=
  match nth_error pool i with Some j => j_done j | None => None end.

Fixpoint clean_pass (pool : list job) (keys : list jobkey) (futs : list (jobkey * nat))
         (aw : list (N * (cmd * Z))) : list (jobkey * nat) * list (N * (cmd * Z)) :=
  match keys with
  | [] => (futs, aw)
  | k :: r =>
      match lookup key_eq_dec k futs with
      | Some i =>
          match job_done pool i with
          | Some t =>
              let aw' := match k with JCmd c => upd N.eq_dec (c_idx c) (c, t) aw | JPay _ => aw end in
              clean_pass pool r (del key_eq_dec k futs) aw'
          | None => clean_pass pool r futs aw
          end
      | None => clean_pass pool r futs aw
      end
  end.

Definition do_clean (h : hstate) : hstate :=
  let '(f, a) := clean_pass (h_pool h) (map fst (h_futs h)) (h_futs h) (h_await h) in set_await a (set_futs f h).

(* fut = self.ds_proc_tp.submit(job, key); self.futs_in_progress[key] = fut *)
Definition submit (k : jobkey) (h : hstate) : hstate :=
  set_futs (upd key_eq_dec k (List.length (h_pool h)) (h_futs h)) (set_pool (h_pool h ++ [mkJob k None]) h).

Definition crash (e : string) (h : hstate) : hstate := set_crashed (Some e) h.

Definition syn_of (p : payload) : N * N := (p_idx p, p_from p).

(* Listener._recv_one: a frame led by a Syn is acknowledged first (always), then dropped when
   the Syn was seen before *)
Definition listen (h : hstate) : res (hstate * list (N * frame)) :=
  match h_sockq h with
  | [] => Err "empty socket"
  | f :: q =>
      let h := set_sockq q h in
      match f with
      | FData si sa p =>
          if mem syn_eq_dec (si, sa) (h_lacked h) then Ok (h, [(sa, FAck si)])
          else Ok (set_inbox (h_inbox h ++ [MPay p]) (set_lacked (h_lacked h ++ [(si, sa)]) h), [(sa, FAck si)])
      | FCmd si sa c =>
          if mem syn_eq_dec (si, sa) (h_lacked h) then Ok (h, [(sa, FAck si)])
          else Ok (set_inbox (h_inbox h ++ [MCmd c]) (set_lacked (h_lacked h ++ [(si, sa)]) h), [(sa, FAck si)])
      | FAck i => Ok (set_inbox (h_inbox h ++ [MAck i]) h, [])
      | FPurge d => Ok (set_inbox (h_inbox h ++ [MPurge d]) h, [])
      end
  end.

Definition any_tracked_pending (h : hstate) : bool :=
  existsb (fun kv => job_pending (h_pool h) (snd kv)) (h_futs h).

(* recv_loop, the body of the for loop over received messages *)
Definition process (h : hstate) : res hstate :=
  match h_crashed h with
  | Some _ => Err "dead"
  | None =>
  match h_inbox h with
  | [] => Err "no message"
  | m :: q =>
      let h := set_inbox q h in
      match m with
      | MCmd c =>
          match lookup N.eq_dec (c_idx c) (h_await h) with
          | Some _ => Ok (crash "ValueError" h)                         (* transmit idx conflict *)
          | None =>
              if mem N.eq_dec (c_ds c) (h_invalid h) then Ok (crash "ValueError" h)   (* already purged *)
              else Ok (submit (JCmd c) (set_await (upd N.eq_dec (c_idx c) (c, (-1)%Z) (h_await h)) h))
          end
      | MPay p =>
          if mem N.eq_dec (p_ds p) (h_invalid h) then Ok h              (* ignoring transmit payload *)
          else Ok (submit (JPay p) h)
      | MAck i => Ok (set_acks (add N.eq_dec i (h_acks h)) h)
      | MPurge d =>
          (* wait(futs.values(), ALL_COMPLETED): not enabled while a tracked future is running *)
          if any_tracked_pending h then Err "blocked"
          else
            let h := do_clean h in
            let aw := filter (fun e => negb (N.eqb (c_ds (fst (snd e))) d)) (h_await h) in
            Ok (set_invalid (add N.eq_dec d (h_invalid h)) (set_store (del N.eq_dec d (h_store h)) (set_await aw h)))
      end
  end
  end.

(* watermark = time_ns() - grace; queue = [idx | at > 0 and at < watermark] *)
Definition retry_scan (now : Z) (h : hstate) : res hstate :=
  match h_crashed h with
  | Some _ => Err "dead"
  | None =>
      let wm := (now - resend_grace_ns)%Z in
      Ok (set_rq (map fst (filter (fun e => (0 <? snd (snd e))%Z && (snd (snd e) <? wm)%Z) (h_await h))) h)
  end.

Definition has_key (k : jobkey) (futs : list (jobkey * nat)) : bool :=
  match lookup key_eq_dec k futs with Some _ => true | None => false end.

Definition retry_one (h : hstate) : res hstate :=
  match h_crashed h with
  | Some _ => Err "dead"
  | None =>
  match h_rq h with
  | [] => Err "empty queue"
  | e :: q =>
      let h := set_rq q h in
      match lookup N.eq_dec e (h_await h) with
      | None => Ok (crash "KeyError" h)
      | Some (c, _) =>
          if has_key (JCmd c) (h_futs h) then Ok (crash "ValueError" h)
          else if mem N.eq_dec (c_idx c) (h_acks h) then Ok (set_await (del N.eq_dec e (h_await h)) h)
          else if mem N.eq_dec (c_ds c) (h_invalid h) then Ok (set_await (del N.eq_dec e (h_await h)) h)
          else Ok (set_await (upd N.eq_dec e (c, (-1)%Z) (h_await (submit (JCmd c) h))) (submit (JCmd c) h))
      end
  end
  end.

Fixpoint set_nth {A} (i : nat) (x : A) (l : list A) : list A :=
  match l, i with
  | [], _ => []
  | _ :: r, O => x :: r
  | y :: r, S i' => y :: set_nth i' x r
  end.

(* send_payload / store_payload run to completion on a pool thread; me = self.host = own address *)
Definition run_job (me : N) (now : Z) (k : nat) (h : hstate) : res (hstate * list (N * frame)) :=
  match nth_error (h_pool h) k with
  | None => Err "no such job"
  | Some j =>
      match j_done j with
      | Some _ => Err "job already done"
      | None =>
          let h1 := set_pool (set_nth k (mkJob (j_key j) (Some now)) (h_pool h)) h in
          match j_key j with
          | JCmd c =>
              if N.eqb (c_tgt c) me || negb (N.eqb (c_src c) me) then Ok (set_out (h_out h1 ++ [EFailure]) h1, [])
              else match lookup N.eq_dec (c_ds c) (h_store h1) with
                   | None => Ok (set_out (h_out h1 ++ [EFailure]) h1, [])        (* shm get fails *)
                   | Some (b, z) => Ok (h1, [(c_daddr c, FData (c_idx c) me (mkPay me (c_idx c) (c_ds c) z b))])
                   end
          | JPay p =>
              match lookup N.eq_dec (p_ds p) (h_store h1) with
              | Some _ => Ok (h1, [])                                            (* ConflictError: already present *)
              | None => Ok (set_out (h_out h1 ++ [EPublished (p_ds p) (p_idx p)])
                              (set_store (h_store h1 ++ [(p_ds p, (p_val p, p_deser p))]) h1), [])
              end
          end
      end
  end.

(* environment assumption: a worker publishes a dataset at most once per host and never after the
   controller purged it there (a task runs once); other uses are not enabled *)
Definition publish (d : N) (b : bytes) (z : N) (h : hstate) : res hstate :=
  if mem N.eq_dec d (h_invalid h) then Err "publish after purge"
  else match lookup N.eq_dec d (h_store h) with
       | Some _ => Err "publish twice"
       | None => Ok (set_store (h_store h ++ [(d, (b, z))]) h)
       end.

Definition hstep (me : N) (now : Z) (h : hstate) (a : hact) : res (hstate * list (N * frame)) :=
  match a with
  | HClean => match h_crashed h with Some _ => Err "dead" | None => Ok (do_clean h, []) end
  | HListen => match h_crashed h with Some _ => Err "dead" | None => listen h end
  | HProcess => match process h with Ok h' => Ok (h', []) | Err e => Err e end
  | HRetryScan => match retry_scan now h with Ok h' => Ok (h', []) | Err e => Err e end
  | HRetryOne => match retry_one h with Ok h' => Ok (h', []) | Err e => Err e end
  | HRunJob k => run_job me now k h
  | HPublish d b z => match publish d b z h with Ok h' => Ok (h', []) | Err e => Err e end
  end.

(* ------------------------------------------------------------------ the system *)
Record state : Type := mkS { hosts : N -> hstate; net : list (N * frame); now : Z }.

Definition init : state := mkS (fun _ => h0) [] 1000000000000%Z.

Inductive action : Type :=
| ACommand (c : cmd) (sidx : N)    (* Bridge.transmit / fetch: [Syn(sidx, controller); command] to "data."+source *)
| APurge (h : N) (d : N)           (* DatasetPurge handed to the data server of host h *)
| ADeliver (a : N) (f : frame)
| ADrop (a : N) (f : frame)
| ADup (a : N) (f : frame)
| ATick (dt : N)
| AHost (h : N) (a : hact).

Definition set_host (s : state) (h : N) (hs : hstate) : N -> hstate :=
  fun x => if N.eq_dec x h then hs else hosts s x.

Definition step (s : state) (a : action) : res state :=
  match a with
  | ACommand c si => Ok (mkS (hosts s) (net s ++ [(c_src c, FCmd si 0%N c)]) (now s))
  | APurge h d => Ok (mkS (hosts s) (net s ++ [(h, FPurge d)]) (now s))
  | ADeliver a f =>
      match remove1 aframe_eq_dec (a, f) (net s) with
      | None => Err "frame not in flight"
      | Some n' => Ok (mkS (set_host s a (set_sockq (h_sockq (hosts s a) ++ [f]) (hosts s a))) n' (now s))
      end
  | ADrop a f =>
      match remove1 aframe_eq_dec (a, f) (net s) with
      | None => Err "frame not in flight"
      | Some n' => Ok (mkS (hosts s) n' (now s))
      end
  | ADup a f =>
      if in_dec aframe_eq_dec (a, f) (net s) then Ok (mkS (hosts s) (net s ++ [(a, f)]) (now s))
      else Err "frame not in flight"
  | ATick dt => Ok (mkS (hosts s) (net s) (now s + Z.of_N dt)%Z)
  | AHost h ha =>
      match hstep h (now s) (hosts s h) ha with
      | Err e => Err e
      | Ok (hs', out) => Ok (mkS (set_host s h hs') (net s ++ out) (now s))
      end
  end.

Fixpoint run (s : state) (acts : list action) : res state :=
  match acts with
  | [] => Ok s
  | a :: r => match step s a with Ok s' => run s' r | Err e => Err e end
  end.

(* ------------------------------------------------------------------ one iteration of recv_loop *)
(* The loop body as a scheduler that, from the current state, names the next atomic action.
   `picks` resolves what the thread pool is free to do while the loop blocks in wait(). *)
Inductive phase : Type := P0 | P1 | P2 | P3 | P4 | P5 | P6 | PDone.

Definition pending_tracked (h : hstate) : list nat :=
  map snd (filter (fun kv => job_pending (h_pool h) (snd kv)) (h_futs h)).

Definition pick_job (h : hstate) (picks : list nat) : option (nat * list nat) :=
  match pending_tracked h with
  | [] => None
  | pend =>
      let '(p, rest) := match picks with [] => (O, []) | p :: r => (p, r) end in
      Some (nth (p mod List.length pend) pend O, rest)
  end.

Definition is_dup (h : hstate) (f : frame) : bool :=
  match f with
  | FData si sa _ | FCmd si sa _ => mem syn_eq_dec (si, sa) (h_lacked h)
  | _ => false
  end.

Definition next (h : hstate) (ph : phase) (picks : list nat) : option hact * phase * list nat :=
  match h_crashed h with
  | Some _ => (None, PDone, picks)
  | None =>
  match ph with
  | P0 => (Some HClean, P1, picks)                                   (* maybe_clean: the pass *)
  | P1 => if Nat.leb cap (List.length (h_futs h))                          (* ... if len(futs) < cap: return; wait(FIRST_COMPLETED) *)
          then match pick_job h picks with
               | Some (k, r) => (Some (HRunJob k), P0, r)
               | None => (None, PDone, picks)
               end
          else (None, P2, picks)
  | P2 => match h_sockq h with                                       (* recv_messages: read until the socket is empty *)
          | [] => (None, P3, picks)                                  (* ... or _recv_one returns None (a dropped duplicate) *)
          | f :: _ => (Some HListen, if is_dup h f then P3 else P2, picks)
          end
  | P3 => match h_inbox h with                                       (* for m in messages *)
          | [] => (None, P4, picks)
          | MPurge _ :: _ =>
              match pick_job h picks with                            (* wait(ALL_COMPLETED) *)
              | Some (k, r) => (Some (HRunJob k), P3, r)
              | None => (Some HProcess, P3, picks)
              end
          | _ => (Some HProcess, P3, picks)
          end
  | P4 => (Some HRetryScan, P5, picks)
  | P5 => match h_rq h with                                          (* for e in queue: maybe_clean() ... *)
          | [] => (None, PDone, picks)
          | _ => (Some HClean, P6, picks)
          end
  | P6 => if Nat.leb cap (List.length (h_futs h))
          then match pick_job h picks with
               | Some (k, r) => (Some (HRunJob k), P5, r)
               | None => (None, PDone, picks)
               end
          else (Some HRetryOne, P5, picks)
  | PDone => (None, PDone, picks)
  end
  end.

Fixpoint iter (fuel : nat) (s : state) (h : N) (ph : phase) (picks : list nat) : res state :=
  match fuel with
  | O => Err "out of fuel"
  | S fuel' =>
      match next (hosts s h) ph picks with
      | (_, PDone, _) => Ok s
      | (None, ph', picks') => iter fuel' s h ph' picks'
      | (Some a, ph', picks') =>
          match step s (AHost h a) with
          | Ok s' => iter fuel' s' h ph' picks'
          | Err e => Err e
          end
      end
  end.

(* Listener.recv_messages alone (the controller's mlistener): read until empty or a dropped duplicate *)
Fixpoint recv_all (fuel : nat) (s : state) (h : N) : res state :=
  match fuel with
  | O => Err "out of fuel"
  | S fuel' =>
      match h_sockq (hosts s h) with
      | [] => Ok s
      | f :: _ =>
          let d := is_dup (hosts s h) f in
          match step s (AHost h HListen) with
          | Ok s' => if d then Ok s' else recv_all fuel' s' h
          | Err e => Err e
          end
      end
  end.

(* traces as the harness produces them: atomic actions, whole loop iterations, recv_messages of the controller *)
Inductive op : Type := OA (a : action) | OIter (h : N) (picks : list nat) | ORecv (h : N).

Definition iter_fuel : nat := 2000.

Fixpoint run_ops (s : state) (ops : list op) : res state :=
  match ops with
  | [] => Ok s
  | OA a :: r => match step s a with Ok s' => run_ops s' r | Err e => Err e end
  | OIter h picks :: r => match iter iter_fuel s h P0 picks with Ok s' => run_ops s' r | Err e => Err e end
  | ORecv h :: r => match recv_all iter_fuel s h with Ok s' => run_ops s' r | Err e => Err e end
  end.
