(* Proofs about Net/Multipart.v: what is sent on one socket does not depend on what happens on the
   other sockets, so whenever the frames of complete messages follow one another on every socket
   (in particular when every message has a socket to itself, as comms.send_data / callback do by
   opening one per call, or when the users of a shared socket exclude one another), every
   interleaving of the senders puts exactly those messages on the wire, each whole: sending a
   message is atomic, as Net/DataServer.v has it.  Two messages interleaved on ONE socket come
   out garbled (shared_socket_garbles). *)
From Coq Require Import List NArith Bool Lia.
From EKW Require Import Net.Multipart.
Import ListNotations.

(* the view of one socket: its buffer and its messages *)
Definition view (s : N) (st : wstate) : list N * list (N * list N) := (fst st s, filter (from s) (snd st)).

Definition vsend (s : N) (v : list N * list (N * list N)) (f : fsend) : list N * list (N * list N) :=
  if fs_more f then (fst v ++ [fs_tag f], snd v) else ([], snd v ++ [(s, fst v ++ [fs_tag f])]).

Lemma view_wsend : forall s st f,
  view s (wsend st f) = if on s f then vsend s (view s st) f else view s st.
Proof.
  intros s [bufs out] f. unfold view, wsend, vsend, on, from. simpl.
  destruct (fs_more f) eqn:M; simpl.
  - destruct (N.eqb (fs_sock f) s) eqn:E.
    + apply N.eqb_eq in E. subst s. rewrite N.eqb_refl. reflexivity.
    + rewrite N.eqb_sym, E. reflexivity.
  - rewrite filter_app. simpl. destruct (N.eqb (fs_sock f) s) eqn:E.
    + apply N.eqb_eq in E. subst s. rewrite N.eqb_refl. reflexivity.
    + rewrite N.eqb_sym, E. rewrite app_nil_r. reflexivity.
Qed.

(* locality: a socket sees only the sends made on it *)
Lemma view_wrun : forall s log st,
  view s (wrun st log) = fold_left (vsend s) (filter (on s) log) (view s st).
Proof.
  intros s log. induction log as [|f r IH]; intro st; simpl.
  - reflexivity.
  - unfold wrun in *. simpl. rewrite IH. rewrite view_wsend. destruct (on s f); reflexivity.
Qed.

Lemma vsend_more : forall s t n buf out,
  fold_left (vsend s) (repeat (mkFS s t true) n) (buf, out) = (buf ++ repeat t n, out).
Proof.
  intros s t n. induction n as [|n IH]; intros buf out; simpl.
  - rewrite app_nil_r. reflexivity.
  - unfold vsend at 2. simpl. rewrite IH. rewrite <- app_assoc. reflexivity.
Qed.

Lemma repeat_snoc : forall (t : N) n, repeat t n ++ [t] = repeat t (S n).
Proof. intros t n. induction n as [|n IH]; simpl; [reflexivity|]. rewrite IH. reflexivity. Qed.

(* one complete message sent on a socket whose buffer is empty: that message, whole, and the buffer is empty again *)
Lemma vsend_frames : forall s m out,
  fold_left (vsend s) (frames s m) ([], out) = ([], out ++ [whole s m]).
Proof.
  intros s [t n] out. unfold frames, whole. simpl. rewrite fold_left_app. rewrite vsend_more. simpl.
  unfold vsend. simpl. rewrite repeat_snoc. reflexivity.
Qed.

Lemma vsend_messages : forall s msgs out,
  fold_left (vsend s) (concat (map (frames s) msgs)) ([], out) = ([], out ++ map (whole s) msgs).
Proof.
  intros s msgs. induction msgs as [|m r IH]; intro out; simpl.
  - rewrite app_nil_r. reflexivity.
  - rewrite fold_left_app. rewrite vsend_frames. rewrite IH. rewrite <- app_assoc. reflexivity.
Qed.

(* the main statement: if what is sent on socket s is, in this order, the frames of the messages msgs -- however the
   sends on s are interleaved with sends on other sockets -- then s puts exactly these messages on the wire, each
   whole, once, in this order, and nothing is left in its buffer *)
Theorem uninterleaved_socket_sends_whole_messages : forall s log msgs,
  filter (on s) log = concat (map (frames s) msgs) ->
  filter (from s) (snd (wrun w0 log)) = map (whole s) msgs /\ fst (wrun w0 log) s = [].
Proof.
  intros s log msgs H.
  pose proof (view_wrun s log w0) as V. rewrite H in V. unfold view at 2 in V. simpl in V.
  rewrite vsend_messages in V. unfold view in V. simpl in V.
  inversion V as [[V1 V2]]. split; reflexivity.
Qed.

Lemma uniform_whole : forall s m, uniform (whole s m) = true.
Proof.
  intros s [t n]. unfold uniform, whole. simpl. induction n as [|n IH]; simpl; [reflexivity|].
  rewrite N.eqb_refl. exact IH.
Qed.

(* ... so when this holds of every socket, every message on the wire is the message of one sender *)
Theorem uninterleaved_wire_ok : forall log,
  (forall s, exists msgs, filter (on s) log = concat (map (frames s) msgs)) -> wire_ok log = true.
Proof.
  intros log H. unfold wire_ok. apply forallb_forall. intros [s fr] I.
  destruct (H s) as [msgs Hs]. destruct (uninterleaved_socket_sends_whole_messages s log msgs Hs) as [E _].
  assert (I' : In (s, fr) (filter (from s) (snd (wrun w0 log)))).
  { apply filter_In. split; [exact I|]. unfold from. simpl. apply N.eqb_refl. }
  rewrite E in I'. apply in_map_iff in I'. destruct I' as [m [Em _]]. rewrite <- Em. apply uniform_whole.
Qed.

(* in particular: every message on a socket of its own (comms.get_socket per call) *)
Corollary private_sockets_wire_ok : forall log,
  (forall s, filter (on s) log = [] \/ exists m, filter (on s) log = frames s m) -> wire_ok log = true.
Proof.
  intros log H. apply uninterleaved_wire_ok. intro s. destruct (H s) as [E | [m E]].
  - exists []. rewrite E. reflexivity.
  - exists [m]. rewrite E. simpl. rewrite app_nil_r. reflexivity.
Qed.

(* two senders (1 and 2), each with a message [Syn; header; value], on ONE socket (7), the second starting after the
   first one's Syn: a message of five frames [Syn1; Syn2; header1; header2; value1] and a message [value2] are put on the
   wire, neither payload arrives *)
Definition garbling_log : list fsend :=
  [mkFS 7 1 true; mkFS 7 2 true; mkFS 7 1 true; mkFS 7 2 true; mkFS 7 1 false; mkFS 7 2 false].

Theorem shared_socket_garbles :
  filter (fun f => N.eqb (fs_tag f) 1) garbling_log = frames 7 (1%N, 2) /\
  filter (fun f => N.eqb (fs_tag f) 2) garbling_log = frames 7 (2%N, 2) /\
  snd (wrun w0 garbling_log) = [(7%N, [1; 2; 1; 2; 1]%N); (7%N, [2]%N)] /\
  wire_ok garbling_log = false.
Proof. vm_compute. repeat split; reflexivity. Qed.

(* the same two senders with a socket each (7 and 8), same interleaving: both messages whole *)
Definition private_log : list fsend :=
  [mkFS 7 1 true; mkFS 8 2 true; mkFS 7 1 true; mkFS 8 2 true; mkFS 7 1 false; mkFS 8 2 false].

Example private_log_whole :
  (forall s, filter (on s) private_log = [] \/ exists m, filter (on s) private_log = frames s m) /\
  snd (wrun w0 private_log) = [whole 7 (1%N, 2); whole 8 (2%N, 2)].
Proof.
  split; [|vm_compute; reflexivity].
  intro s. destruct (N.eq_dec s 7) as [->|N7]; [right; exists (1%N, 2); reflexivity|].
  destruct (N.eq_dec s 8) as [->|N8]; [right; exists (2%N, 2); reflexivity|].
  left.
  assert (E7 : forall t m, on s (mkFS 7 t m) = false) by (intros t m; unfold on; cbn [fs_sock]; apply N.eqb_neq; congruence).
  assert (E8 : forall t m, on s (mkFS 8 t m) = false) by (intros t m; unfold on; cbn [fs_sock]; apply N.eqb_neq; congruence).
  unfold private_log. cbn [filter]. rewrite !E7, !E8. reflexivity.
Qed.
