(* Executable model of how a multipart message leaves a zmq PUSH socket, as far as
     src/cascade/executor/comms.py  send_data (socket.send_multipart((syn, header, value))),
                                    ReliableSender.send (send_multipart((syn, raw))), callback (socket.send(byt))
   depend on it: send_multipart is one `send` per frame, every frame but the last with SNDMORE;
   the library assembles a message PER SOCKET: a frame sent with SNDMORE is appended to the
   socket's buffer, the frame without SNDMORE completes the message, which then travels (and is
   received) as a whole.  The frame sends of different threads are the atomic steps here, so a
   log of sends is one particular interleaving of what the threads do.
   Net/DataServer.v treats a pool job, and with it the one message it sends, as atomic; this file
   is what that rests on (MultipartProofs.v): it is sound exactly when the frames of two messages
   never interleave on one socket.
   A frame is represented by the identity of its sender (a pool job run, a loop, the controller):
   enough to say which frames ended up in the same message.
   No proofs in this file. *)
From Coq Require Import List NArith Bool.
Import ListNotations.

(* one socket.send(frame, flags): the socket, who sends, SNDMORE *)
Record fsend : Type := mkFS { fs_sock : N; fs_tag : N; fs_more : bool }.

(* per-socket assembly buffers, and the messages put on the wire so far: (socket, sender of each frame) *)
Definition wstate : Type := ((N -> list N) * list (N * list N))%type.

Definition w0 : wstate := (fun _ => [], []).

Definition wsend (st : wstate) (f : fsend) : wstate :=
  let b := fst st (fs_sock f) ++ [fs_tag f] in
  if fs_more f
  then (fun s => if N.eqb s (fs_sock f) then b else fst st s, snd st)
  else (fun s => if N.eqb s (fs_sock f) then [] else fst st s, snd st ++ [(fs_sock f, b)]).

Definition wrun (st : wstate) (log : list fsend) : wstate := fold_left wsend log st.

(* a message as its sender means it: `n` frames with SNDMORE and a last one without, all on socket s *)
Definition frames (s : N) (m : N * nat) : list fsend :=
  repeat (mkFS s (fst m) true) (snd m) ++ [mkFS s (fst m) false].

(* ... and as it should arrive: all its frames, nothing else *)
Definition whole (s : N) (m : N * nat) : N * list N := (s, repeat (fst m) (S (snd m))).

Definition on (s : N) (f : fsend) : bool := N.eqb (fs_sock f) s.
Definition from (s : N) (m : N * list N) : bool := N.eqb (fst m) s.

(* every message on the wire consists of frames of ONE sender *)
Definition uniform (m : N * list N) : bool :=
  match snd m with
  | [] => false
  | t :: r => forallb (N.eqb t) r
  end.

Definition wire_ok (log : list fsend) : bool := forallb uniform (snd (wrun w0 log)).
