(* C05 -- proofs about the timed worker phase of Executor.terminate (model: Net/Teardown.v). *)
From Coq Require Import List ZArith Bool Arith Lia.
From EKW Require Import Net.Executor Net.Teardown.
Import ListNotations.
Local Open Scope Z_scope.

(* ------------------------------------------------------------------ any policy *)
(* what a way of choosing timeouts must satisfy: always a number, and one poll(2) accepts *)
Definition usable (policy : Z -> option Z) : Prop :=
  forall now, exists t, policy now = Some t /\ t <= max_timeout.

Definition join_ok (x : tact) : Prop :=
  match x with TJoin _ None => False | TJoin _ (Some t) => t <= max_timeout | _ => True end.

Lemma join_usable : forall c now t, t <= max_timeout ->
  (exists e, join c now (Some t) = JExit e /\ now <= e) \/ (exists e, join c now (Some t) = JTimeout e /\ now <= e /\ t_alive c = true).
Proof.
  intros c now t Ht. destruct c as [|z|d|]; cbn [join t_alive].
  - left. exists now. split; [reflexivity|lia].
  - left. exists now. split; [reflexivity|lia].
  - destruct (Z.ltb_spec max_timeout t) as [L|L]; [lia|].
    destruct (Z.leb_spec d (now + Z.max 0 t)) as [D|D].
    + left. eexists. split; [reflexivity|lia].
    + right. eexists. split; [reflexivity|split; [lia|reflexivity]].
  - destruct (Z.ltb_spec max_timeout t) as [L|L]; [lia|].
    right. eexists. split; [reflexivity|split; [lia|reflexivity]].
Qed.

(* with a usable policy the loop always ends, every worker is dead afterwards, and no join was
   given a timeout it cannot take *)
Theorem reap_with_usable : forall policy, usable policy -> forall ws now,
  let '(ws', a, x) := reap_with policy now ws in
  no_live_worker ws' = true /\ (exists e, x = Some e /\ now <= e) /\ Forall join_ok a.
Proof.
  intros policy U ws. induction ws as [|[w c] r IH]; intros now.
  - cbn. split; [reflexivity|]. split; [exists now; split; [reflexivity|lia]|constructor].
  - cbn [reap_with]. destruct (U now) as [t [Pt Ht]].
    destruct c as [|z|d|].
    + specialize (IH now). destruct (reap_with policy now r) as [[r' a] x]. cbn. exact IH.
    + specialize (IH now). destruct (reap_with policy now r) as [[r' a] x].
      destruct IH as [N [E F]]. cbn. split; [exact N|]. split; [exact E|]. constructor; [exact I|exact F].
    + rewrite Pt. destruct (join_usable (TLeaves d) now t Ht) as [[e [J Le]]|[e [J [Le _]]]]; rewrite J;
        specialize (IH e); destruct (reap_with policy e r) as [[r' a] x]; destruct IH as [N [[e' [E Le']] F]]; cbn;
        (split; [exact N|]); (split; [exists e'; split; [exact E|lia]|]).
      * constructor; [exact Ht|exact F].
      * constructor; [exact Ht|]. constructor; [exact I|]. constructor; [exact I|exact F].
    + rewrite Pt. cbn [join]. destruct (Z.ltb_spec max_timeout t) as [L|_]; [lia|].
      specialize (IH (now + Z.max 0 t)). destruct (reap_with policy (now + Z.max 0 t) r) as [[r' a] x].
      destruct IH as [N [[e' [E Le']] F]]. cbn. split; [exact N|]. split; [exists e'; split; [exact E|lia]|].
      constructor; [exact Ht|]. constructor; [exact I|]. constructor; [exact I|exact F].
Qed.

(* ------------------------------------------------------------------ the policy of the code *)
(* the remaining time is never more than the grace period only while `now` has not run backwards
   past the moment the deadline was taken; this is the invariant of the loop *)
Definition join_in_grace (x : tact) : Prop :=
  match x with TJoin _ None => False | TJoin _ (Some t) => 0 <= t <= grace | _ => True end.

Theorem reap_t_bounded : forall mono0 now0 ws now, now0 <= now <= now0 + grace ->
  let '(ws', a, x) := reap_with (code_policy mono0 now0) now ws in
  no_live_worker ws' = true /\ (exists e, x = Some e /\ now <= e <= now0 + grace) /\ Forall join_in_grace a.
Proof.
  intros mono0 now0 ws. induction ws as [|[w c] r IH]; intros now B.
  - cbn. split; [reflexivity|]. split; [exists now; split; [reflexivity|lia]|constructor].
  - assert (T : code_policy mono0 now0 now = Some (now0 + grace - now)) by (unfold code_policy; f_equal; lia).
    set (t := now0 + grace - now) in *.
    assert (Ht : 0 <= t <= grace) by (unfold t; lia).
    assert (Hm : t <= max_timeout) by (unfold max_timeout; unfold grace in Ht; lia).
    destruct c as [|z|d|]; cbn [reap_with]; cbv zeta; rewrite ?T.
    + specialize (IH now B). destruct (reap_with (code_policy mono0 now0) now r) as [[r' a] x]. cbn. exact IH.
    + specialize (IH now B). destruct (reap_with (code_policy mono0 now0) now r) as [[r' a] x].
      destruct IH as [N [E F]]. cbn. split; [exact N|]. split; [exact E|]. constructor; [exact I|exact F].
    + cbn [join]. destruct (Z.ltb_spec max_timeout t) as [L|_]; [lia|].
      destruct (Z.leb_spec d (now + Z.max 0 t)) as [D|D].
      * assert (B' : now0 <= Z.max now d <= now0 + grace) by (unfold t in D; lia).
        specialize (IH _ B'). destruct (reap_with (code_policy mono0 now0) (Z.max now d) r) as [[r' a] x].
        destruct IH as [N [[e [E Le]] F]]. cbn. split; [exact N|]. split; [exists e; split; [exact E|lia]|].
        constructor; [exact Ht|exact F].
      * assert (B' : now0 <= now + Z.max 0 t <= now0 + grace) by (unfold t; lia).
        specialize (IH _ B'). destruct (reap_with (code_policy mono0 now0) (now + Z.max 0 t) r) as [[r' a] x].
        destruct IH as [N [[e [E Le]] F]]. cbn. split; [exact N|]. split; [exists e; split; [exact E|lia]|].
        constructor; [exact Ht|]. constructor; [exact I|]. constructor; [exact I|exact F].
    + cbn [join]. destruct (Z.ltb_spec max_timeout t) as [L|_]; [lia|].
      assert (B' : now0 <= now + Z.max 0 t <= now0 + grace) by (unfold t; lia).
      specialize (IH _ B'). destruct (reap_with (code_policy mono0 now0) (now + Z.max 0 t) r) as [[r' a] x].
      destruct IH as [N [[e [E Le]] F]]. cbn. split; [exact N|]. split; [exists e; split; [exact E|lia]|].
      constructor; [exact Ht|]. constructor; [exact I|]. constructor; [exact I|exact F].
Qed.

(* whatever the epoch of the monotonic clock, the whole worker phase ends within the grace period
   counted from the moment the deadline was taken, with every worker dead and every join given a
   timeout between 0 and the grace period *)
Corollary reap_t_within_grace : forall mono0 now0 ws,
  let '(ws', a, x) := reap_t mono0 now0 ws in
  no_live_worker ws' = true /\ (exists e, x = Some e /\ now0 <= e <= now0 + grace) /\ Forall join_in_grace a.
Proof.
  intros mono0 now0 ws. unfold reap_t. apply reap_t_bounded. unfold grace. lia.
Qed.

(* ------------------------------------------------------------------ refinement of Net/Executor.terminate *)
(* the timed loop does exactly what the untimed model says of the workers: the same workers are
   killed, in the same order, and the states afterwards are the reaped ones.  (The deadline is taken
   right after the workers were asked, at time 0: sending the requests takes no time in the model.) *)
Lemma kills_join w t a : kills (TJoin w t :: a) = kills a.
Proof. reflexivity. Qed.
Lemma kills_kill w a : kills (TKill w :: a) = KillWorker w :: kills a.
Proof. reflexivity. Qed.
Lemma kills_dead w a : kills (TJoinDead w :: a) = kills a.
Proof. reflexivity. Qed.
Lemma kill_acts_cons w c l :
  kill_acts ((w, c) :: l) = match c with Stuck => [KillWorker w] | _ => [] end ++ kill_acts l.
Proof. reflexivity. Qed.

Theorem reap_t_refines : forall mono0 ws now, 0 <= now <= grace ->
  let '(ws', a, _) := reap_with (code_policy mono0 0) now ws in
  abs_workers ws' = map (fun p => (fst p, reap (snd p))) (abs_workers ws)
  /\ kills a = kill_acts (abs_workers ws).
Proof.
  intros mono0 ws. unfold abs_workers. induction ws as [|[w c] r IH]; intros now B.
  - cbn. split; reflexivity.
  - assert (T : code_policy mono0 0 now = Some (grace - now)) by (unfold code_policy; f_equal; lia).
    set (t := grace - now) in *.
    assert (Ht : 0 <= t <= grace) by (unfold t; lia).
    assert (Hm : (max_timeout <? t) = false) by (apply Z.ltb_ge; unfold max_timeout, grace in *; lia).
    destruct c as [|z|d|]; cbn [reap_with]; cbv zeta; rewrite ?T; cbn [join]; rewrite ?Hm.
    + specialize (IH now B). destruct (reap_with (code_policy mono0 0) now r) as [[r' a] x].
      destruct IH as [A K]. cbn [map fst snd abs_stat reap]. rewrite kill_acts_cons, A, K. split; reflexivity.
    + specialize (IH now B). destruct (reap_with (code_policy mono0 0) now r) as [[r' a] x].
      destruct IH as [A K]. cbn [map fst snd abs_stat reap]. rewrite kills_dead, kill_acts_cons, A, K. split; reflexivity.
    + destruct (Z.leb_spec d (now + Z.max 0 t)) as [D|D].
      * assert (B' : 0 <= Z.max now d <= grace) by (unfold t in D; lia).
        specialize (IH _ B'). destruct (reap_with (code_policy mono0 0) (Z.max now d) r) as [[r' a] x].
        destruct IH as [A K]. cbn [map fst snd abs_stat]. rewrite kills_join, kill_acts_cons, A, K.
        destruct (Z.leb_spec d grace) as [G|G]; [|unfold t in D; lia]. split; reflexivity.
      * assert (B' : 0 <= now + Z.max 0 t <= grace) by (unfold t; lia).
        specialize (IH _ B'). destruct (reap_with (code_policy mono0 0) (now + Z.max 0 t) r) as [[r' a] x].
        destruct IH as [A K]. cbn [map fst snd abs_stat]. rewrite kills_join, kills_kill, kills_dead, kill_acts_cons, A, K.
        destruct (Z.leb_spec d grace) as [G|G]; [unfold t in D; lia|]. split; reflexivity.
    + assert (B' : 0 <= now + Z.max 0 t <= grace) by (unfold t; lia).
      specialize (IH _ B'). destruct (reap_with (code_policy mono0 0) (now + Z.max 0 t) r) as [[r' a] x].
      destruct IH as [A K]. cbn [map fst snd abs_stat reap]. rewrite kills_join, kills_kill, kills_dead, kill_acts_cons, A, K. split; reflexivity.
Qed.

(* stated against Executor.terminate itself *)
Corollary terminate_is_timed : forall mono0 e tws, terminating e = false -> workers e = abs_workers tws ->
  let '(ws', a, x) := reap_t mono0 0 tws in
  workers (fst (terminate e)) = abs_workers ws'
  /\ snd (terminate e) = shutdown_msgs (workers e) ++ kills a
       ++ (if is_alive (shm e) then [ShmShutdown] else []) ++ (if is_alive (ds e) then [KillDs] else [])
  /\ (exists end_, x = Some end_ /\ 0 <= end_ <= grace).
Proof.
  intros mono0 e tws NT W.
  pose proof (reap_t_refines mono0 tws 0 ltac:(unfold grace; lia)) as R.
  pose proof (reap_t_within_grace mono0 0 tws) as G.
  unfold reap_t in *. destruct (reap_with (code_policy mono0 0) 0 tws) as [[ws' a] x].
  destruct R as [A K]. destruct G as [_ [[en [E Le]] _]].
  unfold terminate. rewrite NT. cbn [fst snd workers]. rewrite W, A, K.
  split; [reflexivity|]. split; [reflexivity|]. exists en. split; [exact E|lia].
Qed.

(* ------------------------------------------------------------------ why the hypotheses matter *)
(* deadline from the wall clock, remaining time against the monotonic clock: with the epochs a
   running machine has, the timeout does not fit poll(2), join raises, and the stuck worker stays *)
Example mixed_clocks_leave_a_child :
  let '(ws', a, x) := reap_with (mixed_policy 1234500 1790000000000 0) 0 [(0%nat, TLeaves 0); (1%nat, TNever)] in
  no_live_worker ws' = false /\ kills a = [] /\ x = Some 0
  /\ a = [TJoin 0%nat (Some 1789998770500); TJoin 1%nat (Some 1789998770500)].
Proof. vm_compute. repeat split. Qed.

(* no timeout at all: a worker that never leaves blocks the teardown for ever *)
Example no_timeout_never_ends :
  snd (reap_with (fun _ => None) 0 [(0%nat, TLeaves 100); (1%nat, TNever); (2%nat, TLeaves 0)]) = None.
Proof. vm_compute. reflexivity. Qed.

(* the code's policy on the same workers, any epoch *)
Example code_policy_example :
  reap_t 1234500 0 [(0%nat, TLeaves 2000); (1%nat, TNever); (2%nat, TLeaves 4000); (3%nat, TLeaves 6000); (4%nat, TExited 1)]
  = ([(0%nat, TExited 0); (1%nat, TExited (-9)); (2%nat, TExited 0); (3%nat, TExited (-9)); (4%nat, TExited 1)],
     [TJoin 0%nat (Some 5000); TJoin 1%nat (Some 3000); TKill 1%nat; TJoinDead 1%nat; TJoin 2%nat (Some 0); TJoin 3%nat (Some 0);
      TKill 3%nat; TJoinDead 3%nat; TJoinDead 4%nat],
     Some 5000).
Proof. vm_compute. reflexivity. Qed.

(* ================================================================== the whole teardown (round 5) *)
Lemma exited_workers_nonneg : forall ws, 0 <= exited_workers ws.
Proof.
  induction ws as [|[w c] r IH]; cbn [exited_workers fold_right snd]; [lia|].
  fold (exited_workers r). destruct c; lia.
Qed.

(* the ask phase costs one linger per worker whose process is gone, nothing else *)
Lemma ask_end : forall ws now, snd (ask now ws) = now + linger * exited_workers ws.
Proof.
  induction ws as [|[w c] r IH]; intros now; cbn [ask exited_workers fold_right snd]; [lia|].
  fold (exited_workers r).
  destruct c as [|z|d|].
  - specialize (IH now). destruct (ask now r) as [r' e]. cbn [snd] in *. exact IH.
  - specialize (IH (now + linger)). destruct (ask (now + linger) r) as [r' e]. cbn [snd] in *. lia.
  - specialize (IH now). destruct (ask now r) as [r' e]. cbn [snd] in *. exact IH.
  - specialize (IH now). destruct (ask now r) as [r' e]. cbn [snd] in *. exact IH.
Qed.

(* the teardown of the code: whatever the workers are doing, however many of them are dead, whatever
   the server holds and however long its sweep takes (as long as it gets through it): every worker is
   dead afterwards, NO SEGMENT IS LEFT, and the whole thing ends within
   (one linger per dead worker) + (the grace period) + (the sweep) *)
Theorem teardown_t_clean : forall mono0 ws s, wedged s = false ->
  let '(ws', a, t_ask, (lft, sa, x)) := teardown_t mono0 ws s in
  no_live_worker ws' = true /\ lft = false /\ Forall join_in_grace a
  /\ t_ask = linger * exited_workers ws
  /\ (forall t, In (SJoin (Some t)) sa -> False) /\ ~ In SKill sa
  /\ exists e, x = Some e /\ t_ask <= e <= t_ask + grace + sweep_of s.
Proof.
  intros mono0 ws s W. unfold teardown_t, teardown_with.
  pose proof (ask_end ws 0) as AE. pose proof (exited_workers_nonneg ws) as NN.
  destruct (ask 0 ws) as [ws1 t_ask]. cbn [snd] in AE.
  pose proof (reap_t_bounded mono0 t_ask ws1 t_ask ltac:(unfold grace; lia)) as R.
  destruct (reap_with (code_policy mono0 t_ask) t_ask ws1) as [[ws2 a] x].
  destruct R as [N [[e [E B]] F]]. subst x.
  destruct s as [|segs sweep|segs]; [| |discriminate W]; cbn [shm_with sweep_of].
  - split; [exact N|]. split; [reflexivity|]. split; [exact F|]. split; [lia|].
    split; [intros t []|]. split; [intros []|]. exists e. split; [reflexivity|lia].
  - split; [exact N|]. split; [reflexivity|]. split; [exact F|]. split; [lia|].
    split; [intros t [H|[]]; discriminate H|]. split; [intros [H|[]]; discriminate H|].
    eexists. split; [reflexivity|lia].
Qed.

(* the shm phase under ANY timeout: segments stay behind exactly when the server holds some and is
   given less than its sweep needs *)
Theorem shm_with_left_iff : forall policy now segs sweep t, policy now = Some t -> t <= max_timeout ->
  fst (fst (shm_with policy now (SHolds segs sweep))) = true <-> ((0 < segs)%nat /\ Z.max 0 t < Z.max 0 sweep).
Proof.
  intros policy now segs sweep t P L. cbn [shm_with]. rewrite P.
  destruct (Z.ltb_spec max_timeout t) as [X|_]; [lia|].
  destruct (Z.leb_spec (Z.max 0 sweep) (Z.max 0 t)) as [D|D]; cbn [fst].
  - split; [discriminate|]. intros [_ H]. lia.
  - rewrite Nat.ltb_lt. split; [intros H; split; [exact H|lia]|intros [H _]; exact H].
Qed.

(* without a timeout nothing is ever left, and the phase ends as soon as the sweep is through *)
Theorem shm_with_wait_clean : forall policy now segs sweep, policy now = None ->
  shm_with policy now (SHolds segs sweep) = (false, [SJoin None], Some (now + Z.max 0 sweep)).
Proof. intros policy now segs sweep P. cbn [shm_with]. rewrite P. reflexivity. Qed.

(* why this matters: ONE deadline for the whole teardown, taken before the workers are asked.
   (1) five workers of six are dead (an OOM-killer wave): the undeliverable shutdown requests use up the
   deadline, the server is killed 0 ms after it acknowledged; (2) one worker does not leave within the
   grace period: it is killed at the deadline as it should be, and nothing is left for the server.
   In both the code itself leaves nothing. *)
Example one_deadline_leaves_segments :
  let dead5 := [(0%nat, TLeaves 0); (1%nat, TExited (-9)); (2%nat, TExited (-9)); (3%nat, TExited (-9)); (4%nat, TExited (-9)); (5%nat, TExited (-9))] in
  let busy1 := [(0%nat, TLeaves 0); (1%nat, TNever)] in
  snd (teardown_one_deadline 1234500 dead5 (SHolds 3 2)) = (true, [SJoin (Some 0); SKill], Some 5000)
  /\ snd (teardown_t 1234500 dead5 (SHolds 3 2)) = (false, [SJoin None], Some 5002)
  /\ snd (teardown_one_deadline 1234500 busy1 (SHolds 3 2)) = (true, [SJoin (Some 0); SKill], Some 5000)
  /\ snd (teardown_t 1234500 busy1 (SHolds 3 2)) = (false, [SJoin None], Some 5002)
  (* with idle workers the neighbour behaves: that is why no passing-run test sees it *)
  /\ snd (teardown_one_deadline 1234500 [(0%nat, TLeaves 0); (1%nat, TLeaves 0)] (SHolds 3 2)) = (false, [SJoin (Some 5000)], Some 2).
Proof. vm_compute. repeat split. Qed.

(* a server that never gets through its sweep: the code waits for ever (outside the property: the
   server has not died; recorded because the model can say it) *)
Example wedged_server_blocks_the_code :
  snd (snd (teardown_t 0 [(0%nat, TLeaves 0)] (SWedged 1))) = None.
Proof. vm_compute. reflexivity. Qed.

(* ------------------------------------------------------------------ refinement, with the ask phase *)
(* reap_t_refines for a deadline taken at any moment now0: a worker is Net/Executor.v's `Stuck`
   exactly when it leaves after the deadline now0 + grace *)
Lemma kill_acts_cons_at w c l :
  kill_acts ((w, c) :: l) = match c with Stuck => [KillWorker w] | _ => [] end ++ kill_acts l.
Proof. reflexivity. Qed.

Theorem reap_refines_at : forall mono0 now0 ws now, now0 <= now <= now0 + grace ->
  let '(ws', a, _) := reap_with (code_policy mono0 now0) now ws in
  abs_workers_at (now0 + grace) ws' = map (fun p => (fst p, reap (snd p))) (abs_workers_at (now0 + grace) ws)
  /\ kills a = kill_acts (abs_workers_at (now0 + grace) ws).
Proof.
  intros mono0 now0 ws. unfold abs_workers_at. induction ws as [|[w c] r IH]; intros now B.
  - cbn. split; reflexivity.
  - assert (T : code_policy mono0 now0 now = Some (now0 + grace - now)) by (unfold code_policy; f_equal; lia).
    set (t := now0 + grace - now) in *.
    assert (Ht : 0 <= t <= grace) by (unfold t; lia).
    assert (Hm : (max_timeout <? t) = false) by (apply Z.ltb_ge; unfold max_timeout, grace in *; lia).
    destruct c as [|z|d|]; cbn [reap_with]; cbv zeta; rewrite ?T; cbn [join]; rewrite ?Hm.
    + specialize (IH now B). destruct (reap_with (code_policy mono0 now0) now r) as [[r' a] x].
      destruct IH as [A K]. cbn [map fst snd abs_stat_at reap]. rewrite kill_acts_cons, A, K. split; reflexivity.
    + specialize (IH now B). destruct (reap_with (code_policy mono0 now0) now r) as [[r' a] x].
      destruct IH as [A K]. cbn [map fst snd abs_stat_at reap]. rewrite kills_dead, kill_acts_cons, A, K. split; reflexivity.
    + destruct (Z.leb_spec d (now + Z.max 0 t)) as [D|D].
      * assert (B' : now0 <= Z.max now d <= now0 + grace) by (unfold t in D; lia).
        specialize (IH _ B'). destruct (reap_with (code_policy mono0 now0) (Z.max now d) r) as [[r' a] x].
        destruct IH as [A K]. cbn [map fst snd abs_stat_at]. rewrite kills_join, kill_acts_cons, A, K.
        destruct (Z.leb_spec d (now0 + grace)) as [G|G]; [|unfold t in D; lia]. split; reflexivity.
      * assert (B' : now0 <= now + Z.max 0 t <= now0 + grace) by (unfold t; lia).
        specialize (IH _ B'). destruct (reap_with (code_policy mono0 now0) (now + Z.max 0 t) r) as [[r' a] x].
        destruct IH as [A K]. cbn [map fst snd abs_stat_at]. rewrite kills_join, kills_kill, kills_dead, kill_acts_cons, A, K.
        destruct (Z.leb_spec d (now0 + grace)) as [G|G]; [unfold t in D; lia|]. split; reflexivity.
    + assert (B' : now0 <= now + Z.max 0 t <= now0 + grace) by (unfold t; lia).
      specialize (IH _ B'). destruct (reap_with (code_policy mono0 now0) (now + Z.max 0 t) r) as [[r' a] x].
      destruct IH as [A K]. cbn [map fst snd abs_stat_at reap]. rewrite kills_join, kills_kill, kills_dead, kill_acts_cons, A, K. split; reflexivity.
Qed.

(* the whole timed teardown IS Executor.terminate: the workers Net/Executor.v calls Stuck are the ones
   that leave after (end of the ask phase + grace); the same workers are killed, the same states result,
   the shm server is asked and waited for iff it is alive, and -- as that model says -- its segments are gone *)
Corollary teardown_is_terminate : forall mono0 e tws s, terminating e = false -> wedged s = false ->
  let '(ws', a, t_ask, (lft, sa, x)) := teardown_t mono0 tws s in
  workers e = abs_workers_at (t_ask + grace) (fst (ask 0 tws)) -> is_alive (shm e) = abs_shm s ->
  workers (fst (terminate e)) = abs_workers_at (t_ask + grace) ws'
  /\ snd (terminate e) = shutdown_msgs (workers e) ++ kills a
       ++ (if is_alive (shm e) then [ShmShutdown] else []) ++ (if is_alive (ds e) then [KillDs] else [])
  /\ (sa = if is_alive (shm e) then [SJoin None] else [])
  /\ lft = false /\ (is_alive (shm e) = true -> segs (fst (terminate e)) = []).
Proof.
  intros mono0 e tws s NT W. unfold teardown_t, teardown_with.
  destruct (ask 0 tws) as [ws1 t_ask]. cbn [fst].
  pose proof (reap_refines_at mono0 t_ask ws1 t_ask ltac:(unfold grace; lia)) as R.
  pose proof (reap_t_bounded mono0 t_ask ws1 t_ask ltac:(unfold grace; lia)) as G.
  destruct (reap_with (code_policy mono0 t_ask) t_ask ws1) as [[ws2 a] x].
  destruct R as [A K]. destruct G as [_ [[en [E Le]] _]]. subst x.
  assert (S : shm_with (fun _ => None) en s = (false, if abs_shm s then [SJoin None] else [], snd (shm_with (fun _ => None) en s))).
  { destruct s as [|sg sw|sg]; [reflexivity|reflexivity|discriminate W]. }
  rewrite S. intros WE SE.
  unfold terminate. rewrite NT. cbn [fst snd workers segs]. rewrite WE, A, K, <- SE.
  split; [reflexivity|]. split; [reflexivity|]. split; [reflexivity|]. split; [reflexivity|].
  intros H. rewrite H. reflexivity.
Qed.
