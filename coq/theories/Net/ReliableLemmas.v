(* Specifications of the component functions of Net/Reliable.v (no global state yet). *)
From Coq Require Import List NArith ZArith String Bool Lia.
From EKW Require Import Net.Frames Net.FramesProofs Net.Reliable.
Import ListNotations.
Open Scope list_scope.

Lemma key_eqb_eq : forall a b : key, key_eqb a b = true <-> a = b.
Proof.
  intros [a1 a2] [b1 b2]. unfold key_eqb. cbn [fst snd]. rewrite andb_true_iff, !N.eqb_eq.
  split; [intros [-> ->]; reflexivity | intros H; inversion H; auto].
Qed.

Lemma kmem_In : forall k l, kmem k l = true <-> In k l.
Proof.
  intros k l. induction l as [|x r IH]; cbn [kmem In].
  - split; [discriminate | tauto].
  - rewrite orb_true_iff, IH, key_eqb_eq. split; intros [H|H]; auto.
Qed.

Lemma kmem_false : forall k l, kmem k l = false <-> ~ In k l.
Proof. intros k l. rewrite <- kmem_In. destruct (kmem k l); split; congruence. Qed.

Lemma upd_same : forall V (f : addr -> V) a v, upd f a v a = v.
Proof. intros. unfold upd. rewrite N.eqb_refl. reflexivity. Qed.

Lemma upd_other : forall V (f : addr -> V) a v x, x <> a -> upd f a v x = f x.
Proof. intros. unfold upd. destruct (N.eqb_spec x a); [contradiction | reflexivity]. Qed.

Lemma NoDup_app_disj : forall A (l1 l2 : list A), NoDup l1 -> NoDup l2 -> (forall x, In x l1 -> ~ In x l2) -> NoDup (l1 ++ l2).
Proof.
  intros A l1. induction l1 as [|x r IH]; intros l2 H1 H2 Hd; cbn [app]; [exact H2|].
  inversion H1 as [|? ? Hn Hr]; subst. constructor.
  - intros Hin. apply in_app_or in Hin. destruct Hin as [Hin|Hin]; [contradiction|]. apply (Hd x); [left; reflexivity | exact Hin].
  - apply IH; [exact Hr | exact H2|]. intros y Hy. apply Hd. right. exact Hy.
Qed.

Lemma NoDup_snoc : forall A (l : list A) x, NoDup l -> ~ In x l -> NoDup (l ++ [x]).
Proof.
  intros A l x H Hn. apply NoDup_app_disj; [exact H | constructor; [intros [] | constructor]|].
  intros y Hy [<-|[]]. contradiction.
Qed.

(* ------------------------------------------------------------------ keysof *)
Lemma keysof_app : forall l1 l2, keysof (l1 ++ l2) = keysof l1 ++ keysof l2.
Proof. intros. unfold keysof. apply flat_map_app. Qed.

Lemma keysof_In : forall k l, In k (keysof l) <-> exists p, In (Some k, p) l.
Proof.
  intros k l. unfold keysof. rewrite in_flat_map. split.
  - intros [[ok p] [Hin Hk]]. cbn [fst] in Hk. destruct ok as [k'|]; [|contradiction].
    destruct Hk as [->|[]]. exists p. exact Hin.
  - intros [p Hin]. exists (Some k, p). split; [exact Hin | left; reflexivity].
Qed.

Lemma keysof_cons_some : forall k p l, keysof ((Some k, p) :: l) = k :: keysof l.
Proof. reflexivity. Qed.
Lemma keysof_cons_none : forall p l, keysof ((None, p) :: l) = keysof l.
Proof. reflexivity. Qed.

(* ------------------------------------------------------------------ dicts *)
Lemma dict_set_In : forall V k (v : V) d k' v', In (k', v') (dict_set k v d) -> (k' = k /\ v' = v) \/ In (k', v') d.
Proof.
  intros V k v d. induction d as [|[k0 v0] r IH]; intros k' v' H; cbn [dict_set] in H.
  - destruct H as [H|[]]. inversion H. auto.
  - destruct (N.eqb_spec k k0) as [->|Hne].
    + destruct H as [H|H]; [inversion H; auto | right; right; exact H].
    + destruct H as [H|H]; [right; left; exact H|]. destruct (IH _ _ H); auto. right. right. assumption.
Qed.

Lemma dict_set_has : forall V k (v : V) d, In (k, v) (dict_set k v d).
Proof.
  intros V k v d. induction d as [|[k0 v0] r IH]; cbn [dict_set].
  - left. reflexivity.
  - destruct (N.eqb_spec k k0) as [->|Hne]; [left; reflexivity | right; exact IH].
Qed.

Lemma dict_set_keeps : forall V k (v : V) d k' v', In (k', v') d -> k' <> k -> In (k', v') (dict_set k v d).
Proof.
  intros V k v d. induction d as [|[k0 v0] r IH]; intros k' v' H Hne; cbn [dict_set]; [destruct H|].
  destruct (N.eqb_spec k k0) as [->|Hne0].
  - destruct H as [H|H]; [inversion H; subst; contradiction | right; exact H].
  - destruct H as [H|H]; [left; exact H | right; apply IH; assumption].
Qed.

Lemma dict_set_keys_fresh : forall V k (v : V) d, ~ In k (map fst d) -> map fst (dict_set k v d) = map fst d ++ [k].
Proof.
  intros V k v d. induction d as [|[k0 v0] r IH]; intros H; cbn [dict_set map fst app]; [reflexivity|].
  cbn [map fst In] in H. destruct (N.eqb_spec k k0) as [->|Hne]; [exfalso; apply H; left; reflexivity|].
  cbn [map fst]. f_equal. apply IH. tauto.
Qed.

Lemma dict_pop_In : forall V k (d : list (N * V)) k' v', In (k', v') (dict_pop k d) <-> In (k', v') d /\ k' <> k.
Proof.
  intros. unfold dict_pop. rewrite filter_In. cbn [fst]. rewrite negb_true_iff, N.eqb_neq. intuition congruence.
Qed.

Lemma NoDup_map_filter : forall A B (f : A -> B) (p : A -> bool) l, NoDup (map f l) -> NoDup (map f (filter p l)).
Proof.
  intros A B f p l. induction l as [|x r IH]; intros H; cbn [filter map]; [constructor|].
  cbn [map] in H. inversion H as [|? ? Hn Hr]; subst. destruct (p x); cbn [map]; [|auto].
  constructor; [|auto]. intros Hin. apply Hn. rewrite in_map_iff in *. destruct Hin as [y [Hy Hin]].
  exists y. split; [exact Hy|]. apply filter_In in Hin. tauto.
Qed.

Lemma dict_pop_keys_nodup : forall V k (d : list (N * V)), NoDup (map fst d) -> NoDup (map fst (dict_pop k d)).
Proof. intros. unfold dict_pop. apply NoDup_map_filter. assumption. Qed.

Lemma nodup_keys_functional : forall V (d : list (N * V)) k v v', NoDup (map fst d) -> In (k, v) d -> In (k, v') d -> v = v'.
Proof.
  intros V d. induction d as [|[k0 v0] r IH]; intros k v v' Hnd H H'; [destruct H|].
  cbn [map fst] in Hnd. inversion Hnd as [|? ? Hn Hr]; subst.
  destruct H as [H|H]; destruct H' as [H'|H'].
  - congruence.
  - inversion H; subst. exfalso. apply Hn. apply in_map_iff. exists (k, v'). auto.
  - inversion H'; subst. exfalso. apply Hn. apply in_map_iff. exists (k, v). auto.
  - eapply IH; eauto.
Qed.

(* ------------------------------------------------------------------ remove_nth *)
Lemma remove_nth_In : forall A i (l : list A) x, In x (remove_nth i l) -> In x l.
Proof.
  intros A i l. revert i. induction l as [|y r IH]; intros i x H; [destruct i; exact H|].
  destruct i; cbn [remove_nth] in H; [right; exact H|]. destruct H as [H|H]; [left; exact H | right; eapply IH; exact H].
Qed.

(* ------------------------------------------------------------------ Listener *)
(* what _recv_one does with the two kinds of packets an endpoint ever sends *)
Lemma recv_one_data : forall acked i sa k,
  recv_one acked (frames_send i sa (MApp k)) =
    Ok (if kmem (i, sa) acked then mkRx acked [(sa, frames_callback (MAck i))] None
        else mkRx ((i, sa) :: acked) [(sa, frames_callback (MAck i))] (Some (Some (i, sa), PMsg (MApp k)))).
Proof. intros. unfold recv_one, frames_send. cbn. destruct (kmem (i, sa) acked); reflexivity. Qed.

Lemma recv_one_ack : forall acked i,
  recv_one acked (frames_callback (MAck i)) = Ok (mkRx acked [] (Some (None, PMsg (MAck i)))).
Proof. reflexivity. Qed.

(* general facts about one _recv_one, for arbitrary frames *)
Lemma recv_one_spec : forall acked data r, recv_one acked data = Ok r ->
  (forall ky, In ky (rx_acked r) <-> In ky acked \/ (exists p, rx_out r = Some (Some ky, p))) /\
  (forall ky p, rx_out r = Some (Some ky, p) -> ~ In ky acked) /\
  (forall ok p, rx_out r = Some (ok, p) -> parse_full data = Ok (ok, p)) /\
  (forall pkt, In pkt (rx_ack r) -> exists i sa, pkt = (sa, frames_callback (MAck i)) /\ In (i, sa) (rx_acked r)).
Proof.
  intros acked data r H. unfold recv_one in H. unfold parse_full.
  destruct (parse_head data) as [h|e]; cbn [bind] in *; [|discriminate].
  destruct h as [p|i a tl].
  - inversion H; subst; clear H. cbn [rx_acked rx_out rx_ack]. repeat split.
    + intros Hin. left. exact Hin.
    + intros [Hin|[p' Hp]]; [exact Hin | discriminate].
    + intros ky p' Hp. discriminate.
    + intros ok p' Hp. inversion Hp; subst. reflexivity.
    + intros pkt [].
  - destruct tl as [|f1 tl2]; [discriminate|].
    destruct (kmem (i, a) acked) eqn:Hm.
    + inversion H; subst; clear H. cbn [rx_acked rx_out rx_ack]. repeat split.
      * intros Hin. left. exact Hin.
      * intros [Hin|[p' Hp]]; [exact Hin | discriminate].
      * intros ky p' Hp. discriminate.
      * intros ok p' Hp. discriminate.
      * intros pkt [<-|[]]. exists i, a. split; [reflexivity|]. apply kmem_In. exact Hm.
    + destruct (parse_tail (f1 :: tl2)) as [p|e]; cbn [bind] in *; [|discriminate].
      inversion H; subst; clear H. cbn [rx_acked rx_out rx_ack]. apply kmem_false in Hm. repeat split.
      * intros [<-|Hin]; [right; exists p; reflexivity | left; exact Hin].
      * intros [Hin|[p' Hp]]; [right; exact Hin | inversion Hp; left; reflexivity].
      * intros ky p' Hp. inversion Hp; subst. exact Hm.
      * intros ok p' Hp. inversion Hp; subst. reflexivity.
      * intros pkt [<-|[]]. exists i, a. split; [reflexivity | left; reflexivity].
Qed.

Lemma recv_messages_spec : forall inbox acked r, recv_messages acked inbox = Ok r ->
  incl (rm_inbox r) inbox /\
  (forall ky, In ky (rm_acked r) <-> In ky acked \/ In ky (keysof (rm_msgs r))) /\
  NoDup (keysof (rm_msgs r)) /\
  (forall ky, In ky (keysof (rm_msgs r)) -> ~ In ky acked) /\
  (forall ok p, In (ok, p) (rm_msgs r) -> exists fr, In fr inbox /\ parse_full fr = Ok (ok, p)) /\
  (forall pkt, In pkt (rm_acks r) -> exists i sa, pkt = (sa, frames_callback (MAck i)) /\ In (i, sa) (rm_acked r)).
Proof.
  induction inbox as [|data rest IH]; intros acked r H; cbn [recv_messages] in H.
  - inversion H; subst; clear H. cbn [rm_inbox rm_acked rm_msgs rm_acks keysof flat_map].
    split; [intros x Hx; exact Hx|]. split; [intros ky; cbn; tauto|]. split; [constructor|].
    split; [intros ky []|]. split; [intros ok p []|]. intros pkt [].
  - destruct (recv_one acked data) as [x|e] eqn:Hx; cbn [bind] in H; [|discriminate].
    destruct (recv_one_spec _ _ _ Hx) as [Xa [Xn [Xp Xk]]].
    destruct (rx_out x) as [m|] eqn:Ho.
    + destruct (recv_messages (rx_acked x) rest) as [q|e] eqn:Hq; cbn [bind] in H; [|discriminate].
      inversion H; subst; clear H. cbn [rm_inbox rm_acked rm_msgs rm_acks].
      destruct (IH _ _ Hq) as [Q1 [Q2 [Q3 [Q4 [Q5 Q6]]]]].
      destruct m as [ok p]. split; [|split; [|split; [|split; [|split]]]].
      * intros y Hy. right. apply Q1. exact Hy.
      * intros ky. rewrite Q2, Xa. destruct ok as [k0|].
        -- rewrite keysof_cons_some. cbn [In]. split.
           ++ intros [[Hin|[p' Hp]]|Hin]; auto. inversion Hp; subst. auto.
           ++ intros [Hin|[->|Hin]]; auto. left. right. exists p. reflexivity.
        -- rewrite keysof_cons_none. split.
           ++ intros [[Hin|[p' Hp]]|Hin]; auto. discriminate.
           ++ intros [Hin|Hin]; auto.
      * destruct ok as [k0|]; [|rewrite keysof_cons_none; exact Q3].
        rewrite keysof_cons_some. constructor; [|exact Q3]. intros Hin. apply (Q4 _ Hin). apply Xa. right. exists p. reflexivity.
      * intros ky Hin. destruct ok as [k0|].
        -- rewrite keysof_cons_some in Hin. destruct Hin as [<-|Hin]; [eapply Xn; reflexivity|].
           intros Hacked. apply (Q4 _ Hin). apply Xa. left. exact Hacked.
        -- rewrite keysof_cons_none in Hin. intros Hacked. apply (Q4 _ Hin). apply Xa. left. exact Hacked.
      * intros ok' p' [Hin|Hin].
        -- inversion Hin; subst. exists data. split; [left; reflexivity | apply Xp; reflexivity].
        -- destruct (Q5 _ _ Hin) as [fr [Hfr Hp]]. exists fr. split; [right; exact Hfr | exact Hp].
      * intros pkt Hin. apply in_app_or in Hin. destruct Hin as [Hin|Hin].
        -- destruct (Xk _ Hin) as [i [sa [-> Hk]]]. exists i, sa. split; [reflexivity|]. apply Q2. left. exact Hk.
        -- apply Q6. exact Hin.
    + inversion H; subst; clear H. cbn [rm_inbox rm_acked rm_msgs rm_acks keysof flat_map].
      split; [|split; [|split; [|split; [|split]]]].
      * intros y Hy. right. exact Hy.
      * intros ky. rewrite Xa. split; [intros [Hin|[p' Hp]]; [auto | discriminate] | intros [Hin|[]]; auto].
      * constructor.
      * intros ky [].
      * intros ok p [].
      * exact Xk.
Qed.

(* on an inbox that holds only packets an endpoint can have sent, recv_messages does not raise *)
Definition sendable (fr : list frame) : Prop :=
  (exists i sa k, fr = frames_send i sa (MApp k)) \/ (exists i, fr = frames_callback (MAck i)).

Lemma recv_messages_total : forall inbox acked, (forall fr, In fr inbox -> sendable fr) -> exists r, recv_messages acked inbox = Ok r.
Proof.
  induction inbox as [|data rest IH]; intros acked H; cbn [recv_messages]; [eexists; reflexivity|].
  assert (Hrest : forall fr, In fr rest -> sendable fr) by (intros; apply H; right; assumption).
  destruct (H data (or_introl eq_refl)) as [[i [sa [k ->]]]|[i ->]].
  - rewrite recv_one_data. cbn [bind]. destruct (kmem (i, sa) acked); cbn [rx_out rx_acked]; [eexists; reflexivity|].
    destruct (IH ((i, sa) :: acked) Hrest) as [q Hq]. rewrite Hq. cbn [bind]. eexists; reflexivity.
  - rewrite recv_one_ack. cbn [bind rx_out rx_acked]. destruct (IH acked Hrest) as [q Hq]. rewrite Hq. cbn [bind]. eexists; reflexivity.
Qed.

(* ------------------------------------------------------------------ dispatch *)
Definition is_app (e : option key * parsed) : bool :=
  match snd e with PMsg (MAck _) => false | _ => true end.

Lemma process_spec : forall exec msgs infl dlog pr, process exec msgs infl dlog = Ok pr ->
  snd pr = dlog ++ filter is_app msgs /\
  (forall i r, In (i, r) (fst pr) <-> In (i, r) infl /\ ~ In (PMsg (MAck i)) (map snd msgs)) /\
  (NoDup (map fst infl) -> NoDup (map fst (fst pr))).
Proof.
  intros exec msgs. induction msgs as [|[k p] rest IH]; intros infl dlog pr H; cbn [process] in H.
  - inversion H; subst; clear H. cbn [fst snd filter map]. rewrite app_nil_r. split; [reflexivity|]. split; [|tauto].
    intros i r. cbn [In]. tauto.
  - destruct p as [[i0|k0]|h v].
    + destruct (IH _ _ _ H) as [P1 [P2 P3]]. split; [|split].
      * rewrite P1. reflexivity.
      * intros i r. rewrite P2, dict_pop_In. cbn [map snd In]. split.
        -- intros [[Hin Hne] Hn]. split; [exact Hin|]. intros [He|Hin']; [inversion He; congruence | contradiction].
        -- intros [Hin Hn]. split; [split; [exact Hin|]|]; [intros ->; apply Hn; left; reflexivity | intros Hin'; apply Hn; right; exact Hin'].
      * intros Hnd. apply P3. apply dict_pop_keys_nodup. exact Hnd.
    + destruct (IH _ _ _ H) as [P1 [P2 P3]]. split; [|split].
      * rewrite P1. rewrite <- app_assoc. reflexivity.
      * intros i r. rewrite P2. cbn [map snd In]. split; intros [Hin Hn]; (split; [exact Hin|]); [intros [He|Hin']; [discriminate | contradiction] | tauto].
      * exact P3.
    + destruct exec; [discriminate|]. destruct (IH _ _ _ H) as [P1 [P2 P3]]. split; [|split].
      * rewrite P1. rewrite <- app_assoc. reflexivity.
      * intros i r. rewrite P2. cbn [map snd In]. split; intros [Hin Hn]; (split; [exact Hin|]); [intros [He|Hin']; [discriminate | contradiction] | tauto].
      * exact P3.
Qed.

Lemma process_total : forall exec msgs infl dlog,
  (forall ok p, In (ok, p) msgs -> exists m, p = PMsg m) -> exists pr, process exec msgs infl dlog = Ok pr.
Proof.
  intros exec msgs. induction msgs as [|[k p] rest IH]; intros infl dlog H; cbn [process]; [eexists; reflexivity|].
  assert (Hr : forall ok p, In (ok, p) rest -> exists m, p = PMsg m) by (intros; eapply H; right; eassumption).
  destruct (H k p (or_introl eq_refl)) as [m ->]. destruct m; apply IH; exact Hr.
Qed.

(* ------------------------------------------------------------------ maybe_retry *)
Definition bump (now : Z) (r : irec) : irec := mkRec (r_host r) (r_frames r) now (r_rem r - 1).
Definition expired (watermark : Z) (r : irec) : Prop := (r_at r < watermark)%Z.

Lemma retry_go_spec : forall hosts wm now l q, retry_go hosts wm now l = Ok q ->
  map fst (fst q) = map fst l /\
  (forall i r', In (i, r') (fst q) -> exists r, In (i, r) l /\
      ((r' = r /\ ~ (expired wm r /\ lookup (r_host r) hosts <> None)) \/
       (expired wm r /\ r' = bump now r /\ (1 <= r_rem r')%Z /\ exists dst, lookup (r_host r) hosts = Some dst /\ In (dst, r_frames r) (snd q)))) /\
  (forall pkt, In pkt (snd q) -> exists i r dst, In (i, r) l /\ lookup (r_host r) hosts = Some dst /\ pkt = (dst, r_frames r)).
Proof.
  intros hosts wm now. induction l as [|[i r] rest IH]; intros q H; cbn [retry_go] in H.
  - inversion H; subst. cbn [fst snd map]. split; [reflexivity|]. split; [intros ? ? []|intros ? []].
  - unfold expired. destruct (Z.ltb_spec (r_at r) wm) as [Hexp|Hnexp].
    + destruct (lookup (r_host r) hosts) as [dst|] eqn:Hl.
      * cbn [r_rem] in H. destruct (Z.leb_spec (r_rem r - 1) 0) as [Hle|Hgt]; [discriminate|].
        destruct (retry_go hosts wm now rest) as [q0|e] eqn:Hq; cbn [bind] in H; [|discriminate].
        inversion H; subst; clear H. cbn [fst snd map]. destruct (IH _ eq_refl) as [K1 [K2 K3]]. split; [|split].
        -- f_equal. exact K1.
        -- intros i' r' [Hin|Hin].
           ++ inversion Hin; subst. exists r. split; [left; reflexivity|]. right.
              split; [exact Hexp|]. split; [reflexivity|]. split; [cbn [bump r_rem]; lia|]. exists dst. split; [exact Hl | left; reflexivity].
           ++ destruct (K2 _ _ Hin) as [r0 [Hr0 Hc]]. exists r0. split; [right; exact Hr0|].
              destruct Hc as [Hc|[E1 [E2 [E3 [d [E4 E5]]]]]]; [left; exact Hc|]. right. repeat split; auto. exists d. split; [exact E4 | right; exact E5].
        -- intros pkt [<-|Hin]; [exists i, r, dst; split; [left; reflexivity | split; [exact Hl | reflexivity]]|].
           destruct (K3 _ Hin) as [i0 [r0 [d [A [B C]]]]]. exists i0, r0, d. split; [right; exact A | split; assumption].
      * destruct (retry_go hosts wm now rest) as [q0|e] eqn:Hq; cbn [bind] in H; [|discriminate].
        inversion H; subst; clear H. cbn [fst snd map]. destruct (IH _ eq_refl) as [K1 [K2 K3]]. split; [|split].
        -- f_equal. exact K1.
        -- intros i' r' [Hin|Hin].
           ++ inversion Hin; subst. exists r'. split; [left; reflexivity|]. left. split; [reflexivity|]. intros [_ Hn]. apply Hn. exact Hl.
           ++ destruct (K2 _ _ Hin) as [r0 [Hr0 Hc]]. exists r0. split; [right; exact Hr0 | exact Hc].
        -- intros pkt Hin. destruct (K3 _ Hin) as [i0 [r0 [d [A [B C]]]]]. exists i0, r0, d. split; [right; exact A | split; assumption].
    + destruct (retry_go hosts wm now rest) as [q0|e] eqn:Hq; cbn [bind] in H; [|discriminate].
      inversion H; subst; clear H. cbn [fst snd map]. destruct (IH _ eq_refl) as [K1 [K2 K3]]. split; [|split].
      * f_equal. exact K1.
      * intros i' r' [Hin|Hin].
        -- inversion Hin; subst. exists r'. split; [left; reflexivity|]. left. split; [reflexivity|]. intros [Hn _]. lia.
        -- destruct (K2 _ _ Hin) as [r0 [Hr0 Hc]]. exists r0. split; [right; exact Hr0 | exact Hc].
      * intros pkt Hin. destruct (K3 _ Hin) as [i0 [r0 [d [A [B C]]]]]. exists i0, r0, d. split; [right; exact A | split; assumption].
Qed.

(* nothing disappears from the inflight table in maybe_retry *)
Lemma retry_go_keeps : forall hosts wm now l q i r, retry_go hosts wm now l = Ok q -> In (i, r) l -> exists r', In (i, r') (fst q).
Proof.
  intros hosts wm now l q i r H Hin. destruct (retry_go_spec _ _ _ _ _ H) as [K1 _].
  assert (Hk : In i (map fst (fst q))) by (rewrite K1; apply in_map_iff; exists (i, r); auto).
  apply in_map_iff in Hk. destruct Hk as [[i' r'] [He Hin']]. cbn [fst] in He. subst. exists r'. exact Hin'.
Qed.

(* the only way maybe_retry raises: a record has used its whole budget *)
Lemma retry_go_err : forall hosts wm now l e, retry_go hosts wm now l = Err e ->
  e = "retried too many times"%string /\ exists i r, In (i, r) l /\ expired wm r /\ (r_rem r <= 1)%Z.
Proof.
  intros hosts wm now. induction l as [|[i r] rest IH]; intros e H; cbn [retry_go] in H; [discriminate|].
  assert (Hrest : forall e, bind (retry_go hosts wm now rest) (fun q => Ok ((i, r) :: fst q, snd q)) = Err e ->
            e = "retried too many times"%string /\ exists i0 r0, In (i0, r0) ((i, r) :: rest) /\ expired wm r0 /\ (r_rem r0 <= 1)%Z).
  { intros e0 H0. destruct (retry_go hosts wm now rest) as [q0|e1] eqn:Hq; cbn [bind] in H0; [discriminate|].
    inversion H0; subst. destruct (IH _ eq_refl) as [E [i0 [r0 [A B]]]]. split; [exact E|]. exists i0, r0. split; [right; exact A | exact B]. }
  destruct (Z.ltb_spec (r_at r) wm) as [Hexp|Hnexp]; [|apply Hrest; exact H].
  destruct (lookup (r_host r) hosts) as [dst|]; [|apply Hrest; exact H].
  cbn [r_rem] in H. destruct (Z.leb_spec (r_rem r - 1) 0) as [Hle|Hgt].
  - inversion H; subst. split; [reflexivity|]. exists i, r. split; [left; reflexivity|]. split; [exact Hexp | lia].
  - destruct (retry_go hosts wm now rest) as [q0|e1] eqn:Hq; cbn [bind] in H; [discriminate|].
    inversion H; subst. destruct (IH _ eq_refl) as [E [i0 [r0 [A B]]]]. split; [exact E|]. exists i0, r0. split; [right; exact A | exact B].
Qed.
