(* Proofs about Net/ShmRpc.v, by induction over arbitrary logs of datagram events (any number of sockets and
   requests, any interleaving of the clients of a host with each other and with its shm server, the server as slow
   as it likes):

   disciplined_client_exactly_once   as long as every socket keeps to "send one request, wait for one answer", the
       requests the server applied for a socket are exactly the request/answer pairs its client completed, in
       order, plus at most the one request still outstanding: every call is applied ONCE and its caller is handed
       the answer of that application.  So an shm call is one atomic look at the store, as Net/DataServer.v has it.
   conflict_means_made_by_another_request   an allocate is told `conflict` only if an EARLIER application of an
       allocate for that key made the entry -- under the discipline, the call of somebody else, who was (or will be)
       handed the segment and writes and closes it: "presumably already computed" in store_payload.
   resending_client_refuted   the client that gives up waiting and asks again is told `conflict` about the entry its
       own first request made; nobody was handed that segment, the entry stays `created` for ever: get answers
       `wait`, allocate answers `conflict`, whatever is asked later. *)
From Coq Require Import List NArith Bool String Lia.
From EKW Require Import Net.DataServer Net.DataServerProofs Net.ShmRpc.
Import ListNotations.
Open Scope list_scope.

Definition hon (s : N) (l : list (N * req * resp)) : list (N * req * resp) := filter (on_sock s) l.
Definition qon (s : N) (q : list (N * req)) : list (N * req) := filter (q_on s) q.

Lemma fset_eq : forall {A} (f : N -> A) s v, fset f s v s = v.
Proof. intros. unfold fset. rewrite N.eqb_refl. reflexivity. Qed.

Lemma fset_neq : forall {A} (f : N -> A) s v x, x <> s -> fset f s v x = f x.
Proof. intros A f s v x H. unfold fset. destruct (N.eqb_spec x s); [contradiction | reflexivity]. Qed.

Lemma hon_snoc_same : forall s l r p, hon s (l ++ [(s, r, p)]) = hon s l ++ [(s, r, p)].
Proof. intros. unfold hon. rewrite filter_app. simpl. unfold on_sock. simpl. rewrite N.eqb_refl. reflexivity. Qed.

Lemma hon_snoc_other : forall s s' l r p, s' <> s -> hon s' (l ++ [(s, r, p)]) = hon s' l.
Proof.
  intros s s' l r p H. unfold hon. rewrite filter_app. simpl. unfold on_sock. simpl.
  destruct (N.eqb_spec s s'); [congruence | apply app_nil_r].
Qed.

Lemma qon_snoc_same : forall s q r, qon s (q ++ [(s, r)]) = qon s q ++ [(s, r)].
Proof. intros. unfold qon. rewrite filter_app. simpl. unfold q_on. simpl. rewrite N.eqb_refl. reflexivity. Qed.

Lemma qon_snoc_other : forall s s' q r, s' <> s -> qon s' (q ++ [(s, r)]) = qon s' q.
Proof.
  intros s s' q r H. unfold qon. rewrite filter_app. simpl. unfold q_on. simpl.
  destruct (N.eqb_spec s s'); [congruence | apply app_nil_r].
Qed.

Lemma qon_cons_same : forall s q r, qon s ((s, r) :: q) = (s, r) :: qon s q.
Proof. intros. unfold qon. simpl. unfold q_on. simpl. rewrite N.eqb_refl. reflexivity. Qed.

Lemma qon_cons_other : forall s s' q r, s' <> s -> qon s' ((s, r) :: q) = qon s' q.
Proof. intros s s' q r H. unfold qon. simpl. unfold q_on. simpl. destruct (N.eqb_spec s s'); [congruence | reflexivity]. Qed.

(* ------------------------------------------------------------------ exactly once *)
(* one socket: idle -- nothing of it is queued or waiting to be received, and what the server applied for it is what
   its client completed; or waiting for the answer to r -- r is queued (once) and not applied, or r has been applied
   (once) and its answer, nothing else, waits in the socket's buffer *)
Definition sock_inv (st : sstate) (s : N) : Prop :=
  match ss_out st s with
  | None => qon s (ss_queue st) = [] /\ ss_rx st s = [] /\ hon s (ss_hist st) = hon s (ss_calls st)
  | Some r =>
      ss_closed st s = false /\
      ((qon s (ss_queue st) = [(s, r)] /\ ss_rx st s = [] /\ hon s (ss_hist st) = hon s (ss_calls st)) \/
       (qon s (ss_queue st) = [] /\ exists p, ss_rx st s = [p] /\ hon s (ss_hist st) = hon s (ss_calls st) ++ [(s, r, p)]))
  end.

Definition inv (st : sstate) : Prop := ss_bad st = false -> forall s, sock_inv st s.

Lemma bad_sticky : forall st e st', sstep st e = Ok st' -> ss_bad st = true -> ss_bad st' = true.
Proof.
  intros st e st' H B. destruct e as [s r|seg p|s p|s|s]; simpl in H.
  - destruct (ss_closed st s); [discriminate|]. inversion H; subst; simpl. destruct (ss_out st s); auto.
  - destruct (ss_queue st) as [|[s r] q]; [discriminate|].
    destruct (handle (ss_tab st) (ss_nrd st) seg r) as [[t' n'] p'].
    destruct (resp_eq_dec p p'); [|discriminate]. inversion H; subst; simpl. exact B.
  - destruct (ss_closed st s); [discriminate|]. destruct (ss_rx st s) as [|p' rest]; [discriminate|].
    destruct (resp_eq_dec p p'); [|discriminate]. destruct (ss_out st s); inversion H; subst; simpl; auto.
  - destruct (ss_rx st s); [|discriminate]. inversion H; subst; simpl. reflexivity.
  - inversion H; subst; simpl. destruct (ss_out st s); auto.
Qed.

Lemma step_inv : forall st e st', inv st -> sstep st e = Ok st' -> inv st'.
Proof.
  intros st e st' I H B'.
  assert (B : ss_bad st = false).
  { destruct (ss_bad st) eqn:E; [|reflexivity]. rewrite (bad_sticky _ _ _ H E) in B'. discriminate. }
  specialize (I B).
  destruct e as [s r|seg p|s p|s|s]; simpl in H.
  - (* LSend *)
    destruct (ss_closed st s) eqn:C; [discriminate|]. inversion H; subst; clear H. simpl in B'.
    destruct (ss_out st s) eqn:O; [discriminate|].
    intro s'. unfold sock_inv; cbn [ss_out ss_queue ss_rx ss_closed ss_hist ss_calls ss_tab ss_nrd ss_bad]. destruct (N.eq_dec s' s) as [E|E].
    + subst s'. rewrite fset_eq. pose proof (I s) as Is. unfold sock_inv in Is. rewrite O in Is. destruct Is as (Q & R & Hh).
      split; [exact C|]. left. rewrite qon_snoc_same, Q. auto.
    + rewrite fset_neq by exact E. rewrite qon_snoc_other by exact E. exact (I s').
  - (* LHandle *)
    destruct (ss_queue st) as [|[s r] q] eqn:Q; [discriminate|].
    destruct (handle (ss_tab st) (ss_nrd st) seg r) as [[t' n'] p'] eqn:Hd.
    destruct (resp_eq_dec p p'); [|discriminate]. inversion H; subst; clear H. simpl in B'.
    intro s'. unfold sock_inv; cbn [ss_out ss_queue ss_rx ss_closed ss_hist ss_calls ss_tab ss_nrd ss_bad]. destruct (N.eq_dec s' s) as [E|E].
    + subst s'. pose proof (I s) as Is. unfold sock_inv in Is. rewrite Q in Is. rewrite qon_cons_same in Is.
      destruct (ss_out st s) as [r0|] eqn:O.
      * destruct Is as (C & [(Qs & R & Hh) | (Qs & _)]); [|discriminate].
        injection Qs as Er Eq. subst r0. split; [exact C|]. right. split; [exact Eq|].
        exists p'. rewrite C. rewrite fset_eq. rewrite R. split; [reflexivity|]. rewrite hon_snoc_same, Hh. reflexivity.
      * destruct Is as (Qs & _). discriminate.
    + pose proof (I s') as Is. unfold sock_inv in Is. rewrite Q in Is. rewrite qon_cons_other in Is by exact E.
      rewrite hon_snoc_other by exact E.
      assert (R : (if ss_closed st s then ss_rx st else fset (ss_rx st) s (ss_rx st s ++ [p'])) s' = ss_rx st s').
      { destruct (ss_closed st s); [reflexivity | apply fset_neq; exact E]. }
      rewrite R. exact Is.
  - (* LRecv *)
    destruct (ss_closed st s) eqn:C; [discriminate|]. destruct (ss_rx st s) as [|p' rest] eqn:R; [discriminate|].
    destruct (resp_eq_dec p p'); [|discriminate]. subst p'.
    destruct (ss_out st s) as [r|] eqn:O; inversion H; subst; clear H; simpl in B'; [|discriminate].
    intro s'. unfold sock_inv; cbn [ss_out ss_queue ss_rx ss_closed ss_hist ss_calls ss_tab ss_nrd ss_bad]. destruct (N.eq_dec s' s) as [E|E].
    + subst s'. rewrite !fset_eq. pose proof (I s) as Is. unfold sock_inv in Is. rewrite O, R in Is.
      destruct Is as (_ & [(_ & R0 & _) | (Qs & p0 & R0 & Hh)]); [discriminate|].
      inversion R0; subst. split; [assumption|]. split; [reflexivity|]. rewrite hon_snoc_same. exact Hh.
    + rewrite !fset_neq by exact E. rewrite hon_snoc_other by exact E. exact (I s').
  - (* LTimeout *)
    destruct (ss_rx st s); [|discriminate]. inversion H; subst. simpl in B'. discriminate.
  - (* LClose *)
    inversion H; subst; clear H. simpl in B'. destruct (ss_out st s) eqn:O; [discriminate|].
    intro s'. unfold sock_inv; cbn [ss_out ss_queue ss_rx ss_closed ss_hist ss_calls ss_tab ss_nrd ss_bad]. destruct (N.eq_dec s' s) as [E|E].
    + subst s'. rewrite O. pose proof (I s) as Is. unfold sock_inv in Is. rewrite O in Is. exact Is.
    + rewrite fset_neq by exact E. exact (I s').
Qed.

Lemma srun_inv : forall log st st', inv st -> srun st log = Ok st' -> inv st'.
Proof.
  induction log as [|e r IH]; simpl; intros st st' I H.
  - inversion H; subst. exact I.
  - destruct (sstep st e) as [st1|x] eqn:S; [|discriminate]. eapply IH; [eapply step_inv; eauto | exact H].
Qed.

Lemma inv_ss0 : inv ss0.
Proof. intros _ s. unfold sock_inv. simpl. auto. Qed.

Theorem disciplined_client_exactly_once : forall log st, srun ss0 log = Ok st -> ss_bad st = false ->
  forall s, exists pend, hon s (ss_hist st) = hon s (ss_calls st) ++ pend /\
    match ss_out st s with
    | None => pend = []
    | Some r => pend = [] \/ exists p, pend = [(s, r, p)] /\ ss_rx st s = [p]
    end.
Proof.
  intros log st H B s. pose proof (srun_inv log ss0 st inv_ss0 H B s) as Is. unfold sock_inv in Is.
  destruct (ss_out st s) as [r|].
  - destruct Is as (_ & [(_ & _ & Hh) | (_ & p & R & Hh)]).
    + exists []. rewrite app_nil_r. auto.
    + exists [(s, r, p)]. split; [exact Hh|]. right. exists p. auto.
  - destruct Is as (_ & _ & Hh). exists []. rewrite app_nil_r. auto.
Qed.

(* ------------------------------------------------------------------ conflict = made by an earlier allocate *)
Definition tab_inv (st : sstate) : Prop :=
  forall k e, lookup N.eq_dec k (ss_tab st) = Some e -> exists s l z, In (s, RAlloc k l z, PShm k) (ss_hist st).

Lemma lookup_upd_some : forall (k k' : N) (v x : entry) (t : table),
  lookup N.eq_dec k' (upd N.eq_dec k v t) = Some x -> (exists y, lookup N.eq_dec k' t = Some y) \/ k' = k.
Proof.
  intros k k' v x t H. destruct (N.eq_dec k' k) as [E|E]; [right; exact E|].
  left. rewrite lookup_upd_other in H by exact E. eauto.
Qed.

Lemma lookup_del_some : forall (k k' : N) (x : entry) (t : table),
  lookup N.eq_dec k' (del N.eq_dec k t) = Some x -> lookup N.eq_dec k' t = Some x.
Proof.
  intros k k' x t H. destruct (N.eq_dec k' k) as [E|E].
  - subst. rewrite lookup_del_same in H. discriminate.
  - rewrite lookup_del_other in H by exact E. exact H.
Qed.

Lemma purge_keeps : forall k seg t k' x, lookup N.eq_dec k' (purge k seg t) = Some x -> exists y, lookup N.eq_dec k' t = Some y.
Proof.
  intros k seg t k' x H. unfold purge in H. destruct (lookup N.eq_dec k t) as [e|] eqn:L; [|eauto].
  destruct (e_readers e).
  - destruct seg; [|eauto]. apply lookup_del_some in H. eauto.
  - apply lookup_upd_some in H. destruct H as [H|H]; [exact H | subst; eauto].
Qed.

Lemma after_close_keeps : forall k seg e t k' x, lookup N.eq_dec k t <> None ->
  lookup N.eq_dec k' (after_close k seg e t) = Some x -> exists y, lookup N.eq_dec k' t = Some y.
Proof.
  intros k seg e t k' x L H. unfold after_close in H.
  assert (U : forall x', lookup N.eq_dec k' (upd N.eq_dec k e t) = Some x' -> exists y, lookup N.eq_dec k' t = Some y).
  { intros x' Hx. apply lookup_upd_some in Hx. destruct Hx as [Hx|Hx]; [exact Hx|]. subst.
    destruct (lookup N.eq_dec k t); [eauto | congruence]. }
  destruct (e_delayed e && match e_readers e with [] => true | _ => false end).
  - apply purge_keeps in H. destruct H as [y Hy]. eapply U; eauto.
  - eapply U; eauto.
Qed.

(* whatever is in the table after a request was there before, or the request is the allocate that made it *)
Lemma handle_keys : forall t n seg r t' n' p k x, handle t n seg r = (t', n', p) -> lookup N.eq_dec k t' = Some x ->
  (exists y, lookup N.eq_dec k t = Some y) \/ (exists l z, r = RAlloc k l z /\ p = PShm k).
Proof.
  intros t n seg r t' n' p k x H L. destruct r as [k0 l z|k0 rd|k0|k0|k0|]; simpl in H.
  - destruct (lookup N.eq_dec k0 t) as [e|] eqn:L0; inversion H; subst; clear H; [eauto|].
    destruct (lookup N.eq_dec k t) as [y|] eqn:Lk; [eauto|].
    rewrite lookup_app_None in L by exact Lk. simpl in L. destruct (N.eq_dec k k0); [subst; right; eauto | discriminate].
  - destruct (lookup N.eq_dec k0 t) as [e|] eqn:L0; [|inversion H; subst; eauto].
    assert (NE : lookup N.eq_dec k0 t <> None) by congruence.
    destruct (N.eqb rd 0); destruct (e_ready e); inversion H; subst; clear H; eauto;
      left; eapply after_close_keeps; eauto.
  - destruct (lookup N.eq_dec k0 t) as [e|] eqn:L0; [|inversion H; subst; eauto].
    destruct (e_ready e); inversion H; subst; clear H; [|eauto].
    apply lookup_upd_some in L. destruct L as [L|L]; [left; exact L | subst; eauto].
  - inversion H; subst; clear H. left. eapply purge_keeps; eauto.
  - inversion H; subst; eauto.
  - inversion H; subst; eauto.
Qed.

Lemma handle_conflict : forall t n seg r t' n' k l z, r = RAlloc k l z -> handle t n seg r = (t', n', PConflict) ->
  exists e, lookup N.eq_dec k t = Some e.
Proof.
  intros t n seg r t' n' k l z E H. subst r. simpl in H. destruct (lookup N.eq_dec k t) as [e|]; [eauto|]. inversion H.
Qed.

(* every `conflict` in the history has, before it, the application of an allocate that made the entry *)
Definition conflicts_explained (h : list (N * req * resp)) : Prop :=
  forall h1 h2 s k l z, h = h1 ++ (s, RAlloc k l z, PConflict) :: h2 ->
    exists s' l' z', In (s', RAlloc k l' z', PShm k) h1.

Lemma snoc_split : forall {A} (h : list A) e h1 x h2, h ++ [e] = h1 ++ x :: h2 ->
  (h2 = [] /\ h1 = h /\ x = e) \/ exists h2', h2 = h2' ++ [e] /\ h = h1 ++ x :: h2'.
Proof.
  intros A h e h1 x h2 H. destruct (exists_last (l := x :: h2)) as (l' & a & E); [discriminate|].
  destruct h2 as [|y h2].
  - left. change (h1 ++ [x]) with (h1 ++ [x]) in H. apply app_inj_tail in H. destruct H; subst; auto.
  - right. destruct (exists_last (l := y :: h2)) as (m & b & E2); [discriminate|].
    rewrite E2 in H. change (h1 ++ x :: m ++ [b]) with (h1 ++ (x :: m) ++ [b]) in H. rewrite app_assoc in H.
    apply app_inj_tail in H. destruct H as [H1 H2]; subst. exists m. rewrite E2. auto.
Qed.

Definition cinv (st : sstate) : Prop := tab_inv st /\ conflicts_explained (ss_hist st).

Lemma step_cinv : forall st e st', cinv st -> sstep st e = Ok st' -> cinv st'.
Proof.
  intros st e st' [T C] H. destruct e as [s r|seg p|s p|s|s]; simpl in H.
  - destruct (ss_closed st s); [discriminate|]. inversion H; subst; split; assumption.
  - destruct (ss_queue st) as [|[s r] q]; [discriminate|].
    destruct (handle (ss_tab st) (ss_nrd st) seg r) as [[t' n'] p'] eqn:Hd.
    destruct (resp_eq_dec p p'); [|discriminate]. inversion H; subst; clear H. split.
    + intros k x L. simpl in L. simpl. destruct (handle_keys _ _ _ _ _ _ _ _ _ Hd L) as [[y Ly] | (l & z & Er & Ep)].
      * destruct (T k y Ly) as (s0 & l0 & z0 & Hin). exists s0, l0, z0. apply in_or_app. left. exact Hin.
      * subst. exists s, l, z. apply in_or_app. right. simpl. auto.
    + intros h1 h2 s0 k l z E. simpl in E. apply snoc_split in E. destruct E as [(E2 & E1 & Ex) | (h2' & E2 & E1)].
      * inversion Ex; subst. destruct (handle_conflict _ _ _ _ _ _ _ _ _ eq_refl Hd) as [y Ly]. exact (T k y Ly).
      * eapply C; eauto.
  - destruct (ss_closed st s); [discriminate|]. destruct (ss_rx st s) as [|p' rest]; [discriminate|].
    destruct (resp_eq_dec p p'); [|discriminate]. destruct (ss_out st s); inversion H; subst; split; assumption.
  - destruct (ss_rx st s); [|discriminate]. inversion H; subst; split; assumption.
  - inversion H; subst; split; assumption.
Qed.

Theorem conflict_means_made_by_another_request : forall log st, srun ss0 log = Ok st ->
  forall h1 h2 s k l z, ss_hist st = h1 ++ (s, RAlloc k l z, PConflict) :: h2 ->
    exists s' l' z', In (s', RAlloc k l' z', PShm k) h1.
Proof.
  intros log st H.
  assert (G : forall log st0 st1, cinv st0 -> srun st0 log = Ok st1 -> cinv st1).
  { induction log0 as [|e r IH]; simpl; intros st0 st1 I R.
    - inversion R; subst; exact I.
    - destruct (sstep st0 e) as [st2|x] eqn:S; [|discriminate]. eapply IH; [eapply step_cinv; eauto | exact R]. }
  assert (I0 : cinv ss0).
  { split.
    - intros k e L. simpl in L. discriminate.
    - intros h1 h2 s k l z E. simpl in E. destruct h1; discriminate. }
  exact (proj2 (G log ss0 st I0 H)).
Qed.

(* ------------------------------------------------------------------ the client that asks again *)
Definition final (k : N) : sstate := match srun ss0 (resend_log k) with Ok st => st | Err _ => ss0 end.

Theorem resending_client_refuted :
  let k := 7%N in
  (* the log is one the system can produce: nothing lost, the server merely slow ... *)
  (exists st, srun ss0 (resend_log k) = Ok st) /\ disciplined (resend_log k) = false /\
  (* ... the ONE call was applied twice, and its caller was told `conflict` ... *)
  ss_hist (final k) = [(1%N, RAlloc k 3 0, PShm k); (2%N, RAlloc k 3 0, PConflict)] /\
  ss_calls (final k) = [(2%N, RAlloc k 3 0, PConflict)] /\
  (* ... about the entry its own first request made; nobody was handed the segment: the entry is `created` and stays so:
     whatever requests follow, other than the close of a writer there is not, get answers `wait` and allocate `conflict` *)
  lookup N.eq_dec k (ss_tab (final k)) = Some (mkE false 3 0 [] false) /\
  (forall n seg, handle (ss_tab (final k)) n seg (RGet k) = (ss_tab (final k), n, PWait)) /\
  (forall n seg l z, handle (ss_tab (final k)) n seg (RAlloc k l z) = (ss_tab (final k), n, PConflict)).
Proof.
  intro k. subst k.
  split; [eexists; vm_compute; reflexivity|].
  split; [vm_compute; reflexivity|].
  split; [vm_compute; reflexivity|].
  split; [vm_compute; reflexivity|].
  split; [vm_compute; reflexivity|].
  split; intros; reflexivity.
Qed.
