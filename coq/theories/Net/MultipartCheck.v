(* Executable checker used by harness/c07.py: the trace check of Net/DataServerCheck.v, and the
   log of ALL frame sends the real code made during the trace (two pool jobs advanced frame by
   frame included) run through the per-socket assembly of Net/Multipart.v: every message that
   went on the wire must consist of the frames of one sender -- the condition under which the
   model's atomic pool jobs are sound (MultipartProofs.uninterleaved_wire_ok). *)
From Coq Require Import List NArith Bool.
From EKW Require Import Net.DataServer Net.DataServerCheck Net.Multipart.
Import ListNotations.

Definition check_case_w (c : (list op * list hobs * list (N * frame)) * list fsend) : bool :=
  check_case (fst c) && wire_ok (snd c).
