(* C05 -- executable model of the failure-report chain and of the teardown.

   Transcribed from (worktree with the three `fix:` commits of C05):
     cascade/executor/executor.py      Executor.healthcheck, Executor.recv_loop (one iteration), Executor.terminate
     cascade/executor/runner/entrypoint.py   execute_sequence (task raises -> TaskFailure; SystemExit/kill -> process exit)
     cascade/executor/bridge.py        Bridge.recv_events, Bridge.shutdown
     cascade/controller/impl.py        run (the try/finally around the wait loop; scheduling is abstracted to
                                       "which requested outputs have been delivered")
   Ids (workers, tasks, datasets, hosts) are small nats chosen by the harness.  No proofs in this file. *)
From Coq Require Import List ZArith Bool Arith.
Import ListNotations.

(* ------------------------------------------------------------------ children of an executor *)
(* `workers[w]` is None (NotStarted) or a process object; a process object has exitcode None
   (Alive, or Stuck = alive but blocked forever, will never read another message) or an int. *)
Inductive cstat := NotStarted | Alive | Stuck | Exited (code : Z).

Definition is_alive (c : cstat) : bool :=
  match c with Alive | Stuck => true | _ => false end.

Definition exitcode (c : cstat) : option Z :=
  match c with Exited z => Some z | _ => None end.

Record exec := mkExec {
  workers : list (nat * cstat);   (* dict order = creation order *)
  shm : cstat;                    (* never NotStarted once constructed *)
  ds : cstat;
  terminating : bool;
  datasets : list nat;            (* Executor.datasets (a set) *)
  segs : list nat                 (* /dev/shm segments held by this host's shm server (not a field of the class) *)
}.

Definition set_workers ws e := mkExec ws (shm e) (ds e) (terminating e) (datasets e) (segs e).
Definition set_datasets d e := mkExec (workers e) (shm e) (ds e) (terminating e) d (segs e).

(* ------------------------------------------------------------------ messages and actions *)
Inductive emsg :=                 (* what Executor.recv_loop can receive *)
  | MTaskSeq (w : nat)
  | MAck (i : nat)
  | MPurge (d : nat)
  | MShutdown
  | MTaskFailure (w t : nat)
  | MPublished (d : nat)
  | MTransmitFailure
  | MOther.                       (* any other message class -> TypeError *)

Inductive fail :=                 (* why the loop body raised *)
  | FWorkerNotStarted (w : nat)
  | FWorkerExited (w : nat) (code : Z)
  | FShmExited (code : Z)
  | FDsExited (code : Z)
  | FSeqToDeadWorker (w : nat)
  | FUnknownWorker (w : nat)
  | FUnexpectedMessage.

Inductive cmsg :=                 (* executor -> controller *)
  | CExit | CFailure | CTaskFailure (w t : nat) | CPublished (d : nat) | CTransmitFailure | CRegistration.

Inductive wmsg := WSeq | WPurge (d : nat) | WPublished (d : nat) | WShutdown.

Inductive act :=
  | ToCtl (m : cmsg)              (* self.to_controller(m) *)
  | ToWorker (w : nat) (m : wmsg) (* callback(worker_address(w), m) *)
  | ToData (d : nat)              (* callback(self.daddress, DatasetPurge(d)) *)
  | SenderAck (i : nat)           (* self.sender.ack(i) *)
  | KillWorker (w : nat)          (* proc.kill() after the grace period *)
  | ShmShutdown                   (* shm_client.shutdown(); shm_process.join() *)
  | KillDs.                       (* data_server.kill() *)

(* ------------------------------------------------------------------ healthcheck *)
Fixpoint first_bad_worker (ws : list (nat * cstat)) : option fail :=
  match ws with
  | [] => None
  | (w, NotStarted) :: r => Some (FWorkerNotStarted w)
  | (w, Exited z) :: r => Some (FWorkerExited w z)
  | _ :: r => first_bad_worker r
  end.

(* None = passes.  Skipped while terminating (fix); any exit code counts, 0 included (fix). *)
Definition healthcheck (e : exec) : option fail :=
  if terminating e then None else
  match first_bad_worker (workers e) with
  | Some f => Some f
  | None =>
    match exitcode (shm e) with
    | Some z => Some (FShmExited z)
    | None => match exitcode (ds e) with Some z => Some (FDsExited z) | None => None end
    end
  end.

(* ------------------------------------------------------------------ terminate *)
Definition started (c : cstat) : bool := match c with NotStarted => false | _ => true end.

(* phase 1: WorkerShutdown to every started worker (dead ones included: the send is harmless) *)
Definition shutdown_msgs (ws : list (nat * cstat)) : list act :=
  flat_map (fun p => if started (snd p) then [ToWorker (fst p) WShutdown] else []) ws.

(* phase 2: join within the grace period; whoever is still alive (Stuck) is killed *)
Definition kill_acts (ws : list (nat * cstat)) : list act :=
  flat_map (fun p => match snd p with Stuck => [KillWorker (fst p)] | _ => [] end) ws.

Definition reap (c : cstat) : cstat :=
  match c with
  | Alive => Exited 0       (* read WorkerShutdown, left its loop *)
  | Stuck => Exited (-9)    (* killed *)
  | c => c
  end.

Definition terminate (e : exec) : exec * list act :=
  if terminating e then (e, []) else
  let ws' := map (fun p => (fst p, reap (snd p))) (workers e) in
  let shm_alive := is_alive (shm e) in
  let ds_alive := is_alive (ds e) in
  (mkExec ws'
          (if shm_alive then Exited 0 else shm e)
          (if ds_alive then Exited (-9) else ds e)
          true (datasets e)
          (if shm_alive then [] else segs e),      (* the server unlinks everything on ShutdownCommand *)
   shutdown_msgs (workers e) ++ kill_acts (workers e)
   ++ (if shm_alive then [ShmShutdown] else []) ++ (if ds_alive then [KillDs] else [])).

(* ------------------------------------------------------------------ one iteration of recv_loop *)
Fixpoint lookup (w : nat) (ws : list (nat * cstat)) : option cstat :=
  match ws with
  | [] => None
  | (k, c) :: r => if Nat.eqb k w then Some c else lookup w r
  end.

Definition mem (d : nat) (l : list nat) : bool := existsb (Nat.eqb d) l.
Definition add (d : nat) (l : list nat) : list nat := if mem d l then l else l ++ [d].
Definition remove (d : nat) (l : list nat) : list nat := filter (fun x => negb (Nat.eqb d x)) l.

Definition to_all (e : exec) (m : wmsg) : list act := map (fun p => ToWorker (fst p) m) (workers e).

Inductive outcome := Done | Broke | Raised (f : fail).

(* the `for m in messages` body; stops at ExecutorShutdown (break) or at the first exception *)
Fixpoint handle (e : exec) (ms : list emsg) : exec * list act * outcome :=
  match ms with
  | [] => (e, [], Done)
  | m :: r =>
    let continue e' a := let '(e2, a2, o) := handle e' r in (e2, a ++ a2, o) in
    match m with
    | MTaskSeq w =>
        match lookup w (workers e) with
        | None => (e, [], Raised (FUnknownWorker w))
        | Some NotStarted | Some (Exited _) => (e, [], Raised (FSeqToDeadWorker w))
        | Some _ => continue e [ToWorker w WSeq]
        end
    | MAck i => continue e [SenderAck i]
    | MPurge d =>
        if mem d (datasets e)
        then continue (set_datasets (remove d (datasets e)) e) (to_all e (WPurge d) ++ [ToData d])
        else continue e []
    | MShutdown =>
        let '(e', a) := terminate e in (e', ToCtl CExit :: a, Broke)
    | MTaskFailure w t => continue e [ToCtl (CTaskFailure w t)]
    | MPublished d =>
        continue (set_datasets (add d (datasets e)) e) (to_all e (WPublished d) ++ [ToCtl (CPublished d)])
    | MTransmitFailure => continue e [ToCtl CTransmitFailure]
    | MOther => (e, [], Raised FUnexpectedMessage)
    end
  end.

(* `hb` = heartbeat_watcher.is_breach() > 0 at the end of this iteration *)
Definition iter (e : exec) (ms : list emsg) (hb : bool) : exec * list act :=
  if terminating e then (e, []) else      (* `while not self.terminating` *)
  let '(e1, a1, o) := handle e ms in
  let report e1 a1 := let '(e2, a2) := terminate e1 in (e2, a1 ++ ToCtl CFailure :: a2) in
  match o with
  | Raised _ => report e1 a1
  | _ =>
    match healthcheck e1 with
    | Some _ => report e1 a1
    | None => (e1, a1 ++ (if hb && negb (terminating e1) then [ToCtl CRegistration] else []))
    end
  end.

(* ------------------------------------------------------------------ faults and histories *)
Inductive how := Term | Kill | Code (z : Z).   (* SIGTERM (handler runs), SIGKILL, own exit *)

Definition how_code (h : how) : Z := match h with Term => 0 | Kill => -9 | Code z => z end.

Inductive ev :=
  | EvBatch (ms : list emsg) (hb : bool)   (* one iteration of recv_loop *)
  | EvWorkerDies (w : nat) (z : Z)         (* task called sys.exit / os._exit, or the process was killed *)
  | EvWorkerStuck (w : nat)
  | EvShmDies (h : how)
  | EvDsDies (z : Z)
  | EvSegment (d : nat).                   (* a worker / the data server allocated a segment *)

Fixpoint set_worker (w : nat) (f : cstat -> cstat) (ws : list (nat * cstat)) :=
  match ws with
  | [] => []
  | (k, c) :: r => if Nat.eqb k w then (k, f c) :: r else (k, c) :: set_worker w f r
  end.

Definition die (c : cstat) (z : Z) : cstat := if is_alive c then Exited z else c.

Definition apply_ev (e : exec) (x : ev) : exec * list act :=
  match x with
  | EvBatch ms hb => iter e ms hb
  | EvWorkerDies w z => (set_workers (set_worker w (fun c => die c z) (workers e)) e, [])
  | EvWorkerStuck w => (set_workers (set_worker w (fun c => if is_alive c then Stuck else c) (workers e)) e, [])
  | EvShmDies h =>
      if is_alive (shm e)
      then (mkExec (workers e) (Exited (how_code h)) (ds e) (terminating e) (datasets e)
                   (match h with Kill => segs e | _ => [] end), [])   (* only SIGKILL skips Manager.atexit *)
      else (e, [])
  | EvDsDies z => (mkExec (workers e) (shm e) (die (ds e) z) (terminating e) (datasets e) (segs e), [])
  | EvSegment d => (if is_alive (shm e) then mkExec (workers e) (shm e) (ds e) (terminating e) (datasets e) (add d (segs e)) else e, [])
  end.

Fixpoint run_evs (e : exec) (xs : list ev) : exec * list act :=
  match xs with
  | [] => (e, [])
  | x :: r => let '(e1, a1) := apply_ev e x in let '(e2, a2) := run_evs e1 r in (e2, a1 ++ a2)
  end.

(* the executor right after register(): n workers alive, both servers alive *)
Definition init (n : nat) : exec :=
  mkExec (map (fun i => (i, Alive)) (seq 0 n)) Alive Alive false [] [].

Definition no_live_child (e : exec) : bool :=
  forallb (fun p => negb (is_alive (snd p))) (workers e) && negb (is_alive (shm e)) && negb (is_alive (ds e)).

Definition exited (c : cstat) : bool := match c with Exited _ => true | _ => false end.

Definition child_dead (e : exec) : bool :=
  existsb (fun p => match snd p with NotStarted | Exited _ => true | _ => false end) (workers e)
  || exited (shm e) || exited (ds e).

Definition terminal (a : act) : bool :=
  match a with ToCtl CExit | ToCtl CFailure => true | _ => false end.

(* ------------------------------------------------------------------ worker side: execute_sequence *)
(* behaviour of one task body, with the outputs it hands to Memory.handle before the event *)
Inductive tbeh :=
  | BOk (outs : list nat)
  | BRaise (outs : list nat)              (* raises an Exception after handling `outs` *)
  | BExit (outs : list nat) (z : Z)       (* SystemExit / os._exit / kill: not an Exception *)
.
Inductive wact := WHandled (d : nat) | WFlush | WTaskFailure (t : nat).

Definition outs_of (b : tbeh) := match b with BOk o | BRaise o | BExit o _ => o end.

(* result: actions, and Some z when the worker process ended with exit code z *)
Fixpoint execute_sequence (ts : list (nat * tbeh)) : list wact * option Z :=
  match ts with
  | [] => ([WFlush], None)
  | (t, b) :: r =>
    let hs := map WHandled (outs_of b) in
    match b with
    | BOk _ => let '(a, x) := execute_sequence r in (hs ++ a, x)
    | BRaise _ => (hs ++ [WTaskFailure t], None)
    | BExit _ z => (hs, Some z)
    end
  end.

(* ------------------------------------------------------------------ controller side: Bridge.recv_events / shutdown, run *)
Inductive bmsg :=
  | BPublished (d : nat)
  | BPayload (d : nat) (v : Z)
  | BAck (i : nat)
  | BRegistration (h : nat)
  | BTaskFailure (h : nat)
  | BExecFailure (h : nat)
  | BExecExit (h : nat)
  | BTransmitFailure (h : nat)
  | BUnsupported.                 (* TaskSequence / DatasetPurge / DatasetTransmitCommand / ExecutorShutdown *)

Definition is_event (m : bmsg) : bool := match m with BPublished _ | BPayload _ _ => true | _ => false end.
Definition is_shutdown_reason (m : bmsg) : bool :=
  match m with BTaskFailure _ | BExecFailure _ | BExecExit _ | BTransmitFailure _ | BUnsupported => true | _ => false end.

Definition pop_host (m : bmsg) (hosts : list nat) : list nat :=
  match m with BExecFailure h | BExecExit h => remove h hosts | _ => hosts end.

(* one pass over a received batch: (events, shutdown reason seen, hosts left in sender.hosts, acks) *)
Fixpoint scan (ms : list bmsg) (hosts : list nat) : list bmsg * bool * list nat :=
  match ms with
  | [] => ([], false, hosts)
  | m :: r =>
    let '(evs, sd, hs) := scan r (pop_host m hosts) in
    ((if is_event m then m :: evs else evs), is_shutdown_reason m || sd, hs)
  end.

(* Bridge.shutdown: ExecutorShutdown to every host still registered, then consume batches until all
   of them said Exit/Failure or the grace period (= the batches given) is over *)
Fixpoint shutdown_wait (hosts : list nat) (bs : list (list bmsg)) : list nat * list (list bmsg) :=
  match hosts with
  | [] => ([], bs)
  | _ =>
    match bs with
    | [] => (hosts, [])
    | b :: r => shutdown_wait (fold_left (fun hs m => pop_host m hs) b hosts) r
    end
  end.

Inductive rres :=
  | REvents (evs : list bmsg) (hosts : list nat) (rest : list (list bmsg))
  | RRaise (sent_shutdown_to : list nat) (hosts : list nat) (rest : list (list bmsg))
  | RWaiting (hosts : list nat).  (* no more input: the real loop keeps polling *)

Fixpoint recv_events (hosts : list nat) (bs : list (list bmsg)) : rres :=
  match bs with
  | [] => RWaiting hosts
  | b :: r =>
    let '(evs, sd, hs) := scan b hosts in
    if sd then let '(hs', r') := shutdown_wait hs r in RRaise hs hs' r'
    else match evs with [] => recv_events hs r | _ => REvents evs hs r end
  end.

(* controller.impl.run with the scheduler abstracted: `need` = requested outputs, a value arrives
   with a payload; the loop waits while some requested output has no value *)
Inductive runres :=
  | Returned (vals : list (nat * Z)) (shutdown_to : list nat)
  | Failed (shutdown_to : list nat)       (* run raised *)
  | Waiting.

Fixpoint getv (d : nat) (vals : list (nat * Z)) : option Z :=
  match vals with [] => None | (k, v) :: r => if Nat.eqb k d then Some v else getv d r end.

Definition store (vals : list (nat * Z)) (m : bmsg) : list (nat * Z) :=
  match m with BPayload d v => (d, v) :: vals | _ => vals end.   (* state.outputs[d] = v, last wins *)

Definition complete (need : list nat) (vals : list (nat * Z)) : bool :=
  forallb (fun d => match getv d vals with Some _ => true | None => false end) need.

Fixpoint run (fuel : nat) (need : list nat) (vals : list (nat * Z)) (hosts : list nat) (bs : list (list bmsg)) : runres :=
  if complete need vals then Returned vals hosts     (* finally: bridge.shutdown() to the hosts still registered *)
  else match fuel with
  | O => Waiting
  | S fuel' =>
    match recv_events hosts bs with
    | RWaiting _ => Waiting
    | RRaise sent hs r => Failed sent
    | REvents evs hs r => run fuel' need (fold_left store evs vals) hs r
    end
  end.

(* what the executor on host h says, as the controller sees it *)
Definition to_bmsg (h : nat) (m : cmsg) : bmsg :=
  match m with
  | CExit => BExecExit h | CFailure => BExecFailure h | CTaskFailure _ _ => BTaskFailure h
  | CPublished d => BPublished d | CTransmitFailure => BTransmitFailure h | CRegistration => BRegistration h
  end.

Definition ctl_msgs (h : nat) (acts : list act) : list bmsg :=
  flat_map (fun a => match a with ToCtl m => [to_bmsg h m] | _ => [] end) acts.
