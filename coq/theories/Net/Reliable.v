(* Executable model of the acknowledged-send layer of cascade and of the two receive loops
   that drive it, composed with a network that may drop, duplicate, delay and reorder packets.
     src/cascade/executor/comms.py    Listener._recv_one / recv_messages, ReliableSender.send / ack /
                                      maybe_retry, callback
     src/cascade/executor/bridge.py   Bridge.recv_events   (one iteration of its while loop)
     src/cascade/executor/executor.py Executor.recv_loop   (one iteration of its while loop)
   An endpoint is identified by the address its Listener is bound to; its ReliableSender carries
   that same address in every Syn.  Per-endpoint state is kept in total maps addr -> _ .
   Time is an integer number of nanoseconds (time.time_ns).  Every Python `raise` that leaves the
   loop body is an `Err kind`; the trace ends there.
   `w_sent` and `w_wire` are ghost logs (calls of ReliableSender.send that returned; every packet an
   endpoint ever put on the network).  No proofs in this file. *)
From Coq Require Import List NArith ZArith String Bool.
From EKW Require Import Net.Frames.
Import ListNotations.
Open Scope string_scope.
Open Scope list_scope.

Definition host := N.
Definition packet := (addr * list frame)%type.      (* destination address, multipart frames *)
Definition key := (N * addr)%type.                  (* Syn(idx, addr): frozen dataclass, eq/hash by fields *)

Definition key_eqb (a b : key) : bool := N.eqb (fst a) (fst b) && N.eqb (snd a) (snd b).

Fixpoint kmem (k : key) (l : list key) : bool :=
  match l with [] => false | x :: r => key_eqb k x || kmem k r end.

Fixpoint lookup {V} (h : N) (d : list (N * V)) : option V :=
  match d with [] => None | (h', v) :: r => if N.eqb h h' then Some v else lookup h r end.

(* d[k] = v on an insertion-ordered dict *)
Fixpoint dict_set {V} (k : N) (v : V) (d : list (N * V)) : list (N * V) :=
  match d with
  | [] => [(k, v)]
  | (k', v') :: r => if N.eqb k k' then (k', v) :: r else (k', v') :: dict_set k v r
  end.

(* d.pop(k) *)
Definition dict_pop {V} (k : N) (d : list (N * V)) : list (N * V) :=
  filter (fun e => negb (N.eqb k (fst e))) d.

Definition upd {V} (f : addr -> V) (a : addr) (v : V) : addr -> V :=
  fun x => if N.eqb x a then v else f x.

(* _InFlightRecord (clazz is only used in log texts) *)
Record irec : Type := mkRec { r_host : host; r_frames : list frame; r_at : Z; r_rem : Z }.

(* static configuration of a scenario *)
Record cfg : Type := mkCfg {
  c_hosts : addr -> list (host * addr);   (* ReliableSender.hosts of the endpoint: host id -> address *)
  c_grace : addr -> Z;                    (* resend_grace, ns *)
  c_retry : addr -> bool;                 (* does the endpoint's receive loop call maybe_retry *)
  c_exec : addr -> bool;                  (* true: Executor.recv_loop, false: Bridge.recv_events *)
  c_max : Z                               (* comms.max_retries_per_message *)
}.

Record world : Type := mkW {
  w_now : Z;
  w_net : list packet;                              (* packets in transit, oldest first *)
  w_inbox : addr -> list (list frame);              (* receive queue of the PULL socket bound at addr *)
  w_acked : addr -> list key;                       (* Listener.acked *)
  w_idx : addr -> N;                                (* ReliableSender.idx *)
  w_infl : addr -> list (N * irec);                 (* ReliableSender.inflight, insertion order *)
  w_dlog : addr -> list (option key * parsed);      (* what the loop handed to the application *)
  w_sent : list (addr * N * host * N);              (* ghost: (sender, idx, host, application message) *)
  w_wire : list packet                              (* ghost *)
}.

Definition init (t0 : Z) : world :=
  mkW t0 [] (fun _ => []) (fun _ => []) (fun _ => 0%N) (fun _ => []) (fun _ => []) [] [].

(* ------------------------------------------------------------------ Listener *)
Record rx : Type := mkRx {
  rx_acked : list key;
  rx_ack : list packet;                             (* the Ack sent by callback(m0.addr, Ack(idx)) *)
  rx_out : option (option key * parsed)             (* None: "already acked, dropping message" *)
}.

(* Listener._recv_one on one multipart message that is ready *)
Definition recv_one (acked : list key) (data : list frame) : res rx :=
  bind (parse_head data) (fun h =>
  match h with
  | HPlain p => Ok (mkRx acked [] (Some (None, p)))
  | HSyn i a tl =>
      let ack := (a, frames_callback (MAck i)) in
      match tl with
      | [] => Err "syn-only"
      | _ :: _ =>
          if kmem (i, a) acked then Ok (mkRx acked [ack] None)
          else bind (parse_tail tl) (fun p => Ok (mkRx ((i, a) :: acked) [ack] (Some (Some (i, a), p))))
      end
  end).

Record rm : Type := mkRm {
  rm_acked : list key;
  rm_inbox : list (list frame);
  rm_acks : list packet;
  rm_msgs : list (option key * parsed)
}.

(* Listener.recv_messages: take messages until the queue is empty or _recv_one returns None
   (which it also does for a suppressed duplicate: the rest stays queued for the next call) *)
Fixpoint recv_messages (acked : list key) (inbox : list (list frame)) : res rm :=
  match inbox with
  | [] => Ok (mkRm acked [] [] [])
  | data :: rest =>
      bind (recv_one acked data) (fun r =>
      match rx_out r with
      | None => Ok (mkRm (rx_acked r) rest (rx_ack r) [])
      | Some m =>
          bind (recv_messages (rx_acked r) rest) (fun q =>
          Ok (mkRm (rm_acked q) (rm_inbox q) (rx_ack r ++ rm_acks q) (m :: rm_msgs q)))
      end)
  end.

(* ------------------------------------------------------------------ loop bodies *)
(* the `for message in recv_messages(...)` part: Ack -> sender.ack(idx); anything else is handed
   to the application (controller: an Event returned by recv_events; executor: forwarded by
   callback).  The executor raises TypeError for a payload. *)
Fixpoint process (exec : bool) (msgs : list (option key * parsed)) (infl : list (N * irec))
                 (dlog : list (option key * parsed)) : res (list (N * irec) * list (option key * parsed)) :=
  match msgs with
  | [] => Ok (infl, dlog)
  | (k, p) :: rest =>
      match p with
      | PMsg (MAck i) => process exec rest (dict_pop i infl) dlog
      | PMsg (MApp _) => process exec rest infl (dlog ++ [(k, p)])
      | PPayload _ _ => if exec then Err "TypeError" else process exec rest infl (dlog ++ [(k, p)])
      end
  end.

(* ReliableSender.maybe_retry: records in dict order; returns the new records and the packets sent *)
Fixpoint retry_go (hosts : list (host * addr)) (watermark now : Z) (l : list (N * irec))
  : res (list (N * irec) * list packet) :=
  match l with
  | [] => Ok ([], [])
  | (i, r) :: rest =>
      if (r_at r <? watermark)%Z then
        match lookup (r_host r) hosts with
        | Some dst =>
            let r' := mkRec (r_host r) (r_frames r) now (r_rem r - 1) in
            if (r_rem r' <=? 0)%Z then Err "retried too many times"
            else bind (retry_go hosts watermark now rest) (fun q => Ok ((i, r') :: fst q, (dst, r_frames r) :: snd q))
        | None => bind (retry_go hosts watermark now rest) (fun q => Ok ((i, r) :: fst q, snd q))
        end
      else bind (retry_go hosts watermark now rest) (fun q => Ok ((i, r) :: fst q, snd q))
  end.

Definition maybe_retry (c : cfg) (a : addr) (now : Z) (infl : list (N * irec)) : res (list (N * irec) * list packet) :=
  if c_retry c a then retry_go (c_hosts c a) (now - c_grace c a) now infl else Ok (infl, []).

(* one iteration: recv_messages, dispatch, (healthcheck: not modelled,) maybe_retry *)
Definition loop_op (c : cfg) (w : world) (a : addr) : res world :=
  bind (recv_messages (w_acked w a) (w_inbox w a)) (fun r =>
  bind (process (c_exec c a) (rm_msgs r) (w_infl w a) (w_dlog w a)) (fun pr =>
  bind (maybe_retry c a (w_now w) (fst pr)) (fun q =>
  Ok (mkW (w_now w) (w_net w ++ rm_acks r ++ snd q)
          (upd (w_inbox w) a (rm_inbox r)) (upd (w_acked w) a (rm_acked r))
          (w_idx w) (upd (w_infl w) a (fst q)) (upd (w_dlog w) a (snd pr))
          (w_sent w) (w_wire w ++ rm_acks r ++ snd q))))).

(* ReliableSender.send(host, m) called by endpoint a (Bridge._send / Executor.to_controller) *)
Definition send_op (c : cfg) (w : world) (a : addr) (h : host) (k : N) : res world :=
  let i := w_idx w a in
  let fr := frames_send i a (MApp k) in
  let rcd := mkRec h fr (w_now w) (c_max c) in
  match lookup h (c_hosts c a) with
  | None => Err "KeyError"
  | Some dst =>
      Ok (mkW (w_now w) (w_net w ++ [(dst, fr)]) (w_inbox w) (w_acked w)
              (upd (w_idx w) a (i + 1)%N) (upd (w_infl w) a (dict_set i rcd (w_infl w a))) (w_dlog w)
              (w_sent w ++ [(a, i, h, k)]) (w_wire w ++ [(dst, fr)]))
  end.

(* ------------------------------------------------------------------ the network *)
Fixpoint remove_nth {A} (i : nat) (l : list A) : list A :=
  match l, i with
  | [], _ => []
  | _ :: r, O => r
  | x :: r, S j => x :: remove_nth j r
  end.

Definition set_net (w : world) (n : list packet) : world :=
  mkW (w_now w) n (w_inbox w) (w_acked w) (w_idx w) (w_infl w) (w_dlog w) (w_sent w) (w_wire w).

Inductive op : Type :=
  | OSend (a : addr) (h : host) (k : N)
  | ODeliver (i : nat)        (* packet i of the pool reaches the receive queue of its destination *)
  | ODrop (i : nat)
  | ODup (i : nat)            (* a second copy of packet i is put in the pool *)
  | OTick (d : Z)
  | OLoop (a : addr).

Definition step (c : cfg) (w : world) (o : op) : res world :=
  match o with
  | OSend a h k => send_op c w a h k
  | ODeliver i =>
      match nth_error (w_net w) i with
      | None => Err "bad-op"
      | Some (dst, fr) =>
          Ok (mkW (w_now w) (remove_nth i (w_net w)) (upd (w_inbox w) dst (w_inbox w dst ++ [fr])) (w_acked w)
                  (w_idx w) (w_infl w) (w_dlog w) (w_sent w) (w_wire w))
      end
  | ODrop i =>
      match nth_error (w_net w) i with
      | None => Err "bad-op"
      | Some _ => Ok (set_net w (remove_nth i (w_net w)))
      end
  | ODup i =>
      match nth_error (w_net w) i with
      | None => Err "bad-op"
      | Some p => Ok (set_net w (w_net w ++ [p]))
      end
  | OTick d =>
      Ok (mkW (w_now w + d) (w_net w) (w_inbox w) (w_acked w) (w_idx w) (w_infl w) (w_dlog w) (w_sent w) (w_wire w))
  | OLoop a => loop_op c w a
  end.

Fixpoint run (c : cfg) (w : world) (ops : list op) : res world :=
  match ops with
  | [] => Ok w
  | o :: r => bind (step c w o) (fun w' => run c w' r)
  end.

(* keys of the Syn-prefixed entries of a delivery log *)
Definition keysof (l : list (option key * parsed)) : list key :=
  flat_map (fun e => match fst e with Some k => [k] | None => [] end) l.
