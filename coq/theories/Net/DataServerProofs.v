(* Invariants of the transfer model (Net/DataServer.v), by induction over arbitrary action
   sequences: no bound on hosts, datasets, trace length, losses or duplications. *)
From Coq Require Import List NArith ZArith String Bool Arith Lia.
From EKW Require Import Net.DataServer.
Import ListNotations.
Open Scope list_scope.

(* ------------------------------------------------------------------ dict / set lemmas *)
Section DictLemmas.
  Context {K V : Type} (eqd : forall a b : K, {a = b} + {a <> b}).

  Lemma lookup_upd_same : forall k v (d : list (K * V)), lookup eqd k (upd eqd k v d) = Some v.
  Proof.
    induction d as [|[k' v'] r IH]; simpl.
    - destruct (eqd k k); congruence.
    - destruct (eqd k k') as [E|E]; simpl.
      + destruct (eqd k k'); congruence.
      + destruct (eqd k k'); congruence.
  Qed.

  Lemma lookup_upd_other : forall k k' v (d : list (K * V)), k <> k' -> lookup eqd k (upd eqd k' v d) = lookup eqd k d.
  Proof.
    induction d as [|[k2 v2] r IH]; simpl; intros Hne.
    - destruct (eqd k k'); congruence.
    - destruct (eqd k' k2) as [E|E]; simpl.
      + subst. destruct (eqd k k2); congruence.
      + destruct (eqd k k2); auto.
  Qed.

  Lemma lookup_del_same : forall k (d : list (K * V)), lookup eqd k (del eqd k d) = None.
  Proof.
    induction d as [|[k2 v2] r IH]; simpl; auto.
    destruct (eqd k k2) as [E|E]; simpl; auto.
    destruct (eqd k k2); congruence.
  Qed.

  Lemma lookup_del_other : forall k k' (d : list (K * V)), k <> k' -> lookup eqd k (del eqd k' d) = lookup eqd k d.
  Proof.
    induction d as [|[k2 v2] r IH]; simpl; intros Hne; auto.
    destruct (eqd k' k2) as [E|E]; simpl.
    - subst. destruct (eqd k k2); try congruence. auto.
    - destruct (eqd k k2); auto.
  Qed.

  Lemma lookup_In : forall k v (d : list (K * V)), lookup eqd k d = Some v -> In (k, v) d.
  Proof.
    induction d as [|[k2 v2] r IH]; simpl; intros H; try discriminate.
    destruct (eqd k k2); [inversion H; subst; auto | auto].
  Qed.

  Lemma lookup_None_notin : forall k (d : list (K * V)), lookup eqd k d = None -> forall v, ~ In (k, v) d.
  Proof.
    induction d as [|[k2 v2] r IH]; simpl; intros H v; auto.
    destruct (eqd k k2); try discriminate. intros [E|E]; [inversion E; congruence | eapply IH; eauto].
  Qed.

  Lemma In_lookup_some : forall k v (d : list (K * V)), In (k, v) d -> exists v', lookup eqd k d = Some v'.
  Proof.
    induction d as [|[k2 v2] r IH]; simpl; intros H; [tauto|].
    destruct (eqd k k2); eauto. destruct H as [E|E]; [inversion E; congruence | auto].
  Qed.

  Lemma lookup_app_None : forall k (d e : list (K * V)), lookup eqd k d = None -> lookup eqd k (d ++ e) = lookup eqd k e.
  Proof.
    induction d as [|[k2 v2] r IH]; simpl; intros e H; auto.
    destruct (eqd k k2); try discriminate; auto.
  Qed.

  Lemma lookup_app_Some : forall k v (d e : list (K * V)), lookup eqd k d = Some v -> lookup eqd k (d ++ e) = Some v.
  Proof.
    induction d as [|[k2 v2] r IH]; simpl; intros e H; try discriminate.
    destruct (eqd k k2); auto.
  Qed.

  Lemma In_del : forall x k (d : list (K * V)), In x (del eqd k d) -> In x d.
  Proof.
    induction d as [|[k2 v2] r IH]; simpl; auto.
    destruct (eqd k k2); simpl; intuition.
  Qed.
End DictLemmas.

Lemma mem_true : forall {K} (eqd : forall a b : K, {a = b} + {a <> b}) k s, mem eqd k s = true <-> In k s.
Proof. intros. unfold mem. destruct (in_dec eqd k s); split; intros; auto; discriminate. Qed.

Lemma mem_false : forall {K} (eqd : forall a b : K, {a = b} + {a <> b}) k s, mem eqd k s = false <-> ~ In k s.
Proof. intros. unfold mem. destruct (in_dec eqd k s); split; intros; auto; try discriminate; tauto. Qed.

Lemma In_add : forall {K} (eqd : forall a b : K, {a = b} + {a <> b}) x k s, In x (add eqd k s) <-> x = k \/ In x s.
Proof.
  intros. unfold add. destruct (in_dec eqd k s).
  - split; intros; auto. destruct H; subst; auto.
  - rewrite in_app_iff. simpl. intuition.
Qed.

Lemma remove1_In : forall {A} (eqd : forall a b : A, {a = b} + {a <> b}) x l l',
  remove1 eqd x l = Some l' -> In x l /\ forall y, In y l' -> In y l.
Proof.
  induction l as [|y r IH]; simpl; intros l' H; try discriminate.
  destruct (eqd x y).
  - inversion H; subst. split; auto.
  - destruct (remove1 eqd x r) eqn:E; try discriminate. inversion H; subst.
    destruct (IH _ eq_refl) as [H1 H2]. split; auto. intros z [Hz|Hz]; auto.
Qed.

Lemma nth_error_set_nth : forall {A} (l : list A) i x k,
  nth_error (set_nth i x l) k = if Nat.eq_dec k i then (match nth_error l k with Some _ => Some x | None => None end) else nth_error l k.
Proof.
  induction l as [|y r IH]; intros i x k.
  - destruct (Nat.eq_dec k i); destruct k; destruct i; reflexivity.
  - destruct i as [|i]; destruct k as [|k]; simpl; try reflexivity.
    rewrite IH. destruct (Nat.eq_dec k i); destruct (Nat.eq_dec (S k) (S i)); try lia; reflexivity.
Qed.

Lemma nth_error_snoc : forall {A} (l : list A) x k,
  nth_error (l ++ [x]) k = if Nat.eq_dec k (List.length l) then Some x else nth_error l k.
Proof.
  intros. destruct (Nat.eq_dec k (List.length l)).
  - subst. rewrite nth_error_app2 by lia. rewrite Nat.sub_diag. reflexivity.
  - destruct (lt_dec k (List.length l)).
    + rewrite nth_error_app1 by lia. reflexivity.
    + rewrite nth_error_app2 by lia. destruct (k - List.length l) eqn:E; try lia. simpl.
      destruct n1; simpl; symmetry; apply nth_error_None; lia.
Qed.

(* ------------------------------------------------------------------ the invariant of one endpoint *)
Section Inv.
  (* the value a dataset id denotes: (bytes, deser_fun) as the producing worker serialised it *)
  Variable content : N -> bytes * N.

  Definition pay_ok (p : payload) : Prop := (p_val p, p_deser p) = content (p_ds p).
  Definition frame_ok (f : frame) : Prop :=
    match f with FData si sa p => pay_ok p /\ (si, sa) = syn_of p | _ => True end.
  Definition msg_ok (m : msg) : Prop := match m with MPay p => pay_ok p | _ => True end.
  Definition job_ok (j : job) : Prop := match j_key j with JPay p => pay_ok p | _ => True end.
  Definition entry_ok (e : N * (bytes * N)) : Prop := snd e = content (fst e).

  Definition inbox_syns (ms : list msg) : list (N * N) :=
    flat_map (fun m => match m with MPay p => [syn_of p] | _ => [] end) ms.
  Definition pub_ds (out : list event) : list N :=
    flat_map (fun e => match e with EPublished d _ => [d] | EFailure => [] end) out.

  Record hinv (h : hstate) : Prop := mkInv {
    (* content *)
    i_sockq : Forall frame_ok (h_sockq h);
    i_inbox : Forall msg_ok (h_inbox h);
    i_pool : Forall job_ok (h_pool h);
    i_store : Forall entry_ok (h_store h);
    (* every job of the pool that has not finished is tracked in futs_in_progress *)
    i_tracked : forall k j, nth_error (h_pool h) k = Some j -> j_done j = None -> lookup key_eq_dec (j_key j) (h_futs h) = Some k;
    i_valid : forall K i, lookup key_eq_dec K (h_futs h) = Some i -> exists j, nth_error (h_pool h) i = Some j;
    i_cmd : forall c i, lookup key_eq_dec (JCmd c) (h_futs h) = Some i -> exists t, lookup N.eq_dec (c_idx c) (h_await h) = Some (c, t);
    i_await_idx : Forall (fun e : N * (cmd * Z) => c_idx (fst (snd e)) = fst e) (h_await h);
    (* Listener de-duplication *)
    i_inb_acked : forall p, In (MPay p) (h_inbox h) -> In (syn_of p) (h_lacked h);
    i_inb_nodup : NoDup (inbox_syns (h_inbox h));
    i_pay : forall p i, lookup key_eq_dec (JPay p) (h_futs h) = Some i ->
              In (syn_of p) (h_lacked h) /\ ~ In (syn_of p) (inbox_syns (h_inbox h));
    (* purge *)
    i_nostore_invalid : forall k j p, nth_error (h_pool h) k = Some j -> j_key j = JPay p -> j_done j = None -> ~ In (p_ds p) (h_invalid h);
    i_pub_nodup : NoDup (pub_ds (h_out h));
    i_pub_held : forall d, In d (pub_ds (h_out h)) -> lookup N.eq_dec d (h_store h) <> None \/ In d (h_invalid h);
    i_invalid_gone : forall d, In d (h_invalid h) -> lookup N.eq_dec d (h_store h) = None
  }.

  Lemma hinv_h0 : hinv h0.
  Proof.
    constructor; simpl; try constructor; try (intros; discriminate); try tauto;
      try (intros k j H; destruct k; discriminate); try (intros k j p H; destruct k; discriminate).
  Qed.

  Definition hact_ok (a : hact) : Prop :=
    match a with HPublish d b z => (b, z) = content d | _ => True end.

  Definition out_ok (out : list (N * frame)) : Prop := Forall (fun af => frame_ok (snd af)) out.

  (* ---------------------------------------------------------------- clean pass *)
  Definition track (pool : list job) (futs : list (jobkey * nat)) (aw : list (N * (cmd * Z))) : Prop :=
    (forall k j, nth_error pool k = Some j -> j_done j = None -> lookup key_eq_dec (j_key j) futs = Some k) /\
    (forall c i, lookup key_eq_dec (JCmd c) futs = Some i -> exists t, lookup N.eq_dec (c_idx c) aw = Some (c, t)).

  Lemma clean_pass_track : forall pool keys futs aw f' a',
    clean_pass pool keys futs aw = (f', a') -> track pool futs aw ->
    track pool f' a' /\ (forall K i, lookup key_eq_dec K f' = Some i -> lookup key_eq_dec K futs = Some i).
  Proof.
    induction keys as [|k r IH]; simpl; intros futs aw f' a' H T.
    - inversion H; subst. split; auto.
    - destruct (lookup key_eq_dec k futs) as [i|] eqn:L; [|eapply IH; eauto].
      destruct (job_done pool i) as [t|] eqn:D; [|eapply IH; eauto].
      destruct T as [T1 T2].
      assert (T' : track pool (del key_eq_dec k futs)
                     (match k with JCmd c => upd N.eq_dec (c_idx c) (c, t) aw | JPay _ => aw end)).
      { split.
        - intros k0 j Hn Hd. specialize (T1 _ _ Hn Hd).
          destruct (key_eq_dec (j_key j) k) as [E|E].
          + subst k. rewrite T1 in L. inversion L; subst. unfold job_done in D. rewrite Hn in D. congruence.
          + rewrite lookup_del_other; auto.
        - intros c i0 Hl. destruct (key_eq_dec (JCmd c) k) as [E|E].
          + subst k. rewrite lookup_del_same in Hl. discriminate.
          + rewrite lookup_del_other in Hl by auto. destruct (T2 _ _ Hl) as [t0 Ht0].
            destruct k as [c'|p'].
            * destruct (N.eq_dec (c_idx c) (c_idx c')) as [Ei|Ei].
              -- destruct (T2 _ _ L) as [t1 Ht1]. rewrite <- Ei in Ht1. rewrite Ht0 in Ht1. inversion Ht1; subst. congruence.
              -- exists t0. rewrite lookup_upd_other; auto.
            * eauto. }
      destruct (IH _ _ _ _ H T') as [R1 R2]. split; auto.
      intros K i0 Hl. specialize (R2 _ _ Hl).
      destruct (key_eq_dec K k) as [E|E].
      + subst. rewrite lookup_del_same in R2. discriminate.
      + rewrite lookup_del_other in R2; auto.
  Qed.

  Lemma clean_pass_await_keys : forall pool keys futs aw f' a',
    clean_pass pool keys futs aw = (f', a') ->
    forall i c t, lookup N.eq_dec i a' = Some (c, t) ->
      (exists t0, lookup N.eq_dec i aw = Some (c, t0)) \/ (i = c_idx c /\ exists n, lookup key_eq_dec (JCmd c) futs = Some n).
  Proof.
    induction keys as [|k r IH]; simpl; intros futs aw f' a' H i c t Hl.
    - inversion H; subst. eauto.
    - destruct (lookup key_eq_dec k futs) as [n|] eqn:L; [|eapply IH; eauto].
      destruct (job_done pool n) as [t1|] eqn:D; [|eapply IH; eauto].
      destruct (IH _ _ _ _ H _ _ _ Hl) as [[t0 H0]|[Hi [n0 H0]]].
      + destruct k as [c'|p']; eauto.
        destruct (N.eq_dec i (c_idx c')) as [E|E].
        * subst. rewrite lookup_upd_same in H0. inversion H0; subst. right. eauto.
        * rewrite lookup_upd_other in H0; eauto.
      + right. split; auto. destruct (key_eq_dec (JCmd c) k) as [E|E].
        * subst. rewrite lookup_del_same in H0. discriminate.
        * rewrite lookup_del_other in H0; eauto.
  Qed.

  (* when nothing tracked is running, one pass empties futs_in_progress *)
  Lemma clean_pass_empties : forall pool keys futs aw,
    (forall K i, lookup key_eq_dec K futs = Some i -> exists t, job_done pool i = Some t) ->
    forall K, (In K keys \/ lookup key_eq_dec K futs = None) -> lookup key_eq_dec K (fst (clean_pass pool keys futs aw)) = None.
  Proof.
    induction keys as [|k r IH]; simpl; intros futs aw Hd K HK.
    - destruct HK; [tauto|auto].
    - destruct (lookup key_eq_dec k futs) as [i|] eqn:L.
      + destruct (Hd _ _ L) as [t Ht]. rewrite Ht. apply IH.
        * intros K0 i0 Hl. destruct (key_eq_dec K0 k); [subst; rewrite lookup_del_same in Hl; discriminate|].
          rewrite lookup_del_other in Hl; eauto.
        * destruct (key_eq_dec K k); [subst; right; apply lookup_del_same|].
          rewrite lookup_del_other by auto. destruct HK as [[E|E]|E]; [congruence|auto|auto].
      + apply IH; auto. destruct HK as [[E|E]|E]; subst; auto.
  Qed.

  Lemma Forall_del : forall {K V} (eqd : forall a b : K, {a = b} + {a <> b}) (P : K * V -> Prop) k d,
    Forall P d -> Forall P (del eqd k d).
  Proof. intros. rewrite Forall_forall in *. intros x Hx. apply H. eapply In_del; eauto. Qed.

  Lemma Forall_filter : forall {A} (P : A -> Prop) f l, Forall P l -> Forall P (filter f l).
  Proof. intros. rewrite Forall_forall in *. intros x Hx. apply filter_In in Hx. apply H; tauto. Qed.

  Definition aw_idx (aw : list (N * (cmd * Z))) : Prop := Forall (fun e : N * (cmd * Z) => c_idx (fst (snd e)) = fst e) aw.

  Lemma Forall_upd_at : forall {V} (P : N * V -> Prop) k v d,
    Forall P d -> P (k, v) -> Forall P (upd N.eq_dec k v d).
  Proof.
    induction d as [|[k2 v2] r IH]; simpl; intros H Hp.
    - constructor; auto.
    - inversion H; subst. destruct (N.eq_dec k k2); constructor; subst; auto.
  Qed.

  Lemma clean_pass_aw_idx : forall pool keys futs aw, aw_idx aw -> aw_idx (snd (clean_pass pool keys futs aw)).
  Proof.
    induction keys as [|k r IH]; simpl; intros futs aw H; auto.
    destruct (lookup key_eq_dec k futs) as [i|]; auto.
    destruct (job_done pool i) as [t|]; auto.
    apply IH. destruct k; auto. apply Forall_upd_at; auto.
  Qed.

  Lemma do_clean_fields : forall h,
    h_pool (do_clean h) = h_pool h /\ h_invalid (do_clean h) = h_invalid h /\ h_acks (do_clean h) = h_acks h /\
    h_lacked (do_clean h) = h_lacked h /\ h_sockq (do_clean h) = h_sockq h /\ h_inbox (do_clean h) = h_inbox h /\
    h_store (do_clean h) = h_store h /\ h_crashed (do_clean h) = h_crashed h /\ h_out (do_clean h) = h_out h /\ h_rq (do_clean h) = h_rq h.
  Proof. intros. unfold do_clean. destruct (clean_pass _ _ _ _). simpl. repeat split; reflexivity. Qed.

  Lemma do_clean_inv : forall h, hinv h -> hinv (do_clean h).
  Proof.
    intros h I. pose proof (clean_pass_aw_idx (h_pool h) (map fst (h_futs h)) (h_futs h) (h_await h) (i_await_idx _ I)) as Hidx.
    unfold do_clean.
    destruct (clean_pass (h_pool h) (map fst (h_futs h)) (h_futs h) (h_await h)) as [f a] eqn:C.
    destruct (clean_pass_track _ _ _ _ _ _ C (conj (i_tracked _ I) (i_cmd _ I))) as [[T1 T2] Sub].
    destruct I. constructor; simpl; auto.
    - intros K i Hl. eauto.
    - intros p i Hl. eauto.
  Qed.

  (* after a pass with nothing running, futs_in_progress is empty *)
  Lemma do_clean_empties : forall h, hinv h -> any_tracked_pending h = false ->
    forall K, lookup key_eq_dec K (h_futs (do_clean h)) = None.
  Proof.
    intros h I Hp K.
    assert (Hd : forall K i, lookup key_eq_dec K (h_futs h) = Some i -> exists t, job_done (h_pool h) i = Some t).
    { intros K0 i Hl. unfold any_tracked_pending in Hp.
      destruct (job_pending (h_pool h) i) eqn:E.
      - exfalso. assert (existsb (fun kv => job_pending (h_pool h) (snd kv)) (h_futs h) = true).
        { apply existsb_exists. exists (K0, i). split; [eapply lookup_In; eauto|auto]. }
        congruence.
      - destruct (i_valid _ I _ _ Hl) as [j Hj]. unfold job_pending in E. unfold job_done. rewrite Hj in *.
        destruct (j_done j); eauto. discriminate. }
    pose proof (clean_pass_empties (h_pool h) (map fst (h_futs h)) (h_futs h) (h_await h) Hd K) as R.
    unfold do_clean. destruct (clean_pass (h_pool h) (map fst (h_futs h)) (h_futs h) (h_await h)) as [f a]. simpl in *.
    apply R. destruct (lookup key_eq_dec K (h_futs h)) as [i|] eqn:L; auto.
    left. apply lookup_In in L. apply in_map_iff. exists (K, i). auto.
  Qed.

  (* ---------------------------------------------------------------- submit *)
  Lemma submit_tracked : forall K h,
    (forall k j, nth_error (h_pool h) k = Some j -> j_done j = None -> lookup key_eq_dec (j_key j) (h_futs h) = Some k) ->
    (forall K i, lookup key_eq_dec K (h_futs h) = Some i -> exists j, nth_error (h_pool h) i = Some j) ->
    lookup key_eq_dec K (h_futs h) = None ->
    (forall k j, nth_error (h_pool h ++ [mkJob K None]) k = Some j -> j_done j = None ->
        lookup key_eq_dec (j_key j) (upd key_eq_dec K (List.length (h_pool h)) (h_futs h)) = Some k) /\
    (forall K' i, lookup key_eq_dec K' (upd key_eq_dec K (List.length (h_pool h)) (h_futs h)) = Some i ->
        exists j, nth_error (h_pool h ++ [mkJob K None]) i = Some j).
  Proof.
    intros K h It Iv HK. split.
    - intros k j Hn Hd. rewrite nth_error_snoc in Hn. destruct (Nat.eq_dec k (List.length (h_pool h))).
      + inversion Hn; subst. simpl. apply lookup_upd_same.
      + pose proof (It _ _ Hn Hd) as Hl.
        rewrite lookup_upd_other; auto. intro E. rewrite E in Hl. congruence.
    - intros K' i Hl. rewrite nth_error_snoc. destruct (Nat.eq_dec i (List.length (h_pool h))); eauto.
      destruct (key_eq_dec K' K).
      + subst. rewrite lookup_upd_same in Hl. inversion Hl; subst; congruence.
      + rewrite lookup_upd_other in Hl by auto. eapply Iv; eauto.
  Qed.


  (* ---------------------------------------------------------------- small facts *)
  Lemma inbox_syns_app : forall a b, inbox_syns (a ++ b) = inbox_syns a ++ inbox_syns b.
  Proof. intros. unfold inbox_syns. apply flat_map_app. Qed.

  Lemma inbox_syns_In : forall s ms, In s (inbox_syns ms) <-> exists p, In (MPay p) ms /\ syn_of p = s.
  Proof.
    intros. unfold inbox_syns. rewrite in_flat_map. split.
    - intros [m [Hm Hs]]. destruct m; simpl in Hs; try tauto. destruct Hs as [E|[]]. eauto.
    - intros [p [Hp E]]. exists (MPay p). simpl. auto.
  Qed.

  Lemma pub_ds_app : forall a b, pub_ds (a ++ b) = pub_ds a ++ pub_ds b.
  Proof. intros. unfold pub_ds. apply flat_map_app. Qed.

  Lemma NoDup_snoc : forall {A} (l : list A) x, NoDup l -> ~ In x l -> NoDup (l ++ [x]).
  Proof.
    induction l as [|y r IH]; simpl; intros x H Hn.
    - constructor; auto.
    - inversion H; subst. constructor.
      + rewrite in_app_iff. simpl. intros [Q|[Q|[]]]; [tauto|]. subst. apply Hn. auto.
      + apply IH; auto.
  Qed.

  Lemma Forall_snoc : forall {A} (P : A -> Prop) l x, Forall P l -> P x -> Forall P (l ++ [x]).
  Proof. intros. apply Forall_app. split; auto. Qed.

  Lemma Forall_set_nth : forall {A} (P : A -> Prop) l i x, Forall P l -> P x -> Forall P (set_nth i x l).
  Proof.
    induction l as [|y r IH]; intros i x H Hx; destruct i; simpl; auto; inversion H; subst; constructor; auto.
  Qed.

  Lemma Forall_tl : forall {A} (P : A -> Prop) x l, Forall P (x :: l) -> Forall P l.
  Proof. intros. inversion H; auto. Qed.

  (* ---------------------------------------------------------------- Listener *)
  Lemma listen_inv : forall h h' out, hinv h -> listen h = Ok (h', out) -> hinv h' /\ out_ok out.
  Proof.
    intros h h' out I H. unfold listen in H.
    destruct (h_sockq h) as [|f q] eqn:Q; try discriminate.
    pose proof (i_sockq _ I) as Hsq. rewrite Q in Hsq. inversion Hsq as [|? ? Hf Hq]; subst.
    assert (Hout : forall a i, out_ok [(a, FAck i)]) by (intros; constructor; simpl; auto).
    destruct f as [si sa p|si sa c|i|d]; simpl in H.
    - destruct Hf as [Hp Hs].
      destruct (mem syn_eq_dec (si, sa) (h_lacked h)) eqn:M; inversion H; subst; clear H; split; auto.
      + destruct I. constructor; simpl; auto.
      + apply mem_false in M. rewrite Hs in *.
        destruct I. constructor; simpl; auto.
        * apply Forall_snoc; auto.
        * intros p0 Hin. rewrite in_app_iff in *. simpl in Hin. destruct Hin as [Hin|[E|[]]]; auto.
          inversion E; subst. simpl. auto.
        * rewrite inbox_syns_app. simpl. apply NoDup_snoc; auto.
          intro Hin. apply inbox_syns_In in Hin. destruct Hin as [p0 [Hp0 E]]. apply M. rewrite <- E. auto.
        * intros p0 i Hl. destruct (i_pay0 _ _ Hl) as [A B]. split.
          -- rewrite in_app_iff. auto.
          -- rewrite inbox_syns_app, in_app_iff. simpl. intros [C|[C|[]]]; auto. apply M. rewrite C. auto.
    - destruct (mem syn_eq_dec (si, sa) (h_lacked h)) eqn:M; inversion H; subst; clear H; split; auto.
      + destruct I. constructor; simpl; auto.
      + destruct I. constructor; simpl; auto.
        * apply Forall_snoc; simpl; auto.
        * intros p0 Hin. rewrite in_app_iff in *. simpl in Hin. destruct Hin as [Hin|[E|[]]]; auto. discriminate.
        * rewrite inbox_syns_app. simpl. rewrite app_nil_r. auto.
        * intros p0 i Hl. destruct (i_pay0 _ _ Hl) as [A B]. split.
          -- rewrite in_app_iff. auto.
          -- rewrite inbox_syns_app. simpl. rewrite app_nil_r. auto.
    - inversion H; subst; clear H. split; [|constructor].
      destruct I. constructor; simpl; auto.
      + apply Forall_snoc; simpl; auto.
      + intros p0 Hin. rewrite in_app_iff in Hin. simpl in Hin. destruct Hin as [Hin|[E|[]]]; auto. discriminate.
      + rewrite inbox_syns_app. simpl. rewrite app_nil_r. auto.
      + intros p0 i0 Hl. rewrite inbox_syns_app. simpl. rewrite app_nil_r. eauto.
    - inversion H; subst; clear H. split; [|constructor].
      destruct I. constructor; simpl; auto.
      + apply Forall_snoc; simpl; auto.
      + intros p0 Hin. rewrite in_app_iff in Hin. simpl in Hin. destruct Hin as [Hin|[E|[]]]; auto. discriminate.
      + rewrite inbox_syns_app. simpl. rewrite app_nil_r. auto.
      + intros p0 i0 Hl. rewrite inbox_syns_app. simpl. rewrite app_nil_r. eauto.
  Qed.

  (* ---------------------------------------------------------------- popping the inbox *)
  Lemma pop_inbox_inv : forall h m q, hinv h -> h_inbox h = m :: q -> hinv (set_inbox q h).
  Proof.
    intros h m q I Q. destruct I. rewrite Q in *. constructor; simpl; auto.
    - eapply Forall_tl; eauto.
    - intros p Hin. apply i_inb_acked0. simpl. auto.
    - destruct m; simpl in i_inb_nodup0; auto. inversion i_inb_nodup0; auto.
    - intros p i Hl. destruct (i_pay0 _ _ Hl) as [A B]. split; auto.
      intro C. apply B. destruct m; simpl; auto.
  Qed.

  Lemma crash_inv : forall e h, hinv h -> hinv (crash e h).
  Proof. intros e h I. destruct I. constructor; simpl; auto. Qed.

  (* ---------------------------------------------------------------- the message loop *)
  Lemma process_inv : forall h h', hinv h -> process h = Ok h' -> hinv h'.
  Proof.
    intros h h' I H. unfold process in H.
    destruct (h_crashed h); try discriminate.
    destruct (h_inbox h) as [|m q] eqn:Q; try discriminate.
    pose proof (pop_inbox_inv _ _ _ I Q) as I1.
    pose proof (i_inbox _ I) as Hin. rewrite Q in Hin. inversion Hin as [|? ? Hm Hq]; subst.
    destruct m as [c|p|i|d].
    - (* command *)
      simpl in H.
      destruct (lookup N.eq_dec (c_idx c) (h_await h)) as [x|] eqn:LA.
      { inversion H; subst. apply crash_inv; auto. }
      destruct (mem N.eq_dec (c_ds c) (h_invalid h)) eqn:MI.
      { inversion H; subst. apply crash_inv; auto. }
      inversion H; subst; clear H.
      assert (HK : lookup key_eq_dec (JCmd c) (h_futs h) = None).
      { destruct (lookup key_eq_dec (JCmd c) (h_futs h)) eqn:L; auto.
        destruct (i_cmd _ I _ _ L) as [t Ht]. congruence. }
      destruct (submit_tracked (JCmd c) h (i_tracked _ I) (i_valid _ I) HK) as [S1 S2].
      destruct I1. unfold submit. constructor; simpl in *; auto.
      + apply Forall_snoc; auto; unfold job_ok; simpl; auto.
      + intros c0 i0 Hl. destruct (key_eq_dec (JCmd c0) (JCmd c)) as [E|E].
        * inversion E; subst. exists (-1)%Z. apply lookup_upd_same.
        * rewrite lookup_upd_other in Hl by auto. destruct (i_cmd0 _ _ Hl) as [t Ht]. exists t.
          rewrite lookup_upd_other; auto. intro E2. rewrite E2 in Ht. congruence.
      + apply Forall_upd_at; auto.
      + intros p0 i0 Hl. rewrite lookup_upd_other in Hl by discriminate. eauto.
      + intros k j p0 Hn Hk Hd. rewrite nth_error_snoc in Hn. destruct (Nat.eq_dec k (List.length (h_pool h))).
        * inversion Hn; subst. simpl in Hk. discriminate.
        * eauto.
    - (* payload *)
      simpl in H. destruct (mem N.eq_dec (p_ds p) (h_invalid h)) eqn:MI; inversion H; subst; clear H; auto.
      apply mem_false in MI.
      assert (HK : lookup key_eq_dec (JPay p) (h_futs h) = None).
      { destruct (lookup key_eq_dec (JPay p) (h_futs h)) eqn:L; auto.
        destruct (i_pay _ I _ _ L) as [_ B]. exfalso. apply B. rewrite Q. simpl. auto. }
      destruct (submit_tracked (JPay p) h (i_tracked _ I) (i_valid _ I) HK) as [S1 S2].
      pose proof (i_inb_nodup _ I) as ND. rewrite Q in ND. simpl in ND. inversion ND as [|? ? ND1 ND2]; subst.
      pose proof (i_inb_acked _ I p) as AK. rewrite Q in AK. specialize (AK (or_introl eq_refl)).
      destruct I1. unfold submit. constructor; simpl in *; auto.
      + apply Forall_snoc; auto.
      + intros c0 i0 Hl. rewrite lookup_upd_other in Hl by discriminate. eauto.
      + intros p0 i0 Hl. destruct (key_eq_dec (JPay p0) (JPay p)) as [E|E].
        * inversion E; subst. split; auto.
        * rewrite lookup_upd_other in Hl by auto. eauto.
      + intros k j p0 Hn Hk Hd. rewrite nth_error_snoc in Hn. destruct (Nat.eq_dec k (List.length (h_pool h))).
        * inversion Hn; subst. simpl in Hk. inversion Hk; subst. auto.
        * eauto.
    - (* ack *)
      simpl in H. inversion H; subst; clear H. destruct I1. constructor; simpl in *; auto.
    - (* purge *)
      simpl in H. destruct (any_tracked_pending (set_inbox q h)) eqn:AP; try discriminate.
      inversion H; subst; clear H.
      pose proof (do_clean_inv _ I1) as I2.
      pose proof (do_clean_empties _ I1 AP) as EM.
      destruct (do_clean_fields (set_inbox q h)) as [F1 [F2 [F3 [F4 [F5 [F6 [F7 [F8 [F9 F10]]]]]]]]].
      set (h2 := do_clean (set_inbox q h)) in *.
      destruct I2. constructor; simpl in *; auto.
      + apply Forall_del; auto.
      + intros c i Hl. rewrite EM in Hl. discriminate.
      + apply Forall_filter; auto.
      + intros k j p Hn Hk Hd. pose proof (i_tracked0 _ _ Hn Hd) as T. rewrite EM in T. discriminate.
      + intros d0 Hd0. destruct (N.eq_dec d0 d).
        * subst d0. right. apply In_add. auto.
        * destruct (i_pub_held0 _ Hd0) as [A|A].
          -- left. rewrite lookup_del_other; auto.
          -- right. apply In_add. auto.
      + intros d0 Hd0. apply In_add in Hd0. destruct (N.eq_dec d0 d).
        * subst d0. apply lookup_del_same.
        * rewrite lookup_del_other by auto. destruct Hd0; [congruence|auto].
  Qed.

  (* a purge is applied only when no job of the host's pool is still running *)
  Lemma purge_waits : forall h h' d q, hinv h -> h_inbox h = MPurge d :: q -> process h = Ok h' ->
    forall j, In j (h_pool h) -> j_done j <> None.
  Proof.
    intros h h' d q I Q H j Hj. unfold process in H.
    destruct (h_crashed h); try discriminate. rewrite Q in H. simpl in H.
    destruct (any_tracked_pending (set_inbox q h)) eqn:AP; try discriminate.
    intro Hd. apply In_nth_error in Hj. destruct Hj as [k Hk].
    pose proof (i_tracked _ I _ _ Hk Hd) as T.
    unfold any_tracked_pending in AP. simpl in AP.
    assert (existsb (fun kv => job_pending (h_pool h) (snd kv)) (h_futs h) = true).
    { apply existsb_exists. exists (j_key j, k). split; [eapply lookup_In; eauto|].
      simpl. unfold job_pending. rewrite Hk, Hd. auto. }
    congruence.
  Qed.

  (* ---------------------------------------------------------------- retry *)
  Lemma retry_one_inv : forall h h', hinv h -> retry_one h = Ok h' -> hinv h'.
  Proof.
    intros h h' I H. unfold retry_one in H.
    destruct (h_crashed h); try discriminate.
    destruct (h_rq h) as [|e q] eqn:Q; try discriminate.
    assert (I1 : hinv (set_rq q h)) by (destruct I; constructor; simpl; auto).
    simpl in H.
    destruct (lookup N.eq_dec e (h_await h)) as [[c t]|] eqn:LA.
    2:{ inversion H; subst. apply crash_inv; auto. }
    destruct (has_key (JCmd c) (h_futs h)) eqn:HK.
    { inversion H; subst. apply crash_inv; auto. }
    unfold has_key in HK. destruct (lookup key_eq_dec (JCmd c) (h_futs h)) eqn:HK'; try discriminate. clear HK.
    assert (Ei : c_idx c = e).
    { pose proof (i_await_idx _ I) as A. rewrite Forall_forall in A. apply (A (e, (c, t))). eapply lookup_In; eauto. }
    assert (Hdel : hinv (set_await (del N.eq_dec e (h_await h)) (set_rq q h))).
    { destruct I1. constructor; simpl in *; auto.
      - intros c0 i0 Hl. destruct (i_cmd0 _ _ Hl) as [t0 Ht0]. exists t0.
        rewrite lookup_del_other; auto. intro E. rewrite E in Ht0. rewrite LA in Ht0. inversion Ht0; subst. congruence.
      - apply Forall_del; auto. }
    destruct (mem N.eq_dec (c_idx c) (h_acks h)); [inversion H; subst; auto|].
    destruct (mem N.eq_dec (c_ds c) (h_invalid h)); [inversion H; subst; auto|].
    inversion H; subst; clear H.
    destruct (submit_tracked (JCmd c) h (i_tracked _ I) (i_valid _ I) HK') as [S1 S2].
    destruct I1. unfold submit. constructor; simpl in *; auto.
    - apply Forall_snoc; auto; unfold job_ok; simpl; auto.
    - intros c0 i0 Hl. destruct (key_eq_dec (JCmd c0) (JCmd c)) as [E|E].
      + inversion E; subst. exists (-1)%Z. apply lookup_upd_same.
      + rewrite lookup_upd_other in Hl by auto. destruct (i_cmd0 _ _ Hl) as [t0 Ht0]. exists t0.
        rewrite lookup_upd_other; auto. intro E2. rewrite E2 in Ht0. rewrite LA in Ht0. inversion Ht0; subst. congruence.
    - apply Forall_upd_at; auto.
    - intros p0 i0 Hl. rewrite lookup_upd_other in Hl by discriminate. eauto.
    - intros k j p0 Hn Hk Hd. rewrite nth_error_snoc in Hn. destruct (Nat.eq_dec k (List.length (h_pool h))).
      + inversion Hn; subst. simpl in Hk. discriminate.
      + eauto.
  Qed.

  (* ---------------------------------------------------------------- pool jobs *)
  Lemma run_job_inv : forall me t k h h' out, hinv h -> run_job me t k h = Ok (h', out) -> hinv h' /\ out_ok out.
  Proof.
    intros me t k h h' out I H. unfold run_job in H.
    destruct (nth_error (h_pool h) k) as [j|] eqn:Hk; try discriminate.
    destruct (j_done j) eqn:Hd; try discriminate.
    set (pool' := set_nth k (mkJob (j_key j) (Some t)) (h_pool h)) in *.
    assert (Hjok : job_ok j).
    { pose proof (i_pool _ I) as A. rewrite Forall_forall in A. apply A. eapply nth_error_In; eauto. }
    assert (P1 : Forall job_ok pool') by (apply Forall_set_nth; [apply (i_pool _ I)|exact Hjok]).
    assert (P2 : forall k0 j0, nth_error pool' k0 = Some j0 -> j_done j0 = None -> k0 <> k /\ nth_error (h_pool h) k0 = Some j0).
    { intros k0 j0 Hn Hd0. unfold pool' in Hn. rewrite nth_error_set_nth in Hn. destruct (Nat.eq_dec k0 k).
      - subst. rewrite Hk in Hn. inversion Hn; subst. simpl in Hd0. discriminate.
      - auto. }
    assert (P3 : forall i, (exists j0, nth_error (h_pool h) i = Some j0) -> exists j0, nth_error pool' i = Some j0).
    { intros i [j0 Hj0]. unfold pool'. rewrite nth_error_set_nth. destruct (Nat.eq_dec i k); subst; rewrite ?Hj0; eauto. }
    assert (I1 : hinv (set_pool pool' h)).
    { destruct I. constructor; simpl; auto.
      - intros k0 j0 Hn Hd0. destruct (P2 _ _ Hn Hd0). eauto.
      - intros K i Hl. apply P3. eauto.
      - intros k0 j0 p Hn Hkey Hd0. destruct (P2 _ _ Hn Hd0). eauto. }
    destruct (j_key j) as [c|p] eqn:Hkey.
    - (* send_payload *)
      assert (IF : hinv (set_out (h_out (set_pool pool' h) ++ [EFailure]) (set_pool pool' h))).
      { destruct I1. constructor; simpl in *; auto.
        - rewrite pub_ds_app. simpl. rewrite app_nil_r. auto.
        - intros d. rewrite pub_ds_app. simpl. rewrite app_nil_r. auto. }
      destruct (N.eqb (c_tgt c) me || negb (N.eqb (c_src c) me)).
      { inversion H; subst. split; auto. constructor. }
      simpl in H. destruct (lookup N.eq_dec (c_ds c) (h_store h)) as [[b z]|] eqn:LS.
      + inversion H; subst. split; auto. constructor; [|constructor]. simpl. split; auto.
        unfold pay_ok. simpl. pose proof (i_store _ I) as A. rewrite Forall_forall in A.
        apply lookup_In in LS. apply (A _ LS).
      + inversion H; subst. split; auto. constructor.
    - (* store_payload *)
      simpl in H. destruct (lookup N.eq_dec (p_ds p) (h_store h)) as [x|] eqn:LS.
      + inversion H; subst. split; auto. constructor.
      + inversion H; subst; clear H. split; [|constructor].
        assert (NI : ~ In (p_ds p) (h_invalid h)) by (eapply (i_nostore_invalid _ I); eauto).
        unfold job_ok in Hjok. rewrite Hkey in Hjok.
        destruct I1. constructor; simpl in *; auto.
        * apply Forall_snoc; auto.
        * rewrite pub_ds_app. simpl. apply NoDup_snoc; auto. intro Hin.
          destruct (i_pub_held0 _ Hin); [congruence|tauto].
        * intros d. rewrite pub_ds_app, in_app_iff. simpl. intros [Hin|[E|[]]].
          -- destruct (i_pub_held0 _ Hin) as [A|A]; auto. left.
             destruct (lookup N.eq_dec d (h_store h)) eqn:L; [|congruence].
             erewrite lookup_app_Some by eauto; discriminate.
          -- subst. left. rewrite lookup_app_None by auto. simpl. destruct (N.eq_dec (p_ds p) (p_ds p)); congruence.
        * intros d Hin. rewrite lookup_app_None by auto. simpl.
          destruct (N.eq_dec d (p_ds p)); auto. subst. tauto.
  Qed.

  Lemma publish_inv : forall d b z h h', hinv h -> (b, z) = content d -> publish d b z h = Ok h' -> hinv h'.
  Proof.
    intros d b z h h' I Hc H. unfold publish in H.
    destruct (mem N.eq_dec d (h_invalid h)) eqn:M; try discriminate. apply mem_false in M.
    destruct (lookup N.eq_dec d (h_store h)) eqn:L; try discriminate. inversion H; subst; clear H.
    destruct I. constructor; simpl; auto.
    - apply Forall_snoc; auto.
    - intros d0 Hin. destruct (i_pub_held0 _ Hin) as [A|A]; auto. left.
      destruct (lookup N.eq_dec d0 (h_store h)) eqn:L0; [|congruence]. erewrite lookup_app_Some by eauto; discriminate.
    - intros d0 Hin. rewrite lookup_app_None by auto. simpl. destruct (N.eq_dec d0 d); auto. subst. tauto.
  Qed.

  Lemma hstep_inv : forall me t h a h' out,
    hinv h -> hact_ok a -> hstep me t h a = Ok (h', out) -> hinv h' /\ out_ok out.
  Proof.
    intros me t h a h' out I Ha H. destruct a; simpl in H.
    - destruct (h_crashed h); inversion H; subst. split; [apply do_clean_inv; auto|constructor].
    - destruct (h_crashed h); try discriminate. eapply listen_inv; eauto.
    - destruct (process h) eqn:P; inversion H; subst. split; [eapply process_inv; eauto|constructor].
    - destruct (retry_scan t h) eqn:P; inversion H; subst. split; [|constructor].
      unfold retry_scan in P. destruct (h_crashed h); inversion P; subst. destruct I; constructor; simpl; auto.
    - destruct (retry_one h) eqn:P; inversion H; subst. split; [eapply retry_one_inv; eauto|constructor].
    - eapply run_job_inv; eauto.
    - destruct (publish d b z h) eqn:P; inversion H; subst. split; [eapply publish_inv; eauto|constructor].
  Qed.

End Inv.

(* ------------------------------------------------------------------ the whole system *)
Section Sys.
  Variable content : N -> bytes * N.

  Definition action_ok (a : action) : Prop := match a with AHost _ ha => hact_ok content ha | _ => True end.
  Definition sinv (s : state) : Prop := (forall h, hinv content (hosts s h)) /\ out_ok content (net s).

  Lemma init_inv : sinv init.
  Proof. split; [intro; apply hinv_h0 | constructor]. Qed.

  Lemma step_inv : forall s a s', sinv s -> action_ok a -> step s a = Ok s' -> sinv s'.
  Proof.
    unfold sinv, out_ok. intros s a s' [IH IN] Ha H. destruct a; simpl in H.
    - inversion H; subst. split; simpl; auto. apply Forall_app. split; auto; repeat constructor.
    - inversion H; subst. split; simpl; auto. apply Forall_app. split; auto; repeat constructor.
    - destruct (remove1 aframe_eq_dec (a, f) (net s)) as [n'|] eqn:R; inversion H; subst; clear H.
      destruct (remove1_In _ _ _ _ R) as [R1 R2]. rewrite Forall_forall in IN.
      split; simpl.
      + intro h. unfold set_host. destruct (N.eq_dec h a); auto. subst.
        specialize (IH a). destruct IH. constructor; simpl; auto.
        apply Forall_snoc; auto. apply (IN _ R1).
      + rewrite Forall_forall. intros x Hx. apply IN. auto.
    - destruct (remove1 aframe_eq_dec (a, f) (net s)) as [n'|] eqn:R; inversion H; subst; clear H.
      destruct (remove1_In _ _ _ _ R) as [R1 R2]. rewrite Forall_forall in IN.
      split; simpl; auto. rewrite Forall_forall. intros x Hx. apply IN. auto.
    - destruct (in_dec aframe_eq_dec (a, f) (net s)); inversion H; subst; clear H.
      split; simpl; auto. apply Forall_app. split; auto. constructor; auto. rewrite Forall_forall in IN. apply (IN _ i).
    - inversion H; subst. split; simpl; auto.
    - destruct (hstep h (now s) (hosts s h) a) as [[hs' out]|] eqn:HS; inversion H; subst; clear H.
      destruct (hstep_inv content _ _ _ _ _ _ (IH h) Ha HS) as [I' O'].
      split; simpl.
      + intro x. unfold set_host. destruct (N.eq_dec x h); auto.
      + apply Forall_app. split; auto.
  Qed.

  Lemma run_inv : forall acts s s', sinv s -> Forall action_ok acts -> run s acts = Ok s' -> sinv s'.
  Proof.
    induction acts as [|a r IH]; simpl; intros s s' I Ha H.
    - inversion H; subst; auto.
    - inversion Ha; subst. destruct (step s a) as [s1|] eqn:S; try discriminate.
      apply (IH s1 s'); auto. eapply step_inv; eauto.
  Qed.

  Lemma run_app : forall a b s, run s (a ++ b) = match run s a with Ok s' => run s' b | Err e => Err e end.
  Proof. induction a as [|x r IH]; simpl; intros; auto. destruct (step s x); auto. Qed.

  (* an iteration of recv_loop is a sequence of atomic actions of that host, none of them a worker publication *)
  Lemma next_ok : forall h ph picks a ph' picks', next h ph picks = (Some a, ph', picks') -> hact_ok content a.
  Proof.
    intros h ph picks a ph' picks' H. unfold next in H.
    destruct (h_crashed h); [inversion H|].
    destruct ph; simpl in H;
      repeat match type of H with
             | context [match ?x with _ => _ end] => destruct x
             | context [if ?x then _ else _] => destruct x
             end; inversion H; subst; simpl; auto.
  Qed.

  Lemma iter_run : forall fuel s h ph picks s', iter fuel s h ph picks = Ok s' ->
    exists acts, run s acts = Ok s' /\ Forall action_ok acts.
  Proof.
    induction fuel as [|fuel IH]; intros s h ph picks s' H; [discriminate|].
    cbn [iter] in H.
    destruct (next (hosts s h) ph picks) as [[oa ph'] picks'] eqn:N.
    destruct ph'.
    1-7: (destruct oa as [a|];
      [ destruct (step s (AHost h a)) as [s1|] eqn:S; try discriminate;
        destruct (IH _ _ _ _ _ H) as [acts [R F]]; exists (AHost h a :: acts); cbn [run]; rewrite S; split; auto;
        constructor; auto; simpl; eapply next_ok; eauto
      | eapply IH; eauto ]).
    destruct oa; inversion H; subst; exists (@nil action); split; try reflexivity; constructor.
  Qed.

  Lemma recv_all_run : forall fuel s h s', recv_all fuel s h = Ok s' -> exists acts, run s acts = Ok s' /\ Forall action_ok acts.
  Proof.
    induction fuel as [|fuel IH]; intros s h s' H; [discriminate|].
    cbn [recv_all] in H.
    destruct (h_sockq (hosts s h)) as [|f q] eqn:Q.
    - inversion H; subst. exists []. simpl; auto.
    - destruct (step s (AHost h HListen)) as [s1|] eqn:S; try discriminate.
      destruct (is_dup (hosts s h) f).
      + inversion H; subst. exists [AHost h HListen]. cbn [run]. rewrite S. split; auto. constructor; simpl; auto.
      + destruct (IH _ _ _ H) as [acts [R F]]. exists (AHost h HListen :: acts). cbn [run]. rewrite S. split; auto.
        constructor; simpl; auto.
  Qed.

  Definition op_ok (o : op) : Prop := match o with OA a => action_ok a | _ => True end.

  Lemma run_ops_run : forall ops s s', run_ops s ops = Ok s' -> Forall op_ok ops ->
    exists acts, run s acts = Ok s' /\ Forall action_ok acts.
  Proof.
    induction ops as [|o r IH]; intros s s' H F.
    - cbn [run_ops] in H. inversion H; subst. exists (@nil action). split; [reflexivity|constructor].
    - inversion F; subst. cbn [run_ops] in H. destruct o as [a|h picks|h].
      + destruct (step s a) as [s1|] eqn:S; try discriminate.
        destruct (IH _ _ H H3) as [acts [R FA]]. exists (a :: acts). cbn [run]. rewrite S. split; auto.
      + destruct (iter iter_fuel s h P0 picks) as [s1|] eqn:S; try discriminate.
        destruct (iter_run _ _ _ _ _ _ S) as [a1 [R1 F1]]. destruct (IH _ _ H H3) as [a2 [R2 F2]].
        exists (a1 ++ a2). rewrite run_app, R1. split; auto. apply Forall_app; auto.
      + destruct (recv_all iter_fuel s h) as [s1|] eqn:S; try discriminate.
        destruct (recv_all_run _ _ _ _ S) as [a1 [R1 F1]]. destruct (IH _ _ H H3) as [a2 [R2 F2]].
        exists (a1 ++ a2). rewrite run_app, R1. split; auto. apply Forall_app; auto.
  Qed.

  Definition reachable (s : state) : Prop := exists acts, run init acts = Ok s /\ Forall action_ok acts.

  Lemma reachable_inv : forall s, reachable s -> sinv s.
  Proof. intros s [acts [R F]]. eapply run_inv; eauto. apply init_inv. Qed.

  (* ---------------------------------------------------------------- the claims *)
  Theorem stored_bytes_equal : forall s h d v, reachable s ->
    lookup N.eq_dec d (h_store (hosts s h)) = Some v -> v = content d.
  Proof.
    intros s h d v R L. destruct (reachable_inv _ R) as [IH _]. pose proof (i_store _ _ (IH h)) as A.
    rewrite Forall_forall in A. apply lookup_In in L. apply (A _ L).
  Qed.

  Theorem delivered_bytes_equal : forall s h p, reachable s ->
    In (MPay p) (h_inbox (hosts s h)) -> (p_val p, p_deser p) = content (p_ds p).
  Proof.
    intros s h p R L. destruct (reachable_inv _ R) as [IH _]. pose proof (i_inbox _ _ (IH h)) as A.
    rewrite Forall_forall in A. apply (A _ L).
  Qed.

  Theorem inflight_bytes_equal : forall s a si sa p, reachable s ->
    In (a, FData si sa p) (net s) -> (p_val p, p_deser p) = content (p_ds p) /\ si = p_idx p /\ sa = p_from p.
  Proof.
    intros s a si sa p R L. destruct (reachable_inv _ R) as [_ IN]. unfold out_ok in IN.
    rewrite Forall_forall in IN. destruct (IN _ L) as [A B]. inversion B. auto.
  Qed.

  Theorem announce_at_most_once : forall s h, reachable s -> NoDup (pub_ds (h_out (hosts s h))).
  Proof. intros s h R. destruct (reachable_inv _ R) as [IH _]. apply (i_pub_nodup _ _ (IH h)). Qed.

  Theorem announced_is_stored_or_purged : forall s h d, reachable s -> In d (pub_ds (h_out (hosts s h))) ->
    lookup N.eq_dec d (h_store (hosts s h)) = Some (content d) \/ In d (h_invalid (hosts s h)).
  Proof.
    intros s h d R Hin. destruct (reachable_inv _ R) as [IH _].
    destruct (i_pub_held _ _ (IH h) _ Hin) as [A|A]; auto. left.
    destruct (lookup N.eq_dec d (h_store (hosts s h))) as [v|] eqn:L; [|congruence].
    f_equal. eapply stored_bytes_equal; eauto.
  Qed.

  Theorem no_resurrection : forall s h d, reachable s -> In d (h_invalid (hosts s h)) ->
    lookup N.eq_dec d (h_store (hosts s h)) = None.
  Proof. intros s h d R Hin. destruct (reachable_inv _ R) as [IH _]. apply (i_invalid_gone _ _ (IH h) _ Hin). Qed.

  Theorem purge_waits_for_jobs : forall s h d q s', reachable s ->
    h_inbox (hosts s h) = MPurge d :: q -> step s (AHost h HProcess) = Ok s' ->
    (forall j, In j (h_pool (hosts s h)) -> j_done j <> None) /\
    lookup N.eq_dec d (h_store (hosts s' h)) = None /\ In d (h_invalid (hosts s' h)).
  Proof.
    intros s h d q s' R Q H. destruct (reachable_inv _ R) as [IH _].
    simpl in H. destruct (process (hosts s h)) as [h'|] eqn:P; inversion H; subst; clear H.
    split; [eapply purge_waits; eauto|].
    simpl. unfold set_host. destruct (N.eq_dec h h); try congruence.
    unfold process in P. destruct (h_crashed (hosts s h)); try discriminate. rewrite Q in P. simpl in P.
    destruct (any_tracked_pending (set_inbox q (hosts s h))); inversion P; subst; simpl.
    split; [apply lookup_del_same | apply In_add; auto].
  Qed.

  (* a payload that reaches a host after the purge of its dataset is dropped: no store job is created *)
  Theorem late_payload_discarded : forall s h p q s', 
    h_inbox (hosts s h) = MPay p :: q -> In (p_ds p) (h_invalid (hosts s h)) -> step s (AHost h HProcess) = Ok s' ->
    h_pool (hosts s' h) = h_pool (hosts s h) /\ h_store (hosts s' h) = h_store (hosts s h) /\ h_out (hosts s' h) = h_out (hosts s h).
  Proof.
    intros s h p q s' Q Hin H. simpl in H. destruct (process (hosts s h)) as [h'|] eqn:P; inversion H; subst; clear H.
    simpl. unfold set_host. destruct (N.eq_dec h h); try congruence.
    unfold process in P. destruct (h_crashed (hosts s h)); try discriminate. rewrite Q in P. simpl in P.
    apply (mem_true N.eq_dec) in Hin. rewrite Hin in P. inversion P; subst. simpl. auto.
  Qed.

  (* every job that has not run is known to the loop, so wait()/purge never miss one *)
  Theorem pending_jobs_tracked : forall s h k j, reachable s ->
    nth_error (h_pool (hosts s h)) k = Some j -> j_done j = None ->
    lookup key_eq_dec (j_key j) (h_futs (hosts s h)) = Some k.
  Proof. intros s h k j R Hn Hd. destruct (reachable_inv _ R) as [IH _]. eapply (i_tracked _ _ (IH h)); eauto. Qed.
End Sys.

(* ------------------------------------------------------------------ progress, step by step *)
(* an unconfirmed transfer whose grace period has passed is selected by the scan ... *)
Lemma retry_scan_selects : forall t h e c at_,
  h_crashed h = None -> In (e, (c, at_)) (h_await h) -> (0 < at_)%Z -> (at_ < t - resend_grace_ns)%Z ->
  exists h', retry_scan t h = Ok h' /\ In e (h_rq h') /\ h_await h' = h_await h /\ h_futs h' = h_futs h /\
             h_acks h' = h_acks h /\ h_invalid h' = h_invalid h /\ h_pool h' = h_pool h /\ h_crashed h' = None.
Proof.
  intros t h e c at_ Hc Hin H0 H1. unfold retry_scan. rewrite Hc. eexists. split; [reflexivity|]. simpl.
  repeat split; auto. apply in_map_iff. exists (e, (c, at_)). split; auto. apply filter_In. split; auto. simpl.
  apply andb_true_intro. split; [apply Z.ltb_lt|apply Z.ltb_lt]; auto.
Qed.

(* ... and, unless it was confirmed or the dataset purged meanwhile, a new send job for the same command is submitted *)
Lemma retry_one_resubmits : forall h e q c t,
  h_crashed h = None -> h_rq h = e :: q -> lookup N.eq_dec e (h_await h) = Some (c, t) ->
  has_key (JCmd c) (h_futs h) = false -> mem N.eq_dec (c_idx c) (h_acks h) = false ->
  mem N.eq_dec (c_ds c) (h_invalid h) = false ->
  exists h', retry_one h = Ok h' /\ nth_error (h_pool h') (List.length (h_pool h)) = Some (mkJob (JCmd c) None) /\
             h_crashed h' = None /\ h_store h' = h_store h.
Proof.
  intros h e q c t Hc Hq Hl Hk Ha Hi. unfold retry_one. rewrite Hc, Hq. simpl. rewrite Hl, Hk, Ha, Hi.
  eexists. split; [reflexivity|]. simpl. rewrite nth_error_snoc. destruct (Nat.eq_dec _ _); try congruence. auto.
Qed.

(* a confirmed or purged transfer is not sent again *)
Lemma retry_one_stops : forall h e q c t,
  h_crashed h = None -> h_rq h = e :: q -> lookup N.eq_dec e (h_await h) = Some (c, t) ->
  has_key (JCmd c) (h_futs h) = false ->
  (mem N.eq_dec (c_idx c) (h_acks h) = true \/ mem N.eq_dec (c_ds c) (h_invalid h) = true) ->
  exists h', retry_one h = Ok h' /\ h_pool h' = h_pool h /\ lookup N.eq_dec e (h_await h') = None.
Proof.
  intros h e q c t Hc Hq Hl Hk Ha. unfold retry_one. rewrite Hc, Hq. simpl. rewrite Hl, Hk.
  destruct (mem N.eq_dec (c_idx c) (h_acks h)) eqn:A.
  - eexists. split; [reflexivity|]. simpl. split; auto. apply lookup_del_same.
  - destruct Ha as [Ha|Ha]; [discriminate|]. rewrite Ha. eexists. split; [reflexivity|]. simpl. split; auto. apply lookup_del_same.
Qed.

(* the send job reads the source's current copy and puts exactly those bytes, with the source's deser_fun, on the wire *)
Lemma send_job_sends_source_bytes : forall me t k h c b z,
  nth_error (h_pool h) k = Some (mkJob (JCmd c) None) -> c_src c = me -> c_tgt c <> me ->
  lookup N.eq_dec (c_ds c) (h_store h) = Some (b, z) ->
  exists h', run_job me t k h = Ok (h', [(c_daddr c, FData (c_idx c) me (mkPay me (c_idx c) (c_ds c) z b))]) /\
             h_store h' = h_store h /\ h_out h' = h_out h.
Proof.
  intros me t k h c b z Hn Hs Ht Hl. unfold run_job. rewrite Hn. simpl.
  destruct (N.eqb_spec (c_tgt c) me); try congruence. destruct (N.eqb_spec (c_src c) me); try congruence. simpl.
  rewrite Hl. eexists. split; [reflexivity|]. simpl. auto.
Qed.

(* the store job: a new dataset is stored with the payload's bytes and announced with the transfer's idx;
   a dataset that is already there is left alone and nothing is announced *)
Lemma store_job_stores : forall me t k h p,
  nth_error (h_pool h) k = Some (mkJob (JPay p) None) -> lookup N.eq_dec (p_ds p) (h_store h) = None ->
  exists h', run_job me t k h = Ok (h', []) /\
             lookup N.eq_dec (p_ds p) (h_store h') = Some (p_val p, p_deser p) /\
             h_out h' = h_out h ++ [EPublished (p_ds p) (p_idx p)].
Proof.
  intros me t k h p Hn Hl. unfold run_job. rewrite Hn. simpl. rewrite Hl. eexists. split; [reflexivity|]. simpl.
  split; auto. rewrite lookup_app_None by auto. simpl. destruct (N.eq_dec (p_ds p) (p_ds p)); congruence.
Qed.

Lemma store_job_redundant : forall me t k h p x,
  nth_error (h_pool h) k = Some (mkJob (JPay p) None) -> lookup N.eq_dec (p_ds p) (h_store h) = Some x ->
  exists h', run_job me t k h = Ok (h', []) /\ h_store h' = h_store h /\ h_out h' = h_out h.
Proof.
  intros me t k h p x Hn Hl. unfold run_job. rewrite Hn. simpl. rewrite Hl. eexists. split; [reflexivity|]. simpl. auto.
Qed.

(* the Listener confirms every copy of a payload, and hands only the first one to the loop *)
Lemma listener_confirms_every_copy : forall h si sa p q,
  h_sockq h = FData si sa p :: q ->
  exists h', listen h = Ok (h', [(sa, FAck si)]) /\
    h_inbox h' = (if mem syn_eq_dec (si, sa) (h_lacked h) then h_inbox h else h_inbox h ++ [MPay p]) /\
    In (si, sa) (h_lacked h').
Proof.
  intros h si sa p q Hq. unfold listen. rewrite Hq. simpl. destruct (mem syn_eq_dec (si, sa) (h_lacked h)) eqn:M.
  - eexists. split; [reflexivity|]. simpl. split; auto. apply mem_true in M. auto.
  - eexists. split; [reflexivity|]. simpl. split; auto. apply in_app_iff. simpl. auto.
Qed.
