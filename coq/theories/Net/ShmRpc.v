(* Executable model of the conversation between cascade.shm.client and the shm server of a host, as far as
     src/cascade/executor/data_server.py  store_payload (allocate / ConflictError => "already present" / close),
                                          send_payload (get / close), recv_loop (purge)
     src/cascade/shm/client.py            _send_command: one datagram with the request, one datagram with the answer
     src/cascade/shm/server.py            LocalServer.start: ONE thread, requests served in arrival order, one answer each
     src/cascade/shm/dataset.py           Manager.add / close_callback / get / purge (no capacity pressure: no page-out)
   depend on it.  Net/DataServer.v treats `allocate` (and get, purge) as ONE atomic look at the host's store whose
   answer the calling job acts on; this file is what that rests on (ShmRpcProofs.v): a client that sends a request and
   then waits for the answer -- however late it comes -- has its request applied exactly once and is handed the answer
   of that very application.  A client that gives up waiting and asks again does not: an AllocateRequest is then
   applied twice, the second answer is `conflict` about the entry the first one made, and store_payload takes its own
   half-made entry for somebody else's dataset (resending_client_refuted).

   Sockets, keys (= datasets, ds2shmid being injective), deser_fun strings and reader ids are numbers.  The atomic
   steps (`lev`) are the datagram events: a client socket sends a request; the server takes the oldest request and
   answers it; a recv on a socket returns a datagram / gives up (socket timeout); a socket is closed.  A log of such
   events is one interleaving of what the threads of a host (two pool threads, the loop, workers) and its shm server
   do.  Datagrams between the two are neither lost, duplicated nor reordered (loopback UDP), an answer to a socket
   that is closed meanwhile is gone.  The server may take ANY time before it takes the next request: every position of
   the LHandle events in a log is allowed.
   Ghost fields (history of what the server applied, the request/answer pairs the clients completed, the outstanding
   request of a socket, `bad` = some socket left the discipline "send one request, wait for one answer") do not
   influence the run; the theorems are stated with them.
   No proofs in this file. *)
From Coq Require Import List NArith Bool String.
From EKW Require Import Net.DataServer.
Import ListNotations.
Open Scope string_scope.
Open Scope list_scope.

Inductive req : Type :=
| RAlloc (k l z : N)        (* AllocateRequest(key, l, deser_fun) *)
| RClose (k rd : N)         (* CloseCallback(key, rdid); rd = 0: the writer's close (rdid "") *)
| RGet (k : N)              (* GetRequest(key) *)
| RPurge (k : N)            (* PurgeRequest(key) *)
| RStat (k : N)             (* DatasetStatusRequest(key) *)
| RPing.                    (* StatusInquiry *)

Inductive resp : Type :=
| PShm (k : N)              (* AllocateResponse(shmid of k, error "") *)
| PConflict                 (* AllocateResponse("", "conflict") *)
| PGot (k rd l z : N)       (* GetResponse(shmid of k, l, rdid, deser_fun, error "") *)
| PWait                     (* GetResponse(error "wait") *)
| POk                       (* OkResponse("") *)
| PFail                     (* OkResponse(error = repr of the exception the Manager raised) *)
| PStat (ready : bool).     (* DatasetStatusResponse: ready / not_present *)

Definition req_eq_dec : forall a b : req, {a = b} + {a <> b}.
Proof. decide equality; apply N.eq_dec. Defined.
Definition resp_eq_dec : forall a b : resp, {a = b} + {a <> b}.
Proof. decide equality; try apply N.eq_dec. apply Bool.bool_dec. Defined.

(* dataset.Dataset: status created (e_ready = false) / in_memory, size, deser_fun, ongoing_reads, delayed_purge *)
Record entry : Type := mkE { e_ready : bool; e_len : N; e_deser : N; e_readers : list N; e_delayed : bool }.

(* Manager.datasets *)
Definition table : Type := list (N * entry).

(* Manager.purge(key): nothing for a missing key (the KeyError is logged inside), delayed while readers are open;
   otherwise the segment is unlinked and the entry dropped -- `seg` = the segment exists (for an entry whose writer
   has not created it yet the unlink raises, is logged, and the entry stays) *)
Definition purge (k : N) (seg : bool) (t : table) : table :=
  match lookup N.eq_dec k t with
  | None => t
  | Some e =>
      match e_readers e with
      | _ :: _ => upd N.eq_dec k (mkE (e_ready e) (e_len e) (e_deser e) (e_readers e) true) t
      | [] => if seg then del N.eq_dec k t else t
      end
  end.

Definition after_close (k : N) (seg : bool) (e : entry) (t : table) : table :=
  let t' := upd N.eq_dec k e t in
  if e_delayed e && match e_readers e with [] => true | _ => false end then purge k seg t' else t'.

(* LocalServer.start, the body for one request; nrd = number of reader ids handed out so far *)
Definition handle (t : table) (nrd : N) (seg : bool) (r : req) : table * N * resp :=
  match r with
  | RAlloc k l z =>
      match lookup N.eq_dec k t with
      | Some _ => (t, nrd, PConflict)                                   (* whatever the state of that entry *)
      | None => (t ++ [(k, mkE false l z [] false)], nrd, PShm k)
      end
  | RClose k rd =>
      match lookup N.eq_dec k t with
      | None => (t, nrd, PFail)                                         (* KeyError *)
      | Some e =>
          if N.eqb rd 0
          then if e_ready e then (t, nrd, PFail)                        (* invalid transition *)
               else (after_close k seg (mkE true (e_len e) (e_deser e) (e_readers e) (e_delayed e)) t, nrd, POk)
          else if e_ready e
               then (after_close k seg (mkE true (e_len e) (e_deser e) (remove N.eq_dec rd (e_readers e)) (e_delayed e)) t, nrd, POk)
               else (t, nrd, PFail)
      end
  | RGet k =>
      match lookup N.eq_dec k t with
      | None => (t, nrd, PFail)                                         (* KeyError *)
      | Some e =>
          if e_ready e
          then let rd := (nrd + 1)%N in
               (upd N.eq_dec k (mkE true (e_len e) (e_deser e) (e_readers e ++ [rd]) (e_delayed e)) t, rd, PGot k rd (e_len e) (e_deser e))
          else (t, nrd, PWait)                                          (* allocated, not closed yet *)
      end
  | RPurge k => (purge k seg t, nrd, POk)
  | RStat k => (t, nrd, PStat (match lookup N.eq_dec k t with Some e => e_ready e | None => false end))
  | RPing => (t, nrd, POk)
  end.

(* ------------------------------------------------------------------ datagrams *)
Inductive lev : Type :=
| LSend (s : N) (r : req)            (* sock.send(api.ser(request)) on socket s *)
| LHandle (seg : bool) (p : resp)    (* the server takes the oldest request; p = the answer it was seen to give *)
| LRecv (s : N) (p : resp)           (* sock.recv on s returned the datagram p *)
| LTimeout (s : N)                   (* sock.recv on s gave up: nothing had arrived *)
| LClose (s : N).

Record sstate : Type := mkSS {
  ss_tab : table;
  ss_nrd : N;
  ss_queue : list (N * req);             (* requests that have arrived, oldest first: (socket they came from, request) *)
  ss_rx : N -> list resp;                (* datagrams waiting in the receive buffer of a socket *)
  ss_closed : N -> bool;
  (* ghost *)
  ss_hist : list (N * req * resp);       (* every request the server applied, in order, with its answer *)
  ss_calls : list (N * req * resp);      (* per datagram a client received: (socket, the request it had sent, the datagram) *)
  ss_out : N -> option req;              (* the request a socket has sent and not yet got an answer for *)
  ss_bad : bool                          (* some socket did not keep to: send one request, wait for one answer, (close) *)
}.

Definition ss0 : sstate := mkSS [] 0 [] (fun _ => []) (fun _ => false) [] [] (fun _ => None) false.

Definition fset {A} (f : N -> A) (s : N) (v : A) : N -> A := fun x => if N.eqb x s then v else f x.

Definition sstep (st : sstate) (e : lev) : res sstate :=
  match e with
  | LSend s r =>
      if ss_closed st s then Err "send on a closed socket"
      else Ok (mkSS (ss_tab st) (ss_nrd st) (ss_queue st ++ [(s, r)]) (ss_rx st) (ss_closed st) (ss_hist st) (ss_calls st)
                    (fset (ss_out st) s (Some r))
                    (match ss_out st s with Some _ => true | None => ss_bad st end))       (* a second request while one is unanswered *)
  | LHandle seg p =>
      match ss_queue st with
      | [] => Err "no request"
      | (s, r) :: q =>
          let '(t', n', p') := handle (ss_tab st) (ss_nrd st) seg r in
          if resp_eq_dec p p'
          then Ok (mkSS t' n' q (if ss_closed st s then ss_rx st else fset (ss_rx st) s (ss_rx st s ++ [p'])) (ss_closed st)
                        (ss_hist st ++ [(s, r, p')]) (ss_calls st) (ss_out st) (ss_bad st))
          else Err "the server answered otherwise"
      end
  | LRecv s p =>
      if ss_closed st s then Err "recv on a closed socket"
      else match ss_rx st s with
           | [] => Err "nothing to receive"
           | p' :: rest =>
               if resp_eq_dec p p'
               then match ss_out st s with
                    | Some r => Ok (mkSS (ss_tab st) (ss_nrd st) (ss_queue st) (fset (ss_rx st) s rest) (ss_closed st) (ss_hist st)
                                         (ss_calls st ++ [(s, r, p')]) (fset (ss_out st) s None) (ss_bad st))
                    | None => Ok (mkSS (ss_tab st) (ss_nrd st) (ss_queue st) (fset (ss_rx st) s rest) (ss_closed st) (ss_hist st)
                                       (ss_calls st) (ss_out st) true)                      (* a datagram nobody asked for *)
                    end
               else Err "another datagram was received"
           end
  | LTimeout s =>
      match ss_rx st s with
      | [] => Ok (mkSS (ss_tab st) (ss_nrd st) (ss_queue st) (ss_rx st) (ss_closed st) (ss_hist st) (ss_calls st) (ss_out st) true)
      | _ => Err "timeout although a datagram was there"
      end
  | LClose s =>
      Ok (mkSS (ss_tab st) (ss_nrd st) (ss_queue st) (ss_rx st) (fset (ss_closed st) s true) (ss_hist st) (ss_calls st) (ss_out st)
               (match ss_out st s with Some _ => true | None => ss_bad st end))             (* gives up an unanswered request *)
  end.

Fixpoint srun (st : sstate) (log : list lev) : res sstate :=
  match log with
  | [] => Ok st
  | e :: r => match sstep st e with Ok st' => srun st' r | Err x => Err x end
  end.

(* what concerns one socket *)
Definition on_sock (s : N) (c : N * req * resp) : bool := N.eqb (fst (fst c)) s.
Definition q_on (s : N) (e : N * req) : bool := N.eqb (fst e) s.

(* the discipline of cascade.shm.client._send_command, per socket: send one request, wait -- as long as it takes --
   for one datagram, (send the next request, ...), close with nothing outstanding *)
Definition disciplined (log : list lev) : bool :=
  match srun ss0 log with Ok st => negb (ss_bad st) | Err _ => false end.

(* ------------------------------------------------------------------ the client that asks again *)
(* allocate(k) by a client that waits only so long for the answer (socket 1), then asks again (socket 2), while the
   server is slow: it takes the first request after the client gave up on it *)
Definition resend_log (k : N) : list lev :=
  [LSend 1 (RAlloc k 3 0); LTimeout 1; LClose 1; LSend 2 (RAlloc k 3 0);
   LHandle false (PShm k); LHandle false PConflict; LRecv 2 PConflict; LClose 2].
