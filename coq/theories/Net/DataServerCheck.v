(* Executable checker used by harness/c07.py: the model is run on the same trace as the real
   DataServer / Listener objects and the observable state at the end is compared. *)
From Coq Require Import List NArith ZArith String Bool Arith.
From EKW Require Import Net.DataServer.
Import ListNotations.

Definition entry_eq_dec : forall a b : bytes * N, {a = b} + {a <> b}.
Proof. decide equality; [apply N.eq_dec | apply (list_eq_dec N.eq_dec)]. Defined.
Definition event_eq_dec : forall a b : event, {a = b} + {a <> b}.
Proof. decide equality; apply N.eq_dec. Defined.
Definition msg_eq_dec : forall a b : msg, {a = b} + {a <> b}.
Proof. decide equality; try apply N.eq_dec; [apply cmd_eq_dec | apply pay_eq_dec]. Defined.

Definition sb {P Q} (x : {P} + {Q}) : bool := if x then true else false.

(* the shm store is a map: compared as a map *)
Definition store_eqb (a b : list (N * (bytes * N))) : bool :=
  Nat.eqb (List.length a) (List.length b) &&
  forallb (fun kv => match lookup N.eq_dec (fst kv) b with Some v => sb (entry_eq_dec v (snd kv)) | None => false end) a &&
  forallb (fun kv => match lookup N.eq_dec (fst kv) a with Some v => sb (entry_eq_dec v (snd kv)) | None => false end) b.

(* the network is a bag *)
Fixpoint bag_eqb (a b : list (N * frame)) : bool :=
  match a with
  | [] => match b with [] => true | _ => false end
  | x :: r => match remove1 aframe_eq_dec x b with Some b' => bag_eqb r b' | None => false end
  end.

Definition pending_jobs (h : hstate) : list nat :=
  filter (job_pending (h_pool h)) (seq 0 (List.length (h_pool h))).

(* what the harness sees of one endpoint: shm contents, callbacks to maddress in order, whether
   recv_loop raised, which pool jobs have not run yet, and (for the controller endpoint only)
   the messages its Listener returned *)
Record hobs : Type := mkObs {
  o_host : N;
  o_store : list (N * (bytes * N));
  o_out : list event;
  o_crashed : bool;
  o_pending : list nat;
  o_recv : option (list msg)
}.

Definition hobs_ok (s : state) (o : hobs) : bool :=
  let h := hosts s (o_host o) in
  store_eqb (h_store h) (o_store o) &&
  sb (list_eq_dec event_eq_dec (h_out h) (o_out o)) &&
  Bool.eqb (match h_crashed h with Some _ => true | None => false end) (o_crashed o) &&
  sb (list_eq_dec Nat.eq_dec (pending_jobs h) (o_pending o)) &&
  match o_recv o with
  | None => true
  | Some ms => sb (list_eq_dec msg_eq_dec (h_inbox h) ms)
  end.

Definition check_case (c : list op * list hobs * list (N * frame)) : bool :=
  let '(ops, obs, nt) := c in
  match run_ops init ops with
  | Err _ => false
  | Ok s => forallb (hobs_ok s) obs && bag_eqb (net s) nt
  end.

(* for debugging a disagreement from the harness *)
Definition explain (c : list op * list hobs * list (N * frame)) :=
  let '(ops, obs, nt) := c in
  match run_ops init ops with
  | Err e => (Some e, [], [])
  | Ok s => (None, map (fun o => let h := hosts s (o_host o) in (o_host o, h_store h, h_out h, h_crashed h, pending_jobs h, h_inbox h)) obs, net s)
  end.
