(* The statements of C06 about every run of the model (Net/Reliable.v). *)
From Coq Require Import List NArith ZArith String Bool Lia.
From EKW Require Import Net.Frames Net.FramesProofs Net.Reliable Net.ReliableLemmas Net.ReliableProofs.
Import ListNotations.
Open Scope list_scope.

Definition key_dec : forall a b : key, {a = b} + {a <> b}.
Proof. decide equality; apply N.eq_dec. Defined.

(* how often the Syn-prefixed message (idx, sender) was handed to the application of endpoint b *)
Definition deliveries (w : world) (b : addr) (ky : key) : nat := count_occ key_dec (keysof (w_dlog w b)) ky.

Section Main.
Variable c : cfg.
Hypothesis Hmax : (1 <= c_max c)%Z.
Variables (t0 : Z) (ops : list op) (w : world).
Hypothesis Hrun : run c (init t0) ops = Ok w.

Lemma reach_inv : inv c w.
Proof. eapply inv_run; [exact Hmax | apply inv_init | exact Hrun]. Qed.

(* no (idx, sender) is handed over twice by any listener *)
Theorem at_most_once : forall b ky, deliveries w b ky <= 1.
Proof. intros b. apply NoDup_count_occ. apply (i_nodup c w reach_inv). Qed.

(* whatever is handed over is a message that was sent, to this endpoint, with this content *)
Theorem delivered_was_sent : forall b ok p, In (ok, p) (w_dlog w b) ->
  exists i sa h k, ok = Some (i, sa) /\ p = PMsg (MApp k) /\ In (sa, i, h, k) (w_sent w) /\ lookup h (c_hosts c sa) = Some b.
Proof. intros b ok p Hin. exact (i_dlog c w reach_inv b ok p Hin). Qed.

(* sender-side indices identify sends *)
Theorem sent_idx_unique : forall sa i h k h' k', In (sa, i, h, k) (w_sent w) -> In (sa, i, h', k') (w_sent w) -> h = h' /\ k = k'.
Proof. exact (i_uniq c w reach_inv). Qed.

(* exactly once: in every state reached without a raise, a sent message has been handed to its
   destination exactly once with its content, or has not been handed to anybody and is still in
   the sender's inflight table with retry budget left *)
Theorem exactly_once : forall sa i h k b,
  In (sa, i, h, k) (w_sent w) -> lookup h (c_hosts c sa) = Some b ->
  (forall b', b' <> b -> deliveries w b' (i, sa) = 0) /\
  ((deliveries w b (i, sa) = 1 /\ In (Some (i, sa), PMsg (MApp k)) (w_dlog w b)) \/
   (deliveries w b (i, sa) = 0 /\ exists r, In (i, r) (w_infl w sa) /\ (1 <= r_rem r)%Z /\
                                   r_host r = h /\ r_frames r = frames_send i sa (MApp k))).
Proof.
  intros sa i h k b S D. pose proof reach_inv as I.
  assert (Hwhere : forall b' p, In (Some (i, sa), p) (w_dlog w b') -> b' = b /\ p = PMsg (MApp k)).
  { intros b' p Hin. destruct (i_dlog c w I _ _ _ Hin) as [i1 [sa1 [h1 [k1 [E [E2 [S1 D1]]]]]]]. inversion E; subst i1 sa1.
    destruct (i_uniq c w I _ _ _ _ _ _ S S1) as [-> ->]. unfold dest in D1. rewrite D in D1. inversion D1. auto. }
  split.
  - intros b' Hne. unfold deliveries. apply count_occ_not_In. intros Hin. apply keysof_In in Hin. destruct Hin as [p Hin].
    apply Hwhere in Hin. destruct Hin as [E _]. contradiction.
  - destruct (in_dec key_dec (i, sa) (keysof (w_dlog w b))) as [Hin|Hnin].
    + left. split.
      * pose proof (at_most_once b (i, sa)) as Hle. unfold deliveries in *.
        apply (count_occ_In key_dec) in Hin. lia.
      * apply keysof_In in Hin. destruct Hin as [p Hin]. destruct (Hwhere _ _ Hin) as [_ ->]. exact Hin.
    + right. split; [unfold deliveries; apply count_occ_not_In; exact Hnin|].
      destruct (i_nodrop c w I _ _ _ _ _ S D) as [Hd|[r Hr]]; [contradiction|].
      exists r. split; [exact Hr|]. destruct (i_infl c w I _ _ _ Hr) as [k0 [F [S0 R]]].
      destruct (i_uniq c w I _ _ _ _ _ _ S S0) as [-> ->]. auto.
Qed.

(* the sender forgets a message (acknowledged) only after it was handed over *)
Theorem ack_implies_delivered : forall sa i h k b,
  In (sa, i, h, k) (w_sent w) -> lookup h (c_hosts c sa) = Some b ->
  (forall r, ~ In (i, r) (w_infl w sa)) -> deliveries w b (i, sa) = 1.
Proof.
  intros sa i h k b S D Hn. destruct (exactly_once _ _ _ _ _ S D) as [_ [[H _]|[_ [r [Hr _]]]]]; [exact H|].
  exfalso. eapply Hn. exact Hr.
Qed.

(* every packet in transit or queued is one that an endpoint sent: on such a network the framing
   never raises, and the only ways a step fails are: the retry budget of an expired record is
   used up (the give-up error), a send to an unknown host, or a harness operation on a packet
   index that does not exist *)
Theorem only_giveup_raises : forall o e, step c w o = Err e ->
  (e = "retried too many times"%string /\ exists a i r, o = OLoop a /\ c_retry c a = true /\ In (i, r) (w_infl w a) /\
        (r_at r < w_now w - c_grace c a)%Z /\ (r_rem r <= 1)%Z) \/
  (e = "KeyError"%string /\ exists a h k, o = OSend a h k /\ lookup h (c_hosts c a) = None) \/
  e = "bad-op"%string.
Proof.
  intros o e H. pose proof reach_inv as I. destruct o as [a h k|i|i|i|d|a]; cbn [step] in H.
  - unfold send_op in H. destruct (lookup h (c_hosts c a)) eqn:Hl; [discriminate|]. inversion H; subst.
    right. left. split; [reflexivity|]. exists a, h, k. auto.
  - destruct (nth_error (w_net w) i) as [[? ?]|]; [discriminate|]. inversion H. auto.
  - destruct (nth_error (w_net w) i); [discriminate|]. inversion H. auto.
  - destruct (nth_error (w_net w) i); [discriminate|]. inversion H. auto.
  - discriminate.
  - unfold loop_op in H.
    destruct (recv_messages_total (w_inbox w a) (w_acked w a)) as [r Hr].
    { intros fr Hin. eapply genuine_sendable. apply (i_inbox c w I). exact Hin. }
    rewrite Hr in H. cbn [bind] in H.
    destruct (process_total (c_exec c a) (rm_msgs r) (w_infl w a) (w_dlog w a)) as [pr Hp].
    { intros ok p Hin. destruct (msgs_shape c w a r I Hr _ _ Hin) as [[? [? [? [k [_ [-> _]]]]]]|[i [? [_ [-> _]]]]]; eexists; reflexivity. }
    rewrite Hp in H. cbn [bind] in H.
    destruct (maybe_retry c a (w_now w) (fst pr)) as [q|e0] eqn:Hq; cbn [bind] in H; [discriminate|]. inversion H; subst e0.
    unfold maybe_retry in Hq. destruct (c_retry c a) eqn:Hc; [|discriminate].
    destruct (retry_go_err _ _ _ _ _ Hq) as [-> [i [r0 [Hin [Hexp Hrem]]]]].
    left. split; [reflexivity|]. exists a, i, r0. split; [reflexivity|]. split; [exact Hc|].
    destruct (process_spec _ _ _ _ _ Hp) as [_ [P2 _]]. apply P2 in Hin. destruct Hin as [Hin _]. auto.
Qed.

(* retry progress: a record whose grace period has expired when a loop iteration of its endpoint
   starts is, after the iteration, either gone (acknowledged in this iteration), or was sent again
   with its clock reset and one retry less; otherwise the iteration raised (previous theorem) *)
Theorem retry_progress : forall a i r w',
  c_retry c a = true -> In (i, r) (w_infl w a) -> (r_at r < w_now w - c_grace c a)%Z ->
  loop_op c w a = Ok w' ->
  forall r', In (i, r') (w_infl w' a) ->
    r' = mkRec (r_host r) (r_frames r) (w_now w) (r_rem r - 1) /\
    exists dst news, lookup (r_host r) (c_hosts c a) = Some dst /\ In (dst, r_frames r) news /\
                     w_wire w' = w_wire w ++ news /\ w_net w' = w_net w ++ news.
Proof.
  intros a i r w' Hc Hin Hexp H r' Hin'. pose proof reach_inv as I. unfold loop_op in H.
  destruct (recv_messages (w_acked w a) (w_inbox w a)) as [rr|e] eqn:Hr; cbn [bind] in H; [|discriminate].
  destruct (process (c_exec c a) (rm_msgs rr) (w_infl w a) (w_dlog w a)) as [pr|e] eqn:Hp; cbn [bind] in H; [|discriminate].
  destruct (maybe_retry c a (w_now w) (fst pr)) as [q|e] eqn:Hq; cbn [bind] in H; [|discriminate].
  inversion H; subst w'; clear H. cbn [w_infl w_wire w_net] in *. rewrite upd_same in Hin'.
  unfold maybe_retry in Hq. rewrite Hc in Hq.
  destruct (retry_go_spec _ _ _ _ _ Hq) as [K1 [K2 K3]].
  destruct (process_spec _ _ _ _ _ Hp) as [_ [P2 _]].
  destruct (K2 _ _ Hin') as [r0 [Hr0 Hcase]]. apply P2 in Hr0. destruct Hr0 as [Hr0 _].
  assert (r0 = r) by (eapply nodup_keys_functional; [apply (i_keys c w I a) | exact Hr0 | exact Hin]). subst r0.
  destruct (i_infl c w I _ _ _ Hin) as [k [F [S R]]]. destruct (i_dest c w I _ _ _ _ S) as [b D]. unfold dest in D.
  destruct Hcase as [[_ Hn]|[_ [-> [_ [dst [Hl Hout]]]]]].
  - exfalso. apply Hn. split; [exact Hexp | congruence].
  - split; [reflexivity|]. exists dst, (rm_acks rr ++ snd q). split; [exact Hl|]. split; [apply in_or_app; right; exact Hout|]. auto.
Qed.

(* give-up: a record on its last unit of budget whose grace period has expired does not survive
   the next loop iteration of its endpoint: the iteration raises, unless the Ack arrived in it *)
Theorem giveup_bound : forall a i r w',
  c_retry c a = true -> In (i, r) (w_infl w a) -> (r_at r < w_now w - c_grace c a)%Z -> (r_rem r <= 1)%Z ->
  loop_op c w a = Ok w' -> forall r', ~ In (i, r') (w_infl w' a).
Proof.
  intros a i r w' Hc Hin Hexp Hrem H r' Hin'.
  destruct (retry_progress a i r w' Hc Hin Hexp H r' Hin') as [-> _].
  assert (I' : inv c w') by (eapply inv_loop; [apply reach_inv | exact H]).
  destruct (i_infl c w' I' _ _ _ Hin') as [k [_ [_ R]]]. cbn [r_rem] in R. lia.
Qed.

(* the budget of a fresh message is max_retries_per_message *)
Theorem send_budget : forall a h k w', send_op c w a h k = Ok w' ->
  In (w_idx w a, mkRec h (frames_send (w_idx w a) a (MApp k)) (w_now w) (c_max c)) (w_infl w' a) /\
  In (a, w_idx w a, h, k) (w_sent w') /\ w_idx w' a = (w_idx w a + 1)%N.
Proof.
  intros a h k w' H. unfold send_op in H. destruct (lookup h (c_hosts c a)); [|discriminate]. inversion H; subst; clear H.
  cbn [w_infl w_sent w_idx]. rewrite !upd_same. split; [apply dict_set_has|]. split; [apply in_or_app; right; left; reflexivity | reflexivity].
Qed.

End Main.
