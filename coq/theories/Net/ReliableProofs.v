(* The invariant of the acknowledged-send system (Net/Reliable.v) under an arbitrary
   operation list: sends in any direction, packets dropped / duplicated / delayed / reordered,
   clock ticks and receive-loop iterations of any endpoint in any interleaving. *)
From Coq Require Import List NArith ZArith String Bool Lia.
From EKW Require Import Net.Frames Net.FramesProofs Net.Reliable Net.ReliableLemmas.
Import ListNotations.
Open Scope list_scope.

Section Inv.
Variable c : cfg.
Hypothesis Hmax : (1 <= c_max c)%Z.

Definition dest (sa : addr) (h : host) : option addr := lookup h (c_hosts c sa).

(* a data packet for b: produced by a recorded send whose host resolves to b *)
Definition gen_data (w : world) (b : addr) (fr : list frame) : Prop :=
  exists sa i h k, fr = frames_send i sa (MApp k) /\ In (sa, i, h, k) (w_sent w) /\ dest sa h = Some b.
(* an Ack for sender sa: some listener has recorded Syn(i, sa) *)
Definition gen_ack (w : world) (sa : addr) (fr : list frame) : Prop :=
  exists i b, fr = frames_callback (MAck i) /\ In (i, sa) (w_acked w b).
Definition genuine (w : world) (b : addr) (fr : list frame) : Prop := gen_data w b fr \/ gen_ack w b fr.

Record inv (w : world) : Prop := mkInv {
  i_fresh : forall sa i h k, In (sa, i, h, k) (w_sent w) -> (i < w_idx w sa)%N;
  i_uniq : forall sa i h k h' k', In (sa, i, h, k) (w_sent w) -> In (sa, i, h', k') (w_sent w) -> h = h' /\ k = k';
  i_dest : forall sa i h k, In (sa, i, h, k) (w_sent w) -> exists b, dest sa h = Some b;
  i_keys : forall sa, NoDup (map fst (w_infl w sa));
  i_infl : forall sa i r, In (i, r) (w_infl w sa) ->
      exists k, r_frames r = frames_send i sa (MApp k) /\ In (sa, i, r_host r, k) (w_sent w) /\ (1 <= r_rem r)%Z;
  i_net : forall b fr, In (b, fr) (w_net w) -> genuine w b fr;
  i_inbox : forall b fr, In fr (w_inbox w b) -> genuine w b fr;
  i_acked : forall b ky, In ky (w_acked w b) <-> In ky (keysof (w_dlog w b));
  i_nodup : forall b, NoDup (keysof (w_dlog w b));
  i_dlog : forall b ok p, In (ok, p) (w_dlog w b) ->
      exists i sa h k, ok = Some (i, sa) /\ p = PMsg (MApp k) /\ In (sa, i, h, k) (w_sent w) /\ dest sa h = Some b;
  i_nodrop : forall sa i h k b, In (sa, i, h, k) (w_sent w) -> dest sa h = Some b ->
      In (i, sa) (keysof (w_dlog w b)) \/ exists r, In (i, r) (w_infl w sa)
}.

Lemma inv_init : forall t0, inv (init t0).
Proof.
  intros t0. constructor; cbn; try (intros; contradiction); try (intros; tauto); intros; constructor.
Qed.

(* genuineness only depends on the sent log and the acked sets, and both only grow *)
Lemma genuine_mono : forall w w' b fr,
  (forall x, In x (w_sent w) -> In x (w_sent w')) ->
  (forall b0 ky, In ky (w_acked w b0) -> In ky (w_acked w' b0)) ->
  genuine w b fr -> genuine w' b fr.
Proof.
  intros w w' b fr Hs Ha [[sa [i [h [k [E [S D]]]]]]|[i [b0 [E A]]]].
  - left. exists sa, i, h, k. auto.
  - right. exists i, b0. auto.
Qed.

Lemma genuine_sendable : forall w b fr, genuine w b fr -> sendable fr.
Proof.
  intros w b fr [[sa [i [h [k [E _]]]]]|[i [b0 [E _]]]]; [left; exists i, sa, k; exact E | right; exists i; exact E].
Qed.

(* ------------------------------------------------------------------ send *)
Lemma inv_send : forall w a h k w', inv w -> send_op c w a h k = Ok w' -> inv w'.
Proof.
  intros w a h k w' I H. unfold send_op in H.
  destruct (lookup h (c_hosts c a)) as [dst|] eqn:Hl; [|discriminate]. inversion H; subst; clear H.
  assert (Hnew : forall r, ~ In (w_idx w a, r) (w_infl w a)).
  { intros r Hin. destruct (i_infl w I _ _ _ Hin) as [k0 [_ [S _]]]. apply (i_fresh w I) in S. lia. }
  assert (Hmono : forall b fr, genuine w b fr ->
     genuine (mkW (w_now w) (w_net w ++ [(dst, frames_send (w_idx w a) a (MApp k))]) (w_inbox w) (w_acked w)
               (upd (w_idx w) a (w_idx w a + 1)%N)
               (upd (w_infl w) a (dict_set (w_idx w a) (mkRec h (frames_send (w_idx w a) a (MApp k)) (w_now w) (c_max c)) (w_infl w a)))
               (w_dlog w) (w_sent w ++ [(a, w_idx w a, h, k)]) (w_wire w ++ [(dst, frames_send (w_idx w a) a (MApp k))])) b fr).
  { intros b fr. apply genuine_mono; cbn [w_sent w_acked]; [intros x Hx; apply in_or_app; left; exact Hx | auto]. }
  constructor; cbn [w_sent w_idx w_infl w_net w_inbox w_acked w_dlog].
  - intros sa i h0 k0 Hin. apply in_app_or in Hin. destruct Hin as [Hin|[Hin|[]]].
    + apply (i_fresh w I) in Hin. unfold upd. destruct (N.eqb_spec sa a); [subst; lia | exact Hin].
    + inversion Hin; subst. rewrite upd_same. lia.
  - intros sa i h0 k0 h' k' H1 H2. apply in_app_or in H1. apply in_app_or in H2.
    destruct H1 as [H1|[H1|[]]]; destruct H2 as [H2|[H2|[]]].
    + eapply (i_uniq w I); eassumption.
    + inversion H2; subst. apply (i_fresh w I) in H1. lia.
    + inversion H1; subst. apply (i_fresh w I) in H2. lia.
    + inversion H1; inversion H2; subst. auto.
  - intros sa i h0 k0 Hin. apply in_app_or in Hin. destruct Hin as [Hin|[Hin|[]]].
    + eapply (i_dest w I); eassumption.
    + inversion Hin; subst. exists dst. exact Hl.
  - intros sa. unfold upd. destruct (N.eqb_spec sa a) as [->|Hne]; [|apply (i_keys w I)].
    rewrite dict_set_keys_fresh.
    + apply NoDup_snoc; [apply (i_keys w I)|].
      intros Hin. apply in_map_iff in Hin. destruct Hin as [[i0 r0] [E Hin]]. cbn [fst] in E. subst. eapply Hnew; eassumption.
    + intros Hin. apply in_map_iff in Hin. destruct Hin as [[i0 r0] [E Hin]]. cbn [fst] in E. subst. eapply Hnew; eassumption.
  - intros sa i r Hin. unfold upd in Hin. destruct (N.eqb_spec sa a) as [->|Hne].
    + apply dict_set_In in Hin. destruct Hin as [[-> ->]|Hin].
      * exists k. cbn [r_frames r_host r_rem]. split; [reflexivity|]. split; [apply in_or_app; right; left; reflexivity | exact Hmax].
      * destruct (i_infl w I _ _ _ Hin) as [k0 [F [S R]]]. exists k0. split; [exact F|]. split; [apply in_or_app; left; exact S | exact R].
    + destruct (i_infl w I _ _ _ Hin) as [k0 [F [S R]]]. exists k0. split; [exact F|]. split; [apply in_or_app; left; exact S | exact R].
  - intros b fr Hin. apply in_app_or in Hin. destruct Hin as [Hin|[Hin|[]]].
    + apply Hmono. apply (i_net w I). exact Hin.
    + inversion Hin; subst. left. exists a, (w_idx w a), h, k. split; [reflexivity|]. split; [apply in_or_app; right; left; reflexivity | exact Hl].
  - intros b fr Hin. apply Hmono. apply (i_inbox w I). exact Hin.
  - apply (i_acked w I).
  - apply (i_nodup w I).
  - intros b ok p Hin. destruct (i_dlog w I _ _ _ Hin) as [i [sa [h0 [k0 [E1 [E2 [S D]]]]]]].
    exists i, sa, h0, k0. repeat split; auto. apply in_or_app. left. exact S.
  - intros sa i h0 k0 b Hin D. apply in_app_or in Hin. destruct Hin as [Hin|[Hin|[]]].
    + destruct (i_nodrop w I _ _ _ _ _ Hin D) as [Hd|[r Hr]]; [left; exact Hd|]. right.
      unfold upd. destruct (N.eqb_spec sa a) as [->|Hne]; [|exists r; exact Hr].
      exists r. apply dict_set_keeps; [exact Hr|]. apply (i_fresh w I) in Hin. lia.
    + inversion Hin; subst. right. rewrite upd_same. eexists. apply dict_set_has.
Qed.

(* ------------------------------------------------------------------ network operations *)
(* an operation that only rearranges packets between the pool and the receive queues *)
Lemma inv_shuffle : forall w net' inbox',
  inv w ->
  (forall b fr, In (b, fr) net' -> In (b, fr) (w_net w)) ->
  (forall b fr, In fr (inbox' b) -> In fr (w_inbox w b) \/ In (b, fr) (w_net w)) ->
  inv (mkW (w_now w) net' inbox' (w_acked w) (w_idx w) (w_infl w) (w_dlog w) (w_sent w) (w_wire w)).
Proof.
  intros w net' inbox' I Hn Hi.
  assert (Hg : forall b fr, genuine w b fr ->
             genuine (mkW (w_now w) net' inbox' (w_acked w) (w_idx w) (w_infl w) (w_dlog w) (w_sent w) (w_wire w)) b fr).
  { intros b fr. apply genuine_mono; cbn [w_sent w_acked]; auto. }
  constructor; cbn [w_sent w_idx w_infl w_net w_inbox w_acked w_dlog];
    try (apply I).
  - intros b fr Hin. apply Hg. apply (i_net w I). apply Hn. exact Hin.
  - intros b fr Hin. apply Hg. destruct (Hi _ _ Hin) as [H|H]; [apply (i_inbox w I); exact H | apply (i_net w I); exact H].
Qed.

Lemma inv_tick : forall w d, inv w ->
  inv (mkW (w_now w + d) (w_net w) (w_inbox w) (w_acked w) (w_idx w) (w_infl w) (w_dlog w) (w_sent w) (w_wire w)).
Proof.
  intros w d I.
  assert (Hg : forall b fr, genuine w b fr ->
             genuine (mkW (w_now w + d) (w_net w) (w_inbox w) (w_acked w) (w_idx w) (w_infl w) (w_dlog w) (w_sent w) (w_wire w)) b fr).
  { intros b fr. apply genuine_mono; cbn [w_sent w_acked]; auto. }
  constructor; cbn [w_sent w_idx w_infl w_net w_inbox w_acked w_dlog]; apply I.
Qed.

(* ------------------------------------------------------------------ one receive-loop iteration *)
(* what the messages taken from a genuine inbox look like *)
Lemma msgs_shape : forall w a r, inv w -> recv_messages (w_acked w a) (w_inbox w a) = Ok r ->
  forall ok p, In (ok, p) (rm_msgs r) ->
    (exists i sa h k, ok = Some (i, sa) /\ p = PMsg (MApp k) /\ In (sa, i, h, k) (w_sent w) /\ dest sa h = Some a) \/
    (exists i b, ok = None /\ p = PMsg (MAck i) /\ In (i, a) (w_acked w b)).
Proof.
  intros w a r I H ok p Hin.
  destruct (recv_messages_spec _ _ _ H) as [_ [_ [_ [_ [R5 _]]]]].
  destruct (R5 _ _ Hin) as [fr [Hfr Hp]].
  destruct (i_inbox w I _ _ Hfr) as [[sa [i [h [k [E [S D]]]]]]|[i [b [E A]]]]; subst fr.
  - rewrite roundtrip_send in Hp. inversion Hp; subst. left. exists i, sa, h, k. auto.
  - rewrite roundtrip_callback in Hp. inversion Hp; subst. right. exists i, b. auto.
Qed.

Lemma keysof_filter_app : forall msgs,
  (forall e, In e msgs -> is_app e = false -> fst e = None) -> keysof (filter is_app msgs) = keysof msgs.
Proof.
  induction msgs as [|[ok p] rest IH]; intros H; [reflexivity|].
  assert (Hr : forall e, In e rest -> is_app e = false -> fst e = None) by (intros; apply H; [right|]; assumption).
  cbn [filter]. destruct (is_app (ok, p)) eqn:Ha.
  - destruct ok as [ky|]; [rewrite !keysof_cons_some | rewrite !keysof_cons_none]; rewrite (IH Hr); reflexivity.
  - specialize (H (ok, p) (or_introl eq_refl) Ha). cbn [fst] in H. subst ok. rewrite keysof_cons_none. apply IH. exact Hr.
Qed.

Lemma inv_loop : forall w a w', inv w -> loop_op c w a = Ok w' -> inv w'.
Proof.
  intros w a w' I H. unfold loop_op in H.
  destruct (recv_messages (w_acked w a) (w_inbox w a)) as [r|e] eqn:Hr; cbn [bind] in H; [|discriminate].
  destruct (process (c_exec c a) (rm_msgs r) (w_infl w a) (w_dlog w a)) as [pr|e] eqn:Hp; cbn [bind] in H; [|discriminate].
  destruct (maybe_retry c a (w_now w) (fst pr)) as [q|e] eqn:Hq; cbn [bind] in H; [|discriminate].
  inversion H; subst w'; clear H.
  pose proof (msgs_shape w a r I Hr) as Shape.
  destruct (recv_messages_spec _ _ _ Hr) as [R1 [R3 [R4 [R4' [R2 R5]]]]].
  destruct (process_spec _ _ _ _ _ Hp) as [P1 [P2 P3]].
  (* keys of the new log entries *)
  assert (Kf : keysof (filter is_app (rm_msgs r)) = keysof (rm_msgs r)).
  { apply keysof_filter_app. intros [ok p] Hin Ha. cbn [fst].
    destruct (Shape _ _ Hin) as [[i [sa [h [k [E1 [E2 _]]]]]]|[i [b [E1 _]]]]; [subst; discriminate | exact E1]. }
  assert (Kd : keysof (snd pr) = keysof (w_dlog w a) ++ keysof (rm_msgs r)).
  { rewrite P1, keysof_app, Kf. reflexivity. }
  (* the inflight table after maybe_retry *)
  assert (Q : map fst (fst q) = map fst (fst pr) /\
              (forall i r', In (i, r') (fst q) -> exists r0, In (i, r0) (fst pr) /\ r_host r' = r_host r0 /\ r_frames r' = r_frames r0 /\ (r' = r0 \/ (1 <= r_rem r')%Z)) /\
              (forall pkt, In pkt (snd q) -> exists i r0 dst, In (i, r0) (fst pr) /\ dest a (r_host r0) = Some dst /\ pkt = (dst, r_frames r0))).
  { unfold maybe_retry in Hq. destruct (c_retry c a).
    - destruct (retry_go_spec _ _ _ _ _ Hq) as [K1 [K2 K3]]. split; [exact K1|]. split; [|exact K3].
      intros i r' Hin. destruct (K2 _ _ Hin) as [r0 [Hr0 [[-> _]|[_ [-> [Hrem _]]]]]]; exists r0; (split; [exact Hr0|]); cbn; auto.
    - inversion Hq; subst. cbn [fst snd]. split; [reflexivity|]. split; [|intros ? []].
      intros i r' Hin. exists r'. auto. }
  destruct Q as [Q0 [Q1 Q3]].
  set (w' := mkW (w_now w) (w_net w ++ rm_acks r ++ snd q) (upd (w_inbox w) a (rm_inbox r)) (upd (w_acked w) a (rm_acked r))
                 (w_idx w) (upd (w_infl w) a (fst q)) (upd (w_dlog w) a (snd pr)) (w_sent w) (w_wire w ++ rm_acks r ++ snd q)).
  assert (Hacked_mono : forall b0 ky, In ky (w_acked w b0) -> In ky (w_acked w' b0)).
  { intros b0 ky Hin. cbn [w' w_acked]. unfold upd. destruct (N.eqb_spec b0 a) as [->|_]; [apply R3; left; exact Hin | exact Hin]. }
  assert (Hg : forall b fr, genuine w b fr -> genuine w' b fr).
  { intros b fr. apply genuine_mono; [cbn [w' w_sent]; auto | exact Hacked_mono]. }
  assert (Hkeys_mono : forall b ky, In ky (keysof (w_dlog w b)) -> In ky (keysof (w_dlog w' b))).
  { intros b ky Hin. cbn [w' w_dlog]. unfold upd. destruct (N.eqb_spec b a) as [->|_]; [|exact Hin].
    rewrite Kd. apply in_or_app. left. exact Hin. }
  constructor; fold w'; cbn [w' w_sent w_idx w_infl w_net w_inbox w_acked w_dlog].
  - apply (i_fresh w I).
  - apply (i_uniq w I).
  - apply (i_dest w I).
  - intros sa. unfold upd. destruct (N.eqb_spec sa a) as [->|_]; [|apply (i_keys w I)].
    rewrite Q0. apply P3. apply (i_keys w I).
  - intros sa i r' Hin. unfold upd in Hin. destruct (N.eqb_spec sa a) as [->|_]; [|apply (i_infl w I); exact Hin].
    destruct (Q1 _ _ Hin) as [r0 [Hr0 [Eh [Ef Hrem]]]]. apply P2 in Hr0. destruct Hr0 as [Hr0 _].
    destruct (i_infl w I _ _ _ Hr0) as [k [F [S R]]]. exists k. rewrite Eh, Ef. split; [exact F|]. split; [exact S|].
    destruct Hrem as [->|Hrem]; assumption.
  - intros b fr Hin. apply in_app_or in Hin. destruct Hin as [Hin|Hin]; [apply Hg; apply (i_net w I); exact Hin|].
    apply in_app_or in Hin. destruct Hin as [Hin|Hin].
    + destruct (R5 _ Hin) as [i [sa [E Hk]]]. inversion E; subst. right. exists i, a. split; [reflexivity|].
      cbn [w' w_acked]. rewrite upd_same. exact Hk.
    + destruct (Q3 _ Hin) as [i [r0 [dst [Hr0 [D E]]]]]. inversion E; subst. apply P2 in Hr0. destruct Hr0 as [Hr0 _].
      destruct (i_infl w I _ _ _ Hr0) as [k [F [S R]]]. left. exists a, i, (r_host r0), k. auto.
  - intros b fr Hin. apply Hg. apply (i_inbox w I). unfold upd in Hin.
    destruct (N.eqb_spec b a) as [->|_]; [apply R1; exact Hin | exact Hin].
  - intros b ky. unfold upd. destruct (N.eqb_spec b a) as [->|_]; [|apply (i_acked w I)].
    rewrite R3, Kd, in_app_iff, (i_acked w I). tauto.
  - intros b. unfold upd. destruct (N.eqb_spec b a) as [->|_]; [|apply (i_nodup w I)].
    rewrite Kd. apply NoDup_app_disj; [apply (i_nodup w I) | exact R4|].
    intros ky H1 H2. apply (R4' _ H2). apply (i_acked w I). exact H1.
  - intros b ok p Hin. unfold upd in Hin. destruct (N.eqb_spec b a) as [->|_]; [|apply (i_dlog w I); exact Hin].
    rewrite P1 in Hin. apply in_app_or in Hin. destruct Hin as [Hin|Hin]; [apply (i_dlog w I); exact Hin|].
    apply filter_In in Hin. destruct Hin as [Hin Ha].
    destruct (Shape _ _ Hin) as [[i [sa [h [k [E1 [E2 [S D]]]]]]]|[i [b [E1 [E2 _]]]]].
    + exists i, sa, h, k. auto.
    + subst. discriminate.
  - intros sa i h k b S D.
    destruct (i_nodrop w I _ _ _ _ _ S D) as [Hd|[r0 Hr0]]; [left; apply Hkeys_mono; exact Hd|].
    unfold upd. destruct (N.eqb_spec sa a) as [->|_]; [|right; exists r0; exact Hr0].
    destruct (in_dec (fun x y : parsed => ltac:(repeat decide equality) : {x = y} + {x <> y}) (PMsg (MAck i)) (map snd (rm_msgs r))) as [Hack|Hnack].
    + (* the Ack for i was handled in this iteration: the message was delivered before the Ack was sent *)
      left. apply Hkeys_mono. apply in_map_iff in Hack. destruct Hack as [[ok p] [E Hin]]. cbn [snd] in E. subst p.
      destruct (Shape _ _ Hin) as [[i' [sa [h' [k' [_ [E2 _]]]]]]|[i' [b' [_ [E2 A]]]]]; [discriminate|].
      inversion E2; subst i'. apply (i_acked w I) in A. apply keysof_In in A. destruct A as [p A].
      destruct (i_dlog w I _ _ _ A) as [i1 [sa1 [h1 [k1 [E3 [_ [S1 D1]]]]]]]. inversion E3; subst i1 sa1.
      destruct (i_uniq w I _ _ _ _ _ _ S S1) as [-> _]. rewrite D in D1. inversion D1; subst b'.
      apply keysof_In. exists p. exact A.
    + right. assert (Hpr : In (i, r0) (fst pr)) by (apply P2; split; assumption).
      assert (Hk : In i (map fst (fst q))) by (rewrite Q0; apply in_map_iff; exists (i, r0); auto).
      apply in_map_iff in Hk. destruct Hk as [[i' r'] [E Hin']]. cbn [fst] in E. subst. exists r'. exact Hin'.
Qed.

Theorem inv_step : forall w o w', inv w -> step c w o = Ok w' -> inv w'.
Proof.
  intros w o w' I H. destruct o as [a h k|i|i|i|d|a]; cbn [step] in H.
  - eapply inv_send; eassumption.
  - destruct (nth_error (w_net w) i) as [[dst fr]|] eqn:Hn; [|discriminate]. inversion H; subst; clear H.
    apply nth_error_In in Hn. apply inv_shuffle; [exact I | |].
    + intros b fr0 Hin. eapply remove_nth_In. exact Hin.
    + intros b fr0 Hin. unfold upd in Hin. destruct (N.eqb_spec b dst) as [->|_]; [|left; exact Hin].
      apply in_app_or in Hin. destruct Hin as [Hin|[<-|[]]]; [left; exact Hin | right; exact Hn].
  - destruct (nth_error (w_net w) i) as [p|] eqn:Hn; [|discriminate]. inversion H; subst; clear H.
    unfold set_net. apply inv_shuffle; [exact I | |].
    + intros b fr0 Hin. eapply remove_nth_In. exact Hin.
    + intros b fr0 Hin. left. exact Hin.
  - destruct (nth_error (w_net w) i) as [[dst fr]|] eqn:Hn; [|discriminate]. inversion H; subst; clear H.
    apply nth_error_In in Hn. unfold set_net. apply inv_shuffle; [exact I | |].
    + intros b fr0 Hin. apply in_app_or in Hin. destruct Hin as [Hin|[Hin|[]]]; [exact Hin | inversion Hin; subst; exact Hn].
    + intros b fr0 Hin. left. exact Hin.
  - inversion H; subst. apply inv_tick. exact I.
  - eapply inv_loop; eassumption.
Qed.

Theorem inv_run : forall ops w w', inv w -> run c w ops = Ok w' -> inv w'.
Proof.
  induction ops as [|o r IH]; intros w w' I H; cbn [run] in H; [inversion H; subst; exact I|].
  destruct (step c w o) as [w1|e] eqn:Hs; cbn [bind] in H; [|discriminate].
  eapply IH; [eapply inv_step; eassumption | exact H].
Qed.

End Inv.
