(* Proofs about the multipart framing model (Net/Frames.v). *)
From Coq Require Import List NArith String Bool.
From EKW Require Import Net.Frames.
Import ListNotations.
Open Scope string_scope.

(* every legal shape is accepted with exactly its meaning *)
Lemma legal_accepted : forall data r, legal data r -> parse_full data = Ok r.
Proof. intros data r H. destruct H; reflexivity. Qed.

(* whatever is accepted is one of the four legal shapes, with exactly that meaning *)
Lemma accepted_legal : forall data r, parse_full data = Ok r -> legal data r.
Proof.
  intros data r H. unfold parse_full, parse_head in H.
  destruct data as [|f0 tl]; [discriminate|].
  destruct f0 as [i a|h|m|b]; cbn in H; try discriminate.
  - (* Syn first *)
    destruct tl as [|f1 tl2]; [discriminate|].
    destruct f1 as [i' a'|h|m|b]; cbn in H; try discriminate.
    + destruct tl2 as [|v [|? ?]]; cbn in H; try discriminate. inversion H; subst. constructor.
    + destruct tl2 as [|? ?]; cbn in H; try discriminate. inversion H; subst. constructor.
  - destruct tl as [|v [|? ?]]; cbn in H; try discriminate. inversion H; subst. constructor.
  - destruct tl as [|? ?]; cbn in H; try discriminate. inversion H; subst. constructor.
Qed.

Lemma parse_full_legal_iff : forall data r, parse_full data = Ok r <-> legal data r.
Proof. split; [apply accepted_legal | apply legal_accepted]. Qed.

(* a frame sequence outside the legal shapes is rejected with an error *)
Lemma malformed_rejected : forall data, (forall r, ~ legal data r) -> exists e, parse_full data = Err e.
Proof.
  intros data H. destruct (parse_full data) as [r|e] eqn:E.
  - exfalso. apply (H r). apply accepted_legal. exact E.
  - exists e. reflexivity.
Qed.

(* the meaning of a legal sequence is unique: it can not be delivered as a different message *)
Lemma legal_functional : forall data r r', legal data r -> legal data r' -> r = r'.
Proof.
  intros data r r' H H'. apply legal_accepted in H. apply legal_accepted in H'. congruence.
Qed.

Lemma roundtrip_callback : forall m, parse_full (frames_callback m) = Ok (None, PMsg m).
Proof. reflexivity. Qed.
Lemma roundtrip_send : forall i a m, parse_full (frames_send i a m) = Ok (Some (i, a), PMsg m).
Proof. reflexivity. Qed.
Lemma roundtrip_send_data : forall i a h v, parse_full (frames_send_data i a h v) = Ok (Some (i, a), PPayload h v).
Proof. reflexivity. Qed.
Lemma roundtrip_payload : forall h v, parse_full (frames_payload h v) = Ok (None, PPayload h v).
Proof. reflexivity. Qed.

(* the four senders produce pairwise different frame sequences for different contents *)
Lemma send_injective : forall i a m i' a' m', frames_send i a m = frames_send i' a' m' -> i = i' /\ a = a' /\ m = m'.
Proof. intros * H. inversion H. auto. Qed.
