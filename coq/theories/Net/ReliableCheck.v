(* Executable checkers used by harness/c06.py: the model (Net/Reliable.v) is run on the same
   operation list as the real Listener / ReliableSender / Bridge.recv_events / Executor.recv_loop
   and the final observable state is compared. *)
From Coq Require Import List NArith ZArith String Bool.
From EKW Require Import Net.Frames Net.Reliable.
Import ListNotations.
Open Scope string_scope.
Open Scope list_scope.

Fixpoint list_eqb {A} (eqb : A -> A -> bool) (a b : list A) : bool :=
  match a, b with
  | [], [] => true
  | x :: r, y :: s => eqb x y && list_eqb eqb r s
  | _, _ => false
  end.

Definition msg_eqb (a b : msg) : bool :=
  match a, b with
  | MAck i, MAck j => N.eqb i j
  | MApp i, MApp j => N.eqb i j
  | _, _ => false
  end.

Definition frame_eqb (a b : frame) : bool :=
  match a, b with
  | FSyn i x, FSyn j y => N.eqb i j && N.eqb x y
  | FHdr h, FHdr h' => N.eqb h h'
  | FMsg m, FMsg m' => msg_eqb m m'
  | FJunk x, FJunk y => N.eqb x y
  | _, _ => false
  end.

Definition parsed_eqb (a b : parsed) : bool :=
  match a, b with
  | PMsg m, PMsg m' => msg_eqb m m'
  | PPayload h v, PPayload h' v' => N.eqb h h' && frame_eqb v v'
  | _, _ => false
  end.

Definition packet_eqb (a b : packet) : bool := N.eqb (fst a) (fst b) && list_eqb frame_eqb (snd a) (snd b).

Definition irec_eqb (a b : irec) : bool :=
  N.eqb (r_host a) (r_host b) && list_eqb frame_eqb (r_frames a) (r_frames b) && Z.eqb (r_at a) (r_at b) && Z.eqb (r_rem a) (r_rem b).

Definition set_eqb (a b : list key) : bool :=
  forallb (fun k => kmem k b) a && forallb (fun k => kmem k a) b && Nat.eqb (List.length a) (List.length b).

(* ---- scenario description *)
Inductive epdesc : Type := EP (a : addr) (hosts : list (host * addr)) (grace : Z) (retry exec : bool).

Definition ep_addr (e : epdesc) : addr := match e with EP a _ _ _ _ => a end.

Fixpoint find_ep (a : addr) (l : list epdesc) : option epdesc :=
  match l with [] => None | e :: r => if N.eqb a (ep_addr e) then Some e else find_ep a r end.

Definition mk_cfg (eps : list epdesc) (mx : Z) : cfg :=
  mkCfg (fun a => match find_ep a eps with Some (EP _ h _ _ _) => h | None => [] end)
        (fun a => match find_ep a eps with Some (EP _ _ g _ _) => g | None => 0%Z end)
        (fun a => match find_ep a eps with Some (EP _ _ _ r _) => r | None => false end)
        (fun a => match find_ep a eps with Some (EP _ _ _ _ x) => x | None => false end)
        mx.

(* ---- observation of the implementation after the last operation *)
Inductive epobs : Type :=
  EPO (a : addr) (inbox : list (list frame)) (acked : list key) (idx : N) (infl : list (N * irec)) (dlog : list parsed).

Inductive obs : Type :=
  | ObsOk (now : Z) (net wire : list packet) (eps : list epobs)
  | ObsErr (kind : string).

Definition ep_ok (w : world) (e : epobs) : bool :=
  match e with
  | EPO a inbox acked idx infl dlog =>
      list_eqb (list_eqb frame_eqb) (w_inbox w a) inbox
      && set_eqb (w_acked w a) acked
      && N.eqb (w_idx w a) idx
      && list_eqb (fun x y => N.eqb (fst x) (fst y) && irec_eqb (snd x) (snd y)) (w_infl w a) infl
      && list_eqb parsed_eqb (map snd (w_dlog w a)) dlog
  end.

(* (endpoints, max retries, start time, operations, observation) *)
Definition check_trace (c : list epdesc * Z * Z * list op * obs) : bool :=
  let '(eps, mx, t0, ops, o) := c in
  let cf := mk_cfg eps mx in
  match o with
  | ObsOk now net wire eobs =>
      match run cf (init t0) ops with
      | Ok w =>
          Z.eqb (w_now w) now && list_eqb packet_eqb (w_net w) net && list_eqb packet_eqb (w_wire w) wire
          && forallb (ep_ok w) eobs
      | Err _ => false
      end
  | ObsErr kind =>
      (* the implementation raised in the last operation and not before *)
      match run cf (init t0) (removelast ops), run cf (init t0) ops with
      | Ok _, Err k => String.eqb k kind
      | _, _ => false
      end
  end.

(* ---- one call of Listener._recv_one on an arbitrary (possibly malformed) multipart message *)
Inductive rxobs : Type :=
  | RxErr (kind : string)
  | RxRet (ret : option parsed) (acks : list packet) (acked : list key).

Definition check_frames (c : list key * list frame * rxobs) : bool :=
  let '(acked, data, o) := c in
  match recv_one acked data, o with
  | Err k, RxErr k' => String.eqb k k'
  | Ok r, RxRet ret acks acked' =>
      match option_map snd (rx_out r), ret with
      | Some p, Some p' => parsed_eqb p p'
      | None, None => true
      | _, _ => false
      end
      && list_eqb packet_eqb (rx_ack r) acks && set_eqb (rx_acked r) acked'
  | _, _ => false
  end.
