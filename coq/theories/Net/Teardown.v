(* C05 -- executable TIMED model of the worker phase of Executor.terminate.

   Net/Executor.v says "join within the grace period; whoever is still alive (Stuck) is killed".
   That sentence hides the arithmetic the code does with clock readings and what Process.join
   does with the number it is given.  This file models both, so that a teardown which hands join
   a bad timeout (none at all, one poll(2) refuses, one derived from readings of two different
   clocks) is expressible: the worker is then not killed, or the teardown never ends.

   Transcribed from
     cascade/executor/executor.py   Executor.terminate, second loop:
         deadline = time.monotonic() + worker_shutdown_grace_s
         for worker, proc in self.workers.items():
             try:
                 if proc is not None:
                     proc.join(max(0.0, deadline - time.monotonic()))
                     if proc.is_alive(): proc.kill(); proc.join()
             except Exception: (logged, next worker)
     multiprocessing (CPython 3.12)  Process.join(timeout) -> Popen.wait -> connection.wait ->
         PollSelector.select: None waits for ever, t <= 0 polls, otherwise poll(ceil(t*1e3)) which
         raises OverflowError when the milliseconds do not fit a C int.

   Time unit: 1 ms.  `now` counts from the start of the teardown; a clock reading is its epoch
   plus `now` (the monotonic and the wall clock have unrelated epochs).  No proofs in this file. *)
From Coq Require Import List ZArith Bool Arith.
From EKW Require Import Net.Executor.
Import ListNotations.
Local Open Scope Z_scope.

Definition grace : Z := 5000.             (* worker_shutdown_grace_s = 5.0 *)
Definition max_timeout : Z := 2147483647. (* INT_MAX milliseconds *)

(* a worker as the teardown meets it *)
Inductive tstat :=
  | TNotStarted
  | TExited (code : Z)
  | TLeaves (d : Z)      (* alive; exits d ms after it was asked to (idle: 0; inside a task: when the task ends) *)
  | TNever.              (* alive; never reads another message (never-ending task, blocked on a dead shm server) *)

(* what Net/Executor.v sees of it: a worker that needs longer than the grace period is its `Stuck` *)
Definition abs_stat (c : tstat) : cstat :=
  match c with
  | TNotStarted => NotStarted
  | TExited z => Exited z
  | TLeaves d => if d <=? grace then Alive else Stuck
  | TNever => Stuck
  end.

Definition abs_workers (ws : list (nat * tstat)) : list (nat * cstat) :=
  map (fun p => (fst p, abs_stat (snd p))) ws.

Definition t_alive (c : tstat) : bool := match c with TLeaves _ | TNever => true | _ => false end.

(* Process.join(timeout) called at `now` on a worker that was asked at time 0 *)
Inductive jres :=
  | JExit (at_ : Z)      (* returned at `at_`, the process has exited *)
  | JTimeout (at_ : Z)   (* returned at `at_`, the process is still alive *)
  | JOverflow            (* raised OverflowError *)
  | JForever.            (* never returns *)

Definition join (c : tstat) (now : Z) (timeout : option Z) : jres :=
  match c with
  | TNotStarted | TExited _ => JExit now           (* exit code already known: returns at once *)
  | TLeaves d =>
      match timeout with
      | None => JExit (Z.max now d)
      | Some t =>
          if max_timeout <? t then JOverflow
          else if d <=? now + Z.max 0 t then JExit (Z.max now d) else JTimeout (now + Z.max 0 t)
      end
  | TNever =>
      match timeout with
      | None => JForever
      | Some t => if max_timeout <? t then JOverflow else JTimeout (now + Z.max 0 t)
      end
  end.

Inductive tact :=
  | TJoin (w : nat) (timeout : option Z)   (* join of a live process *)
  | TJoinDead (w : nat)                    (* join of a process whose exit code is known: returns at once whatever the timeout *)
  | TKill (w : nat).

(* the loop over the workers, for ANY way of choosing the timeout from the current time.
   Result: workers afterwards, calls made, Some end time | None = the teardown never ends. *)
Fixpoint reap_with (policy : Z -> option Z) (now : Z) (ws : list (nat * tstat))
  : list (nat * tstat) * list tact * option Z :=
  match ws with
  | [] => ([], [], Some now)
  | (w, c) :: r =>
    match c with
    | TNotStarted => let '(r', a, x) := reap_with policy now r in ((w, c) :: r', a, x)
    | TExited _ => let '(r', a, x) := reap_with policy now r in ((w, c) :: r', TJoinDead w :: a, x)
    | _ =>
      let t := policy now in
      match join c now t with
      | JForever => ((w, c) :: r, [TJoin w t], None)
      | JOverflow =>      (* the except clause: logged, this worker is left as it is *)
          let '(r', a, x) := reap_with policy now r in ((w, c) :: r', TJoin w t :: a, x)
      | JExit at_ =>
          let c' := match c with TLeaves _ => TExited 0 | _ => c end in
          let '(r', a, x) := reap_with policy at_ r in ((w, c') :: r', TJoin w t :: a, x)
      | JTimeout at_ =>   (* is_alive -> kill, then join() of the killed process *)
          let '(r', a, x) := reap_with policy at_ r in ((w, TExited (-9)) :: r', TJoin w t :: TKill w :: TJoinDead w :: a, x)
      end
    end
  end.

(* the timeout the code computes: the deadline is taken on the monotonic clock (epoch mono0) at
   time now0, and the remaining time is computed against the same clock *)
Definition code_policy (mono0 now0 : Z) (now : Z) : option Z :=
  Some (Z.max 0 ((mono0 + now0 + grace) - (mono0 + now))).

Definition reap_t (mono0 now0 : Z) (ws : list (nat * tstat)) := reap_with (code_policy mono0 now0) now0 ws.

(* a neighbour of the code, for contrast (see TeardownProofs.mixed_clocks_leave_a_child): deadline from
   the wall clock (epoch wall0), remaining time against the monotonic clock *)
Definition mixed_policy (mono0 wall0 now0 : Z) (now : Z) : option Z :=
  Some (Z.max 0 ((wall0 + now0 + grace) - (mono0 + now))).

Definition kills (a : list tact) : list act :=
  flat_map (fun x => match x with TKill w => [KillWorker w] | _ => [] end) a.

Definition no_live_worker (ws : list (nat * tstat)) : bool := forallb (fun p => negb (t_alive (snd p))) ws.

(* ================================================================== the WHOLE teardown, timed
   Round 5.  The worker phase above is the middle of three phases; the other two take time as well,
   and what the last one is given decides whether shared memory is left behind:

     for worker, proc in workers:  callback(worker_address(worker), WorkerShutdown())    -- ask
         comms.callback opens a socket with ZMQ_LINGER = 1000 ms, sends, and closes socket and
         context: the close returns when the message was handed to the peer, or after the linger.
         A live worker's endpoint takes it at once; the endpoint of a worker whose process is gone
         never does: asking a dead worker costs the linger.
     deadline = monotonic() + grace;  join / kill every worker                           -- reap (above)
     if shm server alive:  shm_client.shutdown();  shm_process.join()                    -- shm
         shm/server.py: on ShutdownCommand the server answers Ok FIRST, then leaves its loop and runs
         Manager.atexit, which unlinks the segments it holds one after the other, then the process
         exits.  Between the answer and the exit lies the sweep; a SIGKILL inside it leaves segments.
     if data server alive: kill                                                          -- no time

   Times are absolute, counted from the start of the teardown. *)
Definition linger : Z := 1000.

(* the ask phase from time `now`: a live worker that leaves d ms after it was asked leaves at the
   absolute time (moment it was asked) + d; result: the workers with absolute leave times, end of the phase *)
Fixpoint ask (now : Z) (ws : list (nat * tstat)) : list (nat * tstat) * Z :=
  match ws with
  | [] => ([], now)
  | (w, c) :: r =>
    match c with
    | TExited _ => let '(r', e) := ask (now + linger) r in ((w, c) :: r', e)
    | TLeaves d => let '(r', e) := ask now r in ((w, TLeaves (now + Z.max 0 d)) :: r', e)
    | _ => let '(r', e) := ask now r in ((w, c) :: r', e)      (* not started: no message; never: taken by its endpoint / refused at once *)
    end
  end.

(* what Net/Executor.v sees of a worker when the deadline of the worker phase is `dl` (absolute) *)
Definition abs_stat_at (dl : Z) (c : tstat) : cstat :=
  match c with
  | TNotStarted => NotStarted
  | TExited z => Exited z
  | TLeaves d => if d <=? dl then Alive else Stuck
  | TNever => Stuck
  end.

Definition abs_workers_at (dl : Z) (ws : list (nat * tstat)) : list (nat * cstat) :=
  map (fun p => (fst p, abs_stat_at dl (snd p))) ws.

(* the shm server as the teardown meets it *)
Inductive sstat :=
  | SGone                              (* not alive (or gone by the time of the request): nothing is asked, nothing is joined *)
  | SHolds (segs : nat) (sweep : Z)    (* alive, holds `segs` segments; exits `sweep` ms after it acknowledged the ShutdownCommand, all unlinked *)
  | SWedged (segs : nat).              (* alive, acknowledges, never gets through its sweep *)

Inductive sact :=
  | SJoin (timeout : option Z)         (* join of the live server after shm_client.shutdown() *)
  | SKill.

(* the shm phase for ANY way of choosing the join timeout; a server still alive after a join with a
   timeout is killed.  Result: segments left behind?, calls, Some end time | None = never ends *)
Definition shm_with (policy : Z -> option Z) (now : Z) (s : sstat) : bool * list sact * option Z :=
  match s with
  | SGone => (false, [], Some now)
  | SHolds segs sweep =>
      let sw := Z.max 0 sweep in
      match policy now with
      | None => (false, [SJoin None], Some (now + sw))
      | Some t =>
          if max_timeout <? t then (false, [SJoin (Some t)], Some now)    (* OverflowError, swallowed with the kill: the server finishes on its own *)
          else if sw <=? Z.max 0 t then (false, [SJoin (Some t)], Some (now + sw))
          else (Nat.ltb 0 segs, [SJoin (Some t); SKill], Some (now + Z.max 0 t))
      end
  | SWedged segs =>
      match policy now with
      | None => (false, [SJoin None], None)
      | Some t =>
          if max_timeout <? t then (Nat.ltb 0 segs, [SJoin (Some t)], Some now)
          else (Nat.ltb 0 segs, [SJoin (Some t); SKill], Some (now + Z.max 0 t))
      end
  end.

(* the three phases.  `dl_first`: the deadline of the worker phase is taken before the workers are
   asked (true) or after (false); `shm_pol dl` : the timeout policy of the shm phase, which may look
   at that deadline.  Result: workers afterwards, worker calls, end of the ask phase,
   (segments left?, shm calls, Some end | None) *)
Definition teardown_with (dl_first : bool) (shm_pol : Z -> Z -> option Z) (mono0 : Z)
           (ws : list (nat * tstat)) (s : sstat)
  : list (nat * tstat) * list tact * Z * (bool * list sact * option Z) :=
  let '(ws1, t_ask) := ask 0 ws in
  let now0 := if dl_first then 0 else t_ask in
  let '(ws2, a, x) := reap_with (code_policy mono0 now0) t_ask ws1 in
  (ws2, a, t_ask,
   match x with
   | None => (false, [], None)
   | Some t1 => shm_with (shm_pol (now0 + grace)) t1 s
   end).

(* the code: deadline after the ask phase, the shm server is joined without a timeout *)
Definition teardown_t := teardown_with false (fun _ _ => None).

(* a neighbour, for contrast (TeardownProofs.one_deadline_leaves_segments): ONE deadline for everything,
   taken first; the shm server gets what is left of it and is killed when it is over *)
Definition teardown_one_deadline := teardown_with true (fun dl now => Some (Z.max 0 (dl - now))).

Definition sweep_of (s : sstat) : Z := match s with SHolds _ sw => Z.max 0 sw | _ => 0 end.
Definition abs_shm (s : sstat) : bool := match s with SGone => false | _ => true end.   (* alive, as Net/Executor.v sees it *)
Definition wedged (s : sstat) : bool := match s with SWedged _ => true | _ => false end.
Definition exited_workers (ws : list (nat * tstat)) : Z :=
  fold_right (fun p n => match snd p with TExited _ => n + 1 | _ => n end) 0 ws.
