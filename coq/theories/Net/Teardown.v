(* C05 -- executable TIMED model of the worker phase of Executor.terminate.

   Net/Executor.v says "join within the grace period; whoever is still alive (Stuck) is killed".
   That sentence hides the arithmetic the code does with clock readings and what Process.join
   does with the number it is given.  This file models both, so that a teardown which hands join
   a bad timeout (none at all, one poll(2) refuses, one derived from readings of two different
   clocks) is expressible: the worker is then not killed, or the teardown never ends.

   Transcribed from
     cascade/executor/executor.py   Executor.terminate, second loop:
         deadline = time.monotonic() + worker_shutdown_grace_s
         for worker, proc in self.workers.items():
             try:
                 if proc is not None:
                     proc.join(max(0.0, deadline - time.monotonic()))
                     if proc.is_alive(): proc.kill(); proc.join()
             except Exception: (logged, next worker)
     multiprocessing (CPython 3.12)  Process.join(timeout) -> Popen.wait -> connection.wait ->
         PollSelector.select: None waits for ever, t <= 0 polls, otherwise poll(ceil(t*1e3)) which
         raises OverflowError when the milliseconds do not fit a C int.

   Time unit: 1 ms.  `now` counts from the start of the teardown; a clock reading is its epoch
   plus `now` (the monotonic and the wall clock have unrelated epochs).  No proofs in this file. *)
From Coq Require Import List ZArith Bool Arith.
From EKW Require Import Net.Executor.
Import ListNotations.
Local Open Scope Z_scope.

Definition grace : Z := 5000.             (* worker_shutdown_grace_s = 5.0 *)
Definition max_timeout : Z := 2147483647. (* INT_MAX milliseconds *)

(* a worker as the teardown meets it *)
Inductive tstat :=
  | TNotStarted
  | TExited (code : Z)
  | TLeaves (d : Z)      (* alive; exits d ms after it was asked to (idle: 0; inside a task: when the task ends) *)
  | TNever.              (* alive; never reads another message (never-ending task, blocked on a dead shm server) *)

(* what Net/Executor.v sees of it: a worker that needs longer than the grace period is its `Stuck` *)
Definition abs_stat (c : tstat) : cstat :=
  match c with
  | TNotStarted => NotStarted
  | TExited z => Exited z
  | TLeaves d => if d <=? grace then Alive else Stuck
  | TNever => Stuck
  end.

Definition abs_workers (ws : list (nat * tstat)) : list (nat * cstat) :=
  map (fun p => (fst p, abs_stat (snd p))) ws.

Definition t_alive (c : tstat) : bool := match c with TLeaves _ | TNever => true | _ => false end.

(* Process.join(timeout) called at `now` on a worker that was asked at time 0 *)
Inductive jres :=
  | JExit (at_ : Z)      (* returned at `at_`, the process has exited *)
  | JTimeout (at_ : Z)   (* returned at `at_`, the process is still alive *)
  | JOverflow            (* raised OverflowError *)
  | JForever.            (* never returns *)

Definition join (c : tstat) (now : Z) (timeout : option Z) : jres :=
  match c with
  | TNotStarted | TExited _ => JExit now           (* exit code already known: returns at once *)
  | TLeaves d =>
      match timeout with
      | None => JExit (Z.max now d)
      | Some t =>
          if max_timeout <? t then JOverflow
          else if d <=? now + Z.max 0 t then JExit (Z.max now d) else JTimeout (now + Z.max 0 t)
      end
  | TNever =>
      match timeout with
      | None => JForever
      | Some t => if max_timeout <? t then JOverflow else JTimeout (now + Z.max 0 t)
      end
  end.

Inductive tact :=
  | TJoin (w : nat) (timeout : option Z)   (* join of a live process *)
  | TJoinDead (w : nat)                    (* join of a process whose exit code is known: returns at once whatever the timeout *)
  | TKill (w : nat).

(* the loop over the workers, for ANY way of choosing the timeout from the current time.
   Result: workers afterwards, calls made, Some end time | None = the teardown never ends. *)
Fixpoint reap_with (policy : Z -> option Z) (now : Z) (ws : list (nat * tstat))
  : list (nat * tstat) * list tact * option Z :=
  match ws with
  | [] => ([], [], Some now)
  | (w, c) :: r =>
    match c with
    | TNotStarted => let '(r', a, x) := reap_with policy now r in ((w, c) :: r', a, x)
    | TExited _ => let '(r', a, x) := reap_with policy now r in ((w, c) :: r', TJoinDead w :: a, x)
    | _ =>
      let t := policy now in
      match join c now t with
      | JForever => ((w, c) :: r, [TJoin w t], None)
      | JOverflow =>      (* the except clause: logged, this worker is left as it is *)
          let '(r', a, x) := reap_with policy now r in ((w, c) :: r', TJoin w t :: a, x)
      | JExit at_ =>
          let c' := match c with TLeaves _ => TExited 0 | _ => c end in
          let '(r', a, x) := reap_with policy at_ r in ((w, c') :: r', TJoin w t :: a, x)
      | JTimeout at_ =>   (* is_alive -> kill, then join() of the killed process *)
          let '(r', a, x) := reap_with policy at_ r in ((w, TExited (-9)) :: r', TJoin w t :: TKill w :: TJoinDead w :: a, x)
      end
    end
  end.

(* the timeout the code computes: the deadline is taken on the monotonic clock (epoch mono0) at
   time now0, and the remaining time is computed against the same clock *)
Definition code_policy (mono0 now0 : Z) (now : Z) : option Z :=
  Some (Z.max 0 ((mono0 + now0 + grace) - (mono0 + now))).

Definition reap_t (mono0 now0 : Z) (ws : list (nat * tstat)) := reap_with (code_policy mono0 now0) now0 ws.

(* a neighbour of the code, for contrast (see TeardownProofs.mixed_clocks_leave_a_child): deadline from
   the wall clock (epoch wall0), remaining time against the monotonic clock *)
Definition mixed_policy (mono0 wall0 now0 : Z) (now : Z) : option Z :=
  Some (Z.max 0 ((wall0 + now0 + grace) - (mono0 + now))).

Definition kills (a : list tact) : list act :=
  flat_map (fun x => match x with TKill w => [KillWorker w] | _ => [] end) a.

Definition no_live_worker (ws : list (nat * tstat)) : bool := forallb (fun p => negb (t_alive (snd p))) ws.
