(* C05 -- executable checkers used by harness/c05.py: the model is run on the same inputs as
   the real Executor / execute_sequence / Bridge code and compared with what was observed. *)
From Coq Require Import List ZArith Bool Arith.
From EKW Require Import Net.Executor Net.Teardown.
Import ListNotations.

Definition cmsg_eqb (a b : cmsg) : bool :=
  match a, b with
  | CExit, CExit | CFailure, CFailure | CTransmitFailure, CTransmitFailure | CRegistration, CRegistration => true
  | CTaskFailure w t, CTaskFailure w' t' => Nat.eqb w w' && Nat.eqb t t'
  | CPublished d, CPublished d' => Nat.eqb d d'
  | _, _ => false
  end.

Definition wmsg_eqb (a b : wmsg) : bool :=
  match a, b with
  | WSeq, WSeq | WShutdown, WShutdown => true
  | WPurge d, WPurge d' | WPublished d, WPublished d' => Nat.eqb d d'
  | _, _ => false
  end.

Definition act_eqb (a b : act) : bool :=
  match a, b with
  | ToCtl m, ToCtl m' => cmsg_eqb m m'
  | ToWorker w m, ToWorker w' m' => Nat.eqb w w' && wmsg_eqb m m'
  | ToData d, ToData d' | SenderAck d, SenderAck d' | KillWorker d, KillWorker d' => Nat.eqb d d'
  | ShmShutdown, ShmShutdown | KillDs, KillDs => true
  | _, _ => false
  end.

Fixpoint list_eqb {A} (eqb : A -> A -> bool) (l1 l2 : list A) : bool :=
  match l1, l2 with
  | [], [] => true
  | x :: r, y :: s => eqb x y && list_eqb eqb r s
  | _, _ => false
  end.

(* ---- stream A: Executor.recv_loop / healthcheck / terminate over a history of batches and faults.
   `ns` = workers whose process was never started (workers[w] is None).
   obs = per event the recorded calls, in call order; fin = (terminating, alive flags of the workers,
   shm alive, ds alive, sorted datasets) read from the real object at the end. *)
Fixpoint run_steps (e : exec) (xs : list ev) : exec * list (list act) :=
  match xs with
  | [] => (e, [])
  | x :: r => let '(e1, a1) := apply_ev e x in let '(e2, l) := run_steps e1 r in (e2, a1 :: l)
  end.

Definition init_ns (n : nat) (ns : list nat) : exec :=
  let e := init n in
  set_workers (map (fun p => if mem (fst p) ns then (fst p, NotStarted) else p) (workers e)) e.

Fixpoint insert_sorted (d : nat) (l : list nat) : list nat :=
  match l with [] => [d] | x :: r => if Nat.leb d x then d :: l else x :: insert_sorted d r end.
Definition sort (l : list nat) : list nat := fold_right insert_sorted [] l.

Definition check_exec (c : nat * list nat * list ev * list (list act) * (bool * list bool * bool * bool * list nat)) : bool :=
  let '(n, ns, xs, obs, fin) := c in
  let '(term, walive, salive, dalive, dsets) := fin in
  let '(e, acts) := run_steps (init_ns n ns) xs in
  list_eqb (list_eqb act_eqb) acts obs
  && Bool.eqb (terminating e) term
  && list_eqb Bool.eqb (map (fun p => is_alive (snd p)) (workers e)) walive
  && Bool.eqb (is_alive (shm e)) salive && Bool.eqb (is_alive (ds e)) dalive
  && list_eqb Nat.eqb (sort (datasets e)) dsets
  (* the proved invariants, re-evaluated on this very history *)
  && (if terminating e then no_live_child e else true).

(* ---- stream A, timed part: the teardown observed under a fake clock (harness: FakeTime, timed fake
   processes).  td = None: the history never reached terminate.  Otherwise: the index of the event
   whose loop iteration terminated, the epoch of the monotonic clock, every worker as it stood at that
   moment (exit delay of the busy ones), the join/kill calls with the timeouts the code passed (ms), and
   the time the teardown took (None = it never came back). *)
Definition optZ_eqb (a b : option Z) : bool :=
  match a, b with Some x, Some y => Z.eqb x y | None, None => true | _, _ => false end.

Definition tact_eqb (a b : tact) : bool :=
  match a, b with
  | TJoin w t, TJoin w' t' => Nat.eqb w w' && optZ_eqb t t'
  | TKill w, TKill w' | TJoinDead w, TJoinDead w' => Nat.eqb w w'
  | _, _ => false
  end.

Definition cstat_eqb (a b : cstat) : bool :=
  match a, b with
  | NotStarted, NotStarted | Alive, Alive | Stuck, Stuck => true
  | Exited x, Exited y => Z.eqb x y
  | _, _ => false
  end.

Definition wstat_eqb (a b : nat * cstat) : bool := Nat.eqb (fst a) (fst b) && cstat_eqb (snd a) (snd b).

Definition sact_eqb (a b : sact) : bool :=
  match a, b with
  | SJoin t, SJoin t' => optZ_eqb t t'
  | SKill, SKill => true
  | _, _ => false
  end.

(* round 5: the observation covers the three phases.  tws = the workers as they stood when the teardown
   began (delays relative to the moment each is asked); tacts = join/kill calls on the workers; el = the
   time the WHOLE teardown took; then the shm server as it stood (segments held, length of its sweep),
   the join/kill calls on it, and whether segments were left when everything was over. *)
Definition tdobs := option (nat * Z * list (nat * tstat) * list tact * option Z * (sstat * list sact * bool)).

Definition check_teardown (n : nat) (ns : list nat) (xs : list ev) (td : tdobs) : bool :=
  match td with
  | None => negb (terminating (fst (run_steps (init_ns n ns) xs)))
  | Some (i, mono0, tws, tacts, el, (sst, sacts, left_)) =>
      let e := fst (run_steps (init_ns n ns) (firstn i xs)) in
      match nth_error xs i with
      | None => false
      | Some x =>
          negb (terminating e) && terminating (fst (apply_ev e x))
          && (let '(ws', a, t_ask, (lf, sa, r)) := teardown_t mono0 tws sst in
              (* the timed workers are the ones the untimed model has at that moment: its Stuck = leaves after the deadline *)
              list_eqb wstat_eqb (abs_workers_at (t_ask + grace) (fst (ask 0 tws))) (workers e)
              && implb (abs_shm sst) (is_alive (shm e))
              && list_eqb tact_eqb a tacts && optZ_eqb r el
              && list_eqb sact_eqb sa sacts && Bool.eqb lf left_
              (* the proved bounds, re-evaluated on this very teardown *)
              && no_live_worker ws' && negb lf
              && match r with Some z => (z <=? t_ask + grace + sweep_of sst)%Z | None => false end)
      end
  end.

Definition check_exec_t (c : nat * list nat * list ev * list (list act) * (bool * list bool * bool * bool * list nat) * tdobs) : bool :=
  let '(n, ns, xs, obs, fin, td) := c in
  check_exec (n, ns, xs, obs, fin) && check_teardown n ns xs td.

(* ---- stream B: entrypoint.execute_sequence *)
Definition wact_eqb (a b : wact) : bool :=
  match a, b with
  | WHandled d, WHandled d' | WTaskFailure d, WTaskFailure d' => Nat.eqb d d'
  | WFlush, WFlush => true
  | _, _ => false
  end.

Definition check_seq (c : list (nat * tbeh) * list wact * option Z) : bool :=
  let '(ts, obs, code) := c in
  let '(a, x) := execute_sequence ts in
  list_eqb wact_eqb a obs && optZ_eqb x code.

(* ---- stream C: Bridge.recv_events (+ Bridge.shutdown) *)
Definition bmsg_eqb (a b : bmsg) : bool :=
  match a, b with
  | BPublished d, BPublished d' => Nat.eqb d d'
  | BPayload d v, BPayload d' v' => Nat.eqb d d' && Z.eqb v v'
  | _, _ => false      (* only events are ever returned *)
  end.

(* observation: kind 0 = returned events, 1 = raised, 2 = still polling when the input ran out;
   evs = returned events; sent = hosts that were sent ExecutorShutdown; left = hosts still registered;
   used = number of batches consumed *)
Definition check_bridge (c : list nat * list (list bmsg) * (nat * list bmsg * list nat * list nat * nat)) : bool :=
  let '(hosts, bs, (kind, evs, sent, lft, used)) := c in
  match recv_events hosts bs with
  | REvents evs' hs r =>
      Nat.eqb kind 0 && list_eqb bmsg_eqb evs' evs && list_eqb Nat.eqb hs lft
      && Nat.eqb (List.length bs - List.length r) used
  | RRaise s hs r =>
      Nat.eqb kind 1 && list_eqb Nat.eqb s sent && list_eqb Nat.eqb hs lft
      && Nat.eqb (List.length bs - List.length r) used
  | RWaiting hs => Nat.eqb kind 2 && list_eqb Nat.eqb hs lft
  end.

(* ---- stream D: one real fault scenario against the model's prediction.
   The fault is replayed on the executor model (init, optional segment, the fault, one empty loop
   iteration) and on the controller model; the observation must be one the model allows. *)
Inductive fkind := FNone | FRaise | FWorkerExit | FDs | FShmKill | FShmTerm | FSibling.

(* `busy`: another worker of the host is inside a never-ending task when the fault happens *)
Definition scenario_events (k : fkind) (busy : bool) : list ev :=
  EvSegment 1 :: (if busy then [EvWorkerStuck 1] else []) ++
  match k with
  | FNone => [EvBatch [MPublished 1] false]
  | FRaise => [EvBatch [MTaskFailure 0 0] false; EvBatch [MShutdown] false]   (* the controller's reaction *)
  | FWorkerExit => [EvWorkerDies 0 0; EvBatch [] false]
  | FSibling => [EvWorkerDies 1 (-9); EvBatch [] false]
  | FDs => [EvDsDies (-9); EvBatch [] false]
  | FShmKill => [EvShmDies Kill; EvBatch [] false]
  | FShmTerm => [EvShmDies Term; EvBatch [] false]
  end.

(* obs: raised?, processes left, segments left, must_raise (by construction of the scenario the
   requested outputs cannot all be delivered) *)
Definition check_scenario (c : fkind * bool * (bool * nat * nat * bool)) : bool :=
  let '(k, busy, (raised, procs, shm_left, must)) := c in
  let '(e, acts) := run_evs (init 2) (scenario_events k busy) in
  let reason := existsb is_shutdown_reason (ctl_msgs 0 acts) in
  let ctl := run 3 [7] [] [0] [ctl_msgs 0 acts ++ (if reason then [] else [BPayload 7 1%Z])] in
  let model_raises := match ctl with Failed _ => true | _ => false end in
  (* the model's verdict on raise/return is binding when the scenario forces it *)
  (if must then raised && model_raises else true)
  && (match k with FNone => negb raised && negb model_raises | _ => true end)
  (* teardown: the model leaves no live child once terminated (a busy worker is killed after the grace
     period), so no process may be left *)
  && (if terminating e then no_live_child e else true) && Nat.eqb procs 0
  && (if busy then match k with FNone => true | _ => existsb (fun a => match a with KillWorker 1 => true | _ => false end) acts end else true)
  (* segments: the model keeps some only when the shm server was SIGKILLed *)
  && (match segs (fst (terminate e)) with [] => Nat.eqb shm_left 0 | _ => true end).
