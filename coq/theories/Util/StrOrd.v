(* Byte-wise (code point) order on strings -- the order Python's `sorted` / `list.sort`
   uses on `str` -- an insertion sort by key under that order, and zero-padded decimal
   names (`str(i).zfill(w)`).  Definitions only; the proofs are in Low/RunnerOrdProofs.v. *)
From Coq Require Import List String Ascii Arith Bool.
Import ListNotations.
Open Scope list_scope.

(* a < b, lexicographic on code points; a proper prefix is smaller *)
Fixpoint sltb (a b : string) : bool :=
  match a, b with
  | EmptyString, EmptyString => false
  | EmptyString, String _ _ => true
  | String _ _, EmptyString => false
  | String x a', String y b' =>
      if nat_of_ascii x <? nat_of_ascii y then true
      else if nat_of_ascii y <? nat_of_ascii x then false
      else sltb a' b'
  end.

(* a <= b *)
Definition sleb (a b : string) : bool := negb (sltb b a).

(* list.sort() on (key, x) pairs whose keys are distinct (dict items): order by key.
   Insertion from the right keeps equal keys in their original order (stable), as Python. *)
Fixpoint insert_by_key {A} (kx : string * A) (l : list (string * A)) : list (string * A) :=
  match l with
  | [] => [kx]
  | ky :: r => if sleb (fst kx) (fst ky) then kx :: ky :: r else ky :: insert_by_key kx r
  end.

Definition sort_by_key {A} (l : list (string * A)) : list (string * A) :=
  fold_right insert_by_key [] l.

(* sorted(keys) *)
Definition sort_keys (l : list string) : list string :=
  map fst (sort_by_key (map (fun k => (k, tt)) l)).

(* ------------------------------------------------------------------ decimal names *)
Definition digit_char (d : nat) : ascii := ascii_of_nat (48 + d).

(* the w-digit decimal numeral of i (most significant first); for i < 10^w this is
   str(i).zfill(w) *)
Fixpoint pad_dec (w i : nat) : string :=
  match w with
  | O => EmptyString
  | S w' => String (digit_char ((i / 10 ^ w') mod 10)) (pad_dec w' (i mod 10 ^ w'))
  end.

(* len(str(m)) for m >= 0 *)
Fixpoint width_fuel (fuel m : nat) : nat :=
  match fuel with
  | O => 1
  | S f => if m <? 10 then 1 else S (width_fuel f (m / 10))
  end.
Definition dec_width (m : nat) : nat := width_fuel m m.
