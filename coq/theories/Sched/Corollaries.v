(* Property-level consequences of the invariant (C01, C02, C04). *)
From stdpp Require Import gmap.
From Coq Require Import NArith String.
From EKW Require Import Sched.Model Sched.Lemmas Sched.Inv Sched.InvInit Sched.InvEnv Sched.InvCtl Sched.Safety.
Local Open Scope N_scope.

Section corollaries.
  Context (J : job) (E : env).
  Hypothesis wf_nout : ∀ t, is_task J t → 1 ≤ nout J t.

  (* ---------------------------------------------------------------- C04 *)
  Lemma purged_no_live_consumer s d t :
    Inv J E s → d ∈ purged (ctl s) ∪ pqueue (ctl s) → is_task J t → d ∈ ins J t →
    t ∈ completed (ctl s) ∧ t ∈ finished s.
  Proof.
    intros Hinv Hd Ht Hin. destruct (decide (t ∈ completed (ctl s))) as [Hc|Hc].
    - split; [done|]. by destruct (i_completed _ _ _ Hinv _ Hc).
    - exfalso. destruct (live_not_purged J E wf_nout s t d Hinv Ht Hc Hin). set_solver.
  Qed.

  (* a purge command in flight: every consumer has completed, a requested output has reached the
     caller, nothing commanded still reads the dataset anywhere, no waiting or running task needs it *)
  Theorem purge_sound s h d :
    Inv J E s → (h, d) ∈ purges s →
    (∀ t, is_task J t → d ∈ ins J t → t ∈ completed (ctl s) ∧ t ∈ finished s) ∧
    (d ∈ j_ext J → ∃ v, outputs (ctl s) !! d = Some (Some v)) ∧
    (∀ src tgt, (d, src, tgt) ∉ xfers s) ∧ (∀ src, (d, src) ∉ fetches s) ∧
    (∀ w t, wq s !! w = Some t → d ∉ ins J t) ∧
    (∀ t, t ∈ computable (ctl s) → d ∉ ins J t) ∧
    (∀ t X, tracker (ctl s) !! t = Some X → d ∉ ins J t).
  Proof.
    intros Hinv Hp. pose proof (i_purges _ _ _ Hinv _ _ Hp) as Hd.
    assert (Hd' : d ∈ purged (ctl s) ∪ pqueue (ctl s)) by set_solver.
    split; [intros t Ht Hin; by apply (purged_no_live_consumer s d t)|].
    split.
    { intros He. destruct (i_pq _ _ _ Hinv _ Hd') as (_ & _ & Hv). specialize (Hv He). unfold has_value in Hv.
      destruct (outputs (ctl s) !! d) as [[v|]|]; try done. eauto. }
    split; [intros src tgt Hx; by destruct (i_xfer _ _ _ Hinv _ _ _ Hx) as (? & _)|].
    split.
    { intros src Hf. destruct (i_fetch _ _ _ Hinv _ _ Hf) as (He & Ho & _).
      destruct (i_pq _ _ _ Hinv _ Hd') as (_ & _ & Hv). specialize (Hv He). unfold has_value in Hv. by rewrite Ho in Hv. }
    split.
    { intros w t Hw Hin. destruct (i_wq _ _ _ Hinv _ _ Hw) as (_ & Ho & Ht & _).
      destruct (i_ong _ _ _ Hinv _ _ Ho) as (Hc & _). by destruct (purged_no_live_consumer s d t Hinv Hd' Ht Hin). }
    split.
    { intros t Ht Hin. destruct (i_comp _ _ _ Hinv _ Ht) as (Htask & Hc & _).
      by destruct (purged_no_live_consumer s d t Hinv Hd' Htask Hin). }
    intros t X HX Hin. destruct (i_tr _ _ _ Hinv _ _ HX) as (Htask & Hc & _).
    by destruct (purged_no_live_consumer s d t Hinv Hd' Htask Hin).
  Qed.

  Theorem transfer_source_holds s d src tgt :
    Inv J E s → (d, src, tgt) ∈ xfers s → (src, d) ∈ store s ∧ (src, d) ∉ purges s.
  Proof.
    intros Hinv Hx. destruct (i_xfer _ _ _ Hinv _ _ _ Hx) as (Hp & _ & Hav & _).
    split; [by apply (i_avail_store _ _ _ Hinv)|]. intros Hin. by apply Hp, (i_purges _ _ _ Hinv src).
  Qed.

  Theorem fetch_source_holds s d src :
    Inv J E s → (d, src) ∈ fetches s → (src, d) ∈ store s ∧ (src, d) ∉ purges s.
  Proof.
    intros Hinv Hf. destruct (i_fetch _ _ _ Hinv _ _ Hf) as (He & Ho & _ & Hav & _).
    assert (Hp : d ∉ purged (ctl s)).
    { intros Hp. destruct (i_pq _ _ _ Hinv d ltac:(set_solver)) as (_ & _ & Hv). specialize (Hv He).
      unfold has_value in Hv. by rewrite Ho in Hv. }
    split; [by apply (i_avail_store _ _ _ Hinv)|]. intros Hin. by apply Hp, (i_purges _ _ _ Hinv src).
  Qed.

  (* ---------------------------------------------------------------- C02 *)
  Theorem dispatch_once s : Inv J E s → NoDup (dispatched s).*2.
  Proof. apply i_disp_nodup. Qed.

  (* inputs of a task a worker holds: produced, and on its host or on their way; never being dropped *)
  Theorem held_task_inputs s w t h d :
    Inv J E s → wq s !! w = Some t → e_host E !! w = Some h → d ∈ ins J t →
    d ∈ published s ∧ ((h, d) ∈ store s ∨ ∃ src, (d, src, h) ∈ xfers s) ∧ (h, d) ∉ purges s.
  Proof.
    intros Hinv Hw Hh Hd. destruct (i_wq _ _ _ Hinv _ _ Hw) as (_ & Ho & Ht & _).
    destruct (i_ong _ _ _ Hinv _ _ Ho) as (Hc & _ & Hdisp & _).
    destruct (i_disp _ _ _ Hinv _ _ Hdisp) as (_ & _ & Hseen & _).
    split; [apply (i_seen_pub _ _ _ Hinv); by apply Hseen|].
    split; [by apply (i_inputs _ _ _ Hinv w t)|].
    intros Hp. destruct (live_not_purged J E wf_nout s t d Hinv Ht Hc Hd) as [Hn _].
    by apply Hn, (i_purges _ _ _ Hinv h).
  Qed.

  Theorem dispatch_ok s w t srcs s' cs :
    Inv J E s → exec J E s (LAssign w t srcs) = Next (s', cs) →
    ∃ h, e_host E !! w = Some h ∧ w ∈ idle (ctl s) ∧ wq s !! w = None ∧ ong (ctl s) w = ∅ ∧
         (t ∈ j_gpu J → w ∈ e_gpu E) ∧ t ∉ (dispatched s).*2 ∧ is_task J t ∧
         dispatched s' = dispatched s ++ [(w, t)] ∧
         cs = ((λ p : ds * host, CTransmit p.1 p.2 h) <$> map_to_list srcs) ++ [CTask w t] ∧
         (∀ d src, srcs !! d = Some src → d ∈ ins J t ∧ (src, d) ∈ store s ∧ (src, d) ∉ purges s) ∧
         (∀ d, d ∈ ins J t → d ∈ published s' ∧ ((h, d) ∈ store s' ∨ ∃ src, (d, src, h) ∈ xfers s') ∧ (h, d) ∉ purges s').
  Proof.
    intros Hinv Hex. pose proof (exec_inv J E wf_nout s (LAssign w t srcs) Hinv) as Hinv'. rewrite Hex in Hinv'.
    simpl in Hex. destruct (assign_c J E (ctl s) w t srcs) as [[c h]| |e|e] eqn:Ha; try done.
    case_bool_decide as Hwq; [done|]. injection Hex as <- <-.
    pose proof Ha as Ha'. unfold assign_c in Ha'. destruct (e_host E !! w) as [h'|] eqn:Hh; [|done].
    destruct (negb _) eqn:Hen in Ha'; [done|]. apply negb_false_iff in Hen.
    apply andb_prop in Hen as [Hen Hgpu]. apply andb_prop in Hen as [Htc Hwi].
    apply bool_decide_eq_true in Htc, Hwi.
    case_bool_decide as Hnf; [done|].
    destruct (negb _) eqn:Hval in Ha'; [done|]. apply negb_false_iff in Hval.
    apply andb_prop in Hval as [Hdom Hsrc]. apply bool_decide_eq_true in Hdom, Hsrc.
    assert (h = h') as ->.
    { destruct (ongoing (ctl s) !! w); [case_bool_decide; [done|]|]; by injection Ha' as _ ->. }
    destruct (i_idle _ _ _ Hinv _ Hwi) as (_ & Hong0 & Hwq0).
    destruct (i_comp _ _ _ Hinv _ Htc) as (Htask & Hnc & Hseen & Hnd).
    exists h'. repeat split; auto.
    - intros Hg. apply orb_prop in Hgpu as [Hg'|Hg']; apply bool_decide_eq_true in Hg'; done.
    - assert (d ∈ dom srcs) as Hd by (apply elem_of_dom; eauto). rewrite Hdom in Hd. by apply elem_of_filter in Hd as [_ ?].
    - assert (d ∈ ins J t) as Hd.
      { assert (d ∈ dom srcs) as Hd by (apply elem_of_dom; eauto). rewrite Hdom in Hd. by apply elem_of_filter in Hd as [_ ?]. }
      destruct (live_not_purged J E wf_nout s t d Hinv Htask Hnc Hd) as [Hp _].
      apply (i_avail_store _ _ _ Hinv); [|done]. by apply (Hsrc d src).
    - intros Hp. assert (d ∈ ins J t) as Hd.
      { assert (d ∈ dom srcs) as Hd by (apply elem_of_dom; eauto). rewrite Hdom in Hd. by apply elem_of_filter in Hd as [_ ?]. }
      destruct (live_not_purged J E wf_nout s t d Hinv Htask Hnc Hd) as [Hn _]. by apply Hn, (i_purges _ _ _ Hinv src).
    - eapply (held_task_inputs _ w t h' d Hinv'); simpl; eauto. by rewrite lookup_insert.
    - eapply (held_task_inputs _ w t h' d Hinv'); simpl; eauto. by rewrite lookup_insert.
    - eapply (held_task_inputs _ w t h' d Hinv'); simpl; eauto. by rewrite lookup_insert.
  Qed.

  (* the worker starts (and finishes) its task only with every input in its host's store *)
  Theorem start_needs_inputs s w i s' cs :
    exec J E s (LPublish w i) = Next (s', cs) →
    ∃ t h, wq s !! w = Some t ∧ e_host E !! w = Some h ∧ ∀ d, d ∈ ins J t → (h, d) ∈ store s.
  Proof.
    simpl. destruct (wq s !! w) as [t|]; [|done]. destruct (e_host E !! w) as [h|]; [|done].
    case_bool_decide as Hins; [|done]. intros _. exists t, h. repeat split; auto.
  Qed.

  (* ---------------------------------------------------------------- C01 (value part) *)
  Theorem outputs_correct s d v :
    Inv J E s → outputs (ctl s) !! d = Some v → d ∈ j_ext J ∧ v = payload_of J d.
  Proof. intros Hinv Ho. destruct (i_out _ _ _ Hinv _ _ Ho) as (? & _ & _ & _ & ?). done. Qed.
End corollaries.
