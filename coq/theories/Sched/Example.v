(* A concrete two-host run used for the non-vacuity examples of C01-C04. *)
From stdpp Require Import gmap.
From Coq Require Import NArith String.
From EKW Require Import Sched.Model Sched.Inv.
Local Open Scope N_scope.

Definition wf_job (J : job) : Prop := ∀ t, is_task J t → 1 ≤ nout J t.
Definition wf_job_dec (J : job) : bool := bool_decide (map_Forall (λ _ n, 1 ≤ n) (j_nout J)).
Lemma wf_job_dec_sound J : wf_job_dec J = true → wf_job J.
Proof.
  intros H t _. apply bool_decide_eq_true in H. unfold nout.
  destruct (j_nout J !! t) as [n|] eqn:Hn; simpl; [by apply (H t n)|lia].
Qed.

(* t0 --(0,0)--> t1 (gpu) --(1,1)--> t2 ;  t0 --(0,0)--> t2 ; requested: (0,0) and (2,0) *)
Definition exJ : job := {|
  j_ins := list_to_map [(0, ∅); (1, {[(0, 0)]}); (2, {[(0, 0); (1, 1)]})];
  j_nout := list_to_map [(0, 1); (1, 2); (2, 1)];
  j_gpu := {[1]};
  j_ext := {[(0, 0); (2, 0)]};
  j_none := ∅ |}.
(* workers 0,1 on host 0 (cpu), worker 2 on host 1 (gpu) *)
Definition exE : env := {| e_host := list_to_map [(0, 0); (1, 0); (2, 1)]; e_gpu := {[2]} |}.

Definition ex_labels : list label := [
  LAssign 0 0 ∅; LFlush; LPublish 0 0; LDeliver (EPub 0 (0, 0)); LFlush; LFetch ((0, 0), 0);
  LAssign 2 1 {[(0, 0) := 0]}; LFlush; LXfer ((0, 0), 0, 1); LDeliver (EPay (0, 0) (Some (0, 0)));
  LPublish 2 0; LPublish 2 1; LDeliver (EXfer 1 (0, 0)); LDeliver (EPub 2 (1, 0)); LDeliver (EPub 2 (1, 1));
  LAssign 1 2 {[(1, 1) := 1]}; LFlush; LXfer ((1, 1), 1, 0); LPublish 1 0; LDeliver (EPub 1 (2, 0)); LFlush ].
