(* Executable model of cascade/scheduler/graph.py (decompose, enrich, the python fallback of
   nearest_common_descendant, precompute) and of the two helpers of cascade/low/views.py it
   uses (param_source, dependants).

   Task ids are N (the harness maps task names to numbers), output names and input slots are N.
   Python sets are lists without duplicates whose ORDER is unspecified: every theorem in
   PreschedProofs.v is stated for arbitrary adjacency lists that represent the edge sets, so
   it covers whatever iteration order CPython picks.  Python dicts are association lists.
   Every Python `raise` / non-terminating loop is an `Err`:
     KeyError   -- remaining[a], value[c], paths[c], paths[a] lookups that would fail
     TypeError  -- param_source on an edge with both / neither of sink_input_kw, sink_input_ps
     OutOfFuel  -- the `while queue` / `while remaining` loops did not finish within the fuel
   No proofs in this file. *)
From Coq Require Import List NArith ZArith Bool.
Import ListNotations.

Inductive err := OutOfFuel | KeyError | TypeError.
Inductive res (A : Type) : Type := Ok (a : A) | Err (e : err).
Arguments Ok {A} a.
Arguments Err {A} e.

Definition bind {A B} (r : res A) (f : A -> res B) : res B :=
  match r with Ok a => f a | Err e => Err e end.

(* ------------------------------------------------------------------ sets and dicts *)
Definition mem (x : N) (l : list N) : bool := existsb (N.eqb x) l.
Definition null {A} (l : list A) : bool := match l with [] => true | _ => false end.
(* set.add / set.union keeping first occurrences *)
Definition sadd (x : N) (l : list N) : list N := if mem x l then l else l ++ [x].
Definition sunion (l r : list N) : list N := fold_left (fun acc x => sadd x acc) r l.

Section Dict.
  Context {K A : Type} (keqb : K -> K -> bool).
  Fixpoint lookup (k : K) (m : list (K * A)) : option A :=
    match m with [] => None | (k', v) :: r => if keqb k k' then Some v else lookup k r end.
  (* d[k] = v : replace in place, else append (insertion order) *)
  Fixpoint dset (k : K) (v : A) (m : list (K * A)) : list (K * A) :=
    match m with
    | [] => [(k, v)]
    | (k', v') :: r => if keqb k k' then (k, v) :: r else (k', v') :: dset k v r
    end.
  Fixpoint dremove (k : K) (m : list (K * A)) : list (K * A) :=
    match m with
    | [] => []
    | (k', v') :: r => if keqb k k' then r else (k', v') :: dremove k r
    end.
End Dict.

Definition ds := (N * N)%type.                       (* DatasetId (task, output) *)
Definition ds_eqb (a b : ds) : bool := N.eqb (fst a) (fst b) && N.eqb (snd a) (snd b).
Definition dsmem (x : ds) (l : list ds) : bool := existsb (ds_eqb x) l.
Definition dsadd (x : ds) (l : list ds) : list ds := if dsmem x l then l else l ++ [x].

(* defaultdict(set)[t] *)
Definition adj (m : list (N * list N)) (t : N) : list N :=
  match lookup N.eqb t m with Some l => l | None => [] end.

(* first error wins, results in order *)
Fixpoint res_map {A B} (f : A -> res B) (l : list A) : res (list B) :=
  match l with
  | [] => Ok []
  | x :: r => bind (f x) (fun y => bind (res_map f r) (fun ys => Ok (y :: ys)))
  end.

(* ------------------------------------------------------------------ decompose *)
Section Graph.
  Variables ei eo : N -> list N.     (* edge_i_proj[t], edge_o_proj[t] in some iteration order *)

  Definition visit (st : list N * list N) (vert : N) : list N * list N :=
    if mem vert (snd st) then st else (vert :: fst st, vert :: snd st).

  (* inner `while queue` loop; the queue is a stack (pop / append at the same end) *)
  Fixpoint flood (fuel : nat) (q vis comp : list N) : res (list N * list N) :=
    match q with
    | [] => Ok (comp, vis)
    | head :: q0 =>
      match fuel with
      | O => Err OutOfFuel
      | S f =>
        let st := fold_left visit (ei head ++ eo head) (q0, vis) in
        flood f (fst st) (snd st) (comp ++ [head])
      end
    end.

  (* outer `while sources_l` loop; srcs is given in pop order *)
  Fixpoint outer (fuel : nat) (is_src : N -> bool) (srcs vis : list N) : res (list (list N * list N)) :=
    match srcs with
    | [] => Ok []
    | s :: rest =>
      if mem s vis then outer fuel is_src rest vis else
      match flood fuel [s] (s :: vis) [] with
      | Err e => Err e
      | Ok (comp, vis1) =>
        match outer fuel is_src rest vis1 with
        | Err e => Err e
        | Ok cs => Ok ((comp, filter is_src comp) :: cs)
        end
      end
    end.

  Definition sources_of (nodes : list N) : list N := filter (fun n => null (ei n)) nodes.

  Definition decompose (fuel : nat) (nodes : list N) : res (list (list N * list N)) :=
    let srcs := sources_of nodes in outer fuel (fun e => mem e srcs) srcs [].

  (* ---------------------------------------------------------------- enrich: layering *)
  (* body of `for a in edge_i[v]`: remaining[a] -= 1; if 0: next_layer.append(a); pop *)
  Definition dec_parent (st : res (list (N * Z) * list N)) (a : N) : res (list (N * Z) * list N) :=
    match st with
    | Err e => Err e
    | Ok (rem, next) =>
      match lookup N.eqb a rem with
      | None => Err KeyError
      | Some k => let k' := (k - 1)%Z in
                  if (k' =? 0)%Z then Ok (dremove N.eqb a rem, next ++ [a])
                  else Ok (dset N.eqb a k' rem, next)
      end
    end.

  Definition process_layer (layer : list N) (rem : list (N * Z)) : res (list (N * Z) * list N) :=
    fold_left (fun st v => fold_left dec_parent (ei v) st) layer (Ok (rem, [])).

  (* `while remaining`; layers kept newest first *)
  Fixpoint layering (fuel : nat) (rem : list (N * Z)) (last : list N) (older : list (list N)) : res (list (list N)) :=
    match rem with
    | [] => Ok (rev (last :: older))
    | _ :: _ =>
      match fuel with
      | O => Err OutOfFuel
      | S f =>
        match process_layer last rem with
        | Err e => Err e
        | Ok (rem', next) => layering f rem' next (last :: older)
        end
      end
    end.

  (* ---------------------------------------------------------------- enrich: value and paths *)
  Definition pmap := list (N * Z).                (* paths[v] : defaultdict(lambda: L) *)
  Definition pget (L : Z) (pv : pmap) (c : N) : Z :=
    match lookup N.eqb c pv with Some d => d | None => L end.

  Definition merge_desc (L : Z) (pv : pmap) (p : N * Z) : pmap :=
    dset N.eqb (fst p) (Z.min (pget L pv (fst p)) (snd p + 1)) pv.

  (* body of `for c in edge_o[v]` *)
  Definition child_step (L : Z) (value : list (N * Z)) (paths : list (N * pmap))
             (st : res (Z * pmap)) (c : N) : res (Z * pmap) :=
    match st with
    | Err e => Err e
    | Ok (val, pv) =>
      let pv1 := dset N.eqb c 1%Z pv in
      match lookup N.eqb c paths with
      | None => Err KeyError
      | Some pc =>
        let pv2 := fold_left (merge_desc L) pc pv1 in
        match lookup N.eqb c value with
        | None => Err KeyError
        | Some vc => Ok (Z.max val (vc - 1), pv2)
        end
      end
    end.

  Definition node_step (L : Z) (st : res (list (N * Z) * list (N * pmap))) (v : N) : res (list (N * Z) * list (N * pmap)) :=
    match st with
    | Err e => Err e
    | Ok (value, paths) =>
      match fold_left (child_step L value paths) (eo v) (Ok (0%Z, [(v, 0%Z)])) with
      | Err e => Err e
      | Ok (val, pv) => Ok (dset N.eqb v val value, dset N.eqb v pv paths)
      end
    end.

  Definition sink_step (L : Z) (st : list (N * Z) * list (N * pmap)) (v : N) : list (N * Z) * list (N * pmap) :=
    (dset N.eqb v L (fst st), dset N.eqb v [(v, 0%Z)] (snd st)).

  (* ---------------------------------------------------------------- nearest common descendant (python fallback) *)
  Definition ncd_cell (L : Z) (nodes : list N) (pa pb : pmap) : Z :=
    fold_left (fun acc c => Z.min acc (Z.max (pget L pa c) (pget L pb c))) nodes L.

  (* the cell ncd[a][b] *)
  Definition ncd_entry (L : Z) (nodes : list N) (paths : list (N * pmap)) (a : N) (pa : pmap) (b : N) : res (N * Z) :=
    if N.eqb b a then Ok (b, 0%Z) else
    match lookup N.eqb b paths with
    | None => Err KeyError
    | Some pb => Ok (b, ncd_cell L nodes pa pb)
    end.

  Definition ncd_row (L : Z) (nodes : list N) (paths : list (N * pmap)) (a : N) : res (N * list (N * Z)) :=
    match lookup N.eqb a paths with
    | None => Err KeyError
    | Some pa => bind (res_map (ncd_entry L nodes paths a pa) nodes) (fun row => Ok (a, row))
    end.

  Definition ncd (L : Z) (nodes : list N) (paths : list (N * pmap)) : res (list (N * list (N * Z))) :=
    res_map (ncd_row L nodes paths) nodes.

  Record core := mkCore {
    c_nodes : list N; c_sources : list N;
    c_dist : list (N * list (N * Z)); c_value : list (N * Z); c_depth : Z }.

  Definition enrich (fuel : nat) (pc : list N * list N) : res core :=
    let nodes := fst pc in
    let sinks := filter (fun v => null (eo v)) nodes in
    let rem := map (fun v => (v, Z.of_nat (List.length (eo v)))) (filter (fun v => negb (null (eo v))) nodes) in
    bind (layering fuel rem sinks []) (fun layers =>
    let L := Z.of_nat (List.length layers) in
    let st0 := fold_left (sink_step L) (hd [] layers) ([], []) in
    bind (fold_left (node_step L) (concat (tl layers)) (Ok st0)) (fun st =>
    bind (ncd L nodes (snd st)) (fun dm =>
    Ok (mkCore nodes (snd pc) dm (fst st) L)))).
End Graph.

(* ------------------------------------------------------------------ job, views.py *)
Record edge := mkE { e_src : N; e_out : N; e_snk : N; e_kw : option N; e_ps : option N }.
Record job := mkJ { j_tasks : list (N * list N); j_edges : list edge }.   (* task id, output names *)

Definition e_ds (e : edge) : ds := (e_src e, e_out e).

(* the key of rv[e.sink_task][sink_input]: kw (a str) and ps (an int) never compare equal *)
Definition slot := (bool * N)%type.
Definition slot_eqb (a b : slot) : bool := Bool.eqb (fst a) (fst b) && N.eqb (snd a) (snd b).
Definition slot_of (e : edge) : res slot :=
  match e_kw e, e_ps e with
  | Some k, None => Ok (true, k)
  | None, Some p => Ok (false, p)
  | _, _ => Err TypeError
  end.

Definition param_source (edges : list edge) : res (list (N * list (slot * ds))) :=
  fold_left (fun acc e => bind acc (fun rv => bind (slot_of e) (fun s =>
     let inner := match lookup N.eqb (e_snk e) rv with Some m => m | None => [] end in
     Ok (dset N.eqb (e_snk e) (dset slot_eqb s (e_ds e) inner) rv)))) edges (Ok []).

Definition dependants (edges : list edge) : list (ds * list N) :=
  fold_left (fun rv e =>
     let cur := match lookup ds_eqb (e_ds e) rv with Some l => l | None => [] end in
     dset ds_eqb (e_ds e) (sadd (e_snk e) cur) rv) edges [].

(* ------------------------------------------------------------------ precompute *)
Record presched := mkP {
  p_comps : list core;
  p_edge_o : list (ds * list N);
  p_edge_i : list (N * list ds);
  p_task_o : list (N * list ds) }.

Definition weight (c : core) : nat := List.length (c_nodes c).

(* list.sort(key=weight, reverse=True) is stable: equal weights keep their order *)
Fixpoint insert_desc (x : core) (l : list core) : list core :=
  match l with
  | [] => [x]
  | y :: r => if Nat.ltb (weight x) (weight y) then y :: insert_desc x r else x :: y :: r
  end.
Definition sort_desc (l : list core) : list core := fold_right insert_desc [] l.

Definition edge_o_proj (edge_o : list (ds * list N)) : list (N * list N) :=
  fold_left (fun proj p => dset N.eqb (fst (fst p)) (sunion (adj proj (fst (fst p))) (snd p)) proj) edge_o [].

Definition edge_i_of (ps : list (N * list (slot * ds))) : list (N * list ds) :=
  map (fun p => (fst p, fold_left (fun acc sd => dsadd (snd sd) acc) (snd p) [])) ps.

Definition edge_i_proj (edge_i : list (N * list ds)) : list (N * list N) :=
  map (fun p => (fst p, fold_left (fun acc d => sadd (fst d) acc) (snd p) [])) edge_i.

(* enough for every loop: each iteration of `while queue` pops a vertex that was pushed once,
   each iteration of `while remaining` on a DAG places at least one task *)
Definition fuel_of (j : job) : nat := S (List.length (j_tasks j) + 2 * List.length (j_edges j)).

Definition precompute (j : job) : res presched :=
  let edge_o := dependants (j_edges j) in
  let eop := edge_o_proj edge_o in
  bind (param_source (j_edges j)) (fun ps =>
  let edge_i := edge_i_of ps in
  let eip := edge_i_proj edge_i in
  let task_o := map (fun t => (fst t, map (fun o => (fst t, o)) (snd t))) (j_tasks j) in
  let fuel := fuel_of j in
  bind (decompose (adj eip) (adj eop) fuel (map fst (j_tasks j))) (fun plain =>
  bind (res_map (enrich (adj eip) (adj eop) fuel) plain) (fun comps =>
  Ok (mkP (sort_desc comps) edge_o edge_i task_o)))).
