(* Preservation of the invariant by the cluster's own steps. *)
From stdpp Require Import gmap.
From Coq Require Import NArith String.
From EKW Require Import Sched.Model Sched.Lemmas Sched.Inv.
Local Open Scope N_scope.

Section env_steps.
  Context (J : job) (E : env).
  Hypothesis wf_nout : ∀ t, is_task J t → 1 ≤ nout J t.

  Lemma inv_finish s w t h :
    Inv J E s → wq s !! w = Some t → e_host E !! w = Some h →
    set_Forall (λ d, (h, d) ∈ store s) (ins J t) →
    set_Forall (λ d, (h, d) ∉ store s) (outs J t) →
    Inv J E {| ctl := ctl s; store := store s ∪ set_map (λ d, (h, d)) (outs J t);
               wq := delete w (wq s); xfers := xfers s; fetches := fetches s; purges := purges s;
               pool := pool s ++ (EPub w <$> outs_list J t); dispatched := dispatched s;
               finished := {[t]} ∪ finished s |}.
  Proof.
    intros Hinv Hwq Hh Hins Houts.
    destruct (i_wq _ _ _ Hinv _ _ Hwq) as (_ & Hong & Htask & Hnfin).
    destruct (i_ong _ _ _ Hinv _ _ Hong) as (Hncomp & Hnidle & Hdisp & _ & _).
    assert (Hlast : last_out J t ∈ outs J t) by (apply last_out_in, wf_nout, Htask).
    assert (Huniq : ∀ w', wq s !! w' = Some t → w' = w).
    { intros w' Hw'. destruct (i_wq _ _ _ Hinv _ _ Hw') as (_ & Hong' & _).
      destruct (i_ong _ _ _ Hinv _ _ Hong') as (_ & _ & Hdisp' & _).
      eapply nodup_snd_inj; [apply (i_disp_nodup _ _ _ Hinv)|done|done]. }
    constructor; simpl.
    - (* i_idle *) intros w' Hw'. destruct (i_idle _ _ _ Hinv _ Hw') as (? & ? & Hn).
      split; [done|]. split; [done|]. destruct (decide (w' = w)) as [->|?];
        [by rewrite lookup_delete|by rewrite lookup_delete_ne].
    - (* i_wq *) intros w' t' Hw'. apply lookup_delete_Some in Hw' as [Hne Hw'].
      destruct (i_wq _ _ _ Hinv _ _ Hw') as (? & ? & ? & ?). repeat split; try done.
      intros Hin. apply elem_of_union in Hin as [Hin|Hin]; [|done].
      apply elem_of_singleton in Hin as ->. apply Hne; symmetry; by apply Huniq.
    - (* i_wq_outs *) intros w' t' h' Hw' Hh' d Hd Hp. apply lookup_delete_Some in Hw' as [_ Hw'].
      eapply (i_wq_outs _ _ _ Hinv); eauto.
    - (* i_ong *) intros w' t' Hong'. destruct (i_ong _ _ _ Hinv _ _ Hong') as (? & ? & ? & ? & Hcase).
      repeat split; try done. destruct Hcase as [Hc|[Hf Hp]].
      + destruct (decide (w' = w)) as [->|Hne].
        * assert (t' = t) as -> by congruence. right. split; [set_solver|].
          apply elem_of_app. right. apply elem_of_list_fmap. exists (last_out J t).
          split; [done|]. by apply outs_list_spec.
        * left. by rewrite lookup_delete_ne.
      + right. split; [set_solver|]. apply elem_of_app. by left.
    - (* i_pub *) intros w' d Hin. apply elem_of_app in Hin as [Hin|Hin].
      + destruct (i_pub _ _ _ Hinv _ _ Hin) as (? & ? & ? & ? & h' & ? & Hst).
        repeat split; try done; [set_solver|]. exists h'. split; [done|]. intros Hp. set_solver.
      + apply elem_of_list_fmap in Hin as (d' & [= -> ->] & Hd'). apply outs_list_spec in Hd'.
        pose proof Hd' as Hd''. apply outs_spec in Hd'' as [Hd1 _].
        destruct d' as [t0 i]. simpl in Hd1. subst t0. simpl.
        split; [set_solver|]. split; [done|]. split; [done|]. split; [done|].
        exists h. split; [done|]. intros _. apply elem_of_union. right. apply elem_of_map. by exists (t, i).
    - (* i_pub_nodup *) rewrite pub_ds_app, pub_ds_pubs. apply NoDup_app. split; [apply (i_pub_nodup _ _ _ Hinv)|].
      split; [|apply outs_list_nodup]. intros d Hd Hd'. apply elem_of_pub_ds in Hd as [w' Hw'].
      destruct (i_pub _ _ _ Hinv _ _ Hw') as (Hf & _). apply outs_list_spec in Hd'. apply outs_spec in Hd' as [Hd1 _].
      destruct d as [a b]; simpl in *; subst; done.
    - (* i_xev *) intros h' d Hin. apply elem_of_app in Hin as [Hin|Hin].
      + destruct (i_xev _ _ _ Hinv _ _ Hin) as [? Hst]. split; [set_solver|]. intros Hp. set_solver.
      + apply elem_of_list_fmap in Hin as (? & ? & ?). done.
    - (* i_store_fin *) intros h' d Hin. apply elem_of_union in Hin as [Hin|Hin].
      + pose proof (i_store_fin _ _ _ Hinv _ _ Hin). set_solver.
      + apply elem_of_map in Hin as (d' & [= -> ->] & Hd'). destruct d' as [a b].
        apply outs_spec in Hd' as [Hd1 _]. simpl in *. subst. set_solver.
    - (* i_store_h2d *) intros h' d Hin Hp. apply elem_of_union in Hin as [Hin|Hin].
      + by apply (i_store_h2d _ _ _ Hinv).
      + apply elem_of_map in Hin as (d' & [= -> ->] & Hd'). eapply (i_wq_outs _ _ _ Hinv); eauto.
    - (* i_avail_store *) intros d h' Hd Hp. pose proof (i_avail_store _ _ _ Hinv _ _ Hd Hp). set_solver.
    - apply (i_seen_avail _ _ _ Hinv).
    - intros d Hd. pose proof (i_seen_fin _ _ _ Hinv _ Hd). set_solver.
    - apply (i_purges _ _ _ Hinv).
    - apply (i_pq _ _ _ Hinv).
    - apply (i_ptr _ _ _ Hinv).
    - apply (i_comp _ _ _ Hinv).
    - apply (i_tr _ _ _ Hinv).
    - apply (i_disp _ _ _ Hinv).
    - apply (i_disp_nodup _ _ _ Hinv).
    - intros t' Ht'. destruct (i_completed _ _ _ Hinv _ Ht') as [? ?]. split; [set_solver|done].
    - (* i_fin_disp *) intros t' Ht'. apply elem_of_union in Ht' as [Ht'|Ht'].
      + apply elem_of_singleton in Ht' as ->. split.
        * apply elem_of_list_fmap. by exists (w, t).
        * intros w' Hw'. apply lookup_delete_Some in Hw' as [Hne Hw']. apply Hne; symmetry; by apply Huniq.
      + destruct (i_fin_disp _ _ _ Hinv _ Ht') as [? Hn]. split; [done|].
        intros w' Hw'. apply lookup_delete_Some in Hw' as [_ Hw']. by eapply Hn.
    - (* i_prep *) intros d h' Hs Hp. destruct (i_prep _ _ _ Hinv _ _ Hs Hp) as [Hst|[Hx|(w' & Hw' & Hh' & Hd)]].
      + left. set_solver.
      + right. by left.
      + destruct (decide (w' = w)) as [->|Hne].
        * left. assert (d.1 = t) as Hd1 by congruence. assert (h' = h) as -> by congruence.
          apply elem_of_union. right. apply elem_of_map. exists d. split; [done|]. by rewrite <- Hd1.
        * right. right. exists w'. by rewrite lookup_delete_ne.
    - (* i_xfer *) intros d src tgt Hx. destruct (i_xfer _ _ _ Hinv _ _ _ Hx) as (Hp & Hq & Hsrc & Htgt & Hns & w' & t' & Hw' & Hh' & Hd).
      repeat split; try done.
      + intros Hin. apply elem_of_union in Hin as [Hin|Hin]; [done|].
        apply elem_of_map in Hin as (d' & [= -> ->] & Hd'). apply outs_spec in Hd' as [Hd1 _].
        pose proof (i_avail_store _ _ _ Hinv _ _ Hsrc Hp) as Hst.
        pose proof (i_store_fin _ _ _ Hinv _ _ Hst) as Hf. destruct d' as [a b]; simpl in *; subst; done.
      + exists w', t'. destruct (decide (w' = w)) as [->|Hne].
        * exfalso. assert (t' = t) as -> by congruence. assert (tgt = h) as -> by congruence.
          apply Hns. by apply Hins.
        * by rewrite lookup_delete_ne.
    - apply (i_xfer_nodup _ _ _ Hinv).
    - (* i_inputs *) intros w' t' h' Hw' Hh' d Hd. apply lookup_delete_Some in Hw' as [_ Hw'].
      destruct (i_inputs _ _ _ Hinv _ _ _ Hw' Hh' _ Hd) as [?|?]; [left; set_solver|by right].
    - apply (i_fq _ _ _ Hinv).
    - intros d src Hf. destruct (i_fetch _ _ _ Hinv _ _ Hf) as (? & ? & ? & ? & Hn). repeat split; try done.
      by rewrite pay_ds_app, pay_ds_pubs, app_nil_r.
    - apply (i_fetch_nodup _ _ _ Hinv).
    - intros d v Hin. apply elem_of_app in Hin as [Hin|Hin]; [by apply (i_pay _ _ _ Hinv)|].
      apply elem_of_list_fmap in Hin as (? & ? & ?). done.
    - rewrite pay_ds_app, pay_ds_pubs, app_nil_r. apply (i_pay_nodup _ _ _ Hinv).
    - intros d v Ho. destruct (i_out _ _ _ Hinv _ _ Ho) as (? & ? & ? & ? & ?). repeat split; try done.
      by rewrite pay_ds_app, pay_ds_pubs, app_nil_r.
    - apply (i_phase _ _ _ Hinv).
    - intros t' d Ht' Hd. rewrite pub_ds_app, pub_ds_pubs. apply elem_of_union in Ht' as [Ht'|Ht'].
      + apply elem_of_singleton in Ht' as ->. right. apply elem_of_app. right. by apply outs_list_spec.
      + destruct (i_fin_ev _ _ _ Hinv _ _ Ht' Hd) as [?|?]; [by left|right; apply elem_of_app; by left].
    - apply (i_seen_ext _ _ _ Hinv).
    - intros d Hd. rewrite pay_ds_app, pay_ds_pubs, app_nil_r. by apply (i_fetched _ _ _ Hinv).
  Qed.

  Lemma pub_ds_snoc_x l h d : pub_ds (l ++ [EXfer h d]) = pub_ds l.
  Proof. rewrite pub_ds_app. simpl. by rewrite app_nil_r. Qed.
  Lemma pay_ds_snoc_x l h d : pay_ds (l ++ [EXfer h d]) = pay_ds l.
  Proof. rewrite pay_ds_app. simpl. by rewrite app_nil_r. Qed.
  Lemma pub_ds_snoc_p l d v : pub_ds (l ++ [EPay d v]) = pub_ds l.
  Proof. rewrite pub_ds_app. simpl. by rewrite app_nil_r. Qed.
  Lemma pay_ds_snoc_p l d v : pay_ds (l ++ [EPay d v]) = pay_ds l ++ [d].
  Proof. by rewrite pay_ds_app. Qed.

  (* a live (uncompleted) consumer keeps its inputs out of every purge *)
  Lemma live_not_purged s t d :
    Inv J E s → is_task J t → t ∉ completed (ctl s) → d ∈ ins J t →
    d ∉ purged (ctl s) ∧ d ∉ pqueue (ctl s).
  Proof.
    intros Hinv Ht Hc Hd. pose proof (i_ptr _ _ _ Hinv _ Ht Hc _ Hd) as Hp.
    assert (d ∉ purged (ctl s) ∪ pqueue (ctl s)) as Hn; [|set_solver].
    intros Hin. destruct (i_pq _ _ _ Hinv _ Hin) as (Hnone & _). unfold ptr in Hp. rewrite Hnone in Hp.
    simpl in Hp. set_solver.
  Qed.

  Lemma inv_xfer s d0 src tgt xs :
    Inv J E s → list_remove (d0, src, tgt) (xfers s) = Some xs → (src, d0) ∈ store s →
    Inv J E {| ctl := ctl s; store := {[(tgt, d0)]} ∪ store s; wq := wq s; xfers := xs;
               fetches := fetches s; purges := purges s; pool := pool s ++ [EXfer tgt d0];
               dispatched := dispatched s; finished := finished s |}.
  Proof.
    intros Hinv Hrm Hsrc.
    pose proof (list_remove_in _ _ _ Hrm) as Hx.
    destruct (i_xfer _ _ _ Hinv _ _ _ Hx) as (Hp0 & Hq0 & Hs0 & Ht0 & Hns0 & w0 & t0 & Hw0 & Hh0 & Hd0).
    pose proof (i_xfer_nodup _ _ _ Hinv) as Hnd.
    rewrite (list_remove_fmap_perm _ _ _ _ Hrm) in Hnd. simpl in Hnd. apply NoDup_cons in Hnd as [Hfresh Hnd'].
    assert (Hsub : ∀ y, y ∈ xs → y ∈ xfers s) by (intros y Hy; rewrite (list_remove_elem _ _ _ y Hrm); auto).
    constructor; simpl.
    - apply (i_idle _ _ _ Hinv).
    - apply (i_wq _ _ _ Hinv).
    - apply (i_wq_outs _ _ _ Hinv).
    - intros w t Ho. destruct (i_ong _ _ _ Hinv _ _ Ho) as (? & ? & ? & ? & [?|[? ?]]); repeat split; auto.
      right. split; [done|]. apply elem_of_app. by left.
    - intros w d Hin. apply elem_of_app in Hin as [Hin|Hin]; [|by apply elem_of_list_singleton in Hin].
      destruct (i_pub _ _ _ Hinv _ _ Hin) as (? & ? & ? & ? & h' & ? & Hst). repeat split; try done.
      exists h'. split; [done|]. intros Hp. set_solver.
    - rewrite pub_ds_snoc_x. apply (i_pub_nodup _ _ _ Hinv).
    - intros h d Hin. apply elem_of_app in Hin as [Hin|Hin].
      + destruct (i_xev _ _ _ Hinv _ _ Hin) as [? Hst]. split; [done|]. intros Hp. set_solver.
      + apply elem_of_list_singleton in Hin as [= -> ->]. split; [by apply (i_store_fin _ _ _ Hinv src)|set_solver].
    - intros h d Hin. apply elem_of_union in Hin as [Hin|Hin]; [|by apply (i_store_fin _ _ _ Hinv h)].
      apply elem_of_singleton in Hin as [= -> ->]. by apply (i_store_fin _ _ _ Hinv src).
    - intros h d Hin Hp. apply elem_of_union in Hin as [Hin|Hin]; [|by apply (i_store_h2d _ _ _ Hinv)].
      apply elem_of_singleton in Hin as [= -> ->]. done.
    - intros d h Hd Hp. pose proof (i_avail_store _ _ _ Hinv _ _ Hd Hp). set_solver.
    - apply (i_seen_avail _ _ _ Hinv).
    - apply (i_seen_fin _ _ _ Hinv).
    - apply (i_purges _ _ _ Hinv).
    - apply (i_pq _ _ _ Hinv).
    - apply (i_ptr _ _ _ Hinv).
    - apply (i_comp _ _ _ Hinv).
    - apply (i_tr _ _ _ Hinv).
    - apply (i_disp _ _ _ Hinv).
    - apply (i_disp_nodup _ _ _ Hinv).
    - apply (i_completed _ _ _ Hinv).
    - apply (i_fin_disp _ _ _ Hinv).
    - intros d h Hs Hp. destruct (i_prep _ _ _ Hinv _ _ Hs Hp) as [Hst|[[src' Hx']|Hw]].
      + left. set_solver.
      + rewrite (list_remove_elem _ _ _ _ Hrm) in Hx'. destruct Hx' as [[= -> -> ->]|Hx'].
        * left. set_solver.
        * right. left. eauto.
      + right. by right.
    - intros d src' tgt' Hy. destruct (i_xfer _ _ _ Hinv _ _ _ (Hsub _ Hy)) as (? & ? & ? & ? & Hns & Hw).
      repeat split; try done. intros Hin. apply elem_of_union in Hin as [Hin|Hin]; [|done].
      apply elem_of_singleton in Hin as [= -> ->]. apply Hfresh.
      apply elem_of_list_fmap. by exists (d0, src', tgt).
    - done.
    - intros w t h Hw Hh d Hd. destruct (i_inputs _ _ _ Hinv _ _ _ Hw Hh _ Hd) as [?|[src' Hx']]; [left; set_solver|].
      rewrite (list_remove_elem _ _ _ _ Hrm) in Hx'. destruct Hx' as [[= -> -> ->]|Hx']; [left; set_solver|right; eauto].
    - apply (i_fq _ _ _ Hinv).
    - intros d src' Hf. rewrite pay_ds_snoc_x. by apply (i_fetch _ _ _ Hinv _ src').
    - apply (i_fetch_nodup _ _ _ Hinv).
    - intros d v Hin. apply elem_of_app in Hin as [Hin|Hin]; [by apply (i_pay _ _ _ Hinv)|by apply elem_of_list_singleton in Hin].
    - rewrite pay_ds_snoc_x. apply (i_pay_nodup _ _ _ Hinv).
    - intros d v Ho. rewrite pay_ds_snoc_x. by apply (i_out _ _ _ Hinv).
    - apply (i_phase _ _ _ Hinv).
    - intros t d Ht Hd. rewrite pub_ds_snoc_x. by apply (i_fin_ev _ _ _ Hinv t).
    - apply (i_seen_ext _ _ _ Hinv).
    - intros d Hd. rewrite pay_ds_snoc_x. by apply (i_fetched _ _ _ Hinv).
  Qed.

  Lemma inv_fetch s d0 src fs :
    Inv J E s → list_remove (d0, src) (fetches s) = Some fs →
    Inv J E {| ctl := ctl s; store := store s; wq := wq s; xfers := xfers s; fetches := fs;
               purges := purges s; pool := pool s ++ [EPay d0 (if bool_decide (d0 ∈ j_none J) then None else Some d0)];
               dispatched := dispatched s; finished := finished s |}.
  Proof.
    intros Hinv Hrm.
    pose proof (list_remove_in _ _ _ Hrm) as Hx.
    destruct (i_fetch _ _ _ Hinv _ _ Hx) as (He0 & Ho0 & Hf0 & Hs0 & Hnp0).
    pose proof (i_fetch_nodup _ _ _ Hinv) as Hnd.
    rewrite (list_remove_fmap_perm _ _ _ _ Hrm) in Hnd. simpl in Hnd. apply NoDup_cons in Hnd as [Hfresh Hnd'].
    assert (Hsub : ∀ y, y ∈ fs → y ∈ fetches s) by (intros y Hy; rewrite (list_remove_elem _ _ _ y Hrm); auto).
    constructor; simpl.
    - apply (i_idle _ _ _ Hinv).
    - apply (i_wq _ _ _ Hinv).
    - apply (i_wq_outs _ _ _ Hinv).
    - intros w t Ho. destruct (i_ong _ _ _ Hinv _ _ Ho) as (? & ? & ? & ? & [?|[? ?]]); repeat split; auto.
      right. split; [done|]. apply elem_of_app. by left.
    - intros w d Hin. apply elem_of_app in Hin as [Hin|Hin]; [|by apply elem_of_list_singleton in Hin].
      by apply (i_pub _ _ _ Hinv).
    - rewrite pub_ds_snoc_p. apply (i_pub_nodup _ _ _ Hinv).
    - intros h d Hin. apply elem_of_app in Hin as [Hin|Hin]; [|by apply elem_of_list_singleton in Hin].
      by apply (i_xev _ _ _ Hinv).
    - apply (i_store_fin _ _ _ Hinv).
    - apply (i_store_h2d _ _ _ Hinv).
    - apply (i_avail_store _ _ _ Hinv).
    - apply (i_seen_avail _ _ _ Hinv).
    - apply (i_seen_fin _ _ _ Hinv).
    - apply (i_purges _ _ _ Hinv).
    - apply (i_pq _ _ _ Hinv).
    - apply (i_ptr _ _ _ Hinv).
    - apply (i_comp _ _ _ Hinv).
    - apply (i_tr _ _ _ Hinv).
    - apply (i_disp _ _ _ Hinv).
    - apply (i_disp_nodup _ _ _ Hinv).
    - apply (i_completed _ _ _ Hinv).
    - apply (i_fin_disp _ _ _ Hinv).
    - apply (i_prep _ _ _ Hinv).
    - apply (i_xfer _ _ _ Hinv).
    - apply (i_xfer_nodup _ _ _ Hinv).
    - apply (i_inputs _ _ _ Hinv).
    - apply (i_fq _ _ _ Hinv).
    - intros d src' Hy. destruct (i_fetch _ _ _ Hinv _ _ (Hsub _ Hy)) as (? & ? & ? & ? & Hnp). repeat split; try done.
      rewrite pay_ds_snoc_p. intros Hin. apply elem_of_app in Hin as [Hin|Hin]; [done|].
      apply elem_of_list_singleton in Hin as ->. apply Hfresh. apply elem_of_list_fmap. by exists (d0, src').
    - done.
    - intros d v Hin. apply elem_of_app in Hin as [Hin|Hin]; [by apply (i_pay _ _ _ Hinv)|].
      apply elem_of_list_singleton in Hin as [= -> ->]. done.
    - rewrite pay_ds_snoc_p. apply NoDup_app. split; [apply (i_pay_nodup _ _ _ Hinv)|]. split; [|apply NoDup_singleton].
      intros d Hd Hd'. apply elem_of_list_singleton in Hd' as ->. done.
    - intros d v Ho. destruct (i_out _ _ _ Hinv _ _ Ho) as (? & ? & Hnf & Hnp & ?). repeat split; try done.
      + intros Hin. apply Hnf. apply elem_of_list_fmap in Hin as (y & -> & Hy). apply elem_of_list_fmap. exists y. auto.
      + rewrite pay_ds_snoc_p. intros Hin. apply elem_of_app in Hin as [Hin|Hin]; [done|].
        apply elem_of_list_singleton in Hin as ->. congruence.
    - apply (i_phase _ _ _ Hinv).
    - intros t d Ht Hd. rewrite pub_ds_snoc_p. by apply (i_fin_ev _ _ _ Hinv t).
    - apply (i_seen_ext _ _ _ Hinv).
    - intros d Hd. rewrite pay_ds_snoc_p. destruct (i_fetched _ _ _ Hinv _ Hd) as [Hf|[?|?]].
      + apply elem_of_list_fmap in Hf as ([d1 s1] & -> & Hf). simpl. rewrite (list_remove_elem _ _ _ _ Hrm) in Hf.
        destruct Hf as [[= -> ->]|Hf].
        * right. left. apply elem_of_app. right. by apply elem_of_list_singleton.
        * left. apply elem_of_list_fmap. by exists (d1, s1).
      + right. left. apply elem_of_app. by left.
      + by right; right.
  Qed.

  Lemma inv_purge s h0 d0 ps :
    Inv J E s → list_remove (h0, d0) (purges s) = Some ps →
    Inv J E {| ctl := ctl s; store := store s ∖ {[(h0, d0)]}; wq := wq s; xfers := xfers s;
               fetches := fetches s; purges := ps; pool := pool s; dispatched := dispatched s;
               finished := finished s |}.
  Proof.
    intros Hinv Hrm.
    pose proof (list_remove_in _ _ _ Hrm) as Hx.
    pose proof (i_purges _ _ _ Hinv _ _ Hx) as Hp0.
    assert (Hsub : ∀ y, y ∈ ps → y ∈ purges s) by (intros y Hy; rewrite (list_remove_elem _ _ _ y Hrm); auto).
    assert (Hkeep : ∀ h d, d ∉ purged (ctl s) → (h, d) ∈ store s → (h, d) ∈ store s ∖ {[(h0, d0)]}).
    { intros h d Hd Hin. apply elem_of_difference. split; [done|]. intros Heq. apply elem_of_singleton in Heq as [= -> ->]. done. }
    constructor; simpl.
    - apply (i_idle _ _ _ Hinv).
    - apply (i_wq _ _ _ Hinv).
    - apply (i_wq_outs _ _ _ Hinv).
    - apply (i_ong _ _ _ Hinv).
    - intros w d Hin. destruct (i_pub _ _ _ Hinv _ _ Hin) as (? & ? & ? & ? & h' & ? & Hst). repeat split; try done.
      exists h'. split; [done|]. intros Hp. by apply Hkeep, Hst.
    - apply (i_pub_nodup _ _ _ Hinv).
    - intros h d Hin. destruct (i_xev _ _ _ Hinv _ _ Hin) as [? Hst]. split; [done|]. intros Hp. by apply Hkeep, Hst.
    - intros h d Hin. apply elem_of_difference in Hin as [Hin _]. by apply (i_store_fin _ _ _ Hinv h).
    - intros h d Hin. apply elem_of_difference in Hin as [Hin _]. by apply (i_store_h2d _ _ _ Hinv).
    - intros d h Hd Hp. apply Hkeep; [done|]. by apply (i_avail_store _ _ _ Hinv).
    - apply (i_seen_avail _ _ _ Hinv).
    - apply (i_seen_fin _ _ _ Hinv).
    - intros h d Hin. by apply (i_purges _ _ _ Hinv h), Hsub.
    - apply (i_pq _ _ _ Hinv).
    - apply (i_ptr _ _ _ Hinv).
    - apply (i_comp _ _ _ Hinv).
    - apply (i_tr _ _ _ Hinv).
    - apply (i_disp _ _ _ Hinv).
    - apply (i_disp_nodup _ _ _ Hinv).
    - apply (i_completed _ _ _ Hinv).
    - apply (i_fin_disp _ _ _ Hinv).
    - intros d h Hs Hp. destruct (i_prep _ _ _ Hinv _ _ Hs Hp) as [Hst|[?|?]]; [left; by apply Hkeep|right; by left|right; by right].
    - intros d src tgt Hy. destruct (i_xfer _ _ _ Hinv _ _ _ Hy) as (? & ? & ? & ? & Hns & Hw). repeat split; try done.
      intros Hin. apply elem_of_difference in Hin as [Hin _]. done.
    - apply (i_xfer_nodup _ _ _ Hinv).
    - intros w t h Hw Hh d Hd. destruct (i_inputs _ _ _ Hinv _ _ _ Hw Hh _ Hd) as [Hst|?]; [|by right].
      left. apply Hkeep; [|done]. destruct (i_wq _ _ _ Hinv _ _ Hw) as (_ & Ho & Ht & _).
      destruct (i_ong _ _ _ Hinv _ _ Ho) as (Hc & _). by destruct (live_not_purged s t d Hinv Ht Hc Hd).
    - apply (i_fq _ _ _ Hinv).
    - apply (i_fetch _ _ _ Hinv).
    - apply (i_fetch_nodup _ _ _ Hinv).
    - apply (i_pay _ _ _ Hinv).
    - apply (i_pay_nodup _ _ _ Hinv).
    - apply (i_out _ _ _ Hinv).
    - apply (i_phase _ _ _ Hinv).
    - apply (i_fin_ev _ _ _ Hinv).
    - apply (i_seen_ext _ _ _ Hinv).
    - apply (i_fetched _ _ _ Hinv).
  Qed.
End env_steps.
