(* Preservation of the invariant by the cluster's own steps. *)
From stdpp Require Import gmap.
From Coq Require Import NArith String.
From EKW Require Import Sched.Model Sched.Lemmas Sched.Inv.
Local Open Scope N_scope.

Section env_steps.
  Context (J : job) (E : env).
  Hypothesis wf_nout : ∀ t, is_task J t → 1 ≤ nout J t.

  Lemma pub_ds_snoc_pub l w d : pub_ds (l ++ [EPub w d]) = pub_ds l ++ [d].
  Proof. by rewrite pub_ds_app. Qed.
  Lemma pay_ds_snoc_pub l w d : pay_ds (l ++ [EPub w d]) = pay_ds l.
  Proof. rewrite pay_ds_app. simpl. by rewrite app_nil_r. Qed.

  (* the task held by w publishes its output d = (t, i); it finishes iff d is its last output *)
  Lemma inv_pubstep s w t h (d : ds) :
    Inv J E s → wq s !! w = Some t → e_host E !! w = Some h →
    set_Forall (λ d', (h, d') ∈ store s) (ins J t) →
    d ∈ outs J t → d ∉ published s →
    set_Forall (λ d' : ds, d'.2 < d.2 → d' ∈ published s) (outs J t) →
    (h, d) ∉ store s →
    Inv J E {| ctl := ctl s; store := {[(h, d)]} ∪ store s;
               wq := if bool_decide (d = last_out J t) then delete w (wq s) else wq s;
               xfers := xfers s; fetches := fetches s; purges := purges s;
               pool := pool s ++ [EPub w d]; dispatched := dispatched s;
               finished := if bool_decide (d = last_out J t) then {[t]} ∪ finished s else finished s;
               published := {[d]} ∪ published s |}.
  Proof.
    intros Hinv Hwq Hh Hins Hout Hnp Hprefix Hnst.
    destruct (i_wq _ _ _ Hinv _ _ Hwq) as (_ & Hong & Htask & Hnfin).
    destruct (i_ong _ _ _ Hinv _ _ Hong) as (Hncomp & Hnidle & Hdisp & _ & _).
    pose proof (outs_spec J t d) as Hos. apply Hos in Hout as Hd12. destruct Hd12 as [Hd1 Hd2].
    destruct d as [dt i]. simpl in Hd1, Hd2. subst dt. simpl in Hprefix.
    assert (Huniq : ∀ w', wq s !! w' = Some t → w' = w).
    { intros w' Hw'. destruct (i_wq _ _ _ Hinv _ _ Hw') as (_ & Hong' & _).
      destruct (i_ong _ _ _ Hinv _ _ Hong') as (_ & _ & Hdisp' & _).
      eapply nodup_snd_inj; [apply (i_disp_nodup _ _ _ Hinv)|done|done]. }
    match goal with |- context [@bool_decide ?P ?D] => remember (@bool_decide P D) as last eqn:Elast end.
    assert (Hlast : last = true → (t, i) = last_out J t) by (intros ->; symmetry in Elast; by apply bool_decide_eq_true in Elast).
    assert (Hnlast : (t, i) = last_out J t → last = true) by (intros ?; subst last; by apply bool_decide_eq_true_2).
    clear Elast.
    assert (Hwq' : ∀ w' t', (if last then delete w (wq s) else wq s) !! w' = Some t' → wq s !! w' = Some t' ∧ (last = true → w' ≠ w)).
    { intros w' t' H. destruct last; [apply lookup_delete_Some in H as [? ?]; auto|auto]. }
    assert (Hfin' : ∀ t', t' ∈ finished s → t' ∈ (if last then {[t]} ∪ finished s else finished s)) by (intros t' ?; destruct last; set_solver).
    assert (Hstore' : ∀ x, x ∈ store s → x ∈ {[(h, (t, i))]} ∪ store s) by set_solver.
    assert (Hpub' : ∀ x, x ∈ published s → x ∈ {[(t, i)]} ∪ published s) by set_solver.
    constructor; simpl.
    - (* i_idle *) intros w' Hw'. destruct (i_idle _ _ _ Hinv _ Hw') as (? & ? & Hn).
      split; [done|]. split; [done|]. destruct last; simpl; [|done].
      destruct (decide (w' = w)) as [->|?]; [by rewrite lookup_delete|by rewrite lookup_delete_ne].
    - (* i_wq *) intros w' t' Hw'. apply Hwq' in Hw' as [Hw' Hl].
      destruct (i_wq _ _ _ Hinv _ _ Hw') as (? & ? & ? & Hnf). repeat split; try done.
      destruct last eqn:El; [|done]. intros Hin. apply elem_of_union in Hin as [Hin|Hin]; [|done].
      apply elem_of_singleton in Hin as ->. apply (Hl eq_refl). by apply Huniq.
    - (* i_wq_outs *) intros w' t' h' Hw' Hh' d' Hd' Hp. apply Hwq' in Hw' as [Hw' _].
      eapply (i_wq_outs _ _ _ Hinv); eauto.
    - (* i_ong *) intros w' t' Hong'. destruct (i_ong _ _ _ Hinv _ _ Hong') as (? & ? & ? & ? & Hcase).
      repeat split; try done. destruct Hcase as [Hc|[Hf Hp]].
      + destruct last eqn:El.
        * destruct (decide (w' = w)) as [->|Hne].
          -- assert (t' = t) as -> by congruence. right. split; [set_solver|].
             apply elem_of_app. right. apply elem_of_list_singleton. by rewrite <- (Hlast eq_refl).
          -- left. by rewrite lookup_delete_ne.
        * by left.
      + right. split; [by apply Hfin'|]. apply elem_of_app. by left.
    - (* i_pub *) intros w' d' Hin. apply elem_of_app in Hin as [Hin|Hin].
      + destruct (i_pub _ _ _ Hinv _ _ Hin) as (? & ? & ? & Hl & h' & ? & Hst).
        split; [by apply Hpub'|]. split; [done|]. split; [done|]. split.
        * intros Heq. destruct (Hl Heq). split; [done|by apply Hfin'].
        * exists h'. split; [done|]. intros Hp. by apply Hstore', Hst.
      + apply elem_of_list_singleton in Hin as [= -> ->].
        split; [set_solver|]. simpl. split; [done|]. split; [done|]. split.
        * intros Heq. split; [done|]. rewrite (Hnlast Heq). set_solver.
        * exists h. split; [done|]. intros _. set_solver.
    - (* i_pub_nodup *) rewrite pub_ds_snoc_pub. apply NoDup_app. split; [apply (i_pub_nodup _ _ _ Hinv)|].
      split; [|apply NoDup_singleton]. intros d' Hd' Hd''. apply elem_of_list_singleton in Hd'' as ->.
      apply elem_of_pub_ds in Hd' as [w' Hw']. by destruct (i_pub _ _ _ Hinv _ _ Hw') as (? & _).
    - (* i_xev *) intros h' d' Hin. apply elem_of_app in Hin as [Hin|Hin]; [|by apply elem_of_list_singleton in Hin].
      destruct (i_xev _ _ _ Hinv _ _ Hin) as [? Hst]. split; [by apply Hpub'|]. intros Hp. by apply Hstore', Hst.
    - (* i_store_pub *) intros h' d' Hin. apply elem_of_union in Hin as [Hin|Hin].
      + apply elem_of_singleton in Hin as [= -> ->]. set_solver.
      + apply Hpub'. by apply (i_store_pub _ _ _ Hinv h').
    - (* i_store_h2d *) intros h' d' Hin Hp. apply elem_of_union in Hin as [Hin|Hin].
      + apply elem_of_singleton in Hin as [= -> ->]. eapply (i_wq_outs _ _ _ Hinv); eauto.
      + by apply (i_store_h2d _ _ _ Hinv).
    - (* i_avail_store *) intros d' h' Hd' Hp. by apply Hstore', (i_avail_store _ _ _ Hinv).
    - apply (i_seen_avail _ _ _ Hinv).
    - intros d' Hd'. by apply Hpub', (i_seen_pub _ _ _ Hinv).
    - apply (i_purges _ _ _ Hinv).
    - apply (i_pq _ _ _ Hinv).
    - apply (i_ptr _ _ _ Hinv).
    - apply (i_comp _ _ _ Hinv).
    - apply (i_tr _ _ _ Hinv).
    - apply (i_disp _ _ _ Hinv).
    - apply (i_disp_nodup _ _ _ Hinv).
    - intros t' Ht'. destruct (i_completed _ _ _ Hinv _ Ht') as [? ?]. split; [by apply Hfin'|done].
    - (* i_fin_disp *) intros t' Ht'.
      assert (t' ∈ finished s ∨ (last = true ∧ t' = t)) as [Hold|[El ->]] by (destruct last; set_solver).
      + destruct (i_fin_disp _ _ _ Hinv _ Hold) as [? Hn]. split; [done|].
        intros w' Hw'. apply Hwq' in Hw' as [Hw' _]. by eapply Hn.
      + split; [apply elem_of_list_fmap; by exists (w, t)|].
        intros w' Hw'. apply Hwq' in Hw' as [Hw' Hl]. apply (Hl El). by apply Huniq.
    - (* i_prep *) intros d' h' Hs Hp. destruct (i_prep _ _ _ Hinv _ _ Hs Hp) as [Hst|[Hx|(w' & Hw' & Hh' & Hd' & Hnp')]].
      + left. by apply Hstore'.
      + right. by left.
      + destruct (decide (d' = (t, i))) as [->|Hne].
        * left. assert (w' = w) as -> by (by apply Huniq). assert (h' = h) as -> by congruence. set_solver.
        * right. right. exists w'. split.
          -- destruct last eqn:El; [|done]. rewrite lookup_delete_ne; [done|]. intros <-.
             (* w finishes t with (t, i) = last_out; d' is another unpublished output of t: impossible *)
             assert (d'.1 = t) as Hd1' by congruence. pose proof (Hlast eq_refl) as Elo.
             apply outs_spec in Hd' as [_ Hlt]. rewrite Hd1' in Hlt.
             apply Hnp'. apply Hprefix; [apply outs_spec; by rewrite Hd1'|].
             unfold last_out in Elo. injection Elo as Ei. destruct d' as [a b]. simpl in *. subst a.
             assert (b ≠ i) by (intros ->; by apply Hne). lia.
          -- split; [done|]. split; [done|]. set_solver.
    - (* i_xfer *) intros d' src tgt Hx. destruct (i_xfer _ _ _ Hinv _ _ _ Hx) as (Hp & Hq & Hsrc & Htgt & Hns & w' & t' & Hw' & Hh' & Hd').
      repeat split; try done.
      + intros Hin. apply elem_of_union in Hin as [Hin|Hin]; [|done].
        apply elem_of_singleton in Hin as [= -> ->].
        pose proof (i_avail_store _ _ _ Hinv _ _ Hsrc Hp) as Hst. by apply Hnp, (i_store_pub _ _ _ Hinv src).
      + exists w', t'. split; [|done]. destruct last eqn:El; [|done].
        rewrite lookup_delete_ne; [done|]. intros <-. assert (t' = t) as -> by congruence. assert (tgt = h) as -> by congruence.
        apply Hns. by apply Hins.
    - apply (i_xfer_nodup _ _ _ Hinv).
    - (* i_inputs *) intros w' t' h' Hw' Hh' d' Hd'. apply Hwq' in Hw' as [Hw' _].
      destruct (i_inputs _ _ _ Hinv _ _ _ Hw' Hh' _ Hd') as [?|?]; [left; by apply Hstore'|by right].
    - apply (i_fq _ _ _ Hinv).
    - intros d' src Hf. destruct (i_fetch _ _ _ Hinv _ _ Hf) as (? & ? & ? & ? & Hn). repeat split; try done.
      by rewrite pay_ds_snoc_pub.
    - apply (i_fetch_nodup _ _ _ Hinv).
    - intros d' v Hin. apply elem_of_app in Hin as [Hin|Hin]; [by apply (i_pay _ _ _ Hinv)|by apply elem_of_list_singleton in Hin].
    - rewrite pay_ds_snoc_pub. apply (i_pay_nodup _ _ _ Hinv).
    - intros d' v Ho. destruct (i_out _ _ _ Hinv _ _ Ho) as (? & ? & ? & ? & ?). repeat split; try done.
      by rewrite pay_ds_snoc_pub.
    - apply (i_phase _ _ _ Hinv).
    - (* i_pub_ev *) intros d' Hd'. rewrite pub_ds_snoc_pub. apply elem_of_union in Hd' as [Hd'|Hd'].
      + apply elem_of_singleton in Hd' as ->. right. apply elem_of_app. right. by apply elem_of_list_singleton.
      + destruct (i_pub_ev _ _ _ Hinv _ Hd') as [?|?]; [by left|right; apply elem_of_app; by left].
    - (* i_fin_pub *) intros t' Ht'.
      assert (t' ∈ finished s ∨ (last = true ∧ t' = t)) as [Hold|[El ->]] by (destruct last; set_solver).
      + intros x Hx. by apply Hpub', (i_fin_pub _ _ _ Hinv t').
      + pose proof (Hlast El) as Elo. intros x Hx. destruct (decide (x = (t, i))) as [->|Hne]; [set_solver|].
        apply Hpub', Hprefix; [done|]. apply outs_spec in Hx as [Hx1 Hx2].
        unfold last_out in Elo. injection Elo as Ei. destruct x as [a b]. simpl in *. subst a.
        assert (b ≠ i) by (intros ->; by apply Hne). lia.
    - (* i_published *) intros d' Hd'. apply elem_of_union in Hd' as [Hd'|Hd'].
      + apply elem_of_singleton in Hd' as ->. simpl. split; [done|]. split; [done|].
        destruct last eqn:El; simpl; [left; set_solver|right; eauto].
      + destruct (i_published _ _ _ Hinv _ Hd') as (? & ? & Hcase). split; [done|]. split; [done|].
        destruct Hcase as [Hf|[w' Hw']].
        * left. by apply Hfin'.
        * destruct last eqn:El; simpl; [|right; eauto]. destruct (decide (w' = w)) as [->|Hne].
          -- left. assert (d'.1 = t) as -> by congruence. set_solver.
          -- right. exists w'. by rewrite lookup_delete_ne.
    - (* i_running *) intros w' t' Hw'. apply Hwq' in Hw' as [Hw' Hl]. intros Hin.
      apply elem_of_union in Hin as [Hin|Hin]; [|by apply (i_running _ _ _ Hinv _ _ Hw')].
      apply elem_of_singleton in Hin. unfold last_out in Hin. injection Hin as Ht Hi. subst t'.
      assert (w' = w) as -> by (by apply Huniq).
      apply (Hl (Hnlast ltac:(unfold last_out; by rewrite Hi)) eq_refl).
    - apply (i_seen_ext _ _ _ Hinv).
    - intros d' Hd'. rewrite pay_ds_snoc_pub. by apply (i_fetched _ _ _ Hinv).
  Qed.

  Lemma pub_ds_snoc_x l h d : pub_ds (l ++ [EXfer h d]) = pub_ds l.
  Proof. rewrite pub_ds_app. simpl. by rewrite app_nil_r. Qed.
  Lemma pay_ds_snoc_x l h d : pay_ds (l ++ [EXfer h d]) = pay_ds l.
  Proof. rewrite pay_ds_app. simpl. by rewrite app_nil_r. Qed.
  Lemma pub_ds_snoc_p l d v : pub_ds (l ++ [EPay d v]) = pub_ds l.
  Proof. rewrite pub_ds_app. simpl. by rewrite app_nil_r. Qed.
  Lemma pay_ds_snoc_p l d v : pay_ds (l ++ [EPay d v]) = pay_ds l ++ [d].
  Proof. by rewrite pay_ds_app. Qed.

  (* a live (uncompleted) consumer keeps its inputs out of every purge *)
  Lemma live_not_purged s t d :
    Inv J E s → is_task J t → t ∉ completed (ctl s) → d ∈ ins J t →
    d ∉ purged (ctl s) ∧ d ∉ pqueue (ctl s).
  Proof.
    intros Hinv Ht Hc Hd. pose proof (i_ptr _ _ _ Hinv _ Ht Hc _ Hd) as Hp.
    assert (d ∉ purged (ctl s) ∪ pqueue (ctl s)) as Hn; [|set_solver].
    intros Hin. destruct (i_pq _ _ _ Hinv _ Hin) as (Hnone & _). unfold ptr in Hp. rewrite Hnone in Hp.
    simpl in Hp. set_solver.
  Qed.

  Lemma inv_xfer s d0 src tgt xs :
    Inv J E s → list_remove (d0, src, tgt) (xfers s) = Some xs → (src, d0) ∈ store s →
    Inv J E {| ctl := ctl s; store := {[(tgt, d0)]} ∪ store s; wq := wq s; xfers := xs;
               fetches := fetches s; purges := purges s; pool := pool s ++ [EXfer tgt d0];
               dispatched := dispatched s; finished := finished s; published := published s |}.
  Proof.
    intros Hinv Hrm Hsrc.
    pose proof (list_remove_in _ _ _ Hrm) as Hx.
    destruct (i_xfer _ _ _ Hinv _ _ _ Hx) as (Hp0 & Hq0 & Hs0 & Ht0 & Hns0 & w0 & t0 & Hw0 & Hh0 & Hd0).
    pose proof (i_xfer_nodup _ _ _ Hinv) as Hnd.
    rewrite (list_remove_fmap_perm _ _ _ _ Hrm) in Hnd. simpl in Hnd. apply NoDup_cons in Hnd as [Hfresh Hnd'].
    assert (Hsub : ∀ y, y ∈ xs → y ∈ xfers s) by (intros y Hy; rewrite (list_remove_elem _ _ _ y Hrm); auto).
    constructor; simpl.
    - apply (i_idle _ _ _ Hinv).
    - apply (i_wq _ _ _ Hinv).
    - apply (i_wq_outs _ _ _ Hinv).
    - intros w t Ho. destruct (i_ong _ _ _ Hinv _ _ Ho) as (? & ? & ? & ? & [?|[? ?]]); repeat split; auto.
      right. split; [done|]. apply elem_of_app. by left.
    - intros w d Hin. apply elem_of_app in Hin as [Hin|Hin]; [|by apply elem_of_list_singleton in Hin].
      destruct (i_pub _ _ _ Hinv _ _ Hin) as (? & ? & ? & ? & h' & ? & Hst).
      split; [done|]. split; [done|]. split; [done|]. split; [done|].
      exists h'. split; [done|]. intros Hp. set_solver.
    - rewrite pub_ds_snoc_x. apply (i_pub_nodup _ _ _ Hinv).
    - intros h d Hin. apply elem_of_app in Hin as [Hin|Hin].
      + destruct (i_xev _ _ _ Hinv _ _ Hin) as [? Hst]. split; [done|]. intros Hp. set_solver.
      + apply elem_of_list_singleton in Hin as [= -> ->]. split; [by apply (i_store_pub _ _ _ Hinv src)|set_solver].
    - intros h d Hin. apply elem_of_union in Hin as [Hin|Hin]; [|by apply (i_store_pub _ _ _ Hinv h)].
      apply elem_of_singleton in Hin as [= -> ->]. by apply (i_store_pub _ _ _ Hinv src).
    - intros h d Hin Hp. apply elem_of_union in Hin as [Hin|Hin]; [|by apply (i_store_h2d _ _ _ Hinv)].
      apply elem_of_singleton in Hin as [= -> ->]. done.
    - intros d h Hd Hp. pose proof (i_avail_store _ _ _ Hinv _ _ Hd Hp). set_solver.
    - apply (i_seen_avail _ _ _ Hinv).
    - apply (i_seen_pub _ _ _ Hinv).
    - apply (i_purges _ _ _ Hinv).
    - apply (i_pq _ _ _ Hinv).
    - apply (i_ptr _ _ _ Hinv).
    - apply (i_comp _ _ _ Hinv).
    - apply (i_tr _ _ _ Hinv).
    - apply (i_disp _ _ _ Hinv).
    - apply (i_disp_nodup _ _ _ Hinv).
    - apply (i_completed _ _ _ Hinv).
    - apply (i_fin_disp _ _ _ Hinv).
    - intros d h Hs Hp. destruct (i_prep _ _ _ Hinv _ _ Hs Hp) as [Hst|[[src' Hx']|Hw]].
      + left. set_solver.
      + rewrite (list_remove_elem _ _ _ _ Hrm) in Hx'. destruct Hx' as [[= -> -> ->]|Hx'].
        * left. set_solver.
        * right. left. eauto.
      + right. by right.
    - intros d src' tgt' Hy. destruct (i_xfer _ _ _ Hinv _ _ _ (Hsub _ Hy)) as (? & ? & ? & ? & Hns & Hw).
      repeat split; try done. intros Hin. apply elem_of_union in Hin as [Hin|Hin]; [|done].
      apply elem_of_singleton in Hin as [= -> ->]. apply Hfresh.
      apply elem_of_list_fmap. by exists (d0, src', tgt).
    - done.
    - intros w t h Hw Hh d Hd. destruct (i_inputs _ _ _ Hinv _ _ _ Hw Hh _ Hd) as [?|[src' Hx']]; [left; set_solver|].
      rewrite (list_remove_elem _ _ _ _ Hrm) in Hx'. destruct Hx' as [[= -> -> ->]|Hx']; [left; set_solver|right; eauto].
    - apply (i_fq _ _ _ Hinv).
    - intros d src' Hf. rewrite pay_ds_snoc_x. by apply (i_fetch _ _ _ Hinv _ src').
    - apply (i_fetch_nodup _ _ _ Hinv).
    - intros d v Hin. apply elem_of_app in Hin as [Hin|Hin]; [by apply (i_pay _ _ _ Hinv)|by apply elem_of_list_singleton in Hin].
    - rewrite pay_ds_snoc_x. apply (i_pay_nodup _ _ _ Hinv).
    - intros d v Ho. rewrite pay_ds_snoc_x. by apply (i_out _ _ _ Hinv).
    - apply (i_phase _ _ _ Hinv).
    - intros d Hd. rewrite pub_ds_snoc_x. by apply (i_pub_ev _ _ _ Hinv).
    - apply (i_fin_pub _ _ _ Hinv).
    - apply (i_published _ _ _ Hinv).
    - apply (i_running _ _ _ Hinv).
    - apply (i_seen_ext _ _ _ Hinv).
    - intros d Hd. rewrite pay_ds_snoc_x. by apply (i_fetched _ _ _ Hinv).
  Qed.

  Lemma inv_fetch s d0 src fs :
    Inv J E s → list_remove (d0, src) (fetches s) = Some fs →
    Inv J E {| ctl := ctl s; store := store s; wq := wq s; xfers := xfers s; fetches := fs;
               purges := purges s; pool := pool s ++ [EPay d0 (if bool_decide (d0 ∈ j_none J) then None else Some d0)];
               dispatched := dispatched s; finished := finished s; published := published s |}.
  Proof.
    intros Hinv Hrm.
    pose proof (list_remove_in _ _ _ Hrm) as Hx.
    destruct (i_fetch _ _ _ Hinv _ _ Hx) as (He0 & Ho0 & Hf0 & Hs0 & Hnp0).
    pose proof (i_fetch_nodup _ _ _ Hinv) as Hnd.
    rewrite (list_remove_fmap_perm _ _ _ _ Hrm) in Hnd. simpl in Hnd. apply NoDup_cons in Hnd as [Hfresh Hnd'].
    assert (Hsub : ∀ y, y ∈ fs → y ∈ fetches s) by (intros y Hy; rewrite (list_remove_elem _ _ _ y Hrm); auto).
    constructor; simpl.
    - apply (i_idle _ _ _ Hinv).
    - apply (i_wq _ _ _ Hinv).
    - apply (i_wq_outs _ _ _ Hinv).
    - intros w t Ho. destruct (i_ong _ _ _ Hinv _ _ Ho) as (? & ? & ? & ? & [?|[? ?]]); repeat split; auto.
      right. split; [done|]. apply elem_of_app. by left.
    - intros w d Hin. apply elem_of_app in Hin as [Hin|Hin]; [|by apply elem_of_list_singleton in Hin].
      by apply (i_pub _ _ _ Hinv).
    - rewrite pub_ds_snoc_p. apply (i_pub_nodup _ _ _ Hinv).
    - intros h d Hin. apply elem_of_app in Hin as [Hin|Hin]; [|by apply elem_of_list_singleton in Hin].
      by apply (i_xev _ _ _ Hinv).
    - apply (i_store_pub _ _ _ Hinv).
    - apply (i_store_h2d _ _ _ Hinv).
    - apply (i_avail_store _ _ _ Hinv).
    - apply (i_seen_avail _ _ _ Hinv).
    - apply (i_seen_pub _ _ _ Hinv).
    - apply (i_purges _ _ _ Hinv).
    - apply (i_pq _ _ _ Hinv).
    - apply (i_ptr _ _ _ Hinv).
    - apply (i_comp _ _ _ Hinv).
    - apply (i_tr _ _ _ Hinv).
    - apply (i_disp _ _ _ Hinv).
    - apply (i_disp_nodup _ _ _ Hinv).
    - apply (i_completed _ _ _ Hinv).
    - apply (i_fin_disp _ _ _ Hinv).
    - apply (i_prep _ _ _ Hinv).
    - apply (i_xfer _ _ _ Hinv).
    - apply (i_xfer_nodup _ _ _ Hinv).
    - apply (i_inputs _ _ _ Hinv).
    - apply (i_fq _ _ _ Hinv).
    - intros d src' Hy. destruct (i_fetch _ _ _ Hinv _ _ (Hsub _ Hy)) as (? & ? & ? & ? & Hnp). repeat split; try done.
      rewrite pay_ds_snoc_p. intros Hin. apply elem_of_app in Hin as [Hin|Hin]; [done|].
      apply elem_of_list_singleton in Hin as ->. apply Hfresh. apply elem_of_list_fmap. by exists (d0, src').
    - done.
    - intros d v Hin. apply elem_of_app in Hin as [Hin|Hin]; [by apply (i_pay _ _ _ Hinv)|].
      apply elem_of_list_singleton in Hin as [= -> ->]. done.
    - rewrite pay_ds_snoc_p. apply NoDup_app. split; [apply (i_pay_nodup _ _ _ Hinv)|]. split; [|apply NoDup_singleton].
      intros d Hd Hd'. apply elem_of_list_singleton in Hd' as ->. done.
    - intros d v Ho. destruct (i_out _ _ _ Hinv _ _ Ho) as (? & ? & Hnf & Hnp & ?). repeat split; try done.
      + intros Hin. apply Hnf. apply elem_of_list_fmap in Hin as (y & -> & Hy). apply elem_of_list_fmap. exists y. auto.
      + rewrite pay_ds_snoc_p. intros Hin. apply elem_of_app in Hin as [Hin|Hin]; [done|].
        apply elem_of_list_singleton in Hin as ->. congruence.
    - apply (i_phase _ _ _ Hinv).
    - intros d Hd. rewrite pub_ds_snoc_p. by apply (i_pub_ev _ _ _ Hinv).
    - apply (i_fin_pub _ _ _ Hinv).
    - apply (i_published _ _ _ Hinv).
    - apply (i_running _ _ _ Hinv).
    - apply (i_seen_ext _ _ _ Hinv).
    - intros d Hd. rewrite pay_ds_snoc_p. destruct (i_fetched _ _ _ Hinv _ Hd) as [Hf|[?|?]].
      + apply elem_of_list_fmap in Hf as ([d1 s1] & -> & Hf). simpl. rewrite (list_remove_elem _ _ _ _ Hrm) in Hf.
        destruct Hf as [[= -> ->]|Hf].
        * right. left. apply elem_of_app. right. by apply elem_of_list_singleton.
        * left. apply elem_of_list_fmap. by exists (d1, s1).
      + right. left. apply elem_of_app. by left.
      + by right; right.
  Qed.

  Lemma inv_purge s h0 d0 ps :
    Inv J E s → list_remove (h0, d0) (purges s) = Some ps →
    Inv J E {| ctl := ctl s; store := store s ∖ {[(h0, d0)]}; wq := wq s; xfers := xfers s;
               fetches := fetches s; purges := ps; pool := pool s; dispatched := dispatched s;
               finished := finished s; published := published s |}.
  Proof.
    intros Hinv Hrm.
    pose proof (list_remove_in _ _ _ Hrm) as Hx.
    pose proof (i_purges _ _ _ Hinv _ _ Hx) as Hp0.
    assert (Hsub : ∀ y, y ∈ ps → y ∈ purges s) by (intros y Hy; rewrite (list_remove_elem _ _ _ y Hrm); auto).
    assert (Hkeep : ∀ h d, d ∉ purged (ctl s) → (h, d) ∈ store s → (h, d) ∈ store s ∖ {[(h0, d0)]}).
    { intros h d Hd Hin. apply elem_of_difference. split; [done|]. intros Heq. apply elem_of_singleton in Heq as [= -> ->]. done. }
    constructor; simpl.
    - apply (i_idle _ _ _ Hinv).
    - apply (i_wq _ _ _ Hinv).
    - apply (i_wq_outs _ _ _ Hinv).
    - apply (i_ong _ _ _ Hinv).
    - intros w d Hin. destruct (i_pub _ _ _ Hinv _ _ Hin) as (? & ? & ? & ? & h' & ? & Hst).
      split; [done|]. split; [done|]. split; [done|]. split; [done|].
      exists h'. split; [done|]. intros Hp. by apply Hkeep, Hst.
    - apply (i_pub_nodup _ _ _ Hinv).
    - intros h d Hin. destruct (i_xev _ _ _ Hinv _ _ Hin) as [? Hst]. split; [done|]. intros Hp. by apply Hkeep, Hst.
    - intros h d Hin. apply elem_of_difference in Hin as [Hin _]. by apply (i_store_pub _ _ _ Hinv h).
    - intros h d Hin. apply elem_of_difference in Hin as [Hin _]. by apply (i_store_h2d _ _ _ Hinv).
    - intros d h Hd Hp. apply Hkeep; [done|]. by apply (i_avail_store _ _ _ Hinv).
    - apply (i_seen_avail _ _ _ Hinv).
    - apply (i_seen_pub _ _ _ Hinv).
    - intros h d Hin. by apply (i_purges _ _ _ Hinv h), Hsub.
    - apply (i_pq _ _ _ Hinv).
    - apply (i_ptr _ _ _ Hinv).
    - apply (i_comp _ _ _ Hinv).
    - apply (i_tr _ _ _ Hinv).
    - apply (i_disp _ _ _ Hinv).
    - apply (i_disp_nodup _ _ _ Hinv).
    - apply (i_completed _ _ _ Hinv).
    - apply (i_fin_disp _ _ _ Hinv).
    - intros d h Hs Hp. destruct (i_prep _ _ _ Hinv _ _ Hs Hp) as [Hst|[?|?]]; [left; by apply Hkeep|right; by left|right; by right].
    - intros d src tgt Hy. destruct (i_xfer _ _ _ Hinv _ _ _ Hy) as (? & ? & ? & ? & Hns & Hw). repeat split; try done.
      intros Hin. apply elem_of_difference in Hin as [Hin _]. done.
    - apply (i_xfer_nodup _ _ _ Hinv).
    - intros w t h Hw Hh d Hd. destruct (i_inputs _ _ _ Hinv _ _ _ Hw Hh _ Hd) as [Hst|?]; [|by right].
      left. apply Hkeep; [|done]. destruct (i_wq _ _ _ Hinv _ _ Hw) as (_ & Ho & Ht & _).
      destruct (i_ong _ _ _ Hinv _ _ Ho) as (Hc & _). by destruct (live_not_purged s t d Hinv Ht Hc Hd).
    - apply (i_fq _ _ _ Hinv).
    - apply (i_fetch _ _ _ Hinv).
    - apply (i_fetch_nodup _ _ _ Hinv).
    - apply (i_pay _ _ _ Hinv).
    - apply (i_pay_nodup _ _ _ Hinv).
    - apply (i_out _ _ _ Hinv).
    - apply (i_phase _ _ _ Hinv).
    - apply (i_pub_ev _ _ _ Hinv).
    - apply (i_fin_pub _ _ _ Hinv).
    - apply (i_published _ _ _ Hinv).
    - apply (i_running _ _ _ Hinv).
    - apply (i_seen_ext _ _ _ Hinv).
    - apply (i_fetched _ _ _ Hinv).
  Qed.
End env_steps.
