(* From the job's edge list to the adjacency lists used by decompose / enrich, and the edge maps
   recorded in the Preschedule (views.py: dependants, param_source; graph.py: precompute). *)
From Coq Require Import List NArith ZArith Bool Lia Permutation Sorted.
From EKW Require Import Sched.Presched Sched.PreschedProofs Sched.PreschedEnrich.
Import ListNotations.

(* ------------------------------------------------------------------ dicts with any decidable key *)
Section GenDict.
  Context {K A : Type} (keqb : K -> K -> bool).
  Hypothesis Hk : forall a b, keqb a b = true <-> a = b.

  Lemma keqb_refl : forall a, keqb a a = true.
  Proof. intros a. apply Hk. reflexivity. Qed.

  Lemma keqb_neq : forall a b, a <> b -> keqb a b = false.
  Proof. intros a b H. destruct (keqb a b) eqn:E; [apply Hk in E; congruence|reflexivity]. Qed.

  Lemma g_lookup_dset_eq : forall k (v : A) m, lookup keqb k (dset keqb k v m) = Some v.
  Proof.
    intros k v m. induction m as [|[k' v'] r IH]; simpl; [rewrite keqb_refl; reflexivity|].
    destruct (keqb k k') eqn:E; simpl; [rewrite keqb_refl; reflexivity|rewrite E; exact IH].
  Qed.

  Lemma g_lookup_dset_neq : forall k k' (v : A) m, k <> k' -> lookup keqb k' (dset keqb k v m) = lookup keqb k' m.
  Proof.
    intros k k' v m Hne. assert (Hne' : k' <> k) by congruence. induction m as [|[k2 v2] r IH]; simpl.
    - rewrite (keqb_neq _ _ Hne'). reflexivity.
    - destruct (keqb k k2) eqn:E; simpl.
      + apply Hk in E. subst k2. rewrite (keqb_neq _ _ Hne'). reflexivity.
      + destruct (keqb k' k2); [reflexivity|exact IH].
  Qed.

  Lemma g_lookup_In : forall k m (v : A), lookup keqb k m = Some v -> In (k, v) m.
  Proof.
    intros k m v. induction m as [|[k' v'] r IH]; simpl; [discriminate|].
    destruct (keqb k k') eqn:E; [apply Hk in E; intros H; inversion H; subst; tauto|intros H; right; exact (IH H)].
  Qed.

  Lemma g_In_dset : forall p k (v : A) m, In p (dset keqb k v m) -> p = (k, v) \/ In p m.
  Proof.
    intros p k v m. induction m as [|[k' v'] r IH]; simpl; [intuition|].
    destruct (keqb k k'); simpl; intuition.
  Qed.
End GenDict.

Definition getd {K V : Type} (keqb : K -> K -> bool) (m : list (K * list V)) (k : K) : list V :=
  match lookup keqb k m with Some l => l | None => [] end.

Lemma getd_In : forall (K V : Type) (keqb : K -> K -> bool), (forall a b, keqb a b = true <-> a = b) ->
  forall (m : list (K * list V)) k x, In x (getd keqb m k) -> In (k, getd keqb m k) m.
Proof.
  intros K V keqb Hk m k x. unfold getd. destruct (lookup keqb k m) as [l|] eqn:E; [|intros []].
  intros _. exact (g_lookup_In keqb Hk _ _ _ E).
Qed.

Lemma getd_dset_eq : forall (K V : Type) (keqb : K -> K -> bool), (forall a b, keqb a b = true <-> a = b) ->
  forall (m : list (K * list V)) k l, getd keqb (dset keqb k l m) k = l.
Proof. intros. unfold getd. rewrite g_lookup_dset_eq by assumption. reflexivity. Qed.

Lemma getd_dset_neq : forall (K V : Type) (keqb : K -> K -> bool), (forall a b, keqb a b = true <-> a = b) ->
  forall (m : list (K * list V)) k k' l, k <> k' -> getd keqb (dset keqb k l m) k' = getd keqb m k'.
Proof. intros. unfold getd. rewrite g_lookup_dset_neq by assumption. reflexivity. Qed.

Lemma Neqb_spec : forall a b, N.eqb a b = true <-> a = b.
Proof. exact N.eqb_eq. Qed.

Lemma ds_eqb_spec : forall a b, ds_eqb a b = true <-> a = b.
Proof.
  intros [a1 a2] [b1 b2]. unfold ds_eqb. simpl. rewrite andb_true_iff, !N.eqb_eq. split; [intros [? ?]; subst; reflexivity|intros H; inversion H; tauto].
Qed.

Lemma slot_eqb_spec : forall a b, slot_eqb a b = true <-> a = b.
Proof.
  intros [a1 a2] [b1 b2]. unfold slot_eqb. simpl. rewrite andb_true_iff, N.eqb_eq, Bool.eqb_true_iff.
  split; [intros [? ?]; subst; reflexivity|intros H; inversion H; tauto].
Qed.

Lemma ds_dec : forall a b : ds, {a = b} + {a <> b}.
Proof. decide equality; apply N.eq_dec. Qed.

(* ------------------------------------------------------------------ sets *)
Lemma sadd_In : forall x y l, In x (sadd y l) <-> x = y \/ In x l.
Proof.
  intros x y l. unfold sadd. destruct (mem y l) eqn:E.
  - apply mem_In in E. split; [tauto|]. intros [H|H]; [subst; exact E|exact H].
  - rewrite in_app_iff. simpl. intuition.
Qed.

Lemma sunion_In : forall x r l, In x (sunion l r) <-> In x l \/ In x r.
Proof.
  intros x r. unfold sunion. induction r as [|y r IH]; intros l; simpl; [tauto|].
  rewrite IH, sadd_In. intuition.
Qed.

Lemma dsmem_In : forall x l, dsmem x l = true <-> In x l.
Proof.
  intros x l. unfold dsmem. rewrite existsb_exists. split.
  - intros [y [Hy He]]. apply ds_eqb_spec in He. subst. exact Hy.
  - intros H. exists x. split; [exact H|apply ds_eqb_spec; reflexivity].
Qed.

Lemma dsadd_In : forall x y l, In x (dsadd y l) <-> x = y \/ In x l.
Proof.
  intros x y l. unfold dsadd. destruct (dsmem y l) eqn:E.
  - apply dsmem_In in E. split; [tauto|]. intros [H|H]; [subst; exact E|exact H].
  - rewrite in_app_iff. simpl. intuition.
Qed.

Lemma fold_dsadd_In : forall (S : Type) (l : list (S * ds)) acc d,
  In d (fold_left (fun acc sd => dsadd (snd sd) acc) l acc) <-> In d acc \/ exists s, In (s, d) l.
Proof.
  intros S. induction l as [|[s0 d0] r IH]; intros acc d; simpl.
  - split; [tauto|]. intros [H|[s []]]. exact H.
  - rewrite IH, dsadd_In. split.
    + intros [[H|H]|[s H]]; [subst; right; exists s0; tauto|tauto|right; exists s; tauto].
    + intros [H|[s [H|H]]]; [tauto|inversion H; subst; tauto|right; exists s; exact H].
Qed.

Lemma fold_sadd_fst_In : forall (l : list ds) acc a,
  In a (fold_left (fun acc d => sadd (fst d) acc) l acc) <-> In a acc \/ exists o, In (a, o) l.
Proof.
  induction l as [|[a0 o0] r IH]; intros acc a; simpl.
  - split; [tauto|]. intros [H|[o []]]. exact H.
  - rewrite IH, sadd_In. simpl. split.
    + intros [[H|H]|[o H]]; [subst; right; exists o0; tauto|tauto|right; exists o; tauto].
    + intros [H|[o [H|H]]]; [tauto|inversion H; subst; tauto|right; exists o; exact H].
Qed.

Lemma lookup_map_val : forall (A B : Type) (f : A -> B) t (m : list (N * A)),
  lookup N.eqb t (map (fun p => (fst p, f (snd p))) m) = option_map f (lookup N.eqb t m).
Proof.
  intros A B f t m. induction m as [|[k v] r IH]; simpl; [reflexivity|]. destruct (N.eqb t k); [reflexivity|exact IH].
Qed.

(* ------------------------------------------------------------------ dependants *)
Definition dep_step (rv : list (ds * list N)) (e : edge) : list (ds * list N) :=
  dset ds_eqb (e_ds e) (sadd (e_snk e) (getd ds_eqb rv (e_ds e))) rv.

Lemma dependants_fold : forall es, dependants es = fold_left dep_step es [].
Proof. reflexivity. Qed.

Lemma dep_get : forall es rv d t,
  In t (getd ds_eqb (fold_left dep_step es rv) d) <->
  In t (getd ds_eqb rv d) \/ exists e, In e es /\ e_ds e = d /\ e_snk e = t.
Proof.
  induction es as [|e r IH]; intros rv d t; simpl.
  - split; [tauto|]. intros [H|[e [[] _]]]. exact H.
  - rewrite IH. unfold dep_step. destruct (ds_dec (e_ds e) d) as [E|E].
    + subst d. rewrite (getd_dset_eq _ _ _ ds_eqb_spec), sadd_In. split.
      * intros [[H|H]|[e' [H1 H2]]]; [right; exists e; subst; tauto|tauto|right; exists e'; tauto].
      * intros [H|[e' [[H1|H1] [H2 H3]]]]; [tauto|subst e'; left; left; congruence|right; exists e'; tauto].
    + rewrite (getd_dset_neq _ _ _ ds_eqb_spec) by exact E. split.
      * intros [H|[e' [H1 H2]]]; [tauto|right; exists e'; tauto].
      * intros [H|[e' [[H1|H1] [H2 H3]]]]; [tauto|subst e'; congruence|right; exists e'; tauto].
Qed.

Lemma dep_entries : forall (P : ds -> N -> Prop) es rv,
  (forall d outs t, In (d, outs) rv -> In t outs -> P d t) ->
  (forall e, In e es -> P (e_ds e) (e_snk e)) ->
  forall d outs t, In (d, outs) (fold_left dep_step es rv) -> In t outs -> P d t.
Proof.
  intros P. induction es as [|e r IH]; intros rv Hrv Hes; simpl; [exact Hrv|].
  apply IH; [|intros e' He'; apply Hes; simpl; tauto].
  intros d outs t Hin Ht. unfold dep_step in Hin. apply g_In_dset in Hin. destruct Hin as [Hin|Hin]; [|exact (Hrv d outs t Hin Ht)].
  inversion Hin; subst d outs. clear Hin. apply sadd_In in Ht. destruct Ht as [Ht|Ht].
  - subst t. apply Hes. simpl. tauto.
  - eapply Hrv; [|exact Ht]. exact (getd_In _ _ _ ds_eqb_spec _ _ _ Ht).
Qed.

(* ------------------------------------------------------------------ edge_o_proj *)
Definition proj_step (proj : list (N * list N)) (p : ds * list N) : list (N * list N) :=
  dset N.eqb (fst (fst p)) (sunion (adj proj (fst (fst p))) (snd p)) proj.

Lemma adj_getd : forall m t, adj m t = getd N.eqb m t.
Proof. reflexivity. Qed.

Lemma proj_adj : forall entries proj a b,
  In b (adj (fold_left proj_step entries proj) a) <->
  In b (adj proj a) \/ exists p, In p entries /\ fst (fst p) = a /\ In b (snd p).
Proof.
  induction entries as [|p r IH]; intros proj a b; simpl.
  - split; [tauto|]. intros [H|[p [[] _]]]. exact H.
  - rewrite IH. unfold proj_step. rewrite !adj_getd. destruct (N.eq_dec (fst (fst p)) a) as [E|E].
    + rewrite E. rewrite (getd_dset_eq _ _ _ Neqb_spec), sunion_In. split.
      * intros [[H|H]|[p' [H1 H2]]]; [tauto|right; exists p; tauto|right; exists p'; tauto].
      * intros [H|[p' [[H1|H1] [H2 H3]]]]; [tauto|subst p'; tauto|right; exists p'; tauto].
    + rewrite (getd_dset_neq _ _ _ Neqb_spec) by exact E. split.
      * intros [H|[p' [H1 H2]]]; [tauto|right; exists p'; tauto].
      * intros [H|[p' [[H1|H1] [H2 H3]]]]; [tauto|subst p'; tauto|right; exists p'; tauto].
Qed.

Lemma eop_spec : forall es a b,
  In b (adj (edge_o_proj (dependants es)) a) <-> exists e, In e es /\ e_src e = a /\ e_snk e = b.
Proof.
  intros es a b. unfold edge_o_proj. change (fold_left _ (dependants es) []) with (fold_left proj_step (dependants es) []).
  rewrite proj_adj. split.
  - intros [[]|[[d outs] [Hp [Ha Hb]]]]. simpl in Ha, Hb.
    rewrite dependants_fold in Hp.
    destruct (dep_entries (fun d t => exists e, In e es /\ e_ds e = d /\ e_snk e = t) es [] ) with (d := d) (outs := outs) (t := b)
      as [e [He [Hd Ht]]]; [intros ? ? ? []|intros e He; exists e; tauto|exact Hp|exact Hb|].
    exists e. split; [exact He|]. split; [|exact Ht]. subst d. exact Ha.
  - intros [e [He [Ha Hb]]]. right. exists (e_ds e, getd ds_eqb (dependants es) (e_ds e)).
    assert (Hin : In b (getd ds_eqb (dependants es) (e_ds e))).
    { rewrite dependants_fold. apply dep_get. right. exists e. tauto. }
    split; [exact (getd_In _ _ _ ds_eqb_spec _ _ _ Hin)|]. simpl. tauto.
Qed.

(* ------------------------------------------------------------------ param_source *)
Definition slot_tot (e : edge) : slot :=
  match e_kw e with Some k => (true, k) | None => (false, match e_ps e with Some p => p | None => 0%N end) end.

Definition sk (e : edge) : N * slot := (e_snk e, slot_tot e).

Definition ps_step (rv : list (N * list (slot * ds))) (e : edge) : list (N * list (slot * ds)) :=
  dset N.eqb (e_snk e) (dset slot_eqb (slot_tot e) (e_ds e) (getd N.eqb rv (e_snk e))) rv.

Lemma param_source_ok : forall es,
  (forall e, In e es -> slot_of e = Ok (slot_tot e)) ->
  param_source es = Ok (fold_left ps_step es []).
Proof.
  intros es. unfold param_source. generalize (@nil (N * list (slot * ds))).
  induction es as [|e r IH]; intros rv H; simpl; [reflexivity|].
  rewrite (H e (or_introl eq_refl)). simpl. apply IH. intros e' He'. apply H. simpl. tauto.
Qed.

Lemma ps_sound : forall (P : N -> slot -> ds -> Prop) es rv,
  (forall t inner s d, In (t, inner) rv -> In (s, d) inner -> P t s d) ->
  (forall e, In e es -> P (e_snk e) (slot_tot e) (e_ds e)) ->
  forall t inner s d, In (t, inner) (fold_left ps_step es rv) -> In (s, d) inner -> P t s d.
Proof.
  intros P. induction es as [|e r IH]; intros rv Hrv Hes; simpl; [exact Hrv|].
  apply IH; [|intros e' He'; apply Hes; simpl; tauto].
  intros t inner s d Hin Hsd. unfold ps_step in Hin. apply g_In_dset in Hin. destruct Hin as [Hin|Hin]; [|exact (Hrv t inner s d Hin Hsd)].
  inversion Hin; subst t inner. clear Hin. apply g_In_dset in Hsd. destruct Hsd as [Hsd|Hsd].
  - inversion Hsd; subst s d. apply Hes. simpl. tauto.
  - eapply Hrv; [|exact Hsd]. exact (getd_In _ _ _ Neqb_spec _ _ _ Hsd).
Qed.

Lemma ps_preserve : forall es rv t s d,
  lookup slot_eqb s (getd N.eqb rv t) = Some d -> ~ In (t, s) (map sk es) ->
  lookup slot_eqb s (getd N.eqb (fold_left ps_step es rv) t) = Some d.
Proof.
  induction es as [|e r IH]; intros rv t s d Hl Hn; simpl; [exact Hl|].
  simpl in Hn. apply IH; [|tauto]. unfold ps_step. destruct (N.eq_dec (e_snk e) t) as [E|E].
  - rewrite E. rewrite (getd_dset_eq _ _ _ Neqb_spec). rewrite (g_lookup_dset_neq _ slot_eqb_spec); [exact Hl|].
    intros Es. apply Hn. left. unfold sk. congruence.
  - rewrite (getd_dset_neq _ _ _ Neqb_spec) by exact E. exact Hl.
Qed.

Lemma ps_complete : forall es rv e,
  NoDup (map sk es) -> In e es ->
  lookup slot_eqb (slot_tot e) (getd N.eqb (fold_left ps_step es rv) (e_snk e)) = Some (e_ds e).
Proof.
  induction es as [|e0 r IH]; intros rv e Hnd He; [destruct He|]. simpl in Hnd. inversion Hnd as [|? ? Hn0 Hnd']; subst.
  simpl. destruct He as [He|He].
  - subst e0. apply ps_preserve; [|exact Hn0]. unfold ps_step. rewrite (getd_dset_eq _ _ _ Neqb_spec).
    apply (g_lookup_dset_eq _ slot_eqb_spec).
  - apply IH; assumption.
Qed.

Lemma edge_i_of_getd : forall ps t,
  getd N.eqb (edge_i_of ps) t = fold_left (fun acc (sd : slot * ds) => dsadd (snd sd) acc) (getd N.eqb ps t) [].
Proof.
  intros ps t. unfold getd, edge_i_of. induction ps as [|[k v] r IH]; simpl; [reflexivity|].
  destruct (N.eqb t k); [reflexivity|exact IH].
Qed.

Lemma edge_i_proj_adj : forall (edge_i : list (N * list ds)) t,
  adj (edge_i_proj edge_i) t = fold_left (fun acc (d : ds) => sadd (fst d) acc) (getd N.eqb edge_i t) [].
Proof.
  intros edge_i t. unfold adj, getd, edge_i_proj. induction edge_i as [|[k v] r IH]; simpl; [reflexivity|].
  destruct (N.eqb t k); [reflexivity|exact IH].
Qed.

Lemma edge_i_spec : forall es t d,
  NoDup (map sk es) ->
  (In d (getd N.eqb (edge_i_of (fold_left ps_step es [])) t) <-> exists e, In e es /\ e_snk e = t /\ e_ds e = d).
Proof.
  intros es t d Hnd. rewrite edge_i_of_getd, fold_dsadd_In. split.
  - intros [[]|[s Hs]]. pose proof (getd_In _ _ _ Neqb_spec _ _ _ Hs) as El.
    destruct (ps_sound (fun t s d => exists e, In e es /\ e_snk e = t /\ e_ds e = d) es []) with (t := t) (inner := getd N.eqb (fold_left ps_step es []) t) (s := s) (d := d)
      as [e He]; [intros ? ? ? ? []|intros e He; exists e; tauto|exact El|exact Hs|]. exists e. exact He.
  - intros [e [He [Ht Hd]]]. right. exists (slot_tot e). pose proof (ps_complete es [] e Hnd He) as Hc.
    rewrite Ht in Hc. rewrite <- Hd. exact (g_lookup_In _ slot_eqb_spec _ _ _ Hc).
Qed.

Lemma eip_spec : forall es b a,
  NoDup (map sk es) ->
  (In a (adj (edge_i_proj (edge_i_of (fold_left ps_step es []))) b) <-> exists e, In e es /\ e_src e = a /\ e_snk e = b).
Proof.
  intros es b a Hnd. rewrite edge_i_proj_adj, fold_sadd_fst_In. split.
  - intros [[]|[o Ho]]. apply (edge_i_spec es b (a, o) Hnd) in Ho. destruct Ho as [e [He [Hb Hd]]]. exists e. split; [exact He|]. split; [|exact Hb].
    unfold e_ds in Hd. congruence.
  - intros [e [He [Ha Hb]]]. right. exists (e_out e). apply (edge_i_spec es b (a, e_out e) Hnd). exists e. unfold e_ds. subst. tauto.
Qed.

(* ------------------------------------------------------------------ sort, res_map *)
Lemma insert_desc_perm : forall x l, Permutation (insert_desc x l) (x :: l).
Proof.
  intros x l. induction l as [|y r IH]; simpl; [apply Permutation_refl|].
  destruct (Nat.ltb (weight x) (weight y)); [|apply Permutation_refl].
  eapply Permutation_trans; [apply perm_skip; exact IH|apply perm_swap].
Qed.

Lemma sort_desc_perm : forall l, Permutation (sort_desc l) l.
Proof.
  induction l as [|x r IH]; simpl; [constructor|].
  eapply Permutation_trans; [apply insert_desc_perm|apply perm_skip; exact IH].
Qed.

Definition heavier (a b : core) : Prop := (weight b <= weight a)%nat.

Lemma insert_desc_sorted : forall x l, StronglySorted heavier l -> StronglySorted heavier (insert_desc x l).
Proof.
  intros x l H. induction H as [|y r Hr IH Hall]; simpl; [repeat constructor|].
  destruct (Nat.ltb (weight x) (weight y)) eqn:E.
  - apply Nat.ltb_lt in E. constructor; [exact IH|].
    rewrite Forall_forall in *. intros z Hz. apply (Permutation_in _ (insert_desc_perm x r)) in Hz.
    destruct Hz as [Hz|Hz]; [subst; unfold heavier; lia|exact (Hall z Hz)].
  - apply Nat.ltb_ge in E. constructor; [constructor; assumption|].
    constructor; [unfold heavier; lia|]. rewrite Forall_forall in *. intros z Hz. specialize (Hall z Hz). unfold heavier in *. lia.
Qed.

Lemma sort_desc_sorted : forall l, StronglySorted heavier (sort_desc l).
Proof. induction l as [|x r IH]; simpl; [constructor|apply insert_desc_sorted; exact IH]. Qed.

Lemma res_map_spec : forall (A B : Type) (f : A -> res B) l l',
  res_map f l = Ok l' -> Forall2 (fun x y => f x = Ok y) l l'.
Proof.
  intros A B f. induction l as [|x r IH]; intros l' H; simpl in H.
  - inversion H. constructor.
  - destruct (f x) as [y|e] eqn:Ef; [|discriminate]. simpl in H.
    destruct (res_map f r) as [ys|e] eqn:Er; [|discriminate]. simpl in H. inversion H; subst. constructor; [exact Ef|apply IH; reflexivity].
Qed.

Lemma Forall2_In_r : forall (A B : Type) (R : A -> B -> Prop) l l' y, Forall2 R l l' -> In y l' -> exists x, In x l /\ R x y.
Proof.
  intros A B R l l' y H. induction H as [|x y' l l' Hxy _ IH]; intros Hy; [destruct Hy|].
  destruct Hy as [Hy|Hy]; [subst; exists x; simpl; tauto|]. destruct (IH Hy) as [x' [Hx' Hr]]. exists x'. simpl. tauto.
Qed.

Lemma Forall2_keys : forall (B : Type) (f : N -> res (N * B)) l l',
  Forall2 (fun a e => f a = Ok e) l l' -> (forall a e, In a l -> f a = Ok e -> fst e = a) -> map fst l' = l.
Proof.
  intros B f l l' H. induction H as [|a e l l' Hae _ IH]; intros Hk; [reflexivity|]. simpl.
  rewrite (Hk a e (or_introl eq_refl) Hae), IH; [reflexivity|]. intros a' e' Ha'. apply Hk. simpl. tauto.
Qed.

Lemma sadd_NoDup : forall x l, NoDup l -> NoDup (sadd x l).
Proof.
  intros x l H. unfold sadd. destruct (mem x l) eqn:E; [exact H|]. apply mem_false in E.
  apply NoDup_app_intro; [exact H|constructor; [simpl; tauto|constructor]|]. intros y Hy [Hx|[]]. subst. tauto.
Qed.

Lemma edge_i_proj_NoDup : forall (edge_i : list (N * list ds)) t, NoDup (adj (edge_i_proj edge_i) t).
Proof.
  intros edge_i t. rewrite edge_i_proj_adj. generalize (getd N.eqb edge_i t). intros l.
  assert (H : forall acc, NoDup acc -> NoDup (fold_left (fun acc (d : ds) => sadd (fst d) acc) l acc)).
  { induction l as [|d r IH]; intros acc Hacc; simpl; [exact Hacc|]. apply IH. apply sadd_NoDup. exact Hacc. }
  apply H. constructor.
Qed.

Lemma sunion_NoDup : forall r l, NoDup l -> NoDup (sunion l r).
Proof.
  unfold sunion. induction r as [|x r IH]; intros l H; simpl; [exact H|]. apply IH. apply sadd_NoDup. exact H.
Qed.

Lemma edge_o_proj_NoDup : forall (edge_o : list (ds * list N)) t, NoDup (adj (edge_o_proj edge_o) t).
Proof.
  intros edge_o. unfold edge_o_proj. change (fold_left _ edge_o []) with (fold_left proj_step edge_o []).
  assert (H : forall entries proj, (forall t, NoDup (adj proj t)) -> forall t, NoDup (adj (fold_left proj_step entries proj) t)).
  { induction entries as [|p r IH]; intros proj Hp; simpl; [exact Hp|]. apply IH. intros t. unfold proj_step.
    set (k := fst (fst p)). set (l := sunion (adj proj k) (snd p)).
    change (NoDup (getd N.eqb (dset N.eqb k l proj) t)).
    destruct (N.eq_dec k t) as [E|E].
    - rewrite <- E. rewrite (getd_dset_eq _ _ _ Neqb_spec). apply sunion_NoDup. apply Hp.
    - rewrite (getd_dset_neq _ _ _ Neqb_spec) by exact E. exact (Hp t). }
  apply H. intros t. constructor.
Qed.
