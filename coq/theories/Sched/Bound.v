(* C03: the number of events the controller can ever be handed is bounded by the job and
   cluster alone, whatever the schedule; since every waiting round consumes at least one event,
   so is the number of waiting rounds.
   Ghost bookkeeping (not part of the model state): how many events were delivered, which
   datasets were ever published by a worker, which (dataset, host) pairs a transmit was ever
   commanded for.  Counting identity:
     delivered + |pool| + |unanswered transmits| + |unanswered fetches|
       = |published| + |transmit pairs| + |fetched|                                   *)
From stdpp Require Import gmap.
From Coq Require Import NArith String.
From EKW Require Import Sched.Model Sched.Lemmas Sched.Inv Sched.InvInit Sched.InvEnv Sched.InvCtl Sched.Safety.
Local Open Scope N_scope.

Record ghost := { g_delivered : nat; g_pub : gset ds; g_xf : gset (ds * host) }.
Definition g_init : ghost := {| g_delivered := 0; g_pub := ∅; g_xf := ∅ |}.

Definition ghost_step (J : job) (E : env) (g : ghost) (s : sys) (l : label) : ghost :=
  match l with
  | LDeliver _ => {| g_delivered := S (g_delivered g); g_pub := g_pub g; g_xf := g_xf g |}
  | LPublish w i => match wq s !! w with
                 | Some t => {| g_delivered := g_delivered g; g_pub := g_pub g ∪ {[(t, i)]}; g_xf := g_xf g |}
                 | None => g end
  | LAssign w t srcs => match e_host E !! w with
                        | Some h => {| g_delivered := g_delivered g; g_pub := g_pub g;
                                       g_xf := g_xf g ∪ list_to_set ((λ p : ds * host, (p.1, h)) <$> map_to_list srcs) |}
                        | None => g end
  | _ => g
  end.

Fixpoint grun (J : job) (E : env) (g : ghost) (s : sys) (ls : list label) : option (ghost * sys) :=
  match ls with
  | [] => Some (g, s)
  | l :: ls' => match exec J E s l with
                | Next (s', _) => grun J E (ghost_step J E g s l) s' ls'
                | _ => None
                end
  end.

Fixpoint deliveries (ls : list label) : nat :=
  match ls with
  | [] => 0
  | LDeliver _ :: ls' => S (deliveries ls')
  | _ :: ls' => deliveries ls'
  end.

Section bound.
  Context (J : job) (E : env).
  Hypothesis wf_nout : ∀ t, is_task J t → 1 ≤ nout J t.

  Definition all_outs : gset ds := map_fold (λ t _ acc, outs J t ∪ acc) ∅ (j_ins J).
  Definition hosts : gset host := map_fold (λ _ h acc, {[h]} ∪ acc) ∅ (e_host E).
  Definition pair_universe : gset (ds * host) :=
    set_fold (λ d acc, set_map (λ h, (d, h)) hosts ∪ acc) ∅ (all_ins J).

  Lemma all_outs_spec d : d ∈ all_outs ↔ ∃ t, is_task J t ∧ d ∈ outs J t.
  Proof.
    unfold all_outs, is_task.
    apply (map_fold_ind (λ acc m, d ∈ acc ↔ ∃ t, is_Some (m !! t) ∧ d ∈ outs J t)).
    - split; [set_solver|]. intros (t & [? H] & _). by rewrite lookup_empty in H.
    - intros t X m acc Hm IH. rewrite elem_of_union, IH. split.
      + intros [Hd|(t' & Ht' & Hd)]; [exists t; by rewrite lookup_insert|].
        exists t'. split; [|done]. destruct (decide (t = t')) as [->|?]; [by rewrite lookup_insert|by rewrite lookup_insert_ne].
      + intros (t' & Ht' & Hd). destruct (decide (t = t')) as [->|?]; [by left|]. right. exists t'.
        by rewrite lookup_insert_ne in Ht'.
  Qed.

  Lemma hosts_spec h : h ∈ hosts ↔ ∃ w, e_host E !! w = Some h.
  Proof.
    unfold hosts. apply (map_fold_ind (λ acc m, h ∈ acc ↔ ∃ w, m !! w = Some h)).
    - split; [set_solver|]. intros (w & H). by rewrite lookup_empty in H.
    - intros w h' m acc Hm IH. rewrite elem_of_union, elem_of_singleton, IH. split.
      + intros [->|(w' & Hw')]; [exists w; by rewrite lookup_insert|].
        exists w'. rewrite lookup_insert_ne; [done|]. intros ->. congruence.
      + intros (w' & Hw'). destruct (decide (w = w')) as [->|?].
        * rewrite lookup_insert in Hw'. left. congruence.
        * rewrite lookup_insert_ne in Hw' by done. eauto.
  Qed.

  Lemma pair_universe_spec d h : (d, h) ∈ pair_universe ↔ d ∈ all_ins J ∧ h ∈ hosts.
  Proof.
    unfold pair_universe.
    apply (set_fold_ind_L (λ acc X, (d, h) ∈ acc ↔ d ∈ X ∧ h ∈ hosts)).
    - set_solver.
    - intros d' X acc Hd' IH. rewrite elem_of_union, IH, elem_of_map. split.
      + intros [(h' & [= -> ->] & Hh)|[? ?]]; set_solver.
      + intros [Hd Hh]. apply elem_of_union in Hd as [Hd|Hd]; [|by right].
        apply elem_of_singleton in Hd as ->. left. eauto.
  Qed.

  Definition event_bound : nat := size all_outs + size pair_universe + size (j_ext J).

  Record GInv (g : ghost) (s : sys) : Prop := {
    g_count : (g_delivered g + List.length (pool s) + List.length (xfers s) + List.length (fetches s)
               = size (g_pub g) + size (g_xf g) + size (fetched (ctl s)))%nat;
    g_pub_fin : ∀ d, d ∈ g_pub g → d ∈ published s ∧ d ∈ all_outs;
    g_xf_ok : ∀ d h, (d, h) ∈ g_xf g →
              (d, h) ∈ pair_universe ∧ (d ∈ purged (ctl s) ∨ is_Some (ds2host (ctl s) !! (d, h)));
  }.

  Lemma ginv_init : GInv g_init (init J E).
  Proof. constructor; simpl; [reflexivity|set_solver|set_solver]. Qed.

  Lemma fetched_ext s d : Inv J E s → d ∈ fetched (ctl s) → d ∈ j_ext J.
  Proof.
    intros Hinv Hd. destruct (i_fetched _ _ _ Hinv _ Hd) as [Hf|[Hp|[v Ho]]].
    - apply elem_of_list_fmap in Hf as ([d' src] & -> & Hf). by destruct (i_fetch _ _ _ Hinv _ _ Hf) as (? & _).
    - apply elem_of_pay_ds in Hp as [v Hv]. by destruct (i_pay _ _ _ Hinv _ _ Hv) as (? & _).
    - by destruct (i_out _ _ _ Hinv _ _ Ho) as (? & _).
  Qed.

  Lemma size_outs t : size (outs J t) = List.length (outs_list J t).
  Proof. unfold outs. apply size_list_to_set, outs_list_nodup. Qed.

  Lemma length_remove {A : Type} `{EqDecision A} (x : A) l k : list_remove x l = Some k → List.length l = S (List.length k).
  Proof. intros H. apply list_remove_Some in H. by rewrite H. Qed.

  Theorem ginv_step g s l s' cs :
    Inv J E s → GInv g s → exec J E s l = Next (s', cs) → GInv (ghost_step J E g s l) s'.
  Proof.
    intros Hinv [Hc Hp Hx] Hex.
    destruct l as [w t srcs| |ev|w i|[[d src] tgt]|[d src]|[h d]]; simpl in Hex.
    - (* LAssign *)
      destruct (assign_c J E (ctl s) w t srcs) as [[c h]| |e|e] eqn:Ha; try done.
      case_bool_decide as Hwq; [done|]. injection Hex as <- <-.
      pose proof Ha as Ha'. unfold assign_c in Ha'. destruct (e_host E !! w) as [h'|] eqn:Hh; [|done].
      destruct (negb _) eqn:Hen in Ha'; [done|]. apply negb_false_iff in Hen.
      apply andb_prop in Hen as [Hen _]. apply andb_prop in Hen as [Htc Hwi]. apply bool_decide_eq_true in Htc, Hwi.
      case_bool_decide as Hnf; [done|].
      destruct (negb _) eqn:Hval in Ha'; [done|]. apply negb_false_iff in Hval.
      apply andb_prop in Hval as [Hdom Hsrc]. apply bool_decide_eq_true in Hdom, Hsrc.
      destruct (i_comp _ _ _ Hinv _ Htc) as (Htask & Hnc & _).
      assert (Hc' : ds2host c = ds2host (ctl s) ∪ prep_map h' (ins J t ∪ outs J t) ∧ purged c = purged (ctl s)
                    ∧ fetched c = fetched (ctl s) ∧ h = h').
      { destruct (ongoing (ctl s) !! w); [case_bool_decide; [done|]|]; by injection Ha' as <- <-. }
      destruct Hc' as (Ed & Ep & Ef & ->).
      assert (Hfresh : ∀ d, d ∈ dom srcs → d ∈ ins J t ∧ ds2host (ctl s) !! (d, h') = None ∧ d ∉ purged (ctl s)).
      { intros d Hd. rewrite Hdom in Hd. apply elem_of_filter in Hd as [Hn Hd]. split; [done|]. split; [done|].
        by destruct (live_not_purged J E wf_nout s t d Hinv Htask Hnc Hd). }
      unfold ghost_step. rewrite Hh. constructor; simpl.
      + rewrite app_length, fmap_length, Ef.
        rewrite size_union.
        * rewrite size_list_to_set, fmap_length; [lia|].
          apply NoDup_fmap_2_strong; [|apply NoDup_map_to_list].
          intros [d1 s1] [d2 s2] H1 H2 Heq. simpl in Heq. injection Heq as ->.
          apply elem_of_map_to_list in H1, H2. congruence.
        * intros [d hh] H1 H2. apply elem_of_list_to_set, elem_of_list_fmap in H2 as ([d' src'] & [= -> ->] & Hd').
          apply elem_of_map_to_list in Hd'. assert (d' ∈ dom srcs) as Hd'' by (apply elem_of_dom; eauto).
          destruct (Hfresh _ Hd'') as (_ & Hnone & Hnp). destruct (Hx _ _ H1) as (_ & [?|[? ?]]); [done|congruence].
      + intros d Hd. by apply Hp.
      + intros d hh Hin. rewrite Ed, Ep. apply elem_of_union in Hin as [Hin|Hin].
        * destruct (Hx _ _ Hin) as (? & [?|?]); split; auto. right. apply prep_union_is_Some. by left.
        * apply elem_of_list_to_set, elem_of_list_fmap in Hin as ([d' src'] & [= -> ->] & Hd').
          apply elem_of_map_to_list in Hd'. assert (d' ∈ dom srcs) as Hd'' by (apply elem_of_dom; eauto).
          destruct (Hfresh _ Hd'') as (Hi & _ & _). split.
          -- apply pair_universe_spec. split; [|apply hosts_spec; eauto].
             apply all_ins_spec. apply ins_spec in Hi as (X & HX & Hi). eauto.
          -- right. apply prep_union_is_Some. right. split; [set_solver|done].
    - (* LFlush *)
      destruct (flush_c J (ctl s)) as [[c fl] pl] eqn:Hf. injection Hex as <- <-.
      unfold flush_c in Hf. injection Hf as <- <- _. simpl. constructor; simpl.
      + assert (Hsz : size (dom (fqueue (ctl s))) = List.length (map_to_list (fqueue (ctl s)))) by (rewrite size_dom; reflexivity).
        rewrite app_length. rewrite size_union.
        * rewrite Hsz. lia.
        * intros d H1 H2. apply elem_of_dom in H2 as [h Hq]. by destruct (i_fq _ _ _ Hinv _ _ Hq) as (_ & _ & ? & _).
      + done.
      + intros d h Hin. destruct (Hx _ _ Hin) as (? & [?|Hs]); split; auto; [left; set_solver|].
        destruct (decide (d ∈ pqueue (ctl s) ∪ filter (λ d0, no_dependants (ptracker (ctl s)) d0 && not_required J (ctl s) d0 = true) (dom (fqueue (ctl s))))) as [Hq|Hq].
        * left. set_solver.
        * right. by apply drop_lookup_is_Some.
    - (* LDeliver *)
      destruct (list_remove ev (pool s)) as [ps|] eqn:Hrm; [|done].
      pose proof (length_remove _ _ _ Hrm) as Hlen.
      assert (∀ c, (match ev with EPub w d => match e_host E !! w with None => Crash "x" | Some h => if bool_decide (d = last_out J d.1) then complete_c J (publish_c J (ctl s) h d) w d.1 else Next (publish_c J (ctl s) h d) end | EXfer h d => Next (publish_c J (ctl s) h d) | EPay d v => Next c end) = Next c →
                   True) by done.
      destruct (notify J E (ctl s) ev) as [c| |e|e] eqn:Hn; try done. injection Hex as <- <-. simpl.
      assert (Hsame : fetched c = fetched (ctl s) ∧ purged c = purged (ctl s) ∧ ∀ k, is_Some (ds2host (ctl s) !! k) → is_Some (ds2host c !! k)).
      { destruct ev as [w d|h d|d v]; simpl in Hn.
        - destruct (e_host E !! w) as [h|]; [|done].
          destruct (publish_fields J (ctl s) h d) as (_&_&_&Ed&_&_&_&Efe&_&_&_&Epu).
          case_bool_decide.
          + unfold complete_c in Hn. case_bool_decide; [|done]. destruct (ongoing _ !! w); [|done]. case_bool_decide; [|done].
            injection Hn as <-. simpl. rewrite ?Efe, ?Epu, ?Ed. repeat split. intros k Hk. apply lookup_insert_is_Some'. by right.
          + injection Hn as <-. rewrite Efe, Epu, Ed. repeat split. intros k Hk. apply lookup_insert_is_Some'. by right.
        - injection Hn as <-. destruct (publish_fields J (ctl s) h d) as (_&_&_&Ed&_&_&_&Efe&_&_&_&Epu).
          rewrite Efe, Epu, Ed. repeat split. intros k Hk. apply lookup_insert_is_Some'. by right.
        - injection Hn as <-. done. }
      destruct Hsame as (Ef & Ep & Hmono). constructor; simpl.
      + rewrite Ef. lia.
      + done.
      + intros d h Hin. rewrite Ep. destruct (Hx _ _ Hin) as (? & [?|?]); split; auto.
    - (* LPublish *)
      destruct (wq s !! w) as [t|] eqn:Hw; [|done]. destruct (e_host E !! w) as [h|] eqn:Hh; [|done].
      destruct (negb _); [done|].
      match type of Hex with context [if negb ?b then _ else _] => destruct b eqn:Hcnd end; simpl in Hex; [|done].
      match type of Hex with context [if ?b then Fail _ else _] => destruct b end; [done|]. injection Hex as <- <-.
      apply andb_prop in Hcnd as [Hcnd _]. apply andb_prop in Hcnd as [Hout Hnp]. apply bool_decide_eq_true in Hout, Hnp.
      destruct (i_wq _ _ _ Hinv _ _ Hw) as (_ & _ & Htask & Hnf).
      unfold ghost_step. cbv beta iota.
      match goal with |- context [match ?x with Some _ => _ | None => _ end] => replace x with (Some t) by (symmetry; exact Hw) end.
      constructor; simpl.
      + rewrite app_length. simpl. rewrite size_union.
        * rewrite size_singleton. lia.
        * intros d H1 H2. apply elem_of_singleton in H2 as ->. by destruct (Hp _ H1) as [? _].
      + intros d Hd. apply elem_of_union in Hd as [Hd|Hd].
        * destruct (Hp _ Hd). split; [set_solver|done].
        * apply elem_of_singleton in Hd as ->. split; [set_solver|]. apply all_outs_spec. eauto.
      + done.
    - destruct (list_remove _ (xfers s)) as [xs|] eqn:Hrm; [|done]. destruct (negb _); [done|]. injection Hex as <- <-.
      pose proof (length_remove _ _ _ Hrm). constructor; simpl; [rewrite app_length; simpl; lia|done|done].
    - destruct (list_remove _ (fetches s)) as [fs|] eqn:Hrm; [|done]. destruct (negb _); [done|]. injection Hex as <- <-.
      pose proof (length_remove _ _ _ Hrm). constructor; simpl; [rewrite app_length; simpl; lia|done|done].
    - destruct (list_remove _ (purges s)) as [ps|] eqn:Hrm; [|done]. injection Hex as <- <-.
      constructor; simpl; done.
  Qed.

  Lemma g_delivered_count ls : ∀ g s g' s', grun J E g s ls = Some (g', s') →
    g_delivered g' = (g_delivered g + deliveries ls)%nat.
  Proof.
    induction ls as [|l ls IH]; intros g s g' s' Hr; simpl in Hr; [injection Hr as <- <-; simpl; lia|].
    destruct (exec J E s l) as [[s1 cs]| |e|e]; try done. rewrite (IH _ _ _ _ Hr).
    destruct l; simpl; try lia.
    - destruct (e_host E !! w); simpl; lia.
    - destruct (wq s !! w); simpl; lia.
  Qed.

  (* however the run is scheduled and whichever order events arrive in, the controller is handed
     at most [event_bound] events; every waiting round consumes at least one *)
  Theorem deliveries_bounded ls s css :
    run J E (init J E) ls = Next (s, css) → (deliveries ls ≤ event_bound)%nat.
  Proof.
    intros Hr.
    assert (∀ lz g s0, Inv J E s0 → GInv g s0 → ∀ s1 css1, run J E s0 lz = Next (s1, css1) →
              ∃ g1, grun J E g s0 lz = Some (g1, s1) ∧ Inv J E s1 ∧ GInv g1 s1) as Hgen.
    { clear Hr. intros lz. induction lz as [|l lz IH]; intros g s0 Hinv Hg s1 css1 Hr; simpl in Hr.
      - injection Hr as <- <-. exists g. done.
      - simpl. pose proof (exec_inv J E wf_nout s0 l Hinv) as Hs.
        destruct (exec J E s0 l) as [[s' cs]| |e|e] eqn:Hex; try done.
        destruct (run J E s' lz) as [[s'' css2]| |e|e] eqn:Hr'; try done. injection Hr as <- <-.
        apply (IH (ghost_step J E g s0 l) s' Hs (ginv_step g s0 l s' cs Hinv Hg Hex) s'' css2 Hr'). }
    destruct (Hgen ls g_init _ (inv_init J E) ginv_init _ _ Hr) as (g1 & Hg1 & Hinv1 & [Hc Hp Hx]).
    pose proof (g_delivered_count _ _ _ _ _ Hg1) as Hd. simpl in Hd. unfold event_bound.
    assert (size (g_pub g1) ≤ size all_outs)%nat by (apply subseteq_size; intros d Hd'; by destruct (Hp _ Hd')).
    assert (size (g_xf g1) ≤ size pair_universe)%nat by (apply subseteq_size; intros [d h] Hd'; by destruct (Hx _ _ Hd')).
    assert (size (fetched (ctl s)) ≤ size (j_ext J))%nat by (apply subseteq_size; intros d Hd'; by apply (fetched_ext s)).
    lia.
  Qed.
End bound.
