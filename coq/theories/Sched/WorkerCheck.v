(* Correspondence checker for the worker loop (harness/c02.py). *)
From stdpp Require Import gmap.
From Coq Require Import NArith String.
From EKW Require Import Sched.Model Sched.Lit Sched.Worker.
Local Open Scope N_scope.

Definition check_worker (c : gmap task (gset ds) * list wmsg * (list (task * gset ds) + string)) : bool :=
  let '(req, ms, expect) := c in
  match wrun (λ t, default ∅ (req !! t)) w_init (ms ++ [WShutdown]), expect with
  | WOk s, inl log => bool_decide (w_log s = log)
  | WErr e, inr e' => bool_decide (e = e')
  | _, _ => false
  end.
