(* C03: deadlock-freedom, "every round waits", completeness at exit.
   The heuristic inside scheduler.assign (which idle worker takes which computable task, host to
   component binding) is NOT modelled; what progress needs from it is the observable predicate
   [assign_progress]: after the assign phase, if something is still computable then something is
   running.  It is a hypothesis of the two _partial theorems and is validated on every round of
   every recorded run of the real controller (Sched/Replay.v). *)
From stdpp Require Import gmap.
From Coq Require Import NArith String.
From EKW Require Import Sched.Model Sched.Lemmas Sched.Inv Sched.InvInit Sched.InvEnv Sched.InvCtl Sched.Safety.
Local Open Scope N_scope.

Definition assign_progress (c : cstate) : Prop := computable c ≠ ∅ → ongoing_total c ≠ ∅.

Lemma ongoing_total_spec c t : t ∈ ongoing_total c ↔ ∃ w, t ∈ ong c w.
Proof.
  unfold ongoing_total, ong.
  apply (map_fold_ind (λ acc m, t ∈ acc ↔ ∃ w, t ∈ default ∅ (m !! w))).
  - split; [set_solver|]. intros [w Hw]. by rewrite lookup_empty in Hw.
  - intros w X m acc Hm IH. rewrite elem_of_union, IH. split.
    + intros [Ht|[w' Hw']].
      * exists w. by rewrite lookup_insert.
      * exists w'. destruct (decide (w = w')) as [->|?]; [by rewrite Hm in Hw'|by rewrite lookup_insert_ne].
    + intros [w' Hw']. destruct (decide (w = w')) as [->|?].
      * rewrite lookup_insert in Hw'. by left.
      * rewrite lookup_insert_ne in Hw' by done. right. eauto.
Qed.

Section progress.
  Context (J : job) (E : env).
  Hypothesis wf_nout : ∀ t, is_task J t → 1 ≤ nout J t.

  (* the job is a DAG whose inputs and requested outputs are outputs of its own tasks *)
  Definition wf_dag (rank : task → nat) : Prop :=
    (∀ t d, d ∈ ins J t → is_task J d.1 ∧ d ∈ outs J d.1 ∧ (rank d.1 < rank t)%nat) ∧
    (∀ d, d ∈ j_ext J → is_task J d.1 ∧ d ∈ outs J d.1).

  (* something in the cluster will eventually produce an event *)
  Definition outstanding (s : sys) : Prop :=
    pool s ≠ [] ∨ xfers s ≠ [] ∨ fetches s ≠ [] ∨ ∃ w i s' cs, exec J E s (LPublish w i) = Next (s', cs).

  (* every publication of a completed task has been notified (holds when a task's
     publications reach the controller in the order they were made) *)
  Definition InOrder (s : sys) : Prop := ∀ t, t ∈ completed (ctl s) → outs J t ⊆ seen (ctl s).

  Lemma all_completed rank s :
    wf_dag rank → Inv J E s → computable (ctl s) = ∅ → ongoing_total (ctl s) = ∅ →
    (∀ d, d ∈ published s → d ∈ seen (ctl s)) →
    ∀ n t, (rank t < n)%nat → is_task J t → t ∈ completed (ctl s).
  Proof.
    intros [Hdag _] Hinv Hc Ho Hfs. induction n as [|n IH]; intros t Hr Ht; [lia|].
    destruct (decide (t ∈ completed (ctl s))) as [?|Hnc]; [done|exfalso].
    destruct (i_phase _ _ _ Hinv _ Ht Hnc) as [Hin|[[X HX]|[w Hw]]].
    - rewrite Hc in Hin. set_solver.
    - destruct (i_tr _ _ _ Hinv _ _ HX) as (_ & _ & _ & _ & Hne & Heq).
      assert (∃ d, d ∈ X) as [d Hd].
      { destruct (set_choose_or_empty X) as [?|He]; [done|]. by apply leibniz_equiv in He. }
      rewrite Heq in Hd. apply elem_of_difference in Hd as [Hd Hns].
      destruct (Hdag _ _ Hd) as (Htp & Hout & Hrk). destruct d as [p i]. simpl in *.
      assert (p ∈ completed (ctl s)) as Hcp by (apply IH; [lia|done]).
      destruct (i_completed _ _ _ Hinv _ Hcp) as [Hf _]. apply Hns. apply Hfs. by apply (i_fin_pub _ _ _ Hinv p).
    - assert (t ∈ ongoing_total (ctl s)) as Hin by (apply ongoing_total_spec; eauto). rewrite Ho in Hin. set_solver.
  Qed.

  Lemma nonempty_elem (X : gset task) : X ≠ ∅ → ∃ t, t ∈ X.
  Proof. intros Hne. destruct (set_choose_or_empty X) as [?|He]; [done|]. by apply leibniz_equiv in He. Qed.

  (* least-number principle on N for a decidable predicate *)
  Lemma least_below (P : N → Prop) `{∀ i, Decision (P i)} : ∀ n,
    (∀ j, j < n → ¬ P j) ∨ (∃ i, i < n ∧ P i ∧ ∀ j, j < i → ¬ P j).
  Proof.
    induction n as [|n IH] using N.peano_ind; [left; intros j Hj; lia|].
    destruct IH as [Hnone|(i & Hi & HPi & Hmin)].
    - destruct (decide (P n)) as [HPn|HnPn].
      + right. exists n. split; [lia|]. split; [done|]. exact Hnone.
      + left. intros j Hj. destruct (decide (j = n)) as [->|?]; [done|]. apply Hnone. lia.
    - right. exists i. split; [lia|]. done.
  Qed.

  Lemma least_N (P : N → Prop) `{∀ i, Decision (P i)} n : P n → ∃ i, i ≤ n ∧ P i ∧ ∀ j, j < i → ¬ P j.
  Proof.
    intros Hn. destruct (least_below P n) as [Hnone|(i & Hi & HPi & Hmin)].
    - exists n. split; [lia|]. done.
    - exists i. split; [lia|]. done.
  Qed.

  Lemma ongoing_can_publish s w t :
    Inv J E s → pool s = [] → xfers s = [] → t ∈ ong (ctl s) w →
    ∃ i s' cs, exec J E s (LPublish w i) = Next (s', cs).
  Proof.
    intros Hinv Hpool Hx Hw.
    destruct (i_ong _ _ _ Hinv _ _ Hw) as (_ & _ & _ & Htask & [Hwq|[_ Hp]]); [|rewrite Hpool in Hp; by apply elem_of_nil in Hp].
    destruct (i_wq _ _ _ Hinv _ _ Hwq) as ([h Hh] & _ & _ & _).
    pose proof (i_running _ _ _ Hinv _ _ Hwq) as Hlast.
    (* the least unpublished output index of t *)
    destruct (least_N (λ i, (t, i) ∉ published s) (nout J t - 1) Hlast) as (i & Hile & Hi & Hmin).
    assert (Hlt : i < nout J t) by (pose proof (wf_nout t Htask); lia).
    exists i.
    pose proof (exec_inv J E wf_nout s (LPublish w i) Hinv) as Hex. unfold exec in Hex |- *. cbv beta iota in Hex |- *.
    revert Hex. destruct (wq s !! w) as [t'|] eqn:Hwq'; [|congruence]. assert (t' = t) as -> by congruence.
    destruct (e_host E !! w) as [h'|] eqn:Hh'; [|congruence]. assert (h' = h) as -> by congruence. intros Hex.
    assert (Hall : set_Forall (λ d, (h, d) ∈ store s) (ins J t)).
    { intros d Hd. destruct (i_inputs _ _ _ Hinv _ _ _ Hwq' Hh' _ Hd) as [?|[src Hs]]; [done|].
      rewrite Hx in Hs. by apply elem_of_nil in Hs. }
    rewrite (bool_decide_eq_true_2 _ Hall) in Hex. rewrite (bool_decide_eq_true_2 _ Hall). simpl in *.
    assert (Hc : bool_decide ((t, i) ∈ outs J t) && bool_decide ((t, i) ∉ published s)
                 && bool_decide (set_Forall (λ d' : ds, d'.2 < i → d' ∈ published s) (outs J t)) = true).
    { apply andb_true_intro. split; [apply andb_true_intro; split|]; apply bool_decide_eq_true.
      - by apply outs_spec.
      - done.
      - intros d' Hd' Hlt'. apply outs_spec in Hd' as [Hd1 _]. destruct d' as [a b]. simpl in *. subst a.
        destruct (decide ((t, b) ∈ published s)) as [?|Hn]; [done|]. exfalso. by apply (Hmin b). }
    match type of Hex with context [if negb ?b then _ else _] => assert (b = true) as Hb by exact Hc; rewrite Hb in Hex end.
    match goal with |- context [if negb ?b then _ else _] => assert (b = true) as Hb' by exact Hc; rewrite Hb' end.
    simpl in *. match goal with |- context [if ?b then Fail _ else _] => destruct b eqn:Hst end; simpl in *; [done|eauto].
  Qed.

  (* ---- deadlock freedom: whenever the controller waits, something is outstanding ---- *)
  Theorem wait_implies_outstanding rank s :
    wf_dag rank → (∀ d, d ∈ j_ext J → d ∉ j_none J) →
    Inv J E s → fqueue (ctl s) = ∅ → assign_progress (ctl s) → has_awaitable J (ctl s) = true →
    outstanding s.
  Proof.
    intros Hdag Hnone Hinv Hfq Hap Haw. unfold outstanding.
    destruct (pool s) as [|e0 p0] eqn:Hpool; [|by left].
    destruct (xfers s) as [|x0 xs0] eqn:Hx; [|right; by left].
    destruct (fetches s) as [|f0 fs0] eqn:Hf; [|right; right; by left].
    right. right. right.
    destruct (decide (ongoing_total (ctl s) = ∅)) as [Hot|Hot].
    - (* nothing ongoing, hence nothing computable, hence everything completed: the output must have its value *)
      exfalso. unfold has_awaitable in Haw. apply orb_prop in Haw as [Haw|Haw]; apply bool_decide_eq_true in Haw; [done|].
      destruct Haw as (d & Hd & Hv).
      assert (Hc : computable (ctl s) = ∅).
      { destruct (decide (computable (ctl s) = ∅)) as [?|Hne]; [done|]. by specialize (Hap Hne). }
      assert (Hfs : ∀ d', d' ∈ published s → d' ∈ seen (ctl s)).
      { intros d' Hd'. destruct (i_pub_ev _ _ _ Hinv _ Hd') as [?|Hp]; [done|].
        rewrite Hpool in Hp. by apply elem_of_nil in Hp. }
      destruct (proj2 Hdag _ Hd) as [Htask Hout].
      pose proof (all_completed rank s Hdag Hinv Hc Hot Hfs (S (rank d.1)) d.1 ltac:(lia) Htask) as Hcomp.
      destruct (i_completed _ _ _ Hinv _ Hcomp) as [Hfin _].
      pose proof (Hfs _ (i_fin_pub _ _ _ Hinv _ Hfin _ Hout)) as Hseen.
      destruct (i_seen_ext _ _ _ Hinv _ Hseen Hd) as [Hfe|[h Hq]]; [|rewrite Hfq in Hq; by rewrite lookup_empty in Hq].
      destruct (i_fetched _ _ _ Hinv _ Hfe) as [Hin|[Hin|[v Ho]]].
      + rewrite Hf in Hin. by apply elem_of_nil in Hin.
      + rewrite Hpool in Hin. by apply elem_of_nil in Hin.
      + destruct (i_out _ _ _ Hinv _ _ Ho) as (_ & _ & _ & _ & ->). unfold has_value in Hv. rewrite Ho in Hv.
        unfold payload_of in Hv. rewrite bool_decide_eq_false_2 in Hv by auto. done.
    - apply nonempty_elem in Hot as [t Ht]. apply ongoing_total_spec in Ht as [w Hw].
      exists w. by apply (ongoing_can_publish s w t).
  Qed.

  (* ---- completeness at exit (publications of a task delivered in order) ---- *)
  Theorem exit_complete rank s :
    wf_dag rank → Inv J E s → InOrder s →
    has_computable (ctl s) = false → has_awaitable J (ctl s) = false →
    (∀ t, is_task J t → t ∈ completed (ctl s) ∧ t ∈ finished s ∧ t ∈ (dispatched s).*2) ∧
    (∀ d, d ∈ j_ext J → ∃ v, outputs (ctl s) !! d = Some (Some v) ∧ Some v = payload_of J d).
  Proof.
    intros Hdag Hinv Hio Hc Haw.
    apply bool_decide_eq_false in Hc. assert (Hc' : computable (ctl s) = ∅) by (destruct (decide (computable (ctl s) = ∅)); [done|by exfalso; apply Hc]).
    unfold has_awaitable in Haw. apply orb_false_iff in Haw as [Ho Hv]. apply bool_decide_eq_false in Ho, Hv.
    assert (Ho' : ongoing_total (ctl s) = ∅) by (destruct (decide (ongoing_total (ctl s) = ∅)); [done|by exfalso; apply Ho]).
    assert (Hall : ∀ t, is_task J t → t ∈ completed (ctl s)).
    { (* rank induction with InOrder in place of "nothing in the pool" *)
      assert (∀ n t, (rank t < n)%nat → is_task J t → t ∈ completed (ctl s)) as Hn; [|intros t Ht; apply (Hn (S (rank t))); [lia|done]].
      induction n as [|n IH]; intros t Hr Ht; [lia|].
      destruct (decide (t ∈ completed (ctl s))) as [?|Hnc]; [done|exfalso].
      destruct (i_phase _ _ _ Hinv _ Ht Hnc) as [Hin|[[X HX]|[w Hw]]].
      - rewrite Hc' in Hin. set_solver.
      - destruct (i_tr _ _ _ Hinv _ _ HX) as (_ & _ & _ & _ & Hne & Heq).
        assert (∃ d, d ∈ X) as [d Hd].
        { destruct (set_choose_or_empty X) as [?|He]; [done|]. by apply leibniz_equiv in He. }
        rewrite Heq in Hd. apply elem_of_difference in Hd as [Hd Hns].
        destruct (proj1 Hdag _ _ Hd) as (Htp & Hout & Hrk). destruct d as [p i]. simpl in *.
        assert (p ∈ completed (ctl s)) as Hcp by (apply IH; [lia|done]).
        apply Hns. by apply (Hio p).
      - assert (t ∈ ongoing_total (ctl s)) as Hin by (apply ongoing_total_spec; eauto). rewrite Ho' in Hin. set_solver. }
    split.
    - intros t Ht. pose proof (Hall t Ht) as Hcp. destruct (i_completed _ _ _ Hinv _ Hcp) as [Hf _].
      repeat split; auto. by destruct (i_fin_disp _ _ _ Hinv _ Hf).
    - intros d Hd. destruct (outputs (ctl s) !! d) as [[v|]|] eqn:Hod.
      + exists v. split; [done|]. by destruct (i_out _ _ _ Hinv _ _ Hod) as (_ & _ & _ & _ & ?).
      + exfalso. apply Hv. exists d. split; [done|]. unfold has_value. by rewrite Hod.
      + exfalso. apply Hv. exists d. split; [done|]. unfold has_value. by rewrite Hod.
  Qed.
End progress.
