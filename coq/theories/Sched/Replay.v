(* Trace validator used by the correspondence harness: a recorded run of the real
   cascade.controller.impl.run against the in-process fake cluster is replayed on the
   model; every command set, every wait decision and the exit decision must coincide. *)
From stdpp Require Import gmap.
From Coq Require Import NArith String.
From EKW Require Import Sched.Model.
From EKW Require Sched.Lit.

Record round := {
  r_ctl : list label;            (* LAssign ... LAssign LFlush, as the controller did them *)
  r_cmds : list (list cmd);      (* Bridge calls observed for each of those steps *)
  r_waited : bool;               (* did the controller call recv_events in this round *)
  r_env : list label;            (* cluster steps and event deliveries while it waited *)
}.

Definition loop_guard (J : job) (s : sys) : bool := has_computable (ctl s) || has_awaitable J (ctl s).

Fixpoint run_ctl (J : job) (E : env) (s : sys) (ls : list label) (obs : list (list cmd)) : option sys :=
  match ls, obs with
  | [], [] => Some s
  | l :: ls', o :: obs' =>
      match exec J E s l with
      | Next (s', cs) => if bool_decide (cs ≡ₚ o) then run_ctl J E s' ls' obs' else None
      | _ => None
      end
  | _, _ => None
  end.

Fixpoint run_env (J : job) (E : env) (s : sys) (ls : list label) : option sys :=
  match ls with
  | [] => Some s
  | l :: ls' => match exec J E s l with Next (s', []) => run_env J E s' ls' | _ => None end
  end.

(* the observable progress predicate the C03 theorems assume of the assignment heuristic *)
Definition assign_progress_b (c : cstate) : bool :=
  bool_decide (computable c = ∅) || bool_decide (ongoing_total c ≠ ∅).

Fixpoint replay (strict : bool) (J : job) (E : env) (s : sys) (rs : list round) : option sys :=
  match rs with
  | [] => Some s
  | r :: rs' =>
      if negb (loop_guard J s) then None else
      match run_ctl J E s (r_ctl r) (r_cmds r) with
      | None => None
      | Some s1 =>
          if strict && negb (assign_progress_b (ctl s1)) then None else
          if negb (Bool.eqb (has_awaitable J (ctl s1)) (r_waited r)) then None else
          match run_env J E s1 (r_env r) with
          | None => None
          | Some s2 => replay strict J E s2 rs'
          end
      end
  end.

(* ended = the real run returned normally after the last round *)
Definition check_trace (strict : bool) (J : job) (E : env) (rs : list round) (ended : bool)
           (outs : list (ds * option ds)) : bool :=
  match replay strict J E (init J E) rs with
  | None => false
  | Some s => if ended then negb (loop_guard J s) && bool_decide (map_to_list (outputs (ctl s)) ≡ₚ outs) else true
  end.

(* diagnosis: where does a trace leave the model *)
Inductive dbg :=
| DOk
| DGuard (r : nat)
| DCtl (r k : nat) (l : label) (model : res (list cmd))
| DWait (r : nat) (model : bool)
| DProgress (r : nat)
| DEnv (r k : nat) (l : label)
| DEnd (model_guard : bool) (outs : list (ds * option ds)).

Fixpoint dbg_ctl (J : job) (E : env) (s : sys) (ls : list label) (obs : list (list cmd)) (r k : nat) : sys + dbg :=
  match ls, obs with
  | [], [] => inl s
  | l :: ls', o :: obs' =>
      match exec J E s l with
      | Next (s', cs) => if bool_decide (cs ≡ₚ o) then dbg_ctl J E s' ls' obs' r (S k) else inr (DCtl r k l (Next cs))
      | Disabled => inr (DCtl r k l Disabled) | Crash e => inr (DCtl r k l (Crash e)) | Fail e => inr (DCtl r k l (Fail e))
      end
  | l :: _, [] => inr (DCtl r k l Disabled)
  | [], _ => inr (DCtl r k LFlush Disabled)
  end.

Fixpoint dbg_env (J : job) (E : env) (s : sys) (ls : list label) (r k : nat) : sys + dbg :=
  match ls with
  | [] => inl s
  | l :: ls' => match exec J E s l with Next (s', []) => dbg_env J E s' ls' r (S k) | _ => inr (DEnv r k l) end
  end.

Fixpoint dbg_replay (strict : bool) (J : job) (E : env) (s : sys) (rs : list round) (r : nat) : sys + dbg :=
  match rs with
  | [] => inl s
  | rd :: rs' =>
      if negb (loop_guard J s) then inr (DGuard r) else
      match dbg_ctl J E s (r_ctl rd) (r_cmds rd) r 0 with
      | inr d => inr d
      | inl s1 =>
          if strict && negb (assign_progress_b (ctl s1)) then inr (DProgress r) else
          if negb (Bool.eqb (has_awaitable J (ctl s1)) (r_waited rd)) then inr (DWait r (has_awaitable J (ctl s1))) else
          match dbg_env J E s1 (r_env rd) r 0 with
          | inr d => inr d
          | inl s2 => dbg_replay strict J E s2 rs' (S r)
          end
      end
  end.

Definition dbg_trace (strict : bool) (J : job) (E : env) (rs : list round) (ended : bool) (outs : list (ds * option ds)) : dbg :=
  match dbg_replay strict J E (init J E) rs 0 with
  | inr d => d
  | inl s => if ended then
               (if negb (loop_guard J s) && bool_decide (map_to_list (outputs (ctl s)) ≡ₚ outs) then DOk
                else DEnd (loop_guard J s) (map_to_list (outputs (ctl s))))
             else DOk
  end.
