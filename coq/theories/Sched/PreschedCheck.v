(* Executable checker used by harness/c16.py: the model is run on the same job as
   cascade.scheduler.graph.precompute and compared with the observed Preschedule.
   Set-valued fields (component node lists, sources, edge maps) are compared as sets, because
   their order in the implementation is CPython's set iteration order; the order of the
   components is validated (non-increasing weight) instead of predicted; value, depth and the
   distance matrix are compared cell by cell. *)
From Coq Require Import List NArith ZArith Bool String.
From EKW Require Import Sched.Presched.
Import ListNotations.

Definition seteq (a b : list N) : bool :=
  Nat.eqb (List.length a) (List.length b) && forallb (fun x => mem x b) a && forallb (fun x => mem x a) b.
Definition dsseteq (a b : list ds) : bool :=
  Nat.eqb (List.length a) (List.length b) && forallb (fun x => dsmem x b) a && forallb (fun x => dsmem x a) b.

(* dict equality up to key order, empty / missing entries identified (defaultdict) *)
Definition dict_equiv {K V} (keqb : K -> K -> bool) (veq : list V -> list V -> bool) (a b : list (K * list V)) : bool :=
  let get m k := match lookup keqb k m with Some l => l | None => [] end in
  forallb (fun p => veq (snd p) (get b (fst p))) a && forallb (fun p => veq (snd p) (get a (fst p))) b.

Definition zmap_eq (obs model : list (N * Z)) : bool :=
  Nat.eqb (List.length obs) (List.length model) &&
  forallb (fun p => match lookup N.eqb (fst p) model with Some z => Z.eqb z (snd p) | None => false end) obs.

Definition dist_eq (obs model : list (N * list (N * Z))) : bool :=
  Nat.eqb (List.length obs) (List.length model) &&
  forallb (fun p => match lookup N.eqb (fst p) model with Some row => zmap_eq (snd p) row | None => false end) obs.

Record ocore := mkO { o_nodes : list N; o_sources : list N; o_dist : list (N * list (N * Z)); o_value : list (N * Z); o_depth : Z }.

Definition core_eq (o : ocore) (c : core) : bool :=
  seteq (o_nodes o) (c_nodes c) && seteq (o_sources o) (c_sources c) && Z.eqb (o_depth o) (c_depth c) &&
  zmap_eq (o_value o) (c_value c) && dist_eq (o_dist o) (c_dist c).

Fixpoint nonincreasing (l : list nat) : bool :=
  match l with
  | a :: ((b :: _) as r) => Nat.leb b a && nonincreasing r
  | _ => true
  end.

Definition comps_eq (obs : list ocore) (model : list core) : bool :=
  Nat.eqb (List.length obs) (List.length model) &&
  nonincreasing (map (fun o => List.length (o_nodes o)) obs) &&
  nonincreasing (map weight model) &&
  forallb (fun o => match o_nodes o with
                    | [] => false
                    | h :: _ => match find (fun c => mem h (c_nodes c)) model with
                                | Some c => core_eq o c
                                | None => false
                                end
                    end) obs.

Record opre := mkOP { o_comps : list ocore; o_edge_o : list (ds * list N); o_edge_i : list (N * list ds); o_task_o : list (N * list ds) }.

Definition err_name (e : err) : string :=
  match e with OutOfFuel => "OutOfFuel" | KeyError => "KeyError" | TypeError => "TypeError" end.

Definition check_precompute (case : job * (opre + string)) : bool :=
  let '(j, expect) := case in
  match precompute j, expect with
  | Ok p, inl o =>
      comps_eq (o_comps o) (p_comps p) &&
      dict_equiv ds_eqb seteq (o_edge_o o) (p_edge_o p) &&
      dict_equiv N.eqb dsseteq (o_edge_i o) (p_edge_i p) &&
      dict_equiv N.eqb dsseteq (o_task_o o) (p_task_o p)
  | Err e, inr s => String.eqb (err_name e) s
  | _, _ => false
  end.

(* constructors used by the generated case files (fix the sum type of every case) *)
Definition case_ok (j : job) (o : opre) : job * (opre + string) := (j, inl o).
Definition case_err (j : job) (s : string) : job * (opre + string) := (j, inr s).
