(* Executable model of the cascade controller (scheduler.api / scheduler.assign /
   controller.notify / controller.act) composed with a maximally asynchronous cluster.
   Nondeterminism (which worker takes which task, which available host a transfer reads
   from, when cluster jobs complete, in which order events reach the controller) is
   resolved by *labels*; [exec] validates a label against the state and returns the
   commands the controller emits.  Every set/dict whose iteration order is unspecified in
   Python is a gset/gmap here, and the commands of one step are compared as sets. *)
From stdpp Require Import gmap.
From Coq Require Import NArith String.
Local Open Scope N_scope.

Definition task := N.
Definition host := N.
Definition worker := N.
Definition ds := (N * N)%type.      (* (task, index of the output in key-sorted order) *)

Record job := {
  j_ins : gmap task (gset ds);       (* inputs of every task; dom = the tasks of the job *)
  j_nout : gmap task N;              (* number of outputs, >= 1 *)
  j_gpu : gset task;                 (* tasks that need a GPU *)
  j_ext : gset ds;                   (* outputs requested by the caller *)
  j_none : gset ds;                  (* datasets whose value is Python's None *)
}.

Record env := {
  e_host : gmap worker host;
  e_gpu : gset worker;
}.

Definition ins (J : job) (t : task) : gset ds := default ∅ (j_ins J !! t).
Definition nout (J : job) (t : task) : N := default 1 (j_nout J !! t).
Definition outs_list (J : job) (t : task) : list ds :=
  (λ i, (t, N.of_nat i)) <$> seq 0 (N.to_nat (nout J t)).
Definition outs (J : job) (t : task) : gset ds := list_to_set (outs_list J t).
Definition last_out (J : job) (t : task) : ds := (t, nout J t - 1).
Definition consumers (J : job) (d : ds) : gset task :=
  dom (filter (λ p, d ∈ p.2) (j_ins J)).
(* every dataset some task consumes *)
Definition all_ins (J : job) : gset ds := map_fold (λ _ X acc, X ∪ acc) ∅ (j_ins J).

(* ------------------------------------------------------------------ controller state *)
Record cstate := {
  computable : gset task;
  tracker : gmap task (gset ds);          (* is_computable_tracker: inputs not yet published *)
  idle : gset worker;
  ongoing : gmap worker (gset task);
  ds2host : gmap (ds * host) bool;        (* true = available, false = preparing; absent = missing *)
  ptracker : gmap ds (gset task);         (* purging_tracker: consumers not yet completed *)
  pqueue : gset ds;
  fqueue : gmap ds host;
  fetched : gset ds;                      (* fetches already commanded *)
  outputs : gmap ds (option ds);          (* value received for a requested output; Some None = Python None *)
  remaining : N;
  (* ghost history, not read by any step *)
  seen : gset ds;                         (* publications notified *)
  completed : gset task;                  (* completions notified *)
  purged : gset ds;
}.

Definition hosts_of (m : gmap (ds * host) bool) (d : ds) : gset host :=
  set_map snd (dom (filter (λ p, p.1.1 = d) m) : gset (ds * host)).
Definition drop_ds (m : gmap (ds * host) bool) (d : ds) : gmap (ds * host) bool :=
  filter (λ p, p.1.1 ≠ d) m.
Definition avail_hosts (m : gmap (ds * host) bool) (d : ds) : gset host :=
  set_map snd (dom (filter (λ p, p.1.1 = d ∧ p.2 = true) m) : gset (ds * host)).
(* "preparing" entries for a set of datasets on one host *)
Definition prep_map (h : host) (X : gset ds) : gmap (ds * host) bool :=
  set_to_map (λ d, ((d, h), false)) X.

Definition has_value (s : cstate) (d : ds) : bool :=
  match outputs s !! d with Some (Some _) => true | _ => false end.
(* consider_purge's two tests *)
Definition no_dependants (pt : gmap ds (gset task)) (d : ds) : bool :=
  match pt !! d with Some X => bool_decide (X = ∅) | None => true end.
Definition not_required (J : job) (s : cstate) (d : ds) : bool :=
  bool_decide (d ∉ j_ext J) || has_value s d.

Definition has_computable (s : cstate) : bool := bool_decide (computable s ≠ ∅).
Definition ongoing_total (s : cstate) : gset task := map_fold (λ _ X acc, X ∪ acc) ∅ (ongoing s).
Definition has_awaitable (J : job) (s : cstate) : bool :=
  bool_decide (ongoing_total s ≠ ∅) || bool_decide (set_Exists (λ d, has_value s d = false) (j_ext J)).

Definition sources (J : job) : gset task := dom (filter (λ p, p.2 = ∅) (j_ins J)).

Definition init_c (J : job) (E : env) : cstate := {|
  computable := sources J;
  tracker := filter (λ p, p.2 ≠ ∅) (j_ins J);
  idle := dom (e_host E);
  ongoing := ∅;
  ds2host := ∅;
  ptracker := set_to_map (λ d, (d, consumers J d)) (all_ins J);
  pqueue := ∅; fqueue := ∅; fetched := ∅; outputs := ∅;
  remaining := N.of_nat (size (dom (j_ins J)));
  seen := ∅; completed := ∅; purged := ∅;
|}.

Inductive cmd :=
| CTransmit (d : ds) (src tgt : host)
| CTask (w : worker) (t : task)
| CFetch (d : ds) (h : host)
| CPurge (h : host) (d : ds).

Inductive event :=
| EPub (w : worker) (d : ds)             (* DatasetPublished(origin=worker, transmit_idx=None) *)
| EXfer (h : host) (d : ds)              (* DatasetPublished(origin=host, transmit_idx=i) *)
| EPay (d : ds) (v : option ds).         (* DatasetTransmitPayload to the controller *)

Global Instance cmd_eq_dec : EqDecision cmd.
Proof. solve_decision. Defined.
Global Instance event_eq_dec : EqDecision event.
Proof. solve_decision. Defined.

Inductive res (A : Type) :=
| Next (a : A)
| Disabled                      (* the label is not enabled in this state *)
| Crash (e : string)            (* the controller raised from its own bookkeeping *)
| Fail (e : string).            (* the cluster was asked for something impossible *)
Arguments Next {A} a.
Arguments Disabled {A}.
Arguments Crash {A} e.
Arguments Fail {A} e.

(* --- notify: consider_fetch / consider_computable / completion ------------------- *)
Definition consider_fetch (J : job) (s : cstate) (d : ds) (h : host) : gmap ds host :=
  if bool_decide (d ∈ j_ext J) && negb (has_value s d)
     && bool_decide (fqueue s !! d = None) && bool_decide (d ∉ fetched s)
  then <[d := h]> (fqueue s) else fqueue s.

Definition becomes_computable (s : cstate) (d : ds) (t : task) : bool :=
  match tracker s !! t with Some miss => bool_decide (miss = {[d]}) | None => false end.

Definition consider_computable (s : cstate) (d : ds) : gset task * gmap task (gset ds) :=
  let ch := default ∅ (ptracker s !! d) in
  let newc := filter (λ t, becomes_computable s d t = true) ch in
  (computable s ∪ newc,
   map_imap (λ t miss, if bool_decide (t ∈ ch)
                       then (if bool_decide (miss ∖ {[d]} = ∅) then None else Some (miss ∖ {[d]}))
                       else Some miss) (tracker s)).

Definition publish_c (J : job) (s : cstate) (h : host) (d : ds) : cstate :=
  let '(c', tr') := consider_computable s d in
  {| computable := c'; tracker := tr'; idle := idle s; ongoing := ongoing s;
     ds2host := <[(d, h) := true]> (ds2host s); ptracker := ptracker s; pqueue := pqueue s;
     fqueue := consider_fetch J s d h; fetched := fetched s; outputs := outputs s;
     remaining := remaining s; seen := {[d]} ∪ seen s; completed := completed s; purged := purged s |}.

(* completion of task t on worker w: purging tracker, consider_purge, ongoing, idle *)
Definition complete_c (J : job) (s : cstate) (w : worker) (t : task) : res cstate :=
  let I := ins J t in
  if bool_decide (set_Forall (λ sd, t ∈ default ∅ (ptracker s !! sd)) I) then
    let pt1 := map_imap (λ sd X, if bool_decide (sd ∈ I) then Some (X ∖ {[t]}) else Some X) (ptracker s) in
    let topurge := filter (λ sd, no_dependants pt1 sd && not_required J s sd = true) I in
    let pt2 := filter (λ p, p.1 ∉ topurge) pt1 in
    match ongoing s !! w with
    | Some X =>
        if bool_decide (t ∈ X) then
          let S' := X ∖ {[t]} in
          Next {| computable := computable s; tracker := tracker s;
                  idle := if bool_decide (S' = ∅) then {[w]} ∪ idle s else idle s;
                  ongoing := <[w := S']> (ongoing s);
                  ds2host := ds2host s; ptracker := pt2; pqueue := pqueue s ∪ topurge;
                  fqueue := fqueue s; fetched := fetched s; outputs := outputs s;
                  remaining := remaining s - 1; seen := seen s; completed := {[t]} ∪ completed s;
                  purged := purged s |}
        else Crash "succeeded but removal from ongoing impossible"
    | None => Crash "succeeded but removal from ongoing impossible"
    end
  else Crash "KeyError: purging_tracker".

Definition notify (J : job) (E : env) (s : cstate) (ev : event) : res cstate :=
  match ev with
  | EPub w d =>
      match e_host E !! w with
      | None => Crash "KeyError: unknown worker"
      | Some h =>
          let s1 := publish_c J s h d in
          if bool_decide (d = last_out J d.1) then complete_c J s1 w d.1 else Next s1
      end
  | EXfer h d => Next (publish_c J s h d)
  | EPay d v =>
      Next {| computable := computable s; tracker := tracker s; idle := idle s; ongoing := ongoing s;
              ds2host := ds2host s; ptracker := ptracker s; pqueue := pqueue s; fqueue := fqueue s;
              fetched := fetched s; outputs := <[d := v]> (outputs s); remaining := remaining s;
              seen := seen s; completed := completed s; purged := purged s |}
  end.

(* --- assign (one assignment) + act + the part of plan that concerns it --------------- *)
Definition needs (J : job) (s : cstate) (t : task) (h : host) : gset ds :=
  filter (λ d, ds2host s !! (d, h) = None) (ins J t).

Definition assign_c (J : job) (E : env) (s : cstate) (w : worker) (t : task) (srcs : gmap ds host)
  : res (cstate * host) :=
  match e_host E !! w with
  | None => Disabled
  | Some h =>
    if negb (bool_decide (t ∈ computable s) && bool_decide (w ∈ idle s)
             && (bool_decide (t ∉ j_gpu J) || bool_decide (w ∈ e_gpu E))) then Disabled
    else
      let nd := needs J s t h in
      if bool_decide (set_Exists (λ d, avail_hosts (ds2host s) d = ∅) nd)
      then Crash "dataset not found in any host"
      else if negb (bool_decide (dom srcs = nd)
                    && bool_decide (map_Forall (λ d src, ds2host s !! (d, src) = Some true) srcs))
      then Disabled
      else
        (* build_assignment marks the transmitted inputs, plan marks inputs and outputs "preparing"
           on the worker's host; an existing entry (either status) is kept *)
        let m2 := ds2host s ∪ prep_map h (ins J t ∪ outs J t) in
        match ongoing s !! w with
        | Some X => if bool_decide (t ∈ X) then Crash "double add"
                    else Next ({| computable := computable s ∖ {[t]}; tracker := tracker s;
                      idle := idle s ∖ {[w]}; ongoing := <[w := {[t]} ∪ X]> (ongoing s);
                      ds2host := m2; ptracker := ptracker s; pqueue := pqueue s; fqueue := fqueue s;
                      fetched := fetched s; outputs := outputs s; remaining := remaining s;
                      seen := seen s; completed := completed s; purged := purged s |}, h)
        | None => Next ({| computable := computable s ∖ {[t]}; tracker := tracker s;
                      idle := idle s ∖ {[w]}; ongoing := <[w := {[t]}]> (ongoing s);
                      ds2host := m2; ptracker := ptracker s; pqueue := pqueue s; fqueue := fqueue s;
                      fetched := fetched s; outputs := outputs s; remaining := remaining s;
                      seen := seen s; completed := completed s; purged := purged s |}, h)
        end
  end.

(* --- flush_queues ----------------------------------------------------------------- *)
Definition flush_c (J : job) (s : cstate) : cstate * list (ds * host) * list (host * ds) :=
  let after_fetch := filter (λ d, no_dependants (ptracker s) d && not_required J s d = true) (dom (fqueue s)) in
  let pq := pqueue s ∪ after_fetch in
  ({| computable := computable s; tracker := tracker s; idle := idle s; ongoing := ongoing s;
      ds2host := filter (λ p, p.1.1 ∉ pq) (ds2host s);
      ptracker := filter (λ p, p.1 ∉ after_fetch) (ptracker s);
      pqueue := ∅; fqueue := ∅; fetched := fetched s ∪ dom (fqueue s); outputs := outputs s;
      remaining := remaining s; seen := seen s; completed := completed s; purged := purged s ∪ pq |},
   map_to_list (fqueue s),
   d ← elements pq; (λ h, (h, d)) <$> elements (hosts_of (ds2host s) d)).

(* ------------------------------------------------------------------ the cluster *)
Record sys := {
  ctl : cstate;
  store : gset (host * ds);            (* which dataset is in which host's shared memory *)
  wq : gmap worker task;               (* task sequence held by a worker, not yet finished *)
  xfers : list (ds * host * host);     (* transmit commands not yet executed *)
  fetches : list (ds * host);
  purges : list (host * ds);
  pool : list event;                   (* events not yet delivered to the controller *)
  dispatched : list (worker * task);   (* ghost: history of task commands *)
  finished : gset task;                (* ghost: tasks that have published all their outputs *)
  published : gset ds;                 (* ghost: datasets a worker has written to shared memory so far *)
}.

Definition init (J : job) (E : env) : sys :=
  {| ctl := init_c J E; store := ∅; wq := ∅; xfers := []; fetches := []; purges := []; pool := [];
     dispatched := []; finished := ∅; published := ∅ |}.

Inductive label :=
| LAssign (w : worker) (t : task) (srcs : gmap ds host)
| LFlush
| LDeliver (ev : event)                 (* one undelivered event reaches the controller *)
| LPublish (w : worker) (i : N)         (* the task held by w publishes its output number i *)
| LXfer (x : ds * host * host)          (* a pending transmit command is executed *)
| LFetch (x : ds * host)
| LPurge (x : host * ds).

Definition exec (J : job) (E : env) (s : sys) (l : label) : res (sys * list cmd) :=
  match l with
  | LAssign w t srcs =>
      match assign_c J E (ctl s) w t srcs with
      | Next (c, h) =>
          if bool_decide (is_Some (wq s !! w)) then Fail "double task sequence enqueued"
          else Next ({| ctl := c; store := store s; wq := <[w := t]> (wq s);
                        xfers := xfers s ++ ((λ p, (p.1, p.2, h)) <$> map_to_list srcs);
                        fetches := fetches s; purges := purges s; pool := pool s;
                        dispatched := dispatched s ++ [(w, t)]; finished := finished s; published := published s |},
                     ((λ p, CTransmit p.1 p.2 h) <$> map_to_list srcs) ++ [CTask w t])
      | Disabled => Disabled | Crash e => Crash e | Fail e => Fail e
      end
  | LFlush =>
      let '(c, fl, pl) := flush_c J (ctl s) in
      Next ({| ctl := c; store := store s; wq := wq s; xfers := xfers s; fetches := fetches s ++ fl;
               purges := purges s ++ pl; pool := pool s; dispatched := dispatched s; finished := finished s; published := published s |},
            ((λ p, CFetch p.1 p.2) <$> fl) ++ ((λ p, CPurge p.1 p.2) <$> pl))
  | LDeliver ev =>
      match list_remove ev (pool s) with
      | None => Disabled
      | Some pool' =>
          match notify J E (ctl s) ev with
          | Next c => Next ({| ctl := c; store := store s; wq := wq s; xfers := xfers s; fetches := fetches s;
                               purges := purges s; pool := pool'; dispatched := dispatched s; finished := finished s; published := published s |}, [])
          | Disabled => Disabled | Crash e => Crash e | Fail e => Fail e
          end
      end
  | LPublish w i =>
      (* the task held by worker w yields its next output (key-sorted order: output i only after all
         outputs below i) and publishes it; a task with n outputs takes n such steps and other events
         may interleave between them.  The task body runs only with every input present on the host
         (worker loop + Memory.provide). *)
      match wq s !! w, e_host E !! w with
      | Some t, Some h =>
          let d : ds := (t, i) in
          if negb (bool_decide (set_Forall (λ d', (h, d') ∈ store s) (ins J t))) then Disabled
          else if negb (bool_decide (d ∈ outs J t) && bool_decide (d ∉ published s)
                        && bool_decide (set_Forall (λ d' : ds, d'.2 < i → d' ∈ published s) (outs J t))) then Disabled
          else if bool_decide ((h, d) ∈ store s) then Fail "output already present in shared memory"
          else
            let last := bool_decide (d = last_out J t) in
            Next ({| ctl := ctl s;
                     store := {[(h, d)]} ∪ store s;
                     wq := if last then delete w (wq s) else wq s;
                     xfers := xfers s; fetches := fetches s; purges := purges s;
                     pool := pool s ++ [EPub w d]; dispatched := dispatched s;
                     finished := if last then {[t]} ∪ finished s else finished s;
                     published := {[d]} ∪ published s |}, [])
      | _, _ => Disabled
      end
  | LXfer (d, src, tgt) =>
      match list_remove (d, src, tgt) (xfers s) with
      | None => Disabled
      | Some xfers' =>
          if negb (bool_decide ((src, d) ∈ store s)) then Fail "transmit source does not hold the dataset"
          else Next ({| ctl := ctl s; store := {[(tgt, d)]} ∪ store s;
                        wq := wq s; xfers := xfers'; fetches := fetches s; purges := purges s;
                        pool := pool s ++ [EXfer tgt d]; dispatched := dispatched s; finished := finished s; published := published s |}, [])
      end
  | LFetch (d, src) =>
      match list_remove (d, src) (fetches s) with
      | None => Disabled
      | Some fetches' =>
          if negb (bool_decide ((src, d) ∈ store s)) then Fail "fetch source does not hold the dataset"
          else Next ({| ctl := ctl s; store := store s; wq := wq s; xfers := xfers s; fetches := fetches';
                       purges := purges s;
                       pool := pool s ++ [EPay d (if bool_decide (d ∈ j_none J) then None else Some d)];
                       dispatched := dispatched s; finished := finished s; published := published s |}, [])
      end
  | LPurge (h, d) =>
      match list_remove (h, d) (purges s) with
      | None => Disabled
      | Some purges' =>
          Next ({| ctl := ctl s; store := store s ∖ {[(h, d)]}; wq := wq s; xfers := xfers s;
                   fetches := fetches s; purges := purges'; pool := pool s;
                   dispatched := dispatched s; finished := finished s; published := published s |}, [])
      end
  end.

(* run a label list; the commands of each step are collected *)
Fixpoint run (J : job) (E : env) (s : sys) (ls : list label) : res (sys * list (list cmd)) :=
  match ls with
  | [] => Next (s, [])
  | l :: ls' =>
      match exec J E s l with
      | Next (s', cs) =>
          match run J E s' ls' with
          | Next (s'', css) => Next (s'', cs :: css)
          | Disabled => Disabled | Crash e => Crash e | Fail e => Fail e
          end
      | Disabled => Disabled | Crash e => Crash e | Fail e => Fail e
      end
  end.
