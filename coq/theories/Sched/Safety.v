(* Every reachable state of controller x cluster satisfies the invariant; no step of any
   run makes the controller raise (Crash) or asks the cluster for something impossible (Fail). *)
From stdpp Require Import gmap.
From Coq Require Import NArith String.
From EKW Require Import Sched.Model Sched.Lemmas Sched.Inv Sched.InvInit Sched.InvEnv Sched.InvCtl.
Local Open Scope N_scope.

Section safety.
  Context (J : job) (E : env).
  Hypothesis wf_nout : ∀ t, is_task J t → 1 ≤ nout J t.

  Lemma last_out_1 t : (last_out J t).1 = t.
  Proof. done. Qed.

  Lemma deliver_pub_pool s w d ps :
    Inv J E s → list_remove (EPub w d) (pool s) = Some ps →
    (∀ e, e ∈ ps → e ∈ pool s) ∧ NoDup (pub_ds ps) ∧ NoDup (pay_ds ps) ∧
    (d ≠ last_out J d.1 → ∀ w' t, EPub w' (last_out J t) ∈ pool s → EPub w' (last_out J t) ∈ ps) ∧
    (∀ d', d' ∈ pub_ds (pool s) → d' ∈ pub_ds ps ∨ d' = d) ∧ (∀ d', d' ∈ pay_ds (pool s) → d' ∈ pay_ds ps).
  Proof.
    intros Hinv Hrm. split; [intros y Hy; rewrite (list_remove_elem _ _ _ y Hrm); auto|].
    pose proof (remove_pub_ds _ _ _ Hrm) as Hpub. pose proof (remove_pay_ds _ _ _ Hrm) as Hpay. simpl in *.
    pose proof (i_pub_nodup _ _ _ Hinv) as H1. rewrite Hpub in H1. apply NoDup_cons in H1 as [_ H1].
    pose proof (i_pay_nodup _ _ _ Hinv) as H2. rewrite Hpay in H2.
    split; [done|]. split; [done|]. split.
    { intros Hne w' t Hin. rewrite (list_remove_elem _ _ _ _ Hrm) in Hin.
      destruct Hin as [Heq|?]; [|done]. exfalso. injection Heq as _ Heq. apply Hne. rewrite <- Heq. reflexivity. }
    split.
    - intros d' Hd'. rewrite Hpub in Hd'. apply elem_of_cons in Hd' as [?|?]; auto.
    - intros d' Hd'. by rewrite Hpay in Hd'.
  Qed.

  Lemma deliver_xfer_pool s h d ps :
    Inv J E s → list_remove (EXfer h d) (pool s) = Some ps →
    (∀ e, e ∈ ps → e ∈ pool s) ∧ NoDup (pub_ds ps) ∧ NoDup (pay_ds ps) ∧
    (∀ w' t, EPub w' (last_out J t) ∈ pool s → EPub w' (last_out J t) ∈ ps) ∧
    (∀ d', d' ∈ pub_ds (pool s) → d' ∈ pub_ds ps ∨ d' = d) ∧ (∀ d', d' ∈ pay_ds (pool s) → d' ∈ pay_ds ps).
  Proof.
    intros Hinv Hrm. split; [intros y Hy; rewrite (list_remove_elem _ _ _ y Hrm); auto|].
    pose proof (remove_pub_ds _ _ _ Hrm) as Hpub. pose proof (remove_pay_ds _ _ _ Hrm) as Hpay. simpl in *.
    pose proof (i_pub_nodup _ _ _ Hinv) as H1. rewrite Hpub in H1.
    pose proof (i_pay_nodup _ _ _ Hinv) as H2. rewrite Hpay in H2.
    split; [done|]. split; [done|]. split.
    { intros w' t Hin. rewrite (list_remove_elem _ _ _ _ Hrm) in Hin. by destruct Hin as [?|?]. }
    split.
    - intros d' Hd'. left. by rewrite Hpub in Hd'.
    - intros d' Hd'. by rewrite Hpay in Hd'.
  Qed.

  (* what one step can return, given the invariant *)
  Theorem exec_inv s l :
    Inv J E s →
    match exec J E s l with
    | Next (s', _) => Inv J E s'
    | Disabled => True
    | Crash _ => False
    | Fail _ => False
    end.
  Proof.
    intros Hinv. destruct l as [w t srcs| |ev|w i|[[d src] tgt]|[d src]|[h d]]; simpl.
    - (* LAssign *)
      destruct (assign_c J E (ctl s) w t srcs) as [[c h]| |e|e] eqn:Ha; try done.
      + case_bool_decide as Hwq.
        * (* double task sequence: impossible, the worker was idle *)
          unfold assign_c in Ha. destruct (e_host E !! w); [|done].
          destruct (negb _) eqn:Hen in Ha; [done|]. apply negb_false_iff in Hen.
          apply andb_prop in Hen as [Hen _]. apply andb_prop in Hen as [_ Hwi]. apply bool_decide_eq_true in Hwi.
          destruct (i_idle _ _ _ Hinv _ Hwi) as (_ & _ & Hn). rewrite Hn in Hwq. by destruct Hwq.
        * apply inv_assign; auto. destruct (wq s !! w) eqn:Hw; [|done]. exfalso. apply Hwq. eauto.
      + (* Crash: excluded *)
        unfold assign_c in Ha. destruct (e_host E !! w) as [h|] eqn:Hh; [|done].
        destruct (negb _) eqn:Hen in Ha; [done|]. apply negb_false_iff in Hen.
        apply andb_prop in Hen as [Hen _]. apply andb_prop in Hen as [Htc Hwi].
        apply bool_decide_eq_true in Htc, Hwi.
        destruct (i_comp _ _ _ Hinv _ Htc) as (Htask & Hnc & Hseen & _).
        case_bool_decide as Hnf.
        * destruct Hnf as (d & Hd & Hemp). apply elem_of_filter in Hd as [_ Hd].
          destruct (live_not_purged J E wf_nout s t d Hinv Htask Hnc Hd) as [Hp _].
          destruct (i_seen_avail _ _ _ Hinv d (Hseen _ Hd) Hp) as [h' Hh'].
          apply avail_hosts_spec in Hh'. rewrite Hemp in Hh'. set_solver.
        * destruct (negb _) eqn:Hval in Ha; [done|].
          destruct (i_idle _ _ _ Hinv _ Hwi) as (_ & Hong0 & _). unfold ong in Hong0.
          destruct (ongoing (ctl s) !! w) as [X|]; [|done]. simpl in Hong0. subst X.
          case_bool_decide; [set_solver|done].
      + unfold assign_c in Ha. destruct (e_host E !! w); [|done].
        destruct (negb _) in Ha; [done|]. case_bool_decide; [done|]. destruct (negb _) in Ha; [done|].
        destruct (ongoing (ctl s) !! w); [case_bool_decide|]; done.
    - (* LFlush *) destruct (flush_c J (ctl s)) as [[c fl] pl] eqn:Hf. by apply inv_flush.
    - (* LDeliver *)
      destruct (list_remove ev (pool s)) as [ps|] eqn:Hrm; [|done].
      pose proof (list_remove_in _ _ _ Hrm) as Hin.
      destruct ev as [w d|h d|d v]; simpl.
      + destruct (i_pub _ _ _ Hinv _ _ Hin) as (Hfin & Hout & Htask & Hl0 & h & Hh & Hst). rewrite Hh.
        assert (Hl : d = last_out J d.1 → d.1 ∈ ong (ctl s) w) by (intros Heq; by destruct (Hl0 Heq)).
        destruct (deliver_pub_pool s w d ps Hinv Hrm) as (Hsub & Hn1 & Hn2 & Hlast & Hpk & Hyk).
        case_bool_decide as Hlo.
        * (* last output: publication, then completion *)
          specialize (Hl Hlo).
          assert (Hinv1 : Inv J E {| ctl := publish_c J (ctl s) h d; store := store s; wq := wq s; xfers := xfers s;
                     fetches := fetches s; purges := purges s; pool := pool s; dispatched := dispatched s; finished := finished s; published := published s |}).
          { apply inv_publish; auto. apply (i_pub_nodup _ _ _ Hinv). apply (i_pay_nodup _ _ _ Hinv). }
          assert (Hseenlast : d ∈ seen (publish_c J (ctl s) h d)).
          { destruct (publish_fields J (ctl s) h d) as (_&_&_&_&_&_&_&_&_&Ese&_). rewrite Ese. set_solver. }
          destruct (complete_c J (publish_c J (ctl s) h d) w d.1) as [c2| |e|e] eqn:Hc.
          -- apply (inv_complete J E wf_nout _ w d.1 c2 ps Hinv1); simpl; [by rewrite <- Hlo|by rewrite <- Hlo|done].
          -- unfold complete_c in Hc. case_bool_decide; [|done].
             destruct (ongoing _ !! w); [case_bool_decide|]; done.
          -- (* Crash in completion: excluded *)
             destruct (i_ong _ _ _ Hinv _ _ Hl) as (Hnc & _ & _ & _ & _).
             destruct (publish_fields J (ctl s) h d) as (_ & _ & Eo & _ & Ept & _).
             unfold complete_c in Hc. case_bool_decide as Hall.
             ++ unfold ong in Hl. rewrite Eo in Hc. destruct (ongoing (ctl s) !! w) as [X|]; [|simpl in Hl; set_solver].
                simpl in Hl. case_bool_decide; done.
             ++ exfalso. apply Hall. intros sd Hsd. rewrite Ept. apply (i_ptr _ _ _ Hinv _ Htask Hnc _ Hsd).
          -- unfold complete_c in Hc. case_bool_decide; [|done].
             destruct (ongoing _ !! w); [case_bool_decide|]; done.
        * apply inv_publish; auto.
      + destruct (i_xev _ _ _ Hinv _ _ Hin) as [Hfin Hst].
        destruct (deliver_xfer_pool s h d ps Hinv Hrm) as (Hsub & Hn1 & Hn2 & Hlast & Hpk & Hyk).
        apply inv_publish; auto.
      + by apply inv_pay.
    - (* LPublish *)
      destruct (wq s !! w) as [t|] eqn:Hw; [|done]. destruct (e_host E !! w) as [h|] eqn:Hh; [|done].
      case_bool_decide as Hins; [|done]. simpl.
      match goal with |- context [if negb ?b then _ else _] => destruct b eqn:Hc end; simpl; [|done].
      apply andb_prop in Hc as [Hc Hpre]. apply andb_prop in Hc as [Hout Hnp].
      apply bool_decide_eq_true in Hout, Hnp, Hpre.
      case_bool_decide as Hst.
      + apply Hnp. by apply (i_store_pub _ _ _ Hinv h).
      + by apply (inv_pubstep J E wf_nout s w t h (t, i)).
    - (* LXfer *)
      destruct (list_remove (d, src, tgt) (xfers s)) as [xs|] eqn:Hrm; [|done].
      pose proof (list_remove_in _ _ _ Hrm) as Hin.
      destruct (i_xfer _ _ _ Hinv _ _ _ Hin) as (Hp & _ & Hav & _).
      pose proof (i_avail_store _ _ _ Hinv _ _ Hav Hp) as Hst.
      case_bool_decide; [|done]. simpl. eapply inv_xfer; eauto.
    - (* LFetch *)
      destruct (list_remove (d, src) (fetches s)) as [fs|] eqn:Hrm; [|done].
      pose proof (list_remove_in _ _ _ Hrm) as Hin.
      destruct (i_fetch _ _ _ Hinv _ _ Hin) as (He & Ho & _ & Hav & _).
      assert (Hp : d ∉ purged (ctl s)).
      { intros Hp. destruct (i_pq _ _ _ Hinv d ltac:(set_solver)) as (_ & _ & Hv). specialize (Hv He).
        unfold has_value in Hv. by rewrite Ho in Hv. }
      pose proof (i_avail_store _ _ _ Hinv _ _ Hav Hp) as Hst.
      case_bool_decide; [|done]. simpl. eapply inv_fetch; eauto.
    - (* LPurge *)
      destruct (list_remove (h, d) (purges s)) as [ps|] eqn:Hrm; [|done]. eapply inv_purge; eauto.
  Qed.

  Theorem run_inv ls : ∀ s, Inv J E s →
    match run J E s ls with
    | Next (s', _) => Inv J E s'
    | Disabled => True
    | Crash _ => False
    | Fail _ => False
    end.
  Proof.
    induction ls as [|l ls IH]; intros s Hinv; simpl; [done|].
    pose proof (exec_inv s l Hinv) as Hs. destruct (exec J E s l) as [[s' cs]| |e|e]; try done.
    specialize (IH s' Hs). destruct (run J E s' ls) as [[s'' css]| |e|e]; done.
  Qed.

  Corollary reachable_inv ls s css : run J E (init J E) ls = Next (s, css) → Inv J E s.
  Proof. intros H. pose proof (run_inv ls _ (inv_init J E)) as Hr. by rewrite H in Hr. Qed.

  Corollary never_crash_never_fail ls :
    (∀ e, run J E (init J E) ls ≠ Crash e) ∧ (∀ e, run J E (init J E) ls ≠ Fail e).
  Proof.
    pose proof (run_inv ls _ (inv_init J E)) as Hr.
    split; intros e He; by rewrite He in Hr.
  Qed.
End safety.
