(* Characterising lemmas for the map/set operations used by Sched/Model.v, so that the
   invariant proofs depend on these interfaces and not on the definitions. *)
From stdpp Require Import gmap.
From Coq Require Import NArith String.
From EKW Require Import Sched.Model.
Local Open Scope N_scope.

(* ------------------------------------------------------------------ prep_map / union *)
Lemma prep_map_lookup h X d h' b :
  prep_map h X !! (d, h') = Some b ↔ d ∈ X ∧ h' = h ∧ b = false.
Proof.
  unfold prep_map. rewrite lookup_set_to_map.
  - split.
    + intros (y & Hy & Heq). injection Heq as -> -> <-. auto.
    + intros (Hd & -> & ->). exists d. auto.
  - intros y y' _ _ Heq. simpl in Heq. congruence.
Qed.

Lemma prep_union_true m h X k : (m ∪ prep_map h X) !! k = Some true ↔ m !! k = Some true.
Proof.
  rewrite lookup_union_Some_raw. destruct k as [d h']. split.
  - intros [H|[_ H]]; [done|]. apply prep_map_lookup in H as (_ & _ & ?). done.
  - auto.
Qed.

Lemma prep_union_keep m h X k b : m !! k = Some b → (m ∪ prep_map h X) !! k = Some b.
Proof. intros H. rewrite lookup_union_Some_raw. auto. Qed.

Lemma prep_union_is_Some m h X d h' :
  is_Some ((m ∪ prep_map h X) !! (d, h')) ↔ is_Some (m !! (d, h')) ∨ (d ∈ X ∧ h' = h).
Proof.
  split.
  - intros [b Hb]. apply lookup_union_Some_raw in Hb as [Hb|[_ Hb]]; [eauto|].
    apply prep_map_lookup in Hb as (? & ? & _). auto.
  - intros [[b Hb]|[Hd ->]].
    + exists b. by apply prep_union_keep.
    + destruct (m !! (d, h)) as [b|] eqn:Hm.
      * exists b. by apply prep_union_keep.
      * exists false. apply lookup_union_Some_raw. right. split; [done|]. by apply prep_map_lookup.
Qed.

(* ------------------------------------------------------------------ flush filter *)
Lemma drop_lookup (pq : gset ds) (m : gmap (ds * host) bool) d h b :
  filter (λ p : ds * host * bool, p.1.1 ∉ pq) m !! (d, h) = Some b ↔ m !! (d, h) = Some b ∧ d ∉ pq.
Proof. rewrite map_filter_lookup_Some. simpl. done. Qed.

Lemma drop_lookup_is_Some (pq : gset ds) (m : gmap (ds * host) bool) d h :
  is_Some (filter (λ p : ds * host * bool, p.1.1 ∉ pq) m !! (d, h)) ↔ is_Some (m !! (d, h)) ∧ d ∉ pq.
Proof.
  split.
  - intros [b Hb]. apply drop_lookup in Hb as [? ?]. eauto.
  - intros [[b Hb] ?]. exists b. by apply drop_lookup.
Qed.

Lemma hosts_of_spec (m : gmap (ds * host) bool) d h : h ∈ hosts_of m d ↔ is_Some (m !! (d, h)).
Proof.
  unfold hosts_of. rewrite elem_of_map. split.
  - intros ([d' h'] & -> & Hin). simpl. apply elem_of_dom in Hin as [b Hb].
    apply map_filter_lookup_Some in Hb as [Hb Hd]. simpl in Hd. subst. eauto.
  - intros [b Hb]. exists (d, h). split; [done|]. apply elem_of_dom. exists b.
    apply map_filter_lookup_Some. done.
Qed.

Lemma avail_hosts_spec (m : gmap (ds * host) bool) d h : h ∈ avail_hosts m d ↔ m !! (d, h) = Some true.
Proof.
  unfold avail_hosts. rewrite elem_of_map. split.
  - intros ([d' h'] & -> & Hin). simpl. apply elem_of_dom in Hin as [b Hb].
    apply map_filter_lookup_Some in Hb as [Hb [Hd Ht]]. simpl in *. subst. done.
  - intros Hb. exists (d, h). split; [done|]. apply elem_of_dom. exists true.
    apply map_filter_lookup_Some. done.
Qed.

(* ------------------------------------------------------------------ tracker filters *)
Lemma filter_notin_lookup {A : Type} (X : gset ds) (m : gmap ds A) d :
  filter (λ p : ds * A, p.1 ∉ X) m !! d = if decide (d ∈ X) then None else m !! d.
Proof.
  destruct (decide (d ∈ X)) as [Hd|Hd].
  - apply map_filter_lookup_None. right. intros x _ Hn. simpl in Hn. done.
  - destruct (m !! d) as [x|] eqn:Hm.
    + apply map_filter_lookup_Some. done.
    + apply map_filter_lookup_None. auto.
Qed.

(* ------------------------------------------------------------------ all_ins / consumers *)
Lemma consumers_spec J d t : t ∈ consumers J d ↔ ∃ X, j_ins J !! t = Some X ∧ d ∈ X.
Proof.
  unfold consumers. rewrite elem_of_dom. split.
  - intros [X HX]. apply map_filter_lookup_Some in HX as [? ?]. eauto.
  - intros (X & HX & Hd). exists X. apply map_filter_lookup_Some. done.
Qed.

Lemma all_ins_spec J d : d ∈ all_ins J ↔ ∃ t X, j_ins J !! t = Some X ∧ d ∈ X.
Proof.
  unfold all_ins. apply (map_fold_ind (λ acc m, d ∈ acc ↔ ∃ t X, m !! t = Some X ∧ d ∈ X)).
  - split; [set_solver|]. intros (t & X & H & _). by rewrite lookup_empty in H.
  - intros t X m acc Hm IH. rewrite elem_of_union, IH. split.
    + intros [Hd|(t' & X' & Ht' & Hd)].
      * exists t, X. by rewrite lookup_insert.
      * exists t', X'. split; [|done]. rewrite lookup_insert_ne; [done|]. intros ->. congruence.
    + intros (t' & X' & Ht' & Hd). destruct (decide (t = t')) as [->|Hne].
      * rewrite lookup_insert in Ht'. injection Ht' as ->. auto.
      * rewrite lookup_insert_ne in Ht' by done. right. eauto.
Qed.

Lemma ins_spec J t d : d ∈ ins J t ↔ ∃ X, j_ins J !! t = Some X ∧ d ∈ X.
Proof.
  unfold ins. destruct (j_ins J !! t) as [X|] eqn:H; simpl.
  - split; [eauto|]. intros (X' & [= <-] & ?). done.
  - split; [set_solver|]. intros (X' & ? & ?). done.
Qed.

Lemma init_ptracker_lookup J d :
  (set_to_map (λ d, (d, consumers J d)) (all_ins J) : gmap ds (gset task)) !! d
  = if decide (d ∈ all_ins J) then Some (consumers J d) else None.
Proof.
  destruct (decide (d ∈ all_ins J)) as [Hd|Hd].
  - apply lookup_set_to_map; [intros y y' _ _ Heq; simpl in Heq; done|]. exists d. done.
  - destruct (set_to_map _ _ !! d) as [X|] eqn:H; [|done].
    apply lookup_set_to_map in H as (y & Hy & Heq); [|intros y y' _ _ Heq; simpl in Heq; done].
    injection Heq as -> _. done.
Qed.

(* ------------------------------------------------------------------ outs *)
Lemma outs_spec J t d : d ∈ outs J t ↔ d.1 = t ∧ d.2 < nout J t.
Proof.
  unfold outs, outs_list. rewrite elem_of_list_to_set, elem_of_list_fmap. split.
  - intros (i & -> & Hi). apply elem_of_seq in Hi. simpl. split; [done|]. lia.
  - intros [<- Hlt]. exists (N.to_nat d.2). split.
    + destruct d as [a b]. simpl. by rewrite N2Nat.id.
    + apply elem_of_seq. lia.
Qed.

Lemma outs_list_spec J t d : d ∈ outs_list J t ↔ d ∈ outs J t.
Proof. unfold outs. by rewrite elem_of_list_to_set. Qed.

Lemma last_out_in J t : 1 ≤ nout J t → last_out J t ∈ outs J t.
Proof. intros H. apply outs_spec. unfold last_out. simpl. split; [done|lia]. Qed.

(* ------------------------------------------------------------------ list_remove *)
Lemma list_remove_elem {A : Type} `{EqDecision A} (x : A) l k y :
  list_remove x l = Some k → y ∈ l ↔ y = x ∨ y ∈ k.
Proof. intros H. apply list_remove_Some in H. rewrite H. apply elem_of_cons. Qed.

Lemma list_remove_in {A : Type} `{EqDecision A} (x : A) l k : list_remove x l = Some k → x ∈ l.
Proof. intros H. rewrite (list_remove_elem _ _ _ x H). auto. Qed.

Lemma list_remove_NoDup {A : Type} `{EqDecision A} (x : A) l k :
  list_remove x l = Some k → NoDup l → NoDup k ∧ x ∉ k.
Proof. intros H Hnd. apply list_remove_Some in H. rewrite H in Hnd. apply NoDup_cons in Hnd. tauto. Qed.

Lemma list_remove_fmap_perm {A B : Type} `{EqDecision A} (f : A → B) (x : A) l k :
  list_remove x l = Some k → f <$> l ≡ₚ f x :: (f <$> k).
Proof. intros H. apply list_remove_Some in H. rewrite H. done. Qed.
