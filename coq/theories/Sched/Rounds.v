(* C03, continued: in-order delivery keeps [InOrder]; every scheduling round with a true loop
   guard ends up waiting (no spin), given [assign_progress]. *)
From stdpp Require Import gmap.
From Coq Require Import NArith String.
From EKW Require Import Sched.Model Sched.Lemmas Sched.Inv Sched.InvInit Sched.InvEnv Sched.InvCtl Sched.Safety Sched.Progress.
Local Open Scope N_scope.

(* the completion-carrying (key-sorted last) publication of a task is delivered only when no other
   publication of that task is still on its way *)
Definition io_ok (J : job) (s : sys) (l : label) : bool :=
  match l with
  | LDeliver (EPub w d) =>
      if bool_decide (d = last_out J d.1)
      then bool_decide (Forall (λ d', d'.1 = d.1 → d' = d) (pub_ds (pool s)))
      else true
  | _ => true
  end.

Fixpoint run_io (J : job) (E : env) (s : sys) (ls : list label) : res sys :=
  match ls with
  | [] => Next s
  | l :: ls' =>
      if io_ok J s l then
        match exec J E s l with
        | Next (s', _) => run_io J E s' ls'
        | Disabled => Disabled | Crash e => Crash e | Fail e => Fail e
        end
      else Disabled
  end.

Section rounds.
  Context (J : job) (E : env).
  Hypothesis wf_nout : ∀ t, is_task J t → 1 ≤ nout J t.

  Lemma assign_c_fields c w t srcs c' h :
    assign_c J E c w t srcs = Next (c', h) →
    seen c' = seen c ∧ completed c' = completed c ∧ outputs c' = outputs c ∧ t ∈ ong c' w.
  Proof.
    unfold assign_c. destruct (e_host E !! w); [|done]. destruct (negb _); [done|].
    case_bool_decide; [done|]. destruct (negb _); [done|].
    destruct (ongoing c !! w) as [X|] eqn:HX; [case_bool_decide; [done|]|]; intros [= <- <-]; simpl;
      repeat split; unfold ong; simpl; rewrite lookup_insert; simpl; set_solver.
  Qed.

  Lemma complete_c_fields c w t c2 :
    complete_c J c w t = Next c2 → seen c2 = seen c ∧ completed c2 = {[t]} ∪ completed c.
  Proof.
    unfold complete_c. case_bool_decide; [|done]. destruct (ongoing c !! w); [|done].
    case_bool_decide; [|done]. intros [= <-]. done.
  Qed.

  Theorem inorder_step s l s' cs :
    Inv J E s → InOrder J s → io_ok J s l = true → exec J E s l = Next (s', cs) → InOrder J s'.
  Proof.
    intros Hinv Hio Hok Hex. unfold InOrder in *.
    destruct l as [w t srcs| |ev|w i|[[d src] tgt]|[d src]|[h d]]; simpl in Hex.
    - destruct (assign_c J E (ctl s) w t srcs) as [[c h]| |e|e] eqn:Ha; try done.
      case_bool_decide; [done|]. injection Hex as <- <-. simpl.
      destruct (assign_c_fields _ _ _ _ _ _ Ha) as (-> & -> & _). done.
    - destruct (flush_c J (ctl s)) as [[c fl] pl] eqn:Hf. injection Hex as <- <-. simpl.
      unfold flush_c in Hf. injection Hf as <- _ _. simpl. done.
    - destruct (list_remove ev (pool s)) as [ps|] eqn:Hrm; [|done].
      pose proof (list_remove_in _ _ _ Hrm) as Hin.
      destruct ev as [w d|h d|d v]; simpl in Hex.
      + destruct (i_pub _ _ _ Hinv _ _ Hin) as (Hpubd & Hout & Htask & Hl0 & h & Hh & _). rewrite Hh in Hex.
        destruct (publish_fields J (ctl s) h d) as (_&_&_&_&_&_&_&_&_&Ese&Eco&_).
        case_bool_decide as Hlo.
        * destruct (complete_c J (publish_c J (ctl s) h d) w d.1) as [c2| |e|e] eqn:Hc; try done.
          injection Hex as <- <-. simpl. destruct (complete_c_fields _ _ _ _ Hc) as [-> ->]. rewrite Ese, Eco.
          intros t Ht. apply elem_of_union in Ht as [Ht|Ht].
          -- apply elem_of_singleton in Ht as ->. intros d' Hd'. destruct (Hl0 Hlo) as [_ Hfin].
             destruct (i_pub_ev _ _ _ Hinv _ (i_fin_pub _ _ _ Hinv _ Hfin _ Hd')) as [?|Hp]; [set_solver|].
             simpl in Hok. rewrite bool_decide_eq_true_2 in Hok by done. apply bool_decide_eq_true in Hok.
             rewrite Forall_forall in Hok. specialize (Hok _ Hp). apply outs_spec in Hd' as [Hd1 _].
             rewrite (Hok Hd1). set_solver.
          -- specialize (Hio t Ht). set_solver.
        * injection Hex as <- <-. simpl. rewrite ?Ese, ?Eco. intros t Ht. specialize (Hio t Ht). set_solver.
      + injection Hex as <- <-. simpl.
        destruct (publish_fields J (ctl s) h d) as (_&_&_&_&_&_&_&_&_&Ese&Eco&_). rewrite ?Ese, ?Eco.
        intros t Ht. specialize (Hio t Ht). set_solver.
      + injection Hex as <- <-. simpl. done.
    - destruct (wq s !! w); [|done]. destruct (e_host E !! w); [|done].
      destruct (negb _); [done|]. destruct (negb _); [done|]. destruct (bool_decide _); [done|]. injection Hex as <- <-. done.
    - destruct (list_remove _ _); [|done]. destruct (negb _); [done|]. injection Hex as <- <-. done.
    - destruct (list_remove _ _); [|done]. destruct (negb _); [done|]. injection Hex as <- <-. done.
    - destruct (list_remove _ _); [|done]. injection Hex as <- <-. done.
  Qed.

  Theorem run_io_inv_inorder ls : ∀ s s',
    Inv J E s → InOrder J s → run_io J E s ls = Next s' → Inv J E s' ∧ InOrder J s'.
  Proof.
    induction ls as [|l ls IH]; intros s s' Hinv Hio Hr; simpl in Hr; [by injection Hr as <-|].
    destruct (io_ok J s l) eqn:Hok; [|done].
    pose proof (exec_inv J E wf_nout s l Hinv) as Hs.
    destruct (exec J E s l) as [[s1 cs]| |e|e] eqn:Hex; try done.
    apply (IH s1 s'); [done| |done]. by apply (inorder_step s l s1 cs).
  Qed.

  Lemma inorder_init : InOrder J (init J E).
  Proof. intros t Ht. simpl in Ht. set_solver. Qed.

  (* ---------------------------------------------------------------- rounds *)
  Fixpoint assign_phase (s : sys) (asg : list (worker * task * gmap ds host)) : res sys :=
    match asg with
    | [] => Next s
    | (w, t, srcs) :: asg' =>
        match exec J E s (LAssign w t srcs) with
        | Next (s', _) => assign_phase s' asg'
        | Disabled => Disabled | Crash e => Crash e | Fail e => Fail e
        end
    end.

  (* assign* ; plan ; flush -- the part of one loop iteration before the wait *)
  Definition ctl_phase (s : sys) (asg : list (worker * task * gmap ds host)) : res sys :=
    match assign_phase s asg with
    | Next s1 => match exec J E s1 LFlush with Next (s2, _) => Next s2 | _ => Disabled end
    | Disabled => Disabled | Crash e => Crash e | Fail e => Fail e
    end.

  Definition live (s : sys) : Prop := computable (ctl s) ≠ ∅ ∨ has_awaitable J (ctl s) = true.

  Lemma ong_awaitable c w t : t ∈ ong c w → has_awaitable J c = true.
  Proof.
    intros Hw. unfold has_awaitable. apply orb_true_intro. left. apply bool_decide_eq_true.
    assert (t ∈ ongoing_total c) as Hin by (apply ongoing_total_spec; eauto). set_solver.
  Qed.

  Lemma live_assign_phase asg : ∀ s s1, live s → assign_phase s asg = Next s1 → live s1.
  Proof.
    induction asg as [|[[w t] srcs] asg IH]; intros s s1 Hl Hp; cbn [assign_phase] in Hp; [by injection Hp as <-|].
    destruct (exec J E s (LAssign w t srcs)) as [[s' cs]| |e|e] eqn:Hex; try done.
    apply (IH s' s1); [|exact Hp]. right. simpl in Hex.
    destruct (assign_c J E (ctl s) w t srcs) as [[c h]| |e|e] eqn:Ha; try done.
    case_bool_decide; [done|]. injection Hex as <- <-. simpl.
    destruct (assign_c_fields _ _ _ _ _ _ Ha) as (_ & _ & _ & Ho). by apply (ong_awaitable c w t).
  Qed.

  (* no spin: a loop iteration entered with a true guard reaches the wait *)
  Theorem round_waits s asg s2 :
    has_computable (ctl s) || has_awaitable J (ctl s) = true →
    ctl_phase s asg = Next s2 → assign_progress (ctl s2) → has_awaitable J (ctl s2) = true.
  Proof.
    intros Hg Hp Hap. unfold ctl_phase in Hp.
    destruct (assign_phase s asg) as [s1| |e|e] eqn:Hph; try done.
    assert (live s1) as Hl1.
    { apply (live_assign_phase asg s s1); [|done]. apply orb_prop in Hg as [Hc|?]; [left|by right].
      by apply bool_decide_eq_true in Hc. }
    simpl in Hp. destruct (flush_c J (ctl s1)) as [[c fl] pl] eqn:Hf. injection Hp as <-. simpl in *.
    unfold flush_c in Hf. injection Hf as <- _ _.
    destruct Hl1 as [Hc|Ha].
    - specialize (Hap Hc). unfold has_awaitable. apply orb_true_intro. left. by apply bool_decide_eq_true.
    - exact Ha.
  Qed.
End rounds.
