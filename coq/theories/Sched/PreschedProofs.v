(* Proofs about the flood fill (decompose): partition, closure, connectivity, sources.
   Everything is stated for arbitrary adjacency lists ei/eo (any set iteration order). *)
From Coq Require Import List NArith ZArith Bool Lia Permutation.
From EKW Require Import Sched.Presched.
Import ListNotations.

(* ------------------------------------------------------------------ lists *)
Lemma mem_In : forall x l, mem x l = true <-> In x l.
Proof.
  intros x l. unfold mem. rewrite existsb_exists. split.
  - intros [y [Hy He]]. apply N.eqb_eq in He. subst. exact Hy.
  - intros H. exists x. split; [exact H | apply N.eqb_refl].
Qed.

Lemma mem_false : forall x l, mem x l = false <-> ~ In x l.
Proof.
  intros x l. rewrite <- mem_In. destruct (mem x l); split; intros H; congruence.
Qed.

Lemma In_dec_N : forall (x : N) l, {In x l} + {~ In x l}.
Proof. intros. apply in_dec. exact N.eq_dec. Qed.

Lemma NoDup_app_intro : forall (A : Type) (a b : list A),
  NoDup a -> NoDup b -> (forall x, In x a -> ~ In x b) -> NoDup (a ++ b).
Proof.
  intros A a b Ha Hb Hd. induction Ha as [|x a Hx Ha IH]; simpl; [exact Hb|].
  constructor.
  - rewrite in_app_iff. intros [H|H]; [exact (Hx H)|]. exact (Hd x (or_introl eq_refl) H).
  - apply IH. intros y Hy. apply Hd. right. exact Hy.
Qed.

Lemma NoDup_app_l : forall (A : Type) (a b : list A), NoDup (a ++ b) -> NoDup a.
Proof. intros A a b H. induction a as [|x a IH]; [constructor|]. simpl in H. inversion H as [|? ? Hx Hr]; subst.
  constructor; [intro Hi; apply Hx; apply in_or_app; left; exact Hi | exact (IH Hr)]. Qed.

Lemma NoDup_app_r : forall (A : Type) (a b : list A), NoDup (a ++ b) -> NoDup b.
Proof. intros A a b H. induction a as [|x a IH]; [exact H|]. simpl in H. inversion H; subst. auto. Qed.

Lemma NoDup_app_disj : forall (A : Type) (a b : list A) x, NoDup (a ++ b) -> In x a -> ~ In x b.
Proof.
  intros A a b x H. induction a as [|y a IH]; simpl; [tauto|]. simpl in H. inversion H as [|? ? Hy Hr]; subst.
  intros [He|Hi] Hb; [subst; apply Hy; apply in_or_app; right; exact Hb | exact (IH Hr Hi Hb)].
Qed.

(* ------------------------------------------------------------------ the flood fill *)
Section Flood.
  Variables ei eo : N -> list N.

  Definition nbr (a b : N) : Prop := In b (ei a) \/ In b (eo a).

  Inductive conn : N -> N -> Prop :=
  | conn_refl : forall a, conn a a
  | conn_step : forall a b c, conn a b -> nbr b c -> conn a c.

  Lemma conn_trans : forall a b c, conn a b -> conn b c -> conn a c.
  Proof. intros a b c Hab Hbc. induction Hbc as [|b c d _ IH Hn]; [exact Hab|]. eapply conn_step; [exact (IH Hab)|exact Hn]. Qed.

  Definition closed (V : list N) : Prop := forall a b, In a V -> nbr a b -> In b V.

  Lemma visit_fold : forall nb q vis,
    exists new, fold_left visit nb (q, vis) = (new ++ q, new ++ vis) /\
                NoDup new /\ forall x, In x new <-> In x nb /\ ~ In x vis.
  Proof.
    induction nb as [|v r IH]; intros q vis.
    - exists []. simpl. split; [reflexivity|]. split; [constructor|]. intros x. tauto.
    - simpl. unfold visit at 2. simpl. destruct (mem v vis) eqn:Hm.
      + destruct (IH q vis) as [new [He [Hnd Hin]]]. exists new. split; [exact He|]. split; [exact Hnd|].
        intros x. rewrite Hin. apply mem_In in Hm. split; [tauto|]. intros [[Hx|Hx] Hn]; [subst; tauto|tauto].
      + apply mem_false in Hm. destruct (IH (v :: q) (v :: vis)) as [new [He [Hnd Hin]]].
        exists (new ++ [v]). rewrite <- !app_assoc. simpl. split; [exact He|]. split.
        * apply NoDup_app_intro; [exact Hnd | constructor; [simpl; tauto | constructor] |].
          intros x Hx [Hv|[]]. subst. apply Hin in Hx. simpl in Hx. tauto.
        * intros x. rewrite in_app_iff, Hin. simpl. split.
          -- intros [[Hr Hn]|[Hv|[]]]; [tauto | subst; tauto].
          -- intros [[Hv|Hr] Hn]; [tauto|]. destruct (N.eq_dec v x) as [E|E]; [tauto|]. left. tauto.
  Qed.

  Section Inv.
    Variable V0 : list N.
    Variable s : N.

    Record finv (q vis comp : list N) : Prop := {
      fi_nd : NoDup vis;
      fi_perm : Permutation vis (q ++ comp ++ V0);
      fi_conn : forall x, In x (q ++ comp) -> conn s x;
      fi_nbr : forall x y, In x comp -> nbr x y -> In y vis }.

    Lemma finv_step : forall h q0 vis comp,
      finv (h :: q0) vis comp ->
      let st := fold_left visit (ei h ++ eo h) (q0, vis) in
      finv (fst st) (snd st) (comp ++ [h]).
    Proof.
      intros h q0 vis comp [Hnd Hperm Hconn Hnbr]. simpl.
      destruct (visit_fold (ei h ++ eo h) q0 vis) as [new [He [Hndn Hin]]]. rewrite He. simpl.
      constructor.
      - apply NoDup_app_intro; [exact Hndn|exact Hnd|]. intros x Hx. apply Hin in Hx. tauto.
      - rewrite <- app_assoc. apply Permutation_app_head.
        eapply Permutation_trans; [exact Hperm|].
        change (Permutation (h :: (q0 ++ comp ++ V0)) (q0 ++ (comp ++ [h]) ++ V0)).
        replace (q0 ++ (comp ++ [h]) ++ V0) with ((q0 ++ comp) ++ h :: V0) by (rewrite <- !app_assoc; reflexivity).
        replace (q0 ++ comp ++ V0) with ((q0 ++ comp) ++ V0) by (rewrite <- app_assoc; reflexivity).
        apply Permutation_cons_app. apply Permutation_refl.
      - intros x Hx. rewrite !in_app_iff in Hx. simpl in Hx.
        assert (Hh : conn s h) by (apply Hconn; simpl; tauto).
        destruct Hx as [[Hx|Hx]|[Hx|[Hx|[]]]].
        + apply Hin in Hx. destruct Hx as [Hx _]. eapply conn_step; [exact Hh|]. apply in_app_or in Hx. exact Hx.
        + apply Hconn. simpl. right. apply in_or_app. tauto.
        + apply Hconn. simpl. right. apply in_or_app. tauto.
        + subst. exact Hh.
      - intros x y Hx Hn. apply in_app_or in Hx. apply in_or_app. destruct Hx as [Hx|[Hx|[]]].
        + right. exact (Hnbr x y Hx Hn).
        + subst x. destruct (In_dec_N y vis) as [Hv|Hv]; [tauto|]. left. apply Hin. split; [|exact Hv].
          apply in_or_app. exact Hn.
    Qed.

    Lemma flood_inv : forall fuel q vis comp comp' vis',
      finv q vis comp -> flood ei eo fuel q vis comp = Ok (comp', vis') -> finv [] vis' comp' /\ incl comp comp' /\ incl q comp'.
    Proof.
      induction fuel as [|f IH]; intros q vis comp comp' vis' Hinv Hfl.
      - destruct q; simpl in Hfl; [|discriminate]. inversion Hfl; subst. split; [exact Hinv|]. split; [apply incl_refl|intros x []].
      - destruct q as [|h q0]; simpl in Hfl.
        + inversion Hfl; subst. split; [exact Hinv|]. split; [apply incl_refl|intros x []].
        + pose proof (finv_step h q0 vis comp Hinv) as Hst. simpl in Hst.
          destruct (IH _ _ _ _ _ Hst Hfl) as [Hf [Hi1 Hi2]]. split; [exact Hf|]. split.
          * intros x Hx. apply Hi1. apply in_or_app. tauto.
          * intros x [Hx|Hx]; [subst; apply Hi1; apply in_or_app; simpl; tauto|].
            apply Hi2. destruct (visit_fold (ei h ++ eo h) q0 vis) as [new [He _]]. rewrite He. simpl. apply in_or_app. tauto.
    Qed.
  End Inv.

  (* ---------------------------------------------------------------- outer loop *)
  Hypothesis Hsym : forall a b, In a (ei b) <-> In b (eo a).

  Lemma nbr_sym : forall a b, nbr a b -> nbr b a.
  Proof. intros a b [H|H]; [right; apply Hsym; exact H | left; apply Hsym; exact H]. Qed.

  Lemma conn_sym : forall a b, conn a b -> conn b a.
  Proof.
    intros a b H. induction H as [|a b c _ IH Hn]; [constructor|].
    eapply conn_trans; [|exact IH]. eapply conn_step; [constructor|apply nbr_sym; exact Hn].
  Qed.

  (* what one yielded component satisfies *)
  Definition comp_ok (is_src : N -> bool) (c : list N * list N) : Prop :=
    fst c <> [] /\ closed (fst c) /\ (forall a b, In a (fst c) -> In b (fst c) -> conn a b) /\
    snd c = filter is_src (fst c).

  Lemma flood_component : forall fuel V0 s comp vis1,
    NoDup V0 -> closed V0 -> ~ In s V0 ->
    flood ei eo fuel [s] (s :: V0) [] = Ok (comp, vis1) ->
    NoDup vis1 /\ Permutation vis1 (comp ++ V0) /\ In s comp /\ closed comp /\ (forall x, In x comp -> conn s x).
  Proof.
    intros fuel V0 s comp vis1 Hnd Hcl Hs Hfl.
    assert (Hinv : finv V0 s [s] (s :: V0) []).
    { constructor; [constructor; assumption | simpl; apply Permutation_refl | | intros x y []].
      intros x [Hx|[]]. subst. constructor. }
    destruct (flood_inv V0 s _ _ _ _ _ _ Hinv Hfl) as [[Hnd1 Hperm Hconn Hnbr] [_ Hq]]. simpl in Hperm.
    split; [exact Hnd1|]. split; [exact Hperm|]. split; [apply Hq; simpl; tauto|]. split.
    - intros a b Ha Hn. pose proof (Hnbr a b Ha Hn) as Hb. apply (Permutation_in _ Hperm) in Hb.
      apply in_app_or in Hb. destruct Hb as [Hb|Hb]; [exact Hb|]. exfalso.
      assert (Ha0 : In a V0) by (apply (Hcl b a Hb); apply nbr_sym; exact Hn).
      pose proof (Permutation_NoDup Hperm Hnd1) as Hnd2. exact (NoDup_app_disj _ _ _ _ Hnd2 Ha Ha0).
    - intros x Hx. apply Hconn. simpl. exact Hx.
  Qed.

  Lemma closed_app : forall A B, closed A -> closed B -> closed (A ++ B).
  Proof. intros A B HA HB a b Ha Hn. apply in_or_app. apply in_app_or in Ha. destruct Ha as [Ha|Ha]; [left; eapply HA|right; eapply HB]; eauto. Qed.

  Lemma outer_spec : forall fuel is_src srcs V cs,
    NoDup V -> closed V -> outer ei eo fuel is_src srcs V = Ok cs ->
    let all := concat (map fst cs) in
    NoDup (all ++ V) /\ closed (all ++ V) /\ (forall x, In x srcs -> In x (all ++ V)) /\
    Forall (comp_ok is_src) cs /\ (forall x, In x all -> exists s, In s srcs /\ conn s x).
  Proof.
    intros fuel is_src. induction srcs as [|s rest IH]; intros V cs Hnd Hcl Hout; simpl in Hout.
    - inversion Hout; subst. simpl. split; [exact Hnd|]. split; [exact Hcl|]. split; [intros x []|]. split; [constructor|intros x []].
    - destruct (mem s V) eqn:Hm.
      + destruct (IH V cs Hnd Hcl Hout) as [H1 [H2 [H3 [H4 H5]]]]. split; [exact H1|]. split; [exact H2|]. split; [|split; [exact H4|]].
        * intros x [Hx|Hx]; [subst; apply in_or_app; right; apply mem_In; exact Hm | exact (H3 x Hx)].
        * intros x Hx. destruct (H5 x Hx) as [s' [Hs' Hc]]. exists s'. simpl. tauto.
      + apply mem_false in Hm.
        destruct (flood ei eo fuel [s] (s :: V) []) as [[comp vis1]|e] eqn:Hfl; [|discriminate].
        destruct (flood_component _ _ _ _ _ Hnd Hcl Hm Hfl) as [Hnd1 [Hperm [Hs [Hclc Hconn]]]].
        destruct (outer ei eo fuel is_src rest vis1) as [cs'|e] eqn:Hrest; [|discriminate].
        inversion Hout; subst cs. clear Hout.
        assert (Hcl1 : closed vis1).
        { intros a b Ha Hn. apply (Permutation_in _ (Permutation_sym Hperm)).
          apply (closed_app _ _ Hclc Hcl a b); [|exact Hn]. exact (Permutation_in _ Hperm Ha). }
        destruct (IH vis1 cs' Hnd1 Hcl1 Hrest) as [H1 [H2 [H3 [H4 H5]]]]. simpl.
        assert (HP : Permutation (concat (map fst cs') ++ vis1) ((comp ++ concat (map fst cs')) ++ V)).
        { eapply Permutation_trans; [apply Permutation_app_head; exact Hperm|].
          rewrite !app_assoc. apply Permutation_app_tail. apply Permutation_app_comm. }
        split; [exact (Permutation_NoDup HP H1)|]. split.
        * intros a b Ha Hn. apply (Permutation_in _ HP). eapply H2; [|exact Hn]. exact (Permutation_in _ (Permutation_sym HP) Ha).
        * split.
          -- intros x [Hx|Hx].
             ++ subst. apply in_or_app. left. apply in_or_app. left. exact Hs.
             ++ apply (Permutation_in _ HP). exact (H3 x Hx).
          -- split.
             ++ constructor; [|exact H4]. unfold comp_ok. simpl. split; [intro E; rewrite E in Hs; exact Hs|].
                split; [exact Hclc|]. split; [|reflexivity].
                intros a b Ha Hb. eapply conn_trans; [apply conn_sym; exact (Hconn a Ha)|exact (Hconn b Hb)].
             ++ intros x Hx. apply in_app_or in Hx. destruct Hx as [Hx|Hx].
                ** exists s. split; [left; reflexivity|exact (Hconn x Hx)].
                ** destruct (H5 x Hx) as [s' [Hs' Hc]]. exists s'. split; [right; exact Hs'|exact Hc].
  Qed.

  (* ---------------------------------------------------------------- decompose on a well formed acyclic graph *)
  Variable nodes : list N.
  Hypothesis Hnodes : NoDup nodes.
  Hypothesis Hwf : forall a b, In b (eo a) -> In a nodes /\ In b nodes.
  Hypothesis Hacyc : exists rank : N -> nat, forall a b, In b (eo a) -> rank a < rank b.

  Lemma nbr_nodes : forall a b, nbr a b -> In a nodes /\ In b nodes.
  Proof. intros a b [H|H]; [apply Hsym in H; apply Hwf in H; tauto | apply Hwf in H; tauto]. Qed.

  Lemma conn_nodes : forall a b, conn a b -> In a nodes -> In b nodes.
  Proof. intros a b H. induction H as [|a b c _ IH Hn]; [tauto|]. intros _. apply nbr_nodes in Hn. tauto. Qed.

  Lemma null_nil : forall (A : Type) (l : list A), null l = true <-> l = [].
  Proof. intros A l. destruct l; simpl; split; intros H; congruence. Qed.

  Lemma source_reaches : forall n, In n nodes -> exists s, In s (sources_of ei nodes) /\ conn s n.
  Proof.
    destruct Hacyc as [rank Hrank].
    assert (H : forall k n, rank n < k -> In n nodes -> exists s, In s (sources_of ei nodes) /\ conn s n).
    { induction k as [|k IH]; intros n Hk Hn; [lia|].
      destruct (ei n) as [|a r] eqn:He.
      - exists n. split; [|constructor]. unfold sources_of. apply filter_In. split; [exact Hn|]. rewrite He. reflexivity.
      - assert (Ha : In a (ei n)) by (rewrite He; simpl; tauto).
        pose proof (proj1 (Hsym a n) Ha) as Hn'. pose proof (Hrank a n Hn') as Hlt.
        destruct (IH a) as [s [Hs Hc]]; [lia | apply (Hwf a n Hn') |].
        exists s. split; [exact Hs|]. eapply conn_step; [exact Hc|]. right. exact Hn'. }
    intros n Hn. apply (H (S (rank n)) n); [lia|exact Hn].
  Qed.

  Theorem decompose_spec : forall fuel cs,
    decompose ei eo fuel nodes = Ok cs ->
    Permutation (concat (map fst cs)) nodes /\
    Forall (comp_ok (fun e => mem e (sources_of ei nodes))) cs.
  Proof.
    intros fuel cs Hd. unfold decompose in Hd.
    assert (Hcl0 : closed []) by (intros a b []).
    destruct (outer_spec _ _ _ _ _ (NoDup_nil N) Hcl0 Hd) as [H1 [H2 [H3 [H4 H5]]]].
    rewrite app_nil_r in H1, H2, H3. split; [|exact H4].
    apply NoDup_Permutation; [exact H1|exact Hnodes|]. intros x. split.
    - intros Hx. destruct (H5 x Hx) as [s [Hs Hc]]. apply (conn_nodes s x Hc).
      unfold sources_of in Hs. apply filter_In in Hs. tauto.
    - intros Hx. destruct (source_reaches x Hx) as [s [Hs Hc]].
      assert (Hcc : forall a b, conn a b -> In a (concat (map fst cs)) -> In b (concat (map fst cs))).
      { intros a b Hab. induction Hab as [|a b c _ IH Hn]; [tauto|]. intros Ha. exact (H2 b c (IH Ha) Hn). }
      exact (Hcc s x Hc (H3 s Hs)).
  Qed.
End Flood.
