From stdpp Require Import gmap.
From Coq Require Import NArith String.
From EKW Require Import Sched.Model Sched.Lemmas Sched.Inv.
Local Open Scope N_scope.

Lemma sources_spec J t : t ∈ sources J ↔ j_ins J !! t = Some ∅.
Proof.
  unfold sources. rewrite elem_of_dom. split.
  - intros [X HX]. apply map_filter_lookup_Some in HX as [HX Hs]. simpl in Hs. by subst.
  - intros H. exists ∅. apply map_filter_lookup_Some. done.
Qed.

Lemma inv_init J E : Inv J E (init J E).
Proof.
  constructor; simpl; try (intros; set_solver); try (by constructor).
  - intros w Hw. apply elem_of_dom in Hw. split; [done|]. split; [|done]. unfold ong. simpl. by rewrite lookup_empty.
  - intros t [X HX] _ sd Hsd. unfold ptr. simpl. rewrite init_ptracker_lookup.
    apply ins_spec in Hsd as (X' & HX' & Hsd).
    rewrite decide_True by (apply all_ins_spec; eauto). simpl. apply consumers_spec. eauto.
  - intros t Ht. apply sources_spec in Ht. split; [by eexists|]. split; [set_solver|].
    split; [|set_solver]. unfold ins. rewrite Ht. simpl. set_solver.
  - intros t X HX. apply map_filter_lookup_Some in HX as [HX Hne]. simpl in Hne.
    split; [by eexists|]. split; [set_solver|]. split; [set_solver|]. split.
    + intros Hs. apply sources_spec in Hs. congruence.
    + split; [done|]. unfold ins. rewrite HX. simpl. set_solver.
  - intros d h. rewrite lookup_empty. intros [? ?]. done.
  - intros t [X HX] _. destruct (decide (X = ∅)) as [->|Hne].
    + left. by apply sources_spec.
    + right. left. exists X. apply map_filter_lookup_Some. done.
Qed.
