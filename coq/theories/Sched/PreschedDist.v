(* Proofs about enrich: the `paths` table holds shortest descendant distances capped at L, and the
   nearest-common-descendant matrix is min(L, min over c of max(sp a c, sp b c)). *)
From Coq Require Import List NArith ZArith Bool Lia Permutation.
From EKW Require Import Sched.Presched Sched.PreschedProofs Sched.PreschedEnrich Sched.PreschedJob.
Import ListNotations.
Open Scope Z_scope.

Notation keys := (map fst).

Section Dist.
  Variable eo : N -> list N.
  Variable L : Z.
  Hypothesis HL : 1 <= L.
  Hypothesis Hnoself : forall v, ~ In v (eo v).

  (* pget L pv x is the shortest distance from v to x, capped at L (L if unreachable) *)
  Definition capped (v : N) (pv : pmap) : Prop :=
    forall x, pget L pv x <= L /\ (forall d, path eo v x d -> pget L pv x <= d) /\
              (pget L pv x = L \/ path eo v x (pget L pv x)).
  (* raw entries (the loop `for desc, dist in paths[c].items()` sees all of them) *)
  Definition entries_ok (v : N) (pv : pmap) : Prop :=
    forall x d, In (x, d) pv -> path eo v x d \/ L <= d.

  Definition paths_ok (paths : list (N * pmap)) : Prop :=
    forall v pv, lookup N.eqb v paths = Some pv -> capped v pv /\ entries_ok v pv.

  Lemma pget_dset : forall pv k z x, pget L (dset N.eqb k z pv) x = if N.eqb x k then z else pget L pv x.
  Proof.
    intros pv k z x. unfold pget. destruct (N.eqb x k) eqn:E.
    - apply N.eqb_eq in E. subst. rewrite lookup_dset_eq. reflexivity.
    - rewrite lookup_dset_neq; [reflexivity|]. intros H. subst. rewrite N.eqb_refl in E. discriminate.
  Qed.

  Lemma pget_entry : forall pv x, pget L pv x = L \/ In (x, pget L pv x) pv.
  Proof. intros pv x. unfold pget. destruct (lookup N.eqb x pv) as [d|] eqn:E; [right; exact (lookup_In _ _ _ E)|tauto]. Qed.

  (* state of the inner loops while paths[v] is being built; S = children already merged *)
  Definition building (v : N) (S : list N) (pv : pmap) : Prop :=
    (forall x, pget L pv x <= L) /\
    (forall x, pget L pv x = L \/ path eo v x (pget L pv x)) /\
    pget L pv v = 0 /\
    (forall c x d, In c S -> path eo c x d -> pget L pv x <= d + 1) /\
    entries_ok v pv.

  Lemma building_lower : forall v S pv x, building v S pv -> x <> v -> 1 <= pget L pv x.
  Proof.
    intros v S pv x [_ [H2 _]] Hx. destruct (H2 x) as [E|Hp]; [lia|].
    pose proof (path_nonneg _ _ _ _ Hp) as Hn. destruct (Z.eq_dec (pget L pv x) 0) as [E|E]; [|lia].
    rewrite E in Hp. apply path_zero in Hp. congruence.
  Qed.

  Lemma building_init : forall v, building v [] [(v, 0)].
  Proof.
    intros v. assert (Hg : forall x, pget L [(v, 0)] x = if N.eqb x v then 0 else L).
    { intros x. unfold pget. simpl. destruct (N.eqb x v); reflexivity. }
    repeat split.
    - intros x. rewrite Hg. destruct (N.eqb x v); lia.
    - intros x. rewrite Hg. destruct (N.eqb x v) eqn:E; [|tauto]. apply N.eqb_eq in E. subst. right. constructor.
    - rewrite Hg, N.eqb_refl. reflexivity.
    - intros c x d [].
    - intros x d [H|[]]. inversion H; subst. left. constructor.
  Qed.

  (* one `paths[v][desc] = min(paths[v][desc], dist + 1)` *)
  Lemma merge_building : forall v c S pv x0 d0,
    In c (eo v) -> (path eo c x0 d0 \/ L <= d0) -> building v S pv ->
    building v S (merge_desc L pv (x0, d0)) /\
    (forall x, pget L (merge_desc L pv (x0, d0)) x <= pget L pv x) /\
    pget L (merge_desc L pv (x0, d0)) x0 <= d0 + 1.
  Proof.
    intros v c S pv x0 d0 Hc Hd [H1 [H2 [H3 [H4 H5]]]]. unfold merge_desc. simpl fst. simpl snd.
    assert (Hnew : Z.min (pget L pv x0) (d0 + 1) = L \/ path eo v x0 (Z.min (pget L pv x0) (d0 + 1))).
    { destruct (Z.min_spec (pget L pv x0) (d0 + 1)) as [[Hlt E]|[Hle E]]; rewrite E; [exact (H2 x0)|].
      destruct Hd as [Hp|Hbig]; [right; eapply path_step; eauto|]. pose proof (H1 x0). lia. }
    assert (Hg : forall x, pget L (dset N.eqb x0 (Z.min (pget L pv x0) (d0 + 1)) pv) x =
                           if N.eqb x x0 then Z.min (pget L pv x0) (d0 + 1) else pget L pv x) by (intros; apply pget_dset).
    split; [|split].
    - repeat split.
      + intros x. rewrite Hg. destruct (N.eqb x x0); [pose proof (H1 x0); lia|apply H1].
      + intros x. rewrite Hg. destruct (N.eqb x x0) eqn:E; [apply N.eqb_eq in E; subst; exact Hnew|apply H2].
      + rewrite Hg. destruct (N.eqb v x0) eqn:E; [|exact H3]. apply N.eqb_eq in E. subst x0. rewrite H3.
        destruct Hd as [Hp|Hbig]; [apply path_nonneg in Hp; lia|lia].
      + intros c' x d Hc' Hp. rewrite Hg. destruct (N.eqb x x0) eqn:E; [|exact (H4 c' x d Hc' Hp)].
        apply N.eqb_eq in E. subst. pose proof (H4 c' x0 d Hc' Hp). lia.
      + intros x d Hin. apply In_dset in Hin. destruct Hin as [Hin|Hin]; [|exact (H5 x d Hin)].
        inversion Hin; subst. destruct Hnew as [E|Hp]; [right; lia|left; exact Hp].
    - intros x. rewrite Hg. destruct (N.eqb x x0) eqn:E; [apply N.eqb_eq in E; subst; lia|lia].
    - rewrite Hg, N.eqb_refl. lia.
  Qed.

  Lemma merge_fold_building : forall v c S es pv,
    In c (eo v) -> (forall x d, In (x, d) es -> path eo c x d \/ L <= d) -> building v S pv ->
    building v S (fold_left (merge_desc L) es pv) /\
    (forall x, pget L (fold_left (merge_desc L) es pv) x <= pget L pv x) /\
    (forall x d, In (x, d) es -> pget L (fold_left (merge_desc L) es pv) x <= d + 1).
  Proof.
    intros v c S. induction es as [|[x0 d0] r IH]; intros pv Hc Hes Hb; simpl.
    - split; [exact Hb|]. split; [intros; lia|intros x d []].
    - destruct (merge_building v c S pv x0 d0 Hc (Hes x0 d0 (or_introl eq_refl)) Hb) as [Hb1 [Hm1 He1]].
      destruct (IH _ Hc (fun x d H => Hes x d (or_intror H)) Hb1) as [Hb2 [Hm2 He2]].
      split; [exact Hb2|]. split.
      + intros x. pose proof (Hm1 x). pose proof (Hm2 x). lia.
      + intros x d [H|H]; [inversion H; subst; pose proof (Hm2 x); lia|exact (He2 x d H)].
  Qed.

  (* one child c of v: paths[v][c] = 1, then merge paths[c] *)
  Lemma child_building : forall v c S pv pc,
    In c (eo v) -> capped c pc -> entries_ok c pc -> building v S pv ->
    building v (c :: S) (fold_left (merge_desc L) pc (dset N.eqb c 1 pv)).
  Proof.
    intros v c S pv pc Hc Hcap Hent Hb.
    assert (Hcv : c <> v) by (intros E; subst; exact (Hnoself v Hc)).
    pose proof (building_lower v S pv c Hb Hcv) as Hlow.
    destruct Hb as [H1 [H2 [H3 [H4 H5]]]].
    assert (Hg : forall x, pget L (dset N.eqb c 1 pv) x = if N.eqb x c then 1 else pget L pv x) by (intros; apply pget_dset).
    assert (Hp1 : path eo v c 1) by (replace 1 with (0 + 1) by lia; eapply path_step; [exact Hc|constructor]).
    assert (Hb1 : building v S (dset N.eqb c 1 pv)).
    { repeat split.
      - intros x. rewrite Hg. destruct (N.eqb x c); [lia|apply H1].
      - intros x. rewrite Hg. destruct (N.eqb x c) eqn:E; [apply N.eqb_eq in E; subst; tauto|apply H2].
      - rewrite Hg. destruct (N.eqb v c) eqn:E; [apply N.eqb_eq in E; congruence|exact H3].
      - intros c' x d Hc' Hp. rewrite Hg. destruct (N.eqb x c) eqn:E; [|exact (H4 c' x d Hc' Hp)].
        apply N.eqb_eq in E. subst. pose proof (H4 c' c d Hc' Hp). lia.
      - intros x d Hin. apply In_dset in Hin. destruct Hin as [Hin|Hin]; [inversion Hin; subst; tauto|exact (H5 x d Hin)]. }
    destruct (merge_fold_building v c S pc _ Hc Hent Hb1) as [[G1 [G2 [G3 [G4 G5]]]] [Hm He]].
    repeat split; try assumption.
    intros c' x d [E|Hc'] Hp; [subst c'|exact (G4 c' x d Hc' Hp)].
    destruct (Hcap x) as [_ [Hmin _]]. pose proof (Hmin d Hp) as Hle.
    destruct (pget_entry pc x) as [E|Hin].
    - pose proof (G1 x). lia.
    - pose proof (He x _ Hin). lia.
  Qed.

  Lemma fold_child_paths : forall value paths v cs val0 pv0 val pv S,
    paths_ok paths -> (forall c, In c cs -> In c (eo v)) -> building v S pv0 ->
    fold_left (child_step L value paths) cs (Ok (val0, pv0)) = Ok (val, pv) ->
    building v (rev cs ++ S) pv.
  Proof.
    intros value paths v. induction cs as [|c r IH]; intros val0 pv0 val pv S Hok Hcs Hb H; simpl in H.
    - inversion H; subst. exact Hb.
    - destruct (lookup N.eqb c paths) as [pc|] eqn:Hpc; [|rewrite fold_child_err in H; discriminate].
      destruct (lookup N.eqb c value) as [vc|]; [|rewrite fold_child_err in H; discriminate].
      destruct (Hok c pc Hpc) as [Hcap Hent].
      pose proof (child_building v c S pv0 pc (Hcs c (or_introl eq_refl)) Hcap Hent Hb) as Hb1.
      simpl. rewrite <- app_assoc. simpl.
      exact (IH _ _ _ _ _ Hok (fun c' H' => Hcs c' (or_intror H')) Hb1 H).
  Qed.

  Lemma building_done : forall v pv, building v (rev (eo v)) pv -> capped v pv /\ entries_ok v pv.
  Proof.
    intros v pv [H1 [H2 [H3 [H4 H5]]]]. split; [|exact H5]. intros x. split; [apply H1|]. split; [|apply H2].
    intros d Hp. inversion Hp as [|? b ? d' Hb Hp']; subst.
    - rewrite H3. lia.
    - apply (H4 b x d'); [apply in_rev in Hb; exact Hb|exact Hp'].
  Qed.

  Lemma node_step_paths : forall value paths v value' paths',
    paths_ok paths -> node_step eo L (Ok (value, paths)) v = Ok (value', paths') ->
    paths_ok paths' /\ (forall u, In u (keys paths) \/ u = v -> In u (keys paths')).
  Proof.
    intros value paths v value' paths' Hok H. unfold node_step in H.
    destruct (fold_left (child_step L value paths) (eo v) (Ok (0, [(v, 0)]))) as [[val pv]|e] eqn:Hf; [|discriminate].
    inversion H; subst value' paths'. clear H.
    pose proof (fold_child_paths _ _ v _ _ _ _ _ [] Hok (fun c H => H) (building_init v) Hf) as Hb.
    rewrite app_nil_r in Hb. apply building_done in Hb. split.
    - intros u pu Hu. destruct (N.eq_dec v u) as [E|E].
      + subst u. rewrite lookup_dset_eq in Hu. inversion Hu; subst pu. exact Hb.
      + rewrite lookup_dset_neq in Hu by exact E. exact (Hok u pu Hu).
    - intros u Hu. apply keys_dset. destruct Hu; [right|left]; auto.
  Qed.

  Lemma fold_node_paths : forall vs value paths value' paths',
    paths_ok paths -> fold_left (node_step eo L) vs (Ok (value, paths)) = Ok (value', paths') ->
    paths_ok paths' /\ (forall u, In u (keys paths) \/ In u vs -> In u (keys paths')).
  Proof.
    induction vs as [|v r IH]; intros value paths value' paths' Hok H; cbn [fold_left] in H.
    - inversion H; subst. split; [exact Hok|]. intros u [Hu|[]]. exact Hu.
    - destruct (node_step eo L (Ok (value, paths)) v) as [[value1 paths1]|e] eqn:Hn; [|rewrite fold_node_err in H; discriminate].
      destruct (node_step_paths _ _ _ _ _ Hok Hn) as [Hok1 Hk1].
      destruct (IH _ _ _ _ Hok1 H) as [Hok2 Hk2]. split; [exact Hok2|].
      intros u [Hu|[Hu|Hu]]; apply Hk2; [left; apply Hk1; tauto|left; apply Hk1; right; symmetry; exact Hu|tauto].
  Qed.

  Lemma fold_sink_paths : forall sinks st,
    paths_ok (snd st) -> (forall v, In v sinks -> eo v = []) ->
    paths_ok (snd (fold_left (sink_step L) sinks st)) /\
    (forall u, In u (keys (snd st)) \/ In u sinks -> In u (keys (snd (fold_left (sink_step L) sinks st)))).
  Proof.
    induction sinks as [|v r IH]; intros st Hok Hs; simpl.
    - split; [exact Hok|]. intros u [Hu|[]]. exact Hu.
    - assert (Hok1 : paths_ok (snd (sink_step L st v))).
      { simpl. intros u pu Hu. destruct (N.eq_dec v u) as [E|E].
        - subst u. rewrite lookup_dset_eq in Hu. inversion Hu; subst pu.
          assert (Hv : eo v = []) by (apply Hs; simpl; tauto).
          pose proof (building_init v) as Hb. apply building_done. rewrite Hv. exact Hb.
        - rewrite lookup_dset_neq in Hu by exact E. exact (Hok u pu Hu). }
      destruct (IH (sink_step L st v) Hok1 (fun u Hu => Hs u (or_intror Hu))) as [H1 H2]. split; [exact H1|].
      intros u Hu. apply H2. simpl. rewrite keys_dset. destruct Hu as [Hu|[Hu|Hu]]; auto.
  Qed.

  (* ---------------------------------------------------------------- the matrix *)
  Lemma ncd_cell_spec : forall nodes pa pb,
    let r := ncd_cell L nodes pa pb in
    r <= L /\ (forall c, In c nodes -> r <= Z.max (pget L pa c) (pget L pb c)) /\
    (r = L \/ exists c, In c nodes /\ r = Z.max (pget L pa c) (pget L pb c)).
  Proof.
    intros nodes pa pb. unfold ncd_cell.
    assert (H : forall acc, let r := fold_left (fun acc c => Z.min acc (Z.max (pget L pa c) (pget L pb c))) nodes acc in
              r <= acc /\ (forall c, In c nodes -> r <= Z.max (pget L pa c) (pget L pb c)) /\
              (r = acc \/ exists c, In c nodes /\ r = Z.max (pget L pa c) (pget L pb c))).
    { induction nodes as [|c r IH]; intros acc; simpl.
      - split; [lia|]. split; [intros c []|tauto].
      - destruct (IH (Z.min acc (Z.max (pget L pa c) (pget L pb c)))) as [I1 [I2 I3]]. split; [lia|]. split.
        + intros c' [E|Hc']; [subst; lia|exact (I2 c' Hc')].
        + destruct I3 as [E|[c' [Hc' E]]]; [|right; exists c'; tauto].
          destruct (Z.min_spec acc (Z.max (pget L pa c) (pget L pb c))) as [[_ Em]|[_ Em]].
          * left. rewrite E. exact Em.
          * right. exists c. split; [tauto|]. rewrite E. exact Em. }
    exact (H L).
  Qed.

  (* a b have a common descendant within d steps *)
  Definition common (a b : N) (d : Z) : Prop :=
    exists c da db, path eo a c da /\ path eo b c db /\ da <= d /\ db <= d.

  Lemma ncd_cell_common : forall nodes a b pa pb,
    capped a pa -> capped b pb ->
    (forall c d, path eo a c d -> In a nodes -> In c nodes) -> In a nodes ->
    let r := ncd_cell L nodes pa pb in
    r <= L /\ (forall d, common a b d -> r <= d) /\ (r = L \/ common a b r).
  Proof.
    intros nodes a b pa pb Ha Hb Hcl Hin. destruct (ncd_cell_spec nodes pa pb) as [H1 [H2 H3]]. simpl.
    split; [exact H1|]. split.
    - intros d [c [da [db [Hpa [Hpb [Hda Hdb]]]]]].
      pose proof (H2 c (Hcl c da Hpa Hin)) as Hle.
      destruct (Ha c) as [_ [Hma _]]. destruct (Hb c) as [_ [Hmb _]].
      pose proof (Hma da Hpa). pose proof (Hmb db Hpb). lia.
    - destruct H3 as [E|[c [Hc E]]]; [tauto|].
      destruct (Ha c) as [Hla [_ Hsa]]. destruct (Hb c) as [Hlb [_ Hsb]].
      destruct Hsa as [Ea|Hpa]; [left; lia|]. destruct Hsb as [Eb|Hpb]; [left; lia|].
      right. exists c, (pget L pa c), (pget L pb c). repeat split; try assumption; lia.
  Qed.

  Theorem ncd_spec : forall nodes paths dm,
    paths_ok paths -> (forall a c d, path eo a c d -> In a nodes -> In c nodes) ->
    ncd L nodes paths = Ok dm ->
    map fst dm = nodes /\
    forall a row, In (a, row) dm ->
      map fst row = nodes /\
      forall b r, In (b, r) row ->
        (a = b -> r = 0) /\
        (a <> b -> r <= L /\ (forall d, common a b d -> r <= d) /\ (r = L \/ common a b r)).
  Proof.
    intros nodes paths dm Hok Hcl H. unfold ncd in H. apply res_map_spec in H.
    assert (Hrow : forall a row', ncd_row L nodes paths a = Ok row' -> In a nodes ->
              fst row' = a /\ map fst (snd row') = nodes /\
              forall b r, In (b, r) (snd row') -> (a = b -> r = 0) /\
                (a <> b -> r <= L /\ (forall d, common a b d -> r <= d) /\ (r = L \/ common a b r))).
    { intros a row' Hr Ha. unfold ncd_row in Hr. destruct (lookup N.eqb a paths) as [pa|] eqn:Hpa; [|discriminate].
      destruct (res_map (ncd_entry L nodes paths a pa) nodes) as [row|e] eqn:Hm; [|discriminate]. simpl in Hr.
      inversion Hr; subst row'. simpl. split; [reflexivity|]. apply res_map_spec in Hm.
      destruct (Hok a pa Hpa) as [Hca _].
      assert (Hent : forall b e, ncd_entry L nodes paths a pa b = Ok e ->
                fst e = b /\ (a = b -> snd e = 0) /\
                (a <> b -> snd e <= L /\ (forall d, common a b d -> snd e <= d) /\ (snd e = L \/ common a b (snd e)))).
      { intros b e He. unfold ncd_entry in He. destruct (N.eqb b a) eqn:Eb.
        - apply N.eqb_eq in Eb. inversion He; subst. simpl. split; [reflexivity|]. split; [reflexivity|congruence].
        - destruct (lookup N.eqb b paths) as [pb|] eqn:Hpb; [|discriminate]. inversion He; subst e. simpl.
          split; [reflexivity|]. split; [intros E; subst; rewrite N.eqb_refl in Eb; discriminate|]. intros _.
          destruct (Hok b pb Hpb) as [Hcb _].
          exact (ncd_cell_common nodes a b pa pb Hca Hcb (Hcl a) Ha). }
      clear Hr. split.
      - apply (Forall2_keys _ _ _ _ Hm). intros b e _ Hbe. exact (proj1 (Hent b e Hbe)).
      - intros b r Hin. destruct (Forall2_In_r _ _ _ _ _ _ Hm Hin) as [b' [_ He]]. destruct (Hent b' _ He) as [E [E1 E2]].
        simpl in E, E1, E2. subst b'. tauto. }
    split.
    - apply (Forall2_keys _ _ _ _ H). intros a e Ha Hae. exact (proj1 (Hrow a e Hae Ha)).
    - intros a row Hin. destruct (Forall2_In_r _ _ _ _ _ _ H Hin) as [a' [Ha' Hr]].
      destruct (Hrow a' _ Hr Ha') as [E [Hk Hc]]. simpl in E, Hk, Hc. subst a'. tauto.
  Qed.
End Dist.

(* ------------------------------------------------------------------ enrich: the distance matrix *)
Section EnrichDist.
  Variables ei eo : N -> list N.
  Hypothesis Hsym : forall a b, In a (ei b) <-> In b (eo a).
  Hypothesis Hnoself : forall v, ~ In v (eo v).

  Theorem enrich_dist : forall fuel nodes srcs c,
    (forall a b, In a nodes -> In b (eo a) -> In b nodes) ->
    enrich ei eo fuel (nodes, srcs) = Ok c ->
    1 <= c_depth c /\
    map fst (c_dist c) = nodes /\
    forall a row, In (a, row) (c_dist c) ->
      map fst row = nodes /\
      forall b r, In (b, r) row ->
        (a = b -> r = 0) /\
        (a <> b -> r <= c_depth c /\ (forall d, common eo a b d -> r <= d) /\ (r = c_depth c \/ common eo a b r)).
  Proof.
    intros fuel nodes srcs c Hcl H. destruct (enrich_inv _ _ Hsym _ _ _ _ H) as [tail [st [_ [_ [Hst [Hncd [_ [_ [_ Hd]]]]]]]]].
    rewrite Hd. clear Hd H.
    set (sinks := filter (fun v => null (eo v)) nodes) in *.
    set (L := Z.of_nat (List.length (sinks :: tail))) in *.
    assert (HL : 1 <= L) by (unfold L; simpl List.length; lia).
    assert (Hsk : forall v, In v sinks -> eo v = []).
    { intros v Hv. apply filter_In in Hv. destruct Hv as [_ Hv]. apply null_nil. exact Hv. }
    destruct (fold_sink_paths eo L HL sinks ([], [])) as [Hok0 _]; [intros v pv Hv; discriminate|exact Hsk|].
    destruct (fold_left (sink_step L) sinks ([], [])) as [value0 paths0]. destruct st as [value paths]. simpl in Hok0.
    destruct (fold_node_paths eo L HL Hnoself _ _ _ _ _ Hok0 Hst) as [Hok _]. simpl snd in Hncd.
    split; [exact HL|]. apply (ncd_spec eo L nodes paths (c_dist c) Hok); [|exact Hncd].
    intros a x d Hp. induction Hp as [|a b x d Hb _ IH]; [tauto|]. intros Ha. apply IH. exact (Hcl a b Ha Hb).
  Qed.
End EnrichDist.
