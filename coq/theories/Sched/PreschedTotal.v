(* Totality: on a well formed acyclic job neither loop of decompose / enrich runs out of the
   model's fuel and no dictionary lookup fails (no KeyError). *)
From Coq Require Import List NArith ZArith Bool Lia Permutation.
From EKW Require Import Sched.Presched Sched.PreschedProofs Sched.PreschedEnrich Sched.PreschedJob Sched.PreschedDist Sched.PreschedBound Sched.PreschedMain.
Import ListNotations.

Notation keys := (map fst).

(* ------------------------------------------------------------------ decompose *)
Section FloodTotal.
  Variables ei eo : N -> list N.
  Hypothesis Hsym : forall a b, In a (ei b) <-> In b (eo a).
  Variable U : list N.
  Hypothesis Hwf : forall a b, In b (eo a) -> In a U /\ In b U.

  Lemma nbr_U : forall a b, nbr ei eo a b -> In b U.
  Proof. intros a b [H|H]; [apply Hsym in H; apply Hwf in H; tauto|apply Hwf in H; tauto]. Qed.

  Lemma conn_U : forall a b, conn ei eo a b -> In a U -> In b U.
  Proof. intros a b H. induction H as [|a b c _ IH Hn]; [tauto|]. intros _. exact (nbr_U b c Hn). Qed.

  Lemma flood_total : forall fuel V0 s q vis comp,
    finv ei eo V0 s q vis comp -> incl vis U -> (List.length U < fuel + List.length comp)%nat ->
    exists r, flood ei eo fuel q vis comp = Ok r.
  Proof.
    induction fuel as [|f IH]; intros V0 s q vis comp Hinv Hincl Hlen.
    - destruct q as [|h q0]; [simpl; eauto|]. exfalso.
      pose proof (fi_nd _ _ _ _ _ _ _ Hinv) as Hnd. pose proof (fi_perm _ _ _ _ _ _ _ Hinv) as Hp.
      pose proof (NoDup_incl_length Hnd Hincl) as Hl. rewrite (Permutation_length Hp) in Hl.
      simpl in Hl. rewrite !app_length in Hl. lia.
    - destruct q as [|h q0]; [simpl; eauto|]. simpl.
      pose proof (finv_step ei eo V0 s h q0 vis comp Hinv) as Hst. simpl in Hst.
      apply (IH V0 s _ _ _ Hst).
      + destruct (visit_fold ei eo (ei h ++ eo h) q0 vis) as [new [He [_ Hin]]]. rewrite He. simpl.
        intros x Hx. apply in_app_or in Hx. destruct Hx as [Hx|Hx]; [|exact (Hincl x Hx)].
        apply Hin in Hx. destruct Hx as [Hx _]. apply in_app_or in Hx. exact (nbr_U h x Hx).
      + rewrite app_length. simpl. lia.
  Qed.

  Lemma outer_total : forall fuel is_src srcs V,
    NoDup V -> closed ei eo V -> incl V U -> incl srcs U -> (List.length U < fuel)%nat ->
    exists cs, outer ei eo fuel is_src srcs V = Ok cs.
  Proof.
    intros fuel is_src. induction srcs as [|s rest IH]; intros V Hnd Hcl HV Hs Hlen; simpl; [eauto|].
    assert (Hrest : incl rest U) by (intros x Hx; apply Hs; simpl; tauto).
    destruct (mem s V) eqn:Hm; [exact (IH V Hnd Hcl HV Hrest Hlen)|].
    apply mem_false in Hm.
    assert (Hinv : finv ei eo V s [s] (s :: V) []).
    { constructor; [constructor; assumption | simpl; apply Permutation_refl | | intros x y []].
      intros x [Hx|[]]. subst. constructor. }
    assert (HsU : In s U) by (apply Hs; simpl; tauto).
    destruct (flood_total fuel V s [s] (s :: V) [] Hinv) as [[comp vis1] Hfl].
    { intros x [Hx|Hx]; [subst; exact HsU|exact (HV x Hx)]. }
    { simpl. lia. }
    rewrite Hfl.
    destruct (flood_component ei eo Hsym _ _ _ _ _ Hnd Hcl Hm Hfl) as [Hnd1 [Hperm [_ [Hclc Hconn]]]].
    assert (Hcl1 : closed ei eo vis1).
    { intros a b Ha Hn. apply (Permutation_in _ (Permutation_sym Hperm)).
      apply (closed_app ei eo _ _ Hclc Hcl a b); [|exact Hn]. exact (Permutation_in _ Hperm Ha). }
    assert (HV1 : incl vis1 U).
    { intros x Hx. apply (Permutation_in _ Hperm) in Hx. apply in_app_or in Hx. destruct Hx as [Hx|Hx]; [|exact (HV x Hx)].
      exact (conn_U s x (Hconn x Hx) HsU). }
    destruct (IH vis1 Hnd1 Hcl1 HV1 Hrest Hlen) as [cs Hcs]. rewrite Hcs. eauto.
  Qed.

  Theorem decompose_total : forall fuel nodes,
    incl nodes U -> (List.length U < fuel)%nat -> exists cs, decompose ei eo fuel nodes = Ok cs.
  Proof.
    intros fuel nodes Hn Hlen. unfold decompose. apply outer_total; try assumption.
    - constructor.
    - intros a b [].
    - intros x [].
    - intros x Hx. apply Hn. unfold sources_of in Hx. apply filter_In in Hx. tauto.
  Qed.
End FloodTotal.

(* ------------------------------------------------------------------ the layering loop of enrich *)
Section LayerTotal.
  Variables ei eo : N -> list N.
  Hypothesis Hsym : forall a b, In a (ei b) <-> In b (eo a).
  Hypothesis Hnd_ei : forall v, NoDup (ei v).
  Hypothesis Hnd_eo : forall v, NoDup (eo v).
  Variable rank : N -> nat.
  Hypothesis Hrank : forall a b, In b (eo a) -> (rank a < rank b)%nat.
  Variable comp : list N.
  Hypothesis Hclosed : forall a b, In a comp -> nbr ei eo a b -> In b comp.

  Open Scope Z_scope.

  Lemma dec_fold_total : forall todo rem next,
    NoDup todo -> (forall a, In a todo -> In a (keys rem)) ->
    exists rem' next', fold_left dec_parent todo (Ok (rem, next)) = Ok (rem', next').
  Proof.
    induction todo as [|a0 r IH]; intros rem next Hnd Hk; simpl; [eauto|].
    inversion Hnd as [|? ? Hn0 Hnd']; subst.
    destruct (keys_lookup _ _ (Hk a0 (or_introl eq_refl))) as [k Hl]. rewrite Hl.
    assert (Hne : forall a, In a r -> a <> a0) by (intros a Ha E; subst; tauto).
    destruct ((k - 1) =? 0); apply IH; try assumption.
    - intros a Ha. destruct (keys_dremove_cov a a0 rem (Hk a (or_intror Ha))) as [E|H]; [exfalso; exact (Hne a Ha E)|exact H].
    - intros a Ha. apply keys_dset. right. exact (Hk a (or_intror Ha)).
  Qed.

  Lemma lookup_dremove_neq : forall (a a0 : N) (m : list (N * Z)), a <> a0 -> lookup N.eqb a (dremove N.eqb a0 m) = lookup N.eqb a m.
  Proof.
    intros a a0 m Hne. induction m as [|[x y] r IH]; simpl; [reflexivity|].
    destruct (N.eqb a0 x) eqn:E; simpl.
    - apply N.eqb_eq in E. subst x. destruct (N.eqb a a0) eqn:E2; [apply N.eqb_eq in E2; congruence|reflexivity].
    - destruct (N.eqb a x); [reflexivity|exact IH].
  Qed.

  Lemma filter_cons_ge : forall v P l, NoDup l ->
    (List.length (filter (fun c => negb (mem c P)) l) <= S (List.length (filter (fun c => negb (mem c (v :: P))) l)))%nat.
  Proof.
    intros v P l Hnd. induction Hnd as [|x r Hx Hr IH]; [simpl; lia|]. cbn [filter]. rewrite (mem_cons x v P).
    destruct (N.eqb x v) eqn:E.
    - apply N.eqb_eq in E. subst x. rewrite (filter_cons_eq v P r Hx). destruct (mem v P); cbn [negb orb List.length]; lia.
    - destruct (mem x P); cbn [negb orb List.length]; lia.
  Qed.

  Lemma cnt_cons_ge : forall a v P, cnt eo a P - 1 <= cnt eo a (v :: P).
  Proof. intros a v P. unfold cnt, todo_of. pose proof (filter_cons_ge v P (eo a) (Hnd_eo a)). lia. Qed.

  Lemma cnt_pos : forall a P, 1 <= cnt eo a P -> exists c, In c (eo a) /\ ~ In c P.
  Proof.
    intros a P H. unfold cnt, todo_of in H. destruct (filter (fun c => negb (mem c P)) (eo a)) as [|c r] eqn:E; [simpl in H; lia|].
    assert (Hc : In c (filter (fun c => negb (mem c P)) (eo a))) by (rewrite E; simpl; tauto).
    apply filter_In in Hc. destruct Hc as [Hc Hm]. exists c. split; [exact Hc|]. apply mem_false. destruct (mem c P); [discriminate|reflexivity].
  Qed.

  (* every live counter is positive and at most the number of unprocessed children *)
  Definition low (rem : list (N * Z)) (P : list N) : Prop :=
    forall a k, lookup N.eqb a rem = Some k -> 1 <= k /\ k <= cnt eo a P.

  Lemma dec_fold_low : forall v P todo rem next rem' next',
    NoDup todo -> NoDup (keys rem) ->
    (forall a k, lookup N.eqb a rem = Some k ->
       1 <= k /\ (In a todo -> k <= cnt eo a P) /\ (~ In a todo -> k <= cnt eo a (v :: P))) ->
    fold_left dec_parent todo (Ok (rem, next)) = Ok (rem', next') ->
    low rem' (v :: P) /\ NoDup (keys rem').
  Proof.
    intros v P. induction todo as [|a0 r IH]; intros rem next rem' next' Hnd Hk HJ H; simpl in H.
    - inversion H; subst. split; [|exact Hk]. intros a k Hl. destruct (HJ a k Hl) as [H1 [_ H3]]. split; [exact H1|]. apply H3. tauto.
    - inversion Hnd as [|? ? Hn0 Hnd']; subst.
      destruct (lookup N.eqb a0 rem) as [k|] eqn:Hl; [|rewrite fold_dec_err in H; discriminate].
      destruct (HJ a0 k Hl) as [Hk1 [Hk2 _]]. specialize (Hk2 (or_introl eq_refl)).
      pose proof (cnt_cons_ge a0 v P) as Hge.
      assert (Hother : forall a k2, a <> a0 -> lookup N.eqb a rem = Some k2 ->
                1 <= k2 /\ (In a r -> k2 <= cnt eo a P) /\ (~ In a r -> k2 <= cnt eo a (v :: P))).
      { intros a k2 Hne Hl2. destruct (HJ a k2 Hl2) as [G1 [G2 G3]]. split; [exact G1|]. split.
        - intros Ha. apply G2. simpl. tauto.
        - intros Ha. apply G3. simpl. intros [E|Hr]; [congruence|tauto]. }
      destruct ((k - 1) =? 0) eqn:Hz.
      + pose proof (Permutation_NoDup (keys_dremove_perm a0 k rem Hl) Hk) as Hnd1. inversion Hnd1 as [|? ? Hnot Hnd2]; subst.
        apply (IH _ _ _ _ Hnd' Hnd2) in H; [exact H|].
        intros a k2 Hl2. destruct (N.eq_dec a a0) as [E|E].
        * subst a. exfalso. apply Hnot. exact (lookup_keys _ _ _ Hl2).
        * rewrite lookup_dremove_neq in Hl2 by exact E. exact (Hother a k2 E Hl2).
      + apply Z.eqb_neq in Hz. apply (IH _ _ _ _ Hnd') in H; [exact H| |].
        * rewrite (keys_dset_same a0 k _ rem Hl). exact Hk.
        * intros a k2 Hl2. destruct (N.eq_dec a0 a) as [E|E].
          -- subst a. rewrite lookup_dset_eq in Hl2. inversion Hl2; subst k2. split; [lia|]. split; [intros Ha; tauto|intros _; lia].
          -- rewrite lookup_dset_neq in Hl2 by exact E. apply Hother; [congruence|exact Hl2].
  Qed.

  Lemma layer_low : forall vs P rem next rem' next',
    low rem P -> NoDup (keys rem) ->
    fold_left (fun st v => fold_left dec_parent (ei v) st) vs (Ok (rem, next)) = Ok (rem', next') ->
    low rem' (rev vs ++ P) /\ NoDup (keys rem').
  Proof.
    induction vs as [|v r IH]; intros P rem next rem' next' Hlow Hk H; simpl in H.
    - inversion H; subst. simpl. tauto.
    - destruct (fold_left dec_parent (ei v) (Ok (rem, next))) as [[rem1 next1]|e] eqn:Hv; [|rewrite fold_layer_err in H; discriminate].
      destruct (dec_fold_low v P (ei v) rem next rem1 next1 (Hnd_ei v) Hk) as [Hl1 Hk1]; [|exact Hv|].
      + intros a k Hl. destruct (Hlow a k Hl) as [G1 G2]. split; [exact G1|]. split; [intros _; exact G2|].
        intros Hna. rewrite cnt_cons_eq; [exact G2|]. intros Hc. apply Hna. apply Hsym. exact Hc.
      + simpl. rewrite <- app_assoc. simpl. exact (IH (v :: P) rem1 next1 rem' next' Hl1 Hk1 H).
  Qed.

  Lemma layer_total : forall P PL,
    (forall a c, In a PL -> In c (eo a) -> In c P) ->
    forall vs Pc rem next,
    NoDup vs -> (forall v, In v vs -> In v comp /\ ~ In v Pc /\ ~ In v P) ->
    rem_ok eo rem Pc -> next_ok eo next Pc ->
    (forall a, In a comp -> In a (keys rem) \/ In a next \/ In a PL) ->
    exists rem' next', fold_left (fun st v => fold_left dec_parent (ei v) st) vs (Ok (rem, next)) = Ok (rem', next').
  Proof.
    intros P PL HPL. induction vs as [|v r IH]; intros Pc rem next Hnd Hvs Hrem Hnext Hcov; simpl; [eauto|].
    inversion Hnd as [|? ? Hnv Hnd']; subst.
    destruct (Hvs v (or_introl eq_refl)) as [Hvc [HvPc HvP]].
    assert (Hkeys : forall a, In a (ei v) -> In a (keys rem)).
    { intros a Ha. assert (Hac : In a comp) by (apply (Hclosed v a Hvc); left; exact Ha).
      pose proof (proj1 (Hsym a v) Ha) as Hva.
      destruct (Hcov a Hac) as [H|[H|H]]; [exact H| |].
      - exfalso. apply HvPc. exact (Hnext a v H Hva).
      - exfalso. apply HvP. exact (HPL a v H Hva). }
    destruct (dec_fold_total (ei v) rem next (Hnd_ei v) Hkeys) as [rem1 [next1 Hv]]. rewrite Hv.
    destruct (dec_fold_v eo v Pc (ei v) rem next rem1 next1) as [Hr1 Hn1]; try assumption.
    - apply Hnd_ei.
    - intros a Ha. apply Hsym. exact Ha.
    - intros a k Hin. split; [intros _; exact (Hrem a k Hin)|]. intros Hna.
      rewrite cnt_cons_eq; [exact (Hrem a k Hin)|]. intros Hc. apply Hna. apply Hsym. exact Hc.
    - eapply next_ok_mono; [|exact Hnext]. intros x Hx. simpl. tauto.
    - destruct (fold_dec_spec _ _ _ _ _ Hv) as [_ [_ [H3 H4]]].
      apply (IH (v :: Pc) rem1 next1); try assumption.
      + intros v' Hv'. destruct (Hvs v' (or_intror Hv')) as [G1 [G2 G3]]. split; [exact G1|]. split; [|exact G3].
        intros [E|Hp]; [subst; tauto|tauto].
      + intros a Ha. destruct (Hcov a Ha) as [H|[H|H]]; [|right; left; exact (H4 a H)|tauto].
        destruct (H3 a H); tauto.
  Qed.

  Lemma max_rank : forall l : list N, l <> [] -> exists a, In a l /\ forall b, In b l -> (rank b <= rank a)%nat.
  Proof.
    induction l as [|x r IH]; [congruence|]. intros _. destruct r as [|y r'].
    - exists x. split; [simpl; tauto|]. intros b [E|[]]. subst. lia.
    - destruct IH as [a [Ha Hm]]; [discriminate|]. destruct (Nat.le_gt_cases (rank a) (rank x)) as [Hle|Hgt].
      + exists x. split; [simpl; tauto|]. intros b [E|Hb]; [subst; lia|]. specialize (Hm b Hb). lia.
      + exists a. split; [right; exact Ha|]. intros b [E|Hb]; [subst; lia|exact (Hm b Hb)].
  Qed.

  Lemma layering_total : forall fuel rem last older P,
    (List.length rem <= fuel)%nat ->
    NoDup (last ++ keys rem) -> (forall x, In x (last ++ keys rem) -> ~ In x P) ->
    rem_ok eo rem P -> next_ok eo last P -> low rem P ->
    (forall a, In a comp -> In a (keys rem) \/ In a last \/ In a P) ->
    (forall a c, In a P -> In c (eo a) -> In c P) ->
    (forall x, In x (last ++ keys rem) -> In x comp) ->
    exists ls, layering ei fuel rem last older = Ok ls.
  Proof.
    induction fuel as [|f IH]; intros rem last older P Hlen Hnd Hdis Hrem Hlast Hlow Hcov Hdc Hin.
    - destruct rem; [simpl; eauto|simpl in Hlen; lia].
    - destruct rem as [|p0 rem0]; [simpl; eauto|]. set (rem := p0 :: rem0) in *.
      assert (HPL : forall a c, In a (last ++ P) -> In c (eo a) -> In c P).
      { intros a c Ha Hc. apply in_app_or in Ha. destruct Ha as [Ha|Ha]; [exact (Hlast a c Ha Hc)|exact (Hdc a c Ha Hc)]. }
      destruct (layer_total P (last ++ P) HPL last P rem []) as [rem' [next Hp]].
      { exact (NoDup_app_l _ _ _ Hnd). }
      { intros v Hv. assert (Hvl : In v (last ++ keys rem)) by (apply in_or_app; tauto).
        split; [exact (Hin v Hvl)|]. split; exact (Hdis v Hvl). }
      { exact Hrem. }
      { intros a c []. }
      { intros a Ha. destruct (Hcov a Ha) as [H|[H|H]]; [tauto|right; right; apply in_or_app; tauto|right; right; apply in_or_app; tauto]. }
      assert (Hl : layering ei (S f) rem last older = layering ei f rem' next (last :: older)).
      { unfold rem. simpl. unfold process_layer. fold rem. rewrite Hp. reflexivity. }
      rewrite Hl.
      destruct (layer_fold ei eo Hsym Hnd_ei last P rem [] rem' next) as [Hr1 Hn1]; try assumption.
      { exact (NoDup_app_l _ _ _ Hnd). }
      { intros v Hv. apply Hdis. apply in_or_app. tauto. }
      { intros a c []. }
      destruct (layer_low last P rem [] rem' next Hlow (NoDup_app_r _ _ _ Hnd) Hp) as [Hlow1 Hk1].
      pose proof Hp as Hpf. rewrite process_layer_flat in Hpf.
      pose proof (dec_fold_fresh _ _ _ _ _ Hpf) as Hperm. simpl app in Hperm at 1.
      destruct (fold_dec_spec _ _ _ _ _ Hpf) as [S1 [S2 [S3 _]]].
      assert (Hsub : forall x, In x (next ++ keys rem') -> In x (keys rem)).
      { intros x Hx. exact (Permutation_in _ (Permutation_sym Hperm) Hx). }
      apply (IH rem' next (last :: older) (rev last ++ P)).
      + (* progress *)
        pose proof (Permutation_length Hperm) as Hpl. rewrite app_length, !map_length in Hpl.
        destruct next as [|n0 nx]; [|clear -Hpl Hlen; unfold rem in *; simpl in *; rewrite ?map_length in Hpl; lia]. exfalso.
        destruct (max_rank (keys rem)) as [a [Ha Hmax]]; [unfold rem; simpl; discriminate|].
        destruct (S3 a Ha) as [Ha'|[]].
        destruct (keys_lookup _ _ Ha') as [k' Hk'].
        destruct (Hlow1 a k' Hk') as [G1 G2].
        destruct (cnt_pos a (rev last ++ P)) as [c [Hc Hnc]]; [lia|].
        assert (Hac : In a comp) by (apply Hin; apply in_or_app; tauto).
        assert (Hcc : In c comp) by (apply (Hclosed a c Hac); right; exact Hc).
        destruct (Hcov c Hcc) as [H|[H|H]].
        * specialize (Hmax c H). specialize (Hrank a c Hc). lia.
        * apply Hnc. apply in_or_app. left. apply in_rev in H. exact H.
        * apply Hnc. apply in_or_app. tauto.
      + exact (Permutation_NoDup Hperm (NoDup_app_r _ _ _ Hnd)).
      + intros x Hx Hp'. apply Hsub in Hx. apply in_app_or in Hp'. destruct Hp' as [Hp'|Hp'].
        * apply in_rev in Hp'. exact (NoDup_app_disj _ _ _ _ Hnd Hp' Hx).
        * apply (Hdis x); [apply in_or_app; tauto|exact Hp'].
      + exact Hr1.
      + exact Hn1.
      + exact Hlow1.
      + intros a Ha. destruct (Hcov a Ha) as [H|[H|H]].
        * destruct (S3 a H); tauto.
        * right. right. apply in_or_app. left. apply in_rev. rewrite rev_involutive. exact H.
        * right. right. apply in_or_app. tauto.
      + intros a c Ha Hc. apply in_or_app. right. apply in_app_or in Ha. destruct Ha as [Ha|Ha].
        * apply in_rev in Ha. exact (Hlast a c Ha Hc).
        * exact (Hdc a c Ha Hc).
      + intros x Hx. apply Hin. apply in_or_app. right. exact (Hsub x Hx).
  Qed.
End LayerTotal.

(* ------------------------------------------------------------------ value / paths / matrix never miss a key *)
Section EnrichTotal.
  Variables ei eo : N -> list N.
  Hypothesis Hsym : forall a b, In a (ei b) <-> In b (eo a).
  Hypothesis Hnd_ei : forall v, NoDup (ei v).
  Hypothesis Hnd_eo : forall v, NoDup (eo v).
  Variable rank : N -> nat.
  Hypothesis Hrank : forall a b, In b (eo a) -> (rank a < rank b)%nat.
  Variable comp : list N.
  Hypothesis Hclosed : forall a b, In a comp -> nbr ei eo a b -> In b comp.
  Hypothesis Hcomp : NoDup comp.

  (* children of every task are processed (or in Q) before the task *)
  Fixpoint ordered (vs : list N) (Q : list N) : Prop :=
    match vs with
    | [] => True
    | v :: r => (forall c, In c (eo v) -> In c Q) /\ ordered r (v :: Q)
    end.

  Lemma ordered_mono : forall vs Q Q', incl Q Q' -> ordered vs Q -> ordered vs Q'.
  Proof.
    induction vs as [|v r IH]; intros Q Q' Hi H; [exact I|]. destruct H as [H1 H2]. split.
    - intros c Hc. apply Hi. exact (H1 c Hc).
    - apply (IH (v :: Q)); [|exact H2]. intros x [E|Hx]; [left; exact E|right; exact (Hi x Hx)].
  Qed.

  Lemma ordered_app : forall l m Q, next_ok eo l Q -> ordered m (rev l ++ Q) -> ordered (l ++ m) Q.
  Proof.
    induction l as [|v r IH]; intros m Q Hn Hm; [exact Hm|]. simpl. split.
    - intros c Hc. apply (Hn v c); [simpl; tauto|exact Hc].
    - apply IH.
      + intros a c Ha Hc. right. apply (Hn a c); [simpl; tauto|exact Hc].
      + simpl in Hm. rewrite <- app_assoc in Hm. exact Hm.
  Qed.

  Lemma strict_ordered : forall ls P, strict eo ls P -> ordered (concat ls) P.
  Proof.
    induction ls as [|l r IH]; intros P H; [exact I|]. destruct H as [H1 H2]. simpl.
    apply ordered_app; [exact H1|]. apply IH. exact H2.
  Qed.

  Lemma child_fold_total : forall L value paths cs st0,
    (forall c, In c cs -> In c (keys value) /\ In c (keys paths)) ->
    exists r, fold_left (child_step L value paths) cs (Ok st0) = Ok r.
  Proof.
    intros L value paths. induction cs as [|c r IH]; intros [val pv] Hcs; simpl; [eauto|].
    destruct (Hcs c (or_introl eq_refl)) as [Hv Hp].
    destruct (keys_lookup _ _ Hp) as [pc Hpc]. destruct (keys_lookup _ _ Hv) as [vc Hvc]. rewrite Hpc, Hvc.
    apply IH. intros c' Hc'. apply Hcs. simpl. tauto.
  Qed.

  Lemma node_fold_total : forall L vs Q value paths,
    ordered vs Q -> (forall c, In c Q -> In c (keys value) /\ In c (keys paths)) ->
    exists st, fold_left (node_step eo L) vs (Ok (value, paths)) = Ok st.
  Proof.
    intros L. induction vs as [|v r IH]; intros Q value paths Ho Hq; cbn [fold_left]; [eauto|].
    destruct Ho as [Hc Ho].
    destruct (child_fold_total L value paths (eo v) (0%Z, [(v, 0%Z)])) as [[val pv] Hf].
    { intros c Hcv. apply Hq. exact (Hc c Hcv). }
    assert (Hn : node_step eo L (Ok (value, paths)) v = Ok (dset N.eqb v val value, dset N.eqb v pv paths)).
    { unfold node_step. match goal with |- match ?t with _ => _ end = _ => replace t with (@Ok (Z * pmap) (val, pv)) by (symmetry; exact Hf) end. reflexivity. }
    rewrite Hn. apply (IH (v :: Q)); [exact Ho|].
    intros c [E|Hcq]; [subst c; split; apply keys_dset; tauto|].
    destruct (Hq c Hcq). split; apply keys_dset; tauto.
  Qed.

  Lemma res_map_total : forall (A B : Type) (f : A -> res B) l,
    (forall x, In x l -> exists y, f x = Ok y) -> exists l', res_map f l = Ok l'.
  Proof.
    intros A B f. induction l as [|x r IH]; intros H; simpl; [eauto|].
    destruct (H x (or_introl eq_refl)) as [y Hy]. rewrite Hy. simpl.
    destruct IH as [ys Hys]; [intros x' Hx'; apply H; simpl; tauto|]. rewrite Hys. simpl. eauto.
  Qed.

  Lemma ncd_total : forall L nodes paths,
    (forall a, In a nodes -> In a (keys paths)) -> exists dm, ncd L nodes paths = Ok dm.
  Proof.
    intros L nodes paths Hk. unfold ncd. apply res_map_total. intros a Ha. unfold ncd_row.
    destruct (keys_lookup _ _ (Hk a Ha)) as [pa Hpa]. rewrite Hpa.
    destruct (res_map_total _ _ (ncd_entry L nodes paths a pa) nodes) as [row Hrow].
    - intros b Hb. unfold ncd_entry. destruct (N.eqb b a); [eauto|].
      destruct (keys_lookup _ _ (Hk b Hb)) as [pb Hpb]. rewrite Hpb. eauto.
    - rewrite Hrow. simpl. eauto.
  Qed.

  Lemma filter_notin_nil : forall l : list N, filter (fun c => negb (mem c [])) l = l.
  Proof.
    assert (H : forall (f : N -> bool) l, (forall x, f x = true) -> filter f l = l).
    { intros f l Hf. induction l as [|x r IH]; simpl; [reflexivity|]. rewrite Hf, IH. reflexivity. }
    intros l. apply H. intros x. reflexivity.
  Qed.

  Theorem enrich_total : forall fuel srcs,
    (List.length comp <= fuel)%nat -> exists c, enrich ei eo fuel (comp, srcs) = Ok c.
  Proof.
    intros fuel srcs Hfuel. unfold enrich. cbn [fst snd].
    set (sinks := filter (fun v => null (eo v)) comp).
    set (rem := map (fun v => (v, Z.of_nat (List.length (eo v)))) (filter (fun v => negb (null (eo v))) comp)).
    assert (Hkeys : keys rem = filter (fun v => negb (null (eo v))) comp).
    { unfold rem. rewrite map_map. simpl. apply map_id. }
    assert (Hsk : forall v, In v sinks -> eo v = []).
    { intros v Hv. apply filter_In in Hv. destruct Hv as [_ Hv]. apply null_nil. exact Hv. }
    assert (Hentry : forall a k, In (a, k) rem -> k = Z.of_nat (List.length (eo a)) /\ eo a <> []).
    { intros a k Hin. unfold rem in Hin. apply in_map_iff in Hin. destruct Hin as [v [E Hv]]. inversion E; subst.
      split; [reflexivity|]. apply filter_In in Hv. destruct Hv as [_ Hv]. apply null_false. exact Hv. }
    assert (Hnd0 : NoDup (sinks ++ keys rem)).
    { rewrite Hkeys. apply NoDup_app_intro; [apply NoDup_filter; exact Hcomp|apply NoDup_filter; exact Hcomp|].
      intros x Hx Hx'. apply filter_In in Hx. apply filter_In in Hx'. destruct Hx as [_ E1]. destruct Hx' as [_ E2].
      rewrite E1 in E2. discriminate. }
    assert (Hcnt0 : forall a, cnt eo a [] = Z.of_nat (List.length (eo a))).
    { intros a. unfold cnt, todo_of. rewrite filter_notin_nil. reflexivity. }
    assert (Hremok : rem_ok eo rem []).
    { intros a k Hin. destruct (Hentry a k Hin) as [E _]. rewrite Hcnt0. lia. }
    assert (Hnext0 : next_ok eo sinks []).
    { intros a c Ha Hc. rewrite (Hsk a Ha) in Hc. destruct Hc. }
    assert (Hcov0 : forall a, In a comp -> In a (keys rem) \/ In a sinks \/ In a []).
    { intros a Ha. rewrite Hkeys. destruct (null (eo a)) eqn:E.
      - right. left. apply filter_In. tauto.
      - left. apply filter_In. rewrite E. tauto. }
    assert (Hin0 : forall x, In x (sinks ++ keys rem) -> In x comp).
    { intros x Hx. rewrite Hkeys in Hx. apply in_app_or in Hx. destruct Hx as [Hx|Hx]; apply filter_In in Hx; tauto. }
    destruct (layering_total ei eo Hsym Hnd_ei Hnd_eo rank Hrank comp Hclosed fuel rem sinks [] []) as [layers Hl]; try assumption.
    { unfold rem. rewrite map_length. clear -Hfuel.
      assert (H : forall (f : N -> bool) l, (List.length (filter f l) <= List.length l)%nat).
      { intros f l. induction l as [|y r IH]; simpl; [lia|]. destruct (f y); simpl; lia. }
      pose proof (H (fun v => negb (null (eo v))) comp). lia. }
    { intros x _ []. }
    { intros a k Hlk. apply lookup_In in Hlk. destruct (Hentry a k Hlk) as [E Hne]. rewrite Hcnt0. subst k.
      split; [|lia]. destruct (eo a); [congruence|simpl List.length; lia]. }
    { intros a c []. }
    rewrite Hl. cbn [bind].
    destruct (layering_spec ei eo Hsym _ _ _ _ _ Hl) as [tail [Hls [_ [Hk1 _]]]]. simpl in Hls.
    destruct (layering_strict ei eo Hsym Hnd_ei _ _ _ _ [] _ Hl Hnd0) as [tail1 [Hls1 Hst]]; try assumption.
    { intros x _ []. }
    simpl in Hls1. rewrite Hls in Hls1. inversion Hls1; subst tail1. clear Hls1. subst layers. cbn [hd tl].
    set (L := Z.of_nat (List.length (sinks :: tail))).
    assert (HL : (1 <= L)%Z) by (unfold L; simpl List.length; lia).
    assert (Hnoself : forall v, ~ In v (eo v)) by (intros v Hv; specialize (Hrank v v Hv); lia).
    destruct (fold_sink_value eo L sinks ([], [])) as [_ Hkv0]; [intros v x Hx; discriminate|exact Hsk|].
    destruct (fold_sink_paths eo L HL sinks ([], [])) as [Hok0 Hkp0]; [intros v pv Hv; discriminate|exact Hsk|].
    destruct (fold_left (sink_step L) sinks ([], [])) as [value0 paths0] eqn:Hs0. simpl fst in Hkv0. simpl snd in Hkp0, Hok0.
    destruct Hst as [_ Hst].
    destruct (node_fold_total L (concat tail) (rev sinks ++ []) value0 paths0 (strict_ordered _ _ Hst)) as [[value paths] Hfold].
    { intros c Hc. rewrite app_nil_r in Hc. apply in_rev in Hc. split; [apply Hkv0|apply Hkp0]; tauto. }
    rewrite Hfold. cbn [bind snd fst].
    destruct (fold_node_paths eo L HL Hnoself _ _ _ _ _ Hok0 Hfold) as [_ Hkp].
    destruct (ncd_total L comp paths) as [dm Hdm].
    { intros a Ha. apply Hkp. destruct (Hcov0 a Ha) as [H|[H|[]]].
      - right. exact (Hk1 a H).
      - left. apply Hkp0. tauto. }
    rewrite Hdm. cbn [bind]. eauto.
  Qed.
End EnrichTotal.

(* ------------------------------------------------------------------ precompute returns on every job DAG *)
Lemma NoDup_concat_each : forall (A : Type) (ls : list (list A)) l, NoDup (concat ls) -> In l ls -> NoDup l.
Proof.
  intros A. induction ls as [|l0 r IH]; intros l Hnd Hl; [destruct Hl|]. simpl in Hnd.
  destruct Hl as [E|Hl]; [subst; exact (NoDup_app_l _ _ _ Hnd)|exact (IH l (NoDup_app_r _ _ _ Hnd) Hl)].
Qed.

Theorem precompute_total : forall j, wf_job j -> acyclic j -> exists p, precompute j = Ok p.
Proof.
  intros j Hwf Hac. unfold precompute. rewrite (param_source_ok _ (wf_slot j Hwf)). cbn [bind].
  fold (jps j). fold (jei j). fold (jeo j). fold (tasks_of j).
  assert (Hfuel : (List.length (tasks_of j) < fuel_of j)%nat).
  { unfold fuel_of, tasks_of. rewrite map_length. lia. }
  destruct (decompose_total (jei j) (jeo j) (jsym j Hwf) (tasks_of j) (jends j Hwf) (fuel_of j) (tasks_of j) (incl_refl _) Hfuel) as [plain Hd].
  rewrite Hd. cbn [bind].
  destruct (decompose_spec (jei j) (jeo j) (jsym j Hwf) (tasks_of j) (wf_tasks j Hwf) (jends j Hwf) (jacyc j Hac) _ _ Hd) as [Hperm Hok].
  destruct (jacyc j Hac) as [rank Hrank].
  destruct (res_map_total _ _ (enrich (jei j) (jeo j) (fuel_of j)) plain) as [comps Hcomps].
  - intros [n s] Hpc. rewrite Forall_forall in Hok. destruct (Hok _ Hpc) as [_ [Hcl _]]. simpl in Hcl.
    assert (Hndn : NoDup n).
    { apply (NoDup_concat_each _ (map fst plain)); [exact (Permutation_NoDup (Permutation_sym Hperm) (wf_tasks j Hwf))|].
      change n with (fst (n, s)). apply in_map. exact Hpc. }
    assert (Hsub : incl n (tasks_of j)).
    { intros x Hx. apply (Permutation_in _ Hperm). apply in_concat. exists n. split; [|exact Hx].
      change n with (fst (n, s)). apply in_map. exact Hpc. }
    apply (enrich_total (jei j) (jeo j) (jsym j Hwf) (fun v => edge_i_proj_NoDup _ v) (fun v => edge_o_proj_NoDup _ v) rank Hrank n Hcl Hndn).
    pose proof (NoDup_incl_length Hndn Hsub). lia.
  - rewrite Hcomps. cbn [bind]. eauto.
Qed.
