(* The assign phase of the heuristic-driven system (Sched/Heur.v) is always enabled: in every state
   satisfying the invariants, for every oracle, the pairs computed by [heur_assign] are admissible one
   after the other (the worker is still idle, the task still computable, a GPU task goes to a GPU
   worker), so that for suitable transfer sources the step [HAssign o srcs] of Sched/Heur.v returns
   [Next].  Hence the theorems of Sched/ProgressFull.v are not vacuous in any reachable state. *)
From stdpp Require Import gmap sorting.
From Coq Require Import NArith ZArith String.
From EKW Require Import Sched.Model Sched.Lemmas Sched.Inv Sched.InvInit Sched.InvEnv Sched.InvCtl Sched.Safety
                        Sched.Progress Sched.Heur Sched.HeurProofs.
Local Open Scope N_scope.
Local Arguments exec : simpl never.

(* ------------------------------------------------------------------ one call of the heuristic returns a matching *)
Lemma find_pop_perm {A : Type} (p : A → bool) l x r : find_pop p l = Some (x, r) → l ≡ₚ x :: r.
Proof.
  revert x r. induction l as [|a l IH]; intros x r; simpl; [done|].
  destruct (p a); [by intros [= <- <-]|].
  destruct (find_pop p l) as [[y r']|] eqn:Hf; [|done]. intros [= <- <-].
  rewrite (IH _ _ eq_refl). apply Permutation_swap.
Qed.

Lemma pass1_matching mt ts : ∀ ws a un wr, NoDup ts → NoDup ws → pass1 mt ts ws = (a, un, wr) →
  NoDup a.*1 ∧ NoDup a.*2 ∧ NoDup wr ∧ NoDup un ∧ (∀ w, w ∈ a.*1 → w ∉ wr) ∧ (∀ t, t ∈ a.*2 → t ∉ un).
Proof.
  induction ts as [|t ts IH]; intros ws a un wr Hts Hws; simpl.
  - intros [= <- <- <-]. repeat split; try constructor; try done; intros x Hx; by apply elem_of_nil in Hx.
  - apply NoDup_cons in Hts as [Ht Hts].
    destruct (find_pop (λ w, mt w t) ws) as [[w ws']|] eqn:Hf.
    + destruct (pass1 mt ts ws') as [[a' un'] wr'] eqn:Hp. intros [= <- <- <-].
      pose proof (find_pop_perm _ _ _ _ Hf) as Hperm. rewrite Hperm in Hws. apply NoDup_cons in Hws as [Hw Hws'].
      destruct (IH _ _ _ _ Hts Hws' Hp) as (H1 & H2 & H3 & H4 & H5 & H6).
      destruct (pass1_spec _ _ _ _ _ _ Hp) as (Ha & Hun & Hwr & _).
      assert (Hwa : w ∉ a'.*1).
      { intros Hin. apply elem_of_list_fmap in Hin as ([w0 t0] & -> & Hin). destruct (Ha _ _ Hin). done. }
      assert (Hta : t ∉ a'.*2).
      { intros Hin. apply elem_of_list_fmap in Hin as ([w0 t0] & -> & Hin). destruct (Ha _ _ Hin). done. }
      csimpl. split; [by apply NoDup_cons|]. split; [by apply NoDup_cons|]. split; [done|]. split; [done|]. split.
      * intros w0 Hin. apply elem_of_cons in Hin as [->|Hin]; [intros Hw0; apply Hw; auto|auto].
      * intros t0 Hin. apply elem_of_cons in Hin as [->|Hin]; [intros Ht0; apply Ht; auto|auto].
    + destruct (pass1 mt ts ws) as [[a' un'] wr'] eqn:Hp. intros [= <- <- <-].
      destruct (IH _ _ _ _ Hts Hws Hp) as (H1 & H2 & H3 & H4 & H5 & H6).
      destruct (pass1_spec _ _ _ _ _ _ Hp) as (Ha & Hun & Hwr & _).
      split; [done|]. split; [done|]. split; [done|]. split; [apply NoDup_cons; split; [intros Hin; apply Ht; auto|done]|].
      split; [done|]. intros t0 Hin Hin'. apply elem_of_cons in Hin' as [->|Hin']; [|by apply (H6 t0)].
      apply elem_of_list_fmap in Hin as ([w1 t1] & -> & Hin). destruct (Ha _ _ Hin). done.
Qed.

Lemma greedy_matching l : ∀ W T, NoDup (greedy l W T).*1 ∧ NoDup (greedy l W T).*2.
Proof.
  induction l as [|[w t] l IH]; intros W T; simpl; [split; constructor|].
  destruct (bool_decide (t ∈ T) && bool_decide (w ∈ W)); [|apply IH].
  destruct (IH (W ∖ {[w]}) (T ∖ {[t]})) as [H1 H2]. csimpl. split; apply NoDup_cons; (split; [|done]).
  - intros Hin. apply elem_of_list_fmap in Hin as ([w0 t0] & -> & Hin). apply greedy_elem in Hin as (_ & Hw & _). set_solver.
  - intros Hin. apply elem_of_list_fmap in Hin as ([w0 t0] & -> & Hin). apply greedy_elem in Hin as (_ & _ & Ht). set_solver.
Qed.

Lemma heur_matching o ts ws a ws' : NoDup ts → NoDup ws → heur o ts ws = (a, ws') →
  NoDup a.*1 ∧ NoDup a.*2 ∧ NoDup ws'.
Proof.
  intros Hts Hws. unfold heur. destruct (pass1 (o_match o) ts ws) as [[a1 un] wr] eqn:Hp. intros [= <- <-].
  destruct (pass1_matching _ _ _ _ _ _ Hts Hws Hp) as (H1 & H2 & H3 & H4 & H5 & H6).
  destruct (greedy_matching (merge_sort (cand_le o) (cands wr un)) (list_to_set wr) (list_to_set un)) as [G1 G2].
  fold (pass2 o wr un) in G1, G2. rewrite !fmap_app. split; [|split; [|done]].
  - apply NoDup_app. split; [done|]. split; [|done]. intros w Hw Hin.
    apply elem_of_list_fmap in Hin as ([w0 t0] & -> & Hin). apply pass2_elem in Hin as [Hin _]. by apply (H5 w0).
  - apply NoDup_app. split; [done|]. split; [|done]. intros t Ht Hin.
    apply elem_of_list_fmap in Hin as ([w0 t0] & -> & Hin). apply pass2_elem in Hin as [_ Hin]. by apply (H6 t0).
Qed.

Lemma order_by_nodup {A : Type} `{Countable A} (prio : list A) (X : gset A) : NoDup (order_by prio X).
Proof.
  unfold order_by. apply NoDup_app. split; [apply NoDup_filter, NoDup_remove_dups|]. split; [|apply NoDup_filter, NoDup_elements].
  intros x Hx Hx'. apply elem_of_list_filter in Hx as [_ Hx]. rewrite elem_of_remove_dups in Hx.
  apply elem_of_list_filter in Hx' as [Hx' _]. exact (Hx' Hx).
Qed.

(* ------------------------------------------------------------------ admissible sequences of assignments *)
Definition ok_pair (J : job) (E : env) (v : aview) (a : nat * worker * task) : Prop :=
  a.1.2 ∈ a_idle v ∧ (∃ c, a_cs v !! a.1.1 = Some c ∧ a.2 ∈ c_comp c) ∧ (a.2 ∈ j_gpu J → a.1.2 ∈ e_gpu E).

Fixpoint valid_seq (J : job) (E : env) (v : aview) (asg : list (nat * worker * task)) : Prop :=
  match asg with [] => True | a :: r => ok_pair J E v a ∧ valid_seq J E (apply_one v a) r end.

Lemma valid_seq_app J E a : ∀ v b, valid_seq J E v (a ++ b) ↔ valid_seq J E v a ∧ valid_seq J E (apply_asg v a) b.
Proof.
  induction a as [|x a IH]; intros v b; simpl; [tauto|]. rewrite IH. tauto.
Qed.

Lemma apply_asg_idle asg : ∀ v, a_idle (apply_asg v asg) = a_idle v ∖ list_to_set ((λ a : nat * worker * task, a.1.2) <$> asg).
Proof.
  induction asg as [|a asg IH]; intros v; simpl; [set_solver|]. rewrite IH. simpl. set_solver.
Qed.

Lemma tag_workers i l : (λ a : nat * worker * task, a.1.2) <$> tag i l = l.*1.
Proof. unfold tag. rewrite <- list_fmap_compose. apply list_fmap_ext. by intros ? [w t]. Qed.

Lemma matching_valid J E i l : ∀ v c, a_cs v !! i = Some c → NoDup l.*1 → NoDup l.*2 →
  (∀ w t, (w, t) ∈ l → w ∈ a_idle v ∧ t ∈ c_comp c ∧ (t ∈ j_gpu J → w ∈ e_gpu E)) → valid_seq J E v (tag i l).
Proof.
  induction l as [|[w t] l IH]; intros v c Hc Hn1 Hn2 Hall; [done|]. csimpl in *.
  apply NoDup_cons in Hn1 as [Hw Hn1], Hn2 as [Ht Hn2].
  destruct (Hall w t ltac:(by left)) as (Hwi & Htc & Hg). split.
  - unfold ok_pair. simpl. eauto.
  - apply (IH _ {| c_nodes := c_nodes c; c_comp := c_comp c ∖ {[t]}; c_weight := (c_weight c - 1)%Z |}); [|done|done|].
    + unfold apply_one, pop_task. simpl. by rewrite list_lookup_alter, Hc.
    + intros w' t' Hin. destruct (Hall w' t' ltac:(by right)) as (? & ? & ?). simpl.
      assert (w' ≠ w) by (intros ->; apply Hw; apply elem_of_list_fmap; by exists (w, t')).
      assert (t' ≠ t) by (intros ->; apply Ht; apply elem_of_list_fmap; by exists (w', t)).
      split; [set_solver|]. split; [set_solver|done].
Qed.

Lemma awc_valid J E o v ws i a : awc J E o v ws i = Next a → NoDup ws → (∀ w, w ∈ ws → w ∈ a_idle v) →
  valid_seq J E v a ∧ ∀ j w t, (j, w, t) ∈ a → w ∈ ws.
Proof.
  intros Hawc Hnd Hidle. split; [|intros j w t Hin; destruct (awc_spec _ _ _ _ _ _ _ Hawc) as (c & _ & H); by destruct (H _ _ _ Hin) as (_ & _ & ?)].
  unfold awc in Hawc. destruct (a_cs v !! i) as [c|] eqn:Hc; [|done].
  set (ts := order_by (o_tasks o) (c_comp c)) in *.
  destruct (heur o (filter (λ t, t ∈ j_gpu J) ts) (filter (λ w, w ∈ e_gpu E) ws)) as [a1 gw'] eqn:H1.
  destruct (heur o (filter (λ t, t ∉ j_gpu J) ts) _) as [a2 gw2] eqn:H2. injection Hawc as <-.
  assert (Hts : NoDup ts) by apply order_by_nodup.
  destruct (heur_matching _ _ _ _ _ (NoDup_filter _ _ Hts) (NoDup_filter _ _ Hnd) H1) as (M1 & M2 & M3).
  destruct (heur_spec _ _ _ _ _ H1) as (Ha1 & Hsub1 & _ & _).
  destruct (heur_spec _ _ _ _ _ H2) as (Ha2 & _ & _ & _).
  rewrite apply_asg_idle, tag_workers in H2, Ha2.
  assert (Hcpuw : NoDup (filter (λ w, w ∉ e_gpu E) ws ++ filter (λ w, w ∈ a_idle v ∖ list_to_set a1.*1) gw')).
  { apply NoDup_app. split; [by apply NoDup_filter|]. split; [|by apply NoDup_filter].
    intros w Hw Hw'. apply elem_of_list_filter in Hw as [Hw _]. apply elem_of_list_filter in Hw' as [_ Hw'].
    apply Hsub1, elem_of_list_filter in Hw' as [Hw' _]. done. }
  destruct (heur_matching _ _ _ _ _ (NoDup_filter _ _ Hts) Hcpuw H2) as (N1 & N2 & _).
  apply (matching_valid J E i (a1 ++ a2) v c Hc).
  - rewrite fmap_app. apply NoDup_app. split; [done|]. split; [|done]. intros w Hw Hw'.
    apply elem_of_list_fmap in Hw' as ([w0 t0] & -> & Hin). destruct (Ha2 _ _ Hin) as [Hw0 _]. simpl in *.
    apply elem_of_app in Hw0 as [Hw0|Hw0].
    + apply elem_of_list_filter in Hw0 as [Hng _]. apply elem_of_list_fmap in Hw as ([w1 t1] & -> & Hin1).
      destruct (Ha1 _ _ Hin1) as [Hw1 _]. apply elem_of_list_filter in Hw1 as [? _]. done.
    + apply elem_of_list_filter in Hw0 as [Hid _]. apply elem_of_difference in Hid as [_ Hid]. apply Hid. by apply elem_of_list_to_set.
  - rewrite fmap_app. apply NoDup_app. split; [done|]. split; [|done]. intros t Ht Ht'.
    apply elem_of_list_fmap in Ht as ([w1 t1] & -> & Hin1). destruct (Ha1 _ _ Hin1) as [_ Ht1]. apply elem_of_list_filter in Ht1 as [Hg _].
    apply elem_of_list_fmap in Ht' as ([w0 t0] & Heq & Hin). destruct (Ha2 _ _ Hin) as [_ Ht0]. apply elem_of_list_filter in Ht0 as [Hng _].
    simpl in *. subst. done.
  - intros w t Hin. apply elem_of_app in Hin as [Hin|Hin].
    + destruct (Ha1 _ _ Hin) as [Hw Ht]. apply elem_of_list_filter in Hw as [Hwg Hw], Ht as [_ Ht]. apply order_by_spec in Ht. auto.
    + destruct (Ha2 _ _ Hin) as [Hw Ht]. apply elem_of_list_filter in Ht as [Hng Ht]. apply order_by_spec in Ht.
      split; [|split; [done|by intros ?]]. apply elem_of_app in Hw as [Hw|Hw].
      * apply elem_of_list_filter in Hw as [_ Hw]. auto.
      * apply elem_of_list_filter in Hw as [Hid _]. set_solver.
Qed.

(* ------------------------------------------------------------------ the groups partition the workers they were built from *)
Definition flat {K : Type} (l : list (K * list worker)) : list worker := List.concat (snd <$> l).

Lemma group_add_flat {K : Type} `{EqDecision K} (k : K) w l : flat (group_add k w l) ≡ₚ w :: flat l.
Proof.
  unfold flat. induction l as [|[k' ws] l IH]; simpl; [done|].
  destruct (decide (k = k')) as [->|Hne]; csimpl.
  - rewrite <- app_assoc. simpl. by rewrite <- Permutation_middle.
  - rewrite IH. by rewrite <- Permutation_middle.
Qed.

Lemma groupsI_flat E h2c wl : ∀ acc gs, groupsI E h2c wl acc = Next gs → NoDup (wl ++ flat acc) →
  NoDup (flat gs) ∧ ∀ w, w ∈ flat gs → w ∈ wl ∨ w ∈ flat acc.
Proof.
  induction wl as [|w0 wl IH]; intros acc gs; simpl.
  - intros [= <-] Hnd. split; [done|]. auto.
  - destruct (e_host E !! w0) as [h0|]; [|done]. destruct (h2c !! h0) as [[i0|]|]; [| |done]; intros Hg Hnd.
    + destruct (IH _ _ Hg) as [H1 H2].
      { rewrite group_add_flat. by rewrite <- Permutation_middle. }
      split; [done|]. intros w Hw. destruct (H2 w Hw) as [?|Hin]; [left; by right|].
      rewrite group_add_flat in Hin. apply elem_of_cons in Hin as [->|?]; [left; by left|by right].
    + apply NoDup_cons in Hnd as [_ Hnd]. destruct (IH _ _ Hg Hnd) as [H1 H2]. split; [done|].
      intros w Hw. destruct (H2 w Hw) as [?|?]; [left; by right|by right].
Qed.

Lemma migrants_flat E h2c cs wl : ∀ acc ms, migrants E h2c cs wl acc = Next ms → NoDup (wl ++ flat acc) →
  NoDup (flat ms) ∧ ∀ w, w ∈ flat ms → w ∈ wl ∨ w ∈ flat acc.
Proof.
  induction wl as [|w0 wl IH]; intros acc ms; simpl.
  - intros [= <-] Hnd. split; [done|]. auto.
  - destruct (e_host E !! w0) as [h0|]; [|done].
    assert (Hadd : migrants E h2c cs wl (group_add h0 w0 acc) = Next ms → NoDup (w0 :: wl ++ flat acc) →
                   NoDup (flat ms) ∧ ∀ w, w ∈ flat ms → w ∈ w0 :: wl ∨ w ∈ flat acc).
    { intros Hg Hnd. destruct (IH _ _ Hg) as [H1 H2].
      { rewrite group_add_flat. by rewrite <- Permutation_middle. }
      split; [done|]. intros w Hw. destruct (H2 w Hw) as [?|Hin]; [left; by right|].
      rewrite group_add_flat in Hin. apply elem_of_cons in Hin as [->|?]; [left; by left|by right]. }
    assert (Hskip : migrants E h2c cs wl acc = Next ms → NoDup (w0 :: wl ++ flat acc) →
                    NoDup (flat ms) ∧ ∀ w, w ∈ flat ms → w ∈ w0 :: wl ∨ w ∈ flat acc).
    { intros Hg Hnd. apply NoDup_cons in Hnd as [_ Hnd]. destruct (IH _ _ Hg Hnd) as [H1 H2]. split; [done|].
      intros w Hw. destruct (H2 w Hw) as [?|?]; [left; by right|by right]. }
    destruct (h2c !! h0) as [[i0|]|]; [| |done]; [|exact Hadd].
    destruct (cs !! i0) as [c0|]; [|done]. case_bool_decide; [exact Hadd|exact Hskip].
Qed.

(* ------------------------------------------------------------------ the two steps of assign *)
Lemma stepI_valid J E o gs : ∀ v a, stepI J E o v gs = Next a → NoDup (flat gs) → (∀ w, w ∈ flat gs → w ∈ a_idle v) →
  valid_seq J E v a ∧ ∀ j w t, (j, w, t) ∈ a → w ∈ flat gs.
Proof.
  induction gs as [|[i ws] gs IH]; intros v a; simpl.
  - intros [= <-] _ _. split; [done|]. intros j w t Hin. by apply elem_of_nil in Hin.
  - intros H Hnd Hidle. apply rbind_Next in H as (a0 & Hawc & H). apply rbind_Next in H as (r & Hr & [= <-]).
    unfold flat in Hnd, Hidle |- *. csimpl in *. apply NoDup_app in Hnd as (Hws & Hdisj & Hrest).
    destruct (awc_valid _ _ _ _ _ _ _ Hawc Hws) as [Hv0 Hw0]; [intros w Hw; apply Hidle, elem_of_app; by left|].
    destruct (IH _ _ Hr Hrest) as [Hvr Hwr].
    { intros w Hw. rewrite apply_asg_idle. apply elem_of_difference. split; [apply Hidle, elem_of_app; by right|].
      intros Hin. apply elem_of_list_to_set, elem_of_list_fmap in Hin as ([[j w'] t] & -> & Hin). simpl in *.
      apply (Hdisj w'); [by apply (Hw0 j w' t)|done]. }
    split; [apply valid_seq_app; done|]. intros j w t Hin. apply elem_of_app. apply elem_of_app in Hin as [Hin|Hin]; [left; eauto|right; eauto].
Qed.

Lemma stepII_valid J E o cl ms : ∀ v h2c k a h2c', stepII J E o cl v h2c k ms = Next (a, h2c') →
  NoDup (flat ms) → (∀ w, w ∈ flat ms → w ∈ a_idle v) → valid_seq J E v a.
Proof.
  induction ms as [|[h ws] ms IH]; intros v h2c k a h2c'; simpl.
  - intros [= <- <-] _ _. done.
  - destruct (cl !! k) as [[z i]|]; [|done]. intros H Hnd Hidle.
    apply rbind_Next in H as (a0 & Hawc & H). apply rbind_Next in H as ([r h2c1] & Hr & [= <- <-]).
    unfold flat in Hnd, Hidle. csimpl in *. apply NoDup_app in Hnd as (Hws & Hdisj & Hrest).
    destruct (awc_valid _ _ _ _ _ _ _ Hawc Hws) as [Hv0 Hw0]; [intros w Hw; apply Hidle, elem_of_app; by left|].
    apply valid_seq_app. split; [done|]. apply (IH _ _ _ _ _ Hr Hrest).
    intros w Hw. rewrite apply_asg_idle. apply elem_of_difference. split; [apply Hidle, elem_of_app; by right|].
    intros Hin. apply elem_of_list_to_set, elem_of_list_fmap in Hin as ([[j w'] t] & -> & Hin). simpl in *.
    apply (Hdisj w'); [by apply (Hw0 j w' t)|done].
Qed.

(* every pair one call of assign computes is admissible when its turn comes *)
Theorem heur_assign_valid J E o hs I asg hs' :
  heur_assign J E o hs I = Next (asg, hs') → valid_seq J E {| a_cs := h_cs hs; a_idle := I |} asg.
Proof.
  unfold heur_assign. intros Hha.
  apply rbind_Next in Hha as (gs & Hgs & Hha). apply rbind_Next in Hha as (a1 & Ha1 & Hha).
  set (v0 := {| a_cs := h_cs hs; a_idle := I |}) in *.
  pose proof (order_by_nodup (o_workers o) I) as Hwl.
  destruct (groupsI_flat _ _ _ _ _ Hgs) as [Hg1 Hg2]; [unfold flat; simpl; by rewrite app_nil_r|].
  destruct (stepI_valid _ _ _ _ _ _ Ha1 Hg1) as [Hv1 _].
  { intros w Hw. destruct (Hg2 w Hw) as [Hin|Hin]; [by apply order_by_spec in Hin|by apply elem_of_nil in Hin]. }
  revert Hha. case_bool_decide; [by intros [= <- _]|]. case_bool_decide; [by intros [= <- _]|].
  intros Hha. apply rbind_Next in Hha as (ms & Hms & Hha). apply rbind_Next in Hha as ([a2 h2c'] & HsII & Hha).
  injection Hha as <- _. simpl. apply valid_seq_app. split; [done|].
  destruct (migrants_flat _ _ _ _ _ _ Hms) as [Hm1 Hm2]; [unfold flat; simpl; rewrite app_nil_r; by apply NoDup_filter|].
  apply (stepII_valid _ _ _ _ _ _ _ _ _ _ HsII Hm1).
  intros w Hw. destruct (Hm2 w Hw) as [Hin|Hin]; [|by apply elem_of_nil in Hin]. by apply elem_of_list_filter in Hin as [? _].
Qed.

(* ------------------------------------------------------------------ from admissible pairs to enabled steps of Model.v *)
(* transfer sources for a dispatch: for every input missing on the worker's host, some host that has it *)
Definition pick_srcs (J : job) (c : cstate) (t : task) (h : host) : gmap ds host :=
  set_to_map (λ d, (d, default 0 (head (elements (avail_hosts (ds2host c) d))))) (needs J c t h).

Lemma pick_srcs_lookup J c t h d src :
  pick_srcs J c t h !! d = Some src ↔ d ∈ needs J c t h ∧ src = default 0 (head (elements (avail_hosts (ds2host c) d))).
Proof.
  unfold pick_srcs. rewrite lookup_set_to_map; [|intros y y' _ _ Heq; simpl in Heq; done]. split.
  - intros (y & Hy & [= -> <-]). done.
  - intros [Hd ->]. exists d. done.
Qed.

Lemma pick_srcs_ok J c t h : (∀ d, d ∈ needs J c t h → avail_hosts (ds2host c) d ≠ ∅) →
  dom (pick_srcs J c t h) = needs J c t h ∧ map_Forall (λ d src, ds2host c !! (d, src) = Some true) (pick_srcs J c t h).
Proof.
  intros Hav. split.
  - apply set_eq. intros d. rewrite elem_of_dom. split.
    + intros [src Hs]. by apply pick_srcs_lookup in Hs as [? _].
    + intros Hd. eexists. apply pick_srcs_lookup. done.
  - intros d src Hs. apply pick_srcs_lookup in Hs as [Hd ->]. specialize (Hav d Hd).
    match goal with |- context [head ?l] => destruct l as [|h' l'] eqn:He end.
    + exfalso. apply Hav. apply leibniz_equiv. by apply elements_empty_inv.
    + simpl. apply avail_hosts_spec. assert (Hin : h' ∈ h' :: l') by (by left). rewrite <- He in Hin. apply elem_of_elements in Hin. exact Hin.
Qed.

Section enabled.
  Context (J : job) (E : env) (K : list (gset task)).
  Hypothesis wf_nout : ∀ t, is_task J t → 1 ≤ nout J t.
  Hypothesis Hwk : wf_comps J K.

  Lemma assign_enabled s w t h :
    Inv J E s → e_host E !! w = Some h → t ∈ computable (ctl s) → w ∈ idle (ctl s) → (t ∈ j_gpu J → w ∈ e_gpu E) →
    ∃ s' cm, exec J E s (LAssign w t (pick_srcs J (ctl s) t h)) = Next (s', cm).
  Proof.
    intros Hinv Hh Ht Hw Hg. pose proof (exec_inv J E wf_nout s (LAssign w t (pick_srcs J (ctl s) t h)) Hinv) as Hs.
    destruct (exec J E s (LAssign w t (pick_srcs J (ctl s) t h))) as [[s' cm]| |e|e] eqn:Hex; [eauto|exfalso|done|done].
    unfold exec in Hex. destruct (assign_c J E (ctl s) w t _) as [[c h']| |e|e] eqn:Ha; [by case_bool_decide| |done|done].
    clear Hex. unfold assign_c in Ha. rewrite Hh in Ha.
    assert (Hcond : bool_decide (t ∈ computable (ctl s)) && bool_decide (w ∈ idle (ctl s))
                    && (bool_decide (t ∉ j_gpu J) || bool_decide (w ∈ e_gpu E)) = true).
    { rewrite !bool_decide_eq_true_2 by done. simpl. destruct (decide (t ∈ j_gpu J)) as [Hin|Hnin].
      - rewrite (bool_decide_eq_true_2 (w ∈ e_gpu E)) by auto. apply orb_true_r.
      - by rewrite (bool_decide_eq_true_2 (t ∉ j_gpu J)). }
    rewrite Hcond in Ha. clear Hcond. simpl in Ha. case_bool_decide as Hex; [done|].
    destruct (pick_srcs_ok J (ctl s) t h) as [Hdom Hall].
    { intros d Hd Hemp. apply Hex. exists d. done. }
    rewrite (bool_decide_eq_true_2 _ Hdom), (bool_decide_eq_true_2 _ Hall) in Ha. simpl in Ha.
    destruct (ongoing (ctl s) !! w); [case_bool_decide|]; done.
  Qed.

  Lemma valid_seq_enabled asg : ∀ s cs m, Inv J E s → HInv E K s {| h_cs := cs; h_h2c := m |} →
    valid_seq J E {| a_cs := cs; a_idle := idle (ctl s) |} asg →
    ∃ srcs s1, List.length asg = List.length srcs ∧
      assign_seq J E s (zip_with (λ (a : nat * worker * task) (x : gmap ds host), (a.1.2, a.2, x)) asg srcs) = Next s1.
  Proof.
    induction asg as [|[[i w] t] asg IH]; intros s cs m Hinv Hh Hv.
    - exists [], s. done.
    - destruct Hv as [(Hw & (c & Hc & Ht) & Hg) Hv]. simpl in *.
      destruct (i_idle _ _ _ Hinv _ Hw) as ([h Hhw] & _).
      apply (hi_comp Hh i c t Hc) in Ht as [Htc Htn].
      destruct (assign_enabled s w t h Hinv Hhw Htc Hw Hg) as (s1 & cm & Hex).
      pose proof (exec_inv J E wf_nout s (LAssign w t (pick_srcs J (ctl s) t h)) Hinv) as Hinv1. rewrite Hex in Hinv1.
      pose proof (hinv_assign_one J E K wf_nout Hwk _ _ _ _ _ _ _ _ _ _ Hinv Hh Hc Htn Hex) as Hh1.
      destruct (assign_fields _ _ _ _ _ _ _ _ Hex) as (_ & _ & Ei & _ & _).
      destruct (IH s1 (pop_task cs i t) m Hinv1 Hh1) as (srcs & s2 & Hlen & Hseq).
      { unfold apply_one in Hv. simpl in Hv. by rewrite Ei. }
      exists (pick_srcs J (ctl s) t h :: srcs), s2. split; [simpl; by rewrite Hlen|]. simpl. by rewrite Hex.
  Qed.

  (* in every state satisfying the invariants, for every oracle, the assign phase can be executed *)
  Theorem hassign_enabled s hs o : Inv J E s → HInv E K s hs →
    ∃ srcs s1 hs1, hexec J E (s, hs) (HAssign o srcs) = Next (s1, hs1).
  Proof.
    intros Hinv Hh. simpl. destruct (has_computable (ctl s)).
    - destruct (heur_assign_total J E K s hs o Hinv Hh) as [[asg hs1] Hha].
      pose proof (heur_assign_valid _ _ _ _ _ _ _ Hha) as Hv. destruct hs as [cs m].
      destruct (valid_seq_enabled asg s cs m Hinv Hh Hv) as (srcs & s1 & Hlen & Hseq).
      exists srcs, s1, hs1. rewrite Hha. simpl. rewrite bool_decide_eq_true_2 by done. by rewrite Hseq.
    - exists [], s, hs. done.
  Qed.
End enabled.
