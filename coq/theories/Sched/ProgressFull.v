(* C03 without the validated hypothesis [assign_progress]: the assignment heuristic is modelled
   (Sched/Heur.v) and proved to establish it (Sched/HeurProofs.v), so deadlock freedom and "every
   round waits" hold for every state the heuristic-driven controller x cluster system can reach.

   What remains as hypotheses, all about the INPUT or the cluster, none about the controller:
     wf_job J, wf_dag J rank     the job is a DAG over its own tasks, every task has >= 1 output
     wf_comps J K                K (Preschedule.components) partitions the tasks and is closed under
                                 the input edges (decidable: wf_comps_b; checked on every recorded run)
     feasible J E                there is a worker; if some task needs a GPU, there is a GPU worker
     in-order delivery (round_waits_full only): the completion-carrying publication of a task is not
                                 delivered before the task's other publications (hrun_io); out-of-order
                                 delivery is the recorded open finding C03_reordered_publications_refuted. *)
From stdpp Require Import gmap.
From Coq Require Import NArith ZArith String.
From EKW Require Import Sched.Model Sched.Lemmas Sched.Inv Sched.InvInit Sched.InvEnv Sched.InvCtl Sched.Safety
                        Sched.Progress Sched.Rounds Sched.Heur Sched.HeurProofs Sched.HeurEnabled Sched.Example Sched.WfDec.
Local Open Scope N_scope.

Local Arguments exec : simpl never.

(* in-order delivery for the heuristic-driven system (io_ok: Sched/Rounds.v) *)
Definition hio_ok (J : job) (s : sys) (hl : hlabel) : bool :=
  match hl with HStep l => io_ok J s l | HAssign _ _ => true end.

Fixpoint hrun_io (J : job) (E : env) (x : sys * hstate) (ls : list hlabel) : res (sys * hstate) :=
  match ls with
  | [] => Next x
  | l :: ls' => if hio_ok J x.1 l then rbind (hexec J E x l) (λ x', hrun_io J E x' ls') else Disabled
  end.

Section full.
  Context (J : job) (E : env) (K : list (gset task)).
  Hypothesis wf_nout : ∀ t, is_task J t → 1 ≤ nout J t.
  Hypothesis Hwk : wf_comps J K.
  Hypothesis Hfe : feasible J E.

  Lemma assign_seq_phase asg : ∀ s, assign_seq J E s asg = assign_phase J E s asg.
  Proof. induction asg as [|[[w t] x] asg IH]; intros s; simpl; [done|]. destruct (exec J E s (LAssign w t x)) as [[s1 cm]| |e|e]; auto. Qed.

  Lemma hexec_step_exec s hs l s' hs' : hexec J E (s, hs) (HStep l) = Next (s', hs') → ∃ cs, exec J E s l = Next (s', cs).
  Proof.
    destruct l as [w t x| |ev|w i|x|x|x]; unfold hexec; cbv beta iota; try done.
    all: match goal with |- context [exec ?a ?b ?c ?l] => destruct (exec a b c l) as [[s1 cm]| |e|e] eqn:Hex end; try done.
    all: try (intros [= <- <-]; by exists cm).
    intros Hx. apply rbind_Next in Hx as (hs1 & _ & Heq). injection Heq as <- <-. by exists cm.
  Qed.

  (* the assign phase touches neither the event pool nor what InOrder reads *)
  Lemma assign_seq_frame asg : ∀ s s', Inv J E s → assign_seq J E s asg = Next s' →
    pool s' = pool s ∧ (InOrder J s → InOrder J s').
  Proof.
    induction asg as [|[[w t] x] asg IH]; intros s s' Hinv; simpl; [by intros [= <-]|].
    destruct (exec J E s (LAssign w t x)) as [[s1 cm]| |e|e] eqn:Hex; try done. intros Hseq.
    pose proof (exec_inv J E wf_nout s (LAssign w t x) Hinv) as Hinv1. rewrite Hex in Hinv1.
    destruct (IH s1 s' Hinv1 Hseq) as [Hp Hio]. split.
    - rewrite Hp. unfold exec in Hex. destruct (assign_c J E (ctl s) w t x) as [[c h]| |e|e]; try done.
      case_bool_decide; [done|]. by injection Hex as <- _.
    - intros Hio0. apply Hio. by apply (inorder_step J E wf_nout s (LAssign w t x) s1 cm).
  Qed.

  Lemma hassign_frame s hs o srcs s1 hs1 : Inv J E s → hexec J E (s, hs) (HAssign o srcs) = Next (s1, hs1) →
    pool s1 = pool s ∧ (InOrder J s → InOrder J s1) ∧
    ∃ asg, assign_phase J E s asg = Next s1.
  Proof.
    intros Hinv. simpl. destruct (has_computable (ctl s)).
    - intros Hx. apply rbind_Next in Hx as ([asg hs'] & _ & Hx). simpl in Hx.
      case_bool_decide; [|done]. apply rbind_Next in Hx as (s' & Hseq & [= <- <-]).
      destruct (assign_seq_frame _ _ _ Hinv Hseq) as [? ?]. split; [done|]. split; [done|].
      eexists. rewrite <- assign_seq_phase. exact Hseq.
    - case_bool_decide; [|done]. intros [= <- <-]. split; [done|]. split; [done|]. by exists [].
  Qed.

  Lemma flush_frame s s2 cs : exec J E s LFlush = Next (s2, cs) →
    pool s2 = pool s ∧ computable (ctl s2) = computable (ctl s) ∧ ongoing (ctl s2) = ongoing (ctl s) ∧ fqueue (ctl s2) = ∅.
  Proof.
    unfold exec. destruct (flush_c J (ctl s)) as [[c fl] pl] eqn:Hf. intros [= <- <-]. simpl.
    unfold flush_c in Hf. injection Hf as <- _ _. done.
  Qed.

  (* nothing on its way to the controller: every publication has been notified *)
  Lemma inorder_of_empty_pool s : Inv J E s → pool s = [] → InOrder J s.
  Proof.
    intros Hinv Hp t Ht d Hd. destruct (i_completed _ _ _ Hinv _ Ht) as [Hf _].
    destruct (i_pub_ev _ _ _ Hinv _ (i_fin_pub _ _ _ Hinv _ Hf _ Hd)) as [?|Hin]; [done|].
    rewrite Hp in Hin. by apply elem_of_nil in Hin.
  Qed.

  (* ---- deadlock freedom: when the controller is about to wait, something is outstanding ---- *)
  Theorem wait_implies_outstanding_full rank hls s hs o srcs s1 hs1 s2 cs :
    wf_dag J rank → (∀ d, d ∈ j_ext J → d ∉ j_none J) →
    hrun J E (init J E, hinit J E K) hls = Next (s, hs) →          (* any reachable state ... *)
    hexec J E (s, hs) (HAssign o srcs) = Next (s1, hs1) →          (* ... assign* ; plan ... *)
    exec J E s1 LFlush = Next (s2, cs) →                           (* ... flush *)
    has_awaitable J (ctl s2) = true → outstanding J E s2.
  Proof.
    intros Hdag Hnone Hr Ha Hf Haw.
    destruct (hreachable_inv J E K wf_nout Hwk hls s hs Hr) as [Hinv Hh].
    destruct (hexec_inv J E K wf_nout Hwk s hs _ s1 hs1 Hinv Hh Ha) as [Hinv1 _].
    pose proof (exec_inv J E wf_nout s1 LFlush Hinv1) as Hinv2. rewrite Hf in Hinv2.
    destruct (hassign_frame _ _ _ _ _ _ Hinv Ha) as (Hp1 & _ & _).
    destruct (flush_frame _ _ _ Hf) as (Hp2 & Ec & Eo & Hfq).
    destruct (pool s2) as [|e0 p0] eqn:Hpool; [|left; by rewrite Hpool].
    assert (Hio : InOrder J s). { apply inorder_of_empty_pool; [done|]. by rewrite <- Hp1, <- Hp2. }
    pose proof (hassign_progress J E K wf_nout Hwk rank s hs o srcs s1 hs1 Hdag Hfe Hinv Hh Hio Ha) as Hap.
    apply (wait_implies_outstanding J E wf_nout rank s2 Hdag Hnone Hinv2 Hfq); [|done].
    unfold assign_progress, ongoing_total in *. by rewrite Ec, Eo.
  Qed.

  (* ---- the heuristic-driven controller never raises, the heuristic's own lookups
          (host2component, components, ts2component) included ---- *)
  Theorem never_raises_full hls :
    (∀ e, hrun J E (init J E, hinit J E K) hls ≠ Crash e) ∧ (∀ e, hrun J E (init J E, hinit J E K) hls ≠ Fail e).
  Proof. exact (hnever_crash_never_fail J E K wf_nout Hwk hls). Qed.

  (* ---- the hypotheses of the theorems of this file about the round are satisfiable in every reachable
          state, whatever the oracle: the assign phase computed by the heuristic can be executed (every pair
          is admissible when its turn comes: Sched/HeurEnabled.v) and so can the flush ---- *)
  Theorem round_exists hls s hs o :
    hrun J E (init J E, hinit J E K) hls = Next (s, hs) →
    ∃ srcs s1 hs1 s2 cs, hexec J E (s, hs) (HAssign o srcs) = Next (s1, hs1) ∧ exec J E s1 LFlush = Next (s2, cs).
  Proof.
    intros Hr. destruct (hreachable_inv J E K wf_nout Hwk hls s hs Hr) as [Hinv Hh].
    destruct (hassign_enabled J E K wf_nout Hwk s hs o Hinv Hh) as (srcs & s1 & hs1 & Ha).
    exists srcs, s1, hs1. unfold exec. destruct (flush_c J (ctl s1)) as [[c fl] pl]. eauto.
  Qed.

  (* ---- in-order runs ---- *)
  Lemma hexec_io_inv s hs hl s' hs' :
    Inv J E s → HInv E K s hs → InOrder J s → hio_ok J s hl = true → hexec J E (s, hs) hl = Next (s', hs') →
    Inv J E s' ∧ HInv E K s' hs' ∧ InOrder J s'.
  Proof.
    intros Hinv Hh Hio Hok Hex. destruct (hexec_inv J E K wf_nout Hwk s hs hl s' hs' Hinv Hh Hex) as [Hinv' Hh'].
    split; [done|]. split; [done|]. destruct hl as [o srcs|l].
    - destruct (hassign_frame _ _ _ _ _ _ Hinv Hex) as (_ & H & _). by apply H.
    - destruct (hexec_step_exec _ _ _ _ _ Hex) as [cm Hex']. by apply (inorder_step J E wf_nout s l s' cm).
  Qed.

  Lemma hrun_io_inv ls : ∀ s hs s' hs',
    Inv J E s → HInv E K s hs → InOrder J s → hrun_io J E (s, hs) ls = Next (s', hs') →
    Inv J E s' ∧ HInv E K s' hs' ∧ InOrder J s'.
  Proof.
    induction ls as [|l ls IH]; intros s hs s' hs' Hinv Hh Hio; simpl; [by intros [= <- <-]|].
    destruct (hio_ok J s l) eqn:Hok; [|done]. intros Hx. apply rbind_Next in Hx as ([s1 hs1] & Hex & Hx).
    destruct (hexec_io_inv _ _ _ _ _ Hinv Hh Hio Hok Hex) as (? & ? & ?). by apply (IH s1 hs1).
  Qed.

  (* the assign phase establishes assign_progress in every state reachable with in-order delivery *)
  Theorem assign_progress_full rank hls s hs o srcs s1 hs1 :
    wf_dag J rank →
    hrun_io J E (init J E, hinit J E K) hls = Next (s, hs) →
    hexec J E (s, hs) (HAssign o srcs) = Next (s1, hs1) → assign_progress (ctl s1).
  Proof.
    intros Hdag Hr Ha.
    destruct (hrun_io_inv hls _ _ _ _ (inv_init J E) (hinv_init J E K wf_nout Hwk) (inorder_init J E wf_nout) Hr) as (Hinv & Hh & Hio).
    by apply (hassign_progress J E K wf_nout Hwk rank s hs o srcs s1 hs1).
  Qed.

  (* ---- no spin: a loop iteration entered with a true guard reaches the wait ---- *)
  Theorem round_waits_full rank hls s hs o srcs s1 hs1 s2 cs :
    wf_dag J rank →
    hrun_io J E (init J E, hinit J E K) hls = Next (s, hs) →       (* reachable, publications in order *)
    has_computable (ctl s) || has_awaitable J (ctl s) = true →     (* loop guard *)
    hexec J E (s, hs) (HAssign o srcs) = Next (s1, hs1) →          (* assign* ; plan *)
    exec J E s1 LFlush = Next (s2, cs) →                           (* flush *)
    has_awaitable J (ctl s2) = true.
  Proof.
    intros Hdag Hr Hg Ha Hf.
    destruct (hrun_io_inv hls _ _ _ _ (inv_init J E) (hinv_init J E K wf_nout Hwk) (inorder_init J E wf_nout) Hr) as (Hinv & Hh & Hio).
    pose proof (hassign_progress J E K wf_nout Hwk rank s hs o srcs s1 hs1 Hdag Hfe Hinv Hh Hio Ha) as Hap.
    destruct (hassign_frame _ _ _ _ _ _ Hinv Ha) as (_ & _ & asg & Hph).
    destruct (flush_frame _ _ _ Hf) as (_ & Ec & Eo & _).
    apply (round_waits J E wf_nout s asg s2 Hg).
    - unfold ctl_phase. rewrite Hph. by rewrite Hf.
    - unfold assign_progress, ongoing_total in *. by rewrite Ec, Eo.
  Qed.
End full.

(* ------------------------------------------------------------------ non-vacuity *)
(* the job and cluster of Sched/Example.v: one component {0,1,2}; task 1 needs a GPU, worker 2 has one *)
Definition exK : list (gset task) := [{[0; 1; 2]}].
Definition ex_orc : orc := {| o_workers := []; o_tasks := []; o_match := λ _ _, false; o_key := λ _ _, (0, 0); o_prio := [] |}.
Definition ex_hlabels : list hlabel := [
  HAssign ex_orc [∅]; HStep LFlush; HStep (LPublish 0 0); HStep (LDeliver (EPub 0 (0, 0)));
  HAssign ex_orc [{[(0, 0) := 0]}] ].

Lemma ex_feasible : feasible exJ exE.
Proof. exists 2. split; [by vm_compute; eauto|]. intros t _ _. by vm_compute. Qed.

(* the hypotheses of the theorems above are satisfiable: the well-formedness conditions hold, the
   heuristic-driven run exists (first round: worker 0 takes the source task; second round: the GPU task
   goes to the GPU worker 2 with a transfer from host 0), it is an in-order run, and after the flush the
   controller does wait *)
Example progress_full_nonvacuous :
  wf_job exJ ∧ wf_dag exJ (λ t, N.to_nat t) ∧ wf_comps exJ exK ∧ feasible exJ exE ∧
  match hrun_io exJ exE (init exJ exE, hinit exJ exE exK) ex_hlabels with
  | Next (s, hs) =>
      bool_decide (dispatched s = [(0, 0); (2, 1)]) && bool_decide (h_h2c hs = {[0 := Some 0%nat; 1 := Some 0%nat]}) &&
      match exec exJ exE s LFlush with
      | Next (s2, _) => has_awaitable exJ (ctl s2) && bool_decide (computable (ctl s2) = ∅)
      | _ => false
      end
  | _ => false
  end = true.
Proof.
  split; [apply wf_job_dec_sound; vm_compute; reflexivity|].
  split; [apply wf_dag_dec_sound; vm_compute; reflexivity|].
  split; [apply wf_comps_b_sound; vm_compute; reflexivity|].
  split; [apply ex_feasible|]. vm_compute. reflexivity.
Qed.

Print Assumptions hassign_progress.
Print Assumptions assign_progress_full.
Print Assumptions wait_implies_outstanding_full.
Print Assumptions round_waits_full.
Print Assumptions never_raises_full.
Print Assumptions round_exists.
Print Assumptions progress_full_nonvacuous.
