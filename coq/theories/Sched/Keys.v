(* The shared-memory key of a dataset: memory.ds2shmid hashes  str(len(task)) ":" task output.
   That encoding is injective, so with an injective hash distinct datasets get distinct keys.
   (Before the fix the hashed text was  task ++ output, which is not injective: see the witness.) *)
From Coq Require Import List NArith String Ascii DecimalString DecimalN Decimal Lia.
Import ListNotations.
Local Open Scope string_scope.

Definition dec (n : N) : string := NilEmpty.string_of_uint (N.to_uint n).

Definition key_input (task output : string) : string :=
  dec (N.of_nat (String.length task)) ++ ":" ++ task ++ output.

Definition old_key_input (task output : string) : string := task ++ output.

Lemma dec_inj a b : dec a = dec b -> a = b.
Proof.
  unfold dec. intros H.
  assert (Some (N.to_uint a) = Some (N.to_uint b)) as Hs.
  { rewrite <- (NilEmpty.usu (N.to_uint a)), <- (NilEmpty.usu (N.to_uint b)). now rewrite H. }
  injection Hs as Hs. rewrite <- (DecimalN.Unsigned.of_to a), <- (DecimalN.Unsigned.of_to b). now rewrite Hs.
Qed.

Fixpoint no_colon (s : string) : Prop :=
  match s with EmptyString => True | String c r => c <> ":"%char /\ no_colon r end.

Lemma string_of_uint_no_colon d : no_colon (NilEmpty.string_of_uint d).
Proof. induction d; simpl; try (split; [discriminate|assumption]); exact I. Qed.

Lemma dec_no_colon n : no_colon (dec n).
Proof. apply string_of_uint_no_colon. Qed.

(* a colon-free prefix is determined by the text up to the first colon *)
Lemma split_at_colon a : forall b r1 r2, no_colon a -> no_colon b ->
  a ++ ":" ++ r1 = b ++ ":" ++ r2 -> a = b /\ r1 = r2.
Proof.
  induction a as [|c a IH]; intros b r1 r2 Ha Hb H.
  - destruct b as [|c' b]; simpl in *.
    + injection H as H. split; [reflexivity|assumption].
    + injection H as Hc _. destruct Hb as [Hb _]. subst. contradiction.
  - destruct b as [|c' b]; simpl in *.
    + injection H as Hc _. destruct Ha as [Ha _]. subst. contradiction.
    + injection H as Hc H. destruct Ha as [_ Ha]. destruct Hb as [_ Hb].
      destruct (IH b r1 r2 Ha Hb H) as [-> ->]. subst. split; reflexivity.
Qed.

Lemma app_inj_length a : forall b c d, String.length a = String.length b -> a ++ c = b ++ d -> a = b /\ c = d.
Proof.
  induction a as [|x a IH]; intros [|y b] c d Hl H; simpl in *; try discriminate.
  - split; [reflexivity|assumption].
  - injection Hl as Hl. injection H as -> H. destruct (IH b c d Hl H) as [-> ->]. split; reflexivity.
Qed.

Theorem key_input_injective t1 o1 t2 o2 :
  key_input t1 o1 = key_input t2 o2 -> t1 = t2 /\ o1 = o2.
Proof.
  unfold key_input. intros H.
  destruct (split_at_colon _ _ _ _ (dec_no_colon _) (dec_no_colon _) H) as [Hd Hr].
  apply dec_inj in Hd. apply Nat2N.inj in Hd. exact (app_inj_length _ _ _ _ Hd Hr).
Qed.

(* with an injective hash the key is injective *)
Section with_hash.
  Variable H : string -> string.
  Hypothesis H_inj : forall a b, H a = H b -> a = b.
  Definition shm_key (task output : string) : string := H (key_input task output).
  Theorem shm_key_injective t1 o1 t2 o2 : shm_key t1 o1 = shm_key t2 o2 -> t1 = t2 /\ o1 = o2.
  Proof. intros E. apply key_input_injective, H_inj, E. Qed.
End with_hash.

(* the unfixed encoding collides *)
Example old_key_input_collides :
  old_key_input "t1" "10" = old_key_input "t11" "0" /\ ("t1", "10") <> ("t11", "0").
Proof. split; [reflexivity|discriminate]. Qed.

Example key_input_example : key_input "t1" "10" = "2:t110" /\ key_input "t11" "0" = "3:t110".
Proof. split; reflexivity. Qed.
