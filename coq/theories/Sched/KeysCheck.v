(* Correspondence checker for memory.ds2shmid: the text it hashes (harness/c01.py captures it
   through a recording hashlib) is exactly key_input task output. *)
From Coq Require Import List String Bool.
From EKW Require Import Sched.Keys.
Definition check_key (c : string * string * string) : bool :=
  let '(t, o, hashed) := c in String.eqb (key_input t o) hashed.
