(* Monomorphic constructors for the literals the harness writes into cases files: no
   type-class resolution is left to the elaboration of thousands of literals. *)
From stdpp Require Import gmap.
From Coq Require Import NArith.
From EKW Require Import Sched.Model.

Definition sN (l : list N) : gset N := list_to_set l.
Definition sD (l : list ds) : gset ds := list_to_set l.
Definition mNN (l : list (N * N)) : gmap N N := list_to_map l.
Definition mNsD (l : list (N * list ds)) : gmap N (gset ds) := list_to_map ((λ p, (p.1, sD p.2)) <$> l).
Definition mDN (l : list (ds * N)) : gmap ds N := list_to_map l.
