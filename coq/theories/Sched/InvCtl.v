(* Preservation of the invariant by the controller's steps: notify (publication, completion,
   payload), assign (+act +plan) and flush_queues. *)
From stdpp Require Import gmap.
From Coq Require Import NArith String.
From EKW Require Import Sched.Model Sched.Lemmas Sched.Inv Sched.InvEnv.
Local Open Scope N_scope.

Lemma remove_pub_ds ev l k : list_remove ev l = Some k → pub_ds l ≡ₚ pub_ds [ev] ++ pub_ds k.
Proof. intros H. apply list_remove_Some in H. unfold pub_ds. rewrite H. change (ev :: k) with ([ev] ++ k). by rewrite omap_app. Qed.
Lemma remove_pay_ds ev l k : list_remove ev l = Some k → pay_ds l ≡ₚ pay_ds [ev] ++ pay_ds k.
Proof. intros H. apply list_remove_Some in H. unfold pay_ds. rewrite H. change (ev :: k) with ([ev] ++ k). by rewrite omap_app. Qed.

Section ctl_steps.
  Context (J : job) (E : env).
  Hypothesis wf_nout : ∀ t, is_task J t → 1 ≤ nout J t.

  (* ---------------------------------------------------------------- payload *)
  Lemma inv_pay s d0 v ps :
    Inv J E s → list_remove (EPay d0 v) (pool s) = Some ps →
    Inv J E {| ctl := {| computable := computable (ctl s); tracker := tracker (ctl s); idle := idle (ctl s);
                         ongoing := ongoing (ctl s); ds2host := ds2host (ctl s); ptracker := ptracker (ctl s);
                         pqueue := pqueue (ctl s); fqueue := fqueue (ctl s); fetched := fetched (ctl s);
                         outputs := <[d0 := v]> (outputs (ctl s)); remaining := remaining (ctl s);
                         seen := seen (ctl s); completed := completed (ctl s); purged := purged (ctl s) |};
               store := store s; wq := wq s; xfers := xfers s; fetches := fetches s; purges := purges s;
               pool := ps; dispatched := dispatched s; finished := finished s; published := published s |}.
  Proof.
    intros Hinv Hrm.
    pose proof (list_remove_in _ _ _ Hrm) as Hx.
    destruct (i_pay _ _ _ Hinv _ _ Hx) as (He0 & Ho0 & Hf0 & Hv0).
    assert (Hsub : ∀ y, y ∈ ps → y ∈ pool s) by (intros y Hy; rewrite (list_remove_elem _ _ _ y Hrm); auto).
    pose proof (remove_pub_ds _ _ _ Hrm) as Hpub. simpl in Hpub.
    pose proof (remove_pay_ds _ _ _ Hrm) as Hpay. simpl in Hpay.
    pose proof (i_pay_nodup _ _ _ Hinv) as Hnd. rewrite Hpay in Hnd. apply NoDup_cons in Hnd as [Hfresh Hnd'].
    assert (Hpsub : ∀ d, d ∈ pay_ds ps → d ∈ pay_ds (pool s)) by (intros d Hd; rewrite Hpay; by right).
    assert (Hhv : ∀ d, d ≠ d0 → has_value {| computable := computable (ctl s); tracker := tracker (ctl s); idle := idle (ctl s);
                         ongoing := ongoing (ctl s); ds2host := ds2host (ctl s); ptracker := ptracker (ctl s);
                         pqueue := pqueue (ctl s); fqueue := fqueue (ctl s); fetched := fetched (ctl s);
                         outputs := <[d0 := v]> (outputs (ctl s)); remaining := remaining (ctl s);
                         seen := seen (ctl s); completed := completed (ctl s); purged := purged (ctl s) |} d = has_value (ctl s) d).
    { intros d Hne. unfold has_value. simpl. by rewrite lookup_insert_ne. }
    constructor; simpl.
    - apply (i_idle _ _ _ Hinv).
    - apply (i_wq _ _ _ Hinv).
    - apply (i_wq_outs _ _ _ Hinv).
    - intros w t Ho. destruct (i_ong _ _ _ Hinv _ _ Ho) as (? & ? & ? & ? & [?|[? Hp]]); repeat split; auto.
      right. split; [done|]. rewrite (list_remove_elem _ _ _ _ Hrm) in Hp. by destruct Hp.
    - intros w d Hin. by apply (i_pub _ _ _ Hinv), Hsub.
    - pose proof (i_pub_nodup _ _ _ Hinv) as H. by rewrite Hpub in H.
    - intros h d Hin. by apply (i_xev _ _ _ Hinv), Hsub.
    - apply (i_store_pub _ _ _ Hinv).
    - apply (i_store_h2d _ _ _ Hinv).
    - apply (i_avail_store _ _ _ Hinv).
    - apply (i_seen_avail _ _ _ Hinv).
    - apply (i_seen_pub _ _ _ Hinv).
    - apply (i_purges _ _ _ Hinv).
    - intros d Hd. destruct (i_pq _ _ _ Hinv _ Hd) as (? & ? & Hext). repeat split; try done.
      intros He. destruct (decide (d = d0)) as [->|Hne].
      + specialize (Hext He). unfold has_value in Hext. by rewrite Ho0 in Hext.
      + rewrite Hhv by done. auto.
    - apply (i_ptr _ _ _ Hinv).
    - apply (i_comp _ _ _ Hinv).
    - apply (i_tr _ _ _ Hinv).
    - apply (i_disp _ _ _ Hinv).
    - apply (i_disp_nodup _ _ _ Hinv).
    - apply (i_completed _ _ _ Hinv).
    - apply (i_fin_disp _ _ _ Hinv).
    - apply (i_prep _ _ _ Hinv).
    - apply (i_xfer _ _ _ Hinv).
    - apply (i_xfer_nodup _ _ _ Hinv).
    - apply (i_inputs _ _ _ Hinv).
    - intros d h Hq. destruct (i_fq _ _ _ Hinv _ _ Hq) as (? & ? & ? & ? & ?). repeat split; try done.
      rewrite lookup_insert_ne; [done|]. intros <-. done.
    - intros d src Hf. destruct (i_fetch _ _ _ Hinv _ _ Hf) as (? & ? & ? & ? & Hnp). repeat split; auto.
      rewrite lookup_insert_ne; [done|]. intros <-. apply Hnp. rewrite Hpay. by left.
    - apply (i_fetch_nodup _ _ _ Hinv).
    - intros d v' Hin. destruct (i_pay _ _ _ Hinv _ _ (Hsub _ Hin)) as (? & ? & ? & ?). repeat split; try done.
      rewrite lookup_insert_ne; [done|]. intros <-. apply Hfresh. apply elem_of_pay_ds. eauto.
    - done.
    - intros d v' Ho. destruct (decide (d = d0)) as [->|Hne].
      + rewrite lookup_insert in Ho. injection Ho as <-. repeat split; try done.
        intros Hin. apply elem_of_list_fmap in Hin as ([d' src] & -> & Hin). simpl in *.
        destruct (i_fetch _ _ _ Hinv _ _ Hin) as (_ & _ & _ & _ & Hnp). apply Hnp. rewrite Hpay. by left.
      + rewrite lookup_insert_ne in Ho by done. destruct (i_out _ _ _ Hinv _ _ Ho) as (? & ? & ? & ? & ?).
        repeat split; auto.
    - apply (i_phase _ _ _ Hinv).
    - intros d Hd. destruct (i_pub_ev _ _ _ Hinv _ Hd) as [?|Hp]; [by left|right]. by rewrite Hpub in Hp.
    - apply (i_fin_pub _ _ _ Hinv).
    - apply (i_published _ _ _ Hinv).
    - apply (i_running _ _ _ Hinv).
    - apply (i_seen_ext _ _ _ Hinv).
    - intros d Hd. destruct (decide (d = d0)) as [->|Hne]; [right; right; by rewrite lookup_insert|].
      rewrite lookup_insert_ne by done. destruct (i_fetched _ _ _ Hinv _ Hd) as [?|[Hp|?]]; [by left| |by right; right].
      right. left. rewrite Hpay in Hp. apply elem_of_cons in Hp as [?|?]; done.
  Qed.

  (* ---------------------------------------------------------------- publication *)
  Lemma publish_fields c h d :
    computable (publish_c J c h d) = computable c ∪ filter (λ t, becomes_computable c d t = true) (ptr c d) ∧
    idle (publish_c J c h d) = idle c ∧ ongoing (publish_c J c h d) = ongoing c ∧
    ds2host (publish_c J c h d) = <[(d, h) := true]> (ds2host c) ∧
    ptracker (publish_c J c h d) = ptracker c ∧ pqueue (publish_c J c h d) = pqueue c ∧
    fqueue (publish_c J c h d) = consider_fetch J c d h ∧ fetched (publish_c J c h d) = fetched c ∧
    outputs (publish_c J c h d) = outputs c ∧ seen (publish_c J c h d) = {[d]} ∪ seen c ∧
    completed (publish_c J c h d) = completed c ∧ purged (publish_c J c h d) = purged c.
  Proof. unfold publish_c, consider_computable. simpl. repeat split; done. Qed.

  Lemma publish_tracker c h d t :
    tracker (publish_c J c h d) !! t =
    match tracker c !! t with
    | None => None
    | Some X => if bool_decide (t ∈ ptr c d)
                then (if bool_decide (X ∖ {[d]} = ∅) then None else Some (X ∖ {[d]}))
                else Some X
    end.
  Proof.
    unfold publish_c, consider_computable. simpl. rewrite map_lookup_imap.
    destruct (tracker c !! t) as [X|]; done.
  Qed.

  Local Arguments publish_c : simpl never.

  Lemma has_value_publish c h d d' : has_value (publish_c J c h d) d' = has_value c d'.
  Proof. unfold has_value. destruct (publish_fields c h d) as (_&_&_&_&_&_&_&_&->&_). done. Qed.

  Lemma inv_publish s h0 d0 ps :
    Inv J E s →
    (∀ e, e ∈ ps → e ∈ pool s) →
    (∀ w t, EPub w (last_out J t) ∈ pool s → EPub w (last_out J t) ∈ ps) →
    NoDup (pub_ds ps) → NoDup (pay_ds ps) →
    (∀ d, d ∈ pub_ds (pool s) → d ∈ pub_ds ps ∨ d = d0) →
    (∀ d, d ∈ pay_ds (pool s) → d ∈ pay_ds ps) →
    d0 ∈ published s → (d0 ∉ purged (ctl s) → (h0, d0) ∈ store s) →
    Inv J E {| ctl := publish_c J (ctl s) h0 d0; store := store s; wq := wq s; xfers := xfers s;
               fetches := fetches s; purges := purges s; pool := ps; dispatched := dispatched s;
               finished := finished s; published := published s |}.
  Proof.
    intros Hinv Hsub Hlast Hnd1 Hnd2 Hpubk Hpayk Hfin0 Hst0.
    destruct (publish_fields (ctl s) h0 d0) as (Ec & Ei & Eo & Ed & Ept & Epq & Efq & Efe & Eou & Ese & Eco & Epu).
    assert (Eong : ∀ w, ong (publish_c J (ctl s) h0 d0) w = ong (ctl s) w) by (intros w; unfold ong; by rewrite Eo).
    assert (Eptr : ∀ d, ptr (publish_c J (ctl s) h0 d0) d = ptr (ctl s) d) by (intros d; unfold ptr; by rewrite Ept).
    assert (Hpsub : ∀ d, d ∈ pay_ds ps → d ∈ pay_ds (pool s)).
    { intros d Hd. apply elem_of_pay_ds in Hd as [v Hv]. apply elem_of_pay_ds. eauto. }
    assert (Hmono : ∀ k (b : bool), ds2host (ctl s) !! k = Some true → <[(d0, h0) := true]> (ds2host (ctl s)) !! k = Some true).
    { intros k b Hk. destruct (decide (k = (d0, h0))) as [->|Hne]; [by rewrite lookup_insert|by rewrite lookup_insert_ne]. }
    assert (HmonoS : ∀ k, is_Some (ds2host (ctl s) !! k) → is_Some (<[(d0, h0) := true]> (ds2host (ctl s)) !! k)).
    { intros k Hk. apply lookup_insert_is_Some'. by right. }
    constructor; simpl; rewrite ?Ec, ?Ei, ?Eo, ?Ed, ?Ept, ?Epq, ?Efe, ?Eou, ?Ese, ?Eco, ?Epu.
    - intros w Hw. rewrite Eong. apply (i_idle _ _ _ Hinv _ Hw).
    - intros w t Hw. rewrite Eong. apply (i_wq _ _ _ Hinv _ _ Hw).
    - intros w t h Hw Hh d Hd Hp. apply HmonoS. eapply (i_wq_outs _ _ _ Hinv); eauto.
    - intros w t Ho. rewrite Eong in Ho. destruct (i_ong _ _ _ Hinv _ _ Ho) as (? & ? & ? & ? & [?|[? Hp]]); repeat split; auto.
    - intros w d Hin. rewrite Eong. by apply (i_pub _ _ _ Hinv), Hsub.
    - done.
    - intros h d Hin. by apply (i_xev _ _ _ Hinv), Hsub.
    - apply (i_store_pub _ _ _ Hinv).
    - intros h d Hin Hp. apply HmonoS. by apply (i_store_h2d _ _ _ Hinv).
    - intros d h Hd Hp. destruct (decide ((d, h) = (d0, h0))) as [[= -> ->]|Hne]; [by apply Hst0|].
      rewrite lookup_insert_ne in Hd by done. by apply (i_avail_store _ _ _ Hinv).
    - intros d Hd Hp. apply elem_of_union in Hd as [Hd|Hd].
      + apply elem_of_singleton in Hd as ->. exists h0. by rewrite lookup_insert.
      + destruct (i_seen_avail _ _ _ Hinv _ Hd Hp) as [h Hh]. exists h. by apply (Hmono _ true).
    - intros d Hd. apply elem_of_union in Hd as [Hd|Hd]; [by apply elem_of_singleton in Hd as ->|by apply (i_seen_pub _ _ _ Hinv)].
    - apply (i_purges _ _ _ Hinv).
    - intros d Hd. destruct (i_pq _ _ _ Hinv _ Hd) as (? & ? & Hext). rewrite has_value_publish. repeat split; auto. set_solver.
    - intros t Ht Hc sd Hsd. rewrite Eptr. by apply (i_ptr _ _ _ Hinv).
    - intros t Ht. apply elem_of_union in Ht as [Ht|Ht].
      + destruct (i_comp _ _ _ Hinv _ Ht) as (? & ? & ? & ?). repeat split; auto. set_solver.
      + apply elem_of_filter in Ht as [Hbc Hch]. unfold becomes_computable in Hbc.
        destruct (tracker (ctl s) !! t) as [X|] eqn:HX; [|done]. apply bool_decide_eq_true in Hbc. subst X.
        destruct (i_tr _ _ _ Hinv _ _ HX) as (? & ? & ? & ? & ? & Heq). repeat split; auto.
        intros d Hd. apply elem_of_union. destruct (decide (d = d0)) as [->|Hne]; [left; by apply elem_of_singleton|].
        right. destruct (decide (d ∈ seen (ctl s))) as [?|Hns]; [done|]. exfalso.
        assert (d ∈ ins J t ∖ seen (ctl s)) as Hin by (apply elem_of_difference; done).
        rewrite <- Heq in Hin. by apply elem_of_singleton in Hin.
    - intros t X HX. rewrite map_lookup_imap in HX. destruct (tracker (ctl s) !! t) as [X0|] eqn:HX0; [|done].
      simpl in HX. fold (ptr (ctl s) d0) in HX.
      destruct (i_tr _ _ _ Hinv _ _ HX0) as (Ht & Hc & Hnd & Hnc & Hne & Heq).
      assert (Hch : d0 ∈ X0 → t ∈ ptr (ctl s) d0).
      { intros Hd. apply (i_ptr _ _ _ Hinv _ Ht Hc). rewrite Heq in Hd. set_solver. }
      case_bool_decide as Hin.
      + case_bool_decide as Hemp; [done|]. injection HX as <-. repeat split; auto.
        * intros Hin'. apply elem_of_union in Hin' as [?|Hin']; [done|].
          apply elem_of_filter in Hin' as [Hbc _]. unfold becomes_computable in Hbc. rewrite HX0 in Hbc.
          apply bool_decide_eq_true in Hbc. subst X0. apply Hemp. set_solver.
        * rewrite Heq. set_solver.
      + injection HX as <-. repeat split; auto.
        * intros Hin'. apply elem_of_union in Hin' as [?|Hin']; [done|].
          apply elem_of_filter in Hin' as [_ Hch']. done.
        * rewrite Heq. assert (d0 ∉ X0) by (intros ?; apply Hin; auto). rewrite Heq in H. set_solver.
    - intros w t Hd. destruct (i_disp _ _ _ Hinv _ _ Hd) as (Hnc & Htr & Hs & Ht). repeat split; auto.
      + intros Hin'. apply elem_of_union in Hin' as [?|Hin']; [done|].
        apply elem_of_filter in Hin' as [Hbc _]. unfold becomes_computable in Hbc. by rewrite Htr in Hbc.
      + rewrite map_lookup_imap. by rewrite Htr.
      + set_solver.
    - apply (i_disp_nodup _ _ _ Hinv).
    - intros t Ht. destruct (i_completed _ _ _ Hinv _ Ht) as [? Hn]. split; [done|]. intros w. rewrite Eong. apply Hn.
    - apply (i_fin_disp _ _ _ Hinv).
    - intros d h Hs Hp. destruct (decide ((d, h) = (d0, h0))) as [[= -> ->]|Hne]; [left; by apply Hst0|].
      rewrite lookup_insert_ne in Hs by done. by apply (i_prep _ _ _ Hinv).
    - intros d src tgt Hx. destruct (i_xfer _ _ _ Hinv _ _ _ Hx) as (? & ? & ? & ? & ? & ?). repeat split; auto.
      by apply (Hmono _ true).
    - apply (i_xfer_nodup _ _ _ Hinv).
    - apply (i_inputs _ _ _ Hinv).
    - intros d h Hq. unfold consider_fetch in Hq.
      match type of Hq with context [if ?b then _ else _] => destruct b eqn:Hcond end.
      + destruct (decide (d = d0)) as [->|Hne].
        * rewrite lookup_insert in Hq. injection Hq as <-.
          apply andb_prop in Hcond as [Hcond Hf]. apply andb_prop in Hcond as [Hcond Hq]. apply andb_prop in Hcond as [He Hv].
          apply bool_decide_eq_true in He, Hf. repeat split; auto; [|by rewrite lookup_insert|set_solver].
          destruct (outputs (ctl s) !! d0) as [v|] eqn:Ho; [|done]. by destruct (i_out _ _ _ Hinv _ _ Ho) as (_ & ? & _).
        * rewrite lookup_insert_ne in Hq by done. destruct (i_fq _ _ _ Hinv _ _ Hq) as (? & ? & ? & ? & ?).
          repeat split; auto; [by apply (Hmono _ true)|set_solver].
      + destruct (i_fq _ _ _ Hinv _ _ Hq) as (? & ? & ? & ? & ?). repeat split; auto; [by apply (Hmono _ true)|set_solver].
    - intros d src Hf. destruct (i_fetch _ _ _ Hinv _ _ Hf) as (? & ? & ? & ? & Hnp). repeat split; auto.
      by apply (Hmono _ true).
    - apply (i_fetch_nodup _ _ _ Hinv).
    - intros d v Hin. by apply (i_pay _ _ _ Hinv), Hsub.
    - done.
    - intros d v Ho. destruct (i_out _ _ _ Hinv _ _ Ho) as (? & ? & ? & ? & ?). repeat split; auto.
    - (* i_phase *) intros t Ht Hc. destruct (i_phase _ _ _ Hinv _ Ht Hc) as [?|[[X HX]|[w Hw]]].
      + left. apply elem_of_union. by left.
      + rewrite map_lookup_imap, HX. simpl. fold (ptr (ctl s) d0).
        destruct (i_tr _ _ _ Hinv _ _ HX) as (_ & _ & _ & _ & Hne & _).
        case_bool_decide as Hin; [|right; left; eauto]. case_bool_decide as Hemp; [|right; left; eauto].
        left. apply elem_of_union. right. apply elem_of_filter. split; [|done].
        unfold becomes_computable. rewrite HX. apply bool_decide_eq_true.
        apply set_eq. intros x. rewrite elem_of_singleton. split.
        * intros Hx. destruct (decide (x = d0)) as [?|Hnx]; [done|]. exfalso. clear -Hx Hemp Hnx. set_solver.
        * intros ->. destruct (decide (d0 ∈ X)) as [?|Hnd]; [done|]. exfalso. apply Hne. clear -Hemp Hnd. set_solver.
      + right. right. exists w. by rewrite Eong.
    - (* i_pub_ev *) intros d Hd. destruct (i_pub_ev _ _ _ Hinv _ Hd) as [?|Hp]; [left; set_solver|].
      destruct (Hpubk _ Hp) as [?|Heq]; [by right|left; subst; set_solver].
    - apply (i_fin_pub _ _ _ Hinv).
    - apply (i_published _ _ _ Hinv).
    - apply (i_running _ _ _ Hinv).
    - (* i_seen_ext *) intros d Hd He. unfold consider_fetch.
      match goal with |- context [if ?b then _ else _] => destruct b eqn:Hcond end.
      + destruct (decide (d = d0)) as [->|Hne]; [right; by rewrite lookup_insert|]. rewrite lookup_insert_ne by done.
        apply (i_seen_ext _ _ _ Hinv); [set_solver|done].
      + apply elem_of_union in Hd as [Hd|Hd]; [|by apply (i_seen_ext _ _ _ Hinv)].
        apply elem_of_singleton in Hd as ->.
        apply andb_false_iff in Hcond as [Hcond|Hcond]; [apply andb_false_iff in Hcond as [Hcond|Hcond]; [apply andb_false_iff in Hcond as [Hcond|Hcond]|]|].
        * apply bool_decide_eq_false in Hcond. done.
        * apply negb_false_iff in Hcond. unfold has_value in Hcond. left.
          match type of Hcond with context [match ?x with _ => _ end] => destruct x as [[v|]|] eqn:Ho end; try discriminate Hcond.
          by destruct (i_out _ _ _ Hinv _ _ Ho) as (_ & ? & _).
        * apply bool_decide_eq_false in Hcond. right. by apply not_eq_None_Some.
        * apply bool_decide_eq_false in Hcond. left. destruct (decide (d0 ∈ fetched (ctl s))); [done|]. exfalso. by apply Hcond.
    - (* i_fetched *) intros d Hd. destruct (i_fetched _ _ _ Hinv _ Hd) as [?|[?|?]]; [by left|right; left; by apply Hpayk|by right; right].
  Qed.

  (* ---------------------------------------------------------------- completion *)
  Lemma last_out_inj t t' : last_out J t = last_out J t' → t = t'.
  Proof. unfold last_out. congruence. Qed.

  Lemma inv_complete s w0 t0 c2 ps :
    Inv J E s → list_remove (EPub w0 (last_out J t0)) (pool s) = Some ps →
    last_out J t0 ∈ seen (ctl s) →
    complete_c J (ctl s) w0 t0 = Next c2 →
    Inv J E {| ctl := c2; store := store s; wq := wq s; xfers := xfers s; fetches := fetches s;
               purges := purges s; pool := ps; dispatched := dispatched s; finished := finished s; published := published s |}.
  Proof.
    intros Hinv Hrm Hseenlast Hc.
    pose proof (list_remove_in _ _ _ Hrm) as Hx.
    destruct (i_pub _ _ _ Hinv _ _ Hx) as (_ & _ & Htask0 & Hong0 & h0 & Hh0 & _). simpl in Htask0, Hong0.
    destruct (Hong0 eq_refl) as [Hong0' Hfin0]. clear Hong0. rename Hong0' into Hong0.
    destruct (i_ong _ _ _ Hinv _ _ Hong0) as (Hnc0 & Hni0 & Hdisp0 & _ & _).
    destruct (i_disp _ _ _ Hinv _ _ Hdisp0) as (_ & _ & Hseen0 & _).
    assert (Hsub : ∀ y, y ∈ ps → y ∈ pool s) by (intros y Hy; rewrite (list_remove_elem _ _ _ y Hrm); auto).
    pose proof (remove_pub_ds _ _ _ Hrm) as Hpub. simpl in Hpub.
    pose proof (remove_pay_ds _ _ _ Hrm) as Hpay. simpl in Hpay.
    pose proof (i_pub_nodup _ _ _ Hinv) as Hnd. rewrite Hpub in Hnd. apply NoDup_cons in Hnd as [Hfresh Hnd'].
    assert (Hgone : ∀ w, EPub w (last_out J t0) ∉ ps).
    { intros w Hin. apply Hfresh. apply elem_of_pub_ds. eauto. }
    assert (Huniq : ∀ w, t0 ∈ ong (ctl s) w → w = w0).
    { intros w Hw. destruct (i_ong _ _ _ Hinv _ _ Hw) as (_ & _ & Hd & _).
      eapply nodup_snd_inj; [apply (i_disp_nodup _ _ _ Hinv)|done|done]. }
    unfold complete_c in Hc.
    case_bool_decide as Hall; [|done].
    destruct (ongoing (ctl s) !! w0) as [X0|] eqn:HX0; [|done].
    case_bool_decide as HtX; [|done].
    set (I := ins J t0) in *.
    set (pt1 := map_imap (λ sd X, if bool_decide (sd ∈ I) then Some (X ∖ {[t0]}) else Some X) (ptracker (ctl s))) in *.
    set (topurge := filter (λ sd, no_dependants pt1 sd && not_required J (ctl s) sd = true) I) in *.
    set (pt2 := filter (λ p : ds * gset task, p.1 ∉ topurge) pt1) in *.
    injection Hc as <-.
    assert (Hpt1 : ∀ sd, pt1 !! sd = (λ X, if bool_decide (sd ∈ I) then X ∖ {[t0]} else X) <$> ptracker (ctl s) !! sd).
    { intros sd. unfold pt1. rewrite map_lookup_imap. destruct (ptracker (ctl s) !! sd); simpl; [|done]. by case_bool_decide. }
    assert (Hpt2 : ∀ sd, pt2 !! sd = if decide (sd ∈ topurge) then None else pt1 !! sd).
    { intros sd. unfold pt2. apply filter_notin_lookup. }
    assert (Hlive : ∀ t sd, is_task J t → t ∉ completed (ctl s) → t ≠ t0 → sd ∈ ins J t →
                    sd ∉ topurge ∧ t ∈ default ∅ (pt2 !! sd)).
    { intros t sd Ht Hnc Hne Hsd. pose proof (i_ptr _ _ _ Hinv _ Ht Hnc _ Hsd) as Hp. unfold ptr in Hp.
      destruct (ptracker (ctl s) !! sd) as [X|] eqn:HX; [|simpl in Hp; set_solver]. simpl in Hp.
      assert (Hn : sd ∉ topurge).
      { intros Hin. apply elem_of_filter in Hin as [Hcond HI]. apply andb_prop in Hcond as [Hnd0 _].
        unfold no_dependants in Hnd0. rewrite Hpt1, HX in Hnd0. simpl in Hnd0. rewrite (bool_decide_eq_true_2 (sd ∈ I)) in Hnd0 by done.
        apply bool_decide_eq_true in Hnd0. set_solver. }
      split; [done|]. rewrite Hpt2, decide_False, Hpt1, HX by done. simpl. case_bool_decide; set_solver. }
    assert (Eong : ∀ w, default ∅ (<[w0 := X0 ∖ {[t0]}]> (ongoing (ctl s)) !! w) =
                        if decide (w0 = w) then X0 ∖ {[t0]} else ong (ctl s) w) by (intros w; apply ong_insert).
    assert (HX0' : ong (ctl s) w0 = X0) by (unfold ong; by rewrite HX0).
    constructor; simpl; unfold ong, ptr; simpl.
    - (* i_idle *) intros w Hw. rewrite Eong. destruct (decide (w0 = w)) as [<-|Hne].
      + split; [by rewrite Hh0|]. case_bool_decide as Hemp.
        * split; [done|]. destruct (wq s !! w0) as [t1|] eqn:Hw1; [|done]. exfalso.
          destruct (i_wq _ _ _ Hinv _ _ Hw1) as (_ & Ho1 & _ & Hnf1). rewrite HX0' in Ho1.
          assert (t1 ≠ t0) by (intros ->; done). set_solver.
        * exfalso. done.
      + assert (w ∈ idle (ctl s)) as Hw' by (case_bool_decide; set_solver).
        apply (i_idle _ _ _ Hinv _ Hw').
    - (* i_wq *) intros w t Hw. destruct (i_wq _ _ _ Hinv _ _ Hw) as (? & Ho & ? & Hnf). repeat split; auto.
      rewrite Eong. destruct (decide (w0 = w)) as [<-|Hne]; [|done]. rewrite HX0' in Ho.
      assert (t ≠ t0) by (intros ->; done). set_solver.
    - apply (i_wq_outs _ _ _ Hinv).
    - (* i_ong *) intros w t Ho. rewrite Eong in Ho.
      assert (t ∈ ong (ctl s) w ∧ t ≠ t0) as [Ho' Hne].
      { destruct (decide (w0 = w)) as [<-|Hne]; [rewrite HX0'; set_solver|]. split; [done|].
        intros ->. apply Hne. symmetry. by apply Huniq. }
      destruct (i_ong _ _ _ Hinv _ _ Ho') as (? & ? & ? & ? & Hcase). repeat split; auto.
      + set_solver.
      + case_bool_decide as Hemp; [|done]. intros Hin. apply elem_of_union in Hin as [Hin|Hin]; [|done].
        apply elem_of_singleton in Hin as ->. rewrite decide_True in Ho by done. set_solver.
      + destruct Hcase as [?|[? Hp]]; [by left|]. right. split; [done|].
        rewrite (list_remove_elem _ _ _ _ Hrm) in Hp. destruct Hp as [Heq|?]; [|done].
        exfalso. apply Hne. injection Heq as _ Heq. unfold last_out in Heq. congruence.
    - (* i_pub *) intros w d Hin. destruct (i_pub _ _ _ Hinv _ _ (Hsub _ Hin)) as (? & ? & ? & Hl & Hst).
      split; [done|]. split; [done|]. split; [done|]. split; [|done].
      intros Heq. destruct (Hl Heq) as [Hl1 Hl2]. split; [|done]. rewrite Eong. destruct (decide (w0 = w)) as [<-|Hne]; [|done].
      rewrite HX0' in Hl1. assert (d.1 ≠ t0); [|set_solver]. intros Hd1. apply (Hgone w0). rewrite <- Hd1, <- Heq. done.
    - done.
    - intros h d Hin. by apply (i_xev _ _ _ Hinv), Hsub.
    - apply (i_store_pub _ _ _ Hinv).
    - apply (i_store_h2d _ _ _ Hinv).
    - apply (i_avail_store _ _ _ Hinv).
    - apply (i_seen_avail _ _ _ Hinv).
    - apply (i_seen_pub _ _ _ Hinv).
    - apply (i_purges _ _ _ Hinv).
    - (* i_pq *) intros d Hd. rewrite Hpt2.
      assert (d ∈ purged (ctl s) ∪ pqueue (ctl s) ∨ d ∈ topurge) as [Hold|Hnew] by set_solver.
      + destruct (i_pq _ _ _ Hinv _ Hold) as (Hn & ? & ?). repeat split; auto.
        case_decide; [done|]. by rewrite Hpt1, Hn.
      + rewrite decide_True by done. apply elem_of_filter in Hnew as [Hcond HI]. apply andb_prop in Hcond as [_ Hnr].
        repeat split; auto. intros He. unfold not_required in Hnr. rewrite bool_decide_eq_false_2 in Hnr by auto. done.
    - (* i_ptr *) intros t Ht Hnc sd Hsd. assert (t ≠ t0 ∧ t ∉ completed (ctl s)) as [? ?] by set_solver.
      by apply Hlive.
    - (* i_comp *) intros t Ht. destruct (i_comp _ _ _ Hinv _ Ht) as (? & ? & ? & Hnd2). repeat split; auto.
      intros Hin. apply elem_of_union in Hin as [Hin|?]; [|done]. apply elem_of_singleton in Hin as ->.
      apply Hnd2. apply elem_of_list_fmap. by exists (w0, t0).
    - (* i_tr *) intros t X HX. destruct (i_tr _ _ _ Hinv _ _ HX) as (? & ? & Hnd2 & ? & ? & ?). repeat split; auto.
      intros Hin. apply elem_of_union in Hin as [Hin|?]; [|done]. apply elem_of_singleton in Hin as ->.
      apply Hnd2. apply elem_of_list_fmap. by exists (w0, t0).
    - apply (i_disp _ _ _ Hinv).
    - apply (i_disp_nodup _ _ _ Hinv).
    - (* i_completed *) intros t Ht. apply elem_of_union in Ht as [Ht|Ht].
      + apply elem_of_singleton in Ht as ->. split; [done|]. intros w. rewrite Eong.
        destruct (decide (w0 = w)) as [<-|Hne]; [set_solver|]. intros Hin. apply Hne. symmetry. by apply Huniq.
      + destruct (i_completed _ _ _ Hinv _ Ht) as [? Hn]. split; [done|]. intros w. rewrite Eong.
        destruct (decide (w0 = w)) as [<-|Hne]; [|apply Hn]. specialize (Hn w0). rewrite HX0' in Hn. set_solver.
    - apply (i_fin_disp _ _ _ Hinv).
    - apply (i_prep _ _ _ Hinv).
    - (* i_xfer *) intros d src tgt Hy. destruct (i_xfer _ _ _ Hinv _ _ _ Hy) as (? & Hq & ? & ? & ? & w & t & Hw & Hh & Hd).
      repeat split; auto; [|eauto]. intros Hin. apply elem_of_union in Hin as [?|Hin]; [done|].
      destruct (i_wq _ _ _ Hinv _ _ Hw) as (_ & Ho & Ht & Hnf). destruct (i_ong _ _ _ Hinv _ _ Ho) as (Hnc & _).
      assert (t ≠ t0) as Hne0 by (intros ->; done). by destruct (Hlive t d Ht Hnc Hne0 Hd).
    - apply (i_xfer_nodup _ _ _ Hinv).
    - apply (i_inputs _ _ _ Hinv).
    - apply (i_fq _ _ _ Hinv).
    - intros d src Hf. destruct (i_fetch _ _ _ Hinv _ _ Hf) as (? & ? & ? & ? & Hnp). repeat split; auto.
      intros Hin. apply Hnp. rewrite Hpay. done.
    - apply (i_fetch_nodup _ _ _ Hinv).
    - intros d v Hin. by apply (i_pay _ _ _ Hinv), Hsub.
    - pose proof (i_pay_nodup _ _ _ Hinv) as H. by rewrite Hpay in H.
    - intros d v Ho. destruct (i_out _ _ _ Hinv _ _ Ho) as (? & ? & ? & Hnp & ?). repeat split; auto.
      intros Hin. apply Hnp. rewrite Hpay. done.
    - (* i_phase *) intros t Ht Hnc. assert (t ≠ t0 ∧ t ∉ completed (ctl s)) as [Hne Hnc'] by set_solver.
      destruct (i_phase _ _ _ Hinv _ Ht Hnc') as [?|[?|[w Hw]]]; [by left|right; by left|].
      right. right. exists w. rewrite Eong. destruct (decide (w0 = w)) as [<-|?]; [|done].
      unfold ong in Hw. rewrite HX0 in Hw. simpl in Hw. set_solver.
    - (* i_pub_ev *) intros d Hd. destruct (i_pub_ev _ _ _ Hinv _ Hd) as [?|Hp]; [by left|].
      rewrite Hpub in Hp. apply elem_of_cons in Hp as [->|?]; [by left|by right].
    - apply (i_fin_pub _ _ _ Hinv).
    - apply (i_published _ _ _ Hinv).
    - apply (i_running _ _ _ Hinv).
    - apply (i_seen_ext _ _ _ Hinv).
    - intros d Hd. destruct (i_fetched _ _ _ Hinv _ Hd) as [?|[Hp|?]]; [by left| |by right; right].
      right. left. by rewrite Hpay in Hp.
  Qed.

  (* ---------------------------------------------------------------- assign + act + plan *)
  Lemma new_xfers_spec (srcs : gmap ds host) (h : host) (y : ds * host * host) :
    y ∈ ((λ p : ds * host, (p.1, p.2, h)) <$> map_to_list srcs) ↔ ∃ d src, srcs !! d = Some src ∧ y = (d, src, h).
  Proof.
    rewrite elem_of_list_fmap. split.
    - intros ([d src] & -> & Hin). apply elem_of_map_to_list in Hin. eauto.
    - intros (d & src & Hs & ->). exists (d, src). split; [done|]. by apply elem_of_map_to_list.
  Qed.

  Lemma inv_assign s w t srcs c' h :
    Inv J E s → assign_c J E (ctl s) w t srcs = Next (c', h) → wq s !! w = None →
    Inv J E {| ctl := c'; store := store s; wq := <[w := t]> (wq s);
               xfers := xfers s ++ ((λ p, (p.1, p.2, h)) <$> map_to_list srcs);
               fetches := fetches s; purges := purges s; pool := pool s;
               dispatched := dispatched s ++ [(w, t)]; finished := finished s; published := published s |}.
  Proof.
    intros Hinv Ha Hwq. unfold assign_c in Ha.
    destruct (e_host E !! w) as [h'|] eqn:Hh; [|done].
    destruct (negb _) eqn:Hen in Ha; [done|]. apply negb_false_iff in Hen.
    apply andb_prop in Hen as [Hen Hgpu]. apply andb_prop in Hen as [Htc Hwi].
    apply bool_decide_eq_true in Htc, Hwi.
    case_bool_decide as Hnf; [done|].
    destruct (negb _) eqn:Hval in Ha; [done|]. apply negb_false_iff in Hval.
    apply andb_prop in Hval as [Hdom Hsrc]. apply bool_decide_eq_true in Hdom, Hsrc.
    destruct (i_idle _ _ _ Hinv _ Hwi) as (_ & Hong0 & _).
    destruct (i_comp _ _ _ Hinv _ Htc) as (Htask & Hnc & Hseen & Hndisp).
    assert (Htr : tracker (ctl s) !! t = None).
    { destruct (tracker (ctl s) !! t) as [X|] eqn:HX; [|done]. by destruct (i_tr _ _ _ Hinv _ _ HX) as (_ & _ & _ & ? & _). }
    assert (Hnfin : t ∉ finished s).
    { intros Hf. by destruct (i_fin_disp _ _ _ Hinv _ Hf) as [? _]. }
    set (m2 := ds2host (ctl s) ∪ prep_map h' (ins J t ∪ outs J t)) in *.
    assert (∃ Y, c' = {| computable := computable (ctl s) ∖ {[t]}; tracker := tracker (ctl s);
                      idle := idle (ctl s) ∖ {[w]}; ongoing := <[w := Y]> (ongoing (ctl s));
                      ds2host := m2; ptracker := ptracker (ctl s); pqueue := pqueue (ctl s); fqueue := fqueue (ctl s);
                      fetched := fetched (ctl s); outputs := outputs (ctl s); remaining := remaining (ctl s);
                      seen := seen (ctl s); completed := completed (ctl s); purged := purged (ctl s) |} ∧ h = h' ∧ Y = {[t]})
      as (Y & -> & -> & ->).
    { unfold ong in Hong0. destruct (ongoing (ctl s) !! w) as [X|] eqn:HX; simpl in Hong0.
      - subst X. case_bool_decide; [set_solver|]. injection Ha as <- <-. eexists. split; [reflexivity|]. split; [done|]. set_solver.
      - injection Ha as <- <-. eexists. split; [reflexivity|]. done. }
    clear Ha.
    assert (Hlive : ∀ d, d ∈ ins J t → d ∉ purged (ctl s) ∧ d ∉ pqueue (ctl s)).
    { intros d Hd. by apply (live_not_purged J E wf_nout s t d). }
    assert (Hneeds : ∀ d, d ∈ dom srcs ↔ d ∈ ins J t ∧ ds2host (ctl s) !! (d, h') = None).
    { intros d. rewrite Hdom. unfold needs. rewrite elem_of_filter. tauto. }
    assert (Hnewx : ∀ d src, srcs !! d = Some src →
              d ∈ ins J t ∧ ds2host (ctl s) !! (d, h') = None ∧ ds2host (ctl s) !! (d, src) = Some true).
    { intros d src Hs. assert (d ∈ dom srcs) as Hd by (apply elem_of_dom; eauto). apply Hneeds in Hd as [? ?].
      split; [done|]. split; [done|]. by apply (Hsrc d src). }
    assert (Eong : ∀ w', default ∅ (<[w := {[t]}]> (ongoing (ctl s)) !! w') = if decide (w = w') then {[t]} else ong (ctl s) w')
      by (intros w'; apply ong_insert).
    constructor; simpl; unfold ong, ptr; simpl.
    - (* i_idle *) intros w' Hw'. apply elem_of_difference in Hw' as [Hw' Hne]. assert (w ≠ w') by set_solver.
      rewrite Eong, decide_False, lookup_insert_ne by done. apply (i_idle _ _ _ Hinv _ Hw').
    - (* i_wq *) intros w' t' Hw'. rewrite Eong. destruct (decide (w = w')) as [<-|Hne].
      + rewrite lookup_insert in Hw'. injection Hw' as <-. rewrite Hh. repeat split; auto. set_solver.
      + rewrite lookup_insert_ne in Hw' by done. apply (i_wq _ _ _ Hinv _ _ Hw').
    - (* i_wq_outs *) intros w' t' h2 Hw' Hh2 d Hd Hp. destruct (decide (w = w')) as [<-|Hne].
      + rewrite lookup_insert in Hw'. injection Hw' as <-. assert (h2 = h') as -> by congruence.
        apply prep_union_is_Some. right. split; [set_solver|done].
      + rewrite lookup_insert_ne in Hw' by done. apply prep_union_is_Some. left. eapply (i_wq_outs _ _ _ Hinv); eauto.
    - (* i_ong *) intros w' t' Ho. rewrite Eong in Ho. destruct (decide (w = w')) as [<-|Hne].
      + apply elem_of_singleton in Ho as ->. repeat split; auto; [set_solver|apply elem_of_app; right; by apply elem_of_list_singleton|].
        left. by rewrite lookup_insert.
      + destruct (i_ong _ _ _ Hinv _ _ Ho) as (? & ? & ? & ? & Hcase). repeat split; auto; [set_solver|apply elem_of_app; by left|].
        destruct Hcase as [?|?]; [left; by rewrite lookup_insert_ne|by right].
    - (* i_pub *) intros w' d Hin. destruct (i_pub _ _ _ Hinv _ _ Hin) as (? & ? & ? & Hl & Hst).
      split; [done|]. split; [done|]. split; [done|]. split; [|done].
      intros Heq. destruct (Hl Heq) as [Hl1 Hl2]. split; [|done]. rewrite Eong. destruct (decide (w = w')) as [<-|Hne]; [|done].
      unfold ong in Hong0. unfold ong in Hl1. rewrite Hong0 in Hl1. set_solver.
    - apply (i_pub_nodup _ _ _ Hinv).
    - apply (i_xev _ _ _ Hinv).
    - apply (i_store_pub _ _ _ Hinv).
    - intros h2 d Hin Hp. apply prep_union_is_Some. left. by apply (i_store_h2d _ _ _ Hinv).
    - intros d h2 Hd Hp. apply prep_union_true in Hd. by apply (i_avail_store _ _ _ Hinv).
    - intros d Hd Hp. destruct (i_seen_avail _ _ _ Hinv _ Hd Hp) as [h2 Hh2]. exists h2. by apply prep_union_true.
    - apply (i_seen_pub _ _ _ Hinv).
    - apply (i_purges _ _ _ Hinv).
    - apply (i_pq _ _ _ Hinv).
    - apply (i_ptr _ _ _ Hinv).
    - (* i_comp *) intros t' Ht'. apply elem_of_difference in Ht' as [Ht' Hne]. destruct (i_comp _ _ _ Hinv _ Ht') as (? & ? & ? & Hnd). repeat split; auto.
      rewrite fmap_app. intros Hin. apply elem_of_app in Hin as [?|Hin]; [done|]. simpl in Hin. apply elem_of_list_singleton in Hin. set_solver.
    - (* i_tr *) intros t' X HX. destruct (i_tr _ _ _ Hinv _ _ HX) as (? & ? & Hnd & Hncomp & ? & ?). repeat split; auto; [|set_solver].
      rewrite fmap_app. intros Hin. apply elem_of_app in Hin as [?|Hin]; [done|]. simpl in Hin. apply elem_of_list_singleton in Hin. subst. done.
    - (* i_disp *) intros w' t' Hin. apply elem_of_app in Hin as [Hin|Hin].
      + destruct (i_disp _ _ _ Hinv _ _ Hin) as (? & ? & ? & ?). repeat split; auto. set_solver.
      + apply elem_of_list_singleton in Hin as [= -> ->]. repeat split; auto. set_solver.
    - rewrite fmap_app. apply NoDup_app. split; [apply (i_disp_nodup _ _ _ Hinv)|]. split; [|apply NoDup_singleton].
      intros x Hx Hx'. apply elem_of_list_singleton in Hx' as ->. done.
    - (* i_completed *) intros t' Ht'. destruct (i_completed _ _ _ Hinv _ Ht') as [? Hn]. split; [done|]. intros w'. rewrite Eong.
      destruct (decide (w = w')); [|apply Hn]. intros Hin. apply elem_of_singleton in Hin as ->. done.
    - (* i_fin_disp *) intros t' Ht'. destruct (i_fin_disp _ _ _ Hinv _ Ht') as [Hd Hn]. split.
      + rewrite fmap_app. apply elem_of_app. by left.
      + intros w' Hw'. destruct (decide (w = w')) as [<-|Hne].
        * rewrite lookup_insert in Hw'. injection Hw' as ->. done.
        * rewrite lookup_insert_ne in Hw' by done. by eapply Hn.
    - (* i_prep *) intros d h2 Hs Hp. apply prep_union_is_Some in Hs as [Hs|[Hd ->]].
      + destruct (i_prep _ _ _ Hinv _ _ Hs Hp) as [?|[[src ?]|(w' & Hw' & ? & ?)]]; [by left|right; left; exists src; apply elem_of_app; by left|].
        right. right. exists w'. rewrite lookup_insert_ne; [done|]. intros <-. congruence.
      + destruct (ds2host (ctl s) !! (d, h')) as [b|] eqn:Hold.
        * destruct (i_prep _ _ _ Hinv d h' ltac:(eauto) Hp) as [?|[[src ?]|(w' & Hw' & ? & ?)]]; [by left|right; left; exists src; apply elem_of_app; by left|].
          right. right. exists w'. rewrite lookup_insert_ne; [done|]. intros <-. congruence.
        * apply elem_of_union in Hd as [Hd|Hd].
          -- assert (d ∈ dom srcs) as Hds by (apply Hneeds; done). apply elem_of_dom in Hds as [src Hsrc'].
             right. left. exists src. apply elem_of_app. right. apply new_xfers_spec. eauto.
          -- right. right. exists w. apply outs_spec in Hd as Hd'. destruct Hd' as [Hd1 _].
             destruct d as [a b]. simpl in *. subst a. rewrite lookup_insert. repeat split; auto.
             intros Hpubd. destruct (i_published _ _ _ Hinv _ Hpubd) as (_ & _ & [Hf|[w2 Hw2]]); simpl in *.
             ++ by apply Hnfin.
             ++ destruct (i_wq _ _ _ Hinv _ _ Hw2) as (_ & Ho2 & _). destruct (i_ong _ _ _ Hinv _ _ Ho2) as (_ & _ & Hd2 & _).
                apply Hndisp. apply elem_of_list_fmap. by exists (w2, t).
    - (* i_xfer *) intros d src tgt Hin. apply elem_of_app in Hin as [Hin|Hin].
      + destruct (i_xfer _ _ _ Hinv _ _ _ Hin) as (? & ? & ? & ? & ? & w' & t' & Hw' & ? & ?). repeat split; auto.
        * by apply prep_union_true.
        * apply prep_union_is_Some. by left.
        * exists w', t'. rewrite lookup_insert_ne; [done|]. intros <-. congruence.
      + apply new_xfers_spec in Hin as (d' & src' & Hs & [= -> -> ->]).
        destruct (Hnewx _ _ Hs) as (Hd & Hnone & Hav). destruct (Hlive _ Hd) as [? ?]. repeat split; auto.
        * by apply prep_union_true.
        * apply prep_union_is_Some. right. split; [set_solver|done].
        * intros Hst. pose proof (i_store_h2d _ _ _ Hinv _ _ Hst ltac:(done)) as [? ?]. congruence.
        * exists w, t. by rewrite lookup_insert.
    - (* i_xfer_nodup *) rewrite fmap_app. apply NoDup_app. split; [apply (i_xfer_nodup _ _ _ Hinv)|]. split.
      + intros x Hx Hx'. apply elem_of_list_fmap in Hx as ([[d src] tgt] & -> & Hx). simpl in Hx'.
        apply elem_of_list_fmap in Hx' as (y & Heq & Hy). apply new_xfers_spec in Hy as (d' & src' & Hs & ->). simpl in Heq.
        injection Heq as -> ->. destruct (Hnewx _ _ Hs) as (_ & Hnone & _).
        destruct (i_xfer _ _ _ Hinv _ _ _ Hx) as (_ & _ & _ & [? ?] & _). congruence.
      + rewrite <- list_fmap_compose. apply NoDup_fmap_2_strong; [|apply NoDup_map_to_list].
        intros [d1 s1] [d2 s2] H1 H2 Heq. simpl in Heq. injection Heq as ->.
        apply elem_of_map_to_list in H1, H2. congruence.
    - (* i_inputs *) intros w' t' h2 Hw' Hh2 d Hd. destruct (decide (w = w')) as [<-|Hne].
      + rewrite lookup_insert in Hw'. injection Hw' as <-. assert (h2 = h') as -> by congruence.
        destruct (ds2host (ctl s) !! (d, h')) as [b|] eqn:Hold.
        * destruct (Hlive _ Hd) as [Hp _].
          destruct (i_prep _ _ _ Hinv d h' ltac:(eauto) Hp) as [?|[[src ?]|(w' & Hw' & ? & ? & Hnpub)]]; [by left|right; exists src; apply elem_of_app; by left|].
          exfalso. apply Hnpub. apply (i_seen_pub _ _ _ Hinv). by apply Hseen.
        * assert (d ∈ dom srcs) as Hds by (apply Hneeds; done). apply elem_of_dom in Hds as [src Hsrc'].
          right. exists src. apply elem_of_app. right. apply new_xfers_spec. eauto.
      + rewrite lookup_insert_ne in Hw' by done. destruct (i_inputs _ _ _ Hinv _ _ _ Hw' Hh2 _ Hd) as [?|[src ?]]; [by left|].
        right. exists src. apply elem_of_app. by left.
    - intros d h2 Hq. destruct (i_fq _ _ _ Hinv _ _ Hq) as (? & ? & ? & ? & ?). repeat split; auto. by apply prep_union_true.
    - intros d src Hf. destruct (i_fetch _ _ _ Hinv _ _ Hf) as (? & ? & ? & ? & ?). repeat split; auto. by apply prep_union_true.
    - apply (i_fetch_nodup _ _ _ Hinv).
    - apply (i_pay _ _ _ Hinv).
    - apply (i_pay_nodup _ _ _ Hinv).
    - apply (i_out _ _ _ Hinv).
    - (* i_phase *) intros t' Ht' Hnc'. destruct (decide (t' = t)) as [->|Hne].
      + right. right. exists w. rewrite Eong, decide_True by done. set_solver.
      + destruct (i_phase _ _ _ Hinv _ Ht' Hnc') as [?|[?|[w' Hw']]]; [left; set_solver|right; by left|].
        right. right. exists w'. rewrite Eong. destruct (decide (w = w')) as [<-|?]; [|done].
        unfold ong in Hong0. unfold ong in Hw'. rewrite Hong0 in Hw'. set_solver.
    - apply (i_pub_ev _ _ _ Hinv).
    - apply (i_fin_pub _ _ _ Hinv).
    - intros d Hd. destruct (i_published _ _ _ Hinv _ Hd) as (? & ? & [?|[w' Hw']]); repeat split; auto.
      right. exists w'. rewrite lookup_insert_ne; [done|]. intros <-. congruence.
    - (* i_running *) intros w' t' Hw'. destruct (decide (w = w')) as [<-|Hne].
      + rewrite lookup_insert in Hw'. injection Hw' as <-. intros Hpubd.
        destruct (i_published _ _ _ Hinv _ Hpubd) as (_ & _ & [Hf|[w2 Hw2]]); simpl in *.
        * by apply Hnfin.
        * destruct (i_wq _ _ _ Hinv _ _ Hw2) as (_ & Ho2 & _). destruct (i_ong _ _ _ Hinv _ _ Ho2) as (_ & _ & Hd2 & _).
          apply Hndisp. apply elem_of_list_fmap. by exists (w2, t).
      + rewrite lookup_insert_ne in Hw' by done. by apply (i_running _ _ _ Hinv _ _ Hw').
    - apply (i_seen_ext _ _ _ Hinv).
    - apply (i_fetched _ _ _ Hinv).
  Qed.

  (* ---------------------------------------------------------------- flush_queues *)
  Lemma after_fetch_empty s :
    Inv J E s →
    filter (λ d, no_dependants (ptracker (ctl s)) d && not_required J (ctl s) d = true) (dom (fqueue (ctl s))) = ∅.
  Proof.
    intros Hinv. apply set_eq. intros d. split; [|set_solver]. intros Hd.
    apply elem_of_filter in Hd as [Hcond Hdom]. apply elem_of_dom in Hdom as [h Hq].
    destruct (i_fq _ _ _ Hinv _ _ Hq) as (He & Ho & _). apply andb_prop in Hcond as [_ Hnr].
    unfold not_required, has_value in Hnr. rewrite Ho in Hnr. rewrite bool_decide_eq_false_2 in Hnr by auto. done.
  Qed.

  Lemma inv_flush s c' fl pl :
    Inv J E s → flush_c J (ctl s) = (c', fl, pl) →
    Inv J E {| ctl := c'; store := store s; wq := wq s; xfers := xfers s; fetches := fetches s ++ fl;
               purges := purges s ++ pl; pool := pool s; dispatched := dispatched s; finished := finished s; published := published s |}.
  Proof.
    intros Hinv Hf. unfold flush_c in Hf. rewrite (after_fetch_empty s Hinv) in Hf.
    rewrite (right_id_L ∅ (∪)) in Hf.
    set (pt' := filter _ (ptracker (ctl s))) in Hf.
    assert (Hptr : ∀ d, pt' !! d = ptracker (ctl s) !! d).
    { intros d. unfold pt'. etrans; [apply filter_notin_lookup|]. by rewrite decide_False by set_solver. }
    clearbody pt'. injection Hf as <- <- <-.
    assert (Hpl : ∀ h d, (h, d) ∈ (d ← elements (pqueue (ctl s)); (λ h, (h, d)) <$> elements (hosts_of (ds2host (ctl s)) d)) → d ∈ pqueue (ctl s)).
    { intros h d Hin. apply elem_of_list_bind in Hin as (d' & Hin & Hd'). apply elem_of_elements in Hd'.
      apply elem_of_list_fmap in Hin as (h' & [= -> ->] & _). done. }
    assert (Hextq : ∀ d, d ∈ j_ext J → outputs (ctl s) !! d = None → d ∉ purged (ctl s) ∪ pqueue (ctl s)).
    { intros d He Ho Hin. destruct (i_pq _ _ _ Hinv _ Hin) as (_ & _ & Hv). specialize (Hv He). unfold has_value in Hv. by rewrite Ho in Hv. }
    constructor; simpl; unfold ong, ptr; simpl.
    - apply (i_idle _ _ _ Hinv).
    - apply (i_wq _ _ _ Hinv).
    - intros w t h Hw Hh d Hd Hp. apply drop_lookup_is_Some. split; [|set_solver]. eapply (i_wq_outs _ _ _ Hinv); eauto. set_solver.
    - apply (i_ong _ _ _ Hinv).
    - intros w d Hin. destruct (i_pub _ _ _ Hinv _ _ Hin) as (? & ? & ? & ? & h & ? & Hst).
      split; [done|]. split; [done|]. split; [done|]. split; [done|].
      exists h. split; [done|]. intros Hp. apply Hst. set_solver.
    - apply (i_pub_nodup _ _ _ Hinv).
    - intros h d Hin. destruct (i_xev _ _ _ Hinv _ _ Hin) as [? Hst]. split; [done|]. intros Hp. apply Hst. set_solver.
    - apply (i_store_pub _ _ _ Hinv).
    - intros h d Hin Hp. apply drop_lookup_is_Some. split; [|set_solver]. apply (i_store_h2d _ _ _ Hinv); [done|set_solver].
    - intros d h Hd Hp. apply drop_lookup in Hd as [Hd _]. apply (i_avail_store _ _ _ Hinv); [done|set_solver].
    - intros d Hd Hp. destruct (i_seen_avail _ _ _ Hinv _ Hd ltac:(set_solver)) as [h Hh]. exists h. apply drop_lookup. split; [done|set_solver].
    - apply (i_seen_pub _ _ _ Hinv).
    - intros h d Hin. apply elem_of_app in Hin as [Hin|Hin]; [pose proof (i_purges _ _ _ Hinv _ _ Hin); set_solver|].
      apply Hpl in Hin. set_solver.
    - intros d Hd. rewrite Hptr. apply (i_pq _ _ _ Hinv). set_solver.
    - intros t Ht Hc sd Hsd. rewrite Hptr. by apply (i_ptr _ _ _ Hinv).
    - apply (i_comp _ _ _ Hinv).
    - apply (i_tr _ _ _ Hinv).
    - apply (i_disp _ _ _ Hinv).
    - apply (i_disp_nodup _ _ _ Hinv).
    - apply (i_completed _ _ _ Hinv).
    - apply (i_fin_disp _ _ _ Hinv).
    - intros d h Hs Hp. apply drop_lookup_is_Some in Hs as [Hs _]. apply (i_prep _ _ _ Hinv); [done|set_solver].
    - intros d src tgt Hx. destruct (i_xfer _ _ _ Hinv _ _ _ Hx) as (? & ? & ? & ? & ? & ?). repeat split; auto; [set_solver|set_solver| |].
      + apply drop_lookup. done.
      + apply drop_lookup_is_Some. done.
    - apply (i_xfer_nodup _ _ _ Hinv).
    - apply (i_inputs _ _ _ Hinv).
    - intros d h Hq. by rewrite lookup_empty in Hq.
    - intros d src Hin. apply elem_of_app in Hin as [Hin|Hin].
      + destruct (i_fetch _ _ _ Hinv _ _ Hin) as (He & Ho & ? & ? & ?). repeat split; auto; [set_solver|].
        apply drop_lookup. split; [done|]. pose proof (Hextq _ He Ho). set_solver.
      + apply elem_of_map_to_list in Hin. destruct (i_fq _ _ _ Hinv _ _ Hin) as (He & Ho & Hnf & ? & ?). repeat split; auto.
        * apply elem_of_union. right. apply elem_of_dom. eauto.
        * apply drop_lookup. split; [done|]. pose proof (Hextq _ He Ho). set_solver.
        * intros Hp. apply elem_of_pay_ds in Hp as [v Hv]. by destruct (i_pay _ _ _ Hinv _ _ Hv) as (_ & _ & ? & _).
    - rewrite fmap_app. apply NoDup_app. split; [apply (i_fetch_nodup _ _ _ Hinv)|]. split; [|apply NoDup_fst_map_to_list].
      intros d Hd Hd'. apply elem_of_list_fmap in Hd as ([d1 s1] & -> & Hd). apply elem_of_list_fmap in Hd' as ([d2 s2] & Heq & Hd').
      simpl in Heq. subst d2. apply elem_of_map_to_list in Hd'.
      destruct (i_fetch _ _ _ Hinv _ _ Hd) as (_ & _ & ? & _). destruct (i_fq _ _ _ Hinv _ _ Hd') as (_ & _ & ? & _). done.
    - intros d v Hin. destruct (i_pay _ _ _ Hinv _ _ Hin) as (? & ? & ? & ?). repeat split; auto. set_solver.
    - apply (i_pay_nodup _ _ _ Hinv).
    - intros d v Ho. destruct (i_out _ _ _ Hinv _ _ Ho) as (? & ? & Hnf & ? & ?). repeat split; auto; [set_solver|].
      rewrite fmap_app. intros Hin. apply elem_of_app in Hin as [?|Hin]; [done|].
      apply elem_of_list_fmap in Hin as ([d2 s2] & -> & Hin). apply elem_of_map_to_list in Hin. simpl in Ho.
      destruct (i_fq _ _ _ Hinv _ _ Hin) as (_ & Ho' & _). congruence.
    - apply (i_phase _ _ _ Hinv).
    - apply (i_pub_ev _ _ _ Hinv).
    - apply (i_fin_pub _ _ _ Hinv).
    - apply (i_published _ _ _ Hinv).
    - apply (i_running _ _ _ Hinv).
    - intros d Hd He. left. destruct (i_seen_ext _ _ _ Hinv _ Hd He) as [?|Hq]; [set_solver|].
      apply elem_of_union. right. by apply elem_of_dom.
    - intros d Hd. rewrite fmap_app. apply elem_of_union in Hd as [Hd|Hd].
      + destruct (i_fetched _ _ _ Hinv _ Hd) as [?|[?|?]]; [left; apply elem_of_app; by left|right; by left|by right; right].
      + left. apply elem_of_app. right. apply elem_of_dom in Hd as [h Hh]. apply elem_of_list_fmap. exists (d, h).
        split; [done|]. by apply elem_of_map_to_list.
  Qed.
End ctl_steps.
