(* The invariant linking the controller's bookkeeping to the cluster's ground truth, and
   its preservation by every step of Sched/Model.v (any enabled label, any order). *)
From stdpp Require Import gmap.
From Coq Require Import NArith String.
From EKW Require Import Sched.Model Sched.Lemmas.
Local Open Scope N_scope.

Definition pub_ds (l : list event) : list ds :=
  omap (λ e, match e with EPub _ d => Some d | _ => None end) l.
Definition pay_ds (l : list event) : list ds :=
  omap (λ e, match e with EPay d _ => Some d | _ => None end) l.

Lemma elem_of_pub_ds l d : d ∈ pub_ds l ↔ ∃ w, EPub w d ∈ l.
Proof.
  unfold pub_ds. rewrite elem_of_list_omap. split.
  - intros ([w d'| |] & Hin & Heq); try done. injection Heq as ->. eauto.
  - intros [w Hw]. exists (EPub w d). done.
Qed.
Lemma elem_of_pay_ds l d : d ∈ pay_ds l ↔ ∃ v, EPay d v ∈ l.
Proof.
  unfold pay_ds. rewrite elem_of_list_omap. split.
  - intros ([| |d' v] & Hin & Heq); try done. injection Heq as ->. eauto.
  - intros [v Hv]. exists (EPay d v). done.
Qed.

Definition ong (c : cstate) (w : worker) : gset task := default ∅ (ongoing c !! w).
Definition ptr (c : cstate) (d : ds) : gset task := default ∅ (ptracker c !! d).
Definition payload_of (J : job) (d : ds) : option ds := if bool_decide (d ∈ j_none J) then None else Some d.

Section inv.
  Context (J : job) (E : env).

  Definition is_task (t : task) : Prop := is_Some (j_ins J !! t).

  Record Inv (s : sys) : Prop := {
    i_idle : ∀ w, w ∈ idle (ctl s) → is_Some (e_host E !! w) ∧ ong (ctl s) w = ∅ ∧ wq s !! w = None;
    i_wq : ∀ w t, wq s !! w = Some t →
             is_Some (e_host E !! w) ∧ t ∈ ong (ctl s) w ∧ is_task t ∧ t ∉ finished s;
    i_wq_outs : ∀ w t h, wq s !! w = Some t → e_host E !! w = Some h →
             ∀ d, d ∈ outs J t → d ∉ purged (ctl s) → is_Some (ds2host (ctl s) !! (d, h));
    i_ong : ∀ w t, t ∈ ong (ctl s) w →
             t ∉ completed (ctl s) ∧ w ∉ idle (ctl s) ∧ (w, t) ∈ dispatched s ∧ is_task t ∧
             (wq s !! w = Some t ∨ (t ∈ finished s ∧ EPub w (last_out J t) ∈ pool s));
    i_pub : ∀ w d, EPub w d ∈ pool s →
             d ∈ published s ∧ d ∈ outs J d.1 ∧ is_task d.1 ∧
             (d = last_out J d.1 → d.1 ∈ ong (ctl s) w ∧ d.1 ∈ finished s) ∧
             ∃ h, e_host E !! w = Some h ∧ (d ∉ purged (ctl s) → (h, d) ∈ store s);
    i_pub_nodup : NoDup (pub_ds (pool s));
    i_xev : ∀ h d, EXfer h d ∈ pool s → d ∈ published s ∧ (d ∉ purged (ctl s) → (h, d) ∈ store s);
    i_store_pub : ∀ h d, (h, d) ∈ store s → d ∈ published s;
    i_store_h2d : ∀ h d, (h, d) ∈ store s → d ∉ purged (ctl s) → is_Some (ds2host (ctl s) !! (d, h));
    i_avail_store : ∀ d h, ds2host (ctl s) !! (d, h) = Some true → d ∉ purged (ctl s) → (h, d) ∈ store s;
    i_seen_avail : ∀ d, d ∈ seen (ctl s) → d ∉ purged (ctl s) → ∃ h, ds2host (ctl s) !! (d, h) = Some true;
    i_seen_pub : ∀ d, d ∈ seen (ctl s) → d ∈ published s;
    i_purges : ∀ h d, (h, d) ∈ purges s → d ∈ purged (ctl s);
    i_pq : ∀ d, d ∈ purged (ctl s) ∪ pqueue (ctl s) →
             ptracker (ctl s) !! d = None ∧ d ∈ seen (ctl s) ∧ (d ∈ j_ext J → has_value (ctl s) d = true);
    i_ptr : ∀ t, is_task t → t ∉ completed (ctl s) → ∀ sd, sd ∈ ins J t → t ∈ ptr (ctl s) sd;
    i_comp : ∀ t, t ∈ computable (ctl s) →
             is_task t ∧ t ∉ completed (ctl s) ∧ ins J t ⊆ seen (ctl s) ∧ t ∉ (dispatched s).*2;
    i_tr : ∀ t X, tracker (ctl s) !! t = Some X →
             is_task t ∧ t ∉ completed (ctl s) ∧ t ∉ (dispatched s).*2 ∧ t ∉ computable (ctl s) ∧
             X ≠ ∅ ∧ X = ins J t ∖ seen (ctl s);
    i_disp : ∀ w t, (w, t) ∈ dispatched s →
             t ∉ computable (ctl s) ∧ tracker (ctl s) !! t = None ∧ ins J t ⊆ seen (ctl s) ∧ is_task t;
    i_disp_nodup : NoDup (dispatched s).*2;
    i_completed : ∀ t, t ∈ completed (ctl s) → t ∈ finished s ∧ ∀ w, t ∉ ong (ctl s) w;
    i_fin_disp : ∀ t, t ∈ finished s → t ∈ (dispatched s).*2 ∧ ∀ w, wq s !! w ≠ Some t;
    i_prep : ∀ d h, is_Some (ds2host (ctl s) !! (d, h)) → d ∉ purged (ctl s) →
             (h, d) ∈ store s ∨ (∃ src, (d, src, h) ∈ xfers s) ∨
             (∃ w, wq s !! w = Some d.1 ∧ e_host E !! w = Some h ∧ d ∈ outs J d.1 ∧ d ∉ published s);
    i_xfer : ∀ d src tgt, (d, src, tgt) ∈ xfers s →
             d ∉ purged (ctl s) ∧ d ∉ pqueue (ctl s) ∧ ds2host (ctl s) !! (d, src) = Some true ∧
             is_Some (ds2host (ctl s) !! (d, tgt)) ∧ (tgt, d) ∉ store s ∧
             ∃ w t, wq s !! w = Some t ∧ e_host E !! w = Some tgt ∧ d ∈ ins J t;
    i_xfer_nodup : NoDup ((λ x : ds * host * host, (x.1.1, x.2)) <$> xfers s);
    i_inputs : ∀ w t h, wq s !! w = Some t → e_host E !! w = Some h → ∀ d, d ∈ ins J t →
             (h, d) ∈ store s ∨ ∃ src, (d, src, h) ∈ xfers s;
    i_fq : ∀ d h, fqueue (ctl s) !! d = Some h →
             d ∈ j_ext J ∧ outputs (ctl s) !! d = None ∧ d ∉ fetched (ctl s) ∧
             ds2host (ctl s) !! (d, h) = Some true ∧ d ∈ seen (ctl s);
    i_fetch : ∀ d src, (d, src) ∈ fetches s →
             d ∈ j_ext J ∧ outputs (ctl s) !! d = None ∧ d ∈ fetched (ctl s) ∧
             ds2host (ctl s) !! (d, src) = Some true ∧ d ∉ pay_ds (pool s);
    i_fetch_nodup : NoDup (fetches s).*1;
    i_pay : ∀ d v, EPay d v ∈ pool s →
             d ∈ j_ext J ∧ outputs (ctl s) !! d = None ∧ d ∈ fetched (ctl s) ∧ v = payload_of J d;
    i_pay_nodup : NoDup (pay_ds (pool s));
    i_out : ∀ d v, outputs (ctl s) !! d = Some v →
             d ∈ j_ext J ∧ d ∈ fetched (ctl s) ∧ d ∉ (fetches s).*1 ∧ d ∉ pay_ds (pool s) ∧ v = payload_of J d;
    (* --- progress bookkeeping (used by C03) *)
    i_phase : ∀ t, is_task t → t ∉ completed (ctl s) →
             t ∈ computable (ctl s) ∨ is_Some (tracker (ctl s) !! t) ∨ ∃ w, t ∈ ong (ctl s) w;
    i_pub_ev : ∀ d, d ∈ published s → d ∈ seen (ctl s) ∨ d ∈ pub_ds (pool s);
    i_fin_pub : ∀ t, t ∈ finished s → outs J t ⊆ published s;
    i_published : ∀ d, d ∈ published s → is_task d.1 ∧ d ∈ outs J d.1 ∧ (d.1 ∈ finished s ∨ ∃ w, wq s !! w = Some d.1);
    i_running : ∀ w t, wq s !! w = Some t → last_out J t ∉ published s;
    i_seen_ext : ∀ d, d ∈ seen (ctl s) → d ∈ j_ext J → d ∈ fetched (ctl s) ∨ is_Some (fqueue (ctl s) !! d);
    i_fetched : ∀ d, d ∈ fetched (ctl s) →
             d ∈ (fetches s).*1 ∨ d ∈ pay_ds (pool s) ∨ is_Some (outputs (ctl s) !! d);
  }.
End inv.

(* ------------------------------------------------------------------ small helpers *)
Lemma nodup_snd_inj {A B : Type} (l : list (A * B)) a b c :
  NoDup l.*2 → (a, c) ∈ l → (b, c) ∈ l → a = b.
Proof.
  induction l as [|[x y] l IH]; intros Hnd Ha Hb; [by apply elem_of_nil in Ha|].
  simpl in Hnd. apply NoDup_cons in Hnd as [Hy Hnd].
  apply elem_of_cons in Ha as [Ha|Ha]; apply elem_of_cons in Hb as [Hb|Hb].
  - congruence.
  - injection Ha as -> ->. exfalso. apply Hy. apply elem_of_list_fmap. by exists (b, y).
  - injection Hb as -> ->. exfalso. apply Hy. apply elem_of_list_fmap. by exists (a, y).
  - by apply IH.
Qed.

Lemma pub_ds_app l l' : pub_ds (l ++ l') = pub_ds l ++ pub_ds l'.
Proof. apply omap_app. Qed.
Lemma pay_ds_app l l' : pay_ds (l ++ l') = pay_ds l ++ pay_ds l'.
Proof. apply omap_app. Qed.
Lemma pub_ds_pubs w l : pub_ds (EPub w <$> l) = l.
Proof. induction l as [|x l IH]; [done|]. unfold pub_ds in *. simpl. f_equal. exact IH. Qed.
Lemma pay_ds_pubs w l : pay_ds (EPub w <$> l) = [].
Proof. induction l as [|x l IH]; [done|]. unfold pay_ds in *. simpl. exact IH. Qed.

Lemma outs_list_nodup J t : NoDup (outs_list J t).
Proof.
  unfold outs_list. apply NoDup_fmap_2; [|apply NoDup_seq].
  intros i j Heq. injection Heq as Heq. by apply Nat2N.inj in Heq.
Qed.

Lemma ong_insert w X w' (o : gmap worker (gset task)) :
  default ∅ (<[w := X]> o !! w') = if decide (w = w') then X else default ∅ (o !! w').
Proof. destruct (decide (w = w')) as [->|Hne]; [by rewrite lookup_insert|by rewrite lookup_insert_ne]. Qed.

