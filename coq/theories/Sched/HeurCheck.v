(* Correspondence checker for Sched/Heur.v: a recorded run of the real controller, with the
   scheduling state (components' computable keys and weights, host2component, idle workers)
   recorded at every loop guard and the oracle values recorded at every call of
   _assignment_heuristic, is replayed; the model must COMPUTE the observed assignment sequence of
   every round and reach the recorded scheduling state at every loop guard. *)
From stdpp Require Import gmap.
From Coq Require Import NArith ZArith String.
From EKW Require Import Sched.Model Sched.Lit Sched.Replay Sched.Heur.
Local Open Scope N_scope.

(* literals written by harness/sched_heur.py *)
Record hsnap := {
  sn_cs : list (list N * Z);                (* per component: computable keys, weight *)
  sn_h2c : list (N * option nat);
  sn_idle : list N;
  sn_count : N;                             (* State.computable, the counter has_computable tests *)
}.
Record orcl := {
  ol_workers : list N;
  ol_tasks : list N;
  ol_match : list (N * N);                  (* (worker, task) with distance == optimum *)
  ol_key : list (N * N * (N * N));          (* (worker, task) -> (overhead, value) *)
  ol_prio : list (N * N);                   (* the observed assignments of the round, in order *)
}.
Record hround := { hr_snap : hsnap; hr_orc : orcl; hr_round : round }.

Definition sNN (l : list (N * N)) : gset (N * N) := list_to_set l.
Definition mKey (l : list (N * N * (N * N))) : gmap (N * N) (N * N) := list_to_map l.
Definition mH2C (l : list (N * option nat)) : gmap N (option nat) := list_to_map l.

Definition to_orc (o : orcl) : orc :=
  let M := sNN (ol_match o) in
  let Kk := mKey (ol_key o) in
  {| o_workers := ol_workers o; o_tasks := ol_tasks o;
     o_match := λ w t, bool_decide ((w, t) ∈ M);
     o_key := λ w t, default (0, 0) (Kk !! (w, t));
     o_prio := ol_prio o |}.

Definition snap_ok (s : sys) (hs : hstate) (sn : hsnap) : bool :=
  bool_decide ((λ c, (c_comp c, c_weight c)) <$> h_cs hs = (λ p, (Lit.sN p.1, p.2)) <$> sn_cs sn)
  && bool_decide (h_h2c hs = mH2C (sn_h2c sn))
  && bool_decide (idle (ctl s) = Lit.sN (sn_idle sn))
  && bool_decide (N.of_nat (size (computable (ctl s))) = sn_count sn).

Definition assigns_of (ls : list label) : list (worker * task) :=
  omap (λ l, match l with LAssign w t _ => Some (w, t) | _ => None end) ls.
Definition srcs_of (ls : list label) : list (gmap ds host) :=
  omap (λ l, match l with LAssign _ _ m => Some m | _ => None end) ls.
(* the step of the heuristic-driven system the theorems of Sched/ProgressFull.v speak about is enabled *)
Definition hassign_enabled (J : job) (E : env) (o : orc) (s : sys) (hs : hstate) (ls : list label) : bool :=
  match hexec J E (s, hs) (HAssign o (srcs_of ls)) with Next _ => true | _ => false end.

(* `if has_computable(state): for a in assign(...)` *)
Definition model_assign (J : job) (E : env) (o : orc) (s : sys) (hs : hstate)
  : res (list (cid * worker * task) * hstate) :=
  if has_computable (ctl s) then heur_assign J E o hs (idle (ctl s)) else Next ([], hs).

Fixpoint henv (J : job) (E : env) (s : sys) (hs : hstate) (ls : list label) : option (sys * hstate) :=
  match ls with
  | [] => Some (s, hs)
  | l :: ls' => match hexec J E (s, hs) (HStep l) with Next (s', hs') => henv J E s' hs' ls' | _ => None end
  end.

Fixpoint hreplay (J : job) (E : env) (s : sys) (hs : hstate) (rs : list hround) : option (sys * hstate) :=
  match rs with
  | [] => Some (s, hs)
  | r :: rs' =>
      if negb (snap_ok s hs (hr_snap r)) then None else
      let rd := hr_round r in
      match model_assign J E (to_orc (hr_orc r)) s hs with
      | Next (asg, hs1) =>
          if negb (bool_decide ((λ a : cid * worker * task, (a.1.2, a.2)) <$> asg = assigns_of (r_ctl rd))) then None else
          if negb (hassign_enabled J E (to_orc (hr_orc r)) s hs (r_ctl rd)) then None else
          match run_ctl J E s (r_ctl rd) (r_cmds rd) with
          | None => None
          | Some s1 =>
              match henv J E s1 hs1 (r_env rd) with
              | None => None
              | Some (s2, hs2) => hreplay J E s2 hs2 rs'
              end
          end
      | _ => None
      end
  end.

Definition hcase := (job * env * list (list N) * list hround * option hsnap * bool)%type.

Definition check_heur (c : hcase) : bool :=
  let '(J, E, K, rs, fin, _) := c in
  let Ks := Lit.sN <$> K in
  wf_comps_b J Ks &&
  match hreplay J E (init J E) (hinit J E Ks) rs with
  | None => false
  | Some (s, hs) => match fin with Some sn => snap_ok s hs sn | None => true end
  end.

(* ------------------------------------------------------------------ diagnosis *)
Inductive hdbg :=
| HOk
| HWf
| HSnap (r : nat) (model_cs : list (list N * Z)) (model_h2c : list (N * option nat)) (model_idle : list N)
| HCrash (r : nat) (e : string)
| HAsg (r : nat) (model : list (cid * worker * task)) (real : list (worker * task))
| HNotEnabled (r : nat)
| HCtl (r : nat)
| HEnv (r : nat).

Definition show_state (s : sys) (hs : hstate) :=
  ((λ c, (elements (c_comp c), c_weight c)) <$> h_cs hs, map_to_list (h_h2c hs), elements (idle (ctl s))).

Fixpoint dbg_hreplay (J : job) (E : env) (s : sys) (hs : hstate) (rs : list hround) (k : nat) : (sys * hstate) + hdbg :=
  match rs with
  | [] => inl (s, hs)
  | r :: rs' =>
      if negb (snap_ok s hs (hr_snap r)) then let '(a, b, c) := show_state s hs in inr (HSnap k a b c) else
      let rd := hr_round r in
      match model_assign J E (to_orc (hr_orc r)) s hs with
      | Next (asg, hs1) =>
          if negb (bool_decide ((λ a : cid * worker * task, (a.1.2, a.2)) <$> asg = assigns_of (r_ctl rd)))
          then inr (HAsg k asg (assigns_of (r_ctl rd))) else
          if negb (hassign_enabled J E (to_orc (hr_orc r)) s hs (r_ctl rd)) then inr (HNotEnabled k) else
          match run_ctl J E s (r_ctl rd) (r_cmds rd) with
          | None => inr (HCtl k)
          | Some s1 =>
              match henv J E s1 hs1 (r_env rd) with
              | None => inr (HEnv k)
              | Some (s2, hs2) => dbg_hreplay J E s2 hs2 rs' (S k)
              end
          end
      | Crash e => inr (HCrash k e)
      | _ => inr (HCrash k "disabled")
      end
  end.

Definition dbg_heur (c : hcase) : hdbg :=
  let '(J, E, K, rs, fin, _) := c in
  let Ks := Lit.sN <$> K in
  if negb (wf_comps_b J Ks) then HWf else
  match dbg_hreplay J E (init J E) (hinit J E Ks) rs 0 with
  | inr d => d
  | inl (s, hs) =>
      match fin with
      | Some sn => if snap_ok s hs sn then HOk else let '(a, b, c) := show_state s hs in HSnap (List.length rs) a b c
      | None => HOk
      end
  end.
