(* Proofs about enrich: layering from the sinks, value = depth - distance to the nearest sink. *)
From Coq Require Import List NArith ZArith Bool Lia Permutation.
From EKW Require Import Sched.Presched Sched.PreschedProofs.
Import ListNotations.
Open Scope Z_scope.

(* ------------------------------------------------------------------ dicts keyed by N *)
Notation keys := (map fst).
Section DictN.
  Context {A : Type}.
  Implicit Types m : list (N * A).

  Lemma lookup_dset_eq : forall k (v : A) m, lookup N.eqb k (dset N.eqb k v m) = Some v.
  Proof.
    intros k v m. induction m as [|[k' v'] r IH]; simpl; [rewrite N.eqb_refl; reflexivity|].
    destruct (N.eqb k k') eqn:E; simpl; [rewrite N.eqb_refl; reflexivity|rewrite E; exact IH].
  Qed.

  Lemma lookup_dset_neq : forall k k' (v : A) m, k <> k' -> lookup N.eqb k' (dset N.eqb k v m) = lookup N.eqb k' m.
  Proof.
    intros k k' v m Hne. induction m as [|[k2 v2] r IH]; simpl.
    - destruct (N.eqb k' k) eqn:E; [apply N.eqb_eq in E; congruence|reflexivity].
    - destruct (N.eqb k k2) eqn:E; simpl.
      + apply N.eqb_eq in E. subst k2. destruct (N.eqb k' k) eqn:E2; [apply N.eqb_eq in E2; congruence|reflexivity].
      + destruct (N.eqb k' k2); [reflexivity|exact IH].
  Qed.

  Lemma lookup_keys : forall k m v, lookup N.eqb k m = Some v -> In k (keys m).
  Proof.
    intros k m v. induction m as [|[k' v'] r IH]; simpl; [discriminate|].
    destruct (N.eqb k k') eqn:E; [apply N.eqb_eq in E; subst; tauto|intros H; right; exact (IH H)].
  Qed.

  Lemma keys_lookup : forall k m, In k (keys m) -> exists v, lookup N.eqb k m = Some v.
  Proof.
    intros k m. induction m as [|[k' v'] r IH]; simpl; [tauto|].
    destruct (N.eqb k k') eqn:E; [intros _; eauto|]. intros [H|H]; [subst; rewrite N.eqb_refl in E; discriminate|exact (IH H)].
  Qed.

  Lemma lookup_In : forall k m v, lookup N.eqb k m = Some v -> In (k, v) m.
  Proof.
    intros k m v. induction m as [|[k' v'] r IH]; simpl; [discriminate|].
    destruct (N.eqb k k') eqn:E; [apply N.eqb_eq in E; intros H; inversion H; subst; tauto|intros H; right; exact (IH H)].
  Qed.

  Lemma keys_dset : forall x k (v : A) m, In x (keys (dset N.eqb k v m)) <-> x = k \/ In x (keys m).
  Proof.
    intros x k v m. induction m as [|[k' v'] r IH]; simpl; [intuition|].
    destruct (N.eqb k k') eqn:E; simpl.
    - apply N.eqb_eq in E. subst. intuition.
    - rewrite IH. intuition.
  Qed.

  Lemma In_dset : forall p k (v : A) m, In p (dset N.eqb k v m) -> p = (k, v) \/ In p m.
  Proof.
    intros p k v m. induction m as [|[k' v'] r IH]; simpl; [intuition|].
    destruct (N.eqb k k'); simpl; intuition.
  Qed.

  Lemma keys_dremove_sub : forall x k m, In x (keys (dremove N.eqb k m)) -> In x (keys m).
  Proof.
    intros x k m. induction m as [|[k' v'] r IH]; simpl; [tauto|].
    destruct (N.eqb k k'); simpl; intuition.
  Qed.

  Lemma keys_dremove_cov : forall x k m, In x (keys m) -> x = k \/ In x (keys (dremove N.eqb k m)).
  Proof.
    intros x k m. induction m as [|[k' v'] r IH]; simpl; [tauto|].
    destruct (N.eqb k k') eqn:E; simpl.
    - apply N.eqb_eq in E. subst. intuition.
    - intuition.
  Qed.
End DictN.

(* ------------------------------------------------------------------ directed paths *)
Section Paths.
  Variable eo : N -> list N.

  (* path a c d: c is reachable from a in exactly d steps along edges *)
  Inductive path : N -> N -> Z -> Prop :=
  | path_refl : forall a, path a a 0
  | path_step : forall a b c d, In b (eo a) -> path b c d -> path a c (d + 1).

  (* dsink v d: some sink is reachable from v in exactly d steps *)
  Definition dsink (v : N) (d : Z) : Prop := exists s, eo s = [] /\ path v s d.
  (* nsd v d: d is the distance from v to the nearest sink *)
  Definition nsd (v : N) (d : Z) : Prop := dsink v d /\ forall d', dsink v d' -> d <= d'.

  Lemma path_nonneg : forall a c d, path a c d -> 0 <= d.
  Proof. intros a c d H. induction H; lia. Qed.

  Lemma path_zero : forall a c, path a c 0 -> a = c.
  Proof. intros a c H. inversion H as [|? b ? d Hb Hp]; subst; [reflexivity|]. apply path_nonneg in Hp. lia. Qed.

  Lemma path_sink : forall a c d, eo a = [] -> path a c d -> a = c /\ d = 0.
  Proof. intros a c d He H. inversion H as [|? b ? d' Hb Hp]; subst; [tauto|]. rewrite He in Hb. destruct Hb. Qed.
End Paths.

(* ------------------------------------------------------------------ layering *)
Section Enrich.
  Variables ei eo : N -> list N.
  Hypothesis Hsym : forall a b, In a (ei b) <-> In b (eo a).

  Lemma fold_dec_err : forall ps e, fold_left dec_parent ps (Err e) = Err e.
  Proof. induction ps as [|a r IH]; intros e; simpl; [reflexivity|apply IH]. Qed.

  Lemma fold_dec_spec : forall ps rem next rem' next',
    fold_left dec_parent ps (Ok (rem, next)) = Ok (rem', next') ->
    (forall a, In a (keys rem') -> In a (keys rem)) /\
    (forall a, In a next' -> In a next \/ (In a ps /\ In a (keys rem))) /\
    (forall a, In a (keys rem) -> In a (keys rem') \/ In a next') /\
    (forall a, In a next -> In a next').
  Proof.
    induction ps as [|p r IH]; intros rem next rem' next' H; simpl in H.
    - inversion H; subst. intuition.
    - destruct (lookup N.eqb p rem) as [k|] eqn:Hl; [|rewrite fold_dec_err in H; discriminate].
      pose proof (lookup_keys _ _ _ Hl) as Hp.
      destruct ((k - 1) =? 0) eqn:Hk.
      + destruct (IH _ _ _ _ H) as [H1 [H2 [H3 H4]]]. repeat split.
        * intros a Ha. eapply keys_dremove_sub. exact (H1 a Ha).
        * intros a Ha. destruct (H2 a Ha) as [Hn|[Hr Hkk]].
          -- apply in_app_or in Hn. destruct Hn as [Hn|[Hn|[]]]; [tauto|subst; right; simpl; tauto].
          -- right. split; [simpl; tauto|eapply keys_dremove_sub; exact Hkk].
        * intros a Ha. destruct (keys_dremove_cov a p rem Ha) as [E|Hr]; [subst; right; apply H4; apply in_or_app; simpl; tauto|exact (H3 a Hr)].
        * intros a Ha. apply H4. apply in_or_app. tauto.
      + destruct (IH _ _ _ _ H) as [H1 [H2 [H3 H4]]]. repeat split.
        * intros a Ha. apply H1 in Ha. apply keys_dset in Ha. destruct Ha as [E|Ha]; [subst; exact Hp|exact Ha].
        * intros a Ha. destruct (H2 a Ha) as [Hn|[Hr Hkk]]; [tauto|]. right. split; [simpl; tauto|].
          apply keys_dset in Hkk. destruct Hkk as [E|Hkk]; [subst; exact Hp|exact Hkk].
        * intros a Ha. apply H3. apply keys_dset. tauto.
        * exact H4.
  Qed.

  Lemma process_layer_flat : forall layer st,
    fold_left (fun st v => fold_left dec_parent (ei v) st) layer st = fold_left dec_parent (flat_map ei layer) st.
  Proof. induction layer as [|v r IH]; intros st; simpl; [reflexivity|]. rewrite fold_left_app. apply IH. Qed.

  (* every task of a later layer has a child in the layer before *)
  Fixpoint layered (ls : list (list N)) : Prop :=
    match ls with
    | l0 :: r => match r with
                 | l1 :: _ => (forall a, In a l1 -> exists v, In v l0 /\ In v (eo a)) /\ layered r
                 | [] => True
                 end
    | [] => True
    end.

  Lemma layering_spec : forall fuel rem last older ls,
    layering ei fuel rem last older = Ok ls ->
    exists tail, ls = rev older ++ last :: tail /\ layered (last :: tail) /\
      (forall a, In a (keys rem) -> In a (concat tail)) /\ (forall a, In a (concat tail) -> In a (keys rem)).
  Proof.
    induction fuel as [|f IH]; intros rem last older ls H.
    - destruct rem; simpl in H; [|discriminate]. inversion H; subst. exists []. simpl. intuition.
    - destruct rem as [|p rem0]; simpl in H.
      + inversion H; subst. exists []. simpl. intuition.
      + unfold process_layer in H. rewrite process_layer_flat in H.
        destruct (fold_left dec_parent (flat_map ei last) (Ok (p :: rem0, []))) as [[rem' next]|e] eqn:Hp; [|discriminate].
        destruct (fold_dec_spec _ _ _ _ _ Hp) as [H1 [H2 [H3 _]]].
        destruct (IH _ _ _ _ H) as [tail [Hls [Hlay [Hk1 Hk2]]]].
        exists (next :: tail). split; [rewrite Hls; simpl; rewrite <- app_assoc; reflexivity|]. split.
        * split; [|exact Hlay]. intros a Ha. destruct (H2 a Ha) as [[]|[Hf _]].
          apply in_flat_map in Hf. destruct Hf as [v [Hv Hav]]. exists v. split; [exact Hv|apply Hsym; exact Hav].
        * split; intros a Ha; simpl.
          -- apply in_or_app. destruct (H3 a Ha) as [Hr|Hn]; [right; exact (Hk1 a Hr)|left; exact Hn].
          -- simpl in Ha. apply in_app_or in Ha. destruct Ha as [Hn|Ht].
             ++ destruct (H2 a Hn) as [[]|[_ Hkk]]. exact Hkk.
             ++ exact (H1 a (Hk2 a Ht)).
  Qed.

  (* a task in layer k reaches a sink within k steps *)
  Lemma layered_dsink : forall ls K,
    layered ls -> (forall v, In v (hd [] ls) -> exists d, dsink eo v d /\ d <= K) ->
    forall a, In a (concat ls) -> exists d, dsink eo a d /\ d <= K + Z.of_nat (List.length ls) - 1.
  Proof.
    induction ls as [|l0 r IH]; intros K Hlay H0 a Ha; [destruct Ha|].
    simpl in Ha. apply in_app_or in Ha. destruct Ha as [Ha|Ha].
    - destruct (H0 a Ha) as [d [Hd Hle]]. exists d. split; [exact Hd|]. simpl List.length. lia.
    - destruct r as [|l1 r']; [destruct Ha|]. destruct Hlay as [Hstep Hlay].
      destruct (IH (K + 1) Hlay) with (a := a) as [d [Hd Hle]]; [|exact Ha|].
      + intros v Hv. simpl in Hv. destruct (Hstep v Hv) as [c [Hc Hcv]]. destruct (H0 c Hc) as [d [[s [Hs Hp]] Hle]].
        exists (d + 1). split; [exists s; split; [exact Hs|eapply path_step; eauto]|lia].
      + exists d. split; [exact Hd|]. simpl List.length in *. lia.
  Qed.

  (* ---------------------------------------------------------------- value *)
  Variable L : Z.

  Definition value_ok (value : list (N * Z)) : Prop :=
    forall v x, lookup N.eqb v value = Some x -> nsd eo v (L - x).

  Lemma fold_child_err : forall value paths cs e, fold_left (child_step L value paths) cs (Err e) = Err e.
  Proof. induction cs as [|a r IH]; intros e; simpl; [reflexivity|apply IH]. Qed.

  Lemma fold_child_value : forall value paths cs val0 pv0 val pv,
    fold_left (child_step L value paths) cs (Ok (val0, pv0)) = Ok (val, pv) ->
    val0 <= val /\
    (forall c, In c cs -> exists x, lookup N.eqb c value = Some x /\ x - 1 <= val) /\
    (val = val0 \/ exists c x, In c cs /\ lookup N.eqb c value = Some x /\ val = x - 1).
  Proof.
    induction cs as [|c r IH]; intros val0 pv0 val pv H; simpl in H.
    - inversion H; subst. split; [lia|]. split; [intros c []|tauto].
    - destruct (lookup N.eqb c paths) as [pc|]; [|rewrite fold_child_err in H; discriminate].
      destruct (lookup N.eqb c value) as [vc|] eqn:Hv; [|rewrite fold_child_err in H; discriminate].
      destruct (IH _ _ _ _ H) as [H1 [H2 H3]]. split; [lia|]. split.
      + intros c' [E|Hc']; [subst c'; exists vc; split; [exact Hv|lia]|exact (H2 c' Hc')].
      + destruct H3 as [E|[c' [x [Hc' [Hx E]]]]].
        * destruct (Z.max_spec val0 (vc - 1)) as [[_ Em]|[_ Em]]; rewrite Em in E.
          -- right. exists c, vc. simpl. tauto.
          -- tauto.
        * right. exists c', x. simpl. tauto.
  Qed.

  Lemma node_step_value : forall value paths v value' paths',
    value_ok value -> eo v <> [] -> (exists d, dsink eo v d /\ d < L) ->
    node_step eo L (Ok (value, paths)) v = Ok (value', paths') ->
    value_ok value' /\ (forall u, In u (keys value) \/ u = v -> In u (keys value')).
  Proof.
    intros value paths v value' paths' Hok Hne [d0 [Hd0 Hlt]] H. unfold node_step in H.
    destruct (fold_left (child_step L value paths) (eo v) (Ok (0, [(v, 0)]))) as [[val pv]|e] eqn:Hf; [|discriminate].
    inversion H; subst value' paths'. clear H.
    destruct (fold_child_value _ _ _ _ _ _ _ Hf) as [H1 [H2 H3]]. split.
    - intros u x Hu. destruct (N.eq_dec v u) as [E|E].
      + subst u. rewrite lookup_dset_eq in Hu. inversion Hu; subst x. clear Hu.
        (* every path from v to a sink goes through a child *)
        assert (Hmin : forall d', dsink eo v d' -> L - val <= d').
        { intros d' [s [Hs Hp]]. inversion Hp as [|? b ? d'' Hb Hp']; subst.
          - rewrite Hs in Hne. congruence.
          - destruct (H2 b Hb) as [x [Hx Hle]]. destruct (Hok b x Hx) as [_ Hm].
            assert (L - x <= d'') by (apply Hm; exists s; tauto). lia. }
        split; [|exact Hmin].
        destruct H3 as [E|[c [x [Hc [Hx E]]]]].
        * subst val. pose proof (Hmin d0 Hd0). lia.
        * subst val. destruct (Hok c x Hx) as [[s [Hs Hp]] _]. exists s. split; [exact Hs|].
          replace (L - (x - 1)) with (L - x + 1) by lia. eapply path_step; eauto.
      + rewrite lookup_dset_neq in Hu by exact E. exact (Hok u x Hu).
    - intros u Hu. apply keys_dset. destruct Hu; [right|left]; auto.
  Qed.

  Lemma fold_node_err : forall vs e, fold_left (node_step eo L) vs (Err e) = Err e.
  Proof. induction vs as [|a r IH]; intros e; simpl; [reflexivity|apply IH]. Qed.

  Lemma fold_node_value : forall vs value paths value' paths',
    value_ok value ->
    (forall v, In v vs -> eo v <> [] /\ exists d, dsink eo v d /\ d < L) ->
    fold_left (node_step eo L) vs (Ok (value, paths)) = Ok (value', paths') ->
    value_ok value' /\ (forall u, In u (keys value) \/ In u vs -> In u (keys value')).
  Proof.
    induction vs as [|v r IH]; intros value paths value' paths' Hok Hvs H; cbn [fold_left] in H.
    - inversion H; subst. split; [exact Hok|]. intros u [Hu|[]]. exact Hu.
    - destruct (node_step eo L (Ok (value, paths)) v) as [[value1 paths1]|e] eqn:Hn; [|rewrite fold_node_err in H; discriminate].
      destruct (Hvs v (or_introl eq_refl)) as [Hne Hd].
      destruct (node_step_value _ _ _ _ _ Hok Hne Hd Hn) as [Hok1 Hk1].
      destruct (IH _ _ _ _ Hok1 (fun u Hu => Hvs u (or_intror Hu)) H) as [Hok2 Hk2]. split; [exact Hok2|].
      intros u [Hu|[Hu|Hu]]; apply Hk2; [left; apply Hk1; tauto|left; apply Hk1; right; symmetry; exact Hu|tauto].
  Qed.

  Lemma fold_sink_value : forall sinks st,
    value_ok (fst st) -> (forall v, In v sinks -> eo v = []) ->
    value_ok (fst (fold_left (sink_step L) sinks st)) /\
    (forall u, In u (keys (fst st)) \/ In u sinks -> In u (keys (fst (fold_left (sink_step L) sinks st)))).
  Proof.
    induction sinks as [|v r IH]; intros st Hok Hs; simpl.
    - split; [exact Hok|]. intros u [Hu|[]]. exact Hu.
    - assert (Hok1 : value_ok (fst (sink_step L st v))).
      { simpl. intros u x Hu. destruct (N.eq_dec v u) as [E|E].
        - subst u. rewrite lookup_dset_eq in Hu. inversion Hu; subst x. replace (L - L) with 0 by lia.
          assert (Hv : eo v = []) by (apply Hs; simpl; tauto). split.
          + exists v. split; [exact Hv|constructor].
          + intros d' [s [_ Hp]]. apply path_nonneg in Hp. exact Hp.
        - rewrite lookup_dset_neq in Hu by exact E. exact (Hok u x Hu). }
      destruct (IH (sink_step L st v) Hok1 (fun u Hu => Hs u (or_intror Hu))) as [H1 H2]. split; [exact H1|].
      intros u Hu. apply H2. simpl. rewrite keys_dset. destruct Hu as [Hu|[Hu|Hu]]; auto.
  Qed.
End Enrich.

(* ------------------------------------------------------------------ enrich: nodes, sources, depth, value *)
Section EnrichValue.
  Variables ei eo : N -> list N.
  Hypothesis Hsym : forall a b, In a (ei b) <-> In b (eo a).

  Lemma null_false : forall (A : Type) (l : list A), negb (null l) = true <-> l <> [].
  Proof. intros A l. destruct l; simpl; split; intros H; congruence. Qed.

  (* the intermediate results of one enrich call *)
  Lemma enrich_inv : forall fuel nodes srcs c,
    enrich ei eo fuel (nodes, srcs) = Ok c ->
    exists tail st,
      let sinks := filter (fun v => null (eo v)) nodes in
      let L := Z.of_nat (List.length (sinks :: tail)) in
      layered eo (sinks :: tail) /\
      (forall a, In a (concat tail) <-> In a nodes /\ eo a <> []) /\
      fold_left (node_step eo L) (concat tail) (Ok (fold_left (sink_step L) sinks ([], []))) = Ok st /\
      ncd L nodes (snd st) = Ok (c_dist c) /\
      c_nodes c = nodes /\ c_sources c = srcs /\ c_value c = fst st /\ c_depth c = L.
  Proof.
    intros fuel nodes srcs c H. unfold enrich in H. simpl fst in H. simpl snd in H.
    destruct (layering ei fuel _ _ []) as [layers|e] eqn:Hl; [|discriminate]. simpl bind in H.
    destruct (layering_spec ei eo Hsym _ _ _ _ _ Hl) as [tail [Hls [Hlay [Hk1 Hk2]]]]. simpl in Hls. subst layers.
    simpl hd in H. simpl tl in H.
    destruct (fold_left (node_step eo _) (concat tail) _) as [st|e] eqn:Hst; [|discriminate]. simpl bind in H.
    destruct (ncd _ nodes (snd st)) as [dm|e] eqn:Hn; [|discriminate]. simpl in H. inversion H; subst c. clear H.
    exists tail, st. simpl. split; [exact Hlay|]. split.
    - intros a. rewrite map_map in Hk1, Hk2. simpl in Hk1, Hk2. rewrite map_id in Hk1, Hk2. split.
      + intros Ha. apply Hk2 in Ha. apply filter_In in Ha. destruct Ha as [Ha Hne]. apply null_false in Hne. tauto.
      + intros [Ha Hne]. apply Hk1. apply filter_In. split; [exact Ha|apply null_false; exact Hne].
    - split; [exact Hst|]. split; [exact Hn|]. tauto.
  Qed.

  Theorem enrich_value : forall fuel nodes srcs c,
    enrich ei eo fuel (nodes, srcs) = Ok c ->
    c_nodes c = nodes /\ c_sources c = srcs /\
    forall t, In t nodes -> exists d, nsd eo t d /\ lookup N.eqb t (c_value c) = Some (c_depth c - d).
  Proof.
    intros fuel nodes srcs c H. destruct (enrich_inv _ _ _ _ H) as [tail [st [Hlay [Htail [Hst [_ [Hn [Hs [Hv Hd]]]]]]]]].
    split; [exact Hn|]. split; [exact Hs|]. rewrite Hv, Hd. clear Hn Hs Hv Hd H.
    set (sinks := filter (fun v => null (eo v)) nodes) in *.
    set (L := Z.of_nat (List.length (sinks :: tail))) in *.
    assert (Hsk : forall v, In v sinks -> eo v = []).
    { intros v Hv. apply filter_In in Hv. destruct Hv as [_ Hv]. apply null_nil. exact Hv. }
    destruct (fold_sink_value eo L sinks ([], [])) as [Hok0 Hk0]; [intros v x Hx; discriminate|exact Hsk|].
    destruct (fold_left (sink_step L) sinks ([], [])) as [value0 paths0] eqn:Hs0. destruct st as [value paths].
    destruct (fold_node_value eo L (concat tail) value0 paths0 value paths Hok0) as [Hok Hk]; [|exact Hst|].
    - intros v Hv. split; [apply Htail in Hv; tauto|].
      destruct (layered_dsink eo (sinks :: tail) 0 Hlay) with (a := v) as [d [Hd Hle]].
      + intros u Hu. simpl in Hu. exists 0. split; [|lia]. exists u. split; [exact (Hsk u Hu)|constructor].
      + simpl. apply in_or_app. right. exact Hv.
      + exists d. split; [exact Hd|]. unfold L. lia.
    - intros t Ht. simpl fst.
      assert (Hin : In t (keys value)).
      { apply Hk. destruct (eo t) as [|x r] eqn:Ht0.
        - left. apply Hk0. right. apply filter_In. split; [exact Ht|]. rewrite Ht0. reflexivity.
        - right. apply Htail. split; [exact Ht|]. rewrite Ht0. discriminate. }
      destruct (keys_lookup _ _ Hin) as [x Hx]. exists (L - x). split; [exact (Hok t x Hx)|].
      rewrite Hx. f_equal. lia.
  Qed.
End EnrichValue.
