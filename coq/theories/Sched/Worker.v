(* Model of the worker process loop, cascade/executor/runner/entrypoint.py:entrypoint
   (availab_ds / waiting_ts / missing_ds): which task sequences it starts, and when. *)
From stdpp Require Import gmap.
From Coq Require Import NArith String.
From EKW Require Import Sched.Model.
Local Open Scope N_scope.

Inductive wmsg :=
| WPub (d : ds)          (* DatasetPublished forwarded by the executor *)
| WPurge (d : ds)        (* DatasetPurge *)
| WSeq (t : task)        (* TaskSequence (one task) *)
| WShutdown.

Record wstate := {
  w_avail : gset ds;             (* availab_ds *)
  w_wait : option task;          (* waiting_ts *)
  w_missing : gset ds;           (* missing_ds *)
  w_provided : gset ds;          (* memory.provide calls so far *)
  w_log : list (task * gset ds); (* execute_sequence calls, with (ghost) every dataset announced so far *)
  w_seen : gset ds;              (* ghost: every WPub received so far *)
  w_stopped : bool;
}.

Definition w_init : wstate :=
  {| w_avail := ∅; w_wait := None; w_missing := ∅; w_provided := ∅; w_log := []; w_seen := ∅; w_stopped := false |}.

Inductive wres := WOk (s : wstate) | WErr (e : string).

(* req t = inputs of t that are not its own outputs *)
Definition wstep (req : task → gset ds) (s : wstate) (m : wmsg) : wres :=
  if w_stopped s then WOk s else
  match m with
  | WShutdown => WOk {| w_avail := w_avail s; w_wait := w_wait s; w_missing := w_missing s; w_provided := w_provided s;
                        w_log := w_log s; w_seen := w_seen s; w_stopped := true |}
  | WPub d =>
      let seen' := {[d]} ∪ w_seen s in
      if bool_decide (d ∈ w_missing s) then
        let miss' := w_missing s ∖ {[d]} in
        match w_wait s with
        | Some t =>
            if bool_decide (miss' = ∅)
            then WOk {| w_avail := {[d]} ∪ w_avail s; w_wait := None; w_missing := miss';
                        w_provided := {[d]} ∪ w_provided s; w_log := w_log s ++ [(t, seen')]; w_seen := seen'; w_stopped := false |}
            else WOk {| w_avail := {[d]} ∪ w_avail s; w_wait := Some t; w_missing := miss';
                        w_provided := {[d]} ∪ w_provided s; w_log := w_log s; w_seen := seen'; w_stopped := false |}
        | None => WOk {| w_avail := {[d]} ∪ w_avail s; w_wait := None; w_missing := miss';
                         w_provided := {[d]} ∪ w_provided s; w_log := w_log s; w_seen := seen'; w_stopped := false |}
        end
      else WOk {| w_avail := {[d]} ∪ w_avail s; w_wait := w_wait s; w_missing := w_missing s;
                  w_provided := w_provided s; w_log := w_log s; w_seen := seen'; w_stopped := false |}
  | WPurge d => WOk {| w_avail := w_avail s ∖ {[d]}; w_wait := w_wait s; w_missing := w_missing s;
                       w_provided := w_provided s ∖ {[d]}; w_log := w_log s; w_seen := w_seen s; w_stopped := false |}
  | WSeq t =>
      match w_wait s with
      | Some _ => WErr "double task sequence enqueued"
      | None =>
          let miss := req t ∖ w_avail s in
          if bool_decide (miss = ∅)
          then WOk {| w_avail := w_avail s; w_wait := None; w_missing := miss; w_provided := w_provided s;
                      w_log := w_log s ++ [(t, w_seen s)]; w_seen := w_seen s; w_stopped := false |}
          else WOk {| w_avail := w_avail s; w_wait := Some t; w_missing := miss;
                      w_provided := w_provided s ∪ (w_avail s ∩ req t); w_log := w_log s; w_seen := w_seen s; w_stopped := false |}
      end
  end.

Fixpoint wrun (req : task → gset ds) (s : wstate) (ms : list wmsg) : wres :=
  match ms with
  | [] => WOk s
  | m :: ms' => match wstep req s m with WOk s' => wrun req s' ms' | WErr e => WErr e end
  end.

(* ------------------------------------------------------------------ proofs *)
Definition winv (req : task → gset ds) (s : wstate) : Prop :=
  w_avail s ⊆ w_seen s ∧
  (∀ t, w_wait s = Some t → req t ⊆ w_missing s ∪ w_seen s) ∧
  Forall (λ p, req p.1 ⊆ p.2) (w_log s).

Lemma winv_step req s m s' : winv req s → wstep req s m = WOk s' → winv req s'.
Proof.
  intros (Ha & Hw & Hl) Hs. unfold wstep in Hs. destruct (w_stopped s); [by injection Hs as <-|].
  destruct m as [d|d|t|].
  - case_bool_decide as Hm.
    + destruct (w_wait s) as [t|] eqn:Hwt.
      * specialize (Hw t eq_refl). case_bool_decide as He; injection Hs as <-.
        -- split; [simpl; set_solver|]. split; [simpl; intros ? ?; done|]. simpl.
           apply Forall_app. split; [done|]. constructor; [|constructor]. simpl.
           intros x Hx. destruct (decide (x = d)) as [->|Hne]; [set_solver|].
           apply Hw in Hx. apply elem_of_union in Hx as [Hx|Hx]; [|set_solver].
           exfalso. assert (x ∈ w_missing s ∖ {[d]}) as Hin by set_solver. rewrite He in Hin. set_solver.
        -- split; [simpl; set_solver|]. split; [|done]. simpl. intros t' [= <-].
           intros x Hx. apply Hw in Hx. destruct (decide (x = d)) as [->|Hne]; set_solver.
      * injection Hs as <-. split; [simpl; set_solver|]. split; [simpl; intros ? ?; done|done].
    + injection Hs as <-. split; [simpl; set_solver|]. split; [|done]. simpl. intros t Ht. specialize (Hw t Ht). set_solver.
  - injection Hs as <-. split; [simpl; set_solver|]. split; [|done]. simpl. done.
  - destruct (w_wait s) as [t'|] eqn:Hwt; [done|]. case_bool_decide as He; injection Hs as <-.
    + split; [done|]. split; [simpl; intros ? ?; done|]. simpl. apply Forall_app. split; [done|].
      constructor; [|constructor]. simpl.
      intros x Hx. destruct (decide (x ∈ w_avail s)) as [Hin|Hnin]; [by apply Ha|].
      exfalso. assert (x ∈ req t ∖ w_avail s) as Hin by set_solver. rewrite He in Hin. set_solver.
    + split; [done|]. split; [|done]. simpl. intros t' [= <-].
      intros x Hx. destruct (decide (x ∈ w_avail s)); set_solver.
  - injection Hs as <-. done.
Qed.

Lemma winv_run req ms : ∀ s s', winv req s → wrun req s ms = WOk s' → winv req s'.
Proof.
  induction ms as [|m ms IH]; intros s s' Hi Hr; simpl in Hr; [by injection Hr as <-|].
  destruct (wstep req s m) as [s1|e] eqn:Hs; [|done]. eapply IH; [|done]. by eapply winv_step.
Qed.

(* every sequence the worker ever started had all its required datasets announced before *)
Theorem worker_starts_after_arrival req ms s :
  wrun req w_init ms = WOk s → Forall (λ p, req p.1 ⊆ p.2) (w_log s).
Proof.
  intros Hr. assert (winv req w_init) as Hi.
  { split; [done|]. split; [intros ? ?; done|constructor]. }
  by destruct (winv_run req ms _ _ Hi Hr) as (_ & _ & ?).
Qed.

(* the only error of the loop is a second sequence while one is waiting *)
Theorem worker_error_only_double_sequence req ms e :
  wrun req w_init ms = WErr e → e = "double task sequence enqueued"%string.
Proof.
  generalize w_init. induction ms as [|m ms IH]; intros s Hr; simpl in Hr; [done|].
  destruct (wstep req s m) as [s1|e'] eqn:Hs; [by eapply IH|]. injection Hr as <-.
  unfold wstep in Hs. destruct (w_stopped s); [done|]. destruct m; try done.
  - case_bool_decide; [destruct (w_wait s); [case_bool_decide|]|]; done.
  - destruct (w_wait s); [by injection Hs as <-|]. by case_bool_decide.
Qed.
