(* The property statements about `precompute j`, in terms of the job's edges only. *)
From Coq Require Import List NArith ZArith Bool Lia Permutation Sorted.
From EKW Require Import Sched.Presched Sched.PreschedProofs Sched.PreschedEnrich Sched.PreschedJob Sched.PreschedDist Sched.PreschedBound.
Import ListNotations.

(* ------------------------------------------------------------------ vocabulary *)
Definition tasks_of (j : job) : list N := map fst (j_tasks j).

(* a job DAG: distinct task ids, edges join tasks of the job, every edge names exactly one input
   slot (kw xor ps) and no input slot of a task is fed twice *)
Record wf_job (j : job) : Prop := {
  wf_tasks : NoDup (tasks_of j);
  wf_ends : forall e, In e (j_edges j) -> In (e_src e) (tasks_of j) /\ In (e_snk e) (tasks_of j);
  wf_slot : forall e, In e (j_edges j) -> slot_of e = Ok (slot_tot e);
  wf_uniq : NoDup (map sk (j_edges j)) }.

Definition acyclic (j : job) : Prop :=
  exists rank : N -> nat, forall e, In e (j_edges j) -> (rank (e_src e) < rank (e_snk e))%nat.

(* there is an edge from (some output of) task a to (some input of) task b *)
Definition edge_tt (j : job) (a b : N) : Prop := exists e, In e (j_edges j) /\ e_src e = a /\ e_snk e = b.

(* weak connectivity: edges followed in either direction *)
Inductive wconn (j : job) : N -> N -> Prop :=
| wc_refl : forall a, wconn j a a
| wc_fwd : forall a b c, wconn j a b -> edge_tt j b c -> wconn j a c
| wc_bwd : forall a b c, wconn j a b -> edge_tt j c b -> wconn j a c.

(* c is reachable from a in exactly d steps *)
Inductive jpath (j : job) : N -> N -> Z -> Prop :=
| jp_refl : forall a, jpath j a a 0
| jp_step : forall a b c d, edge_tt j a b -> jpath j b c d -> jpath j a c (d + 1).

Definition is_sink (j : job) (s : N) : Prop := forall b, ~ edge_tt j s b.
Definition to_sink (j : job) (v : N) (d : Z) : Prop := exists s, is_sink j s /\ jpath j v s d.
Definition nearest_sink (j : job) (v : N) (d : Z) : Prop := to_sink j v d /\ forall d', to_sink j v d' -> (d <= d')%Z.

(* some task is reachable from both a and b within d steps *)
Definition jcommon (j : job) (a b : N) (d : Z) : Prop :=
  exists c da db, jpath j a c da /\ jpath j b c db /\ (da <= d)%Z /\ (db <= d)%Z.

(* r is the recorded distance of a and b as the property defines it *)
Definition distance_full (j : job) (depth : Z) (a b : N) (r : Z) : Prop :=
  ((exists d, jcommon j a b d) -> jcommon j a b r /\ forall d, jcommon j a b d -> (r <= d)%Z) /\
  (~ (exists d, jcommon j a b d) -> r = depth).

(* what is proved so far: the same with the minimum capped at the depth *)
Definition distance_capped (j : job) (depth : Z) (a b : N) (r : Z) : Prop :=
  (r <= depth)%Z /\ (forall d, jcommon j a b d -> (r <= d)%Z) /\ (r = depth \/ jcommon j a b r).

(* ------------------------------------------------------------------ the adjacency lists precompute builds *)
Definition jps (j : job) := fold_left ps_step (j_edges j) [].
Definition jei (j : job) : N -> list N := adj (edge_i_proj (edge_i_of (jps j))).
Definition jeo (j : job) : N -> list N := adj (edge_o_proj (dependants (j_edges j))).

Section Job.
  Variable j : job.
  Hypothesis Hwf : wf_job j.

  Lemma jeo_spec : forall a b, In b (jeo j a) <-> edge_tt j a b.
  Proof. intros a b. apply eop_spec. Qed.

  Lemma jei_spec : forall a b, In a (jei j b) <-> edge_tt j a b.
  Proof. intros a b. apply eip_spec. exact (wf_uniq j Hwf). Qed.

  Lemma jsym : forall a b, In a (jei j b) <-> In b (jeo j a).
  Proof. intros a b. rewrite jei_spec, jeo_spec. tauto. Qed.

  Lemma jends : forall a b, In b (jeo j a) -> In a (tasks_of j) /\ In b (tasks_of j).
  Proof. intros a b H. apply jeo_spec in H. destruct H as [e [He [Ha Hb]]]. subst. exact (wf_ends j Hwf e He). Qed.

  Lemma jacyc : acyclic j -> exists rank : N -> nat, forall a b, In b (jeo j a) -> (rank a < rank b)%nat.
  Proof. intros [rank Hr]. exists rank. intros a b H. apply jeo_spec in H. destruct H as [e [He [Ha Hb]]]. subst. exact (Hr e He). Qed.

  Lemma conn_wconn : forall a b, conn (jei j) (jeo j) a b -> wconn j a b.
  Proof.
    intros a b H. induction H as [|a b c _ IH Hn]; [constructor|]. destruct Hn as [Hn|Hn].
    - apply jei_spec in Hn. eapply wc_bwd; eauto.
    - apply jeo_spec in Hn. eapply wc_fwd; eauto.
  Qed.

  Lemma path_jpath : forall a c d, path (jeo j) a c d <-> jpath j a c d.
  Proof.
    intros a c d. split; intros H; induction H; try constructor.
    - econstructor; [apply jeo_spec; eassumption|assumption].
    - econstructor; [apply jeo_spec; eassumption|assumption].
  Qed.

  Lemma sink_is_sink : forall s, jeo j s = [] <-> is_sink j s.
  Proof.
    intros s. split.
    - intros H b Hb. apply jeo_spec in Hb. rewrite H in Hb. destruct Hb.
    - intros H. destruct (jeo j s) as [|b r] eqn:E; [reflexivity|]. exfalso. apply (H b). apply jeo_spec. rewrite E. simpl. tauto.
  Qed.

  Lemma nsd_nearest : forall v d, nsd (jeo j) v d <-> nearest_sink j v d.
  Proof.
    assert (Hd : forall v d, dsink (jeo j) v d <-> to_sink j v d).
    { intros v d. unfold dsink, to_sink. split; intros [s [Hs Hp]]; exists s; (split; [apply sink_is_sink; exact Hs|apply path_jpath; exact Hp]). }
    intros v d. unfold nsd, nearest_sink. rewrite Hd. split; intros [H1 H2]; (split; [exact H1|]); intros d' Hd'; apply H2; apply Hd; exact Hd'.
  Qed.

  Lemma common_jcommon : forall a b d, common (jeo j) a b d <-> jcommon j a b d.
  Proof.
    intros a b d. unfold common, jcommon. split; intros [c [da [db [H1 [H2 H3]]]]]; exists c, da, db;
      (split; [apply path_jpath; exact H1|split; [apply path_jpath; exact H2|exact H3]]).
  Qed.

  (* ---------------------------------------------------------------- unfolding precompute *)
  Definition task_o_of : list (N * list ds) := map (fun t => (fst t, map (fun o => (fst t, o)) (snd t))) (j_tasks j).

  Lemma precompute_inv : forall p,
    precompute j = Ok p ->
    exists plain comps,
      decompose (jei j) (jeo j) (fuel_of j) (tasks_of j) = Ok plain /\
      Forall2 (fun pc c => enrich (jei j) (jeo j) (fuel_of j) pc = Ok c) plain comps /\
      p = mkP (sort_desc comps) (dependants (j_edges j)) (edge_i_of (jps j)) task_o_of.
  Proof.
    intros p H. unfold precompute in H. rewrite (param_source_ok _ (wf_slot j Hwf)) in H. simpl bind in H.
    fold (jps j) in H. fold (jei j) in H. fold (jeo j) in H. fold (tasks_of j) in H.
    destruct (decompose (jei j) (jeo j) (fuel_of j) (tasks_of j)) as [plain|e] eqn:Hd; [|discriminate]. simpl bind in H.
    destruct (res_map (enrich (jei j) (jeo j) (fuel_of j)) plain) as [comps|e] eqn:Hr; [|discriminate]. simpl in H.
    inversion H. exists plain, comps. split; [reflexivity|]. split; [apply res_map_spec; exact Hr|reflexivity].
  Qed.

  Lemma concat_perm : forall (A : Type) (l l' : list (list A)), Permutation l l' -> Permutation (concat l) (concat l').
  Proof.
    intros A l l' H. induction H; simpl.
    - constructor.
    - apply Permutation_app_head. assumption.
    - rewrite !app_assoc. apply Permutation_app_tail. apply Permutation_app_comm.
    - eapply Permutation_trans; eassumption.
  Qed.

  Hypothesis Hac : acyclic j.
  Variable p : presched.
  Hypothesis Hp : precompute j = Ok p.

  Definition is_src_j : N -> bool := fun e => mem e (sources_of (jei j) (tasks_of j)).

  (* every component of the result is one flood-filled set, enriched *)
  Lemma comps_facts :
    Permutation (concat (map c_nodes (p_comps p))) (tasks_of j) /\
    forall c, In c (p_comps p) ->
      exists pc, comp_ok (jei j) (jeo j) is_src_j pc /\ enrich (jei j) (jeo j) (fuel_of j) pc = Ok c /\
                 c_nodes c = fst pc /\ c_sources c = snd pc.
  Proof.
    destruct (precompute_inv p Hp) as [plain [comps [Hd [Hf Hpe]]]].
    destruct (decompose_spec (jei j) (jeo j) jsym (tasks_of j) (wf_tasks j Hwf) jends (jacyc Hac) _ _ Hd) as [Hperm Hok].
    assert (Hnodes : map c_nodes comps = map fst plain).
    { clear Hd Hperm Hok Hpe. induction Hf as [|[n s] c l l' Hxy _ IH]; [reflexivity|]. simpl.
      destruct (enrich_value _ _ jsym _ _ _ _ Hxy) as [Hn _]. rewrite Hn, IH. reflexivity. }
    subst p. simpl. split.
    - eapply Permutation_trans; [apply concat_perm; apply Permutation_map; apply sort_desc_perm|].
      rewrite Hnodes. exact Hperm.
    - intros c Hc. apply (Permutation_in _ (sort_desc_perm comps)) in Hc.
      destruct (Forall2_In_r _ _ _ _ _ _ Hf Hc) as [[n s] [Hpc He]]. exists (n, s).
      rewrite Forall_forall in Hok. split; [exact (Hok _ Hpc)|]. split; [exact He|].
      destruct (enrich_value _ _ jsym _ _ _ _ He) as [Hn [Hs _]]. simpl. tauto.
  Qed.

  (* ---------------------------------------------------------------- the claims *)
  Theorem components_partition : Permutation (concat (map c_nodes (p_comps p))) (tasks_of j).
  Proof. exact (proj1 comps_facts). Qed.

  Theorem components_closed : forall c a b, In c (p_comps p) -> edge_tt j a b -> (In a (c_nodes c) <-> In b (c_nodes c)).
  Proof.
    intros c a b Hc He. destruct (proj2 comps_facts c Hc) as [pc [[_ [Hcl _]] [_ [Hn _]]]]. rewrite Hn. split; intros H.
    - apply (Hcl a b H). right. apply jeo_spec. exact He.
    - apply (Hcl b a H). left. apply jei_spec. exact He.
  Qed.

  Theorem components_connected : forall c a b, In c (p_comps p) -> In a (c_nodes c) -> In b (c_nodes c) -> wconn j a b.
  Proof.
    intros c a b Hc Ha Hb. destruct (proj2 comps_facts c Hc) as [pc [[_ [_ [Hconn _]]] [_ [Hn _]]]]. rewrite Hn in Ha, Hb.
    apply conn_wconn. exact (Hconn a b Ha Hb).
  Qed.

  Theorem components_nonempty : forall c, In c (p_comps p) -> c_nodes c <> [].
  Proof. intros c Hc. destruct (proj2 comps_facts c Hc) as [pc [[Hne _] [_ [Hn _]]]]. rewrite Hn. exact Hne. Qed.

  Theorem components_sorted : StronglySorted heavier (p_comps p).
  Proof. destruct (precompute_inv p Hp) as [plain [comps [_ [_ Hpe]]]]. subst p. simpl. apply sort_desc_sorted. Qed.

  Theorem sources_exact : forall c t, In c (p_comps p) ->
    (In t (c_sources c) <-> In t (c_nodes c) /\ forall a, ~ edge_tt j a t).
  Proof.
    intros c t Hc. destruct (proj2 comps_facts c Hc) as [pc [[_ [_ [_ Hsrc]]] [_ [Hn Hs]]]]. rewrite Hs, Hn, Hsrc.
    rewrite filter_In. unfold is_src_j, sources_of. rewrite mem_In, filter_In. split.
    - intros [Ht [_ Hnull]]. split; [exact Ht|]. intros a Ha. apply jei_spec in Ha. apply null_nil in Hnull. rewrite Hnull in Ha. destruct Ha.
    - intros [Ht Hno]. split; [exact Ht|]. split.
      + apply (Permutation_in _ components_partition). apply in_concat. exists (c_nodes c). split; [apply in_map; exact Hc|rewrite Hn; exact Ht].
      + destruct (jei j t) as [|a r] eqn:E; [reflexivity|]. exfalso. apply (Hno a). apply jei_spec. rewrite E. simpl. tauto.
  Qed.

  Theorem edge_o_exact : forall d t,
    In t (getd ds_eqb (p_edge_o p) d) <-> exists e, In e (j_edges j) /\ e_ds e = d /\ e_snk e = t.
  Proof.
    intros d t. destruct (precompute_inv p Hp) as [plain [comps [_ [_ Hpe]]]]. subst p. simpl.
    rewrite dependants_fold, dep_get. unfold getd. simpl. tauto.
  Qed.

  Theorem edge_i_exact : forall t d,
    In d (getd N.eqb (p_edge_i p) t) <-> exists e, In e (j_edges j) /\ e_snk e = t /\ e_ds e = d.
  Proof.
    intros t d. destruct (precompute_inv p Hp) as [plain [comps [_ [_ Hpe]]]]. subst p. simpl.
    apply edge_i_spec. exact (wf_uniq j Hwf).
  Qed.

  Lemma lookup_NoDup : forall (A : Type) (m : list (N * A)) k v, NoDup (map fst m) -> In (k, v) m -> lookup N.eqb k m = Some v.
  Proof.
    intros A m k v. induction m as [|[k' v'] r IH]; intros Hnd Hin; [destruct Hin|]. simpl in Hnd. inversion Hnd as [|? ? Hn Hr]; subst.
    simpl. destruct Hin as [Hin|Hin].
    - inversion Hin; subst. rewrite N.eqb_refl. reflexivity.
    - destruct (N.eqb k k') eqn:E; [|exact (IH Hr Hin)]. apply N.eqb_eq in E. subst k'. exfalso. apply Hn.
      change k with (fst (k, v)). apply in_map. exact Hin.
  Qed.

  Theorem task_o_exact :
    map fst (p_task_o p) = tasks_of j /\
    forall t outs, In (t, outs) (j_tasks j) -> lookup N.eqb t (p_task_o p) = Some (map (fun o => (t, o)) outs).
  Proof.
    destruct (precompute_inv p Hp) as [plain [comps [_ [_ Hpe]]]]. subst p. simpl. unfold task_o_of. split.
    - rewrite map_map. reflexivity.
    - intros t outs Hin. apply lookup_NoDup.
      + rewrite map_map. exact (wf_tasks j Hwf).
      + apply in_map_iff. exists (t, outs). split; [reflexivity|exact Hin].
  Qed.

  Theorem value_spec : forall c t, In c (p_comps p) -> In t (c_nodes c) ->
    exists d, nearest_sink j t d /\ lookup N.eqb t (c_value c) = Some (c_depth c - d)%Z.
  Proof.
    intros c t Hc Ht. destruct (proj2 comps_facts c Hc) as [[n s] [_ [He [Hn _]]]].
    destruct (enrich_value _ _ jsym _ _ _ _ He) as [_ [_ Hv]]. simpl in Hn. rewrite Hn in Ht.
    destruct (Hv t Ht) as [d [Hd Hl]]. exists d. split; [apply nsd_nearest; exact Hd|exact Hl].
  Qed.

  Lemma jnoself : forall v, ~ In v (jeo j v).
  Proof. destruct (jacyc Hac) as [rank Hr]. intros v Hv. specialize (Hr v v Hv). lia. Qed.

  Theorem distance_capped_spec : forall c a b, In c (p_comps p) -> In a (c_nodes c) -> In b (c_nodes c) ->
    exists row r, lookup N.eqb a (c_dist c) = Some row /\ lookup N.eqb b row = Some r /\
                  (a = b -> r = 0%Z) /\ (a <> b -> distance_capped j (c_depth c) a b r).
  Proof.
    intros c a b Hc Ha Hb. destruct (proj2 comps_facts c Hc) as [[n s] [[_ [Hcl _]] [He [Hn _]]]]. simpl in Hn, Hcl.
    rewrite Hn in Ha, Hb.
    destruct (enrich_dist _ _ jsym jnoself _ _ _ _ (fun x y Hx Hy => Hcl x y Hx (or_intror Hy)) He) as [_ [Hk Hrows]].
    assert (Hina : In a (map fst (c_dist c))) by (rewrite Hk; exact Ha).
    destruct (keys_lookup _ _ Hina) as [row Hrow]. destruct (Hrows a row (lookup_In _ _ _ Hrow)) as [Hkr Hcells].
    assert (Hinb : In b (map fst row)) by (rewrite Hkr; exact Hb).
    destruct (keys_lookup _ _ Hinb) as [r Hr]. exists row, r. split; [exact Hrow|]. split; [exact Hr|].
    destruct (Hcells b r (lookup_In _ _ _ Hr)) as [H1 H2]. split; [exact H1|]. intros Hne.
    destruct (H2 Hne) as [G1 [G2 G3]]. split; [exact G1|]. split.
    - intros d Hd. apply G2. apply common_jcommon. exact Hd.
    - destruct G3 as [G3|G3]; [left; exact G3|right; apply common_jcommon; exact G3].
  Qed.

  (* every chain inside a component has fewer tasks than the component depth *)
  Theorem depth_bounds_paths : forall c a x d, In c (p_comps p) -> In a (c_nodes c) -> jpath j a x d -> (d <= c_depth c - 1)%Z.
  Proof.
    intros c a x d Hc Ha Hpth. destruct (proj2 comps_facts c Hc) as [[n s] [_ [He [Hn _]]]]. simpl in Hn. rewrite Hn in Ha.
    assert (Hndn : NoDup n).
    { pose proof (Permutation_NoDup (Permutation_sym components_partition) (wf_tasks j Hwf)) as Hnd.
      assert (Hsub : forall l, In l (map c_nodes (p_comps p)) -> NoDup l).
      { revert Hnd. generalize (map c_nodes (p_comps p)). induction l as [|l0 r IH]; intros Hnd l Hl; [destruct Hl|].
        simpl in Hnd. destruct Hl as [E|Hl]; [subst; exact (NoDup_app_l _ _ _ Hnd)|exact (IH (NoDup_app_r _ _ _ Hnd) l Hl)]. }
      rewrite <- Hn. apply Hsub. apply in_map. exact Hc. }
    apply (enrich_path_bound (jei j) (jeo j) jsym (fun v => edge_i_proj_NoDup _ v) _ _ _ _ Hndn He a x d Ha).
    apply path_jpath. exact Hpth.
  Qed.

  Theorem depth_attained : forall c, In c (p_comps p) -> exists a x, In a (c_nodes c) /\ jpath j a x (c_depth c - 1)%Z.
  Proof.
    intros c Hc. destruct (proj2 comps_facts c Hc) as [[n s] [[Hne _] [He [Hn _]]]]. simpl in Hn, Hne.
    destruct (enrich_depth_attained (jei j) (jeo j) jsym _ _ _ _ Hne He) as [a [x [Ha Hpth]]].
    exists a, x. rewrite Hn. split; [exact Ha|apply path_jpath; exact Hpth].
  Qed.

  Lemma jpath_nonneg : forall a x d, jpath j a x d -> (0 <= d)%Z.
  Proof. intros a x d H. apply path_jpath in H. exact (path_nonneg _ _ _ _ H). Qed.

  Theorem distance_full_spec : forall c a b, In c (p_comps p) -> In a (c_nodes c) -> In b (c_nodes c) ->
    exists row r, lookup N.eqb a (c_dist c) = Some row /\ lookup N.eqb b row = Some r /\ distance_full j (c_depth c) a b r.
  Proof.
    intros c a b Hc Ha Hb. destruct (distance_capped_spec c a b Hc Ha Hb) as [row [r [Hrow [Hr [Hdiag Hoff]]]]].
    exists row, r. split; [exact Hrow|]. split; [exact Hr|]. destruct (N.eq_dec a b) as [E|E].
    - subst b. rewrite (Hdiag eq_refl).
      assert (H0 : jcommon j a a 0%Z) by (exists a, 0%Z, 0%Z; repeat split; try constructor; lia).
      split.
      + intros _. split; [exact H0|]. intros d [x [da [db [Hpa [_ [Hda _]]]]]]. apply jpath_nonneg in Hpa. lia.
      + intros Hno. exfalso. apply Hno. exists 0%Z. exact H0.
    - destruct (Hoff E) as [G1 [G2 G3]]. split.
      + intros [d0 Hd0]. split; [|exact G2]. destruct G3 as [G3|G3]; [|exact G3]. exfalso.
        destruct Hd0 as [x [da [db [Hpa [Hpb _]]]]].
        pose proof (depth_bounds_paths c a x da Hc Ha Hpa) as Ba. pose proof (depth_bounds_paths c b x db Hc Hb Hpb) as Bb.
        assert (Hcm : jcommon j a b (c_depth c - 1)%Z) by (exists x, da, db; tauto).
        pose proof (G2 _ Hcm). lia.
      + intros Hno. destruct G3 as [G3|G3]; [exact G3|]. exfalso. apply Hno. exists r. exact G3.
  Qed.
End Job.
