(* decidable well-formedness of concrete jobs (for closed examples) *)
From stdpp Require Import gmap.
From Coq Require Import NArith String.
From EKW Require Import Sched.Model Sched.Lemmas Sched.Inv Sched.Progress.
Local Open Scope N_scope.

Definition wf_dag_dec (J : job) (rank : task → nat) : bool :=
  bool_decide (map_Forall (λ t X, set_Forall (λ d : ds, is_Some (j_ins J !! d.1) ∧ d ∈ outs J d.1 ∧ (rank d.1 < rank t)%nat) X) (j_ins J))
  && bool_decide (set_Forall (λ d : ds, is_Some (j_ins J !! d.1) ∧ d ∈ outs J d.1) (j_ext J)).

Lemma wf_dag_dec_sound J rank : wf_dag_dec J rank = true → wf_dag J rank.
Proof.
  intros H. apply andb_prop in H as [H1 H2]. apply bool_decide_eq_true in H1, H2. split.
  - intros t d Hd. apply ins_spec in Hd as (X & HX & Hd). exact (H1 t X HX d Hd).
  - intros d Hd. exact (H2 d Hd).
Qed.
