(* The layering is strict: when a task is put into a layer, all its children are in earlier
   layers (the `remaining` counters count the children not yet processed).  Hence every directed
   path inside a component is shorter than the number of layers (the component depth). *)
From Coq Require Import List NArith ZArith Bool Lia Permutation.
From EKW Require Import Sched.Presched Sched.PreschedProofs Sched.PreschedEnrich Sched.PreschedJob.
Import ListNotations.
Open Scope Z_scope.

Notation keys := (map fst).

Section Bound.
  Variables ei eo : N -> list N.
  Hypothesis Hsym : forall a b, In a (ei b) <-> In b (eo a).
  Hypothesis Hnd_ei : forall v, NoDup (ei v).

  (* children of a not yet in P *)
  Definition todo_of (a : N) (P : list N) : list N := filter (fun c => negb (mem c P)) (eo a).
  Definition cnt (a : N) (P : list N) : Z := Z.of_nat (List.length (todo_of a P)).

  Lemma mem_cons : forall x v P, mem x (v :: P) = N.eqb x v || mem x P.
  Proof. reflexivity. Qed.

  Lemma filter_cons_le : forall v P l,
    (List.length (filter (fun c => negb (mem c (v :: P))) l) <= List.length (filter (fun c => negb (mem c P)) l))%nat.
  Proof.
    intros v P l. induction l as [|x r IH]; [simpl; lia|]. cbn [filter]. rewrite (mem_cons x v P).
    destruct (N.eqb x v); destruct (mem x P); cbn [negb orb List.length]; lia.
  Qed.

  Lemma filter_cons_lt : forall v P l, In v l -> ~ In v P ->
    (S (List.length (filter (fun c => negb (mem c (v :: P))) l)) <= List.length (filter (fun c => negb (mem c P)) l))%nat.
  Proof.
    intros v P l Hin Hn. induction l as [|x r IH]; [destruct Hin|]. cbn [filter]. rewrite (mem_cons x v P). destruct Hin as [E|Hin].
    - subst x. rewrite N.eqb_refl. apply mem_false in Hn. rewrite Hn. cbn [negb orb List.length]. pose proof (filter_cons_le v P r). lia.
    - specialize (IH Hin). destruct (N.eqb x v); destruct (mem x P); cbn [negb orb List.length]; lia.
  Qed.

  Lemma filter_cons_eq : forall v P l, ~ In v l ->
    filter (fun c => negb (mem c (v :: P))) l = filter (fun c => negb (mem c P)) l.
  Proof.
    intros v P l Hn. induction l as [|x r IH]; [reflexivity|]. cbn [filter]. rewrite (mem_cons x v P). simpl in Hn.
    destruct (N.eqb x v) eqn:E; [apply N.eqb_eq in E; subst; tauto|]. cbn [negb orb]. rewrite IH by tauto. reflexivity.
  Qed.

  Lemma cnt_cons_le : forall a v P, cnt a (v :: P) <= cnt a P.
  Proof. intros. unfold cnt, todo_of. pose proof (filter_cons_le v P (eo a)). lia. Qed.

  Lemma cnt_cons_lt : forall a v P, In v (eo a) -> ~ In v P -> cnt a (v :: P) <= cnt a P - 1.
  Proof. intros a v P H1 H2. unfold cnt, todo_of. pose proof (filter_cons_lt v P (eo a) H1 H2). lia. Qed.

  Lemma cnt_cons_eq : forall a v P, ~ In v (eo a) -> cnt a (v :: P) = cnt a P.
  Proof. intros a v P H. unfold cnt, todo_of. rewrite filter_cons_eq by exact H. reflexivity. Qed.

  Lemma cnt_zero : forall a P, cnt a P <= 0 -> forall c, In c (eo a) -> In c P.
  Proof.
    intros a P H c Hc. unfold cnt, todo_of in H. destruct (In_dec_N c P) as [Hi|Hn]; [exact Hi|]. exfalso.
    assert (Hf : In c (filter (fun c => negb (mem c P)) (eo a))).
    { apply filter_In. split; [exact Hc|]. apply mem_false in Hn. rewrite Hn. reflexivity. }
    destruct (filter (fun c => negb (mem c P)) (eo a)); [destruct Hf|simpl in H; lia].
  Qed.

  Lemma cnt_mono : forall a P P', incl P P' -> cnt a P' <= cnt a P.
  Proof.
    intros a P P' Hi. unfold cnt, todo_of. apply inj_le. induction (eo a) as [|x r IH]; simpl; [lia|].
    destruct (mem x P) eqn:E1; destruct (mem x P') eqn:E2; simpl; try lia.
    apply mem_In in E1. apply Hi in E1. apply mem_false in E2. tauto.
  Qed.

  (* raw entries of `remaining` bound the number of unprocessed children from above *)
  Definition rem_ok (rem : list (N * Z)) (P : list N) : Prop := forall a k, In (a, k) rem -> cnt a P <= k.
  Definition next_ok (next P : list N) : Prop := forall a c, In a next -> In c (eo a) -> In c P.

  Lemma In_dremove : forall (p : N * Z) k m, In p (dremove N.eqb k m) -> In p m.
  Proof.
    intros p k m. induction m as [|[k' v'] r IH]; simpl; [tauto|]. destruct (N.eqb k k'); simpl; intuition.
  Qed.

  Lemma dec_fold_v : forall v P todo rem next rem' next',
    ~ In v P -> NoDup todo -> (forall a, In a todo -> In v (eo a)) ->
    (forall a k, In (a, k) rem -> (In a todo -> cnt a P <= k) /\ (~ In a todo -> cnt a (v :: P) <= k)) ->
    next_ok next (v :: P) ->
    fold_left dec_parent todo (Ok (rem, next)) = Ok (rem', next') ->
    rem_ok rem' (v :: P) /\ next_ok next' (v :: P).
  Proof.
    intros v P. induction todo as [|a0 r IH]; intros rem next rem' next' Hv Hnd Hall HJ Hnext H; simpl in H.
    - inversion H; subst. split; [|exact Hnext]. intros a k Hin. apply (HJ a k Hin). tauto.
    - inversion Hnd as [|? ? Hn0 Hnd']; subst.
      destruct (lookup N.eqb a0 rem) as [k|] eqn:Hl; [|rewrite fold_dec_err in H; discriminate].
      pose proof (lookup_In _ _ _ Hl) as Hin0.
      assert (Hc0 : cnt a0 (v :: P) <= k - 1).
      { destruct (HJ a0 k Hin0) as [H1 _]. pose proof (H1 (or_introl eq_refl)).
        pose proof (cnt_cons_lt a0 v P (Hall a0 (or_introl eq_refl)) Hv). lia. }
      assert (HJold : forall a k2, In (a, k2) rem -> (In a r -> cnt a P <= k2) /\ (~ In a r -> cnt a (v :: P) <= k2)).
      { intros a k2 Hin. destruct (HJ a k2 Hin) as [H1 H2]. split.
        - intros Ha. apply H1. simpl. tauto.
        - intros Ha. destruct (N.eq_dec a0 a) as [E|E].
          + subst a. pose proof (H1 (or_introl eq_refl)). pose proof (cnt_cons_le a0 v P). lia.
          + apply H2. simpl. tauto. }
      destruct ((k - 1) =? 0) eqn:Hk.
      + apply Z.eqb_eq in Hk. apply (IH _ _ _ _ Hv Hnd' (fun a Ha => Hall a (or_intror Ha))) in H; [exact H| |].
        * intros a k2 Hin. apply HJold. eapply In_dremove. exact Hin.
        * intros a c Ha Hc. apply in_app_or in Ha. destruct Ha as [Ha|[Ha|[]]]; [exact (Hnext a c Ha Hc)|].
          subst a. apply (cnt_zero a0 (v :: P)); [lia|exact Hc].
      + apply (IH _ _ _ _ Hv Hnd' (fun a Ha => Hall a (or_intror Ha))) in H; [exact H| |exact Hnext].
        intros a k2 Hin. apply In_dset in Hin. destruct Hin as [Hin|Hin]; [|exact (HJold a k2 Hin)].
        inversion Hin; subst a k2. split; [intros Ha; tauto|intros _; exact Hc0].
  Qed.

  Lemma fold_layer_err : forall vs e, fold_left (fun st v => fold_left dec_parent (ei v) st) vs (Err e) = Err e.
  Proof. induction vs as [|v r IH]; intros e; simpl; [reflexivity|]. rewrite fold_dec_err. apply IH. Qed.

  Lemma next_ok_mono : forall next P P', incl P P' -> next_ok next P -> next_ok next P'.
  Proof. intros next P P' Hi H a c Ha Hc. apply Hi. exact (H a c Ha Hc). Qed.

  Lemma layer_fold : forall vs P rem next rem' next',
    NoDup vs -> (forall v, In v vs -> ~ In v P) -> rem_ok rem P -> next_ok next P ->
    fold_left (fun st v => fold_left dec_parent (ei v) st) vs (Ok (rem, next)) = Ok (rem', next') ->
    rem_ok rem' (rev vs ++ P) /\ next_ok next' (rev vs ++ P).
  Proof.
    induction vs as [|v r IH]; intros P rem next rem' next' Hnd Hdis Hrem Hnext H; simpl in H.
    - inversion H; subst. simpl. tauto.
    - inversion Hnd as [|? ? Hnv Hnd']; subst.
      destruct (fold_left dec_parent (ei v) (Ok (rem, next))) as [[rem1 next1]|e] eqn:Hv; [|rewrite fold_layer_err in H; discriminate].
      destruct (dec_fold_v v P (ei v) rem next rem1 next1) as [Hr1 Hn1]; try assumption.
      + apply Hdis. simpl. tauto.
      + apply Hnd_ei.
      + intros a Ha. apply Hsym. exact Ha.
      + intros a k Hin. split; [intros _; exact (Hrem a k Hin)|]. intros Hna.
        rewrite cnt_cons_eq; [exact (Hrem a k Hin)|]. intros Hc. apply Hna. apply Hsym. exact Hc.
      + eapply next_ok_mono; [|exact Hnext]. intros x Hx. simpl. tauto.
      + simpl. rewrite <- app_assoc. simpl. apply (IH (v :: P) rem1 next1); try assumption.
        intros v' Hv' [E|Hp]; [subst; tauto|]. apply (Hdis v'); simpl; tauto.
  Qed.

  (* ---------------------------------------------------------------- nothing is placed twice *)
  Lemma keys_dset_same : forall a (k k' : Z) rem, lookup N.eqb a rem = Some k -> keys (dset N.eqb a k' rem) = keys rem.
  Proof.
    intros a k k' rem. induction rem as [|[x y] r IH]; simpl; [discriminate|].
    destruct (N.eqb a x) eqn:E; simpl; [apply N.eqb_eq in E; subst; reflexivity|]. intros H. rewrite (IH H). reflexivity.
  Qed.

  Lemma keys_dremove_perm : forall a (k : Z) rem, lookup N.eqb a rem = Some k -> Permutation (keys rem) (a :: keys (dremove N.eqb a rem)).
  Proof.
    intros a k rem. induction rem as [|[x y] r IH]; simpl; [discriminate|].
    destruct (N.eqb a x) eqn:E; simpl.
    - apply N.eqb_eq in E. subst. intros _. apply Permutation_refl.
    - intros H. eapply Permutation_trans; [apply perm_skip; exact (IH H)|apply perm_swap].
  Qed.

  Lemma dec_fold_fresh : forall ps rem next rem' next',
    fold_left dec_parent ps (Ok (rem, next)) = Ok (rem', next') ->
    Permutation (next ++ keys rem) (next' ++ keys rem').
  Proof.
    induction ps as [|a r IH]; intros rem next rem' next' H; simpl in H.
    - inversion H; subst. apply Permutation_refl.
    - destruct (lookup N.eqb a rem) as [k|] eqn:Hl; [|rewrite fold_dec_err in H; discriminate].
      destruct ((k - 1) =? 0).
      + eapply Permutation_trans; [|exact (IH _ _ _ _ H)].
        rewrite <- app_assoc. simpl. apply Permutation_app_head. exact (keys_dremove_perm a k rem Hl).
      + eapply Permutation_trans; [|exact (IH _ _ _ _ H)]. rewrite (keys_dset_same a k _ rem Hl). apply Permutation_refl.
  Qed.

  (* ---------------------------------------------------------------- strict layers *)
  (* strict ls P: every task of the first layer has all children in P, of the second in P + first layer, ... *)
  Fixpoint strict (ls : list (list N)) (P : list N) : Prop :=
    match ls with
    | [] => True
    | l :: r => next_ok l P /\ strict r (rev l ++ P)
    end.

  Lemma layering_strict : forall fuel rem last older P ls,
    layering ei fuel rem last older = Ok ls ->
    NoDup (last ++ keys rem) -> (forall x, In x (last ++ keys rem) -> ~ In x P) ->
    rem_ok rem P -> next_ok last P ->
    exists tail, ls = rev older ++ last :: tail /\ strict (last :: tail) P.
  Proof.
    induction fuel as [|f IH]; intros rem last older P ls H Hnd Hdis Hrem Hlast.
    - destruct rem; simpl in H; [|discriminate]. inversion H; subst. exists []. simpl. tauto.
    - destruct rem as [|p0 rem0]; simpl in H.
      + inversion H; subst. exists []. simpl. tauto.
      + unfold process_layer in H.
        destruct (fold_left (fun st v => fold_left dec_parent (ei v) st) last (Ok (p0 :: rem0, []))) as [[rem' next]|e] eqn:Hp; [|discriminate].
        destruct (layer_fold last P (p0 :: rem0) [] rem' next) as [Hr1 Hn1]; try assumption.
        * exact (NoDup_app_l _ _ _ Hnd).
        * intros v Hv. apply Hdis. apply in_or_app. tauto.
        * intros a c [].
        * rewrite process_layer_flat in Hp. pose proof (dec_fold_fresh _ _ _ _ _ Hp) as Hperm. simpl app in Hperm at 1.
          destruct (IH rem' next (last :: older) (rev last ++ P) ls H) as [tail [Hls Hst]].
          -- apply (Permutation_NoDup Hperm). exact (NoDup_app_r _ _ _ Hnd).
          -- intros x Hx Hin. apply (Permutation_in _ (Permutation_sym Hperm)) in Hx. apply in_app_or in Hin.
             destruct Hin as [Hin|Hin].
             ++ apply in_rev in Hin. exact (NoDup_app_disj _ _ _ _ Hnd Hin Hx).
             ++ apply (Hdis x); [apply in_or_app; right; exact Hx|exact Hin].
          -- exact Hr1.
          -- exact Hn1.
          -- exists (next :: tail). split; [rewrite Hls; simpl; rewrite <- app_assoc; reflexivity|].
             simpl. split; [exact Hlast|exact Hst].
  Qed.

  (* ---------------------------------------------------------------- path lengths *)
  (* all paths from members of P are shorter than K, and P is closed under children *)
  Definition bounded (P : list N) (K : Z) : Prop :=
    forall a c d, In a P -> path eo a c d -> d <= K.

  Lemma strict_bound : forall ls P K,
    strict ls P -> 0 <= K + 1 -> bounded P K ->
    bounded (rev (concat ls) ++ P) (K + Z.of_nat (List.length ls)).
  Proof.
    induction ls as [|l r IH]; intros P K Hst HK Hb.
    - simpl. intros a c d Ha Hp. pose proof (Hb a c d Ha Hp). lia.
    - destruct Hst as [Hl Hr].
      assert (Hb1 : bounded (rev l ++ P) (K + 1)).
      { intros a c d Ha Hp. apply in_app_or in Ha. destruct Ha as [Ha|Ha]; [|pose proof (Hb a c d Ha Hp); lia].
        apply in_rev in Ha. inversion Hp as [|? b ? d' Hb' Hp']; subst; [lia|].
        pose proof (Hb b c d' (Hl a b Ha Hb') Hp'). lia. }
      pose proof (IH (rev l ++ P) (K + 1) Hr ltac:(lia) Hb1) as H.
      intros a c d Ha Hp. apply (H a c d) in Hp.
      + simpl List.length. lia.
      + simpl concat in Ha. rewrite rev_app_distr, <- app_assoc in Ha. exact Ha.
  Qed.
End Bound.

(* ------------------------------------------------------------------ enrich: every path is shorter than the depth *)
Section EnrichBound.
  Variables ei eo : N -> list N.
  Hypothesis Hsym : forall a b, In a (ei b) <-> In b (eo a).
  Hypothesis Hnd_ei : forall v, NoDup (ei v).

  Lemma enrich_layers : forall fuel nodes srcs c,
    enrich ei eo fuel (nodes, srcs) = Ok c ->
    exists layers,
      layering ei fuel (map (fun v => (v, Z.of_nat (List.length (eo v)))) (filter (fun v => negb (null (eo v))) nodes))
               (filter (fun v => null (eo v)) nodes) [] = Ok layers /\
      c_depth c = Z.of_nat (List.length layers).
  Proof.
    intros fuel nodes srcs c H. unfold enrich in H. simpl fst in H. simpl snd in H.
    destruct (layering ei fuel _ _ []) as [layers|e] eqn:Hl; [|discriminate]. simpl bind in H.
    exists layers. split; [reflexivity|].
    destruct (fold_left (node_step eo _) _ _) as [st|e]; [|discriminate]. simpl bind in H.
    destruct (ncd _ nodes (snd st)) as [dm|e]; [|discriminate]. simpl in H. inversion H. reflexivity.
  Qed.

  Theorem enrich_path_bound : forall fuel nodes srcs c,
    NoDup nodes -> enrich ei eo fuel (nodes, srcs) = Ok c ->
    forall a x d, In a nodes -> path eo a x d -> d <= c_depth c - 1.
  Proof.
    intros fuel nodes srcs c Hnd H. destruct (enrich_layers _ _ _ _ H) as [layers [Hl Hd]]. rewrite Hd. clear Hd H.
    set (sinks := filter (fun v => null (eo v)) nodes) in *.
    set (rem := map (fun v => (v, Z.of_nat (List.length (eo v)))) (filter (fun v => negb (null (eo v))) nodes)) in *.
    assert (Hkeys : keys rem = filter (fun v => negb (null (eo v))) nodes).
    { unfold rem. rewrite map_map. simpl. apply map_id. }
    destruct (layering_spec ei eo Hsym _ _ _ _ _ Hl) as [tail [Hls [_ [Hk1 _]]]]. simpl in Hls.
    destruct (layering_strict ei eo Hsym Hnd_ei fuel rem sinks [] [] layers Hl) as [tail1 [Hls1 Hst]].
    - rewrite Hkeys. apply NoDup_app_intro; [apply NoDup_filter; exact Hnd|apply NoDup_filter; exact Hnd|].
      intros x Hx Hx'. apply filter_In in Hx. apply filter_In in Hx'. destruct Hx as [_ E1]. destruct Hx' as [_ E2].
      rewrite E1 in E2. discriminate.
    - intros x _ [].
    - intros a k Hin. unfold rem in Hin. apply in_map_iff in Hin. destruct Hin as [v [E _]]. inversion E; subst.
      unfold cnt, todo_of. apply inj_le.
      assert (Hfl : forall (f : N -> bool) l, (List.length (filter f l) <= List.length l)%nat).
      { intros f l. induction l as [|y r IH]; simpl; [lia|]. destruct (f y); simpl; lia. }
      apply Hfl.
    - intros a x Ha Hx. apply filter_In in Ha. destruct Ha as [_ Ha]. apply null_nil in Ha. rewrite Ha in Hx. destruct Hx.
    - simpl in Hls1. rewrite <- Hls1 in Hst.
      assert (Hb0 : bounded eo [] (-1)) by (intros a x d []).
      pose proof (strict_bound eo layers [] (-1) Hst ltac:(lia) Hb0) as Hb. rewrite app_nil_r in Hb.
      intros a x d Ha Hp. pose proof (Hb a x d) as Hb'. rewrite <- in_rev in Hb'. specialize (fun Hin => Hb' Hin Hp).
      assert (Hin : In a (concat layers)).
      { rewrite Hls. simpl. apply in_or_app. destruct (eo a) as [|y r] eqn:Ea.
        - left. apply filter_In. split; [exact Ha|]. rewrite Ea. reflexivity.
        - right. apply Hk1. rewrite Hkeys. apply filter_In. split; [exact Ha|]. rewrite Ea. reflexivity. }
      specialize (Hb' Hin). lia.
  Qed.
End EnrichBound.

(* ------------------------------------------------------------------ no layer is empty, so the depth is attained *)
Section Attained.
  Variables ei eo : N -> list N.
  Hypothesis Hsym : forall a b, In a (ei b) <-> In b (eo a).

  Lemma layering_stuck : forall fuel p rem older, layering ei fuel (p :: rem) [] older = Err OutOfFuel.
  Proof. induction fuel as [|f IH]; intros p rem older; simpl; [reflexivity|apply IH]. Qed.

  Lemma layering_nonempty : forall fuel rem last older ls,
    layering ei fuel rem last older = Ok ls ->
    exists tail, ls = rev older ++ last :: tail /\ forall l, In l tail -> l <> [].
  Proof.
    induction fuel as [|f IH]; intros rem last older ls H.
    - destruct rem; simpl in H; [|discriminate]. inversion H; subst. exists []. simpl. split; [reflexivity|intros l []].
    - destruct rem as [|p rem0]; simpl in H.
      + inversion H; subst. exists []. simpl. split; [reflexivity|intros l []].
      + unfold process_layer in H. rewrite process_layer_flat in H.
        destruct (fold_left dec_parent (flat_map ei last) (Ok (p :: rem0, []))) as [[rem' next]|e] eqn:Hp; [|discriminate].
        destruct (fold_dec_spec _ _ _ _ _ Hp) as [_ [_ [H3 _]]].
        destruct (IH _ _ _ _ H) as [tail [Hls Hne]].
        exists (next :: tail). split; [rewrite Hls; simpl; rewrite <- app_assoc; reflexivity|].
        intros l [E|Hl]; [|exact (Hne l Hl)]. subst l. intros E. subst next.
        destruct rem' as [|p' rem''].
        * destruct (H3 (fst p)) as [Hk|Hk]; [simpl; tauto|destruct Hk|destruct Hk].
        * rewrite layering_stuck in H. discriminate.
  Qed.

  Lemma path_snoc : forall a y v d, path eo a y d -> In v (eo y) -> path eo a v (d + 1).
  Proof.
    intros a y v d H Hv. induction H as [a|a b c d Hb _ IH].
    - replace (0 + 1) with (0 + 1) by lia. eapply path_step; [exact Hv|constructor].
    - eapply path_step; [exact Hb|exact (IH Hv)].
  Qed.

  Lemma layered_chain : forall ls l0, layered eo (l0 :: ls) ->
    forall a, In a (last (l0 :: ls) []) -> exists x, In x l0 /\ path eo a x (Z.of_nat (List.length ls)).
  Proof.
    induction ls as [|l1 r IH]; intros l0 Hlay a Ha.
    - simpl in Ha. exists a. split; [exact Ha|constructor].
    - destruct Hlay as [Hstep Hlay]. change (last (l0 :: l1 :: r) []) with (last (l1 :: r) []) in Ha.
      destruct (IH l1 Hlay a Ha) as [y [Hy Hp]]. destruct (Hstep y Hy) as [v [Hv Hvy]].
      exists v. split; [exact Hv|]. replace (Z.of_nat (List.length (l1 :: r))) with (Z.of_nat (List.length r) + 1) by (simpl List.length; lia).
      exact (path_snoc a y v _ Hp Hvy).
  Qed.

  Lemma last_In : forall (A : Type) (l : list A) d, l <> [] -> In (last l d) l.
  Proof.
    intros A l d. induction l as [|x r IH]; [congruence|]. intros _. destruct r as [|y r']; [simpl; tauto|].
    right. apply IH. discriminate.
  Qed.

  (* some chain of the component has exactly depth tasks *)
  Theorem enrich_depth_attained : forall fuel nodes srcs c,
    nodes <> [] -> enrich ei eo fuel (nodes, srcs) = Ok c ->
    exists a x, In a nodes /\ path eo a x (c_depth c - 1).
  Proof.
    intros fuel nodes srcs c Hne H. destruct (enrich_layers ei eo _ _ _ _ H) as [layers [Hl Hd]]. rewrite Hd. clear Hd H.
    destruct (layering_spec ei eo Hsym _ _ _ _ _ Hl) as [tail [Hls [Hlay [_ Hk2]]]]. simpl in Hls.
    destruct (layering_nonempty _ _ _ _ _ Hl) as [tail1 [Hls1 Hnonempty]]. simpl in Hls1.
    rewrite Hls in Hls1. inversion Hls1; subst tail1. clear Hls1. subst layers.
    destruct tail as [|l1 r].
    - destruct nodes as [|a0 n]; [congruence|]. exists a0, a0. split; [simpl; tauto|]. simpl. constructor.
    - set (sinks := filter (fun v => null (eo v)) (nodes)) in *.
      assert (Hlast : In (last (l1 :: r) []) (l1 :: r)) by (apply last_In; discriminate).
      pose proof (Hnonempty _ Hlast) as Hne1.
      destruct (last (l1 :: r) []) as [|a rest] eqn:El; [congruence|].
      destruct (layered_chain (l1 :: r) sinks Hlay a) as [x [_ Hp]].
      + change (last (sinks :: l1 :: r) []) with (last (l1 :: r) []). rewrite El. simpl. tauto.
      + exists a, x. split.
        * assert (Hin : In a (concat (l1 :: r))) by (apply in_concat; exists (a :: rest); split; [exact Hlast|simpl; tauto]).
          apply Hk2 in Hin. rewrite map_map in Hin. simpl in Hin. rewrite map_id in Hin. apply filter_In in Hin. tauto.
        * replace (Z.of_nat (List.length (sinks :: l1 :: r)) - 1) with (Z.of_nat (List.length (l1 :: r))) by (simpl List.length; lia).
          exact Hp.
  Qed.
End Attained.
