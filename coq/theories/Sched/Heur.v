(* Executable model of the assignment heuristic of the cascade controller
   (cascade.scheduler.api.assign, cascade.scheduler.assign.{assign_within_component,
   _assignment_heuristic, migrate_to_component}) and of the scheduling fields of State that
   controller.notify / scheduler.api.{initialize, plan} maintain for it:

     State.components[i].{core.nodes, computable (keys), weight}   ->  comp
     State.host2component                                          ->  h_h2c
     State.idle_workers                                            ->  idle (ctl s)   (Sched/Model.v)

   Sched/Model.v takes every assignment as a label [LAssign w t srcs] and only validates it.
   Here the sequence of (worker, task) pairs of one call of [assign] is COMPUTED, as a function of
   the scheduling state and of an oracle [orc] that carries everything which only decides WHICH
   admissible pair is taken:
     o_workers  iteration order of the Python set State.idle_workers
     o_tasks    iteration order of the dicts components[i].computable
     o_match    worker2task_distance[w][t] == computable[t]   (pass 1 of _assignment_heuristic)
     o_key      (worker2task_overhead[w][t], core.value[t])   (sort key of pass 2)
     o_prio     tie-break among candidates of equal key (Python: list/set iteration order)
   The oracle is total: whatever it says, a pass goes over ALL the (worker, task) pairs the Python
   loops go over; no oracle can make a pass stop early.  Not modelled (abstracted by the oracle):
   the distance/overhead tables themselves (worker2task_distance, worker2task_overhead,
   worker2task_values) and hence KeyErrors from those tables.

   Python raises are [Crash]:  state.host2component[host] / state.components[i] /
   state.ts2component[task] lookups that would fail.  No proofs in this file. *)
From stdpp Require Import gmap sorting.
From Coq Require Import NArith ZArith String.
From EKW Require Import Sched.Model.
Local Open Scope N_scope.

Notation cid := nat (only parsing).          (* index into State.components *)

Record comp := {
  c_nodes : gset task;                      (* core.nodes *)
  c_comp : gset task;                       (* keys of .computable *)
  c_weight : Z;                             (* .weight: starts at len(nodes), -1 per assignment *)
}.

Record hstate := {
  h_cs : list comp;                         (* State.components *)
  h_h2c : gmap host (option cid);           (* State.host2component *)
}.

(* what the assign functions read and mutate: the components and State.idle_workers *)
Record aview := { a_cs : list comp; a_idle : gset worker }.

Record orc := {
  o_workers : list worker;
  o_tasks : list task;
  o_match : worker → task → bool;
  o_key : worker → task → N * N;
  o_prio : list (worker * task);
}.

Definition rbind {A B : Type} (r : res A) (f : A → res B) : res B :=
  match r with Next a => f a | Disabled => Disabled | Crash e => Crash e | Fail e => Fail e end.

(* ------------------------------------------------------------------ preschedule / initialize *)
Definition env_hosts (E : env) : gset host := map_fold (λ _ h acc, {[h]} ∪ acc) ∅ (e_host E).

(* K = the node sets of Preschedule.components, in the order of that list *)
Definition hinit (J : job) (E : env) (K : list (gset task)) : hstate :=
  {| h_cs := (λ X, {| c_nodes := X; c_comp := filter (λ t, t ∈ sources J) X;
                      c_weight := Z.of_nat (size X) |}) <$> K;
     h_h2c := gset_to_gmap None (env_hosts E) |}.

(* the preschedule's components: a partition of the job's tasks, closed under the input edges
   (decidable; checked on every recorded preschedule by Sched/HeurCheck.v) *)
Definition wf_comps_b (J : job) (K : list (gset task)) : bool :=
  bool_decide (dom (j_ins J) = ⋃ K)
  && bool_decide (NoDup (K ≫= elements))
  && forallb (λ X, bool_decide (set_Forall (λ t, set_Forall (λ d : ds, d.1 ∈ X) (ins J t)) X)) K.

(* State.ts2component[t] *)
Definition comp_of (cs : list comp) (t : task) : option cid :=
  fst <$> list_find (λ c, t ∈ c_nodes c) cs.

(* ------------------------------------------------------------------ iteration orders *)
(* the elements of the set X, those mentioned by [prio] first and in that order *)
Definition order_by {A : Type} `{Countable A} (prio : list A) (X : gset A) : list A :=
  filter (λ x, x ∈ X) (remove_dups prio) ++ filter (λ x, x ∉ prio) (elements X).

Fixpoint index_of {A : Type} `{EqDecision A} (x : A) (l : list A) : nat :=
  match l with [] => 0%nat | y :: r => if decide (x = y) then 0%nat else S (index_of x r) end.

(* dict of lists, keys in insertion order: d[k].append(w) *)
Fixpoint group_add {K : Type} `{EqDecision K} (k : K) (w : worker) (l : list (K * list worker))
  : list (K * list worker) :=
  match l with
  | [] => [(k, [w])]
  | (k', ws) :: r => if decide (k = k') then (k', ws ++ [w]) :: r else (k', ws) :: group_add k w r
  end.

(* ------------------------------------------------------------------ _assignment_heuristic *)
(* for idx, worker in enumerate(workers): if <match>: ...; workers.pop(idx); break *)
Fixpoint find_pop {A : Type} (p : A → bool) (l : list A) : option (A * list A) :=
  match l with
  | [] => None
  | x :: r => if p x then Some (x, r)
              else match find_pop p r with Some (y, r') => Some (y, x :: r') | None => None end
  end.

(* pass 1: optimum-distance assignment; returns (assignments, unassigned tasks, workers left) *)
Fixpoint pass1 (mt : worker → task → bool) (ts : list task) (ws : list worker)
  : list (worker * task) * list task * list worker :=
  match ts with
  | [] => ([], [], ws)
  | t :: ts' =>
      match find_pop (λ w, mt w t) ws with
      | Some (w, ws') => let '(a, un, wr) := pass1 mt ts' ws' in ((w, t) :: a, un, wr)
      | None => let '(a, un, wr) := pass1 mt ts' ws in (a, t :: un, wr)
      end
  end.

(* lexicographic <= on (overhead, value, tie-break position) *)
Definition kle (a b : N * N * nat) : bool :=
  let '(a12, a3) := a in let '(a1, a2) := a12 in
  let '(b12, b3) := b in let '(b1, b2) := b12 in
  if a1 <? b1 then true else if b1 <? a1 then false else
  if a2 <? b2 then true else if b2 <? a2 then false else (a3 <=? b3)%nat.

Definition cand_key (o : orc) (p : worker * task) : N * N * nat :=
  (o_key o p.1 p.2, index_of p (o_prio o)).
Definition cand_le (o : orc) : relation (worker * task) := λ p q, Is_true (kle (cand_key o p) (cand_key o q)).
Global Instance cand_le_dec o p q : Decision (cand_le o p q).
Proof. unfold cand_le. apply _. Defined.

(* [... for w in workers for t in remaining_t] *)
Definition cands (ws : list worker) (ts : list task) : list (worker * task) :=
  w ← ws; (λ t, (w, t)) <$> ts.

(* for _, _, worker, task in candidates: if task in remaining_t and worker in remaining_w: ... *)
Fixpoint greedy (l : list (worker * task)) (W : gset worker) (T : gset task) : list (worker * task) :=
  match l with
  | [] => []
  | (w, t) :: r =>
      if bool_decide (t ∈ T) && bool_decide (w ∈ W)
      then (w, t) :: greedy r (W ∖ {[w]}) (T ∖ {[t]})
      else greedy r W T
  end.

(* pass 2: candidates sorted by (overhead, value), picked greedily *)
Definition pass2 (o : orc) (ws : list worker) (ts : list task) : list (worker * task) :=
  greedy (merge_sort (cand_le o) (cands ws ts)) (list_to_set ws) (list_to_set ts).

(* returns the assignments and the list [workers] as the call leaves it (pass 1 pops from it) *)
Definition heur (o : orc) (ts : list task) (ws : list worker) : list (worker * task) * list worker :=
  let '(a1, un, ws') := pass1 (o_match o) ts ws in (a1 ++ pass2 o ws' un, ws').

(* ------------------------------------------------------------------ state updates of one assignment *)
(* component.computable.pop(task); component.weight -= 1; state.idle_workers.remove(worker) *)
Definition pop_task (cs : list comp) (i : cid) (t : task) : list comp :=
  alter (λ c, {| c_nodes := c_nodes c; c_comp := c_comp c ∖ {[t]}; c_weight := (c_weight c - 1)%Z |}) i cs.
Definition apply_one (v : aview) (a : cid * worker * task) : aview :=
  {| a_cs := pop_task (a_cs v) a.1.1 a.2; a_idle := a_idle v ∖ {[a.1.2]} |}.
Definition apply_asg (v : aview) (asg : list (cid * worker * task)) : aview := foldl apply_one v asg.

Definition tag (i : cid) (a : list (worker * task)) : list (cid * worker * task) := (λ p, (i, p.1, p.2)) <$> a.

(* ------------------------------------------------------------------ assign_within_component *)
Definition awc (J : job) (E : env) (o : orc) (v : aview) (ws : list worker) (i : cid)
  : res (list (cid * worker * task)) :=
  match a_cs v !! i with
  | None => Crash "IndexError: state.components"
  | Some c =>
      let ts := order_by (o_tasks o) (c_comp c) in
      let gpu_t := filter (λ t, t ∈ j_gpu J) ts in
      let cpu_t := filter (λ t, t ∉ j_gpu J) ts in
      let gpu_w := filter (λ w, w ∈ e_gpu E) ws in
      let cpu_w := filter (λ w, w ∉ e_gpu E) ws in
      let '(a1, gpu_w') := heur o gpu_t gpu_w in
      let idle1 := a_idle (apply_asg v (tag i a1)) in
      (* for worker in gpu_w: if worker in state.idle_workers: cpu_w.append(worker) *)
      let cpu_w' := cpu_w ++ filter (λ w, w ∈ idle1) gpu_w' in
      let '(a2, _) := heur o cpu_t cpu_w' in
      Next (tag i (a1 ++ a2))
  end.

(* ------------------------------------------------------------------ assign, step I *)
(* component2workers: idle workers grouped by the component their host is bound to *)
Fixpoint groupsI (E : env) (h2c : gmap host (option cid)) (wl : list worker) (acc : list (cid * list worker))
  : res (list (cid * list worker)) :=
  match wl with
  | [] => Next acc
  | w :: wl' =>
      match e_host E !! w with
      | None => Crash "unknown worker"
      | Some h =>
          match h2c !! h with
          | None => Crash "KeyError: state.host2component"
          | Some None => groupsI E h2c wl' acc
          | Some (Some i) => groupsI E h2c wl' (group_add i w acc)
          end
      end
  end.

Fixpoint stepI (J : job) (E : env) (o : orc) (v : aview) (gs : list (cid * list worker))
  : res (list (cid * worker * task)) :=
  match gs with
  | [] => Next []
  | (i, ws) :: gs' =>
      rbind (awc J E o v ws i) (λ a,
      rbind (stepI J E o (apply_asg v a) gs') (λ r, Next (a ++ r)))
  end.

(* ------------------------------------------------------------------ assign, step II *)
(* (component.weight, component_id) for weight > 0, sorted in reverse *)
Definition wi_ge : relation (Z * cid) :=
  λ a b, Is_true ((b.1 <? a.1)%Z || ((b.1 =? a.1)%Z && (b.2 <=? a.2)%nat)).
Global Instance wi_ge_dec a b : Decision (wi_ge a b).
Proof. unfold wi_ge. apply _. Defined.
Definition comps_pos (cs : list comp) : list (Z * cid) :=
  merge_sort wi_ge (filter (λ p, (0 < p.1)%Z) (imap (λ i c, (c_weight c, i)) cs)).

(* migrants: idle workers whose host is bound to no component, or to one of weight 0, by host *)
Fixpoint migrants (E : env) (h2c : gmap host (option cid)) (cs : list comp) (wl : list worker)
                  (acc : list (host * list worker)) : res (list (host * list worker)) :=
  match wl with
  | [] => Next acc
  | w :: wl' =>
      match e_host E !! w with
      | None => Crash "unknown worker"
      | Some h =>
          match h2c !! h with
          | None => Crash "KeyError: state.host2component"
          | Some None => migrants E h2c cs wl' (group_add h w acc)
          | Some (Some i) =>
              match cs !! i with
              | None => Crash "IndexError: state.components"
              | Some c => if bool_decide (c_weight c = 0%Z) then migrants E h2c cs wl' (group_add h w acc)
                          else migrants E h2c cs wl' acc
              end
          end
      end
  end.

(* for host, workers in migrants.items(): migrate_to_component; assign_within_component; round robin *)
Fixpoint stepII (J : job) (E : env) (o : orc) (cl : list (Z * cid)) (v : aview) (h2c : gmap host (option cid))
                (k : nat) (ms : list (host * list worker))
  : res (list (cid * worker * task) * gmap host (option cid)) :=
  match ms with
  | [] => Next ([], h2c)
  | (h, ws) :: ms' =>
      match cl !! k with
      | None => Crash "IndexError: components"
      | Some (_, i) =>
          rbind (awc J E o v ws i) (λ a,
          rbind (stepII J E o cl (apply_asg v a) (<[h := Some i]> h2c) (S k mod List.length cl) ms') (λ r,
          Next (a ++ r.1, r.2)))
      end
  end.

(* ------------------------------------------------------------------ scheduler.api.assign *)
Definition heur_assign (J : job) (E : env) (o : orc) (hs : hstate) (idl : gset worker)
  : res (list (cid * worker * task) * hstate) :=
  let v0 := {| a_cs := h_cs hs; a_idle := idl |} in
  let wl := order_by (o_workers o) idl in
  rbind (groupsI E (h_h2c hs) wl []) (λ gs,
  rbind (stepI J E o v0 gs) (λ a1,
  let v1 := apply_asg v0 a1 in
  if bool_decide (a_idle v1 = ∅) then Next (a1, {| h_cs := a_cs v1; h_h2c := h_h2c hs |}) else
  let cl := comps_pos (a_cs v1) in
  if bool_decide (cl = []) then Next (a1, {| h_cs := a_cs v1; h_h2c := h_h2c hs |}) else
  (* the second loop over state.idle_workers: same set object, the assigned workers removed *)
  let wl2 := filter (λ w, w ∈ a_idle v1) wl in
  rbind (migrants E (h_h2c hs) (a_cs v1) wl2 []) (λ ms,
  rbind (stepII J E o cl v1 (h_h2c hs) 0 ms) (λ r,
  Next (a1 ++ r.1, {| h_cs := a_cs (apply_asg v1 r.1); h_h2c := r.2 |}))))).

(* ------------------------------------------------------------------ controller.notify *)
(* consider_computable: the children of d whose last missing input is d enter the computable dict
   of the component of d's task *)
Definition new_computable (c : cstate) (d : ds) : gset task :=
  filter (λ t, becomes_computable c d t = true) (default ∅ (ptracker c !! d)).

Definition add_computable (cs : list comp) (i : cid) (X : gset task) : list comp :=
  alter (λ c, {| c_nodes := c_nodes c; c_comp := c_comp c ∪ X; c_weight := c_weight c |}) i cs.

(* c = the controller state BEFORE the event is processed *)
Definition h_notify (hs : hstate) (c : cstate) (ev : event) : res hstate :=
  match ev with
  | EPub _ d | EXfer _ d =>
      match comp_of (h_cs hs) d.1 with
      | None => Crash "KeyError: state.ts2component"
      | Some i => Next {| h_cs := add_computable (h_cs hs) i (new_computable c d); h_h2c := h_h2c hs |}
      end
  | EPay _ _ => Next hs
  end.

(* ------------------------------------------------------------------ controller x cluster, heuristic-driven *)
Fixpoint assign_seq (J : job) (E : env) (s : sys) (asg : list (worker * task * gmap ds host)) : res sys :=
  match asg with
  | [] => Next s
  | (w, t, srcs) :: asg' =>
      match exec J E s (LAssign w t srcs) with
      | Next (s', _) => assign_seq J E s' asg'
      | Disabled => Disabled | Crash e => Crash e | Fail e => Fail e
      end
  end.

Inductive hlabel :=
| HAssign (o : orc) (srcs : list (gmap ds host))   (* `if has_computable(state): for a in assign(...): act(...)`, then plan *)
| HStep (l : label).                               (* any step of Sched/Model.v except a free LAssign *)

Definition hexec (J : job) (E : env) (x : sys * hstate) (hl : hlabel) : res (sys * hstate) :=
  let '(s, hs) := x in
  match hl with
  | HAssign o srcs =>
      if has_computable (ctl s) then
        rbind (heur_assign J E o hs (idle (ctl s))) (λ r,
        if bool_decide (List.length r.1 = List.length srcs) then
          rbind (assign_seq J E s (zip_with (λ a m, (a.1.2, a.2, m)) r.1 srcs)) (λ s', Next (s', r.2))
        else Disabled)
      else if bool_decide (srcs = []) then Next (s, hs) else Disabled
  | HStep (LAssign _ _ _) => Disabled
  | HStep (LDeliver ev) =>
      match exec J E s (LDeliver ev) with
      | Next (s', _) => rbind (h_notify hs (ctl s) ev) (λ hs', Next (s', hs'))
      | Disabled => Disabled | Crash e => Crash e | Fail e => Fail e
      end
  | HStep l =>
      match exec J E s l with
      | Next (s', _) => Next (s', hs)
      | Disabled => Disabled | Crash e => Crash e | Fail e => Fail e
      end
  end.

Fixpoint hrun (J : job) (E : env) (x : sys * hstate) (ls : list hlabel) : res (sys * hstate) :=
  match ls with
  | [] => Next x
  | l :: ls' => rbind (hexec J E x l) (λ x', hrun J E x' ls')
  end.
