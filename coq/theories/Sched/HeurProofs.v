(* Proofs about Sched/Heur.v: what one call of the assignment heuristic returns (soundness: tasks
   of the right component; progress: a pass never leaves a compatible (idle worker, computable
   task) pair behind), the invariant HInv linking the heuristic's state to the controller state of
   Sched/Model.v, its preservation by every step of the heuristic-driven system, and the theorem
   that the assign phase establishes [assign_progress]. *)
From stdpp Require Import gmap sorting.
From Coq Require Import NArith ZArith String.
From EKW Require Import Sched.Model Sched.Lemmas Sched.Inv Sched.InvInit Sched.InvEnv Sched.InvCtl Sched.Safety
                        Sched.Progress Sched.Heur.
Local Open Scope N_scope.

(* ------------------------------------------------------------------ iteration orders *)
Lemma order_by_spec {A : Type} `{Countable A} (prio : list A) (X : gset A) x : x ∈ order_by prio X ↔ x ∈ X.
Proof.
  unfold order_by. rewrite elem_of_app, !elem_of_list_filter, elem_of_remove_dups, elem_of_elements. split.
  - intros [[? _]|[_ ?]]; done.
  - intros Hx. destruct (decide (x ∈ prio)); auto.
Qed.

Definition in_groups {K : Type} (k : K) (w : worker) (l : list (K * list worker)) : Prop :=
  ∃ ws, (k, ws) ∈ l ∧ w ∈ ws.

Lemma in_groups_add_same {K : Type} `{EqDecision K} (k : K) w l : in_groups k w (group_add k w l).
Proof.
  induction l as [|[k' ws] l IH]; simpl.
  - exists [w]. split; [by left|by left].
  - destruct (decide (k = k')) as [->|Hne].
    + exists (ws ++ [w]). split; [by left|]. apply elem_of_app. right. by left.
    + destruct IH as (ws' & Hin & Hw). exists ws'. split; [by right|done].
Qed.

Lemma in_groups_add_mono {K : Type} `{EqDecision K} (k k' : K) w w' l :
  in_groups k w l → in_groups k w (group_add k' w' l).
Proof.
  induction l as [|[k0 ws0] l IH]; intros (ws & Hin & Hw); [by apply elem_of_nil in Hin|]. simpl.
  apply elem_of_cons in Hin as [Heq|Hin].
  - injection Heq as <- <-. destruct (decide (k' = k)) as [->|Hne].
    + exists (ws ++ [w']). split; [by left|]. apply elem_of_app. by left.
    + exists ws. split; [by left|done].
  - destruct (decide (k' = k0)) as [->|Hne].
    + exists ws. split; [by right|done].
    + destruct IH as (ws' & Hin' & Hw'); [by exists ws|]. exists ws'. split; [by right|done].
Qed.

(* the members of the groups come from the additions *)
Lemma group_add_elem {K : Type} `{EqDecision K} (k k' : K) w ws l :
  (k, ws) ∈ group_add k' w l → ∀ x, x ∈ ws → x = w ∨ in_groups k x l.
Proof.
  induction l as [|[k0 ws0] l IH]; simpl; intros Hin x Hx.
  - apply elem_of_list_singleton in Hin. injection Hin as -> ->. apply elem_of_list_singleton in Hx. by left.
  - destruct (decide (k' = k0)) as [->|Hne].
    + apply elem_of_cons in Hin as [Heq|Hin].
      * injection Heq as -> ->. apply elem_of_app in Hx as [Hx|Hx].
        -- right. exists ws0. split; [by left|done].
        -- apply elem_of_list_singleton in Hx. by left.
      * right. exists ws. split; [by right|done].
    + apply elem_of_cons in Hin as [Heq|Hin].
      * injection Heq as -> ->. right. exists ws0. split; [by left|done].
      * destruct (IH Hin x Hx) as [?|(ws' & Hin' & Hx')]; [by left|]. right. exists ws'. split; [by right|done].
Qed.

(* ------------------------------------------------------------------ pass 1 *)
Lemma find_pop_Some {A : Type} (p : A → bool) l x r :
  find_pop p l = Some (x, r) → p x = true ∧ x ∈ l ∧ (∀ y, y ∈ r → y ∈ l).
Proof.
  revert x r. induction l as [|a l IH]; intros x r; simpl; [done|].
  destruct (p a) eqn:Hpa.
  - intros [= <- <-]. split; [done|]. split; [by left|]. intros y Hy. by right.
  - destruct (find_pop p l) as [[y r']|] eqn:Hf; [|done]. intros [= <- <-].
    destruct (IH _ _ eq_refl) as (Hp & Hin & Hsub). split; [done|]. split; [by right|].
    intros z Hz. apply elem_of_cons in Hz as [->|Hz]; [by left|]. right. auto.
Qed.

Lemma pass1_spec mt ts : ∀ ws a un wr, pass1 mt ts ws = (a, un, wr) →
  (∀ w t, (w, t) ∈ a → w ∈ ws ∧ t ∈ ts) ∧ (∀ t, t ∈ un → t ∈ ts) ∧ (∀ w, w ∈ wr → w ∈ ws) ∧
  (a = [] → un = ts ∧ wr = ws).
Proof.
  induction ts as [|t ts IH]; intros ws a un wr; simpl.
  - intros [= <- <- <-]. split; [intros w0 t0 Hq; by apply elem_of_nil in Hq|]. split; [intros t0 Hq; by apply elem_of_nil in Hq|]. done.
  - destruct (find_pop (λ w, mt w t) ws) as [[w ws']|] eqn:Hf.
    + destruct (pass1 mt ts ws') as [[a' un'] wr'] eqn:Hp. intros [= <- <- <-].
      destruct (IH _ _ _ _ Hp) as (Ha & Hun & Hwr & _).
      destruct (find_pop_Some _ _ _ _ Hf) as (_ & Hw & Hsub).
      split; [|split; [|split]].
      * intros w0 t0 Hin. apply elem_of_cons in Hin as [Heq|Hin].
        -- injection Heq as -> ->. split; [done|by left].
        -- destruct (Ha _ _ Hin). split; [auto|by right].
      * intros t0 Ht0. right. auto.
      * intros w0 Hw0. auto.
      * done.
    + destruct (pass1 mt ts ws) as [[a' un'] wr'] eqn:Hp. intros [= <- <- <-].
      destruct (IH _ _ _ _ Hp) as (Ha & Hun & Hwr & Hnil).
      split; [|split; [|split]].
      * intros w0 t0 Hin. destruct (Ha _ _ Hin). split; [done|by right].
      * intros t0 Ht0. apply elem_of_cons in Ht0 as [->|?]; [by left|right; auto].
      * done.
      * intros ->. destruct (Hnil eq_refl) as [-> ->]. done.
Qed.

(* ------------------------------------------------------------------ pass 2 *)
Lemma elem_of_cands ws ts w t : (w, t) ∈ cands ws ts ↔ w ∈ ws ∧ t ∈ ts.
Proof.
  unfold cands. rewrite elem_of_list_bind. split.
  - intros (w' & Hin & Hw'). apply elem_of_list_fmap in Hin as (t' & [= -> ->] & Ht'). done.
  - intros [Hw Ht]. exists w. split; [|done]. apply elem_of_list_fmap. by exists t.
Qed.

Lemma greedy_elem l : ∀ W T w t, (w, t) ∈ greedy l W T → (w, t) ∈ l ∧ w ∈ W ∧ t ∈ T.
Proof.
  induction l as [|[w' t'] l IH]; intros W T w t; simpl; [intros H; by apply elem_of_nil in H|].
  destruct (bool_decide (t' ∈ T) && bool_decide (w' ∈ W)) eqn:Hc.
  - apply andb_prop in Hc as [Ht' Hw']. apply bool_decide_eq_true in Ht', Hw'.
    intros Hin. apply elem_of_cons in Hin as [Heq|Hin].
    + injection Heq as -> ->. split; [by left|done].
    + destruct (IH _ _ _ _ Hin) as (? & ? & ?). split; [by right|]. set_solver.
  - intros Hin. destruct (IH _ _ _ _ Hin) as (? & ? & ?). split; [by right|done].
Qed.

Lemma greedy_nonempty l : ∀ W T w t, (w, t) ∈ l → w ∈ W → t ∈ T → greedy l W T ≠ [].
Proof.
  induction l as [|[w' t'] l IH]; intros W T w t Hin Hw Ht; [by apply elem_of_nil in Hin|]. simpl.
  destruct (bool_decide (t' ∈ T) && bool_decide (w' ∈ W)) eqn:Hc; [done|].
  apply elem_of_cons in Hin as [Heq|Hin].
  - injection Heq as <- <-. rewrite !bool_decide_eq_true_2 in Hc by done. done.
  - by apply (IH W T w t).
Qed.

Lemma pass2_elem o ws ts w t : (w, t) ∈ pass2 o ws ts → w ∈ ws ∧ t ∈ ts.
Proof.
  unfold pass2. intros Hin. apply greedy_elem in Hin as (Hin & _ & _).
  rewrite merge_sort_Permutation in Hin. by apply elem_of_cands.
Qed.

(* pass 2 does not stop while a (worker, task) pair remains *)
Lemma pass2_nonempty o ws ts w t : w ∈ ws → t ∈ ts → pass2 o ws ts ≠ [].
Proof.
  intros Hw Ht. unfold pass2. apply (greedy_nonempty _ _ _ w t).
  - rewrite merge_sort_Permutation. by apply elem_of_cands.
  - by apply elem_of_list_to_set.
  - by apply elem_of_list_to_set.
Qed.

Lemma heur_spec o ts ws a ws' : heur o ts ws = (a, ws') →
  (∀ w t, (w, t) ∈ a → w ∈ ws ∧ t ∈ ts) ∧ (∀ w, w ∈ ws' → w ∈ ws) ∧ (a = [] → ws' = ws) ∧
  (∀ w t, w ∈ ws → t ∈ ts → a ≠ []).
Proof.
  unfold heur. destruct (pass1 (o_match o) ts ws) as [[a1 un] wr] eqn:Hp. intros [= <- <-].
  destruct (pass1_spec _ _ _ _ _ _ Hp) as (Ha & Hun & Hwr & Hnil).
  split; [|split; [|split]].
  - intros w t Hin. apply elem_of_app in Hin as [Hin|Hin]; [auto|].
    apply pass2_elem in Hin as [? ?]. auto.
  - done.
  - intros Hnil'. apply app_eq_nil in Hnil' as [-> _]. by destruct (Hnil eq_refl).
  - intros w t Hw Ht Hnil'. apply app_eq_nil in Hnil' as [-> Hp2]. destruct (Hnil eq_refl) as [-> ->].
    by apply (pass2_nonempty o ws ts w t).
Qed.

(* ------------------------------------------------------------------ the res monad *)
Lemma rbind_Next {A B : Type} (r : res A) (f : A → res B) y :
  rbind r f = Next y → ∃ a, r = Next a ∧ f a = Next y.
Proof. destruct r; simpl; [eauto|done..]. Qed.

(* ------------------------------------------------------------------ state updates *)
Definition comp_le (c' c : comp) : Prop := c_nodes c' = c_nodes c ∧ c_comp c' ⊆ c_comp c.
Definition cs_le (cs' cs : list comp) : Prop := Forall2 comp_le cs' cs.

Lemma cs_le_refl cs : cs_le cs cs.
Proof. apply Forall_Forall2_diag, Forall_forall. intros c _. split; done. Qed.
Lemma cs_le_trans cs1 cs2 cs3 : cs_le cs1 cs2 → cs_le cs2 cs3 → cs_le cs1 cs3.
Proof.
  unfold cs_le. intros H1 H2. eapply Forall2_transitive; [|exact H1|exact H2].
  intros a b c [E1 S1] [E2 S2]. split; [congruence|set_solver].
Qed.
Lemma pop_task_le cs i t : cs_le (pop_task cs i t) cs.
Proof.
  unfold pop_task, cs_le. apply Forall2_alter_l; [apply cs_le_refl|].
  intros c c' _ _ [E S]. split; simpl; [done|set_solver].
Qed.
Lemma apply_asg_le asg : ∀ v, cs_le (a_cs (apply_asg v asg)) (a_cs v).
Proof.
  induction asg as [|a asg IH]; intros v; simpl; [apply cs_le_refl|].
  eapply cs_le_trans; [apply IH|]. simpl. apply pop_task_le.
Qed.
Lemma apply_asg_app v a b : apply_asg v (a ++ b) = apply_asg (apply_asg v a) b.
Proof. unfold apply_asg. apply foldl_app. Qed.
Lemma cs_le_lookup_l cs' cs i c' : cs_le cs' cs → cs' !! i = Some c' → ∃ c, cs !! i = Some c ∧ comp_le c' c.
Proof. intros H Hl. destruct (Forall2_lookup_l _ _ _ _ _ H Hl) as (c & ? & ?). eauto. Qed.
Lemma cs_le_lookup_r cs' cs i c : cs_le cs' cs → cs !! i = Some c → ∃ c', cs' !! i = Some c' ∧ comp_le c' c.
Proof. intros H Hl. destruct (Forall2_lookup_r _ _ _ _ _ H Hl) as (c' & ? & ?). eauto. Qed.
Lemma cs_le_length cs' cs : cs_le cs' cs → List.length cs' = List.length cs.
Proof. apply Forall2_length. Qed.

Lemma tag_nil i a : tag i a = [] → a = [].
Proof. unfold tag. apply fmap_nil_inv. Qed.
Lemma elem_of_tag i a j w t : (j, w, t) ∈ tag i a ↔ j = i ∧ (w, t) ∈ a.
Proof.
  unfold tag. rewrite elem_of_list_fmap. split.
  - intros ([w' t'] & [= -> -> ->] & Hin). done.
  - intros [-> Hin]. by exists (w, t).
Qed.

(* ------------------------------------------------------------------ assign_within_component *)
Lemma awc_spec J E o v ws i a : awc J E o v ws i = Next a →
  ∃ c, a_cs v !! i = Some c ∧ ∀ j w t, (j, w, t) ∈ a → j = i ∧ t ∈ c_comp c ∧ w ∈ ws.
Proof.
  unfold awc. destruct (a_cs v !! i) as [c|] eqn:Hc; [|done]. exists c. split; [done|].
  destruct (heur o _ (filter (λ w, w ∈ e_gpu E) ws)) as [a1 gw'] eqn:H1.
  destruct (heur o (filter (λ t, t ∉ j_gpu J) _) _) as [a2 gw2] eqn:H2.
  injection H as <-. intros j w t Hin. apply elem_of_tag in Hin as [-> Hin]. split; [done|].
  destruct (heur_spec _ _ _ _ _ H1) as (Ha1 & Hsub1 & _ & _).
  destruct (heur_spec _ _ _ _ _ H2) as (Ha2 & _ & _ & _).
  apply elem_of_app in Hin as [Hin|Hin].
  - destruct (Ha1 _ _ Hin) as [Hw Ht]. apply elem_of_list_filter in Hw as [_ Hw], Ht as [_ Ht].
    apply order_by_spec in Ht. done.
  - destruct (Ha2 _ _ Hin) as [Hw Ht]. apply elem_of_list_filter in Ht as [_ Ht]. apply order_by_spec in Ht.
    split; [done|]. apply elem_of_app in Hw as [Hw|Hw].
    + by apply elem_of_list_filter in Hw as [_ Hw].
    + apply elem_of_list_filter in Hw as [_ Hw]. apply Hsub1 in Hw. by apply elem_of_list_filter in Hw as [_ Hw].
Qed.

(* a component with a computable task and a compatible idle worker among [ws]: something is assigned *)
Lemma awc_nonempty J E o v ws i a c t g :
  awc J E o v ws i = Next a → a_cs v !! i = Some c → t ∈ c_comp c → g ∈ ws → g ∈ a_idle v →
  (t ∈ j_gpu J → g ∈ e_gpu E) → a ≠ [].
Proof.
  unfold awc. intros H Hc Ht Hg Hidle Hgpu. rewrite Hc in H.
  destruct (heur o _ (filter (λ w, w ∈ e_gpu E) ws)) as [a1 gw'] eqn:H1.
  destruct (heur o (filter (λ t, t ∉ j_gpu J) _) _) as [a2 gw2] eqn:H2.
  injection H as <-. intros Hnil. apply tag_nil, app_eq_nil in Hnil as [-> ->].
  destruct (heur_spec _ _ _ _ _ H1) as (_ & _ & Hsame & Hne1).
  destruct (heur_spec _ _ _ _ _ H2) as (_ & _ & _ & Hne2).
  assert (Hto : t ∈ order_by (o_tasks o) (c_comp c)) by by apply order_by_spec.
  destruct (decide (t ∈ j_gpu J)) as [Hgt|Hct].
  - apply (Hne1 g t); [| |done]; apply elem_of_list_filter; auto.
  - apply (Hne2 g t); [| |done].
    + rewrite (Hsame eq_refl). simpl. apply elem_of_app.
      destruct (decide (g ∈ e_gpu E)) as [Hgg|Hgc].
      * right. apply elem_of_list_filter. split; [done|]. apply elem_of_list_filter. done.
      * left. apply elem_of_list_filter. done.
    + apply elem_of_list_filter. done.
Qed.

(* ------------------------------------------------------------------ step I *)
Lemma groupsI_spec E h2c wl : ∀ acc gs, groupsI E h2c wl acc = Next gs →
  (∀ k w, in_groups k w acc → in_groups k w gs) ∧
  (∀ w h i, w ∈ wl → e_host E !! w = Some h → h2c !! h = Some (Some i) → in_groups i w gs).
Proof.
  induction wl as [|w0 wl IH]; intros acc gs; simpl.
  - intros [= <-]. split; [done|]. intros w h i Hin. by apply elem_of_nil in Hin.
  - destruct (e_host E !! w0) as [h0|] eqn:Hh0; [|done]. destruct (h2c !! h0) as [[i0|]|] eqn:Hc0; [| |done].
    + intros Hg. destruct (IH _ _ Hg) as [Hacc Hnew]. split.
      * intros k w Hk. apply Hacc. by apply in_groups_add_mono.
      * intros w h i Hin Hh Hc. apply elem_of_cons in Hin as [->|Hin]; [|eauto].
        rewrite Hh0 in Hh. injection Hh as <-. rewrite Hc0 in Hc. injection Hc as <-.
        apply Hacc. apply in_groups_add_same.
    + intros Hg. destruct (IH _ _ Hg) as [Hacc Hnew]. split; [done|].
      intros w h i Hin Hh Hc. apply elem_of_cons in Hin as [->|Hin]; [|eauto].
      rewrite Hh0 in Hh. injection Hh as <-. rewrite Hc0 in Hc. done.
Qed.

Lemma stepI_spec J E o gs : ∀ v a, stepI J E o v gs = Next a →
  (∀ j w t, (j, w, t) ∈ a → ∃ c, a_cs v !! j = Some c ∧ t ∈ c_comp c) ∧
  (a = [] → ∀ i ws, (i, ws) ∈ gs → awc J E o v ws i = Next []).
Proof.
  induction gs as [|[i ws] gs IH]; intros v a; simpl.
  - intros [= <-]. split; [intros j w t Hin; by apply elem_of_nil in Hin|]. intros _ i ws Hin. by apply elem_of_nil in Hin.
  - intros H. apply rbind_Next in H as (a0 & Hawc & H). apply rbind_Next in H as (r & Hr & [= <-]).
    destruct (IH _ _ Hr) as [Hs Hn]. destruct (awc_spec _ _ _ _ _ _ _ Hawc) as (c & Hc & Ha0). split.
    + intros j w t Hin. apply elem_of_app in Hin as [Hin|Hin].
      * destruct (Ha0 _ _ _ Hin) as (-> & ? & _). eauto.
      * destruct (Hs _ _ _ Hin) as (c' & Hc' & Ht).
        destruct (cs_le_lookup_l _ _ _ _ (apply_asg_le a0 v) Hc') as (c0 & Hc0 & _ & Hsub). exists c0. split; [done|]. set_solver.
    + intros Hnil. apply app_eq_nil in Hnil as [-> ->]. simpl in Hn. intros i' ws' Hin.
      apply elem_of_cons in Hin as [[= -> ->]|Hin]; [done|]. by apply Hn.
Qed.

(* ------------------------------------------------------------------ step II *)
Lemma elem_of_comps_pos cs z i : (z, i) ∈ comps_pos cs ↔ ∃ c, cs !! i = Some c ∧ z = c_weight c ∧ (0 < z)%Z.
Proof.
  unfold comps_pos. rewrite merge_sort_Permutation, elem_of_list_filter, elem_of_lookup_imap. simpl. split.
  - intros (Hpos & i' & c & [= -> ->] & Hc). eauto.
  - intros (c & Hc & -> & Hpos). split; [done|]. eauto.
Qed.

Lemma migrants_spec E h2c cs wl : ∀ acc ms, migrants E h2c cs wl acc = Next ms →
  (∀ k w, in_groups k w acc → in_groups k w ms) ∧
  (∀ w h, w ∈ wl → e_host E !! w = Some h →
     (h2c !! h = Some None ∨ ∃ i c, h2c !! h = Some (Some i) ∧ cs !! i = Some c ∧ c_weight c = 0%Z) →
     in_groups h w ms).
Proof.
  induction wl as [|w0 wl IH]; intros acc ms; simpl.
  - intros [= <-]. split; [done|]. intros w h Hin. by apply elem_of_nil in Hin.
  - destruct (e_host E !! w0) as [h0|] eqn:Hh0; [|done]. destruct (h2c !! h0) as [[i0|]|] eqn:Hc0; [| |done].
    + destruct (cs !! i0) as [c0|] eqn:Hci; [|done]. case_bool_decide as Hw0.
      * intros Hg. destruct (IH _ _ Hg) as [Hacc Hnew]. split.
        -- intros k w Hk. apply Hacc. by apply in_groups_add_mono.
        -- intros w h Hin Hh Hc. apply elem_of_cons in Hin as [->|Hin]; [|eauto].
           rewrite Hh0 in Hh. injection Hh as <-. apply Hacc. apply in_groups_add_same.
      * intros Hg. destruct (IH _ _ Hg) as [Hacc Hnew]. split; [done|].
        intros w h Hin Hh Hc. apply elem_of_cons in Hin as [->|Hin]; [|eauto].
        rewrite Hh0 in Hh. injection Hh as <-. destruct Hc as [Hc|(i & c & Hc & Hi & Hz)]; [congruence|].
        rewrite Hc0 in Hc. injection Hc as <-. rewrite Hci in Hi. injection Hi as <-. done.
    + intros Hg. destruct (IH _ _ Hg) as [Hacc Hnew]. split.
      * intros k w Hk. apply Hacc. by apply in_groups_add_mono.
      * intros w h Hin Hh Hc. apply elem_of_cons in Hin as [->|Hin]; [|eauto].
        rewrite Hh0 in Hh. injection Hh as <-. apply Hacc. apply in_groups_add_same.
Qed.

Lemma stepII_spec J E o cl ms : ∀ v h2c k a h2c', stepII J E o cl v h2c k ms = Next (a, h2c') →
  (∀ j w t, (j, w, t) ∈ a → ∃ c, a_cs v !! j = Some c ∧ t ∈ c_comp c) ∧
  (a = [] → ∀ h ws, (h, ws) ∈ ms → ∃ z i, (z, i) ∈ cl ∧ awc J E o v ws i = Next []) ∧
  (∀ h, h2c' !! h = h2c !! h ∨ ∃ z i, (z, i) ∈ cl ∧ h2c' !! h = Some (Some i)).
Proof.
  induction ms as [|[h0 ws0] ms IH]; intros v h2c k a h2c'; simpl.
  - intros [= <- <-]. split; [intros j w t Hin; by apply elem_of_nil in Hin|]. split; [|by left].
    intros _ h ws Hin. by apply elem_of_nil in Hin.
  - destruct (cl !! k) as [[z0 i0]|] eqn:Hk; [|done]. intros H.
    apply rbind_Next in H as (a0 & Hawc & H). apply rbind_Next in H as ([r h2c1] & Hr & [= <- <-]).
    destruct (IH _ _ _ _ _ Hr) as (Hs & Hn & Hh). destruct (awc_spec _ _ _ _ _ _ _ Hawc) as (c & Hc & Ha0).
    assert (Hin0 : (z0, i0) ∈ cl) by by apply elem_of_list_lookup_2 in Hk.
    split; [|split].
    + intros j w t Hin. simpl in Hin. apply elem_of_app in Hin as [Hin|Hin].
      * destruct (Ha0 _ _ _ Hin) as (-> & ? & _). eauto.
      * destruct (Hs _ _ _ Hin) as (c' & Hc' & Ht).
        destruct (cs_le_lookup_l _ _ _ _ (apply_asg_le a0 v) Hc') as (c0 & Hc0 & _ & Hsub). exists c0. split; [done|]. set_solver.
    + simpl. intros Hnil. apply app_eq_nil in Hnil as [-> ->]. simpl in Hn. intros h ws Hin.
      apply elem_of_cons in Hin as [[= -> ->]|Hin]; [eauto|]. exact (Hn eq_refl _ _ Hin).
    + simpl. intros h. destruct (Hh h) as [Heq|?]; [|by right].
      destruct (decide (h = h0)) as [->|Hne].
      * right. exists z0, i0. split; [done|]. by rewrite Heq, lookup_insert.
      * left. by rewrite Heq, lookup_insert_ne.
Qed.

(* ------------------------------------------------------------------ the invariant *)
Definition disp_set (s : sys) : gset task := list_to_set (dispatched s).*2.

(* the components of the preschedule partition the tasks and are closed under the input edges *)
Record wf_comps (J : job) (K : list (gset task)) : Prop := {
  wk_cover : ∀ t, is_task J t → ∃ i X, K !! i = Some X ∧ t ∈ X;
  wk_task : ∀ i X t, K !! i = Some X → t ∈ X → is_task J t;
  wk_disj : ∀ i j X Y t, K !! i = Some X → K !! j = Some Y → t ∈ X → t ∈ Y → i = j;
  wk_closed : ∀ i X t (d : ds), K !! i = Some X → t ∈ X → d ∈ ins J t → d.1 ∈ X;
}.

(* every worker can run every task it may be asked to run: there is a worker, and if some task
   needs a GPU, there is a GPU worker *)
Definition feasible (J : job) (E : env) : Prop :=
  ∃ g, is_Some (e_host E !! g) ∧ ∀ t, is_task J t → t ∈ j_gpu J → g ∈ e_gpu E.

Section hinv.
  Context (J : job) (E : env) (K : list (gset task)).

  Record HInv (s : sys) (hs : hstate) : Prop := {
    hi_nodes : c_nodes <$> h_cs hs = K;
    hi_comp : ∀ i c t, h_cs hs !! i = Some c → t ∈ c_comp c ↔ t ∈ computable (ctl s) ∧ t ∈ c_nodes c;
    hi_weight : ∀ i c, h_cs hs !! i = Some c → c_weight c = Z.of_nat (size (c_nodes c ∖ disp_set s));
    hi_h2c : ∀ w h, e_host E !! w = Some h →
               ∃ oc, h_h2c hs !! h = Some oc ∧ ∀ i, oc = Some i → (i < List.length (h_cs hs))%nat;
    hi_idle : ∀ w, is_Some (e_host E !! w) → ong (ctl s) w = ∅ → w ∈ idle (ctl s);
  }.

  Lemma hinv_K s hs i c : HInv s hs → h_cs hs !! i = Some c → K !! i = Some (c_nodes c).
  Proof. intros Hh Hc. rewrite <- (hi_nodes _ _ Hh), list_lookup_fmap, Hc. done. Qed.
  Lemma hinv_K_inv s hs i X : HInv s hs → K !! i = Some X → ∃ c, h_cs hs !! i = Some c ∧ c_nodes c = X.
  Proof.
    intros Hh HX. rewrite <- (hi_nodes _ _ Hh), list_lookup_fmap in HX.
    destruct (h_cs hs !! i) as [c|]; [|done]. injection HX as <-. eauto.
  Qed.

  Lemma disp_set_spec s t : t ∈ disp_set s ↔ t ∈ (dispatched s).*2.
  Proof. unfold disp_set. by rewrite elem_of_list_to_set. Qed.

  (* rank induction (compare Progress.all_completed): with nothing running and every publication of
     a completed task delivered, an undispatched task of a component leads to a computable one *)
  Lemma undispatched_reaches_computable rank s hs i c :
    wf_dag J rank → wf_comps J K → Inv J E s → HInv s hs → InOrder J s → ongoing_total (ctl s) = ∅ →
    h_cs hs !! i = Some c →
    ∀ n t, (rank t < n)%nat → t ∈ c_nodes c → t ∉ disp_set s → ∃ t', t' ∈ c_comp c.
  Proof.
    intros [Hdag _] Hwk Hinv Hh Hio Hot Hc. pose proof (hinv_K _ _ _ _ Hh Hc) as HK.
    assert (Hnoong : ∀ w t, t ∉ ong (ctl s) w).
    { intros w t Ht. assert (t ∈ ongoing_total (ctl s)) as Hin by (apply ongoing_total_spec; eauto).
      rewrite Hot in Hin. set_solver. }
    induction n as [|n IH]; intros t Hr Ht Hnd; [lia|].
    pose proof (wk_task _ _ Hwk _ _ _ HK Ht) as Htask.
    assert (Hnc : t ∉ completed (ctl s)).
    { intros Hcp. destruct (i_completed _ _ _ Hinv _ Hcp) as [Hf _].
      destruct (i_fin_disp _ _ _ Hinv _ Hf) as [Hd _]. apply Hnd. by apply disp_set_spec. }
    destruct (i_phase _ _ _ Hinv _ Htask Hnc) as [Hin|[[X HX]|[w Hw]]].
    - exists t. apply (hi_comp _ _ Hh _ _ _ Hc). done.
    - destruct (i_tr _ _ _ Hinv _ _ HX) as (_ & _ & _ & _ & Hne & Heq).
      assert (∃ d, d ∈ X) as [d Hd].
      { destruct (set_choose_or_empty X) as [?|He]; [done|]. by apply leibniz_equiv in He. }
      rewrite Heq in Hd. apply elem_of_difference in Hd as [Hd Hns].
      destruct (Hdag _ _ Hd) as (Htp & Hout & Hrk).
      pose proof (wk_closed _ _ Hwk _ _ _ _ HK Ht Hd) as Hpn. destruct d as [p j]. simpl in *.
      destruct (decide (p ∈ disp_set s)) as [Hpd|Hpnd]; [|apply (IH p); [lia|done|done]].
      exfalso. apply disp_set_spec, elem_of_list_fmap in Hpd as ([w p'] & Hp & Hin). simpl in Hp. subst p'.
      destruct (i_disp _ _ _ Hinv _ _ Hin) as (Hnc1 & Hnt & _ & _).
      assert (Hcp : p ∈ completed (ctl s)).
      { destruct (decide (p ∈ completed (ctl s))) as [?|Hncp]; [done|exfalso].
        destruct (i_phase _ _ _ Hinv _ Htp Hncp) as [?|[[Y HY]|[w' Hw']]]; [done|congruence|by apply (Hnoong w' p)]. }
      apply Hns. by apply (Hio p).
    - exfalso. by apply (Hnoong w t).
  Qed.

  Lemma comp_has_computable rank s hs i c :
    wf_dag J rank → wf_comps J K → Inv J E s → HInv s hs → InOrder J s → ongoing_total (ctl s) = ∅ →
    h_cs hs !! i = Some c → (0 < c_weight c)%Z → ∃ t, t ∈ c_comp c ∧ is_task J t.
  Proof.
    intros Hdag Hwk Hinv Hh Hio Hot Hc Hpos. rewrite (hi_weight _ _ Hh _ _ Hc) in Hpos.
    assert (Hsz : (0 < size (c_nodes c ∖ disp_set s))%nat) by lia.
    apply size_pos_elem_of in Hsz as [t0 Ht0]. apply elem_of_difference in Ht0 as [Ht0 Hnd].
    destruct (undispatched_reaches_computable rank s hs i c Hdag Hwk Hinv Hh Hio Hot Hc (S (rank t0)) t0 ltac:(lia) Ht0 Hnd) as [t Ht].
    exists t. split; [done|]. apply (hi_comp _ _ Hh _ _ _ Hc) in Ht as [Ht _]. by destruct (i_comp _ _ _ Hinv _ Ht).
  Qed.

  (* ---------------------------------------------------------------- progress of one call of assign *)
  Theorem heur_assign_nonempty rank s hs o asg hs' :
    wf_dag J rank → wf_comps J K → feasible J E → Inv J E s → HInv s hs → InOrder J s →
    ongoing_total (ctl s) = ∅ → computable (ctl s) ≠ ∅ →
    heur_assign J E o hs (idle (ctl s)) = Next (asg, hs') → asg ≠ [].
  Proof.
    intros Hdag Hwk (g & [hg Hg] & Hgpu) Hinv Hh Hio Hot Hcne Hha Hnil. subst asg.
    unfold heur_assign in Hha.
    apply rbind_Next in Hha as (gs & Hgs & Hha). apply rbind_Next in Hha as (a1 & Ha1 & Hha).
    destruct (groupsI_spec _ _ _ _ _ Hgs) as [_ HgsI]. destruct (stepI_spec _ _ _ _ _ _ Ha1) as [_ HnI].
    (* the universal worker is idle *)
    assert (Hgi : g ∈ idle (ctl s)).
    { apply (hi_idle _ _ Hh); [eauto|]. destruct (set_choose_or_empty (ong (ctl s) g)) as [[t Ht]|He]; [|by apply leibniz_equiv in He].
      exfalso. assert (t ∈ ongoing_total (ctl s)) as Hin by (apply ongoing_total_spec; eauto). rewrite Hot in Hin. set_solver. }
    assert (Hgwl : g ∈ order_by (o_workers o) (idle (ctl s))) by by apply order_by_spec.
    (* a component with a computable task *)
    apply set_choose_L in Hcne as [ts Hts].
    destruct (i_comp _ _ _ Hinv _ Hts) as (Htst & _ & _ & Htsnd).
    destruct (wk_cover _ _ Hwk _ Htst) as (is & Xs & HKs & HtsX).
    destruct (hinv_K_inv _ _ _ _ Hh HKs) as (cs & Hcs & Hcsn).
    assert (Hwpos : (0 < c_weight cs)%Z).
    { rewrite (hi_weight _ _ Hh _ _ Hcs). assert (ts ∈ c_nodes cs ∖ disp_set s) as Hin.
      { apply elem_of_difference. rewrite Hcsn. split; [done|]. by rewrite disp_set_spec. }
      destruct (size (c_nodes cs ∖ disp_set s)) eqn:Hsz; [|lia].
      apply size_empty_inv in Hsz. set_solver. }
    (* any call of assign_within_component for a component of positive weight with g among the workers assigns *)
    assert (Hcall : ∀ ws i c a, h_cs hs !! i = Some c → (0 < c_weight c)%Z → g ∈ ws →
              awc J E o {| a_cs := h_cs hs; a_idle := idle (ctl s) |} ws i = Next a → a ≠ []).
    { intros ws i c a Hc Hpos Hgw Hawc.
      destruct (comp_has_computable rank s hs i c Hdag Hwk Hinv Hh Hio Hot Hc Hpos) as (t & Ht & Htt).
      apply (awc_nonempty _ _ _ _ _ _ _ c t g Hawc); simpl; [done|done|done|done|]. intros Hgt. by apply (Hgpu t). }
    (* step I assigned nothing *)
    assert (Ha1nil : a1 = []).
    { revert Hha. case_bool_decide; [by intros [= -> _]|]. case_bool_decide; [by intros [= -> _]|].
      intros Hha. apply rbind_Next in Hha as (ms & _ & Hha). apply rbind_Next in Hha as (r & _ & Hha).
      injection Hha as Hha _. by apply app_eq_nil in Hha as [-> _]. }
    subst a1. simpl in Hha. specialize (HnI eq_refl).
    case_bool_decide as Hidle; [rewrite Hidle in Hgi; set_solver|].
    case_bool_decide as Hcl.
    { assert ((c_weight cs, is) ∈ comps_pos (h_cs hs)) as Hin by (apply elem_of_comps_pos; eauto).
      rewrite Hcl in Hin. by apply elem_of_nil in Hin. }
    apply rbind_Next in Hha as (ms & Hms & Hha). apply rbind_Next in Hha as ([a2 h2c'] & HsII & Hha).
    injection Hha as Ha2 _. simpl in Ha2. subst a2.
    destruct (migrants_spec _ _ _ _ _ _ Hms) as [_ Hmig].
    destruct (stepII_spec _ _ _ _ _ _ _ _ _ _ HsII) as (_ & HnII & _). specialize (HnII eq_refl).
    assert (Hgwl2 : g ∈ filter (λ w, w ∈ idle (ctl s)) (order_by (o_workers o) (idle (ctl s)))).
    { apply elem_of_list_filter. done. }
    (* g's host migrates: it is given a component of positive weight *)
    assert (Hmigrant : in_groups hg g ms → False).
    { intros (ws & Hin & Hgw). destruct (HnII _ _ Hin) as (z & i & Hcli & Hawc).
      apply elem_of_comps_pos in Hcli as (c & Hc & -> & Hpos). by apply (Hcall ws i c [] Hc Hpos Hgw Hawc). }
    destruct (hi_h2c _ _ Hh _ _ Hg) as (oc & Hoc & Hbound). destruct oc as [i|].
    - destruct (lookup_lt_is_Some_2 (h_cs hs) i (Hbound i eq_refl)) as [c Hc].
      destruct (decide (c_weight c = 0%Z)) as [Hz|Hnz].
      + apply Hmigrant. apply (Hmig g hg Hgwl2 Hg). right. eauto.
      + assert (Hpos : (0 < c_weight c)%Z). { rewrite (hi_weight _ _ Hh _ _ Hc) in Hnz |- *. lia. }
        destruct (HgsI g hg i Hgwl Hg Hoc) as (ws & Hin & Hgw).
        by apply (Hcall ws i c [] Hc Hpos Hgw (HnI _ _ Hin)).
    - apply Hmigrant. apply (Hmig g hg Hgwl2 Hg). by left.
  Qed.
End hinv.

Arguments hi_nodes {_ _ _ _} _.
Arguments hi_comp {_ _ _ _} _ _ _ _ _.
Arguments hi_weight {_ _ _ _} _ _ _ _.
Arguments hi_h2c {_ _ _ _} _ _ _ _.
Arguments hi_idle {_ _ _ _} _ _ _ _.
Arguments hinv_K {_ _ _ _ _ _} _ _.
Arguments hinv_K_inv {_ _ _ _ _ _} _ _.

(* ------------------------------------------------------------------ what the steps of Model.v do to the fields HInv reads *)
Lemma assign_fields J E s w t srcs s' cs :
  exec J E s (LAssign w t srcs) = Next (s', cs) →
  t ∈ computable (ctl s) ∧ computable (ctl s') = computable (ctl s) ∖ {[t]} ∧ idle (ctl s') = idle (ctl s) ∖ {[w]} ∧
  (∀ w', ong (ctl s') w' = if decide (w = w') then {[t]} ∪ ong (ctl s) w else ong (ctl s) w') ∧
  dispatched s' = dispatched s ++ [(w, t)].
Proof.
  simpl. destruct (assign_c J E (ctl s) w t srcs) as [[c h]| |e|e] eqn:Ha; try done.
  case_bool_decide; [done|]. intros [= <- <-]. simpl.
  unfold assign_c in Ha. destruct (e_host E !! w); [|done].
  destruct (negb _) eqn:Hen in Ha; [done|]. apply negb_false_iff in Hen.
  apply andb_prop in Hen as [Hen _]. apply andb_prop in Hen as [Htc _]. apply bool_decide_eq_true in Htc.
  case_bool_decide; [done|]. destruct (negb _) in Ha; [done|].
  destruct (ongoing (ctl s) !! w) as [X|] eqn:HX; [case_bool_decide; [done|]|]; injection Ha as <- <-; simpl;
    (split; [done|]); (split; [done|]); (split; [done|]); (split; [|done]); intros w'; unfold ong; simpl;
    rewrite ong_insert; destruct (decide (w = w')) as [->|?]; try done; rewrite HX; simpl; set_solver.
Qed.

Lemma complete_fields J c w t c2 : complete_c J c w t = Next c2 →
  computable c2 = computable c ∧ ∃ X, ongoing c !! w = Some X ∧ ongoing c2 = <[w := X ∖ {[t]}]> (ongoing c) ∧
  idle c2 = (if bool_decide (X ∖ {[t]} = ∅) then {[w]} ∪ idle c else idle c).
Proof.
  unfold complete_c. case_bool_decide; [|done]. destruct (ongoing c !! w) as [X|]; [|done].
  case_bool_decide; [|done]. intros [= <-]. simpl. split; [done|]. exists X. done.
Qed.

Lemma new_computable_publish J c h d : computable (publish_c J c h d) = computable c ∪ new_computable c d.
Proof. by destruct (publish_fields J c h d) as (-> & _). Qed.

Definition ev_new (c : cstate) (ev : event) : gset task :=
  match ev with EPub _ d | EXfer _ d => new_computable c d | EPay _ _ => ∅ end.

Lemma notify_fields J E c ev c' : notify J E c ev = Next c' →
  computable c' = computable c ∪ ev_new c ev ∧
  (∀ w, ong c' w = ∅ → ong c w = ∅ ∨ w ∈ idle c') ∧ (∀ w, w ∈ idle c → w ∈ idle c').
Proof.
  destruct ev as [w d|h d|d v]; simpl.
  - destruct (e_host E !! w) as [h|]; [|done].
    destruct (publish_fields J c h d) as (_ & Ei & Eo & _).
    case_bool_decide.
    + intros Hc. destruct (complete_fields _ _ _ _ _ Hc) as (-> & X & HX & Eo2 & Ei2).
      split; [apply new_computable_publish|]. split.
      * intros w' Hw'. unfold ong in *. rewrite Eo2, ong_insert in Hw'. rewrite Ei2. destruct (decide (w = w')) as [->|?].
        -- right. rewrite bool_decide_eq_true_2 by done. set_solver.
        -- left. by rewrite <- Eo.
      * intros w' Hw'. rewrite Ei2, Ei. case_bool_decide; set_solver.
    + intros [= <-]. split; [apply new_computable_publish|]. split.
      * intros w' Hw'. left. unfold ong in *. by rewrite <- Eo.
      * intros w' Hw'. by rewrite Ei.
  - intros [= <-]. destruct (publish_fields J c h d) as (_ & Ei & Eo & _).
    split; [apply new_computable_publish|]. split.
    + intros w' Hw'. left. unfold ong in *. by rewrite <- Eo.
    + intros w' Hw'. by rewrite Ei.
  - intros [= <-]. simpl. split; [set_solver|]. split; auto.
Qed.

Lemma deliver_fields J E s ev s' cs : exec J E s (LDeliver ev) = Next (s', cs) →
  notify J E (ctl s) ev = Next (ctl s') ∧ dispatched s' = dispatched s.
Proof.
  simpl. destruct (list_remove ev (pool s)); [|done].
  destruct (notify J E (ctl s) ev) as [c| |e|e]; try done. intros [= <- <-]. done.
Qed.

(* the other steps leave them alone *)
Definition frame_label (l : label) : Prop :=
  match l with LAssign _ _ _ | LDeliver _ => False | _ => True end.

Lemma frame_fields J E s l s' cs : frame_label l → exec J E s l = Next (s', cs) →
  computable (ctl s') = computable (ctl s) ∧ idle (ctl s') = idle (ctl s) ∧ ongoing (ctl s') = ongoing (ctl s) ∧
  dispatched s' = dispatched s.
Proof.
  destruct l as [w t srcs| |ev|w i|[[d src] tgt]|[d src]|[h d]]; simpl; try done; intros _.
  - destruct (flush_c J (ctl s)) as [[c fl] pl] eqn:Hf. intros [= <- <-]. simpl.
    unfold flush_c in Hf. injection Hf as <- _ _. done.
  - destruct (wq s !! w); [|done]. destruct (e_host E !! w); [|done].
    destruct (negb _); [done|]. destruct (negb _); [done|]. destruct (bool_decide _); [done|]. intros [= <- <-]. done.
  - destruct (list_remove _ _); [|done]. destruct (negb _); [done|]. intros [= <- <-]. done.
  - destruct (list_remove _ _); [|done]. destruct (negb _); [done|]. intros [= <- <-]. done.
  - destruct (list_remove _ _); [|done]. intros [= <- <-]. done.
Qed.

(* ------------------------------------------------------------------ preservation of HInv *)
Lemma cs_le_nodes cs' cs : cs_le cs' cs → c_nodes <$> cs' = c_nodes <$> cs.
Proof. induction 1 as [|c' c cs' cs [Hn _] _ IH]; [done|]. csimpl. by rewrite Hn, IH. Qed.

Lemma fmap_nodes_alter (f : comp → comp) (cs : list comp) : (∀ c, c_nodes (f c) = c_nodes c) → ∀ i : nat, c_nodes <$> alter f i cs = c_nodes <$> cs.
Proof. intros Hf. induction cs as [|c cs IH]; intros [|i]; csimpl; [done|done|by rewrite Hf|by rewrite IH]. Qed.

Lemma env_hosts_spec E h : h ∈ env_hosts E ↔ ∃ w, e_host E !! w = Some h.
Proof.
  unfold env_hosts. apply (map_fold_ind (λ acc m, h ∈ acc ↔ ∃ w, m !! w = Some h)).
  - split; [set_solver|]. intros [w Hw]. by rewrite lookup_empty in Hw.
  - intros w h' m acc Hm IH. rewrite elem_of_union, IH, elem_of_singleton. split.
    + intros [->|[w' Hw']]; [exists w; by rewrite lookup_insert|].
      exists w'. rewrite lookup_insert_ne; [done|]. intros ->. congruence.
    + intros [w' Hw']. destruct (decide (w = w')) as [->|Hne].
      * rewrite lookup_insert in Hw'. injection Hw' as ->. by left.
      * rewrite lookup_insert_ne in Hw' by done. right. eauto.
Qed.

Section preserve.
  Context (J : job) (E : env) (K : list (gset task)).
  Hypothesis wf_nout : ∀ t, is_task J t → 1 ≤ nout J t.
  Hypothesis Hwk : wf_comps J K.

  Lemma hinv_frame s s' hs :
    computable (ctl s') = computable (ctl s) → idle (ctl s') = idle (ctl s) → ongoing (ctl s') = ongoing (ctl s) →
    dispatched s' = dispatched s → HInv E K s hs → HInv E K s' hs.
  Proof.
    intros Ec Ei Eo Ed Hh. constructor.
    - apply (hi_nodes Hh).
    - intros i c t Hc. rewrite Ec. by apply (hi_comp Hh i).
    - intros i c Hc. unfold disp_set. rewrite Ed. by apply (hi_weight Hh i).
    - apply (hi_h2c Hh).
    - intros w Hw. unfold ong. rewrite Eo, Ei. by apply (hi_idle Hh).
  Qed.

  Lemma hinv_init : HInv E K (init J E) (hinit J E K).
  Proof.
    constructor; simpl.
    - rewrite <- list_fmap_compose. clear. induction K as [|X K' IH]; [done|]. csimpl. by rewrite IH.
    - intros i c t Hc. rewrite list_lookup_fmap in Hc. destruct (K !! i) as [X|]; [|done]. injection Hc as <-. simpl.
      rewrite elem_of_filter. done.
    - intros i c Hc. rewrite list_lookup_fmap in Hc. destruct (K !! i) as [X|]; [|done]. injection Hc as <-. simpl.
      unfold disp_set. simpl. f_equal. f_equal. set_solver.
    - intros w h Hw. exists None. split; [|done]. apply lookup_gset_to_gmap_Some. split; [|done].
      apply env_hosts_spec. eauto.
    - intros w Hw _. by apply elem_of_dom.
  Qed.

  Lemma hinv_assign_one s w t srcs s' cmds cs m i c :
    Inv J E s → HInv E K s {| h_cs := cs; h_h2c := m |} → cs !! i = Some c → t ∈ c_nodes c →
    exec J E s (LAssign w t srcs) = Next (s', cmds) → HInv E K s' {| h_cs := pop_task cs i t; h_h2c := m |}.
  Proof.
    intros Hinv Hh Hc Htn Hex. destruct (assign_fields _ _ _ _ _ _ _ _ Hex) as (Htc & Ec & Ei & Eo & Ed).
    pose proof (hinv_K Hh Hc) as HKi. cbn [h_cs h_h2c] in *.
    assert (Hother : ∀ j c', j ≠ i → cs !! j = Some c' → t ∉ c_nodes c').
    { intros j c' Hne Hc' Hin. apply Hne. apply (wk_disj _ _ Hwk j i _ _ t (hinv_K Hh Hc') HKi Hin Htn). }
    assert (Hds : disp_set s' = disp_set s ∪ {[t]}).
    { unfold disp_set. rewrite Ed, fmap_app, list_to_set_app_L. simpl. set_solver. }
    assert (Htnd : t ∉ disp_set s).
    { rewrite disp_set_spec. by destruct (i_comp _ _ _ Hinv _ Htc) as (_ & _ & _ & ?). }
    constructor; simpl.
    - rewrite (cs_le_nodes _ _ (pop_task_le cs i t)). apply (hi_nodes Hh).
    - intros j c' t0 Hc'. unfold pop_task in Hc'. destruct (decide (j = i)) as [->|Hne].
      + rewrite list_lookup_alter, Hc in Hc'. injection Hc' as <-. simpl. rewrite Ec.
        pose proof (hi_comp Hh i c t0 Hc). set_solver.
      + rewrite list_lookup_alter_ne in Hc' by done. rewrite Ec.
        pose proof (hi_comp Hh j c' t0 Hc'). pose proof (Hother j c' Hne Hc'). set_solver.
    - intros j c' Hc'. unfold pop_task in Hc'. rewrite Hds. destruct (decide (j = i)) as [->|Hne].
      + rewrite list_lookup_alter, Hc in Hc'. injection Hc' as <-. simpl.
        rewrite (hi_weight Hh i c Hc).
        assert (Hin : t ∈ c_nodes c ∖ disp_set s) by (apply elem_of_difference; done).
        replace (c_nodes c ∖ (disp_set s ∪ {[t]})) with ((c_nodes c ∖ disp_set s) ∖ {[t]}) by (clear; set_solver).
        rewrite (size_difference (c_nodes c ∖ disp_set s) {[t]}) by (apply singleton_subseteq_l; exact Hin). rewrite size_singleton.
        assert (size (c_nodes c ∖ disp_set s) ≠ 0%nat).
        { intros Hz. apply size_empty_inv in Hz. clear -Hz Hin. set_solver. }
        lia.
      + rewrite list_lookup_alter_ne in Hc' by done. rewrite (hi_weight Hh j c' Hc').
        pose proof (Hother j c' Hne Hc') as Hnot. do 2 f_equal. clear -Hnot. set_solver.
    - intros w0 h Hw0. destruct (hi_h2c Hh _ _ Hw0) as (oc & Hoc & Hb). exists oc. split; [done|].
      unfold pop_task. by rewrite alter_length.
    - intros w0 Hw0. rewrite Eo, Ei. destruct (decide (w = w0)) as [->|Hne]; [set_solver|].
      intros Ho. pose proof (hi_idle Hh w0 Hw0 Ho). set_solver.
  Qed.

  Lemma hinv_assign_seq asg : ∀ srcs s cs I m s',
    List.length asg = List.length srcs → Inv J E s → HInv E K s {| h_cs := cs; h_h2c := m |} →
    (∀ j w t, (j, w, t) ∈ asg → ∃ c, cs !! j = Some c ∧ t ∈ c_nodes c) →
    assign_seq J E s (zip_with (λ (a : cid * worker * task) (x : gmap ds host), (a.1.2, a.2, x)) asg srcs) = Next s' →
    Inv J E s' ∧ HInv E K s' {| h_cs := a_cs (apply_asg {| a_cs := cs; a_idle := I |} asg); h_h2c := m |}.
  Proof.
    induction asg as [|[[j w] t] asg IH]; intros srcs s cs I m s' Hlen Hinv Hh Hn; destruct srcs as [|x srcs]; try done; simpl.
    - intros [= <-]. done.
    - destruct (assign_c J E (ctl s) w t x) as [[c h]| |e|e] eqn:Ha; try done.
      case_bool_decide as Hwq; [done|]. intros Hseq.
      match type of Hseq with assign_seq _ _ ?s1 _ = _ => set (s1' := s1) in * end.
      assert (Hex : ∃ cm, exec J E s (LAssign w t x) = Next (s1', cm)).
      { simpl. rewrite Ha. rewrite bool_decide_eq_false_2 by done. eauto. }
      destruct Hex as [cm Hex].
      pose proof (exec_inv J E wf_nout s (LAssign w t x) Hinv) as Hinv1. rewrite Hex in Hinv1.
      destruct (Hn j w t ltac:(by left)) as (c0 & Hc0 & Ht0).
      pose proof (hinv_assign_one _ _ _ _ _ _ _ _ _ _ Hinv Hh Hc0 Ht0 Hex) as Hh1.
      apply (IH srcs s1' (pop_task cs j t) (I ∖ {[w]}) m s'); [by injection Hlen|done|done| |done].
      intros j' w' t' Hin. destruct (Hn j' w' t' ltac:(by right)) as (c' & Hc' & Ht').
      destruct (cs_le_lookup_r _ _ _ _ (pop_task_le cs j t) Hc') as (c'' & Hc'' & Hnn & _). exists c''. split; [done|]. by rewrite Hnn.
  Qed.

  Lemma hinv_h2c s cs m m' :
    HInv E K s {| h_cs := cs; h_h2c := m |} →
    (∀ h, m' !! h = m !! h ∨ ∃ i, (i < List.length cs)%nat ∧ m' !! h = Some (Some i)) →
    HInv E K s {| h_cs := cs; h_h2c := m' |}.
  Proof.
    intros Hh Hm. constructor; simpl; try apply Hh.
    intros w h Hw. destruct (hi_h2c Hh _ _ Hw) as (oc & Hoc & Hb). simpl in *.
    destruct (Hm h) as [Heq|(i & Hi & Heq)].
    - exists oc. by rewrite Heq.
    - exists (Some i). split; [done|]. by intros ? [= <-].
  Qed.

  (* what one call of assign returns *)
  Lemma heur_assign_spec o hs I asg hs' : heur_assign J E o hs I = Next (asg, hs') →
    h_cs hs' = a_cs (apply_asg {| a_cs := h_cs hs; a_idle := I |} asg) ∧
    (∀ j w t, (j, w, t) ∈ asg → ∃ c, h_cs hs !! j = Some c ∧ t ∈ c_comp c) ∧
    (∀ h, h_h2c hs' !! h = h_h2c hs !! h ∨ ∃ i, (i < List.length (h_cs hs))%nat ∧ h_h2c hs' !! h = Some (Some i)).
  Proof.
    unfold heur_assign. intros Hha.
    apply rbind_Next in Hha as (gs & Hgs & Hha). apply rbind_Next in Hha as (a1 & Ha1 & Hha).
    destruct (stepI_spec _ _ _ _ _ _ Ha1) as [Hs1 _]. simpl in Hs1.
    revert Hha. case_bool_decide; [intros [= <- <-]; simpl; split; [done|]; split; [done|]; by left|].
    case_bool_decide; [intros [= <- <-]; simpl; split; [done|]; split; [done|]; by left|].
    intros Hha. apply rbind_Next in Hha as (ms & Hms & Hha). apply rbind_Next in Hha as ([a2 h2c'] & HsII & Hha).
    injection Hha as <- <-. simpl.
    destruct (stepII_spec _ _ _ _ _ _ _ _ _ _ HsII) as (Hs2 & _ & Hh2).
    set (v0 := {| a_cs := h_cs hs; a_idle := I |}) in *.
    split; [by rewrite apply_asg_app|]. split.
    - intros j w t Hin. apply elem_of_app in Hin as [Hin|Hin]; [exact (Hs1 _ _ _ Hin)|].
      destruct (Hs2 _ _ _ Hin) as (c' & Hc' & Ht).
      destruct (cs_le_lookup_l _ _ _ _ (apply_asg_le a1 v0) Hc') as (c0 & Hc0 & _ & Hsub). exists c0. split; [done|]. set_solver.
    - intros h. destruct (Hh2 h) as [?|(z & i & Hcl & Heq)]; [by left|]. right. exists i. split; [|done].
      apply elem_of_comps_pos in Hcl as (c & Hc & _). apply lookup_lt_Some in Hc.
      by rewrite (cs_le_length _ _ (apply_asg_le a1 v0)) in Hc.
  Qed.

  Lemma new_computable_spec s d t : Inv J E s → t ∈ new_computable (ctl s) d → is_task J t ∧ d ∈ ins J t.
  Proof.
    intros Hinv Ht. unfold new_computable in Ht. apply elem_of_filter in Ht as [Hb _].
    unfold becomes_computable in Hb. destruct (tracker (ctl s) !! t) as [X|] eqn:HX; [|done].
    apply bool_decide_eq_true in Hb. subst X.
    destruct (i_tr _ _ _ Hinv _ _ HX) as (Htask & _ & _ & _ & _ & Heq). split; [done|]. set_solver.
  Qed.

  Lemma hinv_notify s hs ev s' cmds hs' :
    Inv J E s → HInv E K s hs → exec J E s (LDeliver ev) = Next (s', cmds) →
    h_notify hs (ctl s) ev = Next hs' → HInv E K s' hs'.
  Proof.
    intros Hinv Hh Hex Hn. destruct (deliver_fields _ _ _ _ _ _ Hex) as [Hnt Ed].
    destruct (notify_fields _ _ _ _ _ Hnt) as (Ec & Eo & Ei).
    assert (Hidle : ∀ w, is_Some (e_host E !! w) → ong (ctl s') w = ∅ → w ∈ idle (ctl s')).
    { intros w Hw Ho. destruct (Eo w Ho) as [Ho'|?]; [|done]. apply Ei. by apply (hi_idle Hh). }
    assert (Hpay : ev_new (ctl s) ev = ∅ → hs' = hs → HInv E K s' hs').
    { intros Hnew ->. rewrite Hnew in Ec. constructor; try apply Hh; [| |done].
      - intros i c t Hc. rewrite Ec. pose proof (hi_comp Hh i c t Hc). set_solver.
      - intros i c Hc. unfold disp_set. rewrite Ed. by apply (hi_weight Hh i). }
    assert (Hpub : ∀ d, ev_new (ctl s) ev = new_computable (ctl s) d →
              match comp_of (h_cs hs) d.1 with
              | None => Crash "KeyError: state.ts2component"
              | Some i => Next {| h_cs := add_computable (h_cs hs) i (new_computable (ctl s) d); h_h2c := h_h2c hs |}
              end = Next hs' → HInv E K s' hs').
    { intros d Hnew Hn'. rewrite Hnew in Ec. clear Hpay Hn.
      destruct (comp_of (h_cs hs) d.1) as [i|] eqn:Hco; [|done]. injection Hn' as <-.
      unfold comp_of in Hco. destruct (list_find _ _) as [[i' c]|] eqn:Hf; [|done]. injection Hco as ->.
      apply list_find_Some in Hf as (Hc & Hdn & _).
      pose proof (hinv_K Hh Hc) as HKi.
      assert (Hsub : ∀ t, t ∈ new_computable (ctl s) d → t ∈ c_nodes c).
      { intros t Ht. destruct (new_computable_spec _ _ _ Hinv Ht) as [Htask Hd].
        destruct (wk_cover _ _ Hwk _ Htask) as (j & X & HKj & HtX).
        pose proof (wk_closed _ _ Hwk _ _ _ _ HKj HtX Hd) as HdX.
        assert (j = i) as -> by apply (wk_disj _ _ Hwk j i _ _ _ HKj HKi HdX Hdn). congruence. }
      assert (Hother : ∀ j c' t, j ≠ i → h_cs hs !! j = Some c' → t ∈ c_nodes c' → t ∉ new_computable (ctl s) d).
      { intros j c' t Hne Hc' Hin Ht. apply Hne.
        apply (wk_disj _ _ Hwk j i _ _ t (hinv_K Hh Hc') HKi Hin (Hsub _ Ht)). }
      constructor; simpl.
      - unfold add_computable. rewrite fmap_nodes_alter by done. apply (hi_nodes Hh).
      - intros j c' t Hc'. unfold add_computable in Hc'. destruct (decide (j = i)) as [->|Hne].
        + rewrite list_lookup_alter, Hc in Hc'. injection Hc' as <-. simpl. rewrite Ec.
          pose proof (hi_comp Hh i c t Hc). pose proof (Hsub t). set_solver.
        + rewrite list_lookup_alter_ne in Hc' by done. rewrite Ec.
          pose proof (hi_comp Hh j c' t Hc'). pose proof (Hother j c' t Hne Hc'). set_solver.
      - intros j c' Hc'. unfold add_computable in Hc'. unfold disp_set. rewrite Ed. destruct (decide (j = i)) as [->|Hne].
        + rewrite list_lookup_alter, Hc in Hc'. injection Hc' as <-. simpl. by apply (hi_weight Hh i).
        + rewrite list_lookup_alter_ne in Hc' by done. by apply (hi_weight Hh j).
      - intros w h Hw. destruct (hi_h2c Hh _ _ Hw) as (oc & Hoc & Hb). exists oc. split; [done|].
        unfold add_computable. by rewrite alter_length.
      - done. }
    destruct ev as [w d|h d|d v]; simpl in Hn.
    - by apply (Hpub d).
    - by apply (Hpub d).
    - injection Hn as <-. by apply Hpay.
  Qed.
End preserve.

(* ------------------------------------------------------------------ every step of the heuristic-driven system *)
Local Arguments exec : simpl never.

Section system.
  Context (J : job) (E : env) (K : list (gset task)).
  Hypothesis wf_nout : ∀ t, is_task J t → 1 ≤ nout J t.
  Hypothesis Hwk : wf_comps J K.

  Lemma assign_seq_inv asg : ∀ s s', Inv J E s → assign_seq J E s asg = Next s' → Inv J E s'.
  Proof.
    induction asg as [|[[w t] x] asg IH]; intros s s' Hinv; simpl; [by intros [= <-]|].
    pose proof (exec_inv J E wf_nout s (LAssign w t x) Hinv) as Hs.
    destruct (exec J E s (LAssign w t x)) as [[s1 cm]| |e|e]; try done. by apply IH.
  Qed.

  Theorem hexec_inv s hs hl s' hs' :
    Inv J E s → HInv E K s hs → hexec J E (s, hs) hl = Next (s', hs') → Inv J E s' ∧ HInv E K s' hs'.
  Proof.
    intros Hinv Hh. destruct hl as [o srcs|l]; [simpl|].
    - destruct (has_computable (ctl s)).
      + intros Hx. apply rbind_Next in Hx as ([asg hs1] & Hha & Hx). simpl in Hx.
        case_bool_decide as Hlen; [|done]. apply rbind_Next in Hx as (s1 & Hseq & [= <- <-]).
        destruct (heur_assign_spec J E K wf_nout Hwk o hs (idle (ctl s)) asg hs1 Hha) as (Hcs & Hsound & Hm).
        destruct hs as [cs m]. destruct hs1 as [cs1 m1]. simpl in *. subst cs1.
        destruct (hinv_assign_seq J E K wf_nout Hwk asg srcs s cs (idle (ctl s)) m s1 Hlen Hinv Hh) as [Hinv1 Hh1]; [|done|].
        { intros j w t Hin. destruct (Hsound _ _ _ Hin) as (c & Hc & Ht). exists c. split; [done|].
          by apply (hi_comp Hh j c t Hc) in Ht as [_ ?]. }
        split; [done|]. apply (hinv_h2c E K s1 _ m m1 Hh1). intros h. destruct (Hm h) as [?|(i & Hi & ?)]; [by left|].
        right. exists i. split; [|done].
        by rewrite (cs_le_length _ _ (apply_asg_le asg {| a_cs := cs; a_idle := idle (ctl s) |})).
      + case_bool_decide; [|done]. intros [= <- <-]. done.
    - assert (Hframe : ∀ l', frame_label l' → hexec J E (s, hs) (HStep l') = Next (s', hs') → Inv J E s' ∧ HInv E K s' hs').
      { intros l' Hl Hx. pose proof (exec_inv J E wf_nout s l' Hinv) as Hs.
        assert (Hx' : match exec J E s l' with Next (s1, _) => Next (s1, hs) | Disabled => Disabled
                      | Crash e => Crash e | Fail e => Fail e end = Next (s', hs')).
        { destruct l'; simpl in Hx; try done; exact Hx. }
        destruct (exec J E s l') as [[s1 cm]| |e|e] eqn:Hex; try done. injection Hx' as <- <-. split; [done|].
        destruct (frame_fields J E s l' _ _ Hl Hex) as (? & ? & ? & ?). by apply (hinv_frame E K s s1 hs). }
      destruct l as [w t x| |ev|w i|x|x|x]; try (by apply Hframe); simpl.
      + done.
      + pose proof (exec_inv J E wf_nout s (LDeliver ev) Hinv) as Hs.
        destruct (exec J E s (LDeliver ev)) as [[s1 cm]| |e|e] eqn:Hex; try done.
        intros Hx. apply rbind_Next in Hx as (hs1 & Hn & Heq). injection Heq as <- <-. split; [done|].
        by apply (hinv_notify J E K wf_nout Hwk s hs ev s1 cm hs1).
  Qed.

  Theorem hrun_inv ls : ∀ s hs s' hs',
    Inv J E s → HInv E K s hs → hrun J E (s, hs) ls = Next (s', hs') → Inv J E s' ∧ HInv E K s' hs'.
  Proof.
    induction ls as [|l ls IH]; intros s hs s' hs' Hinv Hh; simpl; [by intros [= <- <-]|].
    intros Hx. apply rbind_Next in Hx as ([s1 hs1] & Hex & Hx).
    destruct (hexec_inv _ _ _ _ _ Hinv Hh Hex) as [Hinv1 Hh1]. by apply (IH s1 hs1).
  Qed.

  Corollary hreachable_inv ls s hs :
    hrun J E (init J E, hinit J E K) ls = Next (s, hs) → Inv J E s ∧ HInv E K s hs.
  Proof. apply hrun_inv; [apply inv_init|by apply hinv_init]. Qed.

  (* the assignments of one phase only add to [ongoing] *)
  Lemma assign_seq_ong asg : ∀ s s' w t, assign_seq J E s asg = Next s' → t ∈ ong (ctl s) w → t ∈ ong (ctl s') w.
  Proof.
    induction asg as [|[[w0 t0] x] asg IH]; intros s s' w t; simpl; [by intros [= <-]|].
    destruct (exec J E s (LAssign w0 t0 x)) as [[s1 cm]| |e|e] eqn:Hex; try done.
    intros Hseq Ht. apply (IH s1 s' w t Hseq).
    destruct (assign_fields _ _ _ _ _ _ _ _ Hex) as (_ & _ & _ & Eo & _). rewrite Eo.
    destruct (decide (w0 = w)) as [->|?]; [set_solver|done].
  Qed.

  (* ---------------------------------------------------------------- the assign phase establishes assign_progress *)
  Theorem hassign_progress rank s hs o srcs s1 hs1 :
    wf_dag J rank → feasible J E → Inv J E s → HInv E K s hs → InOrder J s →
    hexec J E (s, hs) (HAssign o srcs) = Next (s1, hs1) → assign_progress (ctl s1).
  Proof.
    intros Hdag Hfe Hinv Hh Hio. simpl. unfold assign_progress.
    destruct (has_computable (ctl s)) eqn:Hhc.
    - intros Hx. apply rbind_Next in Hx as ([asg hs'] & Hha & Hx). simpl in Hx.
      case_bool_decide as Hlen; [|done]. apply rbind_Next in Hx as (s' & Hseq & [= <- <-]). intros _.
      destruct asg as [|[[j w] t] asg].
      + (* nothing assigned: something was running already *)
        destruct srcs; [|done]. simpl in Hseq. injection Hseq as <-.
        intros Hot. apply bool_decide_eq_true in Hhc.
        by apply (heur_assign_nonempty J E K rank s hs o [] hs' Hdag Hwk Hfe Hinv Hh Hio Hot Hhc Hha).
      + destruct srcs as [|x srcs]; [done|]. simpl in Hseq.
        destruct (exec J E s (LAssign w t x)) as [[s1' cm]| |e|e] eqn:Hex; try done.
        destruct (assign_fields _ _ _ _ _ _ _ _ Hex) as (_ & _ & _ & Eo & _).
        assert (Ht : t ∈ ong (ctl s') w).
        { apply (assign_seq_ong _ _ _ _ _ Hseq). rewrite Eo. destruct (decide (w = w)); [set_solver|done]. }
        intros Hot. assert (t ∈ ongoing_total (ctl s')) as Hin by (apply ongoing_total_spec; eauto).
        rewrite Hot in Hin. set_solver.
    - case_bool_decide; [|done]. intros [= <- <-] Hc. apply bool_decide_eq_false in Hhc. by destruct Hhc.
  Qed.
End system.

(* ------------------------------------------------------------------ the decidable form of wf_comps *)
Lemma nodup_bind_disj {A B : Type} (f : A → list B) (l : list A) i j x y b :
  NoDup (l ≫= f) → l !! i = Some x → l !! j = Some y → b ∈ f x → b ∈ f y → i = j.
Proof.
  revert i j. induction l as [|a l IH]; intros i j Hnd Hi Hj Hx Hy; [done|].
  simpl in Hnd. apply NoDup_app in Hnd as (Hnda & Hsep & Hndl).
  destruct i as [|i], j as [|j]; simpl in *.
  - done.
  - injection Hi as ->. exfalso. apply (Hsep b Hx). apply elem_of_list_bind. exists y. split; [done|]. by apply elem_of_list_lookup_2 in Hj.
  - injection Hj as ->. exfalso. apply (Hsep b Hy). apply elem_of_list_bind. exists x. split; [done|]. by apply elem_of_list_lookup_2 in Hi.
  - f_equal. by apply IH.
Qed.

Lemma wf_comps_b_sound J K : wf_comps_b J K = true → wf_comps J K.
Proof.
  unfold wf_comps_b. intros H. apply andb_prop in H as [H Hcl]. apply andb_prop in H as [Hdom Hnd].
  apply bool_decide_eq_true in Hdom, Hnd. rewrite forallb_forall in Hcl.
  constructor.
  - intros t Ht. assert (t ∈ ⋃ K) as Hin by (rewrite <- Hdom; by apply elem_of_dom).
    apply elem_of_union_list in Hin as (X & HX & HtX). apply elem_of_list_lookup in HX as [i Hi]. eauto.
  - intros i X t Hi Ht. apply elem_of_dom. rewrite Hdom. apply elem_of_union_list. exists X. split; [|done].
    by apply elem_of_list_lookup_2 in Hi.
  - intros i j X Y t Hi Hj HX HY. apply (nodup_bind_disj elements K i j X Y t Hnd Hi Hj); by apply elem_of_elements.
  - intros i X t d Hi Ht Hd. apply elem_of_list_lookup_2 in Hi. apply elem_of_list_In in Hi.
    specialize (Hcl X Hi). apply bool_decide_eq_true in Hcl. by apply (Hcl t Ht d Hd).
Qed.

(* ------------------------------------------------------------------ the heuristic never raises *)
Lemma group_add_keys {K : Type} `{EqDecision K} (k : K) w l k' ws :
  (k', ws) ∈ group_add k w l → k' = k ∨ ∃ ws', (k', ws') ∈ l.
Proof.
  induction l as [|[k0 ws0] l IH]; simpl; intros Hin.
  - apply elem_of_list_singleton in Hin. injection Hin as -> _. by left.
  - destruct (decide (k = k0)) as [->|Hne].
    + apply elem_of_cons in Hin as [[= -> _]|Hin]; [by left|]. right. exists ws. by right.
    + apply elem_of_cons in Hin as [[= -> ->]|Hin]; [right; exists ws0; by left|].
      destruct (IH Hin) as [?|[ws' ?]]; [by left|]. right. exists ws'. by right.
Qed.

Lemma groupsI_total E h2c wl : ∀ acc,
  (∀ w, w ∈ wl → ∃ h oc, e_host E !! w = Some h ∧ h2c !! h = Some oc) →
  ∃ gs, groupsI E h2c wl acc = Next gs ∧
        ∀ i ws, (i, ws) ∈ gs → (∃ ws', (i, ws') ∈ acc) ∨
                               ∃ w h, w ∈ wl ∧ e_host E !! w = Some h ∧ h2c !! h = Some (Some i).
Proof.
  induction wl as [|w wl IH]; intros acc Hw; simpl.
  - exists acc. split; [done|]. intros i ws Hin. left. eauto.
  - destruct (Hw w ltac:(by left)) as (h & oc & Hh & Hoc). rewrite Hh, Hoc.
    assert (Hw' : ∀ w0, w0 ∈ wl → ∃ h oc, e_host E !! w0 = Some h ∧ h2c !! h = Some oc) by (intros w0 ?; apply Hw; by right).
    destruct oc as [i0|].
    + destruct (IH (group_add i0 w acc) Hw') as (gs & -> & Hk). exists gs. split; [done|].
      intros i ws Hin. destruct (Hk i ws Hin) as [[ws' Hacc]|(w1 & h1 & ? & ? & ?)].
      * destruct (group_add_keys _ _ _ _ _ Hacc) as [->|?]; [|by left]. right. exists w, h. split; [by left|done].
      * right. exists w1, h1. split; [by right|done].
    + destruct (IH acc Hw') as (gs & -> & Hk). exists gs. split; [done|].
      intros i ws Hin. destruct (Hk i ws Hin) as [?|(w1 & h1 & ? & ? & ?)]; [by left|].
      right. exists w1, h1. split; [by right|done].
Qed.

Lemma awc_total J E o v ws i : (i < List.length (a_cs v))%nat → ∃ a, awc J E o v ws i = Next a.
Proof.
  intros Hi. unfold awc. destruct (lookup_lt_is_Some_2 _ _ Hi) as [c ->].
  destruct (heur o _ (filter (λ w, w ∈ e_gpu E) ws)) as [a1 gw']. destruct (heur o (filter (λ t, t ∉ j_gpu J) _) _) as [a2 gw2]. eauto.
Qed.

Lemma apply_asg_length v a : List.length (a_cs (apply_asg v a)) = List.length (a_cs v).
Proof. apply cs_le_length, apply_asg_le. Qed.

Lemma stepI_total J E o gs : ∀ v, (∀ i ws, (i, ws) ∈ gs → (i < List.length (a_cs v))%nat) → ∃ a, stepI J E o v gs = Next a.
Proof.
  induction gs as [|[i ws] gs IH]; intros v Hb; simpl; [eauto|].
  destruct (awc_total J E o v ws i (Hb i ws ltac:(by left))) as [a ->]. simpl.
  destruct (IH (apply_asg v a)) as [r ->]; [|simpl; eauto].
  intros i' ws' Hin. rewrite apply_asg_length. apply (Hb i' ws'). by right.
Qed.

Lemma migrants_total E h2c cs wl : ∀ acc,
  (∀ w, w ∈ wl → ∃ h oc, e_host E !! w = Some h ∧ h2c !! h = Some oc ∧ ∀ i, oc = Some i → (i < List.length cs)%nat) →
  ∃ ms, migrants E h2c cs wl acc = Next ms.
Proof.
  induction wl as [|w wl IH]; intros acc Hw; simpl; [eauto|].
  destruct (Hw w ltac:(by left)) as (h & oc & -> & -> & Hb).
  assert (Hw' : ∀ w0, w0 ∈ wl → ∃ h oc, e_host E !! w0 = Some h ∧ h2c !! h = Some oc ∧ ∀ i, oc = Some i → (i < List.length cs)%nat)
    by (intros w0 ?; apply Hw; by right).
  destruct oc as [i|]; [|by apply IH].
  destruct (lookup_lt_is_Some_2 _ _ (Hb i eq_refl)) as [c ->]. case_bool_decide; by apply IH.
Qed.

Lemma stepII_total J E o cl ms : ∀ v h2c k,
  (k < List.length cl)%nat → (∀ z i, (z, i) ∈ cl → (i < List.length (a_cs v))%nat) →
  ∃ r, stepII J E o cl v h2c k ms = Next r.
Proof.
  induction ms as [|[h ws] ms IH]; intros v h2c k Hk Hb; simpl; [eauto|].
  destruct (lookup_lt_is_Some_2 _ _ Hk) as [[z i] Hki]. rewrite Hki.
  destruct (awc_total J E o v ws i) as [a ->]; [apply (Hb z i); by apply elem_of_list_lookup_2 in Hki|]. simpl.
  destruct (IH (apply_asg v a) (<[h := Some i]> h2c) (S k mod List.length cl)%nat) as [r ->]; [| |simpl; eauto].
  - apply Nat.mod_upper_bound. lia.
  - intros z' i' Hin. rewrite apply_asg_length. by apply (Hb z' i').
Qed.

Section nocrash.
  Context (J : job) (E : env) (K : list (gset task)).
  Hypothesis wf_nout : ∀ t, is_task J t → 1 ≤ nout J t.
  Hypothesis Hwk : wf_comps J K.

  (* one call of assign returns: no lookup of host2component / components fails *)
  Theorem heur_assign_total s hs o : Inv J E s → HInv E K s hs → ∃ r, heur_assign J E o hs (idle (ctl s)) = Next r.
  Proof.
    intros Hinv Hh. unfold heur_assign.
    assert (Hwl : ∀ w, w ∈ idle (ctl s) → ∃ h oc, e_host E !! w = Some h ∧ h_h2c hs !! h = Some oc ∧
                        ∀ i, oc = Some i → (i < List.length (h_cs hs))%nat).
    { intros w Hw. destruct (i_idle _ _ _ Hinv _ Hw) as ([h Hhw] & _). destruct (hi_h2c Hh _ _ Hhw) as (oc & ? & ?). eauto. }
    destruct (groupsI_total E (h_h2c hs) (order_by (o_workers o) (idle (ctl s))) []) as (gs & -> & Hk).
    { intros w Hw. apply order_by_spec in Hw. destruct (Hwl w Hw) as (h & oc & ? & ? & _). eauto. }
    simpl. destruct (stepI_total J E o gs {| a_cs := h_cs hs; a_idle := idle (ctl s) |}) as [a1 ->].
    { intros i ws Hin. simpl. destruct (Hk i ws Hin) as [[ws' Hn]|(w & h & Hw & Hhw & Hc)]; [by apply elem_of_nil in Hn|].
      apply order_by_spec in Hw. destruct (Hwl w Hw) as (h' & oc & Hh' & Hoc & Hb).
      rewrite Hhw in Hh'. injection Hh' as <-. rewrite Hc in Hoc. injection Hoc as <-. by apply Hb. }
    simpl. case_bool_decide as Hi0; [eauto|]. case_bool_decide as Hcl0; [eauto|].
    set (v1 := apply_asg _ a1) in *.
    destruct (migrants_total E (h_h2c hs) (a_cs v1) (filter (λ w, w ∈ a_idle v1) (order_by (o_workers o) (idle (ctl s)))) []) as [ms ->].
    { intros w Hw. apply elem_of_list_filter in Hw as [_ Hw]. apply order_by_spec in Hw.
      destruct (Hwl w Hw) as (h & oc & ? & ? & Hb). exists h, oc. split; [done|]. split; [done|].
      intros i Hi. unfold v1. rewrite apply_asg_length. by apply Hb. }
    simpl. destruct (stepII_total J E o (comps_pos (a_cs v1)) ms v1 (h_h2c hs) 0) as [r ->]; [| |simpl; eauto].
    - destruct (comps_pos (a_cs v1)); [done|simpl; lia].
    - intros z i Hin. apply elem_of_comps_pos in Hin as (c & Hc & _). by apply lookup_lt_Some in Hc.
  Qed.

  Lemma assign_seq_safe asg : ∀ s, Inv J E s →
    match assign_seq J E s asg with Crash _ | Fail _ => False | _ => True end.
  Proof.
    induction asg as [|[[w t] x] asg IH]; intros s Hinv; simpl; [done|].
    pose proof (exec_inv J E wf_nout s (LAssign w t x) Hinv) as Hs.
    destruct (exec J E s (LAssign w t x)) as [[s1 cm]| |e|e]; try done. by apply IH.
  Qed.

  Lemma h_notify_total s hs ev : Inv J E s → HInv E K s hs → ev ∈ pool s → ∃ hs', h_notify hs (ctl s) ev = Next hs'.
  Proof.
    intros Hinv Hh Hin.
    assert (Hfind : ∀ t : task, is_task J t → is_Some (comp_of (h_cs hs) t)).
    { intros t Ht. destruct (wk_cover _ _ Hwk _ Ht) as (i & X & HK & HX).
      destruct (hinv_K_inv Hh HK) as (c & Hc & Hn). unfold comp_of.
      assert (is_Some (list_find (λ c, t ∈ c_nodes c) (h_cs hs))) as [[j c'] Hf].
      { apply (list_find_elem_of _ _ c); [by apply elem_of_list_lookup_2 in Hc|by rewrite Hn]. }
      rewrite Hf. by eexists. }
    destruct ev as [w d|h d|d v]; simpl; [| |eauto].
    - destruct (i_pub _ _ _ Hinv _ _ Hin) as (_ & _ & Ht & _). destruct d as [p j]. simpl in *. destruct (Hfind p Ht) as [i Hi]. rewrite Hi. eauto.
    - destruct (i_xev _ _ _ Hinv _ _ Hin) as [Hp _]. destruct (i_published _ _ _ Hinv _ Hp) as (Ht & _).
      destruct d as [p j]. simpl in *. destruct (Hfind p Ht) as [i Hi]. rewrite Hi. eauto.
  Qed.

  (* no step of the heuristic-driven system raises (Crash) or asks the cluster for something impossible (Fail) *)
  Theorem hexec_safe s hs hl : Inv J E s → HInv E K s hs →
    match hexec J E (s, hs) hl with Crash _ | Fail _ => False | _ => True end.
  Proof.
    intros Hinv Hh. destruct hl as [o srcs|l]; [simpl|].
    - destruct (has_computable (ctl s)); [|by case_bool_decide].
      destruct (heur_assign_total s hs o Hinv Hh) as [[asg hs1] ->]. simpl.
      case_bool_decide; [|done].
      pose proof (assign_seq_safe (zip_with (λ (a : nat * worker * task) (m : gmap ds host), (a.1.2, a.2, m)) asg srcs) s Hinv) as Hs.
      destruct (assign_seq J E s _) as [s1| |e|e]; done.
    - pose proof (exec_inv J E wf_nout s l Hinv) as Hs.
      destruct l as [w t x| |ev|w i|x|x|x]; unfold hexec; cbv beta iota; try done.
      all: match goal with |- context [exec ?a ?b ?c ?l] => destruct (exec a b c l) as [[s1 cm]| |e|e] eqn:Hex end; try done.
      destruct (h_notify_total s hs ev Hinv Hh) as [hs' ->]; [|done].
      unfold exec in Hex. destruct (list_remove ev (pool s)) as [ps|] eqn:Hrm; [|done]. by apply list_remove_in in Hrm.
  Qed.

  Theorem hrun_safe ls : ∀ s hs, Inv J E s → HInv E K s hs →
    match hrun J E (s, hs) ls with Crash _ | Fail _ => False | _ => True end.
  Proof.
    induction ls as [|l ls IH]; intros s hs Hinv Hh; [done|]. cbn [hrun].
    pose proof (hexec_safe s hs l Hinv Hh) as Hs.
    destruct (hexec J E (s, hs) l) as [[s1 hs1]| |e|e] eqn:Hex; try done. cbn [rbind].
    destruct (hexec_inv J E K wf_nout Hwk s hs l s1 hs1 Hinv Hh Hex) as [Hinv1 Hh1]. by apply IH.
  Qed.

  Corollary hnever_crash_never_fail ls :
    (∀ e, hrun J E (init J E, hinit J E K) ls ≠ Crash e) ∧ (∀ e, hrun J E (init J E, hinit J E K) ls ≠ Fail e).
  Proof.
    pose proof (hrun_safe ls _ _ (inv_init J E) (hinv_init J E K wf_nout Hwk)) as Hr.
    split; intros e He; by rewrite He in Hr.
  Qed.
End nocrash.
