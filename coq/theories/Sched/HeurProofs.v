(* Proofs about Sched/Heur.v: what one call of the assignment heuristic returns (soundness: tasks
   of the right component; progress: a pass never leaves a compatible (idle worker, computable
   task) pair behind), the invariant HInv linking the heuristic's state to the controller state of
   Sched/Model.v, its preservation by every step of the heuristic-driven system, and the theorem
   that the assign phase establishes [assign_progress]. *)
From stdpp Require Import gmap sorting.
From Coq Require Import NArith ZArith String.
From EKW Require Import Sched.Model Sched.Lemmas Sched.Inv Sched.InvInit Sched.InvEnv Sched.InvCtl Sched.Safety
                        Sched.Progress Sched.Heur.
Local Open Scope N_scope.

(* ------------------------------------------------------------------ iteration orders *)
Lemma order_by_spec {A : Type} `{Countable A} (prio : list A) (X : gset A) x : x ∈ order_by prio X ↔ x ∈ X.
Proof.
  unfold order_by. rewrite elem_of_app, !elem_of_list_filter, elem_of_remove_dups, elem_of_elements. split.
  - intros [[? _]|[_ ?]]; done.
  - intros Hx. destruct (decide (x ∈ prio)); auto.
Qed.

Definition in_groups {K : Type} (k : K) (w : worker) (l : list (K * list worker)) : Prop :=
  ∃ ws, (k, ws) ∈ l ∧ w ∈ ws.

Lemma in_groups_add_same {K : Type} `{EqDecision K} (k : K) w l : in_groups k w (group_add k w l).
Proof.
  induction l as [|[k' ws] l IH]; simpl.
  - exists [w]. split; [by left|by left].
  - destruct (decide (k = k')) as [->|Hne].
    + exists (ws ++ [w]). split; [by left|]. apply elem_of_app. right. by left.
    + destruct IH as (ws' & Hin & Hw). exists ws'. split; [by right|done].
Qed.

Lemma in_groups_add_mono {K : Type} `{EqDecision K} (k k' : K) w w' l :
  in_groups k w l → in_groups k w (group_add k' w' l).
Proof.
  induction l as [|[k0 ws0] l IH]; intros (ws & Hin & Hw); [by apply elem_of_nil in Hin|]. simpl.
  apply elem_of_cons in Hin as [Heq|Hin].
  - injection Heq as <- <-. destruct (decide (k' = k)) as [->|Hne].
    + exists (ws ++ [w']). split; [by left|]. apply elem_of_app. by left.
    + exists ws. split; [by left|done].
  - destruct (decide (k' = k0)) as [->|Hne].
    + exists ws. split; [by right|done].
    + destruct IH as (ws' & Hin' & Hw'); [by exists ws|]. exists ws'. split; [by right|done].
Qed.

(* the members of the groups come from the additions *)
Lemma group_add_elem {K : Type} `{EqDecision K} (k k' : K) w ws l :
  (k, ws) ∈ group_add k' w l → ∀ x, x ∈ ws → x = w ∨ in_groups k x l.
Proof.
  induction l as [|[k0 ws0] l IH]; simpl; intros Hin x Hx.
  - apply elem_of_list_singleton in Hin. injection Hin as -> ->. apply elem_of_list_singleton in Hx. by left.
  - destruct (decide (k' = k0)) as [->|Hne].
    + apply elem_of_cons in Hin as [Heq|Hin].
      * injection Heq as -> ->. apply elem_of_app in Hx as [Hx|Hx].
        -- right. exists ws0. split; [by left|done].
        -- apply elem_of_list_singleton in Hx. by left.
      * right. exists ws. split; [by right|done].
    + apply elem_of_cons in Hin as [Heq|Hin].
      * injection Heq as -> ->. right. exists ws0. split; [by left|done].
      * destruct (IH Hin x Hx) as [?|(ws' & Hin' & Hx')]; [by left|]. right. exists ws'. split; [by right|done].
Qed.

(* ------------------------------------------------------------------ pass 1 *)
Lemma find_pop_Some {A : Type} (p : A → bool) l x r :
  find_pop p l = Some (x, r) → p x = true ∧ x ∈ l ∧ (∀ y, y ∈ r → y ∈ l).
Proof.
  revert x r. induction l as [|a l IH]; intros x r; simpl; [done|].
  destruct (p a) eqn:Hpa.
  - intros [= <- <-]. split; [done|]. split; [by left|]. intros y Hy. by right.
  - destruct (find_pop p l) as [[y r']|] eqn:Hf; [|done]. intros [= <- <-].
    destruct (IH _ _ eq_refl) as (Hp & Hin & Hsub). split; [done|]. split; [by right|].
    intros z Hz. apply elem_of_cons in Hz as [->|Hz]; [by left|]. right. auto.
Qed.

Lemma pass1_spec mt ts : ∀ ws a un wr, pass1 mt ts ws = (a, un, wr) →
  (∀ w t, (w, t) ∈ a → w ∈ ws ∧ t ∈ ts) ∧ (∀ t, t ∈ un → t ∈ ts) ∧ (∀ w, w ∈ wr → w ∈ ws) ∧
  (a = [] → un = ts ∧ wr = ws).
Proof.
  induction ts as [|t ts IH]; intros ws a un wr; simpl.
  - intros [= <- <- <-]. split; [intros w0 t0 Hq; by apply elem_of_nil in Hq|]. split; [intros t0 Hq; by apply elem_of_nil in Hq|]. done.
  - destruct (find_pop (λ w, mt w t) ws) as [[w ws']|] eqn:Hf.
    + destruct (pass1 mt ts ws') as [[a' un'] wr'] eqn:Hp. intros [= <- <- <-].
      destruct (IH _ _ _ _ Hp) as (Ha & Hun & Hwr & _).
      destruct (find_pop_Some _ _ _ _ Hf) as (_ & Hw & Hsub).
      split; [|split; [|split]].
      * intros w0 t0 Hin. apply elem_of_cons in Hin as [Heq|Hin].
        -- injection Heq as -> ->. split; [done|by left].
        -- destruct (Ha _ _ Hin). split; [auto|by right].
      * intros t0 Ht0. right. auto.
      * intros w0 Hw0. auto.
      * done.
    + destruct (pass1 mt ts ws) as [[a' un'] wr'] eqn:Hp. intros [= <- <- <-].
      destruct (IH _ _ _ _ Hp) as (Ha & Hun & Hwr & Hnil).
      split; [|split; [|split]].
      * intros w0 t0 Hin. destruct (Ha _ _ Hin). split; [done|by right].
      * intros t0 Ht0. apply elem_of_cons in Ht0 as [->|?]; [by left|right; auto].
      * done.
      * intros ->. destruct (Hnil eq_refl) as [-> ->]. done.
Qed.

(* ------------------------------------------------------------------ pass 2 *)
Lemma elem_of_cands ws ts w t : (w, t) ∈ cands ws ts ↔ w ∈ ws ∧ t ∈ ts.
Proof.
  unfold cands. rewrite elem_of_list_bind. split.
  - intros (w' & Hin & Hw'). apply elem_of_list_fmap in Hin as (t' & [= -> ->] & Ht'). done.
  - intros [Hw Ht]. exists w. split; [|done]. apply elem_of_list_fmap. by exists t.
Qed.

Lemma greedy_elem l : ∀ W T w t, (w, t) ∈ greedy l W T → (w, t) ∈ l ∧ w ∈ W ∧ t ∈ T.
Proof.
  induction l as [|[w' t'] l IH]; intros W T w t; simpl; [intros H; by apply elem_of_nil in H|].
  destruct (bool_decide (t' ∈ T) && bool_decide (w' ∈ W)) eqn:Hc.
  - apply andb_prop in Hc as [Ht' Hw']. apply bool_decide_eq_true in Ht', Hw'.
    intros Hin. apply elem_of_cons in Hin as [Heq|Hin].
    + injection Heq as -> ->. split; [by left|done].
    + destruct (IH _ _ _ _ Hin) as (? & ? & ?). split; [by right|]. set_solver.
  - intros Hin. destruct (IH _ _ _ _ Hin) as (? & ? & ?). split; [by right|done].
Qed.

Lemma greedy_nonempty l : ∀ W T w t, (w, t) ∈ l → w ∈ W → t ∈ T → greedy l W T ≠ [].
Proof.
  induction l as [|[w' t'] l IH]; intros W T w t Hin Hw Ht; [by apply elem_of_nil in Hin|]. simpl.
  destruct (bool_decide (t' ∈ T) && bool_decide (w' ∈ W)) eqn:Hc; [done|].
  apply elem_of_cons in Hin as [Heq|Hin].
  - injection Heq as <- <-. rewrite !bool_decide_eq_true_2 in Hc by done. done.
  - by apply (IH W T w t).
Qed.

Lemma pass2_elem o ws ts w t : (w, t) ∈ pass2 o ws ts → w ∈ ws ∧ t ∈ ts.
Proof.
  unfold pass2. intros Hin. apply greedy_elem in Hin as (Hin & _ & _).
  rewrite merge_sort_Permutation in Hin. by apply elem_of_cands.
Qed.

(* pass 2 does not stop while a (worker, task) pair remains *)
Lemma pass2_nonempty o ws ts w t : w ∈ ws → t ∈ ts → pass2 o ws ts ≠ [].
Proof.
  intros Hw Ht. unfold pass2. apply (greedy_nonempty _ _ _ w t).
  - rewrite merge_sort_Permutation. by apply elem_of_cands.
  - by apply elem_of_list_to_set.
  - by apply elem_of_list_to_set.
Qed.

Lemma heur_spec o ts ws a ws' : heur o ts ws = (a, ws') →
  (∀ w t, (w, t) ∈ a → w ∈ ws ∧ t ∈ ts) ∧ (∀ w, w ∈ ws' → w ∈ ws) ∧ (a = [] → ws' = ws) ∧
  (∀ w t, w ∈ ws → t ∈ ts → a ≠ []).
Proof.
  unfold heur. destruct (pass1 (o_match o) ts ws) as [[a1 un] wr] eqn:Hp. intros [= <- <-].
  destruct (pass1_spec _ _ _ _ _ _ Hp) as (Ha & Hun & Hwr & Hnil).
  split; [|split; [|split]].
  - intros w t Hin. apply elem_of_app in Hin as [Hin|Hin]; [auto|].
    apply pass2_elem in Hin as [? ?]. auto.
  - done.
  - intros Hnil'. apply app_eq_nil in Hnil' as [-> _]. by destruct (Hnil eq_refl).
  - intros w t Hw Ht Hnil'. apply app_eq_nil in Hnil' as [-> Hp2]. destruct (Hnil eq_refl) as [-> ->].
    by apply (pass2_nonempty o ws ts w t).
Qed.
