(* Reference semantics of the array operations behind earthkit.workflows.backends:
   exact rational tensors (Qc = canonical rationals, Leibniz equality), nested
   row-major representation, every axis operation defined by recursion on the shape.
   No proofs here (Backends/TensorProofs.v), so the model still runs if a proof breaks.

   A tensor is {shape; body}.  `valid` (body conforms to shape) is the representation
   invariant of a NumPy array; it is a hypothesis of the theorems and is checked for every
   generated case by the correspondence checker, it is not a run-time check of the code. *)
From Coq Require Import List NArith ZArith QArith Qcanon String Bool Lia.
Import ListNotations.

Inductive res (A : Type) : Type := Ok (a : A) | Err (e : string).
Arguments Ok {A} a.
Arguments Err {A} e.

Definition bind {A B} (r : res A) (f : A -> res B) : res B :=
  match r with Ok a => f a | Err e => Err e end.

Fixpoint mapM {A B} (f : A -> res B) (l : list A) : res (list B) :=
  match l with
  | [] => Ok []
  | x :: r => bind (f x) (fun y => bind (mapM f r) (fun ys => Ok (y :: ys)))
  end.

(* ------------------------------------------------------------------ nested arrays *)
Inductive nd : Type := Leaf (q : Qc) | Node (l : list nd).

Definition children (t : nd) : list nd := match t with Node l => l | Leaf _ => [] end.
Definition leafval (t : nd) : Qc := match t with Leaf q => q | Node _ => 0%Qc end.
(* j-th sub-array; the default is never reached on a valid tensor (j < length) *)
Definition kid (j : nat) (t : nd) : nd := nth j (children t) (Leaf 0%Qc).

Fixpoint conforms (s : list nat) (t : nd) : bool :=
  match s with
  | [] => match t with Leaf _ => true | Node _ => false end
  | m :: r => match t with
              | Node l => Nat.eqb (List.length l) m && forallb (conforms r) l
              | Leaf _ => false
              end
  end.

Record tensor : Type := T { shape : list nat; body : nd }.
Definition valid (t : tensor) : Prop := conforms (shape t) (body t) = true.

(* all values, row-major *)
Fixpoint leaves (s : list nat) (t : nd) : list Qc :=
  match s with
  | [] => [leafval t]
  | _ :: r => flat_map (leaves r) (children t)
  end.

(* ------------------------------------------------------------------ reductions *)
(* element-wise reduction of a list of equally shaped arrays (= reduce the new leading
   axis after stacking): the value at every position is f of the values at that position *)
Fixpoint red0 (f : list Qc -> Qc) (s : list nat) (l : list nd) : nd :=
  match s with
  | [] => Leaf (f (map leafval l))
  | m :: r => Node (map (fun j => red0 f r (map (kid j) l)) (seq 0 m))
  end.

(* first position (row-major) at which the scalar function is undefined *)
Fixpoint first_err {A} (g : A -> option string) (l : list A) : option string :=
  match l with
  | [] => None
  | x :: r => match g x with Some e => Some e | None => first_err g r end
  end.

Fixpoint red0_err (d : list Qc -> option string) (s : list nat) (l : list nd) : option string :=
  match s with
  | [] => d (map leafval l)
  | m :: r => first_err (fun j => red0_err d r (map (kid j) l)) (seq 0 m)
  end.

(* reduction along an axis of one array: pre = sizes before the axis, rest = sizes after it *)
Fixpoint red_ax (f : list Qc -> Qc) (pre rest : list nat) (t : nd) : nd :=
  match pre with
  | [] => red0 f rest (children t)
  | _ :: p => Node (map (red_ax f p rest) (children t))
  end.

Fixpoint red_ax_err (d : list Qc -> option string) (pre rest : list nat) (t : nd) : option string :=
  match pre with
  | [] => red0_err d rest (children t)
  | _ :: p => first_err (red_ax_err d p rest) (children t)
  end.

(* ------------------------------------------------------------------ stack / concat / take *)
(* pre = the sizes of the dimensions in front of the new / joined axis *)
Fixpoint stack_ax (pre : list nat) (l : list nd) : nd :=
  match pre with
  | [] => Node l
  | m :: p => Node (map (fun j => stack_ax p (map (kid j) l)) (seq 0 m))
  end.

Fixpoint concat_ax (pre : list nat) (l : list nd) : nd :=
  match pre with
  | [] => Node (flat_map children l)
  | m :: p => Node (map (fun j => concat_ax p (map (kid j) l)) (seq 0 m))
  end.

Fixpoint take_ax (pre : list nat) (idx : list nat) (t : nd) : nd :=
  match pre with
  | [] => Node (map (fun i => kid i t) idx)
  | _ :: p => Node (map (take_ax p idx) (children t))
  end.

Fixpoint take_int_ax (pre : list nat) (i : nat) (t : nd) : nd :=
  match pre with
  | [] => kid i t
  | _ :: p => Node (map (take_int_ax p i) (children t))
  end.

(* ------------------------------------------------------------------ element-wise binary *)
Fixpoint ew2 (op : Qc -> Qc -> Qc) (s : list nat) (a b : nd) : nd :=
  match s with
  | [] => Leaf (op (leafval a) (leafval b))
  | m :: r => Node (map (fun j => ew2 op r (kid j a) (kid j b)) (seq 0 m))
  end.

Fixpoint ew2_err (d : Qc -> Qc -> option string) (s : list nat) (a b : nd) : option string :=
  match s with
  | [] => d (leafval a) (leafval b)
  | m :: r => first_err (fun j => ew2_err d r (kid j a) (kid j b)) (seq 0 m)
  end.

(* a 0-d value broadcast to a shape *)
Fixpoint full (s : list nat) (q : Qc) : nd :=
  match s with
  | [] => Leaf q
  | m :: r => Node (repeat (full r q) m)
  end.

(* ------------------------------------------------------------------ shapes *)
Definition shape_eqb (a b : list nat) : bool := if list_eq_dec Nat.eq_dec a b then true else false.

Fixpoint set_nth (k : nat) (x : nat) (s : list nat) : list nat :=
  match k, s with
  | _, [] => []
  | O, _ :: r => x :: r
  | S k', y :: r => y :: set_nth k' x r
  end.

Definition remove_nth (k : nat) (s : list nat) : list nat := firstn k s ++ skipn (S k) s.
Definition insert_nth (k : nat) (x : nat) (s : list nat) : list nat := firstn k s ++ x :: skipn k s.

(* Python / NumPy index normalisation: -n <= i < n *)
Definition norm_index (n : nat) (i : Z) : option nat :=
  if ((0 <=? i) && (i <? Z.of_nat n))%Z then Some (Z.to_nat i)
  else if ((- Z.of_nat n <=? i) && (i <? 0))%Z then Some (Z.to_nat (i + Z.of_nat n))
  else None.
