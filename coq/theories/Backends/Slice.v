(* Basic slicing, and `take` answered by a slice.
   XArrayBackend.take / ArrayAPIBackend.take answer a list of positions by fancy indexing
   (Backends/Ops.v take_op: position j of the result along the axis is position l[j] of the
   argument, in the order given, repeats kept).  A list that is an ascending run of consecutive
   positions lo, lo+1, ..., hi inside the axis selects what the slice lo:hi+1 selects; this file
   has the slice, the predicates by which a back-end may recognise such a list, and `take` with
   that shortcut behind a guard (`take_fast`), so that the theorems of Backends/SliceProofs.v
   can say for which guards the shortcut is `take` and for which it is not.
   No proofs here. *)
From Coq Require Import List NArith ZArith QArith Qcanon String Bool Lia.
From EKW Require Import Backends.Tensor Backends.Ops.
Import ListNotations.
Open Scope string_scope.

(* the len sub-arrays from position lo on, along the axis behind the dimensions `pre` *)
Fixpoint slice_ax (pre : list nat) (lo len : nat) (t : nd) : nd :=
  match pre with
  | [] => Node (firstn len (skipn lo (children t)))
  | _ :: p => Node (map (slice_ax p lo len) (children t))
  end.

(* array[..., lo:hi, ...] with 0 <= lo, hi: Python clamps both ends to the size of the axis, it never raises *)
Definition slice_op (t : tensor) (lo hi : nat) (axis : Z) : res tensor :=
  let s := shape t in
  match norm_index (List.length s) axis with
  | None => Err "AxisError"
  | Some a =>
      let n := nth a s 0%nat in
      let h := Nat.min hi n in
      let l := Nat.min lo h in
      Ok (T (set_nth a (h - l) s) (slice_ax (firstn a s) l (h - l) (body t)))
  end.

(* the positions lo, lo+1, ..., lo+len-1 *)
Definition run (lo len : nat) : list Z := map Z.of_nat (seq lo len).

Definition zlast (l : list Z) : Z := last l 0%Z.
Definition zlist_eqb (a b : list Z) : bool := if list_eq_dec Z.eq_dec a b then true else false.

(* at least two positions, the first not negative, each the successor of the one before *)
Definition is_run (l : list Z) : bool :=
  match l with
  | f :: _ :: _ => (0 <=? f)%Z && zlist_eqb l (run (Z.to_nat f) (List.length l))
  | _ => false
  end.

(* ... and the last one inside an axis of n elements (a slice clamps where take raises IndexError) *)
Definition is_run_within (n : nat) (l : list Z) : bool := is_run l && (zlast l <? Z.of_nat n)%Z.

(* what first, last and length alone can tell: as many positions as an ascending run from the first to the last has *)
Definition ends_like_run (l : list Z) : bool :=
  match l with
  | f :: _ :: _ => (0 <=? f)%Z && (zlast l - f + 1 =? Z.of_nat (List.length l))%Z
  | _ => false
  end.

(* take with the shortcut: an index list the guard accepts (the guard sees the size of the axis) is answered by the
   slice from its first to its last position *)
Definition take_fast (guard : nat -> list Z -> bool) (t : tensor) (idx : Z + list Z) (axis : Z) : res tensor :=
  match idx with
  | inl _ => take_op t idx axis
  | inr l =>
      let n := match norm_index (List.length (shape t)) axis with Some a => nth a (shape t) 0%nat | None => 0%nat end in
      if guard n l then slice_op t (Z.to_nat (hd 0%Z l)) (Z.to_nat (zlast l + 1)) axis else take_op t idx axis
  end.
