(* Element types of the arrays behind earthkit.workflows.backends.

   Backends/Ops.v computes with exact rationals and is silent about dtypes.  The code is not:
   whenever several arrays meet (xp.asarray(args), xp.stack, xp.concat, a <op> b, xr.concat) NumPy
   converts every argument to ONE common element type, chosen from ALL the arguments and not from
   their order, and wide enough to hold every argument's values.  A back-end that takes the
   element type from one argument (say the first) casts the others: floats are truncated, wide
   integers wrap, everything collapses to 0/1 for bool.  This file makes that expressible:

     dtype, promote_list   NumPy's common element type of a list of arrays (np.result_type)
     repr d q              the rational q is a value of dtype d
     cast d q              C conversion of a value to dtype d (truncate toward zero, wrap modulo 2^n,
                           non-zero -> True); conversion to a float type is the identity on the
                           values the float type has and is OUTSIDE THE MODEL otherwise (rounding)
     result_dtype          element type of the result of every operation
     apply_t               the typed reference: convert the arguments to the common type, then
                           Backends/Ops.v `apply`

   No proofs here (Backends/DtypeProofs.v). *)
From Coq Require Import List NArith ZArith QArith Qcanon String Bool Lia.
From EKW Require Import Backends.Tensor Backends.Ops.
Import ListNotations.
Open Scope string_scope.

Inductive dtype : Type :=
| DBool | DI8 | DI16 | DI32 | DI64 | DU8 | DU16 | DU32 | DU64 | DF32 | DF64.

Definition all_dtypes : list dtype := [DBool; DI8; DI16; DI32; DI64; DU8; DU16; DU32; DU64; DF32; DF64].

Definition dtype_eqb (a b : dtype) : bool :=
  match a, b with
  | DBool, DBool | DI8, DI8 | DI16, DI16 | DI32, DI32 | DI64, DI64
  | DU8, DU8 | DU16, DU16 | DU32, DU32 | DU64, DU64 | DF32, DF32 | DF64, DF64 => true
  | _, _ => false
  end.

(* ------------------------------------------------------------------ the values of a dtype *)
Inductive kind : Type :=
| KInt (lo hi : Z)               (* the integers lo..hi (bool: 0..1) *)
| KFloat (p kmax emax : Z).      (* binary floating point: p significant bits, multiples of 2^-kmax, magnitude < 2^emax *)

Definition kind_of (d : dtype) : kind :=
  match d with
  | DBool => KInt 0 1
  | DI8 => KInt (-128) 127
  | DI16 => KInt (-32768) 32767
  | DI32 => KInt (-2147483648) 2147483647
  | DI64 => KInt (-9223372036854775808) 9223372036854775807
  | DU8 => KInt 0 255
  | DU16 => KInt 0 65535
  | DU32 => KInt 0 4294967295
  | DU64 => KInt 0 18446744073709551615
  | DF32 => KFloat 24 149 128
  | DF64 => KFloat 53 1074 1024
  end.

Definition repr_int (lo hi : Z) (q : Qc) : bool :=
  Pos.eqb (Qden q) 1 && (lo <=? Qnum q)%Z && (Qnum q <=? hi)%Z.

(* the non-negative integer n has at most p significant bits *)
Definition mant_ok (p n : Z) : bool :=
  let L := (Z.log2 n + 1)%Z in
  if (L <=? p)%Z then true else (n mod 2 ^ (L - p) =? 0)%Z.

(* q = n / 2^k in lowest terms *)
Definition repr_float (p kmax emax : Z) (q : Qc) : bool :=
  let n := Z.abs (Qnum q) in
  let dn := Zpos (Qden q) in
  let k := Z.log2 dn in
  (dn =? 2 ^ k)%Z && (k <=? kmax)%Z && mant_ok p n && (n <? 2 ^ (emax + k))%Z.

Definition repr (d : dtype) (q : Qc) : bool :=
  match kind_of d with
  | KInt lo hi => repr_int lo hi q
  | KFloat p kmax emax => repr_float p kmax emax q
  end.

(* every value of d is a value of D *)
Definition widens (d D : dtype) : bool :=
  match kind_of d, kind_of D with
  | KInt lo hi, KInt lo' hi' => (lo' <=? lo)%Z && (hi <=? hi')%Z
  | KInt lo hi, KFloat p _ _ => (- 2 ^ p <? lo)%Z && (hi <? 2 ^ p)%Z
  | KFloat _ _ _, KInt _ _ => false
  | KFloat p k e, KFloat p' k' e' => (p <=? p')%Z && (k <=? k')%Z && (e <=? e')%Z
  end.

(* ------------------------------------------------------------------ conversion *)
Definition qint (z : Z) : Qc := Q2Qc (inject_Z z).

(* truncate toward zero *)
Definition qtrunc (q : Qc) : Z := Z.quot (Qnum q) (Zpos (Qden q)).

(* two's complement wrap-around into lo..hi *)
Definition wrap (lo hi z : Z) : Z := (lo + (z - lo) mod (hi - lo + 1))%Z.

Definition cast (d : dtype) (q : Qc) : Qc :=
  match d with
  | DBool => if Qeq_bool q 0 then qint 0 else qint 1
  | _ => match kind_of d with
         | KInt lo hi => qint (wrap lo hi (qtrunc q))
         | KFloat _ _ _ => q          (* exact on the values of the type; rounding is outside the model *)
         end
  end.

Fixpoint nd_map (f : Qc -> Qc) (t : nd) : nd :=
  match t with
  | Leaf q => Leaf (f q)
  | Node l => Node (map (nd_map f) l)
  end.

Fixpoint nd_all (P : Qc -> bool) (t : nd) : bool :=
  match t with
  | Leaf q => P q
  | Node l => forallb (nd_all P) l
  end.

Definition convert (D : dtype) (t : tensor) : tensor := T (shape t) (nd_map (cast D) (body t)).
Definition all_repr (d : dtype) (t : tensor) : bool := nd_all (repr d) (body t).

(* ------------------------------------------------------------------ the common element type *)
(* A list of dtypes is summarised by the widest signed, unsigned and floating type in it
   (bits; 0 = none; bool contributes nothing): np.result_type depends on nothing else, in
   particular not on the order.  (It is NOT the left fold of the two-argument promotion:
   int16, uint16, float32 -> float32, although int16+uint16 -> int32 and int32+float32 -> float64.) *)
Definition summ : Type := (N * N * N)%type.

Definition summ_of (d : dtype) : summ :=
  match d with
  | DBool => (0, 0, 0)
  | DI8 => (8, 0, 0) | DI16 => (16, 0, 0) | DI32 => (32, 0, 0) | DI64 => (64, 0, 0)
  | DU8 => (0, 8, 0) | DU16 => (0, 16, 0) | DU32 => (0, 32, 0) | DU64 => (0, 64, 0)
  | DF32 => (0, 0, 32) | DF64 => (0, 0, 64)
  end%N.

Definition merge (a b : summ) : summ :=
  let '(s, u, f) := a in let '(s', u', f') := b in (N.max s s', N.max u u', N.max f f').

Fixpoint summ_list (ds : list dtype) : summ :=
  match ds with
  | [] => (0, 0, 0)%N
  | d :: r => merge (summ_of d) (summ_list r)
  end.

Definition signed_of (b : N) : dtype :=
  if (b <=? 8)%N then DI8 else if (b <=? 16)%N then DI16 else if (b <=? 32)%N then DI32 else DI64.
Definition unsigned_of (b : N) : dtype :=
  if (b <=? 8)%N then DU8 else if (b <=? 16)%N then DU16 else if (b <=? 32)%N then DU32 else DU64.

Definition decode (x : summ) : dtype :=
  let '(s, u, f) := x in
  if (f =? 0)%N then
    if (u =? 0)%N then (if (s =? 0)%N then DBool else signed_of s)
    else if (s =? 0)%N then unsigned_of u
    else if (u <? s)%N then signed_of s            (* the signed type already holds the unsigned one *)
    else if (u <? 64)%N then signed_of (2 * u)     (* next wider signed type *)
    else DF64                                      (* uint64 with a signed type: NumPy gives float64 *)
  else
    (* with a float present every integer type is promoted with the float on its own:
       up to 16 bits fit a float32, wider ones need a float64 *)
    if ((f <=? 32) && (s <=? 16) && (u <=? 16))%N then DF32 else DF64.

Definition promote_list (ds : list dtype) : option dtype :=
  match ds with
  | [] => None
  | _ => Some (decode (summ_list ds))
  end.

Definition promote (a b : dtype) : dtype := decode (merge (summ_of a) (summ_of b)).

(* xp.asarray([a, b, ...]) -- the way ArrayAPIBackend puts the arguments of a multi-argument
   reduction on a new leading axis -- discovers its element type differently: pairwise from the
   left.  On two arguments, and mostly, it is the common type; not always (see DtypeProofs). *)
Definition promote_seq (ds : list dtype) : option dtype :=
  match ds with
  | [] => None
  | d :: r => Some (fold_left promote r d)
  end.

(* ------------------------------------------------------------------ result types *)
(* np.sum / np.prod accumulate small integers in the platform integer *)
Definition acc_dtype (D : dtype) : dtype :=
  match D with
  | DBool | DI8 | DI16 | DI32 | DI64 => DI64
  | DU8 | DU16 | DU32 | DU64 => DU64
  | f => f
  end.

(* mean / std / var / true division of integers are computed in float64 *)
Definition float_dtype (D : dtype) : dtype := match D with DF32 => DF32 | _ => DF64 end.

Definition call_inputs (c : call) : list tensor :=
  match c with
  | CReduce _ ts _ => ts
  | CStack ts _ => ts
  | CConcat ts _ => ts
  | CBin _ a b => [a; b]
  | CTake a _ _ => [a]
  end.

Definition map_inputs (f : tensor -> tensor) (c : call) : call :=
  match c with
  | CReduce n ts ax => CReduce n (map f ts) ax
  | CStack ts ax => CStack (map f ts) ax
  | CConcat ts ax => CConcat (map f ts) ax
  | CBin n a b => CBin n (f a) (f b)
  | CTake a i ax => CTake (f a) i ax
  end.

Definition op_dtype (c : call) (D : dtype) : dtype :=
  match c with
  | CStack _ _ | CConcat _ _ | CTake _ _ _ => D
  | CReduce n _ _ =>
      if (n =? "sum") || (n =? "prod") then acc_dtype D
      else if (n =? "min") || (n =? "max") then D
      else float_dtype D
  | CBin n _ _ =>
      if n =? "divide" then float_dtype D
      else if n =? "power" then (if dtype_eqb D DBool then DI8 else D)
      else D
  end.

(* ds = the element types of the arguments, in order; cd = how the common type is found *)
Definition result_dtype_with (cd : list dtype -> option dtype) (c : call) (ds : list dtype) : option dtype :=
  match cd ds with
  | None => None
  | Some D => Some (op_dtype c D)
  end.

(* the typed reference semantics: every argument is converted to the common element type,
   then the exact operation is applied *)
Definition apply_with (cd : list dtype -> option dtype) (c : call) (ds : list dtype) : res (dtype * tensor) :=
  match cd ds with
  | None => Err "ValueError"
  | Some D =>
      let c' := map_inputs (convert D) c in
      if forallb (all_repr D) (call_inputs c') then
        bind (apply c') (fun t => Ok (op_dtype c D, t))
      else Err "rounding-outside-model"
  end.

(* np.stack, np.concatenate, a <op> b, xr.concat (both back-ends' stack / concat / arithmetic,
   XArrayBackend's multi-argument reductions) *)
Definition result_dtype := result_dtype_with promote_list.
Definition apply_t := apply_with promote_list.
(* xp.asarray(args) (ArrayAPIBackend's multi-argument reductions) *)
Definition result_dtype_seq := result_dtype_with promote_seq.
Definition apply_seq := apply_with promote_seq.

(* which of the two a call of a back-end uses (seq = true: the array-API back-end's multi-argument reductions) *)
Definition common_of (seq : bool) : list dtype -> option dtype := if seq then promote_seq else promote_list.

(* what a back-end does that takes the element type from its FIRST argument (preallocate
   `empty(shape, dtype=args[0].dtype)` and assign): not the code, a foil for the theorems *)
Definition apply_first (c : call) (ds : list dtype) : res (dtype * tensor) :=
  match ds with
  | [] => Err "ValueError"
  | D :: _ => bind (apply (map_inputs (convert D) c)) (fun t => Ok (op_dtype c D, t))
  end.
